// C03 — placement only moves movable cells; everything else is untouched.
//
// Two streams, every case in a forked child (the real code may abort: that is C07's
// subject, here such a case is counted and skipped):
//
//  e<seed>_<k>  the three export functions driven directly with arbitrary vectors
//               (GlobalPlacer::exportPlacement(Circuit&,x,y) [private static, reached with
//               -fno-access-control], Legalizer::exportPlacement on a Legalizer whose
//               protected result vectors are set through a subclass, also with too few
//               cells -> throw after a partial write, DetailedPlacement::exportPlacement on an
//               all-ignored DetailedPlacement with arbitrary cellIndex_ including -1),
//               mirrored line by line by the Lean model (Model/Export.lean).
//  s<seed>_<k>  Circuit::placeGlobal / legalize / placeDetailed and compositions on
//               vc::genCircuit circuits with any mix of fixed cells, with no / an observing /
//               a throwing callback, valid and rejected parameters, feasible and infeasible
//               legalization.  With valid parameters the vectors of a twin run of the algorithm
//               object (Legalizer / DetailedPlacer / GlobalPlacer, same callback schedule, same
//               throwing index) are handed to the Lean export model: the LB/UB float vectors and the
//               blending weight for the final global export (`gfin`: blendPlacement is modelled in
//               binary32), and — when a callback is installed — the vectors the twin exposes at
//               every callback (`gcb` / `dcb`, read from the twin's private members); the circuit
//               the user's callback sees in the real Circuit::placeGlobal/placeDetailed run must be
//               the model's export at every invocation, and the final circuit too, also when the
//               callback throws (the sequence is then cut at that invocation).
//
// Direct oracle (both streams): a snapshot of every public getter of Circuit before and
// after each call and at every callback; only x / y (and, except for global placement,
// the orientation) of non-fixed cells may differ.
#include <cmath>
#include <cstring>
#include <memory>
#include <optional>

#include "common/circuit.hpp"
#include "forkpool/forkpool.hpp"
#include "place_detailed/detailed_placement.hpp"
#include "place_detailed/legalizer.hpp"
#include "place_detailed/place_detailed.hpp"
#include "place_global/place_global.hpp"

using namespace coloquinte;
using fp::ChildOut;
using fp::Job;
using fp::mkJob;

// ------------------------------------------------------------------ snapshot

struct Snap {
  int nbCells = 0, nbNets = 0, nbRows = 0, nbPins = 0;
  std::vector<int> x, y, w, h, orient, fixed, obs, pol;
  std::vector<int> px, py;  // Circuit::x(i), y(i)
  std::vector<int> placedW, placedH;
  std::vector<long long> area;
  std::vector<std::vector<int>> placement;  // minX maxX minY maxY of Circuit::placement(i)
  std::vector<std::vector<int>> rows;       // minX maxX minY maxY orient
  std::vector<int> netLimits, pinCells, rawXo, rawYo;
  std::vector<uint32_t> netWeightBits;
  std::vector<int> nbPinsNet;
  std::vector<int> pinCellGetter, pinXo, pinYo;  // through pinCell(n,i), pinXOffset(n,i), pinYOffset(n,i)
  std::vector<int> area4;                        // computePlacementArea
  std::string rowHeight;                         // value or "throw"
  std::vector<std::vector<int>> solution;        // solution(): x y orient
  std::vector<std::vector<int>> freeRows;        // computeRows(): rows minus fixed obstructions
};

static uint32_t fbits(float f) {
  uint32_t u;
  memcpy(&u, &f, 4);
  return u;
}

static Snap snap(const Circuit &c) {
  Snap s;
  s.nbCells = c.nbCells();
  s.nbNets = c.nbNets();
  s.nbRows = c.nbRows();
  s.nbPins = c.nbPins();
  for (int i = 0; i < c.nbCells(); ++i) {
    s.x.push_back(c.cellX()[i]);
    s.y.push_back(c.cellY()[i]);
    s.w.push_back(c.cellWidth()[i]);
    s.h.push_back(c.cellHeight()[i]);
    s.orient.push_back((int)c.cellOrientation()[i]);
    s.fixed.push_back(c.cellIsFixed()[i]);
    s.obs.push_back(c.cellIsObstruction()[i]);
    s.pol.push_back((int)c.cellRowPolarity()[i]);
    s.px.push_back(c.x(i));
    s.py.push_back(c.y(i));
    s.placedW.push_back(c.placedWidth(i));
    s.placedH.push_back(c.placedHeight(i));
    s.area.push_back(c.area(i));
    Rectangle r = c.placement(i);
    s.placement.push_back({r.minX, r.maxX, r.minY, r.maxY});
    if (c.isFixed(i) != (bool)c.cellIsFixed()[i] || c.isObstruction(i) != (bool)c.cellIsObstruction()[i] ||
        c.orientation(i) != c.cellOrientation()[i])
      s.rowHeight = "inconsistent getters";
  }
  for (const Row &r : c.rows()) s.rows.push_back({r.minX, r.maxX, r.minY, r.maxY, (int)r.orientation});
  s.netLimits = c.netLimits_;
  s.pinCells = c.pinCells_;
  s.rawXo = c.pinXOffsets_;
  s.rawYo = c.pinYOffsets_;
  for (int n = 0; n < c.nbNets(); ++n) {
    s.netWeightBits.push_back(fbits(c.netWeight(n)));
    s.nbPinsNet.push_back(c.nbPinsNet(n));
    for (int p = 0; p < c.nbPinsNet(n); ++p) {
      s.pinCellGetter.push_back(c.pinCell(n, p));
      s.pinXo.push_back(c.pinXOffset(n, p));
      s.pinYo.push_back(c.pinYOffset(n, p));
    }
  }
  Rectangle a = c.computePlacementArea();
  s.area4 = {a.minX, a.maxX, a.minY, a.maxY};
  if (s.rowHeight.empty()) {
    try {
      s.rowHeight = std::to_string(c.rowHeight());
    } catch (const std::exception &) {
      s.rowHeight = "throw";
    }
  }
  for (const auto &p : c.solution()) s.solution.push_back({p.position.x, p.position.y, (int)p.orientation});
  try {
    for (const Row &r : c.computeRows()) s.freeRows.push_back({r.minX, r.maxX, r.minY, r.maxY, (int)r.orientation});
  } catch (const std::exception &) {
    s.freeRows.push_back({-1});
  }
  return s;
}

// The frame comparison.  orientFree: the stage may change the orientation of movable cells.
static std::string frameDiff(const Snap &a, const Snap &b, bool orientFree) {
  std::ostringstream os;
#define SAME(f)                                      \
  if (a.f != b.f) {                                  \
    os << #f << " changed";                          \
    return os.str();                                 \
  }
  SAME(nbCells) SAME(nbNets) SAME(nbRows) SAME(nbPins) SAME(w) SAME(h) SAME(fixed) SAME(obs) SAME(pol) SAME(area)
  SAME(rows) SAME(netLimits) SAME(pinCells) SAME(rawXo) SAME(rawYo) SAME(netWeightBits) SAME(nbPinsNet)
  SAME(pinCellGetter) SAME(area4) SAME(rowHeight) SAME(freeRows)
#undef SAME
  if (a.rowHeight == "inconsistent getters") return "indexed getters disagree with vector getters";
  if ((int)b.solution.size() != b.nbCells) return "solution() has the wrong size";
  for (int i = 0; i < a.nbCells; ++i) {
    bool fx = a.fixed[i];
    if (b.solution[i][0] != b.x[i] || b.solution[i][1] != b.y[i] || b.solution[i][2] != b.orient[i])
      return "solution() disagrees with cellX/cellY/cellOrientation at cell " + std::to_string(i);
    if (fx) {
      if (a.x[i] != b.x[i] || a.y[i] != b.y[i] || a.px[i] != b.px[i] || a.py[i] != b.py[i]) {
        os << "fixed cell " << i << " moved from (" << a.x[i] << "," << a.y[i] << ") to (" << b.x[i] << "," << b.y[i] << ")";
        return os.str();
      }
      if (a.orient[i] != b.orient[i]) {
        os << "fixed cell " << i << " changed orientation " << a.orient[i] << " -> " << b.orient[i];
        return os.str();
      }
      if (a.placedW[i] != b.placedW[i] || a.placedH[i] != b.placedH[i] || a.placement[i] != b.placement[i]) {
        os << "fixed cell " << i << " changed placed geometry";
        return os.str();
      }
    } else if (!orientFree) {
      if (a.orient[i] != b.orient[i]) {
        os << "global placement changed the orientation of cell " << i << ": " << a.orient[i] << " -> " << b.orient[i];
        return os.str();
      }
      if (a.placedW[i] != b.placedW[i] || a.placedH[i] != b.placedH[i]) {
        os << "global placement changed the placed size of cell " << i;
        return os.str();
      }
    }
  }
  // oriented pin offsets: a function of raw offsets, size and orientation of the pin's cell
  {
    size_t k = 0;
    for (int n = 0; n < a.nbNets; ++n)
      for (int p = 0; p < a.nbPinsNet[n]; ++p, ++k) {
        int cell = a.pinCellGetter[k];
        bool mayTurn = orientFree && !a.fixed[cell];
        if (!mayTurn && (a.pinXo[k] != b.pinXo[k] || a.pinYo[k] != b.pinYo[k])) {
          os << "oriented pin offset of net " << n << " pin " << p << " changed";
          return os.str();
        }
      }
  }
  return "";
}

// ------------------------------------------------------------------ generators

static vc::GenOpts pickOpts(vh::Rng &g, bool small) {
  vc::GenOpts o;
  o.maxRows = small ? 4 : 6;
  o.maxCells = small ? 8 : 15;
  o.multiRow = g.chance(2, 3);
  o.turned = g.chance(2, 3);
  o.polarities = g.chance(2, 3);
  o.fixedCells = true;
  o.nets = g.chance(5, 6);
  o.maxUtil = g.chance(1, 4) ? 1.4 : 1.0;
  return o;
}

// genCircuit draws 0..3 fixed cells; make "any mix": additionally fix a random subset, and plant the
// shapes the frame is most easily broken on (measured below in measureShapes):
//   P1 a fixed cell that is NOT an obstruction (a skip test that also looks at the obstruction flag misses it)
//   P2 a fixed cell with a smaller index than a movable cell of another orientation (an export that
//      uses the parallel index of the movable cells on the circuit's vectors hits it)
//   P3 a fixed cell lying outside the rows' bounding box (a clamp into the placement area moves it)
static Circuit makeCircuit(vh::Rng &g, bool small, vc::GenInfo *gi) {
  vc::GenOpts o = pickOpts(g, small);
  Circuit c = vc::genCircuit(g, o, gi);
  int mode = g.range(0, 5);
  int n = c.nbCells();
  std::vector<bool> fx = c.cellIsFixed();
  if (mode == 0) {
    for (size_t i = 0; i < fx.size(); ++i)
      if (g.chance(1, 3)) fx[i] = true;
  } else if (mode == 1) {
    for (size_t i = 0; i < fx.size(); ++i) fx[i] = true;  // everything fixed
  } else if (mode == 2) {
    for (size_t i = 0; i < fx.size(); ++i) fx[i] = false;  // nothing fixed
  }
  if (mode != 1 && mode != 2 && n >= 2 && g.chance(1, 2)) {
    std::vector<bool> ob = c.cellIsObstruction();
    std::vector<int> x = c.cellX(), y = c.cellY();
    std::vector<CellOrientation> orr = c.cellOrientation();
    Rectangle a = c.computePlacementArea();
    int plant = g.range(1, 7);  // bit 0: P1, bit 1: P2, bit 2: P3
    // the planted cell: an early index, so that movable cells follow it
    int k = g.range(0, std::max(0, n / 2 - 1));
    fx[k] = true;
    if (plant & 1) ob[k] = false;
    if (plant & 2) {
      // make its orientation differ from the one of a later movable cell (same turn class: the size is kept)
      for (int j2 = k + 1; j2 < n; ++j2)
        if (!fx[j2]) {
          static const CellOrientation flip[8] = {CellOrientation::S, CellOrientation::N, CellOrientation::E, CellOrientation::W,
                                                  CellOrientation::FS, CellOrientation::FN, CellOrientation::FE, CellOrientation::FW};
          if (orr[k] == orr[j2]) orr[k] = flip[(int)orr[k] & 7];
          break;
        }
    }
    if (plant & 4) {
      switch (g.range(0, 3)) {
        case 0: x[k] = a.maxX + g.range(1, 40); break;
        case 1: x[k] = a.minX - g.range(20, 60); break;
        case 2: y[k] = a.maxY + g.range(1, 40); break;
        default: y[k] = a.minY - g.range(20, 60); break;
      }
    }
    c.setCellIsObstruction(ob);
    c.setCellX(x);
    c.setCellY(y);
    c.setCellOrientation(orr);
  }
  c.setCellIsFixed(fx);
  // the rows in the order the user listed them are part of the frame ("rows identical before and after"): one circuit
  // in three lists them out of order (reversed or shuffled; setupRows and the generator list them bottom-up, left to right)
  if (c.nbRows() >= 2 && g.chance(1, 3)) {
    std::vector<Row> rows = c.rows();
    if (g.chance(1, 2)) std::reverse(rows.begin(), rows.end());
    else for (size_t i = rows.size(); i > 1; --i) std::swap(rows[i - 1], rows[g.range(0, (long long)i - 1)]);
    c.setRows(rows);
  }
  return c;
}

// the measured distribution of the shapes above (prefix: "export" / "stage")
static void measureShapes(ChildOut &co, const std::string &pre, const Circuit &c) {
  int n = c.nbCells();
  Rectangle a = c.computePlacementArea();
  bool p1 = false, p2 = false, p3 = false, p3in = false, lowFixed = false;
  int firstMovable = -1;
  for (int i = 0; i < n; ++i)
    if (!c.isFixed(i) && firstMovable < 0) firstMovable = i;
  for (int i = 0; i < n; ++i) {
    if (!c.isFixed(i)) continue;
    if (!c.isObstruction(i)) p1 = true;
    Rectangle r = c.placement(i);
    bool outside = c.nbRows() > 0 && (r.maxX > a.maxX || r.minX < a.minX || r.maxY > a.maxY || r.minY < a.minY);
    if (outside) p3 = true;
    else p3in = true;
    for (int j = i + 1; j < n; ++j)
      if (!c.isFixed(j)) {
        lowFixed = true;
        if (c.orientation(j) != c.orientation(i)) p2 = true;
      }
  }
  if (p1) co.count(pre + ":shape_fixed_not_obstruction");
  if (p2) co.count(pre + ":shape_fixed_before_movable_of_other_orientation");
  if (lowFixed) co.count(pre + ":shape_fixed_before_movable");
  if (p3) co.count(pre + ":shape_fixed_outside_rows");
  if (p3in) co.count(pre + ":shape_fixed_inside_rows");
  if (p1 && p2 && p3) co.count(pre + ":shape_all_three");
}

static std::string exactFloat(float f) { return vc::exactDouble((double)f); }

static std::vector<float> blend(const std::vector<float> &v1, const std::vector<float> &v2, float b) {
  if (b == 0.0f) return v1;
  if (b == 1.0f) return v2;
  std::vector<float> r;
  for (size_t i = 0; i < v1.size(); ++i) r.push_back((1.0f - b) * v1[i] + b * v2[i]);
  return r;
}

// x - 0.5*w is computed in double by the real code; the Lean model is exact.  True iff they agree.
static bool exactSub(float x, int w) {
  long double e = (long double)x - 0.5L * (long double)w;  // 64-bit mantissa: exact for the magnitudes here
  double d = (double)x - 0.5 * w;
  return std::isfinite(x) && (long double)d == e && std::fabs(d) < 1.0e9;
}

// ------------------------------------------------------------------ export stream

struct TestLegalizer : Legalizer {
  TestLegalizer(const std::vector<Row> &rows, int m)
      : Legalizer(rows, std::vector<int>(m, 1), std::vector<int>(m, 1), std::vector<CellRowPolarity>(m, CellRowPolarity::ANY),
                  std::vector<int>(m, 0), std::vector<int>(m, 0), std::vector<CellOrientation>(m, CellOrientation::N)) {}
  void set(const std::vector<int> &x, const std::vector<int> &y, const std::vector<CellOrientation> &o, const std::vector<bool> &pl) {
    cellToX_ = x;
    cellToY_ = y;
    cellToOrientation_ = o;
    cellIsPlaced_ = pl;
  }
};

static void checkFrame(ChildOut &co, const std::string &what, const Snap &before, const Circuit &after, bool orientFree,
                       const std::string &input) {
  std::string d = frameDiff(before, snap(after), orientFree);
  if (!d.empty()) co.fail(what + ": " + d, input);
}

static void exportCase(ChildOut &co, const std::string &id, vh::Rng &g) {
  vc::GenInfo gi;
  Circuit base = makeCircuit(g, true, &gi);
  int n = base.nbCells();
  int nMov = 0;
  for (int i = 0; i < n; ++i) nMov += !base.isFixed(i);
  std::string input = vc::circuitString(base);
  co.op("case " + id);
  co.impl("case " + id);
  co.opCircuit(base);
  Snap before = snap(base);
  co.count("export:fixed_cells_" + std::to_string(std::min(n - nMov, 4)) + (n - nMov >= 4 ? "+" : ""));
  measureShapes(co, "export", base);
  // --- global
  for (int rep = 0; rep < 2; ++rep) {
    Circuit c = base;
    std::vector<float> xs(n), ys(n);
    std::ostringstream op;
    op << "gexp " << n;
    for (int i = 0; i < n; ++i) {
      // multiples of 1/8 (so that x - 0.5*w is exact in double); halves exercise round-half-away
      xs[i] = (float)g.range(-800, 800) / (g.chance(1, 3) ? 2.0f : 8.0f);
      ys[i] = (float)g.range(-800, 800) / (g.chance(1, 3) ? 2.0f : 8.0f);
      op << " " << exactFloat(xs[i]) << " " << exactFloat(ys[i]);
    }
    GlobalPlacer::exportPlacement(c, xs, ys);
    co.op(op.str());
    co.impl("gexp " + vc::solutionString(c));
    checkFrame(co, "GlobalPlacer::exportPlacement", before, c, false, input + op.str());
    co.eval();
  }
  // --- global, final export: GlobalPlacer::exportPlacement(circuit) blends arbitrary LB / UB vectors (set through
  // the private members of a real GlobalPlacer) with an arbitrary weight
  for (int rep = 0; rep < 2; ++rep) {
    Circuit c = base;
    std::unique_ptr<GlobalPlacer> pl;
    try {
      ColoquinteParameters prm;
      pl.reset(new GlobalPlacer(c, prm));
    } catch (const std::exception &) {
      co.count("export:blend_no_placer");
      break;
    }
    static const std::vector<float> ws = {0.0f, 1.0f, 0.5f, 0.99f, 0.3f, -0.5f, 1.5f};
    float w = g.chance(1, 2) ? g.pick(ws) : (float)g.range(-500, 1500) / 1000.0f;
    pl->params_.global.exportBlending = w;
    auto rnd = [&]() {
      int k = g.range(0, 3);
      if (k == 0) return (float)g.range(-800, 800) / 8.0f;
      if (k == 1) return (float)g.range(-100000, 100000) / 1000.0f;  // not dyadic: every product rounds
      if (k == 2) return (float)g.range(-2000000, 2000000) * 1.37f;
      return (float)g.range(-30, 30);
    };
    std::vector<float> xl(n), xu(n), yl(n), yu(n);
    std::ostringstream op;
    op << "gfin " << exactFloat(w) << " " << n;
    for (int i = 0; i < n; ++i) {
      xl[i] = rnd(); xu[i] = g.chance(1, 4) ? xl[i] : rnd(); yl[i] = rnd(); yu[i] = g.chance(1, 4) ? yl[i] : rnd();
      op << " " << exactFloat(xl[i]) << " " << exactFloat(xu[i]) << " " << exactFloat(yl[i]) << " " << exactFloat(yu[i]);
    }
    pl->xPlacementLB_ = xl; pl->xPlacementUB_ = xu; pl->yPlacementLB_ = yl; pl->yPlacementUB_ = yu;
    std::vector<float> bx = blend(xl, xu, w), by = blend(yl, yu, w);
    bool exact = true;
    for (int i = 0; i < n; ++i)
      if (!base.isFixed(i) && (!exactSub(bx[i], base.placedWidth(i)) || !exactSub(by[i], base.placedHeight(i)))) exact = false;
    pl->exportPlacement(c);
    checkFrame(co, "GlobalPlacer::exportPlacement(circuit)", before, c, false, input + op.str());
    co.eval();
    if (!exact) {
      co.count("export:blend_inexact_subtraction");
      continue;
    }
    co.op(op.str());
    co.impl("gfin " + vc::solutionString(c));
    co.count(w == 0.0f ? "export:blend_weight_0" : w == 1.0f ? "export:blend_weight_1" : "export:blend_weight_other");
  }
  // --- legalizer
  for (int rep = 0; rep < 3; ++rep) {
    Circuit c = base;
    int m = nMov;
    if (rep == 1 && g.chance(1, 2)) m = g.range(0, std::max(0, nMov - 1));  // too few cells: throws after a partial write
    if (rep == 2 && g.chance(1, 2)) m = nMov + g.range(1, 3);               // too many: silently ignored
    TestLegalizer leg(c.rows(), m);
    std::vector<int> x(m), y(m);
    std::vector<CellOrientation> o(m);
    std::vector<bool> pl(m);
    std::ostringstream op;
    op << "lexp " << m;
    for (int j = 0; j < m; ++j) {
      x[j] = g.range(-300, 300);
      y[j] = g.range(-300, 300);
      o[j] = (CellOrientation)g.range(0, 9);
      pl[j] = !g.chance(1, 4);
      op << " " << x[j] << " " << y[j] << " " << (int)o[j] << " " << (int)pl[j];
    }
    leg.set(x, y, o, pl);
    std::string res = "ok";
    try {
      leg.exportPlacement(c);
    } catch (const std::exception &e) {
      res = vc::exClass(e);
    }
    co.count(std::string("export:legal_") + (res == "ok" ? "ok" : "throw"));
    co.op(op.str());
    co.impl("lexp " + res + " " + vc::solutionString(c));
    checkFrame(co, "Legalizer::exportPlacement", before, c, true, input + op.str());
    co.eval();
  }
  // --- detailed placement
  for (int rep = 0; rep < 2; ++rep) {
    Circuit c = base;
    std::vector<int> idx;
    int mode = g.range(0, 3);
    for (int i = 0; i < n; ++i) idx.push_back(i);
    if (mode == 1) {  // a subset (region constructor) followed by the extra -1 cell
      std::vector<int> sub;
      for (int i : idx)
        if (g.chance(1, 2)) sub.push_back(i);
      sub.push_back(-1);
      idx = sub;
    } else if (mode == 2) {  // permuted, with -1 entries and possibly repeated cells
      for (size_t i = idx.size(); i > 1; --i) std::swap(idx[i - 1], idx[g.range(0, i - 1)]);
      for (size_t i = 0; i < idx.size(); ++i)
        if (g.chance(1, 6)) idx[i] = g.chance(1, 2) ? -1 : (int)g.range(0, n - 1);
    }
    int m = idx.size();
    std::vector<int> x(m), y(m), w(m, -1);
    std::vector<CellOrientation> o(m);
    std::vector<CellRowPolarity> pol(m, CellRowPolarity::ANY);
    std::ostringstream op;
    op << "dexp " << m;
    for (int j = 0; j < m; ++j) {
      x[j] = g.range(-300, 300);
      y[j] = g.range(-300, 300);
      o[j] = (CellOrientation)g.range(0, 9);
      op << " " << idx[j] << " " << x[j] << " " << y[j] << " " << (int)o[j];
    }
    DetailedPlacement pl(c.rows(), w, x, y, o, pol, idx);  // every cell ignored: any vectors are accepted
    pl.exportPlacement(c);
    co.op(op.str());
    co.impl("dexp " + vc::solutionString(c));
    checkFrame(co, "DetailedPlacement::exportPlacement", before, c, true, input + op.str());
    co.eval();
  }
  if (n - nMov > 0 && nMov > 0) co.nontrivial(vh::hashStr(input));
  co.sample("export " + id + ": " + std::to_string(n) + " cells, " + std::to_string(n - nMov) + " fixed");
}

// ------------------------------------------------------------------ stage stream

struct CbThrow : std::runtime_error {
  CbThrow() : std::runtime_error("callback throws") {}
};

static ColoquinteParameters pickParams(vh::Rng &g, std::string &kind) {
  ColoquinteParameters p = vc::genParams(g, g.chance(1, 2));
  p.seed = g.range(0, 1000);
  // keep the global placer short: the frame is exercised at every callback anyway
  p.global.maxNbSteps = std::min<int>(p.global.maxNbSteps, g.range(3, 12));
  if (p.global.nbInitialSteps >= p.global.maxNbSteps) p.global.nbInitialSteps = p.global.maxNbSteps - 1;
  // the final export of global placement blends LB and UB: both shortcuts (0, 1) and genuine binary32 blends
  if (g.chance(1, 2)) {
    static const std::vector<float> ws = {0.0f, 1.0f, 0.5f, 0.75f, 0.1f, 0.9f, -0.25f, 1.25f};
    p.global.exportBlending = g.chance(1, 2) ? g.pick(ws) : (float)g.range(-400, 1400) / 1000.0f;
  }
  kind = "valid";
  if (g.chance(1, 10)) {
    kind = "rejected";
    switch (g.range(0, 4)) {
      case 0: p.global.maxNbSteps = -1; break;
      case 1: p.legalization.orderingY = 1.0; break;
      case 2: p.detailed.nbPasses = -1; break;
      case 3: p.legalization.costModel = LegalizationModel::L2; break;
      default: p.global.penalty.initialValue = 0.0f; break;
    }
  }
  return p;
}

// One float as the driver reads it; non-finite values (only possible for cells the export skips) as 0.
static std::string fl(float f) { return exactFloat(std::isfinite(f) ? f : 0.0f); }

// every movable cell's x - 0.5*w / y - 0.5*h exact in double?
static bool exactVectors(const Circuit &c, const std::vector<float> &xs, const std::vector<float> &ys) {
  if ((int)xs.size() != c.nbCells() || (int)ys.size() != c.nbCells()) return false;
  for (int i = 0; i < c.nbCells(); ++i)
    if (!c.isFixed(i) && (!exactSub(xs[i], c.placedWidth(i)) || !exactSub(ys[i], c.placedHeight(i)))) return false;
  return true;
}

static std::string detOp(const char *kw, const DetailedPlacement &dp) {
  std::ostringstream op;
  op << kw << " " << dp.nbCells();
  for (int j = 0; j < dp.nbCells(); ++j)
    op << " " << dp.cellIndex()[j] << " " << dp.cellX(j) << " " << dp.cellY(j) << " " << (int)dp.cellOrientation(j);
  return op.str();
}

// Twin run of the algorithm object with the callback schedule of the real run (cbMode 0: none; otherwise a
// callback that throws at invocation throwAt, -1 = never).  Emits the ops for the Lean export model and
// returns true if emitted; `skipCallbacks`: number of leading invocations of the real run that have no
// counterpart in the twin (the one at the end of DetailedPlacer::legalize).
static bool twinOps(ChildOut &co, char stage, const Circuit &start, const ColoquinteParameters &params, int cbMode, long long throwAt,
                    std::string &why, int &skipCallbacks) {
  skipCallbacks = 0;
  std::vector<std::string> ops;
  long long calls = 0;
  bool inexact = false;
  try {
    // (DetailedPlacer::place whose callback throws at invocation 0 ends inside DetailedPlacer::legalize, after its export)
    if (stage == 'L' || (stage == 'D' && cbMode != 0 && throwAt == 0)) {
      skipCallbacks = 1;
      Circuit c = start;
      params.check();
      Legalizer leg = Legalizer::fromIspdCircuit(c);
      leg.run(params);
      std::ostringstream op;
      op << "lexp " << leg.nbCells();
      for (int j = 0; j < leg.nbCells(); ++j)
        op << " " << leg.cellLegalX()[j] << " " << leg.cellLegalY()[j] << " " << (int)leg.cellLegalOrientation()[j] << " "
           << (int)leg.isPlaced(j);
      co.opCircuit(start);
      co.op(op.str());
      return true;
    }
    if (stage == 'D') {
      Circuit c = start;
      c.legalize(params);
      Circuit legalized = c;
      DetailedPlacer pl(c, params);
      calls = 1;  // invocation 0 of the real run is the one of DetailedPlacer::legalize
      skipCallbacks = cbMode != 0 ? 1 : 0;
      bool threw = false;
      if (cbMode != 0)
        pl.callback_ = [&](PlacementStep) {
          ops.push_back(detOp("dcb", pl.placement_));
          if (calls++ == throwAt) throw CbThrow();
        };
      try {
        pl.check();
        pl.run();
        pl.check();
      } catch (const CbThrow &) {
        threw = true;
      }
      if (!threw) ops.push_back(detOp("dexp", pl.placement_));
      co.opCircuit(legalized);  // the circuit as legalization left it
      for (auto &o : ops) co.op(o);
      return true;
    }
    if (stage == 'G') {
      Circuit c = start;
      params.check();
      GlobalPlacer pl(c, params);
      bool threw = false;
      if (cbMode != 0)
        pl.callback_ = [&](PlacementStep s) {
          // GlobalPlacer::callback is handed the LB vectors at LowerBound steps and the UB vectors otherwise
          const std::vector<float> &xs = s == PlacementStep::LowerBound ? pl.xPlacementLB_ : pl.xPlacementUB_;
          const std::vector<float> &ys = s == PlacementStep::LowerBound ? pl.yPlacementLB_ : pl.yPlacementUB_;
          if (!exactVectors(c, xs, ys)) inexact = true;
          std::ostringstream op;
          op << "gcb " << c.nbCells();
          for (int i = 0; i < c.nbCells() && i < (int)xs.size() && i < (int)ys.size(); ++i) op << " " << fl(xs[i]) << " " << fl(ys[i]);
          ops.push_back(op.str());
          if (calls++ == throwAt) throw CbThrow();
        };
      try {
        pl.run();
      } catch (const CbThrow &) {
        threw = true;
      }
      if (!threw) {
        float w = pl.params_.global.exportBlending;
        std::vector<float> xs = blend(pl.xPlacementLB_, pl.xPlacementUB_, w), ys = blend(pl.yPlacementLB_, pl.yPlacementUB_, w);
        if (!exactVectors(c, xs, ys) || !std::isfinite(w)) inexact = true;
        std::ostringstream op;
        op << "gfin " << exactFloat(w) << " " << c.nbCells();
        for (int i = 0; i < c.nbCells(); ++i)
          op << " " << fl(pl.xPlacementLB_[i]) << " " << fl(pl.xPlacementUB_[i]) << " " << fl(pl.yPlacementLB_[i]) << " " << fl(pl.yPlacementUB_[i]);
        ops.push_back(op.str());
      }
      if (inexact) {
        why = "inexact";
        return false;
      }
      co.opCircuit(start);
      for (auto &o : ops) co.op(o);
      return true;
    }
  } catch (const std::exception &e) {
    why = "twin_throws";
    return false;
  }
  return false;
}

static void stageCase(ChildOut &co, const std::string &id, vh::Rng &g) {
  vc::GenInfo gi;
  Circuit c = makeCircuit(g, g.chance(1, 2), &gi);
  int n = c.nbCells(), nFixed = 0;
  for (int i = 0; i < n; ++i) nFixed += c.isFixed(i);
  static const std::vector<std::string> seqs = {"G", "L", "D", "GL", "GD", "GLD", "LD", "LL", "DD", "GG", "LG", "DGL"};
  std::string seq = g.pick(seqs);
  std::string pkind;
  ColoquinteParameters params = pickParams(g, pkind);
  int cbMode = g.range(0, 2);  // 0 none, 1 observing, 2 throwing at a random invocation
  long long throwAt = cbMode == 2 ? g.range(0, g.chance(1, 2) ? 3 : 40) : -1;
  std::ostringstream hdr;
  hdr << "stages=" << seq << " params=" << pkind << " effortseed=" << params.seed << " cb=" << cbMode << " throwAt=" << throwAt << "|";
  std::string input = hdr.str() + vc::circuitString(c);
  co.op("case " + id);
  co.impl("case " + id);
  Snap initial = snap(c);
  bool allGlobal = true, moved = false;
  co.count("stage:fixed_cells_" + std::to_string(std::min(nFixed, 4)) + (nFixed >= 4 ? "+" : ""));
  co.count(nFixed == n ? "stage:all_fixed" : (nFixed == 0 ? "stage:none_fixed" : "stage:mixed"));
  co.count("stage:params_" + pkind);
  co.count(params.global.exportBlending == 0.0f ? "stage:blend_weight_0" : params.global.exportBlending == 1.0f ? "stage:blend_weight_1" : "stage:blend_weight_other");
  co.count("stage:callback_" + std::string(cbMode == 0 ? "none" : cbMode == 1 ? "observing" : "throwing"));
  measureShapes(co, "stage", c);
  for (size_t si = 0; si < seq.size(); ++si) {
    char st = seq[si];
    bool orientFree = st != 'G';
    // correspondence through the stage wrapper: one export per callback invocation and one at the end
    bool tied = false;
    int skipCb = 0;
    if (pkind == "valid") {
      std::string why;
      tied = twinOps(co, st, c, params, cbMode, throwAt, why, skipCb);
      if (!tied) co.count(std::string("stage:twin_") + st + "_" + why);
    }
    Snap before = snap(c);
    long long calls = 0;
    bool cbThrew = false;
    std::optional<PlacementCallback> cb;
    if (cbMode != 0)
      cb = [&](PlacementStep) {
        // exposed state: the frame must already hold here
        std::string d = frameDiff(before, snap(c), orientFree);
        if (!d.empty()) co.fail(std::string("at callback ") + std::to_string(calls) + " of stage " + st + ": " + d, input);
        if (tied && calls >= skipCb && st != 'L') {
          co.impl(std::string(st == 'G' ? "gcb " : "dcb ") + vc::solutionString(c));
          co.count(std::string("stage:tied_callback_") + st);
        }
        if (calls++ == throwAt) {
          cbThrew = true;
          throw CbThrow();
        }
      };
    std::string res = "ok";
    try {
      if (st == 'G') c.placeGlobal(params, cb);
      else if (st == 'L') c.legalize(params, cb);
      else c.placeDetailed(params, cb);
    } catch (const std::exception &e) {
      res = vc::exClass(e);
    }
    Snap after = snap(c);
    std::string d = frameDiff(before, after, orientFree);
    if (!d.empty()) co.fail(std::string("stage ") + st + " (" + res + "): " + d, input);
    allGlobal = allGlobal && st == 'G';
    d = frameDiff(initial, after, !allGlobal);
    if (!d.empty()) co.fail("composition " + seq.substr(0, si + 1) + " (" + res + "): " + d, input);
    if (before.x != after.x || before.y != after.y || before.orient != after.orient) moved = true;
    co.count(std::string("stage:") + st + "_" + (res == "ok" ? "returned" : cbThrew ? "callback_threw" : pkind == "rejected" ? "rejected_params" : "threw"));
    if (calls > 0) co.count(std::string("stage:") + st + "_callback_invocations", calls);
    if (tied) {
      bool inLegalize = st == 'L' || (st == 'D' && throwAt == 0);
      if (res == "ok" || (cbThrew && inLegalize)) {
        // (a callback of legalization runs after the export: the circuit it leaves by throwing is the exported one)
        std::string opn = st == 'G' ? "gfin " : (st == 'L' || cbThrew) ? "lexp ok " : "dexp ";
        co.impl(opn + vc::solutionString(c));
        co.count(std::string("stage:tied_") + st + (cbMode == 0 ? "" : cbThrew ? "_callback_threw" : "_with_callback"));
      } else if (cbThrew) {
        // the twin stopped at the same invocation: every exposed placement has been compared
        co.count(std::string("stage:tied_") + st + "_callback_threw");
      } else {
        // not a frame violation: shows up as a correspondence difference only
        co.impl("stage-threw " + res);
        co.count(std::string("stage:tied_") + st + "_but_stage_threw");
      }
    }
    co.eval();
  }
  if (nFixed > 0 && nFixed < n && moved) co.nontrivial(vh::hashStr(input));
  co.sample("stage " + id + ": " + hdr.str() + " cells=" + std::to_string(n) + " fixed=" + std::to_string(nFixed));
}

int main(int argc, char **argv) {
  vh::Args a = vh::parseArgs(argc, argv);
  vh::Out out(a.out);
  out.rule =
      "export stream: random circuit (any mix of fixed cells) x arbitrary vectors handed to the three export functions; "
      "stage stream: circuit x stage sequence x parameters x callback mode (none / observing / throwing at a random invocation); "
      "half of the mixed circuits get planted shapes (fixed non-obstruction cell, fixed cell before a movable cell of another "
      "orientation, fixed cell outside the rows: counters *:shape_*).  Non-trivial = the circuit has both fixed and "
      "movable cells (and, for stages, at least one movable cell actually moved); distinct by canonical text of the input";
  std::vector<Job> jobs;
  auto parseId = [&](const std::string &id) {
    if (id.size() < 3 || (id[0] != 'e' && id[0] != 's')) return false;
    size_t us = id.find('_');
    if (us == std::string::npos) return false;
    jobs.push_back(mkJob(id[0], strtoull(id.substr(1, us - 1).c_str(), nullptr, 10), atoll(id.c_str() + us + 1)));
    return true;
  };
  if (!a.replay.empty()) {
    parseId(fp::replayCaseId(a.replay));
    if (jobs.empty()) {
      std::cerr << "cannot find a case id in " << a.replay << "\n";
      return 2;
    }
  } else {
    if (!a.corpus.empty())
      for (auto &ln : vh::readLines(a.corpus + "/cases.txt"))
        if (parseId(ln)) out.count("corpus");
    long long nE = a.thorough() ? 40000 : a.search() ? 12000 : 3000;
    long long nS = a.thorough() ? 30000 : a.search() ? 8000 : 2000;
    if (a.only >= 0) {
      jobs.push_back(mkJob('e', a.seed, a.only));
      jobs.push_back(mkJob('s', a.seed, a.only));
    } else {
      for (long long k = 0; k < nE; ++k) jobs.push_back(mkJob('e', a.seed, k));
      for (long long k = 0; k < nS; ++k) jobs.push_back(mkJob('s', a.seed, k));
    }
  }
  long ncpu = sysconf(_SC_NPROCESSORS_ONLN);
  fp::runJobs(out, jobs, (int)std::max(2l, std::min(16l, ncpu) - 1), [](ChildOut &co, const Job &j) {
    vh::Rng g = vh::Rng::forCase(j.seed, j.k + (j.stream == 's' ? 1000003 : 0));
    if (j.stream == 'e') exportCase(co, j.id, g);
    else stageCase(co, j.id, g);
  });
  out.finish();
  return 0;
}
