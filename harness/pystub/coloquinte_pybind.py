"""Pure-Python stand-in for the compiled module `coloquinte_pybind` (C20).

pybind11 is not available, so pycoloquinte/module.cpp cannot be built.  This
module gives pycoloquinte/coloquinte.py what it imports, with the semantics the
real module would have:

* the enums are built from the *text* of module.cpp (`.value("P", E::C)`) and the
  enumerator values of src/coloquinte.hpp — so a Python name bound to the wrong
  enumerator gets the wrong value here too, exactly as in the compiled module;
* `Circuit` mirrors the C++ `coloquinte::Circuit` for the members the reader uses
  (constructor defaults, setters with their size checks, `addNet`, `rowHeight`,
  `check`), raising the Python exception pybind11 would translate to
  (`std::runtime_error` -> RuntimeError, failed argument conversion -> TypeError).

Only the standard library is used.  The tree to read is $COLOQUINTE_REPO
(default /repo).
"""
import os
import re

_REPO = os.environ.get("COLOQUINTE_REPO", "/repo")


def _strip_comments(s):
    s = re.sub(r"/\*.*?\*/", "", s, flags=re.S)
    return re.sub(r"//[^\n]*", "", s)


def _cpp_enums():
    """{enum name: {enumerator: int}} from src/coloquinte.hpp"""
    src = _strip_comments(open(os.path.join(_REPO, "src", "coloquinte.hpp")).read())
    out = {}
    for m in re.finditer(r"enum\s+class\s+(\w+)\s*(?::\s*\w+\s*)?\{([^}]*)\}", src):
        vals, nxt = {}, 0
        for item in m.group(2).split(","):
            item = item.strip()
            if not item:
                continue
            mm = re.fullmatch(r"(\w+)(?:\s*=\s*(-?\w+))?", item)
            if not mm:
                raise ImportError("cannot parse enumerator %r of %s" % (item, m.group(1)))
            if mm.group(2) is not None:
                v = mm.group(2)
                nxt = vals[v] if v in vals else int(v, 0)
            vals[mm.group(1)] = nxt
            nxt += 1
        out[m.group(1)] = vals
    return out


class _EnumValue:
    """A pybind11 enum value: compares by underlying value, has .name/.value."""
    __slots__ = ("_type", "name", "value")

    def __init__(self, typ, name, value):
        self._type, self.name, self.value = typ, name, value

    def __eq__(self, o):
        return isinstance(o, _EnumValue) and o._type is self._type and o.value == self.value

    def __ne__(self, o):
        return not self.__eq__(o)

    def __hash__(self):
        return hash((id(self._type), self.value))

    def __int__(self):
        return self.value

    def __repr__(self):
        return "<%s.%s: %d>" % (self._type.__name__, self.name, self.value)


def _make_enums():
    cpp = _cpp_enums()
    src = _strip_comments(open(os.path.join(_REPO, "pycoloquinte", "module.cpp")).read())
    enums = {}
    for m in re.finditer(r"py::enum_<\s*(\w+)\s*>\s*\(\s*\w+\s*,\s*\"(\w+)\"\s*\)(.*?);", src, flags=re.S):
        cpp_name, py_name, chain = m.group(1), m.group(2), m.group(3)
        typ = type(py_name, (), {"__members__": {}})
        for v in re.finditer(r"\.value\(\s*\"(\w+)\"\s*,\s*(\w+)::(\w+)", chain):
            name, scope, enumerator = v.group(1), v.group(2), v.group(3)
            val = _EnumValue(typ, name, cpp[scope][enumerator])
            typ.__members__[name] = val
            setattr(typ, name, val)
        typ._cpp_name = cpp_name
        typ._exported = ".export_values()" in chain
        enums[py_name] = typ
    return enums


_enums = _make_enums()
CellOrientation = _enums["CellOrientation"]
CellRowPolarity = _enums["CellRowPolarity"]
LegalizationModel = _enums["LegalizationModel"]
NetModel = _enums["NetModel"]
PlacementStep = _enums["PlacementStep"]
for _t in _enums.values():
    if _t._exported:
        for _n, _v in _t.__members__.items():
            globals()[_n] = _v


def _is_int(v):
    return isinstance(v, int) and not isinstance(v, bool) and -2**31 <= v < 2**31


class Rectangle:
    def __init__(self, min_x, max_x, min_y, max_y):
        for v in (min_x, max_x, min_y, max_y):
            if not _is_int(v):
                raise TypeError("Rectangle(): incompatible constructor arguments")
        self.min_x, self.max_x, self.min_y, self.max_y = min_x, max_x, min_y, max_y

    @property
    def height(self):
        return self.max_y - self.min_y

    @property
    def width(self):
        return self.max_x - self.min_x


class Row(Rectangle):
    def __init__(self, area, orientation):
        if not isinstance(area, Rectangle) or not (isinstance(orientation, _EnumValue) and orientation._type is CellOrientation):
            raise TypeError("Row(): incompatible constructor arguments")
        Rectangle.__init__(self, area.min_x, area.max_x, area.min_y, area.max_y)
        self.orientation = orientation


class _Params:
    def __init__(self, *a, **k):
        pass

    def check(self):
        pass


class ColoquinteParameters(_Params):
    pass


class GlobalPlacerParameters(_Params):
    pass


class LegalizationParameters(_Params):
    pass


class DetailedPlacerParameters(_Params):
    pass


def _conv(seq, ok, what):
    """pybind11's list caster: a copy, or TypeError when an element does not convert."""
    try:
        lst = list(seq)
    except TypeError:
        raise TypeError("incompatible function arguments (%s)" % what)
    for v in lst:
        if not ok(v):
            raise TypeError("incompatible function arguments (%s)" % what)
    return lst


def _is_enum(t):
    return lambda v: isinstance(v, _EnumValue) and v._type is t


def _is_bool(v):
    return isinstance(v, bool)


class Circuit:
    """Mirror of coloquinte::Circuit for what read_ispd touches (src/coloquinte.cpp)."""

    def __init__(self, nb_cells):
        if not _is_int(nb_cells):
            raise TypeError("Circuit(): incompatible constructor arguments")
        n = nb_cells
        self._n = n
        self._w = [0] * n
        self._h = [0] * n
        self._fixed = [False] * n
        self._obs = [True] * n
        self._pol = [CellRowPolarity.__members__["ANY"]] * n
        self._x = [0] * n
        self._y = [0] * n
        self._orient = [_EnumValue(CellOrientation, "N", 0)] * n
        self._rows = []
        self._nets = []   # (cells, xoffs, yoffs, weight)

    def _sized(self, lst):
        if len(lst) != self._n:
            raise RuntimeError("Number of elements is not the same as the number of cells of the circuit")
        return lst

    nb_cells = property(lambda self: self._n)
    nb_nets = property(lambda self: len(self._nets))
    nb_rows = property(lambda self: len(self._rows))
    nb_pins = property(lambda self: sum(len(n[0]) for n in self._nets))

    cell_width = property(lambda self: list(self._w),
                          lambda self, v: setattr(self, "_w", self._sized(_conv(v, _is_int, "cell_width"))))
    cell_height = property(lambda self: list(self._h),
                           lambda self, v: setattr(self, "_h", self._sized(_conv(v, _is_int, "cell_height"))))
    cell_is_fixed = property(lambda self: list(self._fixed),
                             lambda self, v: setattr(self, "_fixed", self._sized(_conv(v, _is_bool, "cell_is_fixed"))))
    cell_is_obstruction = property(lambda self: list(self._obs),
                                   lambda self, v: setattr(self, "_obs", self._sized(_conv(v, _is_bool, "cell_is_obstruction"))))
    cell_row_polarity = property(lambda self: list(self._pol),
                                 lambda self, v: setattr(self, "_pol", self._sized(_conv(v, _is_enum(CellRowPolarity), "cell_row_polarity"))))
    cell_x = property(lambda self: list(self._x),
                      lambda self, v: setattr(self, "_x", self._sized(_conv(v, _is_int, "cell_x"))))
    cell_y = property(lambda self: list(self._y),
                      lambda self, v: setattr(self, "_y", self._sized(_conv(v, _is_int, "cell_y"))))
    cell_orientation = property(lambda self: list(self._orient),
                                lambda self, v: setattr(self, "_orient", self._sized(_conv(v, _is_enum(CellOrientation), "cell_orientation"))))
    rows = property(lambda self: list(self._rows),
                    lambda self, v: setattr(self, "_rows", _conv(v, lambda r: isinstance(r, Row), "rows")))

    @property
    def row_height(self):
        if not self._rows:
            raise RuntimeError("Cannot compute row height as no row has been defined")
        ret = self._rows[0].height
        for r in self._rows:
            if r.height != ret:
                raise RuntimeError("The circuit contains rows of different heights")
        return ret

    def add_net(self, cells, x_offsets, y_offsets, weight=1.0):
        cells = _conv(cells, _is_int, "cells")
        xs = _conv(x_offsets, _is_int, "x_offsets")
        ys = _conv(y_offsets, _is_int, "y_offsets")
        if len(cells) != len(xs) or len(cells) != len(ys):
            raise RuntimeError("Inconsistent number of pins for the net")
        if not cells:
            return
        self._nets.append((cells, xs, ys, float(weight)))

    def check(self):
        pass   # every size invariant of Circuit::check holds by construction here
