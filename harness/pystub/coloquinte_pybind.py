"""Pure-Python stand-in for the compiled module `coloquinte_pybind` (C20).

pybind11 is not available, so pycoloquinte/module.cpp cannot be built.  This
module gives pycoloquinte/coloquinte.py what it imports, in two layers:

1. hand-written mirrors of the C++ classes *under their C++ member names*
   (`_CppRectangle`, `_CppRow`, `_CppCircuit`: constructor defaults, setters with
   their size checks, `addNet`, `rowHeight`, `hpwl`, `check`, ...; see
   src/coloquinte.hpp / src/coloquinte.cpp), raising the Python exception
   pybind11 would translate to (`std::runtime_error` -> RuntimeError, failed
   argument conversion -> TypeError);

2. the Python-visible layer (`Circuit`, `Rectangle`, `Row`, the parameter classes,
   the enums), *generated at import time from the text of module.cpp* with the very
   scanner the translator uses (tools/gen/Bindings.py `parse`): every
   `.def_property("p", &C::g, &C::s)` becomes a Python property `p` whose getter
   calls the mirror's `g` and whose setter calls the mirror's `s`, every
   `.def_readwrite("p", &C::m)` reads/writes the mirror's field `m`, every
   `.def("name", &C::f, py::arg(...)...)` forwards to the mirror's `f`, every
   `.value("P", E::C)` gets the value of enumerator `E::C` of src/coloquinte.hpp.
   So a Python name bound to the wrong C++ member behaves wrongly here too,
   exactly as in the compiled module.  A bound member that has no mirror raises
   `NotImplementedError("not mirrored: C::f")` when it is used (not at import).
   Classes without a mirror (the *Parameters classes) are permissive stand-ins
   that exist only when module.cpp binds them.

Only the standard library (and tools/gen/Bindings.py) is used.  The tree to read
is $COLOQUINTE_REPO (default /repo).  `Circuit._nets` (list of
`(cells, xoffs, yoffs, weight)`) is a stub-internal window on the mirror's nets for
the harness: module.cpp exposes no accessor for nets.
"""
import os
import re
import sys

_REPO = os.environ.get("COLOQUINTE_REPO", "/repo")
_HERE = os.path.dirname(os.path.abspath(__file__))
_TOOLS = os.path.normpath(os.path.join(_HERE, "..", "..", "tools"))


# --------------------------------------------------------------------------
# the binding table of module.cpp
# --------------------------------------------------------------------------

def _binding_table():
    """tools/gen/Bindings.py `parse` on $COLOQUINTE_REPO/pycoloquinte/module.cpp.
    Importing the scanner has no side effects (tools/translate.py and tools/common.py
    only define functions and read environment variables); sys.path is restored."""
    saved = list(sys.path)
    try:
        for p in (_TOOLS, os.path.join(_TOOLS, "gen")):
            sys.path.insert(0, p)
        try:
            import Bindings
            from translate import TranslateError
        except Exception as e:
            raise ImportError("cannot import the module.cpp scanner tools/gen/Bindings.py: %r" % (e,))
    finally:
        sys.path[:] = saved
    path = os.path.join(_REPO, "pycoloquinte", "module.cpp")
    try:
        with open(path, errors="replace") as f:
            src = f.read()
        return Bindings.parse(src)
    except TranslateError as e:
        raise ImportError("cannot scan %s: %s" % (path, e))
    except ImportError:
        raise
    except Exception as e:  # a crash of the scanner is an unreadable module.cpp too
        raise ImportError("cannot scan %s: %r" % (path, e))


def _strip_comments(s):
    s = re.sub(r"/\*.*?\*/", "", s, flags=re.S)
    return re.sub(r"//[^\n]*", "", s)


def _cpp_enums():
    """{enum name: {enumerator: int}} from src/coloquinte.hpp"""
    src = _strip_comments(open(os.path.join(_REPO, "src", "coloquinte.hpp")).read())
    out = {}
    for m in re.finditer(r"enum\s+class\s+(\w+)\s*(?::\s*\w+\s*)?\{([^}]*)\}", src):
        vals, nxt = {}, 0
        for item in m.group(2).split(","):
            item = item.strip()
            if not item:
                continue
            mm = re.fullmatch(r"(\w+)(?:\s*=\s*(-?\w+))?", item)
            if not mm:
                raise ImportError("cannot parse enumerator %r of %s" % (item, m.group(1)))
            if mm.group(2) is not None:
                v = mm.group(2)
                nxt = vals[v] if v in vals else int(v, 0)
            vals[mm.group(1)] = nxt
            nxt += 1
        out[m.group(1)] = vals
    return out


_T = _binding_table()
_CPP_ENUMS = _cpp_enums()


# --------------------------------------------------------------------------
# enums (Python-visible; built from the table and the header)
# --------------------------------------------------------------------------

class _EnumValue:
    """A pybind11 enum value: wraps the C++ value, compares by it, has .value and
    .name (pybind11 looks the name up by value: first registered entry, else "???")."""
    __slots__ = ("_type", "value")

    def __init__(self, typ, value):
        self._type, self.value = typ, value

    @property
    def name(self):
        if self._type is not None:
            for n, v in self._type.__members__.items():
                if v.value == self.value:
                    return n
        return "???"

    def __eq__(self, o):
        return isinstance(o, _EnumValue) and o._type is self._type and o.value == self.value

    def __ne__(self, o):
        return not self.__eq__(o)

    def __hash__(self):
        return hash((id(self._type), self.value))

    def __int__(self):
        return self.value

    def __index__(self):
        return self.value

    def __repr__(self):
        return "<%s.%s: %d>" % (self._type.__name__ if self._type is not None else "?", self.name, self.value)


_enums = {}        # Python name -> enum type
_enum_of_cpp = {}  # C++ enum name -> enum type


def _make_enums():
    for py_name, cpp_name in _T["enums"]:
        if py_name in _enums or cpp_name in _enum_of_cpp:
            raise ImportError("module.cpp: enum %s (%s) is bound twice" % (py_name, cpp_name))
        typ = type(py_name, (), {"__members__": {}, "__module__": __name__})
        typ._cpp_name = cpp_name
        typ._exported = py_name in _T["exported"]
        _enums[py_name] = typ
        _enum_of_cpp[cpp_name] = typ
    for enum_cpp, name, scope, enumerator in _T["enumValues"]:
        typ = _enum_of_cpp[enum_cpp]
        if scope not in _CPP_ENUMS or enumerator not in _CPP_ENUMS[scope]:
            raise ImportError("module.cpp: %s::%s is not an enumerator of src/coloquinte.hpp" % (scope, enumerator))
        if name in typ.__members__:
            raise ImportError("module.cpp: %s: element \"%s\" already exists!" % (typ.__name__, name))
        val = _EnumValue(typ, _CPP_ENUMS[scope][enumerator])
        typ.__members__[name] = val
        setattr(typ, name, val)


_make_enums()


def _cpp_enum_value(cpp_enum, enumerator):
    """The C++ value `cpp_enum::enumerator` (or the integer `enumerator`) as it would
    come back to Python."""
    v = enumerator if isinstance(enumerator, int) else _CPP_ENUMS[cpp_enum][enumerator]
    return _EnumValue(_enum_of_cpp.get(cpp_enum), v)


# --------------------------------------------------------------------------
# type casters (what pybind11 does to arguments and return values)
# --------------------------------------------------------------------------

_py_class_of = {}  # C++ class name -> generated Python-visible class


class _Bound(object):
    """Base of every generated Python-visible class; `_cpp` is the wrapped mirror object."""
    _cpp = None


def _is_int(v):
    return isinstance(v, int) and not isinstance(v, bool) and -2**31 <= v < 2**31


def _is_bool(v):
    return isinstance(v, bool)


def _is_enum(cpp_enum):
    def ok(v):
        t = _enum_of_cpp.get(cpp_enum)
        return t is not None and isinstance(v, _EnumValue) and v._type is t
    return ok


def _self_cpp(obj):
    c = obj._cpp
    if c is None:
        raise TypeError("%s.__init__() must be called when overriding __init__" % type(obj).__name__)
    return c


def _load_obj(v, cpp_class, what):
    """Python object -> the mirror object of a bound C++ class (implicit upcast allowed)."""
    cls = _py_class_of.get(cpp_class)
    if cls is None or not isinstance(v, cls) or v._cpp is None:
        raise TypeError("incompatible function arguments (%s)" % what)
    return v._cpp


def _conv(seq, ok, what, load=None):
    """pybind11's list caster: a copy, or TypeError when an element does not convert."""
    try:
        lst = list(seq)
    except TypeError:
        raise TypeError("incompatible function arguments (%s)" % what)
    if load is not None:
        return [load(v, what) for v in lst]
    for v in lst:
        if not ok(v):
            raise TypeError("incompatible function arguments (%s)" % what)
    return lst


def _to_py(v):
    """C++ return value -> Python object."""
    if isinstance(v, list):
        return [_to_py(x) for x in v]
    if isinstance(v, _CppObject):
        cls = _py_class_of.get(type(v)._cpp_name)
        if cls is None:
            raise TypeError("Unable to convert function return value to a Python type (%s is not bound)" % type(v)._cpp_name)
        o = object.__new__(cls)
        o._cpp = v
        return o
    if isinstance(v, _EnumValue) and v._type is None:
        raise TypeError("Unable to convert function return value to a Python type (enum is not bound)")
    return v


# --------------------------------------------------------------------------
# layer 1: hand-written mirrors of the C++ classes, C++ member names
# --------------------------------------------------------------------------

class _CppObject(object):
    _cpp_name = None
    _cpp_fields = {}    # public data member -> predicate "this Python value converts to the member's type"
    _cpp_methods = ()   # public methods that are mirrored
    _stub_attrs = ()    # stub-internal attributes shown on the Python object (not bindings)

    def _copy(self):
        o = object.__new__(type(self))
        o.__dict__.update(self.__dict__)
        return o


def _no_ctor(cls, n):
    raise NotImplementedError("not mirrored: %s::%s/%d" % (cls, cls, n))


class _CppRectangle(_CppObject):
    """struct Rectangle (src/coloquinte.hpp)"""
    _cpp_name = "Rectangle"
    _cpp_fields = {"minX": _is_int, "maxX": _is_int, "minY": _is_int, "maxY": _is_int}
    _cpp_methods = ("width", "height", "area", "toString")

    def __init__(self, *a):
        if len(a) == 0:
            a = (0, 0, 0, 0)
        elif len(a) != 4:
            _no_ctor("Rectangle", len(a))
        for v in a:
            if not _is_int(v):
                raise TypeError("Rectangle(): incompatible constructor arguments")
        self.minX, self.maxX, self.minY, self.maxY = a

    def width(self):
        return self.maxX - self.minX

    def height(self):
        return self.maxY - self.minY

    def area(self):
        return self.width() * self.height()

    def toString(self):
        return "Rectangle %d..%d x %d..%d" % (self.minX, self.maxX, self.minY, self.maxY)


class _CppRow(_CppRectangle):
    """struct Row : public Rectangle"""
    _cpp_name = "Row"
    _cpp_fields = {"orientation": _is_enum("CellOrientation")}
    _cpp_methods = ()

    def __init__(self, *a):
        if len(a) == 2:      # Row(Rectangle a, CellOrientation orient)
            try:
                r = _load_obj(a[0], "Rectangle", "area")
            except TypeError:
                raise TypeError("Row(): incompatible constructor arguments")
            coords, orient = (r.minX, r.maxX, r.minY, r.maxY), a[1]
        elif len(a) == 5:    # Row(int minX, int maxX, int minY, int maxY, CellOrientation orient)
            coords, orient = a[:4], a[4]
        else:
            _no_ctor("Row", len(a))
        if not _is_enum("CellOrientation")(orient) or not all(_is_int(v) for v in coords):
            raise TypeError("Row(): incompatible constructor arguments")
        _CppRectangle.__init__(self, *coords)
        self.orientation = orient


_SIZE_MSG = "Number of elements is not the same as the number of cells of the circuit"


class _CppCircuit(_CppObject):
    """class Circuit (src/coloquinte.hpp, src/coloquinte.cpp) for what the Python reader can reach."""
    _cpp_name = "Circuit"
    _cpp_methods = ("nbCells", "nbNets", "nbRows", "nbPins",
                    "cellWidth", "setCellWidth", "cellHeight", "setCellHeight",
                    "cellIsFixed", "setCellIsFixed", "cellIsObstruction", "setCellIsObstruction",
                    "cellRowPolarity", "setCellRowPolarity", "cellX", "setCellX", "cellY", "setCellY",
                    "cellOrientation", "setCellOrientation", "rows", "setRows", "rowHeight",
                    "computePlacementArea", "addNet", "hpwl", "check", "toString")
    _stub_attrs = ("_nets",)

    def __init__(self, *a):
        if len(a) != 1:
            _no_ctor("Circuit", len(a))
        n = a[0]
        if not _is_int(n):
            raise TypeError("Circuit(): incompatible constructor arguments")
        self._n = n
        self._cellWidth = [0] * n
        self._cellHeight = [0] * n
        self._cellIsFixed = [False] * n
        self._cellIsObstruction = [True] * n
        self._cellRowPolarity = [_cpp_enum_value("CellRowPolarity", "ANY")] * n
        self._cellX = [0] * n
        self._cellY = [0] * n
        self._cellOrientation = [_cpp_enum_value("CellOrientation", 0)] * n   # value-initialised
        self._rows = []
        self._nets = []   # (cells, xoffs, yoffs, weight)
        self.check()

    def _sized(self, lst):
        if len(lst) != self.nbCells():
            raise RuntimeError(_SIZE_MSG)
        return lst

    def nbCells(self):
        return len(self._cellWidth)

    def nbNets(self):
        return len(self._nets)

    def nbRows(self):
        return len(self._rows)

    def nbPins(self):
        return sum(len(n[0]) for n in self._nets)

    def cellX(self):
        return list(self._cellX)

    def setCellX(self, x):
        self._cellX = self._sized(_conv(x, _is_int, "x"))

    def cellY(self):
        return list(self._cellY)

    def setCellY(self, y):
        self._cellY = self._sized(_conv(y, _is_int, "y"))

    def cellIsFixed(self):
        return list(self._cellIsFixed)

    def setCellIsFixed(self, f):
        self._cellIsFixed = self._sized(_conv(f, _is_bool, "f"))

    def cellIsObstruction(self):
        return list(self._cellIsObstruction)

    def setCellIsObstruction(self, f):
        self._cellIsObstruction = self._sized(_conv(f, _is_bool, "f"))

    def cellRowPolarity(self):
        return list(self._cellRowPolarity)

    def setCellRowPolarity(self, f):
        self._cellRowPolarity = self._sized(_conv(f, _is_enum("CellRowPolarity"), "f"))

    def cellWidth(self):
        return list(self._cellWidth)

    def setCellWidth(self, widths):
        self._cellWidth = self._sized(_conv(widths, _is_int, "widths"))

    def cellHeight(self):
        return list(self._cellHeight)

    def setCellHeight(self, heights):
        self._cellHeight = self._sized(_conv(heights, _is_int, "heights"))

    def cellOrientation(self):
        return list(self._cellOrientation)

    def setCellOrientation(self, orient):
        self._cellOrientation = self._sized(_conv(orient, _is_enum("CellOrientation"), "orient"))

    def rows(self):
        return [r._copy() for r in self._rows]

    def setRows(self, r):
        self._rows = [x._copy() for x in _conv(r, None, "r", load=lambda v, what: _load_obj(v, "Row", what))]

    def addNet(self, cells, xOffsets, yOffsets, weight=1.0):
        cells = _conv(cells, _is_int, "cells")
        xs = _conv(xOffsets, _is_int, "xOffsets")
        ys = _conv(yOffsets, _is_int, "yOffsets")
        weight = float(weight)
        if len(cells) != len(xs) or len(cells) != len(ys):
            raise RuntimeError("Inconsistent number of pins for the net")
        for c in cells:
            if c < 0 or c >= self.nbCells():
                raise RuntimeError("Net pin refers to a cell that is not in the circuit")
        if not cells:
            return
        self._nets.append((cells, xs, ys, weight))

    def computePlacementArea(self):
        if not self._rows:
            return _CppRectangle(0, 0, 0, 0)
        return _CppRectangle(min(r.minX for r in self._rows), max(r.maxX for r in self._rows),
                             min(r.minY for r in self._rows), max(r.maxY for r in self._rows))

    def rowHeight(self):
        if self.nbRows() == 0:
            raise RuntimeError("Cannot compute row height as no row has been defined")
        ret = self._rows[0].height()
        for r in self._rows:
            if r.height() != ret:
                raise RuntimeError("The circuit contains rows of different heights")
        return ret

    def hpwl(self):
        O = _CPP_ENUMS["CellOrientation"]
        turn = (O["E"], O["W"], O["FW"], O["FE"])
        flip_x = (O["S"], O["W"], O["FN"], O["FE"])
        flip_y = (O["S"], O["E"], O["FS"], O["FE"])
        ret = 0
        for cells, xo, yo, _ in self._nets:
            px, py = [], []
            for k, c in enumerate(cells):
                o = self._cellOrientation[c].value
                w, h = self._cellWidth[c], self._cellHeight[c]
                pw, ph = (h, w) if o in turn else (w, h)
                ox, oy = (yo[k], xo[k]) if o in turn else (xo[k], yo[k])
                px.append(self._cellX[c] + (pw - ox if o in flip_x else ox))
                py.append(self._cellY[c] + (ph - oy if o in flip_y else oy))
            ret += (max(px) - min(px)) + (max(py) - min(py))
        return ret

    def toString(self):
        return "Circuit with %d cells, %d nets and %d pins" % (self.nbCells(), self.nbNets(), self.nbPins())

    def check(self):
        n = self.nbCells()
        for lst in (self._cellWidth, self._cellHeight, self._cellIsFixed, self._cellIsObstruction,
                    self._cellX, self._cellY, self._cellOrientation):
            if len(lst) != n:
                raise RuntimeError("Size mismatch")
        for cells, xs, ys, _ in self._nets:
            if len(xs) != len(cells) or len(ys) != len(cells):
                raise RuntimeError("Size mismatch")


_MIRRORS = {"Rectangle": _CppRectangle, "Row": _CppRow, "Circuit": _CppCircuit}


# --------------------------------------------------------------------------
# layer 2: the Python-visible classes, generated from the binding table
# --------------------------------------------------------------------------

def _declares(mirror, kind, name):
    return any(name in k.__dict__.get(kind, ()) for k in mirror.__mro__)


def _member(S, C, name, kind):
    """The mirror class holding member `C::name` as bound in class S, or NotImplementedError."""
    ms, mc = _MIRRORS.get(S), _MIRRORS.get(C)
    if ms is None or mc is None or not issubclass(ms, mc) or not _declares(mc, kind, name):
        raise NotImplementedError("not mirrored: %s::%s" % (C, name))
    return mc


def _call(obj, S, C, f, args):
    mc = _member(S, C, f, "_cpp_methods")
    return _to_py(getattr(mc, f)(_self_cpp(obj), *args))


def _bind_args(where, names, args, kwargs, defaults):
    """Positional argument tuple from a Python call, with the keyword names given by py::arg."""
    if not kwargs and (defaults is None or len(args) >= len(names)):
        return tuple(args)
    out = list(args)
    if len(out) > len(names):
        raise TypeError("%s(): incompatible function arguments" % where)
    kwargs = dict(kwargs)
    for nm in names[len(out):]:
        if nm in kwargs:
            out.append(kwargs.pop(nm))
        elif defaults is not None and nm in defaults:
            out.append(defaults[nm])
        elif defaults is not None:
            raise TypeError("%s(): incompatible function arguments (missing %s)" % (where, nm))
        else:
            break   # defaults are not in the table: left to the mirror (the C++ default)
    if kwargs:
        raise TypeError("%s(): incompatible function arguments (keywords %s)" % (where, ", ".join(sorted(kwargs))))
    return tuple(out)


def _arg_names(S, name):
    return [a for (s, n, a) in _T["argNames"] if s == S and n == name]


def _arg_defaults(S, name):
    """`py::arg("a") = literal` when the table records it as argDefaults (S, name, a, literal)."""
    if "argDefaults" not in _T:
        return None
    out = {}
    for (s, n, a, lit) in _T["argDefaults"]:
        if s == S and n == name:
            try:
                out[a] = int(lit, 0)
            except ValueError:
                out[a] = float(lit)
    return out


def _make_rw(S, p, C, g, D, s):
    def fget(self):
        return _call(self, S, C, g, ())

    def fset(self, v):
        _call(self, S, D, s, (v,))
    return property(fget, fset, doc="def_property(%s, &%s::%s, &%s::%s)" % (p, C, g, D, s))


def _make_ro(S, p, C, g):
    def fget(self):
        return _call(self, S, C, g, ())
    return property(fget, doc="def_property_readonly(%s, &%s::%s)" % (p, C, g))


def _make_attr(S, p, C, m):
    def fget(self):
        _member(S, C, m, "_cpp_fields")
        return _to_py(getattr(_self_cpp(self), m))

    def fset(self, v):
        mc = _member(S, C, m, "_cpp_fields")
        ok = [k.__dict__["_cpp_fields"][m] for k in mc.__mro__ if m in k.__dict__.get("_cpp_fields", ())][0]
        if not ok(v):
            raise TypeError("incompatible function arguments (%s)" % p)
        setattr(_self_cpp(self), m, v)
    return property(fget, fset, doc="def_readwrite(%s, &%s::%s)" % (p, C, m))


def _make_method(S, name, C, f, names, defaults):
    def method(self, *args, **kwargs):
        return _call(self, S, C, f, _bind_args(name, names, args, kwargs, defaults))
    method.__name__ = name
    method.__doc__ = "def(%s, &%s::%s)" % (name, C, f)
    return method


def _make_init(py, S, mirror, ctors):
    """ctors: [(arity, names)] in binding order."""
    def __init__(self, *args, **kwargs):
        if not ctors:
            raise TypeError("%s: No constructor defined!" % py)
        for arity, names in ctors:
            try:
                a = _bind_args(py, names, args, kwargs, None)
            except TypeError:
                continue
            if len(a) != arity:
                continue
            self._cpp = mirror(*a)
            return
        raise TypeError("%s(): incompatible constructor arguments" % py)
    return __init__


def _constructors(S):
    arities = [0 if not types.strip() else len(types.split(",")) for (s, types) in _T["constructors"] if s == S]
    names = _arg_names(S, "__init__")
    out, i = [], 0
    for n in arities:
        if len(names) == sum(arities):   # every constructor names all its arguments
            out.append((n, names[i:i + n]))
            i += n
        else:
            out.append((n, names if len(arities) == 1 else []))
    return out


def _noop(name):
    if name in ("__str__", "__repr__"):
        def method(self, *a, **k):
            return "<%s>" % type(self).__name__
    else:
        def method(self, *a, **k):
            return None
    method.__name__ = name
    return method


def _make_class(py, S):
    bases = []
    for (s, b) in _T["bases"]:
        if s == S:
            if b not in _py_class_of:
                raise ImportError("module.cpp: class %s: referenced unknown base type %s" % (py, b))
            bases.append(_py_class_of[b])
    ns = {"__module__": __name__, "_cpp_class": S, "__doc__": "py::class_<%s>(m, \"%s\")" % (S, py)}
    mirror = _MIRRORS.get(S)
    if mirror is None:
        # permissive stand-in: any constructor arguments, plain Python attributes, bound methods do nothing
        ns["__init__"] = lambda self, *a, **k: None
        for (s, name, C, f) in _T["methods"] + _T["lambdas"]:
            if s == S:
                ns[name] = _noop(name)
    else:
        ns["__init__"] = _make_init(py, S, mirror, _constructors(S))
        for (s, p, C, g, D, st) in _T["rwProperties"]:
            if s == S:
                ns[p] = _make_rw(S, p, C, g, D, st)
        for (s, p, C, g) in _T["roProperties"]:
            if s == S:
                ns[p] = _make_ro(S, p, C, g)
        for (s, p, C, m) in _T["attributes"]:
            if s == S:
                ns[p] = _make_attr(S, p, C, m)
        for (s, name, C, f) in _T["methods"]:
            if s == S:
                ns[name] = _make_method(S, name, C, f, _arg_names(S, name), _arg_defaults(S, name))
        for (s, name, C, f) in _T["lambdas"]:
            if s == S:
                ns[name] = _make_method(S, name, C, f, [], None)
        for a in mirror._stub_attrs:
            ns[a] = property(lambda self, a=a: getattr(_self_cpp(self), a))
    return type(py, tuple(bases) or (_Bound,), ns)


for _py, _S in _T["classes"]:
    if _S in _py_class_of or _py in _enums or any(_py == c.__name__ for c in _py_class_of.values()):
        raise ImportError("module.cpp: class %s (%s) is bound twice" % (_py, _S))
    _py_class_of[_S] = _make_class(_py, _S)

# module attributes, as PYBIND11_MODULE sets them: classes, enum types, exported enum values
for _t in _enums.values():
    globals()[_t.__name__] = _t
    if _t._exported:
        for _n, _v in _t.__members__.items():
            globals()[_n] = _v
for _c in _py_class_of.values():
    globals()[_c.__name__] = _c
