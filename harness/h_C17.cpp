// C17 — correspondence + direct oracle for the continuous solver of global placement
// (coloquinte::NetModel / file-local MatrixCreator, src/place_global/net_model.cpp).
//
// Correspondence (needs hook H2, detected through COLOQUINTE_VERIF_HAS_H2): on *dyadic* inputs
// (weights k/8·nb(nb-1), integer placements/offsets, pin positions of a net in {m, m+h, m+2h}
// with h a power of two, ε / cutoff powers of two) every float operation of the assembly is
// exact (all intermediate values are multiples of 2^-7 below 2^17), so the triplets, rhs and
// initial guess captured just before Eigen runs are printed as exact "<mantissa> <exp2>" and
// must equal what the Lean model (over Rat) prints for the same addNet/solve calls.
//
// Approximate correspondence (hook H2, stream a<k>): *non-dyadic* net weights and penalty strengths (0.1, 0.3, 7.3, k/1000,
// ...), ε / cutoff also non-dyadic (0.7, 1.3, ...), arbitrary small pin positions (placements integers, offsets and fixed
// positions multiples of 1/2, so that every position / distance / max / min / offset difference is exact in binary32
// and only the operations that involve a weight round).  Dimensions, the triplet pattern (rows, columns, order) and the
// initial guess must be equal to the model's exactly; the captured single-precision values are sent to the Lean driver,
// which compares them with the model's exact rationals within a bound derived from the number of rounded float
// operations per entry ((1+2^-24)^K − 1 relative for a matrix entry, K = 1..3 by variant; (1+2^-24)^(K+1+n_r) − 1 times
// the magnitude bound D_r·5C of the n_r summed terms for a rhs entry — see lean/Driver/C17.lean) and answers `apx ok`.
//
// Direct oracle (independent code, real solver through NetModel's public interface):
//   S2  scaling all net weights and penalty strengths by 2^k (k in -16..8) gives bitwise-equal solutions;
//   SN  scaling by 2.5 or 7 gives solutions equal within a tolerance derived from the system
//       (T = 2·‖A⁻¹‖∞·(tol·‖b‖₂ + 1e-5·(‖A‖∞‖x*‖∞ + ‖b‖∞ + M)), A,b from the hook, or from the
//       documented quadratic when the hook is absent and the model is the initial star; M bounds the
//       magnitude of the terms that are summed into one rhs entry — they may cancel, and the float
//       accumulation errs relative to the terms, not to the sum — by ‖A‖∞·2·(largest coordinate));
//   LS  the initial star solve (two-pin nets + star nets) returns the minimiser of the documented
//       weighted quadratic Q (normal equations of Q built here in double, dense solve);
//   W<1 a two-net gadget: one cell pulled by a weight≥1 net and a weight<1 net sits at the weighted
//       mean, and not where it would sit if the light net had weight 0.
//   CL  through the Circuit path: NetModel::xTopology(circuit).solveStar() / yTopology(...) equals the
//       minimiser of the documented weighted quadratic built here, in double, from the *circuit's own*
//       accessors (Circuit::netWeight(i), pinCell, pinXOffset, isFixed, x, placedWidth,
//       computePlacementArea): a net without movable pin or with a single pin contributes nothing, the
//       fixed pins of a net act through their extreme positions clamped to the placement area, a net
//       with two such pins costs W (p0 - p1)², a larger one (W/nb) Σ (p_i - s)².  Circuits are mostly
//       two-pin nets with non-uniform weights and degenerate nets (dangling pin, pads only, empty)
//       interleaved.
//
//   CH  object histories on the Circuit's NET SETTERS (family: state carried across calls — a net setter that leaves
//       weights / limits / pins / offsets of the object's past behind).  One case in three of the topology stream t<k> and
//       of CL reaches its net list through a history of public calls on ONE object (weighted setNets of another list of
//       another size then the final setNets with or without the weights argument, addNet before / after setNets with or
//       without the weight argument, setNetWeights before / after setNets, random walks of 2..4 such calls).  The intended
//       final nets are computed here from the documented meaning of each call (setNets replaces everything, an omitted
//       weights argument means weight 1 for every net; addNet appends one net, default weight 1; setNetWeights replaces the
//       weights) and a FRESH twin is built with one setNets of exactly those nets.  Demanded: the NetModel of the object
//       equals the NetModel of the twin (and the Lean model's topology of the *intended* circuit, which is what the ops
//       stream carries); the initial solve of the object is the least-squares optimum for the *intended* weights (CL on
//       the twin's accessors); it is bitwise equal to the initial solve of the twin with all weights times 2^k, and so is
//       one refinement solve() with a random net model.  The failing input carries base circuit + the calls
//       (`nethistory ... endhistory`), and --replay reads it back.
//
// Topology correspondence (no hook needed): random circuits (vc::genCircuit cells/rows/pads, all eight
// orientations, nets built here: ordinary, two-pin, repeated cells, pads inside and outside the
// placement area, degenerate nets interleaved, non-uniform float weights) → NetModel::xTopology /
// yTopology → the stored net list read through the public accessors (nbNets, nbPins, pinCell,
// pinOffset, netWeight), printed exactly, must equal the Lean model `NetTopology.topology` of the
// same circuit (stream t<k>: coordinates are small integers, so every float conversion is exact; stream u<k>: the same
// circuits translated by ±[2^22, 2^26) in x and y, with some pin offsets and cell sizes of that magnitude, so that
// (float)pos, (float)areaMin/areaMax and offset - 0.5f*size really round — the model rounds with Legalize.f32).
#include <algorithm>
#include <cmath>
#include <cstring>

#include "common/harness.hpp"
#include "common/circuit.hpp"
#include "common/history.hpp"  // replayInput / parseState / rebuild (reading a recorded net-setter history back)
#include "coloquinte.hpp"
#include "place_global/net_model.hpp"

using namespace coloquinte;

// ---------------------------------------------------------------------------------- exact floats
static std::string exactFloat(double v) {
  if (v == 0.0 || !std::isfinite(v)) return "0 0";
  int e;
  double m = std::frexp(v, &e);
  long long mant = (long long)std::ldexp(m, 53);
  e -= 53;
  while (mant % 2 == 0 && mant != 0) { mant /= 2; ++e; }
  return std::to_string(mant) + " " + std::to_string(e);
}
static std::string fstr(float v) {
  char b[64];
  snprintf(b, sizeof b, "%.9g", v);
  return b;
}

// ---------------------------------------------------------------------------------- cases
struct RawNet {
  std::vector<int> cells;
  std::vector<float> offs;
  float w = 1.0f;
  bool five = false;  // addNet(cells, offs, minPin, maxPin, w)
  float mn = 0, mx = 0;
};
static const char *MODE_NAME[] = {"star0", "b2b", "star", "clique", "lightstar"};
struct Case {
  int nbCells = 0;
  int mode = 0;  // index in MODE_NAME
  float eps = 1.0f;
  std::vector<float> pl;
  std::vector<RawNet> nets;
  bool hasPen = false;
  float cutoff = 1.0f;
  std::vector<float> target, strength;
  float tol = 1.0e-4f;
  int maxIter = 100;

  std::string str(bool exact) const {
    std::ostringstream os;
    auto num = [&](float v) { return exact ? "(" + exactFloat(v) + ")" : fstr(v); };
    os << "cells=" << nbCells << " mode=" << MODE_NAME[mode] << " eps=" << num(eps) << " tol=" << fstr(tol) << " maxIter=" << maxIter
       << " pl=[";
    for (size_t i = 0; i < pl.size(); ++i) os << (i ? "," : "") << num(pl[i]);
    os << "]";
    for (auto &n : nets) {
      os << " net(w=" << num(n.w);
      if (n.five) os << ",min=" << num(n.mn) << ",max=" << num(n.mx);
      os << ":";
      for (size_t i = 0; i < n.cells.size(); ++i) os << " " << n.cells[i] << "@" << num(n.offs[i]);
      os << ")";
    }
    if (hasPen) {
      os << " pen(cutoff=" << num(cutoff) << ":";
      for (int i = 0; i < nbCells; ++i) os << " " << num(target[i]) << "*" << num(strength[i]);
      os << ")";
    }
    return os.str();
  }
};

static NetModel buildModel(const Case &c, float factor) {
  NetModel m(c.nbCells);
  for (auto &n : c.nets) {
    if (n.five) m.addNet(n.cells, n.offs, n.mn, n.mx, n.w * factor);
    else m.addNet(n.cells, n.offs, n.w * factor);
  }
  m.check();
  return m;
}

static std::vector<float> solveCase(const Case &c, float factor) {
  NetModel m = buildModel(c, factor);
  NetModel::Parameters p;
  p.approximationDistance = c.eps;
  p.penaltyCutoffDistance = c.cutoff;
  p.tolerance = c.tol;
  p.maxNbIterations = c.maxIter;
  switch (c.mode) {
    case 1: p.netModel = NetModelOption::BoundToBound; break;
    case 2: p.netModel = NetModelOption::Star; break;
    case 3: p.netModel = NetModelOption::Clique; break;
    default: p.netModel = NetModelOption::LightStar; break;
  }
  if (c.mode == 0) return m.solveStar(p);
  if (!c.hasPen) return m.solve(c.pl, p);
  std::vector<float> st = c.strength;
  for (float &s : st) s *= factor;
  return m.solveWithPenalty(c.pl, c.target, st, p);
}

// ---------------------------------------------------------------------------------- hook H2
struct Captured {
  bool valid = false;
  int nbCells = 0, matSize = 0;
  std::vector<int> rows, cols;
  std::vector<float> values, rhs, initial;
};
static Captured g_cap;
#ifdef COLOQUINTE_VERIF_HAS_H2
static const bool HAS_H2 = true;
static void onSolve(const verif::AssembledSystem &s) {
  g_cap.valid = true;
  g_cap.nbCells = s.nbCells;
  g_cap.matSize = s.matSize;
  g_cap.rows = s.rows;
  g_cap.cols = s.cols;
  g_cap.values = s.values;
  g_cap.rhs = s.rhs;
  g_cap.initial = s.initial;
}
static void armHook(bool on) {
  g_cap = Captured();
  verif::onMatrixSolve = on ? &onSolve : nullptr;
}
#else
static const bool HAS_H2 = false;
static void armHook(bool) { g_cap = Captured(); }
#endif

// ---------------------------------------------------------------------------------- dense algebra (double)
struct Dense {
  int n = 0;
  std::vector<double> a, b;  // row-major n×n, rhs
  std::vector<double> babs;  // Σ |contribution| per rhs entry (magnitude of what the float accumulation rounds)
  explicit Dense(int n_ = 0) : n(n_), a((size_t)n_ * n_, 0.0), b(n_, 0.0), babs(n_, 0.0) {}
  double &at(int i, int j) { return a[(size_t)i * n + j]; }
  double at(int i, int j) const { return a[(size_t)i * n + j]; }
};
struct DenseSol {
  bool ok = false;
  std::vector<double> x;
  double normInvInf = 0, normAInf = 0, normB2 = 0, normBInf = 0, normXInf = 0;
};
// Gauss-Jordan with partial pivoting: x = A^-1 b and ‖A^-1‖∞
static DenseSol denseSolve(const Dense &d) {
  DenseSol r;
  int n = d.n;
  std::vector<double> m((size_t)n * 2 * n, 0.0);
  auto M = [&](int i, int j) -> double & { return m[(size_t)i * 2 * n + j]; };
  double amax = 0;
  for (int i = 0; i < n; ++i) {
    double rs = 0;
    for (int j = 0; j < n; ++j) { M(i, j) = d.at(i, j); rs += std::fabs(d.at(i, j)); amax = std::max(amax, std::fabs(d.at(i, j))); }
    M(i, n + i) = 1.0;
    r.normAInf = std::max(r.normAInf, rs);
  }
  for (int c = 0; c < n; ++c) {
    int piv = c;
    for (int i = c + 1; i < n; ++i) if (std::fabs(M(i, c)) > std::fabs(M(piv, c))) piv = i;
    if (std::fabs(M(piv, c)) <= 1e-12 * amax || amax == 0) return r;  // singular
    if (piv != c) for (int j = 0; j < 2 * n; ++j) std::swap(M(piv, j), M(c, j));
    double inv = 1.0 / M(c, c);
    for (int j = 0; j < 2 * n; ++j) M(c, j) *= inv;
    for (int i = 0; i < n; ++i) {
      if (i == c) continue;
      double f = M(i, c);
      if (f == 0) continue;
      for (int j = 0; j < 2 * n; ++j) M(i, j) -= f * M(c, j);
    }
  }
  r.x.assign(n, 0.0);
  for (int i = 0; i < n; ++i) {
    double rs = 0, xi = 0;
    for (int j = 0; j < n; ++j) { rs += std::fabs(M(i, n + j)); xi += M(i, n + j) * d.b[j]; }
    r.normInvInf = std::max(r.normInvInf, rs);
    r.x[i] = xi;
    r.normXInf = std::max(r.normXInf, std::fabs(xi));
  }
  for (int i = 0; i < n; ++i) { r.normB2 += d.b[i] * d.b[i]; r.normBInf = std::max(r.normBInf, std::fabs(d.b[i])); }
  r.normB2 = std::sqrt(r.normB2);
  r.ok = true;
  return r;
}
// distance allowed between the solver's answer and the exact solution of A x = b, for a solver that
// stops at ‖r‖₂ ≤ tol‖b‖₂ in single precision
static double solverTolerance(const DenseSol &s, double tol) {
  return s.normInvInf * (tol * s.normB2 + 1e-5 * (s.normAInf * s.normXInf + s.normBInf));
}
// The rhs entries are sums of terms (matrix entry)·(offset or position difference) that may cancel; the
// single-precision accumulation errs by a fraction of the *magnitude* of the terms, not of the sum.  These two
// give that magnitude: exactly when the system is built here, bounded by ‖A‖∞·2·(largest coordinate) otherwise.
static double rhsMagnitude(const struct Dense &d);
static double coordScale(const Case &c) {
  double p = 0;
  auto up = [&](double v) { if (std::isfinite(v)) p = std::max(p, std::fabs(v)); };
  for (float v : c.pl) up(v);
  for (float v : c.target) up(v);
  for (auto &n : c.nets) {
    for (float v : n.offs) up(v);
    if (n.five) { up(n.mn); up(n.mx); }
  }
  double pm = 0;
  for (float v : c.pl) pm = std::max(pm, std::fabs((double)v));
  return 2.0 * (p + pm);  // |cell position + offset| ≤ p + pm
}
static Dense denseFromCapture(const Captured &c) {
  Dense d(c.matSize);
  for (size_t k = 0; k < c.rows.size(); ++k) d.at(c.rows[k], c.cols[k]) += (double)c.values[k];
  for (int i = 0; i < c.matSize; ++i) d.b[i] = c.rhs[i];
  return d;
}

// Normal equations of the documented quadratic of the initial star model, built from the
// property statement (independent of MatrixCreator):
//   Q(x) = Σ_{2-pin nets} W (p0 - p1)² + Σ_{nets with nb ≥ 3 pins} (W/nb) Σ_i (p_i - s_net)²
// with p = x_cell + offset for a movable pin and p = position for a fixed pin.
struct QPin { int cell; double off; };  // cell (-1 = fixed) and offset (fixed: position)
typedef std::vector<std::pair<double, std::vector<QPin>>> QNets;
static Dense denseFromStored(int nbCells, const QNets &stored) {
  int nv = nbCells;
  for (auto &s : stored) if (s.second.size() > 2) ++nv;
  Dense d(nv);
  auto term = [&](double w, int ca, double oa, int cb, double ob) {  // w (pa - pb)²
    if (ca == cb) return;
    if (ca >= 0) { d.at(ca, ca) += w; d.b[ca] += w * (ob - oa); d.babs[ca] += std::fabs(w * (ob - oa)); }
    if (cb >= 0) { d.at(cb, cb) += w; d.b[cb] += w * (oa - ob); d.babs[cb] += std::fabs(w * (oa - ob)); }
    if (ca >= 0 && cb >= 0) { d.at(ca, cb) -= w; d.at(cb, ca) -= w; }
  };
  int next = nbCells;
  for (auto &s : stored) {
    auto &pins = s.second;
    if (pins.size() == 2) term(s.first, pins[0].cell, pins[0].off, pins[1].cell, pins[1].off);
    else {
      int sv = next++;
      for (auto &p : pins) term(s.first / pins.size(), p.cell, p.off, sv, 0.0);
    }
  }
  for (int i = 0; i < nv; ++i) {
    bool empty = true;
    for (int j = 0; j < nv; ++j) if (d.at(i, j) != 0) empty = false;
    if (empty && d.b[i] == 0) d.at(i, i) = 1.0;  // untouched unknown: the solver keeps it at 0
  }
  return d;
}

static double rhsMagnitude(const Dense &d) {
  double m = 0;
  for (double v : d.babs) m = std::max(m, v);
  return m;
}

static Dense denseFromQ(const Case &c) {
  typedef QPin P;
  QNets stored;
  for (auto &n : c.nets) {
    std::vector<P> pins;
    for (size_t i = 0; i < n.cells.size(); ++i) pins.push_back({n.cells[i], n.offs[i]});
    if (n.five) {
      if (pins.empty()) continue;
      if (std::isfinite(n.mn)) {
        pins.push_back({-1, n.mn});
        if (n.mx != n.mn) pins.push_back({-1, n.mx});
      }
    }
    if (pins.size() <= 1) continue;
    stored.push_back({(double)n.w, pins});
  }
  return denseFromStored(c.nbCells, stored);
}

// ---------------------------------------------------------------------------------- generators
static float pow2(int e) { return std::ldexp(1.0f, e); }

// Dyadic case: every float operation of the assembly is exact (see the header comment).
static Case genExact(vh::Rng &g, vh::Out &out) {
  Case c;
  c.nbCells = g.range(1, 6);
  c.mode = g.range(0, 4);
  c.eps = pow2(g.range(-1, 3));
  for (int i = 0; i < c.nbCells; ++i) c.pl.push_back((float)g.range(-8, 8));
  int nn = g.range(1, 8);
  for (int k = 0; k < nn; ++k) {
    RawNet n;
    int m = g.range(-8, 8), h = 1 << g.range(0, 2);
    int fixedExtra = 0;
    n.five = g.chance(1, 4);
    if (n.five) {
      // fixed pins at positions of the pattern
      int a = g.range(0, 2), b = g.range(0, 2);
      if (a > b) std::swap(a, b);
      n.mn = m + a * h;
      n.mx = m + b * h;
      fixedExtra = (a == b) ? 1 : 2;
    }
    int total = g.range(2, 4);
    int own = std::max(total - fixedExtra, n.five ? 1 : 2);
    for (int i = 0; i < own; ++i) {
      int target = m + (int)g.range(0, 2) * h;
      if (!n.five && g.chance(1, 4)) { n.cells.push_back(-1); n.offs.push_back((float)target); }
      else {
        int cell = g.range(0, c.nbCells - 1);
        n.cells.push_back(cell);
        n.offs.push_back((float)target - c.pl[cell]);
      }
    }
    int nb = own + fixedExtra;
    int kk = g.chance(1, 10) ? 0 : g.range(1, 8);
    n.w = (kk / 8.0f) * (float)(nb * (nb - 1));
    if (nb == 2 && g.chance(1, 3)) n.w = kk / 8.0f;  // plain eighths for two-pin nets
    c.nets.push_back(n);
    out.count(std::string("exact_net_pins_") + std::to_string(nb));
    if (n.w > 0 && n.w < 1) out.count("exact_net_weight_below_1");
    else if (n.w == 0) out.count("exact_net_weight_0");
    else if (n.w != std::floor(n.w)) out.count("exact_net_weight_fractional_above_1");
    else out.count("exact_net_weight_integer");
  }
  if (c.mode != 0 && g.chance(1, 2)) {
    c.hasPen = true;
    c.cutoff = pow2(g.range(-1, 4));
    for (int i = 0; i < c.nbCells; ++i) {
      int d = g.chance(1, 4) ? 0 : (1 << g.range(0, 3));
      c.target.push_back(c.pl[i] + (g.chance(1, 2) ? d : -d));
      c.strength.push_back(g.range(0, 16) / 8.0f);
    }
  }
  return c;
}

static float anyWeight(vh::Rng &g) {
  static const std::vector<float> nice = {0.1f, 0.125f, 0.25f, 0.3f, 0.5f, 0.75f, 0.9f, 1.0f, 1.5f, 2.0f, 2.5f, 3.0f, 7.3f};
  if (g.chance(1, 2)) return g.pick(nice);
  return (float)g.range(1, 4000) / 1000.0f;
}

// Approximate stream: non-dyadic weights / strengths / ε / cutoff; positions small multiples of 1/2 (exact arithmetic).
static Case genApprox(vh::Rng &g, vh::Out &out) {
  Case c;
  c.nbCells = g.range(1, 6);
  c.mode = g.range(0, 4);
  static const std::vector<float> epss = {0.5f, 1.0f, 2.0f, 0.7f, 1.3f, 3.0f, 0.1f};
  c.eps = g.pick(epss);
  for (int i = 0; i < c.nbCells; ++i) c.pl.push_back((float)g.range(-8, 8));
  int nn = g.range(1, 8);
  for (int k = 0; k < nn; ++k) {
    RawNet n;
    n.five = g.chance(1, 4);
    if (n.five) {
      n.mn = (float)g.range(-20, 20) / 2.0f;
      n.mx = g.chance(1, 4) ? n.mn : n.mn + (float)g.range(1, 16) / 2.0f;
    }
    int own = g.range(n.five ? 1 : 2, 4);
    for (int i = 0; i < own; ++i) {
      if (!n.five && g.chance(1, 4)) { n.cells.push_back(-1); n.offs.push_back((float)g.range(-20, 20) / 2.0f); }
      else { n.cells.push_back(g.range(0, c.nbCells - 1)); n.offs.push_back((float)g.range(-8, 8) / 2.0f); }
    }
    n.w = g.chance(1, 12) ? 0.0f : anyWeight(g);
    c.nets.push_back(n);
    int nb = own + (n.five ? (n.mx == n.mn ? 1 : 2) : 0);
    out.count(std::string("approx_net_pins_") + std::to_string(std::min(nb, 6)));
    float m = std::ldexp(n.w, 10);
    if (n.w != 0 && m != std::floor(m)) out.count("approx_net_weight_non_dyadic");
    if (n.w > 0 && n.w < 1) out.count("approx_net_weight_below_1");
  }
  if (c.mode != 0 && g.chance(1, 2)) {
    c.hasPen = true;
    static const std::vector<float> cuts = {0.5f, 1.0f, 2.0f, 0.7f, 4.0f, 1.7f};
    c.cutoff = g.pick(cuts);
    for (int i = 0; i < c.nbCells; ++i) {
      // one cell in five sits exactly ON its target (a cell the rough legalizer did not move): the penalty spring is
      // then at its stiffest (strength / cutoff), not absent
      bool tie = g.chance(1, 5);
      c.target.push_back(tie ? c.pl[i] : c.pl[i] + (float)g.range(-12, 12) / 2.0f);
      c.strength.push_back(tie ? (out.count("approx_penalty_target_equals_position"), std::max(anyWeight(g), 0.5f)) : (g.chance(1, 6) ? 0.0f : anyWeight(g)));
    }
  }
  return c;
}

// General case for the oracles: arbitrary float weights / offsets / placements.
static Case genGeneral(vh::Rng &g, vh::Out &out, int forceMode) {
  Case c;
  c.nbCells = g.range(1, 8);
  c.mode = forceMode >= 0 ? forceMode : g.range(0, 4);
  c.eps = g.chance(1, 2) ? pow2(g.range(-1, 4)) : (float)g.range(5, 200) / 10.0f;
  c.tol = g.chance(1, 3) ? 1.0e-6f : 1.0e-4f;
  c.maxIter = 1000;
  bool frac = g.chance(1, 2);
  for (int i = 0; i < c.nbCells; ++i) c.pl.push_back(frac ? (float)g.range(-4000, 4000) / 64.0f : (float)g.range(-60, 60));
  int nn = g.range(1, 10);
  for (int k = 0; k < nn; ++k) {
    RawNet n;
    int own = g.range(1, 5);
    n.five = g.chance(1, 3) || own == 1;
    for (int i = 0; i < own; ++i) {
      if (!n.five && g.chance(1, 4)) { n.cells.push_back(-1); n.offs.push_back((float)g.range(-60, 60)); }
      else { n.cells.push_back(g.range(0, c.nbCells - 1)); n.offs.push_back(frac ? (float)g.range(-320, 320) / 64.0f : (float)g.range(-5, 5)); }
    }
    if (n.five) {
      if (g.chance(1, 8) && own >= 2) { n.mn = std::numeric_limits<float>::infinity(); n.mx = -n.mn; }
      else {
        n.mn = (float)g.range(-60, 60);
        n.mx = g.chance(1, 4) ? n.mn : n.mn + (float)g.range(1, 60);
      }
    }
    n.w = anyWeight(g);
    c.nets.push_back(n);
    if (n.w < 1) out.count("general_net_weight_below_1");
    else if (n.w != std::floor(n.w)) out.count("general_net_weight_fractional_above_1");
    else out.count("general_net_weight_integer");
  }
  // anchor every cell with probability 2/3 so that most systems are non-singular
  for (int i = 0; i < c.nbCells; ++i) {
    if (!g.chance(2, 3)) continue;
    RawNet n;
    n.cells = {i, -1};
    n.offs = {0.0f, (float)g.range(-60, 60)};
    n.w = anyWeight(g);
    c.nets.push_back(n);
  }
  if (c.mode != 0 && g.chance(1, 2)) {
    c.hasPen = true;
    c.cutoff = g.chance(1, 2) ? pow2(g.range(-1, 5)) : (float)g.range(1, 400) / 10.0f;
    for (int i = 0; i < c.nbCells; ++i) {
      bool tie = g.chance(1, 5);  // exactly on its target, see the approximate stream
      c.target.push_back(tie ? c.pl[i] : c.pl[i] + (float)g.range(-40, 40));
      c.strength.push_back(tie ? (out.count("general_penalty_target_equals_position"), std::max(anyWeight(g), 0.5f)) : (g.chance(1, 6) ? 0.0f : anyWeight(g)));
    }
  }
  return c;
}

// ---------------------------------------------------------------------------------- streams
static void emitOpsHead(vh::Out &out, const std::string &id, const Case &c) {
  out.ops << "case " << id << "\n";
  out.ops << "cfg " << c.nbCells << " " << MODE_NAME[c.mode] << " " << exactFloat(c.eps) << "\n";
  out.ops << "pl " << c.pl.size();
  for (float v : c.pl) out.ops << " " << exactFloat(v);
  out.ops << "\n";
  for (auto &n : c.nets) {
    if (n.five) out.ops << "net5 " << exactFloat(n.w) << " " << exactFloat(n.mn) << " " << exactFloat(n.mx) << " " << n.cells.size();
    else out.ops << "net3 " << exactFloat(n.w) << " " << n.cells.size();
    for (size_t i = 0; i < n.cells.size(); ++i) out.ops << " " << n.cells[i] << " " << exactFloat(n.offs[i]);
    out.ops << "\n";
  }
  if (c.hasPen) {
    out.ops << "pen " << exactFloat(c.cutoff) << " " << c.nbCells;
    for (int i = 0; i < c.nbCells; ++i) out.ops << " " << exactFloat(c.target[i]) << " " << exactFloat(c.strength[i]);
    out.ops << "\n";
  }
}
static void emitOps(vh::Out &out, const std::string &id, const Case &c) {
  emitOpsHead(out, id, c);
  out.ops << "asm\n";
}

static void emitImpl(vh::Out &out, const std::string &id, const Captured &cap) {
  out.impl << "case " << id << "\n";
  out.impl << "dim " << cap.nbCells << " " << cap.matSize << "\n";
  std::ostringstream os;
  os << "mat " << cap.rows.size();
  for (size_t k = 0; k < cap.rows.size(); ++k) os << " " << cap.rows[k] << " " << cap.cols[k] << " " << exactFloat(cap.values[k]);
  out.impl << os.str() << "\n";
  std::ostringstream r;
  r << "rhs";
  for (float v : cap.rhs) r << " " << exactFloat(v);
  out.impl << r.str() << "\n";
  std::ostringstream in;
  in << "init";
  for (float v : cap.initial) in << " " << exactFloat(v);
  out.impl << in.str() << "\n";
}

static void emitApprox(vh::Out &out, const std::string &id, const Case &c, const Captured &cap) {
  emitOpsHead(out, id, c);
  out.ops << "apx " << cap.rows.size();
  for (size_t k = 0; k < cap.rows.size(); ++k) out.ops << " " << cap.rows[k] << " " << cap.cols[k] << " " << exactFloat(cap.values[k]);
  out.ops << " " << cap.rhs.size();
  for (float v : cap.rhs) out.ops << " " << exactFloat(v);
  out.ops << "\n";
  out.impl << "case " << id << "\n";
  out.impl << "dim " << cap.nbCells << " " << cap.matSize << "\n";
  std::ostringstream os;
  os << "pat " << cap.rows.size();
  for (size_t k = 0; k < cap.rows.size(); ++k) os << " " << cap.rows[k] << " " << cap.cols[k];
  out.impl << os.str() << "\n";
  std::ostringstream in;
  in << "init";
  for (float v : cap.initial) in << " " << exactFloat(v);
  out.impl << in.str() << "\n";
  out.impl << "apx ok " << cap.rows.size() << " " << cap.rhs.size() << "\n";
}

static bool bitwiseEqual(const std::vector<float> &a, const std::vector<float> &b) {
  return a.size() == b.size() && (a.empty() || std::memcmp(a.data(), b.data(), a.size() * sizeof(float)) == 0);
}
static std::string vecStr(const std::vector<float> &v) {
  std::ostringstream os;
  for (size_t i = 0; i < v.size(); ++i) os << (i ? " " : "") << fstr(v[i]);
  return os.str();
}

// ---------------------------------------------------------------------------------- oracles
static void scalingOracle(vh::Out &out, const std::string &id, const Case &c, vh::Rng &g) {
  std::string in = c.str(false);
  vh::setCase(id, in);
  out.evaluations++;
  armHook(true);
  std::vector<float> base = solveCase(c, 1.0f);
  Captured cap = g_cap;
  armHook(false);
  for (float v : base) if (!std::isfinite(v)) { out.count("skipped_nonfinite_solution"); return; }
  // S2: powers of two, bitwise
  // the last one is far down: absolute magnitudes must not matter (all values stay normal floats: weights ≥ 0.1·2^-16,
  // squared residuals of the conjugate gradient ≥ ~1e-25)
  int ks[4] = {(int)g.range(-4, -1), (int)g.range(1, 6), (int)g.range(-6, 8), (int)g.range(-16, -9)};
  for (int k : ks) {
    if (k == 0) continue;
    std::vector<float> sc = solveCase(c, pow2(k));
    out.count("S2_comparisons");
    if (!bitwiseEqual(base, sc)) {
      out.fail(id, "scaling all weights and penalty strengths by 2^" + std::to_string(k) +
                       " changes the solution: [" + vecStr(base) + "] vs [" + vecStr(sc) + "]", in);
      return;
    }
  }
  // SN: 2.5 and 7 within the derived tolerance
  Dense d;
  bool have = false;
  if (cap.valid) { d = denseFromCapture(cap); have = true; out.count("SN_system_from_hook"); }
  else if (c.mode == 0) { d = denseFromQ(c); have = true; out.count("SN_system_from_Q"); }
  if (!have) { out.count("SN_skipped_no_hook"); return; }
  DenseSol s = denseSolve(d);
  if (!s.ok) { out.count("SN_skipped_singular"); return; }
  double T = 2.0 * (solverTolerance(s, c.tol) + s.normInvInf * 1e-5 * s.normAInf * coordScale(c));
  double scale = 1.0;
  for (int i = 0; i < c.nbCells; ++i) scale = std::max(scale, std::fabs(s.x[i]));
  // the solver's own answer must already be within T/2 of the exact solution
  bool sharp = T <= 1e-2 * scale;
  out.count(sharp ? "SN_tolerance_below_1pct_of_scale" : "SN_tolerance_loose");
  if (sharp) out.nontrivial(vh::hashStr(in));
  for (float f : {2.5f, 7.0f}) {
    std::vector<float> sc = solveCase(c, f);
    out.count("SN_comparisons");
    for (int i = 0; i < c.nbCells; ++i) {
      if (!(std::fabs((double)sc[i] - (double)base[i]) <= T)) {
        std::ostringstream os;
        os << "scaling all weights and penalty strengths by " << f << " moves cell " << i << " from " << fstr(base[i]) << " to "
           << fstr(sc[i]) << " (allowed " << T << ", exact solution " << s.x[i] << ")";
        out.fail(id, os.str(), in);
        return;
      }
    }
  }
}

static void lsqOracle(vh::Out &out, const std::string &id, const Case &c) {
  std::string in = c.str(false);
  vh::setCase(id, in);
  out.evaluations++;
  Dense d = denseFromQ(c);
  DenseSol s = denseSolve(d);
  if (!s.ok) { out.count("LS_skipped_singular"); return; }
  double T = solverTolerance(s, c.tol) + s.normInvInf * 1e-5 * rhsMagnitude(d);
  double scale = 1.0;
  for (int i = 0; i < c.nbCells; ++i) scale = std::max(scale, std::fabs(s.x[i]));
  bool sharp = T <= 1e-2 * scale;
  out.count(sharp ? "LS_tolerance_below_1pct_of_scale" : "LS_tolerance_loose");
  if (sharp) out.nontrivial(vh::hashStr("ls" + in));
  std::vector<float> x = solveCase(c, 1.0f);
  for (int i = 0; i < c.nbCells; ++i) {
    if (!(std::fabs((double)x[i] - s.x[i]) <= T)) {
      std::ostringstream os;
      os << "initial star solve puts cell " << i << " at " << fstr(x[i]) << " but the minimiser of the weighted quadratic has it at "
         << s.x[i] << " (allowed " << T << ")";
      out.fail(id, os.str(), in);
      return;
    }
  }
}

// PQ — penalised two-pin least squares (clause "for nets with two pins ... the result is the weighted least-squares optimum of
// the documented quadratic model", with the penalty term): every net has exactly two pins at distinct positions, so that
// under BoundToBound, Star and Clique alike it is ONE spring of stiffness W / max(eps, |p0 - p1|) (positions taken at the
// linearisation placement `pl`); every cell i carries the penalty spring strength_i / max(|pl_i - target_i|, cutoff) towards
// target_i — at its stiffest, strength_i / cutoff, when the cell sits exactly on its target (one cell in four does).
// solveWithPenalty must return the minimiser of that quadratic (normal equations built here in double, dense solve).
static void penalisedTwoPinOracle(vh::Out &out, const std::string &id, vh::Rng &g) {
  Case c;
  c.nbCells = (int)g.range(1, 6);
  c.mode = (int)g.range(1, 3);
  c.eps = g.chance(1, 2) ? pow2((int)g.range(-1, 3)) : (float)g.range(1, 80) / 10.0f;
  for (int i = 0; i < c.nbCells; ++i) c.pl.push_back((float)g.range(-30, 30));
  int nn = (int)g.range(1, 2 * c.nbCells + 1);
  for (int k = 0; k < nn; ++k) {
    RawNet n;
    int a = (int)g.range(0, c.nbCells - 1);
    float oa = (float)g.range(-6, 6) / 2.0f;
    bool fixedOther = c.nbCells == 1 || g.chance(1, 2);
    if (fixedOther) {
      float pos = (float)g.range(-80, 80) / 2.0f;
      if (pos == c.pl[a] + oa) pos += 1.5f;
      n.cells = {a, -1};
      n.offs = {oa, pos};
      if (g.chance(1, 2)) { std::swap(n.cells[0], n.cells[1]); std::swap(n.offs[0], n.offs[1]); }
    } else {
      int b = (int)g.range(0, c.nbCells - 2);
      if (b >= a) ++b;
      float ob = (float)g.range(-6, 6) / 2.0f;
      if (c.pl[a] + oa == c.pl[b] + ob) ob += 0.5f;
      n.cells = {a, b};
      n.offs = {oa, ob};
    }
    n.w = anyWeight(g);
    if (n.w <= 0) n.w = 0.3f;
    c.nets.push_back(n);
  }
  c.hasPen = true;
  c.cutoff = g.chance(1, 2) ? pow2((int)g.range(-1, 4)) : (float)g.range(1, 120) / 10.0f;
  int ties = 0;
  for (int i = 0; i < c.nbCells; ++i) {
    bool tie = g.chance(1, 4);
    ties += tie;
    c.target.push_back(tie ? c.pl[i] : c.pl[i] + (float)g.range(-40, 40) / 2.0f);
    c.strength.push_back(tie ? std::max(anyWeight(g), 0.5f) : (g.chance(1, 6) ? 0.0f : anyWeight(g)));
  }
  std::string in = c.str(false);
  vh::setCase(id, in);
  out.evaluations++;
  out.count(std::string("PQ_mode_") + MODE_NAME[c.mode]);
  if (ties) out.count("PQ_cases_with_a_cell_on_its_target");
  Dense d(c.nbCells);
  auto pos = [&](int cell, float off) { return cell >= 0 ? (double)c.pl[cell] + (double)off : (double)off; };
  for (auto &n : c.nets) {
    double k = (double)n.w / std::max((double)c.eps, std::fabs(pos(n.cells[0], n.offs[0]) - pos(n.cells[1], n.offs[1])));
    int ca = n.cells[0], cb = n.cells[1];
    double oa = n.offs[0], ob = n.offs[1];
    if (ca >= 0) { d.at(ca, ca) += k; d.b[ca] += k * (ob - oa); d.babs[ca] += std::fabs(k * (ob - oa)); }
    if (cb >= 0) { d.at(cb, cb) += k; d.b[cb] += k * (oa - ob); d.babs[cb] += std::fabs(k * (oa - ob)); }
    if (ca >= 0 && cb >= 0) { d.at(ca, cb) -= k; d.at(cb, ca) -= k; }
  }
  for (int i = 0; i < c.nbCells; ++i) {
    double k = (double)c.strength[i] / std::max(std::fabs((double)c.pl[i] - (double)c.target[i]), (double)c.cutoff);
    d.at(i, i) += k;
    d.b[i] += k * (double)c.target[i];
    d.babs[i] += std::fabs(k * (double)c.target[i]);
  }
  DenseSol s = denseSolve(d);
  if (!s.ok) { out.count("PQ_skipped_singular"); return; }
  double T = solverTolerance(s, c.tol) + s.normInvInf * 1e-5 * rhsMagnitude(d);
  double scale = 1.0;
  for (int i = 0; i < c.nbCells; ++i) scale = std::max(scale, std::fabs(s.x[i]));
  bool sharp = T <= 1e-2 * scale;
  out.count(sharp ? "PQ_tolerance_below_1pct_of_scale" : "PQ_tolerance_loose");
  if (sharp) out.nontrivial(vh::hashStr("pq" + in));
  std::vector<float> x = solveCase(c, 1.0f);
  for (int i = 0; i < c.nbCells; ++i) {
    if (!(std::fabs((double)x[i] - s.x[i]) <= T)) {
      std::ostringstream os;
      os << "solveWithPenalty (" << MODE_NAME[c.mode] << ", two-pin nets) puts cell " << i << " at " << fstr(x[i])
         << " but the minimiser of the documented penalised quadratic has it at " << s.x[i] << " (allowed " << T << ")";
      out.fail(id, os.str(), in);
      return;
    }
  }
}

// one cell, net A {cell@oa, fixed a} weight wa >= 1, net B {cell@ob, fixed b} weight 0 < wb < 1
static void gadgetOracle(vh::Out &out, const std::string &id, int mode, float a, float b, float wa, float wb, float pl0, float eps,
                         float oa, float ob) {
  Case c;
  c.nbCells = 1;
  c.mode = mode;
  c.eps = eps;
  c.pl = {pl0};
  RawNet A, B;
  A.cells = {0, -1}; A.offs = {oa, a}; A.w = wa;
  B.cells = {-1, 0}; B.offs = {b, ob}; B.w = wb;
  c.nets = {A, B};
  std::string in = c.str(false);
  vh::setCase(id, in);
  if (mode == 1 && (pl0 + oa == a || pl0 + ob == b)) {
    // B2B connects a two-pin net whose pins coincide twice (min and max pin are the same pin); not this gadget's subject
    out.count("gadget_skipped_b2b_coincident_pins");
    return;
  }
  out.evaluations++;
  out.nontrivial(vh::hashStr("g" + in));
  out.count("gadget_cases");
  auto eff = [&](float w, float pinPos, float fixedPos) -> double {
    if (mode == 0) return w;
    return (double)w / std::max((double)eps, std::fabs((double)pinPos - (double)fixedPos));
  };
  double ea = eff(wa, pl0 + oa, a), eb = eff(wb, pl0 + ob, b);
  double expected = (ea * ((double)a - oa) + eb * ((double)b - ob)) / (ea + eb);
  double without = (double)a - oa;
  double span = std::fabs(expected - without);
  std::vector<float> x = solveCase(c, 1.0f);
  Case c0 = c;
  c0.nets[1].w = 0.0f;
  std::vector<float> x0 = solveCase(c0, 1.0f);
  double tolr = 1e-3 * std::max({1.0, std::fabs(expected), std::fabs((double)a), std::fabs((double)b)});
  if (!(std::fabs(x[0] - expected) <= tolr)) {
    std::ostringstream os;
    os << "cell sits at " << fstr(x[0]) << " but the weighted least-squares optimum is " << expected << " (with the light net at weight 0 it would be "
       << without << ", solver says " << fstr(x0[0]) << ")";
    out.fail(id, os.str(), in);
    return;
  }
  if (std::fabs(expected - without) > 100 * tolr && !(std::fabs((double)x[0] - (double)x0[0]) >= 0.5 * span)) {
    std::ostringstream os;
    os << "a net of weight " << fstr(wb) << " has no more effect than a net of weight 0: " << fstr(x[0]) << " vs " << fstr(x0[0]);
    out.fail(id, os.str(), in);
  }
}

// PG: Circuit::placeGlobal on two circuits that differ only by a common factor 2^k on all net weights and on the
// initial penalty strength (params.global.penalty.initialValue): every continuous solve sees a system scaled by 2^k,
// so the two runs must end with identical cell positions.  Forked: other properties' defects in placeGlobal
// (asserts, sanitizer reports) are not this oracle's subject and are only counted.
static void placeGlobalOracle(vh::Out &out, const std::string &id, vh::Rng &g) {
  vc::GenOpts o;
  o.maxRows = 4; o.maxCells = 10; o.multiRow = false; o.turned = false; o.polarities = false; o.splitRows = false;
  o.maxUtil = 0.8; o.farPositions = false;
  Circuit base = vc::genCircuit(g, o);
  if (base.nbNets() == 0) { out.count("PG_skipped_no_nets"); return; }
  std::vector<float> w;
  for (int i = 0; i < base.nbNets(); ++i) w.push_back(anyWeight(g));
  int k = g.chance(1, 2) ? (int)g.range(1, 3) : -(int)g.range(1, 3);
  int effort = g.range(1, 3);
  auto run = [&](float factor, std::string &result) -> std::string {
    return vh::isolated([&](std::ostream &os) {
      Circuit c = base;
      std::vector<float> ww = w;
      for (float &v : ww) v *= factor;
      c.setNetWeights(ww);
      ColoquinteParameters p(effort);
      p.global.penalty.initialValue *= factor;
      try {
        c.placeGlobal(p);
        os << vc::solutionString(c);
      } catch (const std::exception &e) {
        os << "throw:" << vc::exClass(e);
      }
    }, result, 120);
  };
  std::ostringstream in;
  in << "placeGlobal effort=" << effort << " factor=2^" << k << " weights=[" << vecStr(w) << "] " << vc::circuitString(base);
  vh::setCase(id, in.str());
  std::string r1, r2;
  std::string s1 = run(1.0f, r1), s2 = run(pow2(k), r2);
  if (s1 != "ok" || s2 != "ok") { out.count("PG_skipped_placeGlobal_fault_" + (s1 != "ok" ? s1 : s2)); return; }
  if (r1.rfind("throw:", 0) == 0 || r2.rfind("throw:", 0) == 0) {
    if (r1 != r2) out.fail(id, "placeGlobal outcome depends on a common power-of-two weight factor: " + r1 + " vs " + r2, in.str());
    else out.count("PG_both_throw");
    return;
  }
  out.evaluations++;
  out.count("PG_comparisons");
  if (r1 != r2) out.fail(id, "placeGlobal result changes when all net weights and the penalty are scaled by 2^" + std::to_string(k), in.str());
}


// ---------------------------------------------------------------------------------- Circuit path
// Normal equations of the documented quadratic of the initial solve of a *circuit* along one axis,
// from the circuit's public accessors only (weights: Circuit::netWeight(i) of the net itself).
static Dense denseFromCircuit(const Circuit &c, bool xa, bool &twoPinOnly) {
  Rectangle area = c.computePlacementArea();
  double lo = xa ? area.minX : area.minY, hi = xa ? area.maxX : area.maxY;
  QNets stored;
  twoPinOnly = true;
  for (int i = 0; i < c.nbNets(); ++i) {
    std::vector<QPin> pins;
    bool anyFixed = false;
    double fmin = 0, fmax = 0;
    for (int j = 0; j < c.nbPinsNet(i); ++j) {
      int cell = c.pinCell(i, j);
      double off = xa ? c.pinXOffset(i, j) : c.pinYOffset(i, j);
      if (c.isFixed(cell)) {
        double pos = (xa ? c.x(cell) : c.y(cell)) + off;
        if (!anyFixed) { fmin = fmax = pos; anyFixed = true; }
        else { fmin = std::min(fmin, pos); fmax = std::max(fmax, pos); }
      } else {
        pins.push_back({cell, off - 0.5 * (xa ? c.placedWidth(cell) : c.placedHeight(cell))});
      }
    }
    if (pins.empty()) continue;  // nothing movable on this net
    if (anyFixed) {
      fmin = std::max(fmin, lo);
      fmax = std::min(fmax, hi);
      pins.push_back({-1, fmin});
      if (fmax != fmin) pins.push_back({-1, fmax});
    }
    if (pins.size() <= 1) continue;  // dangling pin
    if (pins.size() > 2) twoPinOnly = false;
    stored.push_back({(double)c.netWeight(i), pins});
  }
  return denseFromStored(c.nbCells(), stored);
}

static float topoWeight(vh::Rng &g) {
  int m = g.range(0, 9);
  if (m == 0) return pow2(g.range(-6, 6));
  if (m == 1) return (float)g.range(1, 64) / 16.0f;
  return anyWeight(g);
}

// ---------------------------------------------------------------------------------- net-setter histories (CH)
struct CNet { std::vector<int> cells, xo, yo; float w = 1.0f; };

static void flatten(const std::vector<CNet> &nets, std::vector<int> &limits, std::vector<int> &cells, std::vector<int> &xo,
                    std::vector<int> &yo, std::vector<float> &w) {
  limits = {0}; cells.clear(); xo.clear(); yo.clear(); w.clear();
  for (auto &nt : nets) {
    cells.insert(cells.end(), nt.cells.begin(), nt.cells.end());
    xo.insert(xo.end(), nt.xo.begin(), nt.xo.end());
    yo.insert(yo.end(), nt.yo.begin(), nt.yo.end());
    limits.push_back(cells.size());
    w.push_back(nt.w);
  }
}

// One call of a public net setter of Circuit with its complete arguments.
struct NetOp {
  enum Kind { SetNets, AddNet, SetNetWeights } kind = SetNets;
  bool weighted = true;     // SetNets / AddNet: false = the weights / weight argument is omitted (documented default: 1)
  std::vector<CNet> nets;   // SetNets: the whole list; AddNet: one net (never empty: addNet ignores a net without pins)
  std::vector<float> ws;    // SetNetWeights
  std::string name() const {
    if (kind == SetNets) return weighted ? "setNets_with_weights" : "setNets_without_weights";
    if (kind == AddNet) return weighted ? "addNet_with_weight" : "addNet_default_weight";
    return "setNetWeights";
  }
  static void netText(std::ostream &os, const CNet &nt) {
    os << " " << exactFloat(nt.w) << " " << nt.cells.size();
    for (size_t p = 0; p < nt.cells.size(); ++p) os << " " << nt.cells[p] << " " << nt.xo[p] << " " << nt.yo[p];
  }
  // hop setNets <weighted> <nbNets> {<mant> <exp2> <nbPins> {cell xoff yoff}}   (weights are ignored when weighted = 0)
  // hop addNet <weighted> <mant> <exp2> <nbPins> {cell xoff yoff}
  // hop setNetWeights <n> {<mant> <exp2>}
  std::string text() const {
    std::ostringstream os;
    if (kind == SetNets) {
      os << "hop setNets " << (int)weighted << " " << nets.size();
      for (auto &nt : nets) netText(os, nt);
    } else if (kind == AddNet) {
      os << "hop addNet " << (int)weighted;
      netText(os, nets[0]);
    } else {
      os << "hop setNetWeights " << ws.size();
      for (float v : ws) os << " " << exactFloat(v);
    }
    return os.str();
  }
  static bool parseNet(std::istream &is, CNet &nt) {
    long long m; int e; size_t np;
    if (!(is >> m >> e >> np)) return false;
    nt = CNet();
    nt.w = (float)std::ldexp((double)m, e);
    for (size_t i = 0; i < np; ++i) {
      int c, a, b;
      if (!(is >> c >> a >> b)) return false;
      nt.cells.push_back(c); nt.xo.push_back(a); nt.yo.push_back(b);
    }
    return true;
  }
  static bool parse(const std::string &line, NetOp &op) {
    std::istringstream is(line);
    std::string kw, nm;
    if (!(is >> kw >> nm) || kw != "hop") return false;
    op = NetOp();
    int wf; size_t n;
    if (nm == "setNets") {
      op.kind = SetNets;
      if (!(is >> wf >> n)) return false;
      op.weighted = wf != 0;
      op.nets.resize(n);
      for (auto &nt : op.nets) if (!parseNet(is, nt)) return false;
    } else if (nm == "addNet") {
      op.kind = AddNet;
      if (!(is >> wf)) return false;
      op.weighted = wf != 0;
      op.nets.resize(1);
      if (!parseNet(is, op.nets[0]) || op.nets[0].cells.empty()) return false;
    } else if (nm == "setNetWeights") {
      op.kind = SetNetWeights;
      if (!(is >> n)) return false;
      for (size_t i = 0; i < n; ++i) {
        long long m; int e;
        if (!(is >> m >> e)) return false;
        op.ws.push_back((float)std::ldexp((double)m, e));
      }
    } else {
      return false;
    }
    return true;
  }
  // the real call (exceptions of the setter propagate)
  void apply(Circuit &c) const {
    if (kind == SetNets) {
      std::vector<int> limits, cells, xo, yo;
      std::vector<float> w;
      flatten(nets, limits, cells, xo, yo, w);
      if (weighted) c.setNets(limits, cells, xo, yo, w);
      else c.setNets(limits, cells, xo, yo);
    } else if (kind == AddNet) {
      if (weighted) c.addNet(nets[0].cells, nets[0].xo, nets[0].yo, nets[0].w);
      else c.addNet(nets[0].cells, nets[0].xo, nets[0].yo);
    } else {
      c.setNetWeights(ws);
    }
  }
  // the documented meaning of the call on the list of nets of the circuit
  void shadow(std::vector<CNet> &st) const {
    if (kind == SetNets) {
      st = nets;
      if (!weighted) for (auto &nt : st) nt.w = 1.0f;
    } else if (kind == AddNet) {
      st.push_back(nets[0]);
      if (!weighted) st.back().w = 1.0f;
    } else {
      for (size_t i = 0; i < st.size() && i < ws.size(); ++i) st[i].w = ws[i];
    }
  }
};

// A case of the Circuit path: the circuit before any net setter, the intended final nets, and how the object handed to
// the real code got them (ops empty: one weighted setNets on the fresh object).
struct CircuitCase {
  Circuit base{0};
  std::vector<CNet> nets;
  std::vector<NetOp> ops;
  Circuit obj{0};
  bool hist() const { return !ops.empty(); }
  // a fresh object with the intended nets (all weights times factor), built by one setNets
  Circuit twin(float factor = 1.0f) const {
    Circuit t = base;
    std::vector<int> limits, cells, xo, yo;
    std::vector<float> w;
    flatten(nets, limits, cells, xo, yo, w);
    for (float &v : w) v *= factor;
    t.setNets(limits, cells, xo, yo, w);
    return t;
  }
  void build() {
    if (ops.empty()) { obj = twin(); return; }
    obj = base;
    for (auto &op : ops) op.apply(obj);
  }
  // replayable text: `nethistory <head>` + base circuit + calls + `endhistory` (+ the intended final circuit, for the reader)
  std::string historyText(const std::string &head) const {
    std::string s = "nethistory " + head + "\n" + vc::circuitString(base);
    for (auto &op : ops) s += op.text() + "\n";
    s += "endhistory\nintended final circuit:\n" + vc::circuitString(twin());
    return s;
  }
};

static bool parseNetHistory(const std::string &txt, std::string &head, CircuitCase &cc) {
  std::vector<std::string> lines = vhist::splitLines(txt);
  if (lines.empty() || lines[0].rfind("nethistory", 0) != 0) return false;
  head = lines[0].size() > 11 ? lines[0].substr(11) : "";
  size_t pos = 1;
  vhist::State st;
  if (!vhist::parseState(lines, pos, st)) return false;
  st.nets.clear();
  cc.base = vhist::rebuild(st);
  cc.ops.clear();
  cc.nets.clear();
  for (; pos < lines.size(); ++pos) {
    if (lines[pos] == "endhistory") break;
    if (lines[pos].empty()) continue;
    NetOp op;
    if (!NetOp::parse(lines[pos], op)) return false;
    for (auto &nt : op.nets) for (int c : nt.cells) if (c < 0 || c >= cc.base.nbCells()) return false;
    cc.ops.push_back(op);
    op.shadow(cc.nets);
  }
  return !cc.ops.empty();
}

static float topoWeight(vh::Rng &g);

static CNet randomNet(vh::Rng &g, const Circuit &base, int minPins) {
  CNet nt;
  int n = base.nbCells();
  int d = g.range(minPins, 4);
  for (int i = 0; i < d; ++i) {
    int cell = g.range(0, n - 1);
    nt.cells.push_back(cell);
    nt.xo.push_back(g.range(-2, base.cellWidth()[cell] + 2));
    nt.yo.push_back(g.range(-2, base.cellHeight()[cell] + 2));
  }
  nt.w = topoWeight(g);
  return nt;
}
static float otherWeight(vh::Rng &g, float notThis) {
  for (int i = 0; i < 8; ++i) {
    float w = topoWeight(g);
    if (w != notThis && w != 1.0f) return w;
  }
  return notThis == 3.0f ? 0.75f : 3.0f;
}
// Another net list derived from f0: nets dropped / inserted (so that the number of nets and the limits differ), pins
// moved to other cells, offsets changed, every weight different from the one f0 has at that index and from 1.
static std::vector<CNet> perturbNets(vh::Rng &g, const Circuit &base, const std::vector<CNet> &f0) {
  std::vector<CNet> r;
  int sizeMode = g.range(0, 2);  // 0: same number of nets, 1: fewer, 2: more
  for (auto &nt : f0) {
    if (sizeMode == 1 && g.chance(1, 3)) continue;
    if (sizeMode == 2 && g.chance(1, 4)) r.push_back(randomNet(g, base, 0));
    r.push_back(nt);
  }
  if (sizeMode == 2 || r.empty()) { int k = g.range(1, 3); for (int i = 0; i < k; ++i) r.push_back(randomNet(g, base, 1)); }
  if (sizeMode == 1 && r.size() == f0.size() && r.size() > 1) r.pop_back();
  for (size_t i = 0; i < r.size(); ++i) {
    CNet &nt = r[i];
    for (size_t p = 0; p < nt.cells.size(); ++p) {
      if (g.chance(1, 8)) nt.cells[p] = g.range(0, base.nbCells() - 1);
      if (g.chance(1, 4)) nt.xo[p] += (int)g.range(-3, 3);
      if (g.chance(1, 4)) nt.yo[p] += (int)g.range(-3, 3);
    }
    if (g.chance(1, 6) && !nt.cells.empty()) { nt.cells.pop_back(); nt.xo.pop_back(); nt.yo.pop_back(); }
    nt.w = otherWeight(g, i < f0.size() ? f0[i].w : 1.0f);
  }
  return r;
}

// A history of net-setter calls whose documented outcome resembles f0 (most plans end exactly in f0's pins; the weights
// are f0's or 1 where the last call omits them).  The intended final nets are NOT taken from here: the caller applies
// NetOp::shadow.
static std::vector<NetOp> genNetHistory(vh::Rng &g, vh::Out &out, const Circuit &base, const std::vector<CNet> &f0, const std::string &pfx) {
  std::vector<NetOp> ops;
  auto setNets = [&](const std::vector<CNet> &nets, bool weighted) { NetOp o; o.kind = NetOp::SetNets; o.weighted = weighted; o.nets = nets; return o; };
  auto addNet = [&](const CNet &nt, bool weighted) { NetOp o; o.kind = NetOp::AddNet; o.weighted = weighted; o.nets = {nt}; return o; };
  auto setW = [&](size_t n, const std::vector<CNet> *avoid) {
    NetOp o; o.kind = NetOp::SetNetWeights;
    for (size_t i = 0; i < n; ++i) o.ws.push_back(otherWeight(g, avoid && i < avoid->size() ? (*avoid)[i].w : 1.0f));
    return o;
  };
  int plan = g.range(0, 9);
  out.count(pfx + "_hist_plan_" + std::to_string(std::min(plan, 6)));
  if (plan == 0) {         // weighted setNets of another list, then the final list WITHOUT weights
    ops = {setNets(perturbNets(g, base, f0), true), setNets(f0, false)};
  } else if (plan == 1) {  // weighted setNets of another list (other size), then the final list with its weights
    ops = {setNets(perturbNets(g, base, f0), true), setNets(f0, true)};
  } else if (plan == 2) {  // addNet (weighted) on the fresh object, then setNets
    int k = g.range(1, 4);
    for (int i = 0; i < k; ++i) { CNet nt = randomNet(g, base, 1); nt.w = otherWeight(g, 1.0f); ops.push_back(addNet(nt, true)); }
    ops.push_back(setNets(f0, g.chance(1, 2)));
  } else if (plan == 3) {  // setNets of a prefix, the other nets through addNet
    size_t lastEmpty = 0;
    for (size_t i = 0; i < f0.size(); ++i) if (f0[i].cells.empty()) lastEmpty = i + 1;
    size_t j = g.range(lastEmpty, f0.size());
    if (g.chance(1, 2)) ops.push_back(setNets(perturbNets(g, base, f0), true));
    ops.push_back(setNets(std::vector<CNet>(f0.begin(), f0.begin() + j), g.chance(1, 2)));
    for (size_t i = j; i < f0.size(); ++i) ops.push_back(addNet(f0[i], g.chance(2, 3)));
  } else if (plan == 4) {  // the final pins with other weights, then setNetWeights
    std::vector<CNet> o = f0;
    for (auto &nt : o) nt.w = otherWeight(g, nt.w);
    ops.push_back(setNets(o, g.chance(3, 4)));
    NetOp w; w.kind = NetOp::SetNetWeights;
    for (auto &nt : f0) w.ws.push_back(nt.w);
    ops.push_back(w);
  } else if (plan == 5) {  // setNets, setNetWeights, then the same limits with other offsets and no weights (+ an addNet now and then)
    ops.push_back(setNets(f0, true));
    ops.push_back(setW(f0.size(), &f0));
    std::vector<CNet> o = f0;
    for (auto &nt : o) for (size_t p = 0; p < nt.cells.size(); ++p) { if (g.chance(1, 3)) nt.xo[p] += (int)g.range(-3, 3); if (g.chance(1, 3)) nt.yo[p] += (int)g.range(-3, 3); }
    ops.push_back(setNets(o, false));
    if (g.chance(1, 3)) ops.push_back(addNet(randomNet(g, base, 1), g.chance(1, 2)));
  } else {                 // random walk of 2..4 calls; one of the last two is a setNets of the final list
    int len = g.range(2, 4);
    int forced = len - 1 - (int)g.range(0, 1);
    std::vector<CNet> st;
    for (int i = 0; i < len; ++i) {
      NetOp o;
      int kind = g.range(0, 5);
      if (i == forced) o = setNets(f0, g.chance(1, 2));
      else if (kind <= 1) o = setNets(perturbNets(g, base, f0), g.chance(2, 3));
      else if (kind <= 3) o = addNet(randomNet(g, base, 1), g.chance(2, 3));
      else o = setW(st.size(), &st);
      o.shadow(st);
      ops.push_back(o);
    }
  }
  // measured: what the calls meet
  std::vector<CNet> st;
  bool anySetNets = false;
  for (auto &o : ops) {
    out.count("hist_call_" + o.name());
    bool nonUnit = false;
    for (auto &nt : st) if (nt.w != 1.0f) nonUnit = true;
    if (o.kind == NetOp::SetNets) {
      if (!o.weighted && nonUnit) out.count("hist_setNets_without_weights_on_object_holding_non_unit_weights");
      if (!st.empty()) out.count(o.nets.size() < st.size() ? "hist_setNets_to_fewer_nets" : (o.nets.size() > st.size() ? "hist_setNets_to_more_nets" : "hist_setNets_to_as_many_nets"));
      anySetNets = true;
    } else if (o.kind == NetOp::AddNet) {
      out.count(anySetNets ? "hist_addNet_after_setNets" : "hist_addNet_before_any_setNets");
    } else {
      out.count(st.empty() ? "hist_setNetWeights_on_no_nets" : "hist_setNetWeights_on_nets");
    }
    o.shadow(st);
  }
  return ops;
}

// Random circuit for the Circuit path: cells / rows / pads from vc::genCircuit (no nets), possibly one more
// movable cell turned into a pad, and a net list built here.  lsq: mostly two-pin nets, every movable
// cell anchored to a pad with probability 3/4 (so that most systems are non-singular).
// hg (may be null): the generator of the object's history; when given, the nets reach the object through a history of
// net-setter calls (CH) instead of the single setNets.
static CircuitCase genNetCircuit(vh::Rng &g, vh::Out &out, bool lsq, const std::string &pfx, bool &shiftVisible, vh::Rng *hg = nullptr) {
  CircuitCase cc;
  vc::GenOpts o;
  o.maxRows = 5;
  o.maxCells = lsq ? 8 : 10;
  o.nets = false;
  o.splitRows = g.chance(1, 2);
  Circuit c = vc::genCircuit(g, o);
  int n = c.nbCells();
  std::vector<bool> fx = c.cellIsFixed();
  std::vector<int> mov, fix;
  auto split = [&]() {
    mov.clear(); fix.clear();
    for (int i = 0; i < n; ++i) (fx[i] ? fix : mov).push_back(i);
  };
  split();
  if (mov.size() >= 2 && (fix.empty() ? (lsq || g.chance(1, 2)) : g.chance(1, 4))) {
    fx[g.pick(mov)] = true;
    split();
    c.setCellIsFixed(fx);
  }
  std::vector<CNet> nets;
  auto pin = [&](CNet &nt, int cell) {
    nt.cells.push_back(cell);
    nt.xo.push_back(g.range(-2, c.cellWidth()[cell] + 2));
    nt.yo.push_back(g.range(-2, c.cellHeight()[cell] + 2));
  };
  bool big = !lsq || g.chance(1, 4);  // nets with more than two pins allowed
  int nn = g.range(1, 2 * n + 4);
  for (int k = 0; k < nn; ++k) {
    CNet nt;
    nt.w = topoWeight(g);
    int kind = g.range(0, 11);
    if (kind <= 3) {  // two-pin net on any two cells (pads included, the same cell twice possible)
      pin(nt, g.range(0, n - 1));
      pin(nt, g.range(0, n - 1));
    } else if (kind == 4 && !mov.empty()) {  // dangling pin on a movable cell
      pin(nt, g.pick(mov));
    } else if (kind == 5 && !fix.empty()) {  // pads only
      int d = g.range(1, 3);
      for (int i = 0; i < d; ++i) pin(nt, g.pick(fix));
    } else if (kind == 6 && !mov.empty() && !fix.empty()) {  // movable cell to a pad
      pin(nt, g.pick(mov));
      pin(nt, g.pick(fix));
      if (g.chance(1, 2)) std::swap(nt.cells[0], nt.cells[1]), std::swap(nt.xo[0], nt.xo[1]), std::swap(nt.yo[0], nt.yo[1]);
    } else if (kind == 7 && !mov.empty()) {  // the same movable cell twice
      int cell = g.pick(mov);
      pin(nt, cell);
      pin(nt, cell);
    } else if (kind == 8 && g.chance(1, 3)) {  // empty net (setNets accepts it)
    } else if (kind == 9 && !mov.empty() && !fix.empty() && big) {  // one movable cell and several pad pins
      pin(nt, g.pick(mov));
      int d = g.range(2, 3);
      for (int i = 0; i < d; ++i) pin(nt, g.pick(fix));
    } else if (big) {  // ordinary net of 2..5 pins
      int d = g.range(2, 5);
      for (int i = 0; i < d; ++i) pin(nt, g.range(0, n - 1));
    } else {
      pin(nt, g.range(0, n - 1));
      pin(nt, g.range(0, n - 1));
    }
    nets.push_back(nt);
  }
  if (lsq && !fix.empty()) {
    for (int cell : mov) {
      if (!g.chance(3, 4)) continue;
      CNet nt;
      nt.w = topoWeight(g);
      pin(nt, cell);
      pin(nt, g.pick(fix));
      nets.insert(nets.begin() + g.range(0, nets.size()), nt);
    }
  }
  if (g.chance(1, 8)) for (auto &nt : nets) nt.w = nets[0].w;  // uniform weights now and then
  cc.base = c;
  cc.nets = nets;
  if (hg && n > 0) {
    cc.ops = genNetHistory(*hg, out, cc.base, nets, pfx);
    cc.nets.clear();
    for (auto &op : cc.ops) op.shadow(cc.nets);  // the intended final nets: the documented outcome of the calls
    out.count(pfx + "_hist_cases");
    out.count(pfx + "_hist_calls", (long long)cc.ops.size());
  }
  cc.build();
  // measured distribution: which nets carry wirelength (independent of NetModel)
  int kept = 0, skipped = 0;
  shiftVisible = false;
  const std::vector<CNet> &fin = cc.nets;
  for (auto &nt : fin) {
    int nm = 0; bool hf = false;
    for (int cell : nt.cells) { if (fx[cell]) hf = true; else ++nm; }
    bool keep = nm >= 1 && (nm >= 2 || hf);
    if (keep) {
      out.count(pfx + "_net_kept");
      if (nt.w < 1) out.count(pfx + "_net_kept_weight_below_1");
      if (skipped > 0 && fin[kept].w != nt.w) shiftVisible = true;  // net index != model index, and it matters
      ++kept;
    } else {
      ++skipped;
      out.count(pfx + (nt.cells.empty() ? "_net_skipped_empty" : (nm == 1 ? "_net_skipped_dangling_pin" : "_net_skipped_pads_only")));
    }
  }
  if (skipped > 0) out.count(pfx + "_case_with_degenerate_net");
  if (shiftVisible) out.count(pfx + "_case_degenerate_net_before_kept_net_of_other_weight");
  if (!fix.empty()) out.count(pfx + "_case_with_pads");
  return cc;
}

static void emitTopology(std::ostream &os, const NetModel &m, const char *axis) {
  os << "topo " << axis << " " << m.nbCells() << " " << m.nbNets() << "\n";
  for (int i = 0; i < m.nbNets(); ++i) {
    os << "tnet " << exactFloat(m.netWeight(i)) << " " << m.nbPins(i);
    for (int j = 0; j < m.nbPins(i); ++j) os << " " << m.pinCell(i, j) << " " << exactFloat(m.pinOffset(i, j));
    os << "\n";
  }
}

// a value of magnitude in [2^22, 2^26), either sign, usually odd above 2^24 (so that its float conversion rounds)
static int largeValue(vh::Rng &g) {
  int e = g.range(22, 25);
  int v = g.range(1 << e, (1 << (e + 1)) - 1);
  return g.chance(1, 2) ? v : -v;
}

// Move the circuit to large coordinates: cells and rows translated by (dx, dy), some pin offsets and one cell size
// replaced by values of that magnitude.  Nothing else changes (net list, weights, which cells are fixed).
static void enlarge(Circuit &c, vh::Rng &g, vh::Out &out) {
  int dx = largeValue(g), dy = largeValue(g);
  std::vector<int> xs = c.cellX(), ys = c.cellY();
  for (int &v : xs) v += dx;
  for (int &v : ys) v += dy;
  c.setCellX(xs);
  c.setCellY(ys);
  std::vector<Row> rows = c.rows();
  for (Row &r : rows) { r.minX += dx; r.maxX += dx; r.minY += dy; r.maxY += dy; }
  c.setRows(rows);
  std::vector<int> xo = c.pinXOffsets_, yo = c.pinYOffsets_;
  for (size_t i = 0; i < xo.size(); ++i) {
    if (g.chance(1, 5)) xo[i] = largeValue(g);
    if (g.chance(1, 5)) yo[i] = largeValue(g);
  }
  c.setNets(c.netLimits_, c.pinCells_, xo, yo, c.netWeights_);
  if (g.chance(1, 3) && c.nbCells() > 0) {
    int cell = g.range(0, c.nbCells() - 1);
    std::vector<int> w = c.cellWidth(), h = c.cellHeight();
    if (g.chance(1, 2)) w[cell] = std::abs(largeValue(g)); else h[cell] = std::abs(largeValue(g));
    c.setCellWidth(w);
    c.setCellHeight(h);
    out.count("topo_large_case_with_large_cell_size");
  }
}

// measured: how many int -> float conversions of xTopology/yTopology are inexact on this circuit
static void countInexact(const Circuit &c, vh::Out &out) {
  auto inexact = [](long long v) { return (long long)(float)v != v; };
  long long nFixed = 0, nOff = 0, nSize = 0;
  for (int i = 0; i < c.nbNets(); ++i) {
    for (int j = 0; j < c.nbPinsNet(i); ++j) {
      int cell = c.pinCell(i, j);
      if (c.isFixed(cell)) {
        if (inexact((long long)c.x(cell) + c.pinXOffset(i, j))) ++nFixed;
        if (inexact((long long)c.y(cell) + c.pinYOffset(i, j))) ++nFixed;
      } else {
        if (inexact(c.pinXOffset(i, j))) ++nOff;
        if (inexact(c.pinYOffset(i, j))) ++nOff;
        if (inexact(c.placedWidth(cell))) ++nSize;
        if (inexact(c.placedHeight(cell))) ++nSize;
      }
    }
  }
  Rectangle a = c.computePlacementArea();
  int nArea = inexact(a.minX) + inexact(a.maxX) + inexact(a.minY) + inexact(a.maxY);
  out.count("topo_large_inexact_fixed_pin_positions", nFixed);
  out.count("topo_large_inexact_pin_offsets", nOff);
  out.count("topo_large_inexact_cell_sizes", nSize);
  out.count("topo_large_inexact_area_bounds", nArea);
  if (nFixed + nOff + nSize + nArea > 0) out.count("topo_large_case_with_inexact_conversion");
}

static std::string topologyText(const Circuit &c) {
  std::ostringstream os;
  emitTopology(os, NetModel::xTopology(c), "x");
  emitTopology(os, NetModel::yTopology(c), "y");
  return os.str();
}

// The topology stream on a prepared case.  With a history (CH): the ops stream carries the *intended* final circuit (the
// fresh twin), the impl stream what xTopology/yTopology make of the object that went through the calls, and the direct
// oracle demands that both objects give the same NetModel.
static void topologyRun(vh::Out &out, const std::string &id, CircuitCase &cc, bool large, bool shiftVisible) {
  Circuit &c = cc.obj;
  std::string in = cc.hist() ? cc.historyText("topo") : vc::circuitString(c);
  vh::setCase(id, in);
  std::ostringstream impl;
  impl << "case " << id << "\n";
  std::string modelCircuit = in;
  try {
    std::string mine = topologyText(c);
    impl << mine;
    if (cc.hist()) {
      Circuit t = cc.twin();
      modelCircuit = vc::circuitString(t);
      std::string fresh = topologyText(t);
      out.count("CH_topology_comparisons");
      if (mine != fresh) {
        auto oneLine = [](std::string t) { for (char &ch : t) if (ch == '\n') ch = ';'; return t.substr(0, 400); };
        out.fail(id, "the NetModel (xTopology/yTopology) of a circuit that received its nets through a history of net setters differs from the one of "
                     "a freshly built circuit with the nets those calls document; object: " + oneLine(mine) + " | fresh: " + oneLine(fresh), in);
        return;
      }
    }
  } catch (const std::exception &e) {
    out.fail(id, std::string("xTopology/yTopology threw on a valid circuit: ") + e.what(), in);
    return;
  }
  out.ops << "case " << id << "\n" << modelCircuit << "topo x\ntopo y\n";
  out.impl << impl.str();
  out.evaluations++;
  out.count(large ? "topo_large_cases" : "topo_cases");
  if (shiftVisible) out.nontrivial(vh::hashStr("t" + in));
  if (cc.hist()) out.nontrivial(vh::hashStr("th" + in));
  if (out.samples.size() < 4) out.sample("topology: " + in);
}

static void topologyCase(vh::Out &out, const std::string &id, vh::Rng &g, bool large, vh::Rng *hg = nullptr) {
  bool shiftVisible = false;
  CircuitCase cc = genNetCircuit(g, out, false, large ? "topoL" : "topo", shiftVisible, large ? nullptr : hg);
  if (large) {
    enlarge(cc.obj, g, out);
    countInexact(cc.obj, out);
  }
  topologyRun(out, id, cc, large, shiftVisible);
}

// CL: the real solver through the Circuit path against the least-squares optimum for the circuit's own weights.
// With a history (CH) the optimum is the one for the *intended* weights (accessors of the fresh twin), and the solution
// must be bitwise the one of the twin with all weights times 2^k (initial solve, and one refinement solve()).
static void circuitLsqRun(vh::Out &out, const std::string &id, CircuitCase &cc, float tol, int k, int refineModel, bool shiftVisible) {
  const Circuit &c = cc.obj;
  const bool hist = cc.hist();
  Circuit ref = hist ? cc.twin() : c;                 // whose accessors define the documented quadratic
  Circuit scaled = hist ? cc.twin(pow2(k)) : Circuit(0);
  NetModel::Parameters p;
  p.tolerance = tol;
  p.maxNbIterations = 1000;
  std::string histIn;
  if (hist) {
    std::ostringstream hs;
    hs << "lsq " << exactFloat(tol) << " " << k << " " << refineModel;
    histIn = cc.historyText(hs.str());
  }
  for (int axis = 0; axis < 2; ++axis) {
    bool xa = axis == 0;
    std::ostringstream is;
    is << (xa ? "xTopology" : "yTopology") << "(circuit).solveStar(tol=" << fstr(p.tolerance) << ",maxIter=" << p.maxNbIterations << ") "
       << vc::circuitString(c);
    std::string in = hist ? histIn : is.str();
    vh::setCase(id, in);
    auto finite = [](const std::vector<float> &v) { for (float f : v) if (!std::isfinite(f)) return false; return true; };
    if (hist) {
      // CH: same nets, all weights times 2^k, fresh object -> bitwise the same solutions
      try {
        NetModel mo = xa ? NetModel::xTopology(c) : NetModel::yTopology(c);
        NetModel mt = xa ? NetModel::xTopology(scaled) : NetModel::yTopology(scaled);
        std::vector<float> xo = mo.solveStar(p), xt = mt.solveStar(p);
        if (finite(xo) && finite(xt)) {
          out.count("CH_S2_initial_solve_comparisons");
          if (!bitwiseEqual(xo, xt)) {
            out.fail(id, std::string("initial solve (") + (xa ? "x" : "y") + " axis) of the circuit that received its nets through the history of net setters: [" +
                             vecStr(xo) + "]; freshly built circuit with the documented final nets and all weights times 2^" + std::to_string(k) + ": [" + vecStr(xt) + "]", in);
            return;
          }
          NetModel::Parameters pr = p;
          static const NetModelOption opts[] = {NetModelOption::BoundToBound, NetModelOption::Star, NetModelOption::Clique, NetModelOption::LightStar};
          pr.netModel = opts[refineModel & 3];
          std::vector<float> ro = mo.solve(xt, pr), rt = mt.solve(xt, pr);
          if (finite(ro) && finite(rt)) {
            out.count("CH_S2_refinement_solve_comparisons");
            if (!bitwiseEqual(ro, rt)) {
              out.fail(id, std::string("refinement solve() (") + (xa ? "x" : "y") + " axis, net model " + MODE_NAME[1 + (refineModel & 3)] +
                               ") of the circuit that received its nets through the history of net setters: [" + vecStr(ro) +
                               "]; freshly built circuit with the documented final nets and all weights times 2^" + std::to_string(k) + ": [" + vecStr(rt) + "]", in);
              return;
            }
          }
        } else {
          out.count("CH_skipped_nonfinite_solution");
        }
      } catch (const std::exception &e) {
        out.fail(id, std::string("xTopology/yTopology/solveStar/solve threw on a valid circuit: ") + e.what(), in);
        return;
      }
    }
    bool twoPinOnly = true;
    Dense d = denseFromCircuit(ref, xa, twoPinOnly);
    DenseSol s = denseSolve(d);
    if (!s.ok) { out.count("CL_skipped_singular"); continue; }
    out.evaluations++;
    // the rhs entries are sums of terms w·(offset difference) that may cancel: the single-precision accumulation
    // errs by a fraction of the *magnitude* of the terms, not of the sum
    double T = solverTolerance(s, p.tolerance) + s.normInvInf * 1e-5 * rhsMagnitude(d);
    double scale = 1.0;
    for (int i = 0; i < c.nbCells(); ++i) scale = std::max(scale, std::fabs(s.x[i]));
    bool sharp = T <= 1e-2 * scale;
    out.count(sharp ? "CL_tolerance_below_1pct_of_scale" : "CL_tolerance_loose");
    out.count(twoPinOnly ? "CL_two_pin_nets_only" : "CL_with_star_nets");
    if (sharp && shiftVisible) { out.nontrivial(vh::hashStr("q" + in)); out.count("CL_sharp_and_degenerate_before_kept"); }
    if (hist) {
      out.count("CH_least_squares_comparisons");
      if (sharp) { out.nontrivial(vh::hashStr("qh" + in + (xa ? "x" : "y"))); out.count("CH_least_squares_sharp"); }
    }
    std::vector<float> x;
    try {
      x = (xa ? NetModel::xTopology(c) : NetModel::yTopology(c)).solveStar(p);
    } catch (const std::exception &e) {
      out.fail(id, std::string("xTopology/yTopology/solveStar threw on a valid circuit: ") + e.what(), in);
      return;
    }
    for (int i = 0; i < c.nbCells(); ++i) {
      if (ref.isFixed(i)) continue;
      if (!(std::fabs((double)x[i] - s.x[i]) <= T)) {
        std::ostringstream os;
        os << "initial solve of the circuit (" << (xa ? "x" : "y") << " axis) puts the centre of cell " << i << " at " << fstr(x[i])
           << " but the least-squares optimum for the " << (hist ? "net weights its setters were given" : "circuit's own net weights") << " has it at " << s.x[i] << " (allowed " << T << ")";
        out.fail(id, os.str(), in);
        return;
      }
    }
  }
}

static void circuitLsqOracle(vh::Out &out, const std::string &id, vh::Rng &g, vh::Rng *hg = nullptr) {
  bool shiftVisible = false;
  CircuitCase cc = genNetCircuit(g, out, true, "CL", shiftVisible, hg);
  float tol = g.chance(1, 3) ? 1.0e-6f : 1.0e-4f;
  int k = 1, refine = 0;
  if (hg) {
    k = hg->chance(1, 2) ? (int)hg->range(1, 6) : -(int)hg->range(1, 4);
    refine = hg->range(0, 3);
  }
  circuitLsqRun(out, id, cc, tol, k, refine, shiftVisible);
}

// --replay of a CH case: `nethistory topo|lsq <tol mant> <tol exp2> <k> <refinement model>` + base circuit + calls
static bool replayNetHistory(vh::Out &out, const std::string &txt) {
  std::string head;
  CircuitCase cc;
  if (!parseNetHistory(txt, head, cc)) return false;
  cc.build();
  out.count("replay_net_history");
  std::istringstream hs(head);
  std::string what;
  hs >> what;
  if (what == "lsq") {
    long long m = 0; int e = 0, k = 1, refine = 0;
    hs >> m >> e >> k >> refine;
    float tol = (float)std::ldexp((double)m, e);
    if (!(tol > 0)) tol = 1.0e-4f;
    circuitLsqRun(out, "replay", cc, tol, k, refine, false);
  } else {
    topologyRun(out, "replay", cc, false, false);
  }
  return true;
}

int main(int argc, char **argv) {
  vh::Args a = vh::parseArgs(argc, argv);
  vh::Out out(a.out);
  vh::installCrashHandler(&out);
  out.rule =
      "correspondence: dyadic NetModel instances (1-6 cells, 1-8 nets of 2-4 pins incl. fixed pins, all five create* variants, optional "
      "penalty), assembled system captured by hook H2 and compared exactly; approximate correspondence: the same shapes with "
      "non-dyadic weights / strengths / eps / cutoff and arbitrary half-integer pin positions, pattern compared exactly and values "
      "within the rounding bound derived from the float operation count; oracle: general float instances (weights 0.1..7.3 incl. "
      "fractional below 1, float offsets/placements, eps, penalties) solved by the real CG solver; non-trivial = the derived tolerance "
      "of the non-dyadic scaling / least-squares comparison is below 1% of the coordinate scale (so a mis-weighted net would be seen), "
      "or a weight<1 gadget; topology stream / oracle CL: circuits (1-13 cells incl. pads inside and outside the placement area, all "
      "orientations, 1-30 nets: two-pin, repeated cells, pads, larger nets, with dangling-pin / pads-only / empty nets interleaved, "
      "non-uniform float weights) through NetModel::xTopology/yTopology, a second stream with the circuit translated to "
      "coordinates of magnitude 2^22..2^26 and large pin offsets / cell sizes (int -> float conversions round), non-trivial = a degenerate net precedes a kept net whose "
      "weight differs from the weight at its NetModel index (and, for CL, the derived tolerance is below 1% of the scale); "
      "CH: one case in three of the topology stream t and of CL gives the object its nets through a history of 2..6 public net-setter "
      "calls (setNets with / without the weights argument incl. lists of another size, addNet with / without weight before and after "
      "setNets, setNetWeights; counters hist_call_*, hist_setNets_without_weights_on_object_holding_non_unit_weights, "
      "hist_setNets_to_fewer/more/as_many_nets, hist_addNet_*, topo_hist_cases, CL_hist_cases, *_hist_plan_k), the model / the "
      "least-squares optimum are those of the nets the calls document, and the object's NetModel and solves are compared with a "
      "freshly built twin (CH_topology_comparisons, CH_S2_initial_solve_comparisons, CH_S2_refinement_solve_comparisons, "
      "CH_least_squares_comparisons); every history case of the topology stream counts as non-trivial, a CL one when its tolerance is sharp; "
      "distinct by the canonical text of the instance";
  out.count(HAS_H2 ? "hook_H2_present" : "hook_H2_absent");
  if (!HAS_H2) out.notes.push_back("hook H2 absent in this tree: assembled-system correspondence stream skipped; non-dyadic scaling oracle only for the initial star model");

  if (!a.replay.empty()) {
    // a recorded net-setter history (CH) is replayed alone; any other recorded input re-runs the streams of its seed
    std::string txt = vhist::replayInput(a.replay);
    if (txt.rfind("nethistory", 0) == 0) {
      if (!replayNetHistory(out, txt)) out.fail("replay", "harness: cannot parse the recorded net-setter history", txt);
      out.finish();
      return 0;
    }
  }

  // --- weight<1 gadgets (corpus first: the F12 witness) --------------------------------------
  long long k = 0;
  if (!a.corpus.empty()) {
    for (auto &ln : vh::readLines(a.corpus + "/gadgets.txt")) {
      if (ln.empty() || ln[0] == '#') continue;
      std::istringstream is(ln);
      int mode; float pa, pb, wa, wb, pl0, eps, oa, ob;
      if (!(is >> mode >> pa >> pb >> wa >> wb >> pl0 >> eps >> oa >> ob)) continue;
      gadgetOracle(out, "c" + std::to_string(k++), mode, pa, pb, wa, wb, pl0, eps, oa, ob);
      out.count("corpus");
    }
  }
  long long ng = a.thorough() ? 4000 : (a.search() ? 2000 : 400);
  for (long long i = 0; i < ng; ++i) {
    vh::Rng g = vh::Rng::forCase(a.seed, 3000000 + i);
    static const std::vector<float> light = {0.5f, 0.25f, 0.75f, 0.125f, 0.9f, 0.3f};
    float pa = (float)g.range(-50, 50), pb = pa + (g.chance(1, 2) ? 1 : -1) * (float)g.range(4, 60);
    gadgetOracle(out, "g" + std::to_string(i), g.range(0, 4), pa, pb, (float)g.range(1, 3), g.pick(light), (float)g.range(-60, 60),
                 pow2(g.range(-1, 4)), (float)g.range(-3, 3), (float)g.range(-3, 3));
  }

  // --- correspondence on dyadic instances --------------------------------------------------------
  long long ne = a.thorough() ? 40000 : (a.search() ? 0 : 3000);
  if (HAS_H2) {
    for (long long i = 0; i < ne; ++i) {
      vh::Rng g = vh::Rng::forCase(a.seed, i);
      Case c = genExact(g, out);
      std::string id = "e" + std::to_string(i);
      vh::setCase(id, c.str(true));
      armHook(true);
      std::vector<float> x = solveCase(c, 1.0f);
      Captured cap = g_cap;
      armHook(false);
      if (!cap.valid) { out.fail(id, "hook H2 was not called by the solve", c.str(true)); continue; }
      emitOps(out, id, c);
      emitImpl(out, id, cap);
      out.evaluations++;
      out.count(std::string("exact_mode_") + MODE_NAME[c.mode]);
      if (c.hasPen) out.count("exact_with_penalty");
      if (cap.matSize > cap.nbCells) out.count("exact_with_star_variables");
      if (i < 2) out.sample(c.str(true));
      // on dyadic instances a power-of-two factor must also give the same solution
      std::vector<float> x2 = solveCase(c, 4.0f);
      if (!bitwiseEqual(x, x2)) out.fail(id, "scaling by 4 changes the solution: [" + vecStr(x) + "] vs [" + vecStr(x2) + "]", c.str(false));
    }
  }

  // --- approximate correspondence on non-dyadic weights ---------------------------------------------
  long long na = a.thorough() ? 40000 : (a.search() ? 0 : 3000);
  if (HAS_H2) {
    for (long long i = 0; i < na; ++i) {
      vh::Rng g = vh::Rng::forCase(a.seed, 8000000 + i);
      Case c = genApprox(g, out);
      std::string id = "a" + std::to_string(i);
      vh::setCase(id, c.str(true));
      armHook(true);
      solveCase(c, 1.0f);
      Captured cap = g_cap;
      armHook(false);
      if (!cap.valid) { out.fail(id, "hook H2 was not called by the solve", c.str(true)); continue; }
      emitApprox(out, id, c, cap);
      out.evaluations++;
      out.count(std::string("approx_mode_") + MODE_NAME[c.mode]);
      if (c.hasPen) out.count("approx_with_penalty");
      if (cap.matSize > cap.nbCells) out.count("approx_with_star_variables");
      long long rounded = 0;
      for (float v : cap.values) { float m = std::ldexp(v, 12); if (m != std::floor(m)) ++rounded; }
      out.count("approx_matrix_entries", (long long)cap.values.size());
      out.count("approx_matrix_entries_not_multiple_of_2^-12", rounded);
      if (i < 2) out.sample("approx: " + c.str(true));
    }
  }

  // --- topology correspondence + least squares through the Circuit path ----------------------------
  long long nt = a.thorough() ? 20000 : (a.search() ? 0 : 1500);
  for (long long i = 0; i < nt; ++i) {
    vh::Rng g = vh::Rng::forCase(a.seed, 5000000 + i);
    vh::Rng hg = vh::Rng::forCase(a.seed, 9000000 + i);  // CH: one case in three reaches its nets through a history of net setters
    topologyCase(out, "t" + std::to_string(i), g, false, hg.chance(1, 3) ? &hg : nullptr);
  }
  long long nu = a.thorough() ? 10000 : (a.search() ? 0 : 800);
  for (long long i = 0; i < nu; ++i) {
    vh::Rng g = vh::Rng::forCase(a.seed, 7000000 + i);
    topologyCase(out, "u" + std::to_string(i), g, true);
  }
  long long nq = a.thorough() ? 20000 : (a.search() ? 8000 : 1500);
  for (long long i = 0; i < nq; ++i) {
    vh::Rng g = vh::Rng::forCase(a.seed, 6000000 + i);
    vh::Rng hg = vh::Rng::forCase(a.seed, 9500000 + i);
    circuitLsqOracle(out, "q" + std::to_string(i), g, hg.chance(1, 3) ? &hg : nullptr);
  }

  // --- scaling + least-squares oracles on general instances --------------------------------------
  long long ns = a.thorough() ? 30000 : (a.search() ? 15000 : 2500);
  for (long long i = 0; i < ns; ++i) {
    vh::Rng g = vh::Rng::forCase(a.seed, 1000000 + i);
    Case c = genGeneral(g, out, -1);
    out.count(std::string("general_mode_") + MODE_NAME[c.mode]);
    if (c.hasPen) out.count("general_with_penalty");
    scalingOracle(out, "s" + std::to_string(i), c, g);
    if (i < 3) out.sample(c.str(false));
  }
  long long nl = a.thorough() ? 20000 : (a.search() ? 10000 : 1500);
  for (long long i = 0; i < nl; ++i) {
    vh::Rng g = vh::Rng::forCase(a.seed, 2000000 + i);
    Case c = genGeneral(g, out, 0);
    lsqOracle(out, "l" + std::to_string(i), c);
  }
  long long nPQ = a.thorough() ? 20000 : (a.search() ? 10000 : 1500);
  for (long long i = 0; i < nPQ; ++i) {
    vh::Rng g = vh::Rng::forCase(a.seed, 2600000 + i);
    penalisedTwoPinOracle(out, "q" + std::to_string(i), g);
  }
  long long np = a.thorough() ? 200 : (a.search() ? 40 : 12);
  for (long long i = 0; i < np; ++i) {
    vh::Rng g = vh::Rng::forCase(a.seed, 4000000 + i);
    placeGlobalOracle(out, "p" + std::to_string(i), g);
  }
  out.finish();
  return 0;
}
