// C09 — wirelength is geometrically exact and incrementally consistent.
//
// Correspondence + direct oracle for
//   Circuit::hpwl / pinXOffset / pinYOffset / placedWidth / placedHeight  (coloquinte.cpp, isTurn in parameters.cpp)
//   IncrNetModel::xTopology / yTopology (all cells and subsets), updateCellPos, value, check (incr_net_model.cpp)
//
// The harness is op-driven: a `Session` executes one protocol line (see lean/Driver/C09.lean) on
// the real code, prints the real code's answer to impl.txt and evaluates the direct oracle; the
// generator only decides which lines to execute.  The very same interpreter replays a recorded
// case, so the `input` of an oracle failure (circuit block + op history) is a complete replay.
//
// Direct oracle (independent code; never calls pinXOffset/pinYOffset/placedWidth/placedHeight/
// isTurn/hpwl): DEF orientation semantics as plane geometry.  An orientation is an integer 2x2
// matrix (N=R0, W=R90 ccw, S=R180, E=R270, FN=MY, FS=MX, FW=R90*MX, FE=R90*MY, composed from
// R90/MX/MY by matrix product).  The placed outline is the image of [0,w]x[0,h] translated so that
// its lower-left corner is the cell position; a pin is at cellpos + (M*pin - lowerLeft(image)).
//  (a) offs/goffs/placed of the library == the geometry, for every pin / cell, at every step
//  (b) Circuit::hpwl() == sum over nets with >= 1 pin of (maxX-minX)+(maxY-minY)
//  (c) after build and after every update: model.value() == the 1-D HPWL recomputed from scratch
//      over (shadow positions of the model's cells, positions at build time of the other cells);
//      and whenever a model is in sync with the circuit: value() == x- (resp. y-) HPWL of the
//      circuit, fx.value()+fy.value() == Circuit::hpwl()  (hence sx == fx, sy == fy)
//  (d) IncrNetModel::check() never throws.
//  (e) `dprun` (cases d<k>): the real optimiser object.  In a forked child the circuit is legalized, a
//      DetailedPlacer is constructed on it and run with the case's parameters; at construction, at every
//      primitive move announced through hook H3 (coloquinte::verif::onDetailedOp; swap / insert before the
//      move, shift after it) up to a per-case cap, at every callback and at the end, DetailedPlacer::value()
//      is (1) printed next to the Lean model's value after the same position updates (the positions are
//      read from xtopo_/ytopo_ and sent as `dpupd` lines) and (2) compared by the oracle with the
//      from-scratch HPWL of the positions held by placement_ (pin offsets by the geometry above, frozen at
//      construction as IncrNetModel documents) and, at construction, with Circuit::hpwl().  The final
//      `dpdump` compares both complete models (positions, both CSR tables) of the placer.
//
// --replay FILE: FILE is the JSON written by check.py (member "input") or the raw input text:
// a circuit block followed by op lines.  The ops are re-executed verbatim; if the text holds only a
// circuit, a fresh random op sequence (seeded by --seed) is run on it.
#include <fcntl.h>

#include <algorithm>
#include <climits>
#include <cmath>
#include <memory>

#include "common/circuit.hpp"
#include "place_detailed/incr_net_model.hpp"
// dprun reads xtopo_ / ytopo_ / placement_ and sets callback_ the way DetailedPlacer::place does
#define private public
#include "place_detailed/place_detailed.hpp"
#undef private

using namespace coloquinte;

// ------------------------------------------------------------------ geometry (oracle)
namespace geo {
struct M2 { long long a, b, c, d; };  // (x,y) -> (a x + b y, c x + d y)
static M2 mul(const M2 &p, const M2 &q) {  // p after q
  return {p.a * q.a + p.b * q.c, p.a * q.b + p.b * q.d, p.c * q.a + p.d * q.c, p.c * q.b + p.d * q.d};
}
static const M2 ID{1, 0, 0, 1}, R90{0, -1, 1, 0}, MY{-1, 0, 0, 1}, MX{1, 0, 0, -1};
static M2 matrixOf(int o) {
  switch (o) {
    case 0: return ID;                        // N  = R0
    case 1: return mul(R90, R90);             // S  = R180
    case 2: return R90;                       // W  = R90
    case 3: return mul(R90, mul(R90, R90));   // E  = R270
    case 4: return MY;                        // FN = MY
    case 5: return MX;                        // FS = MX
    case 6: return mul(R90, MX);              // FW = MX90
    case 7: return mul(R90, MY);              // FE = MY90
  }
  return ID;
}
struct Pt { long long x, y; };
static Pt apply(const M2 &m, Pt p) { return {m.a * p.x + m.b * p.y, m.c * p.x + m.d * p.y}; }
struct Image { long long llx, lly, w, h; };
static Image image(int o, long long w, long long h) {
  M2 m = matrixOf(o);
  Pt c[4] = {apply(m, {0, 0}), apply(m, {w, 0}), apply(m, {0, h}), apply(m, {w, h})};
  long long x0 = c[0].x, x1 = c[0].x, y0 = c[0].y, y1 = c[0].y;
  for (auto &p : c) { x0 = std::min(x0, p.x); x1 = std::max(x1, p.x); y0 = std::min(y0, p.y); y1 = std::max(y1, p.y); }
  return {x0, y0, x1 - x0, y1 - y0};
}
static Pt pinOffset(int o, long long w, long long h, long long px, long long py) {
  Image im = image(o, w, h);
  Pt q = apply(matrixOf(o), {px, py});
  return {q.x - im.llx, q.y - im.lly};
}
}  // namespace geo

// oracle pin location from the raw circuit data
static geo::Pt oraclePinOffset(const Circuit &c, int flat) {
  int cell = c.pinCells_[flat];
  return geo::pinOffset((int)c.cellOrientation_[cell], c.cellWidth_[cell], c.cellHeight_[cell], c.pinXOffsets_[flat], c.pinYOffsets_[flat]);
}

static std::pair<long long, long long> oracleHpwl(const Circuit &c) {
  long long sx = 0, sy = 0;
  for (size_t n = 0; n + 1 < c.netLimits_.size(); ++n) {
    int b = c.netLimits_[n], e = c.netLimits_[n + 1];
    if (e <= b) continue;
    long long x0 = LLONG_MAX, x1 = LLONG_MIN, y0 = LLONG_MAX, y1 = LLONG_MIN;
    for (int f = b; f < e; ++f) {
      geo::Pt o = oraclePinOffset(c, f);
      long long x = (long long)c.cellX_[c.pinCells_[f]] + o.x, y = (long long)c.cellY_[c.pinCells_[f]] + o.y;
      x0 = std::min(x0, x); x1 = std::max(x1, x); y0 = std::min(y0, y); y1 = std::max(y1, y);
    }
    sx += x1 - x0;
    sy += y1 - y0;
  }
  return {sx, sy};
}

// ------------------------------------------------------------------ circuit text <-> Circuit
static float weightOf(long long mant, long long e) { return (float)std::ldexp((double)mant, (int)e); }

// parses the lines of a vc::dumpCircuit block starting at lines[i] ("circuit n"); nets go through
// setNets so that empty nets survive.  On success i is just after "end".
static bool parseCircuitBlock(const std::vector<std::string> &lines, size_t &i, std::unique_ptr<Circuit> &res) {
  int n = -1;
  std::vector<int> w, h, x, y, limits{0}, pc, px, py;
  std::vector<bool> fx, ob;
  std::vector<CellOrientation> orr;
  std::vector<CellRowPolarity> pol;
  std::vector<Row> rows;
  std::vector<float> weights;
  bool ended = false;
  for (; i < lines.size() && !ended; ++i) {
    std::istringstream ls(lines[i]);
    std::string kw;
    if (!(ls >> kw)) continue;
    if (kw == "circuit") ls >> n;
    else if (kw == "cell") {
      int a, b, c, d, o, f, obs, p;
      if (!(ls >> a >> b >> c >> d >> o >> f >> obs >> p)) return false;
      w.push_back(a); h.push_back(b); x.push_back(c); y.push_back(d);
      orr.push_back((CellOrientation)o); fx.push_back(f != 0); ob.push_back(obs != 0); pol.push_back((CellRowPolarity)p);
    } else if (kw == "row") {
      int a, b, c, d, o;
      if (!(ls >> a >> b >> c >> d >> o)) return false;
      rows.emplace_back(a, b, c, d, (CellOrientation)o);
    } else if (kw == "net") {
      long long m, e;
      int np;
      if (!(ls >> m >> e >> np)) return false;
      for (int k = 0; k < np; ++k) {
        int c, a, b;
        if (!(ls >> c >> a >> b)) return false;
        pc.push_back(c); px.push_back(a); py.push_back(b);
      }
      limits.push_back(pc.size());
      weights.push_back(weightOf(m, e));
    } else if (kw == "end") ended = true;
    else return false;
  }
  if (!ended || n != (int)w.size()) return false;
  for (int c : pc) if (c < 0 || c >= n) return false;
  res.reset(new Circuit(n));
  res->setCellWidth(w); res->setCellHeight(h); res->setCellX(x); res->setCellY(y);
  res->setCellIsFixed(fx); res->setCellIsObstruction(ob); res->setCellOrientation(orr); res->setCellRowPolarity(pol);
  res->setRows(rows);
  res->setNets(limits, pc, px, py, weights);
  return true;
}

static std::string jsonField(const std::string &json, const std::string &key) {
  size_t k = json.find("\"" + key + "\"");
  if (k == std::string::npos) return "";
  size_t q = json.find('"', json.find(':', k) + 1);
  if (q == std::string::npos) return "";
  std::string o;
  for (size_t i = q + 1; i < json.size() && json[i] != '"'; ++i) {
    if (json[i] == '\\' && i + 1 < json.size()) {
      char e = json[++i];
      if (e == 'n') o += '\n';
      else if (e == 't') o += '\t';
      else if (e == 'u') { i += 4; o += '?'; }
      else o += e;
    } else o += json[i];
  }
  return o;
}

// ------------------------------------------------------------------ the interpreter
struct Slot {
  std::unique_ptr<IncrNetModel> m;
  bool isX = true;
  std::vector<int> cells;       // circuit index of model cell k
  std::vector<long long> pos;   // shadow positions of the model's cells
  std::vector<long long> snap;  // coordinate (x or y) of every circuit cell at build time
  std::vector<char> inSub;
  long long epoch = 0;          // orientation epoch at build time
  // oracle nets (circuit nets with >= 1 pin): (model cell k, oracle offset) or (-1, absolute position)
  std::vector<std::vector<std::pair<int, long long>>> nets;
};

struct Session {
  vh::Out &out;
  std::string id;
  std::unique_ptr<Circuit> circ;
  std::string circuitText;
  std::vector<std::string> history;
  std::map<std::string, Slot> slots;
  long long epoch = 0;
  bool sawSpan = false, updChanged = false;
  bool closed = false;  // after dprun the driver's circuit is the legalized one: the case ends there
  long long lastUpdDelta = 0;

  explicit Session(vh::Out &o) : out(o) {}

  std::string input() const {
    std::string s = circuitText;
    for (auto &h : history) { s += h; s += "\n"; }
    return s;
  }
  void fail(const std::string &what) {
    if (out.failures >= 200) { ++out.failures; return; }  // Out::fail stops writing after 200
    out.fail(id, what, input());
  }

  void begin(const std::string &caseId, const Circuit &c) {
    id = caseId;
    circ.reset(new Circuit(c));
    circuitText = vc::circuitString(*circ);
    history.clear();
    slots.clear();
    epoch = 0;
    sawSpan = updChanged = false;
    closed = false;
    vh::setCase(id, circuitText);
    out.ops << "case " << id << "\n" << circuitText;
    out.impl << "case " << id << "\n";
  }

  int nbPins() const { return circ->netLimits_.back(); }
  long long coord(bool isX, int c) const { return isX ? circ->cellX_[c] : circ->cellY_[c]; }

  long long slotOracle(const Slot &s) const {
    long long v = 0;
    for (auto &net : s.nets) {
      long long lo = LLONG_MAX, hi = LLONG_MIN;
      for (auto &p : net) {
        long long q = p.first >= 0 ? s.pos[p.first] + p.second : p.second;
        lo = std::min(lo, q); hi = std::max(hi, q);
      }
      if (!net.empty()) v += hi - lo;
    }
    return v;
  }
  bool synced(const Slot &s) const {
    if (s.epoch != epoch || (int)s.snap.size() != circ->nbCells()) return false;
    for (size_t k = 0; k < s.cells.size(); ++k) if (s.pos[k] != coord(s.isX, s.cells[k])) return false;
    for (int c = 0; c < circ->nbCells(); ++c) if (!s.inSub[c] && s.snap[c] != coord(s.isX, c)) return false;
    return true;
  }

  void record(const std::string &op) {
    history.push_back(op);
    out.ops << op << "\n";
    vh::crashCtx().input += op;
    vh::crashCtx().input += "\n";
  }


  // ---------------------------------------------------------------- the real DetailedPlacer (see header, (e))
  struct DpNet { std::vector<std::pair<int, std::pair<long long, long long>>> pins; };  // (cell, (xo, yo))

  static ColoquinteParameters dpParams(unsigned long long pseed) {
    vh::Rng pg = vh::Rng::forCase(pseed, 4242);
    ColoquinteParameters p = vc::genParams(pg, pg.chance(3, 4));
    p.seed = pg.range(0, 1000);
    return p;
  }

  void dprun(unsigned long long pseed) {
    std::string txt, diag;
    const Circuit &start = *circ;
    std::string st = vh::isolated(
        [&](std::ostream &os) {
          // the library reports progress on stdout
          int nul = open("/dev/null", O_WRONLY);
          if (nul >= 0) dup2(nul, 1);
          ColoquinteParameters params = dpParams(pseed);
          Circuit c = start;
          try {
            c.legalize(params);
          } catch (const std::exception &e) {
            os << "C dprun_legalize_" << vc::exClass(e) << "\n";
            return;
          }
          {
            std::istringstream cs(vc::circuitString(c));
            std::string l;
            while (std::getline(cs, l)) os << "O " << l << "\n";
          }
          int n = c.nbCells();
          // oracle nets: geometric pin offsets at construction time
          std::vector<DpNet> nets;
          for (size_t k = 0; k + 1 < c.netLimits_.size(); ++k) {
            DpNet net;
            for (int f = c.netLimits_[k]; f < c.netLimits_[k + 1]; ++f) {
              geo::Pt o = oraclePinOffset(c, f);
              net.pins.push_back({c.pinCells_[f], {o.x, o.y}});
            }
            if (!net.pins.empty()) nets.push_back(net);
          }
          std::unique_ptr<DetailedPlacer> pl;
          try {
            params.check();
            pl.reset(new DetailedPlacer(c, params));
          } catch (const std::exception &e) {
            os << "C dprun_constructor_" << vc::exClass(e) << "\n";
            return;
          }
          std::vector<long long> lastX(n), lastY(n);
          long long lastValue = 0;
          int observations = 0, hookObs = 0, valueChanges = 0;
          bool anyFail = false;
          auto oracle = [&]() {
            long long v = 0;
            for (auto &net : nets) {
              long long x0 = LLONG_MAX, x1 = LLONG_MIN, y0 = LLONG_MAX, y1 = LLONG_MIN;
              for (auto &p : net.pins) {
                long long x = (long long)pl->placement_.cellX(p.first) + p.second.first, y = (long long)pl->placement_.cellY(p.first) + p.second.second;
                x0 = std::min(x0, x); x1 = std::max(x1, x); y0 = std::min(y0, y); y1 = std::max(y1, y);
              }
              v += (x1 - x0) + (y1 - y0);
            }
            return v;
          };
          auto observe = [&](const std::string &where, bool first) {
            long long v = pl->value();
            if (first) {
              os << "O dpbuild\n";
              for (int i = 0; i < n; ++i) { lastX[i] = pl->xtopo_.cellPos(i); lastY[i] = pl->ytopo_.cellPos(i); }
            } else {
              std::ostringstream up;
              int k = 0;
              for (int i = 0; i < n; ++i) {
                long long x = pl->xtopo_.cellPos(i), y = pl->ytopo_.cellPos(i);
                if (x != lastX[i] || y != lastY[i]) {
                  up << " " << i << " " << x << " " << y;
                  lastX[i] = x; lastY[i] = y;
                  ++k;
                }
              }
              os << "O dpupd " << k << up.str() << "\n";
              if (v != lastValue) ++valueChanges;
            }
            lastValue = v;
            os << "I dp " << v << "\n";
            os << "E\n";
            ++observations;
            long long want = oracle();
            if (v != want && !anyFail) {
              anyFail = true;
              os << "F DetailedPlacer::value() = " << v << " " << where << " but the from-scratch HPWL of the positions held by the placer is " << want << "\n";
            }
            if (first && v != c.hpwl() && !anyFail) {
              anyFail = true;
              os << "F DetailedPlacer::value() = " << v << " right after construction but Circuit::hpwl() = " << c.hpwl() << "\n";
            }
          };
          observe("after construction", true);
          pl->callback_ = [&](PlacementStep) {
            observe("at callback " + std::to_string(observations), false);
            os << "C dprun_callback_observations\n";
          };
#ifdef COLOQUINTE_VERIF_DETAILED_OPLOG
          static std::function<void(const char *)> hookFn;
          hookFn = [&](const char *kind) {
            std::string k = kind;
            if (k == "h_reorder") return;  // the two models are mid-enumeration there
            if (hookObs >= 60) return;
            ++hookObs;
            observe("at move " + k + " (observation " + std::to_string(observations) + ")", false);
            os << "C dprun_move_observations_" << k << "\n";
          };
          coloquinte::verif::onDetailedOp = [](const char *kind, const int *, int) { hookFn(kind); };
#else
          os << "C dprun_no_hook_H3\n";
#endif
          std::string res = "ok";
          try {
            pl->check();
            pl->run();
            pl->check();
          } catch (const std::exception &e) {
            res = vc::exClass(e);
          }
#ifdef COLOQUINTE_VERIF_DETAILED_OPLOG
          coloquinte::verif::onDetailedOp = nullptr;
#endif
          os << "C dprun_run_" << res << "\n";
          observe("after run()", false);
          // both complete models of the placer
          os << "O dpdump\n";
          for (int d = 0; d < 2; ++d) {
            const IncrNetModel &m = d == 0 ? pl->xtopo_ : pl->ytopo_;
            os << "I dump " << (d == 0 ? "dx" : "dy") << " P";
            for (int i = 0; i < m.nbCells(); ++i) os << " " << m.cellPos(i);
            os << " N";
            for (int k = 0; k < m.nbNets(); ++k) {
              os << " " << m.nbNetPins(k);
              for (int j = 0; j < m.nbNetPins(k); ++j) os << " " << m.pinCell(k, j) << " " << m.netPinOffset(k, j);
            }
            os << " C";
            for (int i = 0; i < m.nbCells(); ++i) {
              os << " " << m.nbCellPins(i);
              for (int j = 0; j < m.nbCellPins(i); ++j) os << " " << m.pinNet(i, j) << " " << m.cellPinOffset(i, j);
            }
            os << "\n";
          }
          os << "C dprun_observations " << observations << "\n";
          if (valueChanges > 0) os << "C dprun_cases_value_changed\nV\n";
          if (lastValue > 0) os << "W\n";
        },
        txt, 120, &diag);
    if (st != "ok") {  // abort / sanitizer / timeout of the real code: C07's subject
      out.count("dprun_child_" + st);
      return;
    }
    out.count("dprun_completed");
    std::istringstream is(txt);
    std::string l;
    while (std::getline(is, l)) {
      if (l.size() < 1) continue;
      char t = l[0];
      std::string rest = l.size() > 2 ? l.substr(2) : "";
      if (t == 'O') out.ops << rest << "\n";
      else if (t == 'I') out.impl << rest << "\n";
      else if (t == 'E') out.evaluations++;
      else if (t == 'F') fail(rest);
      else if (t == 'V') updChanged = true;
      else if (t == 'W') sawSpan = true;
      else if (t == 'C') {
        std::istringstream cs(rest);
        std::string key;
        long long k = 1;
        cs >> key;
        if (!(cs >> k)) k = 1;
        out.count(key, k);
      }
    }
  }

  // executes one protocol line; returns false (nothing written) when the line is not executable
  bool exec(const std::string &op) {
    std::istringstream is(op);
    std::string kw;
    if (!(is >> kw)) return false;
    if (closed) return false;
    Circuit &c = *circ;
    if (kw == "dprun") {
      unsigned long long pseed;
      if (!(is >> pseed)) return false;
      record(op);
      dprun(pseed);
      closed = true;
      return true;
    }
    if (kw == "orient") {
      int cell, o;
      if (!(is >> cell >> o) || cell < 0 || cell >= c.nbCells() || o < 0 || o > 7) return false;
      record(op);
      c.cellOrientation_[cell] = (CellOrientation)o;
      ++epoch;
      return true;
    }
    if (kw == "move") {
      int cell;
      long long x, y;
      if (!(is >> cell >> x >> y) || cell < 0 || cell >= c.nbCells() || std::llabs(x) > 2000000000 || std::llabs(y) > 2000000000) return false;
      record(op);
      c.cellX_[cell] = x;
      c.cellY_[cell] = y;
      return true;
    }
    if (kw == "hpwl") {
      record(op);
      long long lib = c.hpwl();
      out.impl << "hpwl " << lib << "\n";
      auto o = oracleHpwl(c);
      out.evaluations++;
      if (o.first + o.second > 0) sawSpan = true;
      if (lib != o.first + o.second)
        fail("Circuit::hpwl() = " + std::to_string(lib) + " but the bounding boxes of the geometric pin locations sum to " + std::to_string(o.first + o.second));
      const Slot *sx = nullptr, *sy = nullptr;
      for (auto &kv : slots) {
        const Slot &s = kv.second;
        if (!synced(s)) continue;
        out.evaluations++;
        long long want = s.isX ? o.first : o.second;
        if (s.m->value() != want)
          fail("model " + kv.first + " is in sync with the circuit but value() = " + std::to_string(s.m->value()) + " != " + (s.isX ? "x" : "y") + "-HPWL " + std::to_string(want));
        if (s.isX && !sx) sx = &s;
        if (!s.isX && !sy) sy = &s;
      }
      if (sx && sy && sx->m->value() + sy->m->value() != lib) fail("x model value + y model value != Circuit::hpwl()");
      return true;
    }
    if (kw == "hpwlc") {
      // Would the int / long long arithmetic of Circuit::hpwl() overflow?  Predicted here in 64 bits from the
      // geometric pin locations; the real function is only called when the prediction says it is safe, and then
      // runs under UBSan (an overflow the prediction missed aborts the case and is reported).
      record(op);
      bool safe = true;
      auto fits = [](long long v) { return v >= INT_MIN && v <= INT_MAX; };
      for (size_t n = 0; n + 1 < c.netLimits_.size() && safe; ++n) {
        int b = c.netLimits_[n], e = c.netLimits_[n + 1];
        if (e <= b) continue;
        long long x0 = LLONG_MAX, x1 = LLONG_MIN, y0 = LLONG_MAX, y1 = LLONG_MIN;
        for (int f = b; f < e; ++f) {
          geo::Pt o = oraclePinOffset(c, f);
          long long x = (long long)c.cellX_[c.pinCells_[f]] + o.x, y = (long long)c.cellY_[c.pinCells_[f]] + o.y;
          if (!fits(o.x) || !fits(o.y) || !fits(x) || !fits(y)) safe = false;
          x0 = std::min(x0, x); x1 = std::max(x1, x); y0 = std::min(y0, y); y1 = std::max(y1, y);
        }
        if (!fits(x1 - x0) || !fits(y1 - y0)) safe = false;
      }
      out.evaluations++;
      if (!safe) { out.impl << "hpwlc fault\n"; out.count("hpwlc_predicted_fault"); return true; }
      long long lib = c.hpwl();
      out.impl << "hpwlc ok " << lib << "\n";
      out.count("hpwlc_ok");
      auto o = oracleHpwl(c);
      if (o.first + o.second >= (1LL << 31)) out.count("hpwlc_ok_total_above_2^31");
      for (size_t n = 0; n + 1 < c.netLimits_.size(); ++n) {
        int b = c.netLimits_[n], e = c.netLimits_[n + 1];
        if (e <= b) continue;
        long long x0 = LLONG_MAX, x1 = LLONG_MIN, y0 = LLONG_MAX, y1 = LLONG_MIN;
        for (int f = b; f < e; ++f) {
          geo::Pt q = oraclePinOffset(c, f);
          long long x = (long long)c.cellX_[c.pinCells_[f]] + q.x, y = (long long)c.cellY_[c.pinCells_[f]] + q.y;
          x0 = std::min(x0, x); x1 = std::max(x1, x); y0 = std::min(y0, y); y1 = std::max(y1, y);
        }
        if ((x1 - x0) + (y1 - y0) >= (1LL << 31)) { out.count("hpwlc_ok_net_half_perimeter_above_2^31"); sawSpan = true; updChanged = true; break; }
      }
      if (o.first + o.second > 0) sawSpan = true;
      if (lib != o.first + o.second)
        fail("Circuit::hpwl() = " + std::to_string(lib) + " but the bounding boxes of the geometric pin locations sum to " + std::to_string(o.first + o.second) + " (large coordinates, no int operation of the documented expression overflows)");
      return true;
    }
    if (kw == "offs" || kw == "goffs") {
      record(op);
      out.impl << "offs";
      bool bad = false;
      for (int n = 0; n < c.nbNets(); ++n)
        for (int p = 0; p < c.nbPinsNet(n); ++p) {
          int xo = c.pinXOffset(n, p), yo = c.pinYOffset(n, p);
          out.impl << " " << xo << " " << yo;
          geo::Pt g = oraclePinOffset(c, c.netLimits_[n] + p);
          if ((g.x != xo || g.y != yo) && !bad) {
            bad = true;
            int cell = c.pinCell(n, p);
            std::ostringstream os;
            os << "pin " << p << " of net " << n << " (cell " << cell << " orientation " << (int)c.cellOrientation_[cell] << " size " << c.cellWidth_[cell]
               << "x" << c.cellHeight_[cell] << " pin (" << c.pinXOffsets_[c.netLimits_[n] + p] << "," << c.pinYOffsets_[c.netLimits_[n] + p]
               << ")): library offset (" << xo << "," << yo << ") != geometric (" << g.x << "," << g.y << ")";
            fail(os.str());
          }
        }
      out.impl << "\n";
      out.evaluations++;
      return true;
    }
    if (kw == "placed") {
      record(op);
      out.impl << "placed";
      bool bad = false;
      for (int i = 0; i < c.nbCells(); ++i) {
        int w = c.placedWidth(i), h = c.placedHeight(i);
        out.impl << " " << w << " " << h;
        geo::Image im = geo::image((int)c.cellOrientation_[i], c.cellWidth_[i], c.cellHeight_[i]);
        if ((im.w != w || im.h != h) && !bad) {
          bad = true;
          std::ostringstream os;
          os << "cell " << i << " orientation " << (int)c.cellOrientation_[i] << " size " << c.cellWidth_[i] << "x" << c.cellHeight_[i]
             << ": placed size " << w << "x" << h << " != extent of the image " << im.w << "x" << im.h;
          fail(os.str());
        }
      }
      out.impl << "\n";
      out.evaluations++;
      return true;
    }
    if (kw == "build") {
      std::string k, dir, mode;
      if (!(is >> k >> dir >> mode) || (dir != "x" && dir != "y") || (mode != "all" && mode != "sub")) return false;
      std::vector<int> cells;
      int v;
      while (is >> v) cells.push_back(v);
      std::vector<char> in(c.nbCells(), 0);
      if (mode == "all") { if (!cells.empty()) return false; }
      for (int q : cells) {
        if (q < 0 || q >= c.nbCells() || in[q]) return false;  // C++ asserts distinct, in range
        in[q] = 1;
      }
      record(op);
      Slot s;
      s.isX = dir == "x";
      if (mode == "all") {
        s.m.reset(new IncrNetModel(s.isX ? IncrNetModel::xTopology(c) : IncrNetModel::yTopology(c)));
        for (int q = 0; q < c.nbCells(); ++q) { cells.push_back(q); in[q] = 1; }
      } else {
        s.m.reset(new IncrNetModel(s.isX ? IncrNetModel::xTopology(c, cells) : IncrNetModel::yTopology(c, cells)));
      }
      s.cells = cells;
      s.inSub = in;
      s.epoch = epoch;
      std::vector<int> idx(c.nbCells(), -1);
      for (size_t q = 0; q < cells.size(); ++q) { idx[cells[q]] = q; s.pos.push_back(coord(s.isX, cells[q])); }
      for (int q = 0; q < c.nbCells(); ++q) s.snap.push_back(coord(s.isX, q));
      for (size_t n = 0; n + 1 < c.netLimits_.size(); ++n) {
        std::vector<std::pair<int, long long>> net;
        for (int f = c.netLimits_[n]; f < c.netLimits_[n + 1]; ++f) {
          geo::Pt o = oraclePinOffset(c, f);
          long long off = s.isX ? o.x : o.y;
          int cell = c.pinCells_[f];
          if (idx[cell] >= 0) net.push_back({idx[cell], off});
          else net.push_back({-1, coord(s.isX, cell) + off});
        }
        if (!net.empty()) s.nets.push_back(net);
      }
      out.impl << "build " << k << " " << s.m->value() << " " << s.m->nbCells() << " " << s.m->nbNets() << " " << s.m->nbPins() << "\n";
      out.evaluations++;
      long long want = slotOracle(s);
      auto o = oracleHpwl(c);
      if (want != (s.isX ? o.first : o.second)) fail("harness self-check: model oracle and circuit oracle disagree at build");
      if (s.m->value() != want)
        fail("after build " + k + ": value() = " + std::to_string(s.m->value()) + " != from-scratch " + dir + "-HPWL " + std::to_string(want));
      if (s.m->nbCells() != (int)cells.size() + 1) fail("model does not have |cells|+1 cells");
      slots[k] = std::move(s);
      return true;
    }
    if (kw == "upd") {
      std::string k;
      long long cell, pos;
      if (!(is >> k >> cell >> pos) || !slots.count(k) || std::llabs(pos) > 100000000) return false;
      Slot &s = slots[k];
      if (cell < 0 || cell >= s.m->nbCells() - 1) return false;
      record(op);
      long long before = s.m->value();
      s.m->updateCellPos(cell, pos);
      s.pos[cell] = pos;
      long long v = s.m->value();
      out.impl << "upd " << k << " " << v << "\n";
      out.evaluations++;
      lastUpdDelta = v - before;
      if (v != before) updChanged = true;
      long long want = slotOracle(s);
      if (v != want)
        fail("after upd " + k + " " + std::to_string(cell) + " " + std::to_string(pos) + ": value() = " + std::to_string(v) + " != from-scratch HPWL " + std::to_string(want));
      if (s.m->cellPos(cell) != pos) fail("cellPos not updated");
      return true;
    }
    if (kw == "check") {
      std::string k;
      if (!(is >> k) || !slots.count(k)) return false;
      record(op);
      bool ok = true;
      std::string why;
      try { slots[k].m->check(); } catch (const std::exception &e) { ok = false; why = e.what(); }
      out.impl << "check " << k << " " << (ok ? "ok" : "fail") << "\n";
      out.evaluations++;
      if (!ok) fail("IncrNetModel::check() of " + k + " threw: " + why);
      return true;
    }
    if (kw == "dump") {
      std::string k;
      if (!(is >> k) || !slots.count(k)) return false;
      record(op);
      const IncrNetModel &m = *slots[k].m;
      out.impl << "dump " << k << " P";
      for (int i = 0; i < m.nbCells(); ++i) out.impl << " " << m.cellPos(i);
      out.impl << " N";
      for (int n = 0; n < m.nbNets(); ++n) {
        out.impl << " " << m.nbNetPins(n);
        for (int j = 0; j < m.nbNetPins(n); ++j) out.impl << " " << m.pinCell(n, j) << " " << m.netPinOffset(n, j);
      }
      out.impl << " C";
      for (int i = 0; i < m.nbCells(); ++i) {
        out.impl << " " << m.nbCellPins(i);
        for (int j = 0; j < m.nbCellPins(i); ++j) out.impl << " " << m.pinNet(i, j) << " " << m.cellPinOffset(i, j);
      }
      out.impl << "\n";
      return true;
    }
    return false;
  }
};

template <class... T>
static std::string S(const T &...t) {
  std::ostringstream os;
  bool first = true;
  ((os << (first ? "" : " ") << t, first = false), ...);
  return os.str();
}

// ------------------------------------------------------------------ generators
static const long long FAR = 1000000;

// extra nets covering the quantifier: pins anywhere, repeated cells, same pin twice, fixed-only,
// single-pin, coincident pins, large nets
static void addExtraNets(vh::Rng &g, Circuit &c, int count, vh::Out &out) {
  int n = c.nbCells();
  if (n == 0) return;
  std::vector<int> fixed;
  for (int i = 0; i < n; ++i) if (c.cellIsFixed_[i]) fixed.push_back(i);
  for (int k = 0; k < count; ++k) {
    std::vector<int> pc, px, py;
    auto pin = [&](int cell, int style) {
      int w = c.cellWidth_[cell], h = c.cellHeight_[cell];
      int x, y;
      if (style == 0) { x = g.range(0, w); y = g.range(0, h); }                       // inside (border included)
      else if (style == 1) { x = g.range(-30, w + 30); y = g.range(-30, h + 30); }     // around
      else if (style == 2) { x = g.range(-10000, 10000); y = g.range(-10000, 10000); } // far outside
      else { x = g.chance(1, 2) ? -g.range(1, 9) : w + g.range(1, 9); y = g.chance(1, 2) ? -g.range(1, 9) : h + g.range(1, 9); }  // strictly outside
      pc.push_back(cell); px.push_back(x); py.push_back(y);
    };
    int kind = g.range(0, 9);
    int style = g.range(0, 3);
    if (kind <= 1) { int d = g.range(2, 6); for (int i = 0; i < d; ++i) pin(g.range(0, n - 1), g.chance(1, 2) ? style : 0); }
    else if (kind == 2) { int d = g.range(2, 6); for (int i = 0; i < d; ++i) pin(g.range(0, n - 1), style == 0 ? 1 : style); }
    else if (kind == 3) {  // repeated cell
      int cell = g.range(0, n - 1), r = g.range(2, 4);
      for (int i = 0; i < r; ++i) pin(cell, style);
      int more = g.range(0, 3);
      for (int i = 0; i < more; ++i) pin(g.range(0, n - 1), style);
    } else if (kind == 4) {  // the same pin twice
      int d = g.range(1, 3);
      for (int i = 0; i < d; ++i) pin(g.range(0, n - 1), style);
      int j = g.range(0, d - 1);
      pc.push_back(pc[j]); px.push_back(px[j]); py.push_back(py[j]);
      if (g.chance(1, 2)) pin(g.range(0, n - 1), style);
    } else if (kind == 5) {  // fixed cells only
      if (fixed.empty()) { pin(g.range(0, n - 1), style); pin(g.range(0, n - 1), style); }
      else { int d = g.range(1, 4); for (int i = 0; i < d; ++i) pin(g.pick(fixed), style); }
    } else if (kind == 6) { pin(g.range(0, n - 1), style); }  // single pin
    else if (kind == 7) {  // all pins of one cell at the same offset / two cells
      int cell = g.range(0, n - 1);
      pin(cell, style);
      int r = g.range(1, 3);
      for (int i = 0; i < r; ++i) { pc.push_back(cell); px.push_back(px[0]); py.push_back(py[0]); }
    } else if (kind == 8) { int d = g.range(8, 16); for (int i = 0; i < d; ++i) pin(g.range(0, n - 1), g.range(0, 3)); }
    else {  // every cell once, shuffled
      std::vector<int> all(n);
      for (int i = 0; i < n; ++i) all[i] = i;
      for (size_t i = all.size(); i > 1; --i) std::swap(all[i - 1], all[g.range(0, i - 1)]);
      int d = g.range(1, n);
      for (int i = 0; i < d; ++i) pin(all[i], style);
    }
    int before = c.nbNets();
    c.addNet(pc, px, py);
    if (c.nbNets() != before + 1) out.count("addNet_nonempty_not_added");
  }
}

// Circuit::addNet silently drops a net without pins; empty nets exist only through setNets.
static void insertEmptyNets(vh::Rng &g, Circuit &c, int count) {
  std::vector<int> limits = c.netLimits_, pc = c.pinCells_, px = c.pinXOffsets_, py = c.pinYOffsets_;
  std::vector<float> w = c.netWeights_;
  for (int k = 0; k < count; ++k) {
    int at = g.range(0, (int)limits.size() - 1);  // new empty net becomes net number `at`
    limits.insert(limits.begin() + at, limits[at]);
    w.insert(w.begin() + at, 1.0f);
  }
  c.setNets(limits, pc, px, py, w);
}

static Circuit ownCircuit(vh::Rng &g, vh::Out &out) {
  int n = g.chance(1, 40) ? 0 : (g.chance(1, 6) ? g.range(1, 2) : g.range(2, 12));
  Circuit c(n);
  std::vector<int> w(n), h(n), x(n), y(n);
  std::vector<bool> fx(n), ob(n);
  std::vector<CellOrientation> orr(n);
  int cx = g.range(-100, 100), cy = g.range(-100, 100);
  for (int i = 0; i < n; ++i) {
    int m = g.range(0, 11);
    if (m == 0) { w[i] = 0; h[i] = 0; }
    else if (m == 1) { w[i] = 0; h[i] = g.range(1, 9); }
    else if (m == 2) { w[i] = g.range(1, 9); h[i] = 0; }
    else if (m == 3) { w[i] = g.range(100, 5000); h[i] = g.range(100, 5000); }
    else if (m == 4) { w[i] = h[i] = g.range(1, 9); }
    else { w[i] = g.range(1, 12); h[i] = g.range(1, 12); }
    int p = g.range(0, 7);
    if (p == 0) { x[i] = g.range(-FAR, FAR); y[i] = g.range(-FAR, FAR); }
    else if (p == 1) { x[i] = g.chance(1, 2) ? FAR : -FAR; y[i] = g.chance(1, 2) ? FAR : -FAR; }
    else { x[i] = cx + g.range(-40, 40); y[i] = cy + g.range(-40, 40); }
    fx[i] = g.chance(1, 4);
    ob[i] = g.chance(1, 2);
    orr[i] = (CellOrientation)g.range(0, 7);
  }
  c.setCellWidth(w); c.setCellHeight(h); c.setCellX(x); c.setCellY(y);
  c.setCellIsFixed(fx); c.setCellIsObstruction(ob); c.setCellOrientation(orr);
  (void)out;
  return c;
}

static Circuit genCase(vh::Rng &g, vh::Out &out, std::string &tag) {
  Circuit c(0);
  if (g.chance(2, 5)) {
    vc::GenOpts o;
    o.maxCells = g.range(2, 14);
    o.maxRows = g.range(1, 6);
    o.nets = true;
    o.multiRow = g.chance(3, 4);
    o.turned = g.chance(3, 4);
    o.polarities = g.chance(1, 2);
    o.fixedCells = g.chance(3, 4);
    static const std::vector<long long> sc = {1, 1, 1, 10, 1000};
    o.scale = g.pick(sc);
    c = vc::genCircuit(g, o);
    tag = "genCircuit";
    addExtraNets(g, c, g.range(0, 8), out);
  } else {
    c = ownCircuit(g, out);
    tag = "own";
    addExtraNets(g, c, g.range(0, 2 * std::max(1, c.nbCells())), out);
  }
  // an empty pin list handed to addNet is dropped
  {
    int before = c.nbNets();
    c.addNet({}, {}, {});
    if (c.nbNets() != before) out.count("addNet_empty_accepted"); else out.count("addNet_empty_dropped");
  }
  if (g.chance(1, 3)) insertEmptyNets(g, c, g.range(1, 3));
  out.count("gen_" + tag);
  return c;
}

static void measureCircuit(const Circuit &c, vh::Out &out) {
  out.count("cells_total", c.nbCells());
  for (int i = 0; i < c.nbCells(); ++i) {
    if (c.cellWidth_[i] == 0 || c.cellHeight_[i] == 0) out.count("cells_zero_size");
    if (std::abs(c.cellX_[i]) >= FAR / 2 || std::abs(c.cellY_[i]) >= FAR / 2) out.count("cells_far");
    if (c.cellIsFixed_[i]) out.count("cells_fixed");
  }
  out.count("nets_total", c.nbNets());
  for (int n = 0; n < c.nbNets(); ++n) {
    int b = c.netLimits_[n], e = c.netLimits_[n + 1];
    out.count("pins_total", e - b);
    if (e == b) { out.count("nets_empty"); continue; }
    if (e == b + 1) out.count("nets_single_pin");
    bool rep = false, twice = false, allFixed = true;
    for (int f = b; f < e; ++f) {
      int cell = c.pinCells_[f];
      if (!c.cellIsFixed_[cell]) allFixed = false;
      if (c.pinXOffsets_[f] < 0 || c.pinXOffsets_[f] > c.cellWidth_[cell] || c.pinYOffsets_[f] < 0 || c.pinYOffsets_[f] > c.cellHeight_[cell])
        out.count("pins_outside_outline");
      for (int f2 = b; f2 < f; ++f2)
        if (c.pinCells_[f2] == cell) {
          rep = true;
          if (c.pinXOffsets_[f2] == c.pinXOffsets_[f] && c.pinYOffsets_[f2] == c.pinYOffsets_[f]) twice = true;
        }
    }
    if (rep) out.count("nets_repeated_cell");
    if (twice) out.count("nets_same_pin_twice");
    if (allFixed) out.count("nets_fixed_only");
  }
}

struct Tier {
  int sweepCells = 2;
  int dumpOneIn = 4;
  int dumpMaxPins = 80;
};

// the random op sequence on the session's circuit
static void randomOps(Session &s, vh::Rng &g, vh::Out &out, const Tier &t) {
  Circuit &c = *s.circ;
  int n = c.nbCells();
  s.exec("hpwl"); s.exec("offs"); s.exec("goffs"); s.exec("placed");
  // ---- orientation sweep on a few cells (cells with pins preferred)
  std::vector<int> pinned;
  {
    std::vector<char> has(n, 0);
    for (int cell : c.pinCells_) has[cell] = 1;
    for (int i = 0; i < n; ++i) if (has[i]) pinned.push_back(i);
  }
  for (int k = 0; k < t.sweepCells && n > 0; ++k) {
    int cell = (!pinned.empty() && !g.chance(1, 8)) ? g.pick(pinned) : (int)g.range(0, n - 1);
    int start = g.range(0, 7);
    for (int d = 0; d < 8; ++d) {
      s.exec(S("orient", cell, (start + d) % 8));
      s.exec("offs"); s.exec("goffs"); s.exec("placed"); s.exec("hpwl");
      out.count("sweep_steps");
    }
  }
  // ---- all cells in the same orientation
  for (int o = 0; o < 8 && n > 0; ++o) {
    for (int i = 0; i < n; ++i) s.exec(S("orient", i, o));
    s.exec("hpwl");
    if (o == 0 || g.chance(1, 4)) { s.exec("offs"); s.exec("placed"); }
    out.count("uniform_orientation_steps");
  }
  // ---- random orientations before the models are built
  for (int i = 0; i < n; ++i) s.exec(S("orient", i, g.range(0, 7)));
  for (int i : pinned) out.count(S("orient_of_pinned_cell_at_build", (int)c.cellOrientation_[i]));
  s.exec("hpwl");
  // ---- subset
  std::vector<int> sub;
  std::string kind;
  {
    std::vector<int> all(n);
    for (int i = 0; i < n; ++i) all[i] = i;
    for (size_t i = all.size(); i > 1; --i) std::swap(all[i - 1], all[g.range(0, i - 1)]);
    int m = g.range(0, 5);
    size_t sz;
    if (m == 0) { sz = 0; kind = "empty"; }
    else if (m == 1) { sz = std::min(1, n); kind = "single"; }
    else if (m == 2) { sz = (n + 1) / 2; kind = "half"; }
    else if (m == 3) { sz = std::max(0, n - 1); kind = "all_but_one"; }
    else if (m == 4) { sz = n; kind = "all_shuffled"; }
    else { sz = g.range(0, n); kind = "random_size"; }
    sub.assign(all.begin(), all.begin() + sz);
    if (n == 0) kind = "empty_circuit";
  }
  out.count("subset_" + kind);
  std::string subTxt;
  for (int q : sub) subTxt += " " + std::to_string(q);
  s.exec("build fx x all"); s.exec("build fy y all");
  s.exec("build sx x sub" + subTxt); s.exec("build sy y sub" + subTxt);
  s.exec("hpwl");
  bool dumps = g.chance(1, t.dumpOneIn) && s.nbPins() <= t.dumpMaxPins;
  if (dumps) { s.exec("dump fx"); s.exec("dump fy"); s.exec("dump sx"); s.exec("dump sy"); out.count("dumped_cases"); }
  s.exec("check fx"); s.exec("check fy"); s.exec("check sx"); s.exec("check sy");
  // ---- updates
  std::vector<int> idx(n, -1), outside;
  for (size_t k = 0; k < sub.size(); ++k) idx[sub[k]] = k;
  for (int i = 0; i < n; ++i) if (idx[i] < 0) outside.push_back(i);
  int len = n == 0 ? 0 : (g.chance(1, 10) ? 0 : g.range(1, 30));
  out.count(len == 0 ? "update_sequences_empty" : "update_sequences_nonempty");
  int last = -1;
  for (int u = 0; u < len; ++u) {
    int cell;
    if (last >= 0 && g.chance(1, 3)) { cell = last; out.count("updates_same_cell_again"); }
    else cell = sub.empty() ? (int)g.range(0, n - 1) : g.pick(sub);
    last = cell;
    long long x = c.cellX_[cell], y = c.cellY_[cell];
    int mode = g.range(0, 9);
    if (mode <= 3) { x += g.range(-20, 20); y += g.range(-20, 20); out.count("updates_near"); }
    else if (mode == 4) { x = g.range(-FAR, FAR); y = g.range(-FAR, FAR); out.count("updates_far"); }
    else if (mode == 5) { out.count("updates_same_position"); }
    else if (mode == 6) { x += g.range(-200, 200); out.count("updates_x_only"); }
    else if (mode == 7) { y += g.range(-200, 200); out.count("updates_y_only"); }
    else if (mode == 8) { int other = g.range(0, n - 1); x = c.cellX_[other]; y = c.cellY_[other]; out.count("updates_onto_other_cell"); }
    else { x = g.chance(1, 2) ? FAR : -FAR; y = g.chance(1, 2) ? FAR : -FAR; out.count("updates_extreme"); }
    s.exec(S("move", cell, x, y));
    bool changed = false;
    s.exec(S("upd fx", cell, x)); changed |= s.lastUpdDelta != 0;
    s.exec(S("upd fy", cell, y)); changed |= s.lastUpdDelta != 0;
    if (!sub.empty()) {
      s.exec(S("upd sx", idx[cell], x)); changed |= s.lastUpdDelta != 0;
      s.exec(S("upd sy", idx[cell], y)); changed |= s.lastUpdDelta != 0;
    }
    s.exec("hpwl");
    out.count("updates");
    if (changed) out.count("updates_value_changed");
    if (u % 4 == 3 || u + 1 == len) { s.exec("check fx"); s.exec("check fy"); s.exec("check sx"); s.exec("check sy"); out.count("check_rounds"); }
    if (!outside.empty() && !sub.empty() && g.chance(1, 10)) {  // move an outside cell, rebuild the subset models
      int d = g.pick(outside);
      long long dx = g.chance(1, 4) ? g.range(-FAR, FAR) : c.cellX_[d] + g.range(-30, 30);
      long long dy = g.chance(1, 4) ? g.range(-FAR, FAR) : c.cellY_[d] + g.range(-30, 30);
      s.exec(S("move", d, dx, dy));
      s.exec(S("upd fx", d, dx)); s.exec(S("upd fy", d, dy));
      s.exec("build sx x sub" + subTxt); s.exec("build sy y sub" + subTxt);
      s.exec("hpwl");
      if (dumps && g.chance(1, 2)) { s.exec("dump sx"); s.exec("dump sy"); }
      out.count("rebuilt_subset");
    }
  }
  s.exec("hpwl");
}

static void finishCase(Session &s, vh::Out &out) {
  if (s.sawSpan && s.updChanged) out.nontrivial(vh::hashStr(s.input()));
  if (s.sawSpan) out.count("cases_with_spanning_net");
  if (s.updChanged) out.count("cases_with_value_changing_update");
  if (out.samples.size() < 6 && s.id[0] == 'r') {
    std::string txt = s.circuitText.substr(0, 500);
    std::replace(txt.begin(), txt.end(), '\n', ';');
    out.sample(S("cells", s.circ->nbCells(), "nets", s.circ->nbNets(), "pins", s.nbPins(), "ops", s.history.size()) + " : " + txt + (s.circuitText.size() > 500 ? "..." : ""));
  }
}

// every orientation x a grid of pin offsets (inside, on the border, outside, negative) for a few outlines
static void gridCase(Session &s, vh::Out &out, const std::string &id, int w, int h) {
  Circuit c(2);
  c.setCellWidth({w, 1}); c.setCellHeight({h, 1}); c.setCellX({7, -3}); c.setCellY({-5, 11});
  std::vector<int> xs = {-4, -1, 0, 1, w / 2, w, w + 1, w + 6}, ys = {-3, 0, 1, h / 2, h, h + 2};
  for (int x : xs) for (int y : ys) c.addNet({0, 1}, {x, 0}, {y, 0});
  s.begin(id, c);
  measureCircuit(c, out);
  for (int o = 0; o < 8; ++o) {
    s.exec(S("orient 0", o));
    s.exec("offs"); s.exec("goffs"); s.exec("placed"); s.exec("hpwl");
    s.exec("build fx x all"); s.exec("build fy y all"); s.exec("build sx x sub 0"); s.exec("build sy y sub 1");
    s.exec("move 0 20 30"); s.exec("upd fx 0 20"); s.exec("upd fy 0 30"); s.exec("upd sx 0 20");
    s.exec("hpwl");
    s.exec("check fx"); s.exec("check fy"); s.exec("check sx"); s.exec("check sy");
    s.exec("move 0 7 -5");
    out.count("grid_orientation_steps");
  }
  finishCase(s, out);
}

// cells spread over the whole int range that Circuit::hpwl() can handle (pins within +-10^9, so that every net
// extent fits an int while extent sums do not), and beyond it (where the checked model must predict the overflow)
static void hugeCase(Session &s, vh::Rng &g, vh::Out &out, const std::string &id) {
  int n = g.range(2, 6);
  Circuit c(n);
  std::vector<int> w(n), h(n), x(n), y(n);
  std::vector<CellOrientation> orr(n);
  bool beyond = g.chance(1, 5);  // some coordinates outside the safe box
  long long R = beyond ? 2000000000LL : 800000000LL;
  long long SZ = g.chance(1, 3) ? 100000000LL : 5000;
  for (int i = 0; i < n; ++i) {
    w[i] = g.range(0, SZ); h[i] = g.range(0, SZ);
    int m = g.range(0, 3);
    if (m == 0) { x[i] = g.range(-R, R); y[i] = g.range(-R, R); }
    else if (m == 1) { x[i] = g.chance(1, 2) ? R : -R; y[i] = g.chance(1, 2) ? R : -R; }   // corners: diagonal nets
    else if (m == 2) { x[i] = g.range(-R, R); y[i] = g.chance(1, 2) ? R : -R; }
    else { x[i] = g.range(-1000, 1000); y[i] = g.range(-1000, 1000); }
    orr[i] = (CellOrientation)g.range(0, 7);
  }
  c.setCellWidth(w); c.setCellHeight(h); c.setCellX(x); c.setCellY(y); c.setCellOrientation(orr);
  int nets = g.range(1, 5);
  for (int k = 0; k < nets; ++k) {
    int d = g.range(1, 4);
    std::vector<int> pc, px, py;
    for (int j = 0; j < d; ++j) {
      int cell = g.range(0, n - 1);
      long long O = g.chance(1, 4) ? SZ : 50;
      pc.push_back(cell); px.push_back(g.range(-O, O)); py.push_back(g.range(-O, O));
    }
    c.addNet(pc, px, py);
  }
  s.begin(id, c);
  measureCircuit(c, out);
  s.exec("hpwlc");
  int moves = g.range(0, 6);
  for (int u = 0; u < moves; ++u) {
    int cell = g.range(0, n - 1);
    long long nx = g.chance(1, 2) ? (g.chance(1, 2) ? R : -R) : g.range(-R, R);
    long long ny = g.chance(1, 2) ? (g.chance(1, 2) ? R : -R) : g.range(-R, R);
    s.exec(S("move", cell, nx, ny));
    if (g.chance(1, 3)) s.exec(S("orient", cell, g.range(0, 7)));
    s.exec("hpwlc");
  }
  out.count(beyond ? "huge_cases_beyond_box" : "huge_cases_in_box");
  finishCase(s, out);
}

int main(int argc, char **argv) {
  vh::Args a = vh::parseArgs(argc, argv);
  vh::Out out(a.out);
  vh::installCrashHandler(&out);
  out.rule = "case = circuit (vc::genCircuit with extra nets, or own generator: pins inside/on/outside the outline and 10^4 away, "
             "repeated cells, same pin twice, fixed-only, empty (setNets), single-pin nets, zero-size cells, cells at +-10^6) + op sequence "
             "(orientation sweep over all 8 orientations, uniform orientations, full and subset x/y models, <=30 position updates "
             "with checks, subset rebuilds); one evaluation = one compared state (hpwl / offs / placed / build / upd / check line and "
             "each in-sync model at an hpwl line); non-trivial = some net spans >= 2 distinct pin positions and at least one update "
             "changed a model's value(); distinct by hash of circuit text + op history.  Cases d<k>: vc::genCircuit circuit + extra nets, legalized, "
             "then the real DetailedPlacer constructed and run (random detailed parameters); value() observed at construction, at up to 60 "
             "primitive moves (hook H3), at every callback and at the end; non-trivial = value() changed during the run.  Cases h<k>: 2-6 cells "
             "spread over +-8*10^8 (one in five: +-2*10^9, beyond what int arithmetic can hold), sizes/offsets up to 10^8, all orientations, "
             "moves to the corners; op hpwlc: whether Circuit::hpwl() can be evaluated without int overflow is predicted in 64 bits and by the "
             "checked Lean twin (must agree), and where it can the real function runs under UBSan and must equal the geometric value; "
             "non-trivial = some net has width + height >= 2^31 with each side below 2^31";
  out.notes.push_back("Circuit::addNet silently drops a net with 0 pins (measured: addNet_empty_dropped); empty nets are created through Circuit::setNets");
  Session s(out);
  Tier t;

  if (!a.replay.empty()) {
    std::string text;
    {
      std::ifstream f(a.replay);
      std::stringstream ss;
      ss << f.rdbuf();
      text = ss.str();
    }
    std::string in = jsonField(text, "input");
    if (in.empty()) in = text;
    std::vector<std::string> lines;
    {
      std::istringstream is(in);
      std::string l;
      while (std::getline(is, l)) lines.push_back(l);
    }
    size_t i = 0;
    while (i < lines.size() && lines[i].rfind("circuit", 0) != 0) ++i;
    std::unique_ptr<Circuit> c;
    if (i >= lines.size() || !parseCircuitBlock(lines, i, c)) {
      out.notes.push_back("replay: no circuit block in " + a.replay);
      out.count("replay_unparsed");
      out.finish();
      return 0;
    }
    s.begin("replay", *c);
    measureCircuit(*c, out);
    int executed = 0, skipped = 0;
    for (; i < lines.size(); ++i) {
      if (lines[i].find_first_not_of(" \t\r") == std::string::npos) continue;
      if (s.exec(lines[i])) ++executed; else ++skipped;
    }
    if (executed == 0) {
      vh::Rng g = vh::Rng::forCase(a.seed, 0);
      randomOps(s, g, out, t);
      out.notes.push_back("replay: circuit only, fresh random op sequence");
    }
    out.count("replay_ops_executed", executed);
    out.count("replay_ops_skipped", skipped);
    finishCase(s, out);
    out.finish();
    return 0;
  }

  if (a.search()) {  // oracle only: the streams are not written
    out.ops.setstate(std::ios::badbit);
    out.impl.setstate(std::ios::badbit);
  }
  long long cases = a.thorough() ? 6000 : (a.search() ? 6000 : 600);
  if (a.only < 0) {
    gridCase(s, out, "g0", 3, 5);
    gridCase(s, out, "g1", 4, 4);
    gridCase(s, out, "g2", 0, 6);
    gridCase(s, out, "g3", 5, 0);
    gridCase(s, out, "g4", 0, 0);
  }
  for (long long k = 0; k < cases; ++k) {
    if (a.only >= 0 && k != a.only) continue;
    vh::Rng g = vh::Rng::forCase(a.seed, k);
    std::string tag;
    Circuit c = genCase(g, out, tag);
    s.begin("r" + std::to_string(k), c);
    measureCircuit(c, out);
    randomOps(s, g, out, t);
    finishCase(s, out);
    out.count("cases");
  }
  // ---- large coordinates: the int / long long arithmetic of Circuit::hpwl() against the checked model
  long long hcases = a.thorough() ? 4000 : (a.search() ? 4000 : 400);
  for (long long k = 0; k < hcases; ++k) {
    if (a.only >= 0) break;
    vh::Rng g = vh::Rng::forCase(a.seed, 7000000 + k);
    hugeCase(s, g, out, "h" + std::to_string(k));
  }
  // ---- the real optimiser object (header, (e))
  long long dcases = a.thorough() ? 3000 : (a.search() ? 1500 : 300);
  for (long long k = 0; k < dcases; ++k) {
    if (a.only >= 0 && k != a.only) continue;
    vh::Rng g = vh::Rng::forCase(a.seed, 5000000 + k);
    vc::GenOpts o;
    o.maxCells = g.range(3, 16);
    o.maxRows = g.range(1, 6);
    o.nets = true;
    o.multiRow = g.chance(1, 2);
    o.turned = g.chance(1, 2);
    o.polarities = g.chance(1, 2);
    o.fixedCells = g.chance(3, 4);
    o.maxUtil = 0.9;
    Circuit c = vc::genCircuit(g, o);
    addExtraNets(g, c, g.range(1, 8), out);
    s.begin("d" + std::to_string(k), c);
    measureCircuit(c, out);
    s.exec("hpwl");
    s.exec(S("dprun", (unsigned long long)(a.seed * 1000003ull + k)));
    finishCase(s, out);
    out.count("dp_cases");
  }
  out.finish();
  return 0;
}
