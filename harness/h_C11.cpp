// C11 — legalizing an already legal single-row placement moves nothing.
//
// Legal placements come from two sources:
//   A. the output of Circuit::legalize itself on a random row-high circuit (any input positions);
//   B. direct construction: cells packed with random gaps into the free segments (obstructions,
//      split rows, polarities with the matching orientation), coordinates up to < 2^20.
// Every legal placement L (checked with the independent vc::checkLegal, orientation rule included)
// is fed to Circuit::legalize with parameters from the whole accepted range (orderingWidth in
// [-1,2]) — ops `legalize` then `again` — and compared with the Lean model line for line.
//
// A third stream ("tall") draws |orderingHeight| = 2^10 … 2^40 (both signs; LegalizationParameters::check
// does not bound it), orderingY near the ends of its accepted range and orderingWidth in [0,1], on
// directly constructed legal placements (a quarter of the cases) and on outputs of legalization run with
// those same parameters (an eighth): the binary32 ordering keys then tie or invert (KF-C11-2).
//
// Direct oracle: the call returns and no movable cell changes x or y, neither the first nor the
// second time.  Classifiers, both computed from the input alone:
//   KF-C11-1 (`ordering_width_outside_unit_interval`): the run's orderingWidth is outside [0,1];
//   KF-C11-2 (`rounded_ordering_keys_tie_or_invert`): with the ordering keys computed exactly as
//     LegalizerBase::computeCellOrder does (binary32, same expression order), two movable cells of one
//     free row segment, a entirely left of b, have key(a) > key(b), or key(a) == key(b) and
//     index(a) > index(b) (index = position among the movable cells, what the sort compares).
// A moved cell in a run where neither applies is a VIOLATION.
//
// One case in three feeds the legal placement to an object with a PAST (lg::Past, as h_C01 does): the child starts from
// the same circuit with a fixed obstruction elsewhere / turned / resized, other flags or other rows, lets it compute its
// rows (and, at times, legalize), brings it to the public state of L through the needed setters only (setCellX alone,
// setCellY alone, setSolution, setCellOrientation, setupRows, ...) and only then makes the measured call.  Family: state
// remembered inside the Circuit (a memoised computeRows()) that some setter forgets to drop -- the placement is legal for
// the circuit as it is NOW, so no cell may move whatever the object saw before.  The failure input carries the past.
#include <map>

#include "legalize_common.hpp"

using namespace coloquinte;

static bool samePositions(const Circuit &a, const std::string &sol) {
  std::istringstream is(sol);
  std::string k;
  is >> k;
  for (int i = 0; i < a.nbCells(); ++i) {
    long long x, y; int o;
    if (!(is >> x >> y >> o)) return false;
    if (x != a.cellX()[i] || y != a.cellY()[i]) return false;
  }
  return true;
}

// ---- KF-C11-2 classifier -------------------------------------------------------------------
// The key of LegalizerBase::computeCellOrder(1.0, orderingWidth, orderingY, orderingHeight):
//   float val = weightX * x + weightWidth * w + weightY * y + weightHeight * h;
// with float weights (the double parameters are narrowed at the call) and int data converted to
// float; every product and sum is rounded to binary32 (volatile stores: no excess precision, no
// contraction), left to right.
static float kf2Key(const lg::LParams &lp, int x, int y, int w, int h) {
  volatile float wX = (float)1.0, wW = (float)lp.ow, wY = (float)lp.oy, wH = (float)lp.oh;
  volatile float fx = (float)x, fw = (float)w, fy = (float)y, fh = (float)h;
  volatile float t1 = wX * fx;
  volatile float t2 = wW * fw;
  volatile float s1 = t1 + t2;
  volatile float t3 = wY * fy;
  volatile float s2 = s1 + t3;
  volatile float t4 = wH * fh;
  volatile float s3 = s2 + t4;
  return s3;
}

struct Kf2 {
  bool segment = false;  // the classifier of KF-C11-2: an inverted pair inside one free row segment
  bool row = false;      // the same over all pairs of one row y (superset; the class of the Lean theorem)
  bool tie = false;      // some same-row pair has equal keys
  bool strictInversion = false;  // some same-row pair a left of b has key(a) > key(b)
};

static Kf2 kf2Applies(const Circuit &L, const lg::LParams &lp) {
  struct M { int idx; long long x, y, w, h; float key; int seg; };
  std::vector<M> ms;
  std::vector<vc::Seg> segs;
  std::vector<long long> segY;
  for (const Row &r : L.rows())
    for (auto &sg : vc::freeSegments(L, r)) { segs.push_back(sg); segY.push_back(r.minY); }
  int k = 0;
  for (int i = 0; i < L.nbCells(); ++i) {
    if (L.isFixed(i)) continue;
    Rectangle p = L.placement(i);
    M m;
    m.idx = k++;
    m.x = p.minX; m.y = p.minY; m.w = p.width(); m.h = p.height();
    m.key = kf2Key(lp, p.minX, p.minY, p.width(), p.height());
    m.seg = -1;
    for (size_t sgi = 0; sgi < segs.size(); ++sgi)
      if (segY[sgi] == m.y && segs[sgi].lo <= m.x && m.x + m.w <= segs[sgi].hi) { m.seg = sgi; break; }
    ms.push_back(m);
  }
  Kf2 r;
  for (const M &a : ms)
    for (const M &b : ms) {
      if (a.y != b.y || a.h != b.h || a.w <= 0 || b.w <= 0 || a.x + a.w > b.x) continue;
      // a is entirely left of b in the same row
      if (a.key == b.key) r.tie = true;
      if (a.key > b.key) r.strictInversion = true;
      bool inverted = a.key > b.key || (a.key == b.key && a.idx > b.idx);
      if (!inverted) continue;
      r.row = true;
      if (a.seg >= 0 && a.seg == b.seg) r.segment = true;
    }
  return r;
}

// legalization parameters of the "tall" stream
static lg::LParams genTallParams(vh::Rng &g) {
  lg::LParams l;
  static const std::vector<double> odd = {0.3, 0.77, 0.999, 1e-3, 0.5000001, 1.0 / 3};
  if (g.chance(1, 4)) l.ow = g.pick(odd); else l.ow = g.range(0, 8) / 8.0;  // in [0,1]: KF-C11-1 does not apply
  if (g.chance(1, 12)) l.ow = g.chance(1, 2) ? 2.0 : -0.5;                 // a few with both classes
  int e = g.range(10, 40);
  double mant = 1.0;
  int mk = g.range(0, 3);
  if (mk == 1) mant = 1.0 + g.range(0, 15) / 16.0;
  else if (mk == 2) mant = 1.0 + g.range(0, (1 << 30) - 1) / (double)(1 << 30);  // not a binary32 value: narrowed at the call
  l.oh = std::ldexp(mant, e) * (g.chance(1, 2) ? -1.0 : 1.0);
  int yk = g.range(0, 5);
  if (yk == 0) l.oy = 0.2; else if (yk == 1) l.oy = -0.2; else if (yk == 2) l.oy = g.pick(odd) * 0.2;
  else if (yk == 3) l.oy = (g.chance(1, 2) ? -1 : 1) * (0.2 - g.range(0, 64) / 4096.0); else if (yk == 4) l.oy = g.range(-12, 12) / 64.0;
  else l.oy = 0.0;
  return l;
}

// Source B: a legal placement built directly.
static Circuit genLegalDirect(vh::Rng &g, long long S) {
  int H = g.range(1, 6);
  int nRows = g.range(1, 5);
  int x0 = g.range(-10, 10), y0 = g.range(-10, 10);
  static const std::vector<CellOrientation> rowOr = {CellOrientation::N, CellOrientation::S, CellOrientation::FN, CellOrientation::FS};
  std::vector<Row> rows;
  int y = y0;
  for (int r = 0; r < nRows; ++r) {
    if (g.chance(1, 6)) y += H * g.range(1, 2);
    int a = x0 + (g.chance(1, 3) ? g.range(-3, 3) : 0), b = a + g.range(3, 30);
    CellOrientation ro = g.pick(rowOr);
    if (g.chance(1, 4) && b - a >= 5) {
      int m1 = g.range(a + 1, b - 2), m2 = g.range(m1, std::min(b - 1, m1 + 2));
      rows.emplace_back(a * S, m1 * S, y * S, (y + H) * S, ro);
      rows.emplace_back(m2 * S, b * S, y * S, (y + H) * S, g.chance(1, 3) ? g.pick(rowOr) : ro);
    } else rows.emplace_back(a * S, b * S, y * S, (y + H) * S, ro);
    y += H;
  }
  struct C { long long w, h, x, y; CellOrientation o; bool fixed, obs; CellRowPolarity pol; };
  std::vector<C> cells;
  int nf = g.range(0, 3);
  for (int i = 0; i < nf; ++i) {
    C c;
    c.fixed = true; c.obs = g.chance(3, 4); c.pol = CellRowPolarity::ANY; c.o = (CellOrientation)g.range(0, 7);
    c.w = g.range(0, 4) * S; c.h = g.range(0, 2 * H) * S; c.x = g.range(x0 - 2, x0 + 25) * S; c.y = g.range(y0 - H, y) * S;
    cells.push_back(c);
  }
  Circuit tmp(nf);
  {
    std::vector<int> w, h, xs, ys; std::vector<bool> fx, ob; std::vector<CellOrientation> orr;
    for (auto &c : cells) { w.push_back(c.w); h.push_back(c.h); xs.push_back(c.x); ys.push_back(c.y); fx.push_back(true); ob.push_back(c.obs); orr.push_back(c.o); }
    tmp.setCellWidth(w); tmp.setCellHeight(h); tmp.setCellX(xs); tmp.setCellY(ys); tmp.setCellIsFixed(fx); tmp.setCellIsObstruction(ob); tmp.setCellOrientation(orr);
    tmp.setRows(rows);
  }
  int fill = g.range(0, 3);  // 0 sparse, 1 medium, 2 dense, 3 packed solid
  for (const Row &r : rows) {
    for (auto &sg : vc::freeSegments(tmp, r)) {
      long long pos = sg.lo / S, hi = sg.hi / S;
      while (pos < hi) {
        if (fill < 3) pos += (fill == 0) ? g.range(0, 6) : (fill == 1 ? g.range(0, 2) : (g.chance(1, 3) ? 1 : 0));
        long long pw = g.range(1, 5);
        if (pos + pw > hi) break;
        C c;
        c.fixed = false; c.obs = g.chance(1, 2);
        c.pol = CellRowPolarity::ANY;
        if (g.chance(2, 5)) {
          static const std::vector<CellRowPolarity> ps = {CellRowPolarity::SAME, CellRowPolarity::OPPOSITE, CellRowPolarity::NW, CellRowPolarity::SE};
          CellRowPolarity p = g.pick(ps);
          CellOrientation want = cellOrientationInRow(p, sg.orient);
          if (want != CellOrientation::INVALID) { c.pol = p; c.o = want; }
        }
        if (c.pol == CellRowPolarity::ANY) c.o = (CellOrientation)g.range(0, 7);
        bool turn = isTurn(c.o);
        c.w = (turn ? H : pw) * S; c.h = (turn ? pw : H) * S;
        c.x = pos * S; c.y = r.minY;
        cells.push_back(c);
        pos += pw;
        if (cells.size() > 40) break;
      }
    }
  }
  for (size_t i = cells.size(); i > 1; --i) std::swap(cells[i - 1], cells[g.range(0, i - 1)]);
  int n = cells.size();
  Circuit circ(n);
  std::vector<int> w(n), h(n), xs(n), ys(n); std::vector<bool> fx(n), ob(n); std::vector<CellOrientation> orr(n); std::vector<CellRowPolarity> pol(n);
  for (int i = 0; i < n; ++i) {
    w[i] = cells[i].w; h[i] = cells[i].h; xs[i] = cells[i].x; ys[i] = cells[i].y;
    fx[i] = cells[i].fixed; ob[i] = cells[i].obs; orr[i] = cells[i].o; pol[i] = cells[i].pol;
  }
  circ.setCellWidth(w); circ.setCellHeight(h); circ.setCellX(xs); circ.setCellY(ys);
  circ.setCellIsFixed(fx); circ.setCellIsObstruction(ob); circ.setCellOrientation(orr); circ.setCellRowPolarity(pol);
  circ.setRows(rows);
  return circ;
}

struct Runner {
  vh::Out &out;
  std::map<std::string, int> kfWritten;
  explicit Runner(vh::Out &o) : out(o) {}

  // vh::Out drops oracle lines after the 200th failure: write at most 60 lines per known finding
  // (all of them are counted in the distribution) so that a violation can never be dropped.
  void fail(const std::string &id, const std::string &what, const std::string &text, const std::string &kf) {
    if (!kf.empty() && ++kfWritten[kf] > 60) { out.count("oracle_lines_not_written_" + kf); return; }
    out.fail(id, what, text, kf);
  }

  // L must be a legal single-row placement
  void run(const std::string &id, const Circuit &L, const lg::LParams &lp, const std::string &stream, const lg::Past *past = nullptr) {
    std::string caseTxt = lg::caseText(L, lp);
    // what a failure records (and --replay reads back): the case, and the object's past when there is one
    std::string text = caseTxt + (past ? lg::pastText(*past, lp) : std::string());
    lg::Facts f = lg::facts(L);
    bool unit = lp.ow >= 0.0 && lp.ow <= 1.0;
    Kf2 k2 = kf2Applies(L, lp);
    // both classifiers are evaluated on the input, before the code runs
    std::string kf = !unit ? "KF-C11-1" : (k2.segment ? "KF-C11-2" : "");
    out.evaluations++;
    out.ops << "case " << id << "\n" << caseTxt << "kf2\norder\nlegalize\nagain\n";
    out.impl << "case " << id << "\nkf2 " << (k2.row ? 1 : 0) << " " << (k2.segment ? 1 : 0) << "\n";
    lg::RunResult r1 = lg::runLegalize(L, lp, true, past);
    if (past) lg::countPast(out, *past, r1);
    if (r1.diag.find("history-restore-mismatch") != std::string::npos) out.fail(id, "harness: the setters did not bring the reused object to the public state of the case", text);
    if (r1.status != "ok" || r1.answer.empty()) {
      out.impl << r1.order << "\ncrash:" << r1.status << "\ncrash\n";
      out.fail(id, "Circuit::legalize on a legal placement: child " + r1.status, text);
      return;
    }
    out.impl << r1.order << "\n" << r1.answer << "\n";
    bool threw1 = r1.answer.rfind("throw:", 0) == 0;
    bool moved = false;
    if (threw1) {
      fail(id, "legalize threw on an already legal placement", text, kf);
      out.impl << "throw:runtime_error\n";  // model: `again` re-runs on the unchanged circuit
      // (the real code is deterministic: same input, same throw)
      moved = true;
    } else {
      if (!samePositions(L, r1.answer)) {
        moved = true;
        fail(id, "a cell of an already legal placement moved: " + vc::solutionString(L) + " -> " + r1.answer, text, kf);
      }
      Circuit L2(0);
      lg::LParams dummy;
      lg::parseCase(r1.after + lg::paramsLine(lp) + "\n", L2, dummy);
      lg::RunResult r2 = lg::runLegalize(L2, lp, false);
      out.impl << (r2.status == "ok" ? r2.answer : "crash:" + r2.status) << "\n";
      if (r2.status != "ok") out.fail(id, "second legalize: child " + r2.status, text);
      else if (r2.answer != r1.answer) {
        fail(id, "legalizing twice differs from legalizing once: " + r1.answer + " -> " + r2.answer, text, kf);
      }
    }
    out.count("stream_" + stream);
    out.count(unit ? "ow_in_unit_interval" : "ow_outside_unit_interval");
    // "cells moved" must imply that KF-C11-1 or KF-C11-2 applies
    out.count(moved ? (!unit ? "moved_KF-C11-1_ow_outside_unit" : (k2.segment ? "moved_KF-C11-2_key_tie_or_inversion" : "moved_unclassified_VIOLATION"))
                    : "stable");
    if (unit) out.count(k2.segment ? (moved ? "kf2_applies_moved" : "kf2_applies_stable") : (moved ? "kf2_not_applies_moved_VIOLATION" : "kf2_not_applies_stable"));
    if (k2.row && !k2.segment) out.count(moved ? "kf2_cross_segment_inversion_only_moved" : "kf2_cross_segment_inversion_only_stable");
    if (unit && k2.strictInversion) out.count("kf2_strict_key_inversion_with_ow_in_unit");  // impossible for |v| <= 2^24 (order_never_inverted_binary32)
    if (k2.tie) out.count("keys_tie_in_some_row");
    {
      double m = std::fabs(lp.oh);
      int e = 0;
      if (m > 0) std::frexp(m, &e);
      char b[48];
      if (m >= 1024.0) { snprintf(b, sizeof b, "oh_abs_2^%02d..2^%02d", (e - 1) / 5 * 5, (e - 1) / 5 * 5 + 5); out.count(b); out.count(lp.oh < 0 ? "oh_large_negative" : "oh_large_positive"); }
      else out.count("oh_abs_below_2^10");
      if (std::fabs(lp.oy) >= 0.18) out.count("oy_near_range_end");
    }
    out.count("cells_movable", f.nMov);
    out.count("cells_polarised", f.nPol);
    out.count("cells_turned", f.nTurned);
    if (f.nSeg > L.nbRows()) out.count("has_cut_row");
    int dec = std::min(10, (int)(f.util() * 10));
    char b[32]; snprintf(b, sizeof b, "util_%02d", dec);
    out.count(b);
    // non-trivial: some free segment holds at least two cells (order preservation matters)
    bool two = false;
    for (int i = 0; i < L.nbCells() && !two; ++i)
      for (int j = i + 1; j < L.nbCells() && !two; ++j)
        if (!L.isFixed(i) && !L.isFixed(j) && L.cellY()[i] == L.cellY()[j]) two = true;
    if (two) out.nontrivial(vh::hashStr(caseTxt));
    out.sample("case " + id + " " + stream + ": " + std::to_string(f.nMov) + " cells ow=" + std::to_string(lp.ow) + (moved ? " MOVED" : " stable"));
  }
};

int main(int argc, char **argv) {
  vh::Args a = vh::parseArgs(argc, argv);
  vh::Out out(a.out);
  out.rule = "a case = legal single-row placement (checked by the independent legality oracle) + legalization parameters "
             "(a quarter of the cases with |orderingHeight| in 2^10..2^40, where the binary32 keys tie: KF-C11-2); "
             "non-trivial = at least two movable cells share a row y (their relative order must be kept); distinct by case text. "
             "One case in three is fed to an object with a past (history_* counters: class that differs, what the object did, "
             "which setters restored it, sole restorer)";
  Runner r(out);
  auto fromFile = [&](const std::string &p, const std::string &id, const std::string &stream) {
    Circuit c(0);
    lg::LParams lp;
    if (!std::ifstream(p).good()) return false;
    lg::Past past;
    bool hasPast = false;
    if (!lg::parseCaseWithPast(lg::loadCaseFile(p), c, lp, past, hasPast)) return false;
    if (!vc::checkLegal(c, true).empty()) { out.notes.push_back(p + ": not a legal placement, skipped"); return false; }
    if (hasPast) r.run(id, c, lp, stream + "+hist", &past);
    else r.run(id, c, lp, stream);
    return true;
  };
  if (!a.replay.empty()) {
    fromFile(a.replay, "replay", "replay");
    out.finish();
    return 0;
  }
  if (!a.corpus.empty()) {
    long long before = out.failures;
    if (fromFile(a.corpus + "/kf2.json", "kf2", "corpus")) {
      out.count(out.failures > before ? "kf2_witness_still_fails" : "kf2_witness_no_longer_fails");
      if (out.failures == before) out.notes.push_back("KF-C11-2 witness corpus/C11/kf2.json no longer fails (the finding may have been repaired)");
    }
    before = out.failures;
    if (fromFile(a.corpus + "/kf1.json", "kf1", "corpus")) {
      out.count(out.failures > before ? "kf1_witness_still_fails" : "kf1_witness_no_longer_fails");
      if (out.failures == before) out.notes.push_back("KF-C11-1 witness corpus/C11/kf1.json no longer fails (the finding may have been repaired)");
    }
    for (int i = 0; i < 200; ++i) fromFile(a.corpus + "/case" + std::to_string(i) + ".txt", "c" + std::to_string(i), "corpus");
  }
  long long n = a.thorough() ? 20000 : (a.search() ? 15000 : 1500);
  // one case in three on an object with a past (the generator state is advanced after the case itself is drawn)
  auto runMaybeHist = [&](vh::Rng &g, const std::string &id, const Circuit &L, const lg::LParams &lp, const std::string &stream) {
    if (g.chance(1, 3) && L.nbCells() > 0) {
      lg::Past past = lg::genPast(g, L);
      r.run(id, L, lp, stream + "+hist", &past);
    } else r.run(id, L, lp, stream);
  };
  for (long long i = 0; i < n; ++i) {
    if (a.only >= 0 && i != a.only) continue;
    vh::Rng g = vh::Rng::forCase(a.seed, i);
    static const std::vector<long long> scales = {1, 1, 1, 3, 1000, 4096, 20000};
    lg::LParams lp = lg::genLParams(g, g.chance(1, 2));
    if (i % 4 == 3) {
      // C: huge |orderingHeight| (2^10..2^40), orderingY near the ends of its range, orderingWidth in [0,1]
      lg::LParams tall = genTallParams(g);
      long long S = g.pick(scales);
      Circuit L = genLegalDirect(g, S);
      if (!vc::checkLegal(L, true).empty()) { out.count("source_B_not_legal_BUG"); continue; }
      runMaybeHist(g, std::to_string(i), L, tall, "tall_ordering_height");
    } else if (i % 2 == 0) {
      // A: output of legalization
      vc::GenOpts o;
      o.multiRow = false;
      o.turned = g.chance(1, 2); o.polarities = g.chance(2, 3);
      o.fixedCells = !g.chance(1, 4); o.splitRows = !g.chance(1, 4); o.nets = g.chance(1, 3);
      o.scale = g.pick(scales);
      if (o.scale > 4096) o.scale = 4096;  // far positions reach 200*scale
      o.maxUtil = 1.0;
      if (a.thorough() && g.chance(1, 3)) { o.maxCells = 50; o.maxRows = 10; }
      Circuit c = vc::genCircuit(g, o);
      // one in five: rows laid out by the library's own setupRows over the same area (setupRows can then be a restoring call)
      if (c.nbRows() > 0 && g.chance(1, 5)) { c.setupRows(c.computePlacementArea(), c.rows_[0].height(), g.chance(2, 3), g.chance(1, 2)); out.count("rows_from_setupRows"); }
      lg::LParams first = lg::genLParams(g, false);
      bool tallA = i % 8 == 4;  // an eighth of the cases: legalize with a huge orderingHeight, then again
      if (tallA) first = genTallParams(g);
      lg::RunResult r0 = lg::runLegalize(c, first, false);
      if (r0.status != "ok" || r0.answer.rfind("sol", 0) != 0) { out.count("source_A_first_legalize_failed"); continue; }
      Circuit L(0);
      lg::LParams dummy;
      lg::parseCase(r0.after + lg::paramsLine(first) + "\n", L, dummy);
      if (!vc::checkLegal(L, true).empty()) { out.count("source_A_output_not_legal_skipped"); continue; }
      // usually re-legalize with the same parameters ("legalizing twice"), sometimes with others
      if (tallA) runMaybeHist(g, std::to_string(i), L, first, "from_legalize_tall_ordering_height");
      else { lg::LParams second = g.chance(1, 2) ? first : lp; runMaybeHist(g, std::to_string(i), L, second, "from_legalize"); }
    } else {
      long long S = g.pick(scales);
      Circuit L = genLegalDirect(g, S);
      if (!vc::checkLegal(L, true).empty()) { out.count("source_B_not_legal_BUG"); continue; }
      runMaybeHist(g, std::to_string(i), L, lp, S > 1 ? "direct_scaled" : "direct");
    }
  }
  if (!r.kfWritten.empty())
    out.notes.push_back("at most 60 oracle lines are written per known finding; all hits are counted in the distribution (moved_KF-*)");
  out.finish();
  return 0;
}
