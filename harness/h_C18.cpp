// C18 — correspondence + direct oracle for Circuit::expandCellsToDensity, Circuit::expandCellsByFactor,
// Circuit::computeCellExpansion and Circuit::computeRowPlacementArea (src/coloquinte.cpp).
//
// Correspondence (exact): the Lean model computes with exact rationals.  An operation is sent to the
// driver only when a step-by-step replica of the C++ floating-point computation (same operations, same
// order, each one tested for exactness with fma / two-sum) shows that no operation rounds; then the
// code's answer must equal the model's exactly (new widths, returned ratio, expansion factors, row area).
// The generator of that stream builds dyadic instances (areas q*2^a, targets t/2^c, factors k/16, ...).
//
// Correspondence (binary64/binary32-exact, "F" ops): the model Model/ExpandF.lean performs every double/float
// operation with IEEE rounding, so EVERY call (dyadic or not) is also sent to the driver as rowareaF / todensityF /
// byfactorF / cellexpF and the answers (row area, all widths, returned ratio, expansion factors) must be equal exactly.
// Doubles and floats cross the line protocol as "<mantissa> <exp2>".  A call is sent only when a replica of the
// model's guards holds (conversions to int in range: |fracW| < 2^30, |w * e| < 2^30); counters F_*.  The counters
// F_*_inexact count the calls in which the replica of the operation sequence sees at least one rounding.  Stream "r"
// draws full-mantissa targets, margins, caps, factors, penalties and congestion values and odd magnitudes (widths up to 2^28,
// also for expandCellsByFactor, whose float product is inexact above 2^24).
//
// Direct oracle (every instance, exact or not; independent code):
//   frame        only the widths of movable cells differ between the circuit before and after
//   not narrower a movable cell whose width does not exceed the cap (toDensity: maxRowWidth*maxExpandedWidth;
//                byFactor with factors >= 1: no cap) is not narrower afterwards
//   utilisation  movable area after <= max(movable area before, target-or-cap * available area) * (1 + eps)
//   reach        toDensity, density below target and no active cell's scaled width above the cap:
//                movable area after > target * available area - (largest movable cell height) - eps
//   no-op        density already >= target/cap: nothing changes
//   expansion    computeCellExpansion: 1 for fixed cells and for cells meeting no congested region, otherwise
//                the largest (c-1)*penaltyFactor+fixedPenalty+1 over the congested regions (c > 1) the
//                placement intersects (relative tolerance 1e-5 for float rounding)
// Object-history stream (harness/common/history.hpp): ONE Circuit object goes through a random sequence of public
// mutators (setRows, setupRows with all flag combinations, setCellX/Y/Width/Height, setCellIsFixed, setCellIsObstruction,
// setCellOrientation, setCellRowPolarity, setSolution, addNet) interleaved with the observed calls
// computeRowPlacementArea, expandCellsToDensity, expandCellsByFactor (both applied to the object itself, so the
// expansions accumulate) and computeCellExpansion; several observations per object, the same one twice, observation ->
// one mutator -> same observation, the side margin mostly the same within a history.  Every observation is (a) checked
// by the invariant oracle against a snapshot of the public state taken just before the call, (b) compared result for
// result (widths, returned ratio, exception) with the same call on a freshly constructed Circuit rebuilt from that
// snapshot through the public setters (a copy would carry hidden members), and (c) sent to the Lean driver as one more
// case with the circuit as it was just before the call (when the replica shows no rounding).  A failure's input is the
// whole history up to the observation; --replay re-runs such an input alone.
//
// "available area" is computed here from scratch: rows minus the column ranges touched by fixed obstruction
// cells, each free segment shortened by 2*margin*height and truncated to whole columns.
#include <algorithm>
#include <tuple>
#include <climits>
#include <cmath>
#include <fstream>
#include <functional>
#include <iostream>
#include <map>
#include <optional>
#include <set>
#include <sstream>
#include <string>
#include <vector>

#define private public  // Circuit::computeRowPlacementArea is private; observed directly by the correspondence
#include "coloquinte.hpp"
#undef private

#include "common/circuit.hpp"
#include "common/harness.hpp"
#include "common/history.hpp"

using namespace coloquinte;

// ------------------------------------------------------- exactness-tracking arithmetic

struct Ex {
  bool ok = true;
  double mul(double a, double b) { double p = a * b; if (!std::isfinite(p) || std::fma(a, b, -p) != 0.0) ok = false; return p; }
  double div(double a, double b) { double q = a / b; if (!std::isfinite(q) || std::fma(q, b, -a) != 0.0) ok = false; return q; }
  double add(double a, double b) {
    double s = a + b, bb = s - a, err = (a - (s - bb)) + (b - bb);
    if (!std::isfinite(s) || err != 0.0) ok = false;
    return s;
  }
  double sub(double a, double b) { return add(a, -b); }
  float mulf(float a, float b) { float p = a * b; if (!std::isfinite(p) || std::fmaf(a, b, -p) != 0.0f) ok = false; return p; }
  float addf(float a, float b) {
    float s = a + b, bb = s - a, err = (a - (s - bb)) + (b - bb);
    if (!std::isfinite(s) || err != 0.0f) ok = false;
    return s;
  }
  double fromLL(long long v) { if (std::llabs(v) > (1ll << 52)) ok = false; return (double)v; }
  float floatFromLL(long long v) { if (std::llabs(v) > (1ll << 23)) ok = false; return (float)v; }
  float toFloat(double d) { float f = (float)d; if ((double)f != d) ok = false; return f; }
  long long trunc(double d) { if (!(std::fabs(d) < 2e9)) { ok = false; return 0; } return (long long)d; }
};

// replica of computeRowPlacementArea (operation sequence only; the free rows come from the real code)
static long long replicaRowArea(Ex &ex, const Circuit &c, double margin) {
  long long rowArea = 0;
  for (Row r : c.computeRows()) {
    long long h = r.height(), w = r.width();
    double t = ex.mul(ex.mul(2.0, margin), ex.fromLL(h));
    w = ex.trunc(ex.sub(ex.fromLL(w), t));
    if (w > 0) rowArea += w * h;
  }
  return rowArea;
}

static bool exactToDensity(const Circuit &c, double target, double margin, double maxExp) {
  Ex ex;
  long long cellArea = 0;
  for (int i = 0; i < c.nbCells(); ++i) if (!c.cellIsFixed()[i]) cellArea += c.area(i);
  long long rowArea = replicaRowArea(ex, c, margin);
  if (cellArea == 0 || rowArea == 0) return ex.ok;
  double density = ex.div(ex.fromLL(cellArea), ex.fromLL(rowArea));
  if (density >= target) return ex.ok;
  int maxRowWidth = 0;
  for (const Row &r : c.rows()) maxRowWidth = std::max(maxRowWidth, r.width());
  double cap = ex.mul((double)maxRowWidth, maxExp);
  double factor = ex.div(target, density);
  double missing = 0.0;
  for (int i = 0; i < c.nbCells(); ++i) {
    if (c.cellIsFixed()[i]) continue;
    int h = c.cellHeight()[i], w = c.cellWidth()[i];
    if (h <= 0 || w <= 0) continue;
    double fracW = ex.mul((double)w, factor);
    if (fracW > cap) fracW = cap;
    long long newW = ex.trunc(fracW);
    missing = ex.add(missing, ex.mul((double)h, ex.sub(fracW, (double)newW)));
    int guard = 0;
    while (missing >= h && ++guard < 100000) missing = ex.sub(missing, (double)h);
  }
  return ex.ok;
}

// returns exactness of the widths; *retExact = exactness of the returned ratio as well
static bool exactByFactor(const Circuit &c, const std::vector<float> &f, double maxD, double margin, bool *retExact) {
  *retExact = true;
  if ((int)f.size() != c.nbCells()) return true;
  for (float e : f) if (e < 0.999f) return true;
  Ex ex;
  // the repaired width update (max with the old width for factors >= 1) is a no-op in exact arithmetic only for w >= 0
  for (int i = 0; i < c.nbCells(); ++i) if (!c.cellIsFixed()[i] && c.cellWidth()[i] < 0) ex.ok = false;
  long long cellArea = 0;
  double expanded = 0.0;
  for (int i = 0; i < c.nbCells(); ++i)
    if (!c.cellIsFixed()[i]) {
      cellArea += c.area(i);
      expanded = ex.add(expanded, ex.mul((double)f[i], ex.fromLL(c.area(i))));
    }
  long long rowArea = replicaRowArea(ex, c, margin);
  if (cellArea == 0 || rowArea == 0) return ex.ok;
  double density = ex.div(ex.fromLL(cellArea), ex.fromLL(rowArea));
  if (density >= maxD) return ex.ok;
  std::vector<float> e = f;
  double ed = ex.div(expanded, ex.fromLL(rowArea));
  if (ed > maxD) {
    double ratio = ex.div(ex.sub(maxD, density), ex.sub(ed, density));
    for (float &x : e) x = ex.toFloat(ex.add(1.0, ex.mul(ex.sub((double)x, 1.0), ratio)));
  }
  for (int i = 0; i < c.nbCells(); ++i)
    if (!c.cellIsFixed()[i]) ex.trunc(ex.mulf(ex.floatFromLL(c.cellWidth()[i]), e[i]));
  bool widthsOk = ex.ok;
  ex.div(ed, density);
  *retExact = ex.ok;
  return widthsOk;
}

// ---- replicas of the guards of Model/ExpandF.lean (conversions to int in range), with a margin of a factor 2
static bool domToDensity(const Circuit &c, double target, double margin, double maxExp) {
  if (!std::isfinite(target) || !std::isfinite(margin) || !std::isfinite(maxExp)) return false;
  long long cellArea = 0;
  for (int i = 0; i < c.nbCells(); ++i) if (!c.cellIsFixed()[i]) cellArea += c.area(i);
  long long rowArea = c.computeRowPlacementArea(margin);
  if (cellArea == 0 || rowArea == 0) return true;
  double density = (double)cellArea / (double)rowArea;
  if (density >= target) return true;
  int maxRowWidth = 0;
  for (const Row &r : c.rows()) maxRowWidth = std::max(maxRowWidth, r.width());
  double cap = maxRowWidth * maxExp, factor = target / density;
  if (!std::isfinite(factor) || !std::isfinite(cap)) return false;
  for (int i = 0; i < c.nbCells(); ++i) {
    if (c.cellIsFixed()[i] || c.cellHeight()[i] <= 0 || c.cellWidth()[i] <= 0) continue;
    double fracW = c.cellWidth()[i] * factor;
    if (fracW > cap) fracW = cap;
    if (!(std::fabs(fracW) < 1073741824.0)) return false;
  }
  return true;
}

static bool domByFactor(const Circuit &c, const std::vector<float> &f, double maxD, double margin) {
  if (!std::isfinite(maxD) || !std::isfinite(margin)) return false;
  for (float e : f) if (!std::isfinite(e)) return false;
  if ((int)f.size() != c.nbCells()) return true;
  for (int i = 0; i < c.nbCells(); ++i)
    if (!c.cellIsFixed()[i] && !(std::fabs((double)c.cellWidth()[i]) * std::max(1.0, std::fabs((double)f[i])) < 1073741824.0)) return false;
  return true;
}

using Region = std::pair<Rectangle, float>;

static bool exactCellExpansion(const std::vector<Region> &m, float fp, float pf) {
  if (fp < 0.0f || pf < 1.0f) return true;
  Ex ex;
  for (auto &rc : m)
    if (rc.second > 1.0f) ex.toFloat(ex.add((double)ex.addf(ex.mulf(ex.addf(rc.second, -1.0f), pf), fp), 1.0));
  return ex.ok;
}

// ----------------------------------------------------------------- independent oracle

struct Avail { long double lo = 0, hi = 0; };  // available area; lo != hi when a truncation is on a boundary

static Avail availableArea(const Circuit &c, double margin) {
  Avail av;
  for (const Row &row : c.rows()) {
    long long lo = std::min(row.minX, row.maxX), hi = std::max(row.minX, row.maxX);
    if (!(row.minY < row.maxY) || lo == hi) continue;
    std::vector<std::pair<long long, long long>> cut;
    for (int i = 0; i < c.nbCells(); ++i) {
      if (!c.cellIsFixed()[i] || !c.cellIsObstruction()[i]) continue;
      CellOrientation o = c.cellOrientation()[i];
      bool turn = (o == CellOrientation::E || o == CellOrientation::W || o == CellOrientation::FE || o == CellOrientation::FW);
      long long w = turn ? c.cellHeight()[i] : c.cellWidth()[i], h = turn ? c.cellWidth()[i] : c.cellHeight()[i];
      long long x1 = c.cellX()[i], x2 = x1 + w, y1 = c.cellY()[i], y2 = y1 + h;
      if (x1 > x2) std::swap(x1, x2);
      if (y1 > y2) std::swap(y1, y2);
      if (x1 < x2 && y1 < y2 && y1 < row.maxY && row.minY < y2 && x1 < hi && lo < x2) cut.push_back({std::max(x1, lo), std::min(x2, hi)});
    }
    std::sort(cut.begin(), cut.end());
    long long cur = lo;
    long long H = row.maxY - row.minY;
    auto seg = [&](long long a, long long b) {
      long double u = (long double)(b - a) - 2.0L * (long double)margin * (long double)H;
      if (u <= 0) return;
      long double fl = std::floor(u), fr = u - fl;
      if (fr < 1e-7L && fl >= 1) { av.lo += (fl - 1) * H; av.hi += fl * H; }
      else if (fr > 1 - 1e-7L) { av.lo += fl * H; av.hi += (fl + 1) * H; }
      else { av.lo += fl * H; av.hi += fl * H; }
    };
    for (auto &iv : cut) {
      if (iv.first > cur) seg(cur, iv.first);
      cur = std::max(cur, iv.second);
    }
    if (cur < hi) seg(cur, hi);
  }
  return av;
}

static long long movableArea(const Circuit &c) {
  long long a = 0;
  for (int i = 0; i < c.nbCells(); ++i) if (!c.cellIsFixed()[i]) a += (long long)c.cellWidth()[i] * c.cellHeight()[i];
  return a;
}

// only widths of movable cells may differ
static std::string frameCheck(const Circuit &before, const Circuit &after) {
  if (before.nbCells() != after.nbCells()) return "number of cells changed";
  Circuit t = after;
  std::vector<int> w = after.cellWidth();
  for (int i = 0; i < before.nbCells(); ++i) {
    if (before.cellIsFixed()[i] && after.cellWidth()[i] != before.cellWidth()[i]) return "width of fixed cell " + std::to_string(i) + " changed";
    w[i] = before.cellWidth()[i];
  }
  t.setCellWidth(w);
  if (vc::circuitString(t) != vc::circuitString(before)) return "something other than the widths of movable cells changed";
  return "";
}

static std::string dy(double v) { return vc::exactDouble(v); }

struct Runner {
  vh::Out &out;
  explicit Runner(vh::Out &o) : out(o) {}
  // history stream: the input reported with a failure is the whole history, not the single call
  const std::string *inputOverride = nullptr;
  // send the call to the binary64/binary32-exact model as well?
  bool emitF = true;
  long long exactEmitted = 0;  // operations sent to the rational model (replica shows no rounding)
  std::string inputOr(const std::string &dflt) const { return inputOverride ? *inputOverride : dflt; }

  void header(const std::string &id, const Circuit &c) {
    out.ops << "case " << id << "\n";
    out.impl << "case " << id << "\n";
    vc::dumpCircuit(out.ops, c);
  }
  static std::string widths(const Circuit &c) {
    std::ostringstream os;
    os << "widths";
    for (int w : c.cellWidth()) os << " " << w;
    return os.str();
  }

  long long rowArea(const std::string &id, const Circuit &c, double margin) {
    Ex ex;
    replicaRowArea(ex, c, margin);
    long long a = c.computeRowPlacementArea(margin);
    Avail av = availableArea(c, margin);
    if ((long double)a < av.lo - 0.5L || (long double)a > av.hi + 0.5L)
      out.fail(id, "computeRowPlacementArea = " + std::to_string(a) + " but rows minus fixed obstructions minus margins = " + std::to_string((double)av.hi),
               inputOr(vc::circuitString(c) + "margin " + dy(margin)));
    if (ex.ok) {
      ++exactEmitted;
      out.ops << "rowarea " << dy(margin) << "\n";
      out.impl << "rowarea " << a << "\n";
      out.count("exact_rowarea");
    }
    if (emitF && std::isfinite(margin)) {
      out.ops << "rowareaF " << dy(margin) << "\n";
      out.impl << "rowareaF " << a << "\n";
      out.count("F_rowarea");
      if (!ex.ok) out.count("F_rowarea_inexact (some double operation rounds)");
    }
    return a;
  }

  // c0: the state before the call (never observed before); the call is made on *obj when given (history stream:
  // the object keeps the expansion), else on a copy of c0
  void toDensity(const std::string &id, const Circuit &c0, double target, double margin, double maxExp, Circuit *obj = nullptr) {
    std::ostringstream in;
    in << vc::circuitString(c0) << "expandCellsToDensity target " << dy(target) << " margin " << dy(margin) << " maxExpandedWidth " << dy(maxExp);
    const std::string callText = in.str(), input = inputOr(callText);
    vh::setCase(id, input);
    out.evaluations++;
    bool exact = exactToDensity(c0, target, margin, maxExp);
    Circuit local = c0;
    Circuit &c = obj ? *obj : local;
    c.expandCellsToDensity(target, margin, maxExp);
    if (exact) {
      ++exactEmitted;
      out.ops << "todensity " << dy(target) << " " << dy(margin) << " " << dy(maxExp) << "\n";
      out.impl << widths(c) << "\n";
    }
    out.count(exact ? "todensity_exact" : "todensity_inexact");
    if (emitF) {
      if (domToDensity(c0, target, margin, maxExp)) {
        out.ops << "todensityF " << dy(target) << " " << dy(margin) << " " << dy(maxExp) << "\n";
        out.impl << widths(c) << " F\n";
        out.count("F_todensity");
        if (!exact) out.count("F_todensity_inexact (some double operation rounds)");
        if (!exact && c.cellWidth() != c0.cellWidth()) out.count("F_todensity_inexact_and_widths_changed");
      } else out.count("F_todensity_skipped_out_of_domain");
    }
    // ---- oracle
    std::string fr = frameCheck(c0, c);
    if (!fr.empty()) out.fail(id, "expandCellsToDensity: " + fr, input);
    Avail av = availableArea(c0, margin);
    long long before = movableArea(c0), after = movableArea(c);
    int maxRowWidth = 0;
    for (const Row &r : c0.rows()) maxRowWidth = std::max(maxRowWidth, r.width());
    long double cap = (long double)maxRowWidth * (long double)maxExp;
    bool changed = c.cellWidth() != c0.cellWidth();
    long double tgtHi = (long double)target * av.hi, tgtLo = (long double)target * av.lo;
    bool anyCapped = false, nearCap = false;
    int maxH = 0;
    for (int i = 0; i < c0.nbCells(); ++i) {
      if (c0.cellIsFixed()[i]) continue;
      int w0 = c0.cellWidth()[i], w1 = c.cellWidth()[i], h = c0.cellHeight()[i];
      if ((long double)w0 <= cap * (1 - 1e-12L) && w1 < w0) out.fail(id, "movable cell " + std::to_string(i) + " became narrower although the cap is not below its width", input);
      if (w0 > 0 && h > 0) {
        maxH = std::max(maxH, h);
        if (before > 0) {
          long double scaled = (long double)w0 * tgtHi / before;
          if (scaled > cap * (1 + 1e-9L)) anyCapped = true;
          else if (scaled > cap * (1 - 1e-9L)) nearCap = true;
        }
      }
    }
    long double bound = std::max<long double>(before, tgtHi);
    if ((long double)after > bound * (1 + 1e-9L) + 1e-6L)
      out.fail(id, "movable area after = " + std::to_string(after) + " exceeds max(area before, target * available area) = " + std::to_string((double)bound), input);
    bool dense = before == 0 || av.hi == 0 || (long double)before >= tgtHi * (1 + 1e-9L);
    bool sparse = before > 0 && av.lo > 0 && (long double)before < tgtLo * (1 - 1e-9L);
    if (dense && changed) out.fail(id, "density already at or above the target but widths changed", input);
    if (sparse && !anyCapped && !nearCap) {
      if (!((long double)after > tgtLo * (1 - 1e-9L) - maxH - 1e-6L))
        out.fail(id, "no cap hit but movable area after = " + std::to_string(after) + " is not within one cell height (" + std::to_string(maxH) +
                         ") of target * available area = " + std::to_string((double)tgtLo), input);
      out.count("todensity_reach_checked");
    }
    out.count(dense ? "todensity_noop_dense" : (anyCapped ? "todensity_cap_hit" : "todensity_expanded_uncapped"));
    if (changed) out.nontrivial(vh::hashStr(callText));
    if (changed) out.sample(callText.substr(0, 300));
  }

  void byFactor(const std::string &id, const Circuit &c0, const std::vector<float> &f, double maxD, double margin, Circuit *obj = nullptr,
                std::string *outcome = nullptr) {
    std::ostringstream in;
    in << vc::circuitString(c0) << "expandCellsByFactor maxDensity " << dy(maxD) << " margin " << dy(margin) << " factors";
    for (float e : f) in << " " << dy(e);
    const std::string callText = in.str(), input = inputOr(callText);
    vh::setCase(id, input);
    out.evaluations++;
    bool retExact = true;
    bool exact = exactByFactor(c0, f, maxD, margin, &retExact);
    Circuit local = c0;
    Circuit &c = obj ? *obj : local;
    std::string res;
    double ret = 0;
    bool threw = false;
    try {
      ret = c.expandCellsByFactor(f, maxD, margin);
    } catch (const std::exception &e) {
      threw = true;
      res = vc::exClass(e);
    }
    if (outcome) *outcome = threw ? res : "returned " + dy(ret);
    if (exact) {
      ++exactEmitted;
      out.ops << "byfactor " << (retExact ? 1 : 0) << " " << dy(maxD) << " " << dy(margin);
      for (float e : f) out.ops << " " << dy(e);
      out.ops << "\n";
      if (threw) out.impl << res << "\n";
      else out.impl << "byfactor " << (retExact ? dy(ret) + " " : "") << widths(c) << "\n";
    }
    out.count(exact ? (retExact ? "byfactor_exact_with_ratio" : "byfactor_exact_widths_only") : "byfactor_inexact");
    if (emitF) {
      if (domByFactor(c0, f, maxD, margin)) {
        out.ops << "byfactorF " << dy(maxD) << " " << dy(margin);
        for (float e : f) out.ops << " " << dy(e);
        out.ops << "\n";
        if (threw) out.impl << res << " F\n";
        else out.impl << "byfactor " << dy(ret) << " " << widths(c) << " F\n";
        out.count("F_byfactor");
        if (!(exact && retExact)) out.count("F_byfactor_inexact (some double/float operation rounds)");
        if (!exact && c.cellWidth() != c0.cellWidth()) out.count("F_byfactor_inexact_widths_and_widths_changed");
      } else out.count("F_byfactor_skipped_out_of_domain");
    }
    // ---- oracle
    bool lengthOk = (int)f.size() == c0.nbCells();
    bool inDomain = lengthOk;
    bool belowMin = false;
    for (float e : f) { if (e < 1.0f) inDomain = false; if (e < 0.999f) belowMin = true; }
    if (threw) {
      if (lengthOk && !belowMin) out.fail(id, "expandCellsByFactor threw on a valid factor vector", input);
      if (vc::circuitString(c) != vc::circuitString(c0)) out.fail(id, "expandCellsByFactor threw but modified the circuit", input);
      out.count("byfactor_throws");
      return;
    }
    if (!lengthOk || belowMin) out.fail(id, "expandCellsByFactor accepted an invalid factor vector", input);
    std::string fr = frameCheck(c0, c);
    if (!fr.empty()) out.fail(id, "expandCellsByFactor: " + fr, input);
    if (!inDomain) { out.count("byfactor_factor_below_1"); return; }
    Avail av = availableArea(c0, margin);
    long long before = movableArea(c0), after = movableArea(c);
    bool changed = c.cellWidth() != c0.cellWidth();
    // unconditional since fixes/c18-byfactor-wide-cells.diff: any width (also above 2^24, where the int -> float
    // conversion of the width is inexact), any sign
    for (int i = 0; i < c0.nbCells(); ++i)
      if (!c0.cellIsFixed()[i] && c.cellWidth()[i] < c0.cellWidth()[i])
        out.fail(id, "movable cell " + std::to_string(i) + " became narrower (factors >= 1, no width cap): width " + std::to_string(c0.cellWidth()[i]) +
                         " -> " + std::to_string(c.cellWidth()[i]), input);
    long double capHi = (long double)maxD * av.hi;
    long double bound = std::max<long double>(before, capHi);
    if ((long double)after > bound * (1 + 1e-6L) + 1e-6L)
      out.fail(id, "movable area after = " + std::to_string(after) + " exceeds max(area before, maxDensity * available area) = " + std::to_string((double)bound) +
                       " (utilisation " + std::to_string((double)(after / std::max<long double>(1, av.hi))) + ")", input);
    bool dense = before == 0 || av.hi == 0 || (long double)before >= capHi * (1 + 1e-9L);
    if (dense && changed) out.fail(id, "density already at or above maxDensity but widths changed", input);
    if (dense && ret != 1.0) out.fail(id, "density already at or above maxDensity but the returned ratio is not 1", input);
    long double expandedExact = 0;
    for (int i = 0; i < c0.nbCells(); ++i) if (!c0.cellIsFixed()[i]) expandedExact += (long double)f[i] * c0.cellWidth()[i] * c0.cellHeight()[i];
    bool adjusted = !dense && av.hi > 0 && expandedExact > capHi;
    out.count(dense ? "byfactor_noop_dense" : (adjusted ? "byfactor_ratio_adjusted" : "byfactor_unadjusted"));
    if (changed) out.nontrivial(vh::hashStr(callText));
  }

  void cellExpansion(const std::string &id, const Circuit &c, const std::vector<Region> &m, float fp, float pf, std::string *outcome = nullptr) {
    std::ostringstream in;
    in << vc::circuitString(c) << "computeCellExpansion fixedPenalty " << dy(fp) << " penaltyFactor " << dy(pf) << " regions";
    for (auto &rc : m) in << " [" << rc.first.minX << " " << rc.first.maxX << " " << rc.first.minY << " " << rc.first.maxY << " " << dy(rc.second) << "]";
    const std::string callText = in.str(), input = inputOr(callText);
    vh::setCase(id, input);
    out.evaluations++;
    bool exact = exactCellExpansion(m, fp, pf);
    std::vector<float> res;
    bool threw = false;
    std::string ex;
    try {
      res = c.computeCellExpansion(m, fp, pf);
    } catch (const std::exception &e) {
      threw = true;
      ex = vc::exClass(e);
    }
    if (outcome) {
      *outcome = threw ? ex : "factors";
      for (float v : res) *outcome += " " + dy(v);
    }
    if (exact) {
      ++exactEmitted;
      out.ops << "cellexp " << dy(fp) << " " << dy(pf);
      for (auto &rc : m) out.ops << " " << rc.first.minX << " " << rc.first.maxX << " " << rc.first.minY << " " << rc.first.maxY << " " << dy(rc.second);
      out.ops << "\n";
      if (threw) out.impl << ex << "\n";
      else {
        std::ostringstream os;
        os << "cellexp";
        for (float v : res) os << " " << dy(v);
        out.impl << os.str() << "\n";
      }
    }
    out.count(exact ? "cellexp_exact" : "cellexp_inexact");
    if (emitF) {
      bool finite = std::isfinite(fp) && std::isfinite(pf);
      for (auto &rc : m) finite = finite && std::isfinite(rc.second);
      if (finite) {
        out.ops << "cellexpF " << dy(fp) << " " << dy(pf);
        for (auto &rc : m) out.ops << " " << rc.first.minX << " " << rc.first.maxX << " " << rc.first.minY << " " << rc.first.maxY << " " << dy(rc.second);
        out.ops << "\n";
        if (threw) out.impl << ex << " F\n";
        else {
          std::ostringstream os;
          os << "cellexpF";
          for (float v : res) os << " " << dy(v);
          out.impl << os.str() << "\n";
        }
        out.count("F_cellexp");
        if (!exact) out.count("F_cellexp_inexact (some float/double operation rounds)");
      }
    }
    bool invalid = fp < 0.0f || pf < 1.0f;
    if (threw) {
      if (!invalid) out.fail(id, "computeCellExpansion threw on valid penalties", input);
      out.count("cellexp_throws");
      return;
    }
    if (invalid) { out.fail(id, "computeCellExpansion accepted invalid penalties", input); return; }
    if ((int)res.size() != c.nbCells()) { out.fail(id, "computeCellExpansion: wrong result size", input); return; }
    bool any = false;
    for (int i = 0; i < c.nbCells(); ++i) {
      long double want = 1.0L;
      bool congested = false;
      if (!c.cellIsFixed()[i]) {
        CellOrientation o = c.cellOrientation()[i];
        bool turn = (o == CellOrientation::E || o == CellOrientation::W || o == CellOrientation::FE || o == CellOrientation::FW);
        long long w = turn ? c.cellHeight()[i] : c.cellWidth()[i], h = turn ? c.cellWidth()[i] : c.cellHeight()[i];
        long long x1 = c.cellX()[i], x2 = x1 + w, y1 = c.cellY()[i], y2 = y1 + h;
        for (auto &rc : m) {
          if (!(rc.second > 1.0f)) continue;
          const Rectangle &r = rc.first;
          if (r.minX < x2 && x1 < r.maxX && r.minY < y2 && y1 < r.maxY) {
            congested = true;
            want = std::max(want, ((long double)rc.second - 1.0L) * pf + fp + 1.0L);
          }
        }
      }
      if (!congested) {
        if (res[i] != 1.0f) out.fail(id, "cell " + std::to_string(i) + " is fixed or meets no congested region but its factor is not 1", input);
      } else {
        any = true;
        if (std::fabs((long double)res[i] - want) > 1e-5L * want) out.fail(id, "cell " + std::to_string(i) + ": factor " + std::to_string(res[i]) + " is not the largest factor of the congested regions it intersects (" + std::to_string((double)want) + ")", input);
      }
    }
    out.count(any ? "cellexp_some_cell_congested" : "cellexp_no_cell_congested");
    if (any) out.nontrivial(vh::hashStr(callText));
    {  // measured: maps that list one rectangle several times, and where its largest congested value stands
      bool rep = false, repCong = false, notLast = false, notFirst = false, decides = false;
      for (size_t a = 0; a < m.size(); ++a) {
        float mx = m[a].second;
        size_t first = a, last = a, argFirst = a, argLast = a, cnt = 0;
        bool earlier = false;
        for (size_t b = 0; b < m.size(); ++b) {
          const Rectangle &p = m[a].first, &q = m[b].first;
          if (!(p.minX == q.minX && p.maxX == q.maxX && p.minY == q.minY && p.maxY == q.maxY)) continue;
          if (b < a) earlier = true;
          ++cnt;
          last = b;
          if (m[b].second > mx) { mx = m[b].second; argFirst = argLast = b; } else if (m[b].second == mx) { if (b < argFirst) argFirst = b; argLast = b; }
        }
        if (earlier || cnt < 2) continue;
        rep = true;
        if (!(mx > 1.0f)) continue;
        repCong = true;
        bool nl = argLast != last, nf = argFirst != first;
        notLast = notLast || nl;
        notFirst = notFirst || nf;
        // does some movable cell take its factor from this rectangle's largest value while another copy has a smaller one?
        for (int i = 0; i < c.nbCells() && !decides; ++i) {
          if (c.cellIsFixed()[i]) continue;
          Rectangle pl = c.placement(i);
          const Rectangle &rr = m[a].first;
          if (!(rr.minX < pl.maxX && pl.minX < rr.maxX && rr.minY < pl.maxY && pl.minY < rr.maxY)) continue;
          float best = 0;
          for (auto &rc : m) if (rc.second > 1.0f && rc.first.minX < pl.maxX && pl.minX < rc.first.maxX && rc.first.minY < pl.maxY && pl.minY < rc.first.maxY) best = std::max(best, rc.second);
          if (best == mx && (nl || nf)) decides = true;
        }
      }
      if (rep) out.count("cellexp_map_repeats_a_rectangle");
      if (repCong) out.count("cellexp_repeated_rectangle_is_congested");
      if (notLast) out.count("cellexp_repeated_rectangle_largest_value_not_listed_last");
      if (notFirst) out.count("cellexp_repeated_rectangle_largest_value_not_listed_first");
      if (decides) out.count("cellexp_repeated_rectangle_decides_a_movable_cells_factor");
    }
  }

  // ------------------------------------------------------------------ object histories
  static bool readDy(std::istream &is, double &v) {
    long long m;
    int e;
    if (!(is >> m >> e)) return false;
    v = std::ldexp((double)m, e);
    return true;
  }

  // One object history.  Observation lines (doubles as "<mantissa> <exp2>"):
  //   obs rowarea <margin> | obs todensity <target> <margin> <maxExpandedWidth> | obs byfactor <maxDensity> <margin> <factor>*
  //   obs cellexp <fixedPenalty> <penaltyFactor> (<minX> <maxX> <minY> <maxY> <congestion>)*
  void history(const std::string &id, const vhist::State &init, vhist::StepSource src) {
    Circuit obj = vhist::rebuild(init);
    const std::string initText = vhist::stateText(init);
    std::vector<std::string> lines;
    vhist::Tracker tr;
    vhist::Step st;
    int j = 0;
    out.count("hist_histories");
    while (src(obj, st)) {
      lines.push_back(st.text());
      std::string input = vhist::historyText(initText, lines);
      vh::setCase(id, input);
      if (st.isMut) {
        try {
          st.mut.apply(obj);
          tr.mut(st.mut.name());
          out.count("hist_mutators_applied");
        } catch (const std::exception &e) {
          out.count(std::string("hist_mutator_threw_") + vhist::mkName(st.mut.kind) + " (counted, object unchanged)");
        }
        continue;
      }
      std::istringstream is(st.obs);
      std::string kw, kind;
      is >> kw >> kind;
      std::string oid = id + "_" + std::to_string(j++);
      for (auto &k : tr.obs(st.obs)) out.count(k);
      out.count("hist_obs_" + kind);
      // the state just before the call, as a fresh object (oracle reference and model input) ...
      vhist::State s0 = vhist::snapshot(obj);
      Circuit c0 = vhist::rebuild(s0);
      // ... and a second fresh object on which the same call is made (metamorphic twin)
      Circuit twin = vhist::rebuild(s0);
      inputOverride = &input;
      emitF = (j % 3 == 0);  // every third observation also goes to the float-exact model
      header(oid, c0);
      long long exact0 = exactEmitted;
      std::string got, fresh;
      if (kind == "rowarea") {
        double margin = 0;
        readDy(is, margin);
        got = std::to_string(rowArea(oid, obj, margin));
        fresh = std::to_string(twin.computeRowPlacementArea(margin));
        if (vc::circuitString(obj) != vc::circuitString(c0)) out.fail(oid, "object history: computeRowPlacementArea changed the observable state", input);
        out.evaluations++;
      } else if (kind == "todensity") {
        double target = 0.5, margin = 0, cap = 1;
        readDy(is, target); readDy(is, margin); readDy(is, cap);
        toDensity(oid, c0, target, margin, cap, &obj);
        twin.expandCellsToDensity(target, margin, cap);
      } else if (kind == "byfactor") {
        double maxD = 1, margin = 0, v;
        readDy(is, maxD); readDy(is, margin);
        std::vector<float> f;
        while (readDy(is, v)) f.push_back((float)v);
        byFactor(oid, c0, f, maxD, margin, &obj, &got);
        try {
          fresh = "returned " + dy(twin.expandCellsByFactor(f, maxD, margin));
        } catch (const std::exception &e) {
          fresh = vc::exClass(e);
        }
      } else if (kind == "cellexp") {
        double fp = 0, pf = 1;
        readDy(is, fp); readDy(is, pf);
        std::vector<Region> m;
        int r4[4];
        double cg;
        while ((is >> r4[0] >> r4[1] >> r4[2] >> r4[3]) && readDy(is, cg)) m.emplace_back(Rectangle(r4[0], r4[1], r4[2], r4[3]), (float)cg);
        cellExpansion(oid, obj, m, (float)fp, (float)pf, &got);
        try {
          fresh = "factors";
          for (float v : twin.computeCellExpansion(m, (float)fp, (float)pf)) fresh += " " + dy(v);
        } catch (const std::exception &e) {
          fresh = vc::exClass(e);
        }
        if (vc::circuitString(obj) != vc::circuitString(c0)) out.fail(oid, "object history: computeCellExpansion changed the observable state", input);
      } else {
        out.count("hist_obs_unknown");
      }
      if (exactEmitted != exact0) out.count("hist_obs_" + kind + "_compared_with_model (replica shows no rounding)");
      got += " | state " + vc::circuitString(obj);
      fresh += " | state " + vc::circuitString(twin);
      if (got != fresh) {
        std::string a1 = got.substr(0, got.find(" | state ")), b1 = fresh.substr(0, fresh.find(" | state "));
        std::string wo = widths(obj), wt = widths(twin);
        out.fail(oid, "object history: " + kind + " on the object gives [" + a1 + "] " + wo + " but on a freshly constructed circuit with the same observable state [" +
                          b1 + "] " + wt, input);
      }
      inputOverride = nullptr;
    }
  }
};

// ------------------------------------------------------------------ generators

struct CellSpec { int w, h, x, y; CellOrientation o; bool fixed, obs; };

static Circuit makeCircuit(const std::vector<CellSpec> &cs, const std::vector<Row> &rows) {
  int n = cs.size();
  Circuit c(n);
  std::vector<int> w(n), h(n), x(n), y(n);
  std::vector<bool> fx(n), ob(n);
  std::vector<CellOrientation> o(n);
  for (int i = 0; i < n; ++i) { w[i] = cs[i].w; h[i] = cs[i].h; x[i] = cs[i].x; y[i] = cs[i].y; fx[i] = cs[i].fixed; ob[i] = cs[i].obs; o[i] = cs[i].o; }
  c.setCellWidth(w); c.setCellHeight(h); c.setCellX(x); c.setCellY(y); c.setCellIsFixed(fx); c.setCellIsObstruction(ob); c.setCellOrientation(o);
  c.setRows(rows);
  return c;
}

static long long pow2(int k) { return 1ll << k; }

// Dyadic instance: movable area A = q*2^a, available area R = q'*2^b with q' | q.
struct ExactInst {
  Circuit c{0};
  long long A = 0, R = 0;
  int q = 1, qp = 1;
  double margin = 0;
};

static ExactInst genExact(vh::Rng &g, bool powerOfTwoR) {
  ExactInst in;
  static const std::vector<int> odd = {1, 1, 3, 5, 7, 9, 15};
  int j = g.range(0, 3);
  int H = pow2(j);
  static const std::vector<double> margins = {0, 0, 0.5, 1, 0.25, 1.5, 0.75};
  in.margin = g.pick(margins);
  std::vector<CellSpec> cs;
  // movable cells
  int nm = g.range(1, 8);
  long long A0 = 0;
  for (int i = 0; i < nm; ++i) {
    CellSpec c;
    c.w = g.range(1, 12); c.h = g.chance(2, 3) ? H : (int)g.range(1, 3) * H;
    if (g.chance(1, 10)) c.w = 0;
    if (g.chance(1, 15)) c.h = 0;
    c.x = g.range(-5, 40); c.y = g.range(-5, 20); c.o = g.chance(1, 5) ? (CellOrientation)g.range(0, 7) : CellOrientation::N;
    c.fixed = false; c.obs = g.chance(1, 2);
    A0 += (long long)c.w * c.h;
    cs.push_back(c);
  }
  in.q = g.pick(odd);
  int a = 0;
  while ((long long)in.q * pow2(a) < A0 + 1) ++a;
  if (g.chance(1, 3)) ++a;
  in.A = (long long)in.q * pow2(a);
  {
    CellSpec c;
    long long rem = in.A - A0;
    c.h = (rem % H == 0 && g.chance(1, 2)) ? H : 1;
    c.w = rem / c.h;
    c.x = g.range(-5, 40); c.y = g.range(-5, 20); c.o = CellOrientation::N; c.fixed = false; c.obs = true;
    cs.insert(cs.begin() + g.range(0, cs.size()), c);
  }
  // rows and fixed cells
  int nRows = g.range(1, 4);
  std::vector<Row> rows;
  int x0 = g.range(-8, 8), y0 = g.range(-8, 8);
  int m2 = (int)std::ceil(2 * in.margin * H);
  for (int r = 0; r < nRows; ++r) {
    int wdt = g.range(m2 + 2, m2 + 24);
    rows.emplace_back(x0 + (g.chance(1, 3) ? g.range(-3, 3) : 0), 0, y0 + r * H, y0 + (r + 1) * H, g.chance(1, 2) ? CellOrientation::N : CellOrientation::FS);
    rows.back().maxX = rows.back().minX + wdt;
  }
  int nf = g.range(0, 3);
  for (int i = 0; i < nf; ++i) {
    CellSpec c;
    c.fixed = true; c.obs = g.chance(3, 4);
    c.w = g.range(0, 5); c.h = g.range(0, 2 * H); c.o = (CellOrientation)g.range(0, 7);
    c.x = g.range(x0 - 2, x0 + 14); c.y = y0 + g.range(-1, nRows * H);
    cs.insert(cs.begin() + g.range(0, cs.size()), c);
  }
  Circuit tmp = makeCircuit(cs, rows);
  Avail av0 = availableArea(tmp, in.margin);
  long long avail0 = (long long)av0.hi;
  // choose R = q' * 2^b >= avail0 with (R - avail0) a multiple of H, then widen the last row far to the right
  std::vector<int> divs = {1};
  if (!powerOfTwoR) for (int d : {3, 5}) if (in.q % d == 0) divs.push_back(d);
  in.qp = g.pick(divs);
  int b = j;
  while ((long long)in.qp * pow2(b) < avail0 + (long long)H * (m2 + 1)) ++b;
  if (g.chance(3, 4)) while ((long long)in.qp * pow2(b) < in.A) ++b;  // mostly below full utilisation
  b += g.range(0, 2);
  in.R = (long long)in.qp * pow2(b);
  long long extraCols = (in.R - avail0) / H;
  // a separate row far right, obstacle free: usable width = extraCols  => raw width = extraCols + 2*margin*H
  int rawExtra = (int)(extraCols + m2);
  if (2 * in.margin * H != m2) rawExtra = (int)(extraCols + m2);  // truncation makes floor(raw - 2mH) = extraCols when raw = extraCols + ceil(2mH)
  rows.emplace_back(1000, 1000 + rawExtra, y0, y0 + H, CellOrientation::N);
  in.c = makeCircuit(cs, rows);
  return in;
}

static std::vector<Region> genRegions(vh::Rng &g, const Circuit &c, bool exact) {
  std::vector<Region> m;
  int n = g.range(0, 6);
  Rectangle pa = c.computePlacementArea();
  for (int i = 0; i < n; ++i) {
    int x = g.range(pa.minX - 10, pa.maxX + 5), y = g.range(pa.minY - 10, pa.maxY + 5);
    Rectangle r(x, x + g.range(0, 30), y, y + g.range(0, 20));
    if (c.nbCells() > 0 && g.chance(1, 3)) {  // right on a cell
      int k = g.range(0, c.nbCells() - 1);
      Rectangle p = c.placement(k);
      r = Rectangle(p.minX + g.range(-2, 2), p.maxX + g.range(-2, 2), p.minY + g.range(-2, 2), p.maxY + g.range(-2, 2));
    }
    float cg = exact ? (float)(g.range(0, 24) / 8.0) : (float)(g.range(0, 3000) / 1000.0);
    if (g.chance(1, 8)) cg = 1.0f;
    m.emplace_back(r, cg);
  }
  // Family: ordering / identity of the map entries.  A per-layer / per-direction congestion report lists the same rectangle
  // several times with different values; any container keyed by the rectangle, any "first / last entry wins", any de-duplication
  // and any dependence on the listing order breaks "the largest factor among the congested regions the cell intersects".
  // One map in three repeats one of its rectangles 1-3 more times (exactly the same rectangle, different congestion values,
  // the largest listed first / last / in the middle / anywhere; copies adjacent or scattered between the other regions).
  if (!m.empty() && g.chance(1, 3)) {
    int k = g.range(0, (int)m.size() - 1);
    if (c.nbCells() > 0 && g.chance(1, 2)) {  // make sure it is often a rectangle that meets a cell
      Rectangle p = c.placement(g.range(0, c.nbCells() - 1));
      m[k].first = Rectangle(p.minX - g.range(0, 2), p.maxX + g.range(0, 2), p.minY - g.range(0, 2), p.maxY + g.range(0, 2));
    }
    Rectangle r = m[k].first;
    std::vector<float> vals = {m[k].second};
    int copies = g.range(1, 3);
    for (int i = 0; i < copies; ++i) vals.push_back(exact ? (float)(g.range(6, 24) / 8.0) : (float)(g.range(800, 3000) / 1000.0));
    std::sort(vals.begin(), vals.end());
    int mode = g.range(0, 3);
    if (mode == 0) std::reverse(vals.begin(), vals.end());                               // largest first
    else if (mode == 2) std::swap(vals.back(), vals[(vals.size() - 1) / 2]);               // largest in the middle (first when only two)
    else if (mode == 3) for (size_t i = vals.size(); i > 1; --i) std::swap(vals[i - 1], vals[g.range(0, (int)i - 1)]);
    m.erase(m.begin() + k);
    std::vector<Region> res;
    if (g.chance(1, 2)) {  // adjacent
      size_t pos = (size_t)g.range(0, (int)m.size());
      for (size_t i = 0; i <= m.size(); ++i) {
        if (i == pos) for (float v : vals) res.emplace_back(r, v);
        if (i < m.size()) res.push_back(m[i]);
      }
    } else {               // scattered, relative order kept
      size_t ia = 0, ib = 0;
      while (ia < m.size() || ib < vals.size()) {
        bool takeV = ib < vals.size() && (ia >= m.size() || g.chance(1, 2));
        if (takeV) res.emplace_back(r, vals[ib++]); else res.push_back(m[ia++]);
      }
    }
    m.swap(res);
  }
  return m;
}

// the same map listed in another order (reversed, rotated, sorted by position ascending / descending, shuffled)
static std::vector<Region> relisted(vh::Rng &g, std::vector<Region> m) {
  auto byPos = [](const Region &a, const Region &b) {
    return std::make_tuple(a.first.minX, a.first.minY, a.first.maxX, a.first.maxY) < std::make_tuple(b.first.minX, b.first.minY, b.first.maxX, b.first.maxY);
  };
  switch (g.range(0, 4)) {
    case 0: std::reverse(m.begin(), m.end()); break;
    case 1: std::rotate(m.begin(), m.begin() + 1, m.end()); break;
    case 2: std::stable_sort(m.begin(), m.end(), byPos); break;
    case 3: std::stable_sort(m.begin(), m.end(), byPos); std::reverse(m.begin(), m.end()); break;
    default: for (size_t i = m.size(); i > 1; --i) std::swap(m[i - 1], m[g.range(0, (int)i - 1)]); break;
  }
  return m;
}

// full-mantissa values
static double rndUnit(vh::Rng &g) { return (double)(g.next() >> 11) * 0x1p-53; }   // 53 random bits in [0,1)
static float rndUnitF(vh::Rng &g) { return (float)(g.next() >> 40) * 0x1p-24f; }   // 24 random bits in [0,1)

// Rounding stream: rows of one (arbitrary, mostly not a power of two) height, movable cells of 1-3 row heights or of an
// unrelated height, a few fixed obstructions; magnitude class 0: small, 1: up to 1e5, 2: widths up to 2^28 (above 2^24 the
// int -> float conversion of expandCellsByFactor is inexact; factors below 3 keep the product within the conversion guard), rows up to 2^29.
static Circuit genRounding(vh::Rng &g, int cls, bool floatPath) {
  int H = g.chance(1, 4) ? (int)pow2(g.range(0, 4)) : (int)g.range(1, 40);
  long long wmax = cls == 0 ? 50 : (cls == 1 ? 100000 : (1ll << 28));
  (void)floatPath;
  long long rmax = cls == 0 ? 400 : (cls == 1 ? 1000000 : (1ll << 29));
  std::vector<CellSpec> cs;
  int nm = g.range(1, 8);
  for (int i = 0; i < nm; ++i) {
    CellSpec c;
    c.w = (int)g.range(1, g.chance(1, 2) ? wmax : std::max<long long>(1, wmax / 64));
    if (cls == 2 && g.chance(1, 6)) c.w = (int)(wmax - g.range(0, 3));
    if (cls == 2 && g.chance(1, 6)) c.w = (1 << 24) + (int)g.range(-2, 3);  // around the last exactly convertible width
    c.h = g.chance(3, 4) ? H * (int)g.range(1, 3) : (int)g.range(1, 60);
    if (g.chance(1, 12)) c.w = 0;
    if (g.chance(1, 20)) c.h = 0;
    c.x = g.range(-5, 40); c.y = g.range(-5, 20); c.o = g.chance(1, 5) ? (CellOrientation)g.range(0, 7) : CellOrientation::N;
    c.fixed = false; c.obs = g.chance(1, 2);
    cs.push_back(c);
  }
  int nRows = g.range(1, 4);
  std::vector<Row> rows;
  int x0 = g.range(-8, 8), y0 = g.range(-8, 8);
  for (int r = 0; r < nRows; ++r) {
    int wdt = (int)g.range(1, g.chance(1, 2) ? rmax : std::max<long long>(1, rmax / 16));
    rows.emplace_back(x0, x0 + wdt, y0 + r * H, y0 + (r + 1) * H, g.chance(1, 2) ? CellOrientation::N : CellOrientation::FS);
  }
  int nf = g.range(0, 2);
  for (int i = 0; i < nf; ++i) {
    CellSpec c;
    c.fixed = true; c.obs = g.chance(3, 4);
    c.w = (int)g.range(0, std::max<long long>(2, rmax / 8)); c.h = g.range(0, 2 * H); c.o = (CellOrientation)g.range(0, 7);
    c.x = g.range(x0 - 2, x0 + (int)std::min<long long>(rmax, 1 << 20)); c.y = y0 + g.range(-1, nRows * H);
    cs.insert(cs.begin() + g.range(0, cs.size()), c);
  }
  return makeCircuit(cs, rows);
}

int main(int argc, char **argv) {
  vh::Args a = vh::parseArgs(argc, argv);
  vh::Out out(a.out);
  vh::installCrashHandler(&out);
  out.rule = "instance = (circuit, call with its arguments); non-trivial = the call changes at least one width "
             "(expansion calls) or at least one cell intersects a congested region (computeCellExpansion); distinct by canonical text. "
             "Exact stream: dyadic instances on which a replica of the floating-point operation sequence shows no rounding "
             "(counts *_exact), compared with the rational model; every instance goes through the invariant oracle. "
             "Float-exact stream (counters F_*): the same calls, dyadic or not, and the rounding stream r (full-mantissa targets, margins, "
             "caps, factors, penalties, congestion values; widths up to 2^28) are compared exactly (all widths, returned ratio, every "
             "expansion factor) with the binary64/binary32-exact model; F_*_inexact = at least one floating-point operation of the call rounds. "
             "Object-history stream: every observation of a history (mutators and observed calls interleaved on one Circuit object) "
             "is one more instance, compared in addition with the same call on a freshly rebuilt circuit of the same observable state. "
             "Congestion maps: one in three lists one of its rectangles 2-4 times with different values (largest first / last / middle, adjacent or "
             "scattered; counters cellexp_repeated_rectangle_*), and one call in three is repeated with the same map listed in another order "
             "(reversed, rotated, sorted by position, shuffled; cellexp_same_map_listed_in_another_order)";
  Runner r(out);
  // --replay of a recorded object history: only that history
  if (!a.replay.empty()) {
    std::string input = vhist::replayInput(a.replay);
    if (vhist::isHistoryText(input)) {
      vhist::History h;
      if (vhist::parseHistory(input, h)) {
        r.history("replay", h.init, vhist::recorded(h.steps));
        out.count("replayed_history");
      } else {
        out.notes.push_back("replay: the history in the input field of " + a.replay + " could not be parsed");
        out.count("replay_unparsed");
      }
      out.finish();
      return 0;
    }
  }
  long long n1 = a.thorough() ? 200000 : (a.search() ? 60000 : 20000);
  // 0a. corpus witnesses of the float path of expandCellsByFactor, replayed first (corpus/C18/byfactor-wide-width.txt,
  //     corpus/C18/factor-below-one.txt; Properties/C18.lean: legacy_byFactorF_wide_witness, byFactorF_below_one_witness);
  //     both go through the oracle and the float-exact model like every other case
  {
    // width 2^24+1 with factor exactly 1.0f: (float)16777217 = 16777216; before fixes/c18-byfactor-wide-cells.diff the
    // cell became narrower by 1
    std::vector<CellSpec> wide = {{16777217, 1, 0, 0, CellOrientation::N, false, true}};
    Circuit c2 = makeCircuit(wide, {Row(0, 1 << 26, 0, 1, CellOrientation::N)});
    r.header("w3", c2);
    Circuit t2 = c2;
    r.byFactor("w3", c2, {1.0f}, 1.0, 0.0, &t2);
    out.count(t2.cellWidth()[0] == 16777217 ? "witness_width_2^24+1_factor_1_keeps_its_width" : "witness_width_2^24+1_factor_1_NARROWER");
    // factor 0.999f is accepted (threshold `e < 0.999f`) and makes a 1000-wide cell 999 wide: outside the property's
    // domain (factor vectors >= 1), so no oracle demand
    std::vector<CellSpec> one = {{1000, 1, 0, 0, CellOrientation::N, false, true}};
    Circuit c1 = makeCircuit(one, {Row(0, 4000, 0, 1, CellOrientation::N)});
    r.header("w2", c1);
    Circuit t1 = c1;
    r.byFactor("w2", c1, {0.999f}, 1.0, 0.0, &t1);
    out.count(t1.cellWidth()[0] == 999 ? "witness_factor_0.999f_accepted_1000_becomes_999" : "witness_factor_0.999f_UNEXPECTED_RESULT");
  }
  // 0. fixed witnesses of the cap overshoot of the unrepaired expandCellsByFactor (truncated expandedArea)
  {
    std::vector<CellSpec> one = {{10, 1, 0, 0, CellOrientation::N, false, true}};
    Circuit c1 = makeCircuit(one, {Row(0, 16, 0, 1, CellOrientation::N)});
    r.header("w0", c1);
    r.byFactor("w0", c1, {1.1875f}, 85.0 / 128.0, 0.0);
    std::vector<CellSpec> many(16, CellSpec{10, 1, 0, 0, CellOrientation::N, false, true});
    Circuit c2 = makeCircuit(many, {Row(0, 338, 0, 1, CellOrientation::N)});
    r.header("w1", c2);
    r.byFactor("w1", c2, std::vector<float>(16, 1.1875f), 0.5, 0.0);
    out.count("fixed_witnesses", 2);
  }
  // 1. dyadic instances (exact correspondence + oracle)
  for (long long i = 0; i < n1; ++i) {
    vh::Rng g = vh::Rng::forCase(a.seed, i);
    int kind = i % 4;
    std::string id = std::string("d") + std::to_string(i);
    ExactInst in = genExact(g, kind == 1 || kind == 2);
    r.emitF = (i % 8 < 2);  // a quarter of the dyadic cases (both kinds) also go to the float-exact model
    r.header(id, in.c);
    r.rowArea(id, in.c, in.margin);
    if (kind == 0 || kind == 3) {
      // target = t / 2^c with (q/q') | t, so that target / density is dyadic
      int base = in.q / in.qp;
      static const std::vector<int> mult = {1, 1, 2, 3, 4, 5, 6, 7};
      long long t = (long long)base * g.pick(mult);
      int cexp = 0;
      while (pow2(cexp) <= t) ++cexp;
      cexp += g.range(0, 2);
      double target = (double)t / (double)pow2(cexp);
      if (g.chance(1, 6)) target = g.range(1, 31) / 32.0;
      static const std::vector<double> caps = {1, 1, 1, 0.5, 0.25, 0.125, 2, 0.0625, 0};
      r.toDensity(id, in.c, target, in.margin, g.pick(caps));
    } else {
      // factors 1 + k/16; maxDensity = (A + rho (E - A)) / R with rho dyadic, or something larger
      int n = in.c.nbCells();
      std::vector<float> f(n);
      double E = 0;
      for (int k = 0; k < n; ++k) {
        f[k] = 1.0f + (float)g.range(0, g.chance(1, 3) ? 0 : 24) / 16.0f;
        if (!in.c.cellIsFixed()[k]) E += (double)f[k] * in.c.area(k);
      }
      double maxD;
      int m = g.range(0, 5);
      static const std::vector<double> rhos = {0.5, 0.25, 0.75, 0.625, 0.375, 0.125, 0.875, 0.5625};
      if (m <= 2) maxD = ((double)in.A + g.pick(rhos) * (E - (double)in.A)) / (double)in.R;
      else if (m == 3) maxD = 1.0;
      else if (m == 4) maxD = g.range(1, 32) / 32.0;
      else maxD = E / (double)in.R;
      if (g.chance(1, 40)) f.pop_back();
      if (g.chance(1, 40) && !f.empty()) f[g.range(0, f.size() - 1)] = 0.5f;
      r.byFactor(id, in.c, f, maxD, in.margin);
    }
    if (i % 2 == 0) {
      static const std::vector<float> fps = {0.0f, 0.0f, 0.25f, 0.5f, 1.0f, -0.5f}, pfs = {1.0f, 1.0f, 1.5f, 2.0f, 1.25f, 0.5f};
      std::vector<Region> m = genRegions(g, in.c, true);
      float fp = g.pick(fps), pf = g.pick(pfs);
      r.cellExpansion(id, in.c, m, fp, pf);
      if (m.size() >= 2 && g.chance(1, 3)) { out.count("cellexp_same_map_listed_in_another_order"); r.cellExpansion(id, in.c, relisted(g, m), fp, pf); }
    }
  }
  // 2. arbitrary instances (oracle; correspondence whenever the replica happens to be exact)
  long long n2 = a.thorough() ? 300000 : (a.search() ? 150000 : 30000);
  for (long long i = 0; i < n2; ++i) {
    vh::Rng g = vh::Rng::forCase(a.seed, 2000000000ll + i);
    std::string id = std::string("a") + std::to_string(i);
    vc::GenOpts o;
    o.nets = (i % 16 == 0);
    o.scale = (i % 10 == 9) ? 1000 : 1;
    o.maxCells = 12;
    Circuit c = vc::genCircuit(g, o);
    r.emitF = true;
    if (g.chance(1, 4) && c.nbCells() > 0) {  // zero-size movable cells
      std::vector<int> w = c.cellWidth(), h = c.cellHeight();
      int k = g.range(0, c.nbCells() - 1);
      if (g.chance(1, 2)) w[k] = 0; else h[k] = 0;
      c.setCellWidth(w); c.setCellHeight(h);
    }
    if (g.chance(1, 5) && c.nbCells() > 0) {  // a dense circuit: scale the widths up
      std::vector<int> w = c.cellWidth();
      int mul = g.range(2, 6);
      for (int k = 0; k < c.nbCells(); ++k) if (!c.cellIsFixed()[k]) w[k] *= mul;
      c.setCellWidth(w);
    }
    r.header(id, c);
    double margin = g.chance(1, 3) ? 0.0 : (g.chance(1, 2) ? g.range(0, 40) / 10.0 : g.range(0, 30) / 7.0);
    r.rowArea(id, c, margin);
    int kind = i % 3;
    if (kind == 0) {
      double target = g.range(1, 999) / 1000.0;
      double cap = g.chance(1, 2) ? 1.0 : g.range(0, 26) / 13.0;
      r.toDensity(id, c, target, margin, cap);
    } else if (kind == 1) {
      int n = c.nbCells();
      std::vector<float> f(n);
      for (int k = 0; k < n; ++k) f[k] = g.chance(1, 4) ? 1.0f : 1.0f + (float)(g.range(0, 3000) / 1000.0);
      if (g.chance(1, 30) && n > 0) f[g.range(0, n - 1)] = g.chance(1, 2) ? 0.9995f : 0.9f;
      if (g.chance(1, 40)) f.push_back(1.0f);
      double maxD = g.chance(1, 3) ? 1.0 : g.range(1, 1200) / 1000.0;
      r.byFactor(id, c, f, maxD, margin);
    } else {
      float fp = g.chance(1, 2) ? 0.0f : (float)(g.range(-2, 20) / 10.0), pf = g.chance(1, 2) ? 1.0f : (float)(g.range(8, 30) / 10.0);
      std::vector<Region> m = genRegions(g, c, false);
      r.cellExpansion(id, c, m, fp, pf);
      if (m.size() >= 2 && g.chance(1, 3)) { out.count("cellexp_same_map_listed_in_another_order"); r.cellExpansion(id, c, relisted(g, m), fp, pf); }
    }
  }
  // 4. rounding stream: full-mantissa arguments, compared exactly with the binary64/binary32-exact model (and oracle)
  long long n4 = a.thorough() ? 200000 : (a.search() ? 60000 : 12000);
  for (long long i = 0; i < n4; ++i) {
    vh::Rng g = vh::Rng::forCase(a.seed, 4000000000ll + i);
    std::string id = std::string("r") + std::to_string(i);
    int kind = i % 3, cls = (int)((i / 3) % 3);
    Circuit c = genRounding(g, cls, kind == 1);
    r.emitF = true;
    r.header(id, c);
    double margin = g.chance(1, 4) ? 0.0 : rndUnit(g) * (double)g.range(1, 4);
    if (cls == 2 && g.chance(1, 2)) margin = rndUnit(g) * 1e5;
    r.rowArea(id, c, margin);
    out.count("rounding_stream_class_" + std::to_string(cls));
    if (kind == 0) {
      double target = rndUnit(g);
      if (g.chance(1, 3)) {  // just above / below the current density
        long long A = movableArea(c), R = c.computeRowPlacementArea(margin);
        if (A > 0 && R > 0) target = (double)A / (double)R * (1.0 + (rndUnit(g) - 0.25) * (g.chance(1, 2) ? 1e-15 : 4.0));
      }
      if (!(target > 0)) target = 0.5;
      double cap = g.chance(1, 3) ? 1.0 : rndUnit(g) * 1.99;
      r.toDensity(id, c, target, margin, cap);
    } else if (kind == 1) {
      int n = c.nbCells();
      std::vector<float> f(n);
      for (int k = 0; k < n; ++k) f[k] = g.chance(1, 5) ? 1.0f : 1.0f + rndUnitF(g) * (g.chance(1, 2) ? 1.99f : 0.01f);
      if (g.chance(1, 15) && n > 0) f[g.range(0, n - 1)] = 0.999f + rndUnitF(g) * 0.001f;  // accepted although below 1
      if (g.chance(1, 40) && n > 0) f[g.range(0, n - 1)] = 0.999f - rndUnitF(g) * 0.001f;  // mostly rejected
      if (g.chance(1, 60)) f.push_back(1.0f);
      double maxD = g.chance(1, 4) ? 1.0 : rndUnit(g) * 1.2;
      r.byFactor(id, c, f, maxD, margin);
    } else {
      float fp = g.chance(1, 3) ? 0.0f : rndUnitF(g) * 2.0f, pf = g.chance(1, 3) ? 1.0f : 1.0f + rndUnitF(g) * 2.0f;
      if (g.chance(1, 30)) fp = -rndUnitF(g);
      if (g.chance(1, 30)) pf = rndUnitF(g);
      std::vector<Region> m = genRegions(g, c, false);
      for (auto &rc : m) if (!g.chance(1, 6)) rc.second = g.chance(1, 8) ? 1.0f + rndUnitF(g) * 0x1p-20f : rndUnitF(g) * 4.0f;
      r.cellExpansion(id, c, m, fp, pf);
      if (m.size() >= 2 && g.chance(1, 3)) { out.count("cellexp_same_map_listed_in_another_order"); r.cellExpansion(id, c, relisted(g, m), fp, pf); }
    }
  }
  // 3. object histories: mutators and observations interleaved on one Circuit object
  long long nh = a.thorough() ? 80000 : (a.search() ? 30000 : 10000);
  for (long long i = 0; i < nh; ++i) {
    vh::Rng g = vh::Rng::forCase(a.seed, 3000000000ll + i);
    vhist::State init;
    auto margin = std::make_shared<double>(0.0);
    if (i % 2 == 0) {
      ExactInst in = genExact(g, i % 4 == 0);
      init = vhist::snapshot(in.c);
      *margin = in.margin;
      out.count("hist_init_dyadic");
    } else {
      vc::GenOpts o;
      o.nets = (i % 16 == 1);
      o.maxCells = 12;
      init = vhist::snapshot(vc::genCircuit(g, o));
      static const std::vector<double> margins = {0, 0, 0.5, 1, 0.25, 1.5, 0.3, 1.0 / 7};
      *margin = g.pick(margins);
      out.count("hist_init_common_generator");
    }
    vhist::MutProfile prof;
    prof.maxWidth = 12;
    prof.invertedRows = false;
    auto genObs = [margin](vh::Rng &gg, const Circuit &c) {
      static const std::vector<double> margins = {0, 0.5, 1, 0.25, 1.5, 0.75};
      double mg = gg.chance(1, 6) ? gg.pick(margins) : *margin;  // mostly the same margin within a history
      int m = gg.range(0, 19);
      std::ostringstream os;
      if (m < 3) {
        os << "obs rowarea " << dy(mg);
      } else if (m < 10) {
        long long A = movableArea(c);
        long double R = availableArea(c, mg).hi;
        double target = gg.range(1, 999) / 1000.0;
        static const std::vector<double> fs = {1.25, 1.5, 2, 1.125, 3, 1.75};
        if (A > 0 && R > 0 && gg.chance(1, 2)) {
          double t = gg.pick(fs) * (double)A / (double)R;
          if (t > 0 && t < 1) target = t;
        } else if (gg.chance(1, 3)) target = gg.range(1, 31) / 32.0;
        static const std::vector<double> caps = {1, 1, 1, 0.5, 0.25, 0.125, 2, 0.0625, 0};
        os << "obs todensity " << dy(target) << " " << dy(mg) << " " << dy(gg.pick(caps));
      } else if (m < 16) {
        double maxD = gg.chance(1, 3) ? 1.0 : (gg.chance(1, 2) ? gg.range(1, 32) / 32.0 : gg.range(1, 1200) / 1000.0);
        os << "obs byfactor " << dy(maxD) << " " << dy(mg);
        bool sixteenth = gg.chance(1, 2);
        int n = c.nbCells();
        for (int k = 0; k < n; ++k) {
          float f = gg.chance(1, 4) ? 1.0f : (sixteenth ? 1.0f + (float)gg.range(0, 24) / 16.0f : 1.0f + (float)(gg.range(0, 3000) / 1000.0));
          os << " " << dy(f);
        }
        if (gg.chance(1, 40)) os << " " << dy(1.0);  // wrong length: must throw and leave the object alone
      } else {
        bool exact = gg.chance(1, 2);
        static const std::vector<float> fps = {0.0f, 0.0f, 0.25f, 0.5f, 1.0f, -0.5f}, pfs = {1.0f, 1.0f, 1.5f, 2.0f, 1.25f, 0.5f};
        os << "obs cellexp " << dy(gg.pick(fps)) << " " << dy(gg.pick(pfs));
        if (c.nbRows() > 0)
          for (auto &rc : genRegions(gg, c, exact))
            os << " " << rc.first.minX << " " << rc.first.maxX << " " << rc.first.minY << " " << rc.first.maxY << " " << dy(rc.second);
      }
      return os.str();
    };
    int rounds = g.range(3, 8);
    auto plan = std::make_shared<vhist::Plan>(g, prof, genObs, rounds);
    r.history("h" + std::to_string(i), init, [plan](const Circuit &c, vhist::Step &st) { return plan->next(c, st); });
  }
  out.finish();
  return 0;
}
