// C07: instances of `Transportation1d pb(u, v, s, d); pb.balanceDemand(); pb.assign();` as
// DensityLegalizer::improveXTransport / improveYTransport build them (src/place_global/density_legalizer.cpp),
// for the correspondence with the *checked* Lean model Model/Transp1dChecked.lean
// (`ColoVerif.Transp1d.balanceThenAssignC`).
//
//   gen(g, false)  the C07 domain: one line of m = 1..12 bins of a placement area with 1 <= width <= 2^23 inside
//                  |coord| <= 2^22; sink j is round(factor * centre_j) with `float factor = 1e8 / width` computed
//                  in float like the C++; n = 0..40 sources at round(factor * target), |target| < 2^29 (hence
//                  |u|, |v| < 2^56); supplies are ints in [0, 2^31); demands are long long >= 0.
//   gen(g, true)   the same shapes with position magnitudes 2^58 .. 2^62.9 and occasionally huge supplies /
//                  demands (up to 2^62): signed `long long` overflow is expected in a good part of the cases.
//
// All randomness comes from the vh::Rng passed in; the generator's own arithmetic is done in __int128.
#pragma once
#include <algorithm>
#include <cmath>
#include <ostream>
#include <sstream>
#include <stdexcept>
#include <string>
#include <vector>

#include "common/harness.hpp"
// place_global/transportation_1d.hpp has no include guard: the including harness includes it (once) before this header

namespace c07t1d {

struct Inst { std::vector<long long> u, v, s, d; };

typedef __int128 i128;

inline long long sat(i128 x, long long lim) {
  if (x > (i128)lim) return lim;
  if (x < -(i128)lim) return -lim;
  return (long long)x;
}

// uniform in [lo, hi] for bounds whose difference may not fit a long long
inline long long wideRange(vh::Rng &g, i128 lo, i128 hi) {
  if (hi <= lo) return (long long)lo;
  unsigned __int128 span = (unsigned __int128)(hi - lo) + 1;
  unsigned __int128 r = ((unsigned __int128)g.next() << 64) | g.next();
  return (long long)(lo + (i128)(r % span));
}

// ---- supplies -------------------------------------------------------------------------------------------------
// 0 all unit, 1 small, 2 small with zeros, 3 large (up to 2^31 - 1), 4 per-source mix, 5 all zero
inline void genSupplies(vh::Rng &g, Inst &t, int n, bool wild) {
  int sm = g.chance(1, 30) ? 5 : (int)g.range(0, 4);
  bool hugeS = wild && g.chance(1, 3);
  int hugeE = (int)g.range(56, 62);
  for (int i = 0; i < n; ++i) {
    int k = sm == 4 ? (int)g.range(0, 3) : sm;
    long long a;
    switch (k) {
      case 0: a = 1; break;
      case 1: a = g.range(1, 4); break;
      case 2: a = g.range(0, 3); break;
      case 3: a = g.chance(1, 4) ? (1ll << 31) - 1 - g.range(0, 2) : g.range(1, (1ll << 31) - 1); break;
      default: a = 0; break;
    }
    if (hugeS && g.chance(1, 2)) a = g.range(0, 1ll << hugeE);
    t.s.push_back(a);
  }
  // the boundary of `long long`: a total supply of exactly 2^63 - 1 (fits) or 2^63 (the last addition overflows)
  if (wild && n > 0 && g.chance(1, 20)) {
    i128 rest = 0;
    for (int i = 0; i + 1 < n; ++i) rest += t.s[i];
    i128 last = (((i128)1 << 63) - 1 + g.range(0, 1)) - rest;
    if (last >= 0 && last < ((i128)1 << 63)) t.s[n - 1] = (long long)last;
  }
}

// ---- demands --------------------------------------------------------------------------------------------------
// 0 exact partition of the total supply, 1 with slack, 2 too small (balanceDemand adds), 3 partition/slack with
// some sinks zeroed (usually too small as well), 4 all zero
inline void genDemands(vh::Rng &g, Inst &t, int m, bool wild) {
  i128 total = 0;
  for (long long a : t.s) total += a;
  const long long cap = wild ? (1ll << 62) : (1ll << 46);
  int dm = g.chance(1, 25) ? 4 : (int)g.range(0, 3);
  i128 budget = total;
  if (dm == 1 || (dm == 3 && g.chance(1, 2))) {
    long long slack;
    switch ((int)g.range(0, 3)) {
      case 0: slack = g.range(1, 3); break;
      case 1: slack = g.range(1, (long long)std::max<i128>(1, std::min<i128>(total, cap))); break;
      case 2: slack = g.range(1, 1ll << 20); break;
      default: slack = g.range(1, 1ll << 46); break;  // bin capacities up to 2^23 x 2^23
    }
    budget = total + slack;
  } else if (dm == 2) {
    switch ((int)g.range(0, 2)) {
      case 0: budget = total > 0 ? total - 1 - (i128)wideRange(g, 0, std::min<i128>(total - 1, 3)) : 0; break;
      case 1: budget = (i128)wideRange(g, 0, total); break;
      default: budget = total / 2; break;
    }
    if (budget < 0) budget = 0;
  }
  if (budget > (i128)cap * 2 - 1) budget = (i128)cap * 2 - 1;  // keeps every single demand inside long long
  i128 left = budget;
  for (int j = 0; j < m; ++j) {
    i128 c;
    if (dm == 4) c = 0;
    else if (j + 1 == m) c = left;
    else if (g.chance(1, 4)) c = left / (m - j);
    else c = (i128)wideRange(g, 0, left);
    left -= c;
    t.d.push_back((long long)c);
  }
  if (dm == 3)
    for (int j = 0; j < m; ++j)
      if (g.chance(1, 3)) t.d[j] = 0;
  if (wild && g.chance(1, 5)) {  // huge capacities: totalDemand / the prefix sums D may overflow
    int e = (int)g.range(56, 62);
    for (int j = 0; j < m; ++j)
      if (g.chance(1, 2)) t.d[j] = g.range(0, 1ll << e);
  }
  std::rotate(t.d.begin(), t.d.begin() + (m ? (int)g.range(0, m - 1) : 0), t.d.end());
}

// ---- sources: positions relative to the sinks --------------------------------------------------------------------
// shape of the targets; `pos(kind)` draws one target
//  0 inside the area, 1 near the area, 2 all far left, 3 all far right, 4 alternating far left / far right,
//  5 clustered in one gap between two sinks, 6 exactly on sink positions, 7 few distinct values (duplicates),
//  8 per-source mix of 0..6
enum { kShapes = 9 };

// ---- in-domain ------------------------------------------------------------------------------------------------
inline Inst genDomain(vh::Rng &g) {
  Inst t;
  int m = (int)g.range(1, 12), n = g.chance(1, 20) ? 0 : (int)g.range(0, 40);
  // placement area [minX, minX + width] inside |coord| <= 2^22
  const long long B = 1ll << 22;
  long long width;
  switch ((int)g.range(0, 3)) {
    case 0: width = g.range(1, 1ll << 23); break;
    case 1: width = 1ll << g.range(0, 23); break;
    case 2: width = g.range(1, 64); break;
    default: width = (1ll << 23) - g.range(0, 3); break;
  }
  long long minX = g.chance(1, 6) ? -B : (g.chance(1, 5) ? B - width : g.range(-B, B - width));
  if (g.chance(1, 8) && width <= B) minX = 0;
  long long maxX = minX + width;
  float factor = 1.0e8 / width;  // as in improveXTransport: double division, narrowed to float
  // bin limits: an even split of the area (like DensityGrid), bin centre = middle of the bin, as a float
  std::vector<float> centre;
  for (int j = 0; j < m; ++j) {
    long long lo = minX + (long long)((i128)width * j / m), hi = minX + (long long)((i128)width * (j + 1) / m);
    centre.push_back(0.5f * ((float)lo + (float)hi));
  }
  for (int j = 0; j < m; ++j) t.v.push_back((long long)std::round(factor * centre[j]));
  // targets
  const long long FAR = (1ll << 29) - 64;  // |target| < 2^29 (and still so after rounding to float)
  int shape = (int)g.range(0, kShapes - 1);
  int gap = m >= 2 ? (int)g.range(0, m - 2) : 0;
  std::vector<long long> few;
  for (int k = 0, kk = (int)g.range(1, 3); k < kk; ++k) few.push_back(g.range(minX - width / 4, maxX + width / 4));
  for (int i = 0; i < n; ++i) {
    int k = shape == 8 ? (int)g.range(0, 6) : shape;
    if (k == 4) k = (i & 1) ? 3 : 2;
    if (k == 6) { t.u.push_back(t.v[(size_t)g.range(0, m - 1)]); continue; }
    double x;
    switch (k) {
      case 0: x = (double)g.range(minX, maxX); break;
      case 1: x = (double)g.range(minX - width / 4 - 1, maxX + width / 4 + 1); break;
      case 2: x = (double)(g.chance(1, 3) ? -FAR + g.range(0, 1000) : g.range(-FAR, minX)); break;
      case 3: x = (double)(g.chance(1, 3) ? FAR - g.range(0, 1000) : g.range(maxX, FAR)); break;
      case 5: {
        float a = centre[gap], b = centre[std::min(gap + 1, m - 1)];
        x = (double)a + ((double)b - (double)a) * (double)g.range(0, 1024) / 1024.0;
        break;
      }
      default: x = (double)g.pick(few); break;
    }
    if (k <= 3 && g.chance(1, 2)) x += (double)g.range(0, 1023) / 1024.0;  // cell targets are floats
    if (x > (double)FAR) x = (double)FAR;
    if (x < -(double)FAR) x = -(double)FAR;
    t.u.push_back((long long)std::round(factor * (float)x));
  }
  genSupplies(g, t, n, false);
  genDemands(g, t, m, false);
  return t;
}

// ---- wild -----------------------------------------------------------------------------------------------------
inline Inst genWild(vh::Rng &g) {
  Inst t;
  int m = g.chance(1, 60) ? 0 : (int)g.range(1, 12), n = g.chance(1, 20) ? 0 : (int)g.range(0, 40);
  // magnitude 2^58 .. 2^62.9: log2 uniform in [58, 62.9] (2 cases in 3) or in [61.5, 62.9] (where `long long`
  // differences of positions start to overflow)
  double lg = g.chance(2, 3) ? 58.0 + (double)g.range(0, 4900) / 1000.0 : 61.5 + (double)g.range(0, 1400) / 1000.0;
  // 1 case in 4: sinks around the origin (within M/8 or much closer), sources mostly at the far ends, M in
  // 2^61 .. 2^62.9 and no huge supplies: every single cost fits but the sums of costs in delta() / getSlope() /
  // pushOnce() may not
  bool sums = g.chance(1, 4);
  bool wideSums = sums && g.chance(1, 2);  // variant: sinks spanning [-M, M], M in 2^61 .. 2^62
  if (sums) lg = 61.0 + (double)g.range(0, wideSums ? 1000 : 1900) / 1000.0;
  long long M = (long long)std::exp2(lg);
  // the line of sinks [lo, hi]:  0 spans [-M, M], 1 random sub-interval, 2 narrow and far right, 3 narrow and far
  // left, 4 near the origin (sources far away), 5 one-sided [0, M]
  i128 lo, hi;
  switch (wideSums ? 0 : sums ? (g.chance(1, 2) ? 4 : 6) : (int)std::max(0ll, g.range(-3, 5))) {
    case 6: lo = -(i128)(M / 8); hi = M / 8; break;
    case 0: lo = -(i128)M; hi = M; break;
    case 1: lo = wideRange(g, -(i128)M, M); hi = wideRange(g, lo, M); break;
    case 2: hi = M; lo = hi - g.range(0, 1ll << (int)g.range(0, 40)); break;
    case 3: lo = -(i128)M; hi = lo + g.range(0, 1ll << (int)g.range(0, 40)); break;
    case 4: lo = -g.range(0, 1ll << (int)g.range(0, 40)); hi = g.range(0, 1ll << (int)g.range(0, 40)); break;
    default: lo = 0; hi = M; break;
  }
  i128 w = hi - lo;
  bool even = g.chance(1, 2);
  std::vector<i128> vs;
  for (int j = 0; j < m; ++j) vs.push_back(even ? lo + w * (2 * j + 1) / (2 * m) : (i128)wideRange(g, lo, hi));
  std::sort(vs.begin(), vs.end());
  for (i128 x : vs) t.v.push_back((long long)x);
  int shape = (int)g.range(0, kShapes - 1);
  if (sums && g.chance(3, 4)) shape = g.chance(1, 2) ? 4 : (g.chance(1, 2) ? 8 : (int)g.range(2, 3));
  int gap = m >= 2 ? (int)g.range(0, m - 2) : 0;
  std::vector<long long> few;
  for (int k = 0, kk = (int)g.range(1, 3); k < kk; ++k) few.push_back(sat((i128)wideRange(g, lo - w / 4, hi + w / 4), M));
  for (int i = 0; i < n; ++i) {
    int k = shape == 8 ? (int)g.range(0, 6) : shape;
    if (k == 4) k = (i & 1) ? 3 : 2;
    if (m == 0 && (k == 5 || k == 6)) k = 0;
    i128 x;
    switch (k) {
      case 0: x = wideRange(g, lo, hi); break;
      case 1: x = wideRange(g, lo - w / 4 - 1, hi + w / 4 + 1); break;
      case 2: x = g.chance(1, 3) ? -(i128)M + g.range(0, 1000) : (i128)wideRange(g, -(i128)M, lo); break;
      case 3: x = g.chance(1, 3) ? (i128)M - g.range(0, 1000) : (i128)wideRange(g, hi, M); break;
      case 5: x = wideRange(g, vs[gap], vs[std::min(gap + 1, m - 1)]); break;
      case 6: x = vs[(size_t)g.range(0, m - 1)]; break;
      default: x = g.pick(few); break;
    }
    t.u.push_back(sat(x, M));
  }
  genSupplies(g, t, n, !sums);
  genDemands(g, t, m, true);
  // rarely: a negative supply or demand (check() throws unless balanceDemand repaired it), or LLONG_MIN-ish positions
  if (g.chance(1, 25) && n > 0) t.s[(size_t)g.range(0, n - 1)] = -g.range(1, 5);
  if (g.chance(1, 25) && m > 0) t.d[(size_t)g.range(0, m - 1)] = -g.range(1, 5);
  if (g.chance(1, 40) && n > 0) t.u[(size_t)g.range(0, n - 1)] = g.chance(1, 2) ? (long long)(-9223372036854775807ll - 1) : 9223372036854775807ll;
  // u - v at the boundary: exactly LLONG_MIN (the subtraction fits, std::abs does not), LLONG_MIN + 1, LLONG_MAX
  if (g.chance(1, 25) && n > 0 && m > 0) {
    long long vj = t.v[(size_t)g.range(0, m - 1)];
    i128 x = g.chance(1, 2) ? (i128)vj - ((i128)1 << 63) + g.range(0, 1) : (i128)vj + (((i128)1 << 63) - 1) + g.range(0, 1);
    if (x >= -((i128)1 << 63) && x < ((i128)1 << 63)) t.u[(size_t)g.range(0, n - 1)] = (long long)x;
  }
  // out of any specification: huge negative supplies / demands (balanceDemand computes on them before check() throws)
  if (g.chance(1, 25)) {
    int e = g.chance(1, 2) ? (int)g.range(59, 62) : (int)g.range(40, 62);
    for (int i = 0; i < n; ++i) if (g.chance(1, 4)) t.s[i] = -g.range(0, 1ll << e);
    for (int j = 0; j < m; ++j) if (g.chance(1, 3)) t.d[j] = -g.range(0, 1ll << e);
  }
  return t;
}

inline Inst gen(vh::Rng &g, bool wild) { return wild ? genWild(g) : genDomain(g); }

inline std::string ops(const Inst &t) {
  std::ostringstream os;
  os << "t1dc " << t.u.size() << " " << t.v.size();
  for (auto x : t.u) os << " " << x;
  for (auto x : t.v) os << " " << x;
  for (auto x : t.s) os << " " << x;
  for (auto x : t.d) os << " " << x;
  os << "\n";
  return os.str();
}

// the call sequence of improveXTransport / improveYTransport on the real code
inline void impl(const Inst &t, std::ostream &os) {
  try {
    Transportation1d pb(t.u, t.v, t.s, t.d);
    pb.balanceDemand();
    std::vector<int> a = pb.assign();
    os << "t1dc";
    for (int k : a) os << " " << k;
    os << "\n";
  } catch (const std::runtime_error &) {
    os << "t1dc throw:runtime_error\n";
  }
}

}  // namespace c07t1d
