import ColoVerif.Model.BusyIO
import ColoVerif.Gen.Api
import ColoVerif.Gen.Params
import Driver.Common
/-
Driver for C19: evaluates the translated check predicates, constructor event lists, default table
and setter skeletons on the op lines of harness/h_C19.cpp.

  case <k>                    -> case <k>
  ctor <Record> <effort>      -> ctor <Record> ok|throw:runtime_error|sanitizer|abort
  defaults <effort>           -> defaults <effort> <mant exp>*      (row of the default table)
  params <mant exp>*          -> (nothing)   current parameter set, fields in `Gen.Params.fieldNames` order
  check <Record>              -> check <Record> ok | check <Record> throw:runtime_error <message>
  place <call>                -> place <call> accepted | place <call> rejected throw:runtime_error <message>
  placeeffort <call> <effort> -> placeeffort <call> <outcome of ColoquinteParameters(effort)>
  set <name> <nc> <nn> …      -> set <name> <outcome>   (on a circuit that is not in use)
-/
open ColoVerif ColoVerif.Busy ColoVerif.BusyIO ColoVerif.ApiIR ColoVerif.Gen Driver

structure DS where
  p : Params.ColoquinteParameters := Params.ColoquinteParameters.ofList []

def ctorOutcome (rec : String) (e : Int) : String :=
  match Params.ctorIR.find? (fun c => c.1 == rec) with
  | some c => showCtorOut (runCtor e c.2)
  | none => "unknown-record"

def step (s : DS) : List String → DS × List String
  | ["case", k] => (s, ["case " ++ k])
  | ["ctor", rec, e] => (s, ["ctor " ++ rec ++ " " ++ ctorOutcome rec (BusyIO.int! e)])
  | ["defaults", e] =>
    match Params.defaults.find? (fun r => r.1 == BusyIO.int! e) with
    | some r => (s, ["defaults " ++ e ++ " " ++ " ".intercalate (r.2.toList.map showExact)])
    | none => (s, ["defaults " ++ e ++ " none"])
  | "params" :: rest => ({ p := Params.ColoquinteParameters.ofList (pairsToRats rest) }, [])
  | ["check", rec] =>
    match Params.checkItemsOf s.p rec with
    | some items =>
      match firstFailure items with
      | none => (s, ["check " ++ rec ++ " ok"])
      | some m => (s, ["check " ++ rec ++ " throw:runtime_error " ++ m])
    | none => (s, ["check " ++ rec ++ " unknown-record"])
  | ["place", call] =>
    match firstFailure (Params.ColoquinteParameters.checkItems s.p) with
    | none => (s, ["place " ++ call ++ " accepted"])
    | some m => (s, ["place " ++ call ++ " rejected throw:runtime_error " ++ m])
  | ["placeeffort", call, e] => (s, ["placeeffort " ++ call ++ " " ++ ctorOutcome "ColoquinteParameters" (BusyIO.int! e)])
  | "set" :: rest =>
    match parseSetter rest with
    | some sc => (s, [setterLine sc.name ⟨false, []⟩ (runSetter Api.setters sc ⟨false, []⟩)])
    | none => (s, ["bad-set"])
  | [] => (s, [])
  | ws => (s, ["bad-op " ++ " ".intercalate ws])

def main : IO Unit := Driver.run step {}
