import ColoVerif.Model.BusyIO
import ColoVerif.Gen.Api
import ColoVerif.Gen.Params
import ColoVerif.Gen.ApiExpansion
import Driver.Common
/-
Driver for C19: evaluates the translated check predicates, constructor event lists, default table
and setter skeletons on the op lines of harness/h_C19.cpp.

  case <k>                    -> case <k>
  ctor <Record> <effort>      -> ctor <Record> ok|throw:runtime_error|sanitizer|abort
  defaults <effort>           -> defaults <effort> <mant exp>*      (row of the default table)
  params <mant exp>*          -> (nothing)   current parameter set, fields in `Gen.Params.fieldNames` order
  check <Record>              -> check <Record> ok | check <Record> throw:runtime_error <message>
  place <call>                -> place <call> accepted | place <call> rejected throw:runtime_error <message>
  placeeffort <call> <effort> -> placeeffort <call> <outcome of ColoquinteParameters(effort)>
  set <name> <nc> <nn> …      -> set <name> <outcome>   (on a circuit that is not in use)
  xset <name> <nc> <nn> <xarg>* -> xset <name> <outcome>  (expansion API / Disruption methods / computeCellExpansion,
                                 tables of Gen.ApiExpansion)   xarg ::= v <len> 0 | v <len> 1 <int>*len | i <int>
                                 | f <mant> <exp> (a binary32 scalar m·2^e) | vf <len> (<mant> <exp>)*len
  newcircuit <n>              -> newcircuit ok | newcircuit throw:length_error     (Circuit(int), table `constructors`)
-/
open ColoVerif ColoVerif.Busy ColoVerif.BusyIO ColoVerif.ApiIR ColoVerif.Gen Driver

structure DS where
  p : Params.ColoquinteParameters := Params.ColoquinteParameters.ofList []

def ctorOutcome (rec : String) (e : Int) : String :=
  match Params.ctorIR.find? (fun c => c.1 == rec) with
  | some c => showCtorOut (runCtor e c.2)
  | none => "unknown-record"

/-- the binary32 value `m · 2^e` as the integer of the tables (`x · 2^floatScale`) -/
def scaleF (m e : Int) : Int := m * 2 ^ (e + (ApiExpansion.floatScale : Int)).toNat

def scaledPairs : Nat → List String → List Int
  | 0, _ => []
  | n + 1, m :: e :: rest => scaleF (BusyIO.int! m) (BusyIO.int! e) :: scaledPairs n rest
  | _, _ => []

def parseXArgs : Nat → List String → List Arg
  | 0, _ => []
  | fuel + 1, "v" :: len :: "0" :: rest => ⟨BusyIO.int! len, [], 0⟩ :: parseXArgs fuel rest
  | fuel + 1, "v" :: len :: "1" :: rest =>
    ⟨BusyIO.int! len, (rest.take (BusyIO.int! len).toNat).map BusyIO.int!, 0⟩ :: parseXArgs fuel (rest.drop (BusyIO.int! len).toNat)
  | fuel + 1, "i" :: v :: rest => ⟨0, [], BusyIO.int! v⟩ :: parseXArgs fuel rest
  | fuel + 1, "f" :: m :: e :: rest => ⟨0, [], scaleF (BusyIO.int! m) (BusyIO.int! e)⟩ :: parseXArgs fuel rest
  | fuel + 1, "vf" :: len :: rest =>
    ⟨BusyIO.int! len, scaledPairs (BusyIO.int! len).toNat rest, 0⟩ :: parseXArgs fuel (rest.drop (2 * (BusyIO.int! len).toNat))
  | _, _ => []

/-- the line both sides print for a call of a method of `Gen.ApiExpansion` -/
def xLine (name : String) (before : St) (r : Res) : String :=
  match r.out with
  | .thrown => "xset " ++ name ++ " throw:runtime_error w=" ++ toString (r.st.writes.length - before.writes.length)
  | o => "xset " ++ name ++ " " ++ showOutcome o

def step (s : DS) : List String → DS × List String
  | ["case", k] => (s, ["case " ++ k])
  | ["ctor", rec, e] => (s, ["ctor " ++ rec ++ " " ++ ctorOutcome rec (BusyIO.int! e)])
  | ["defaults", e] =>
    match Params.defaults.find? (fun r => r.1 == BusyIO.int! e) with
    | some r => (s, ["defaults " ++ e ++ " " ++ " ".intercalate (r.2.toList.map showExact)])
    | none => (s, ["defaults " ++ e ++ " none"])
  | "params" :: rest => ({ p := Params.ColoquinteParameters.ofList (pairsToRats rest) }, [])
  | ["check", rec] =>
    match Params.checkItemsOf s.p rec with
    | some items =>
      match firstFailure items with
      | none => (s, ["check " ++ rec ++ " ok"])
      | some m => (s, ["check " ++ rec ++ " throw:runtime_error " ++ m])
    | none => (s, ["check " ++ rec ++ " unknown-record"])
  | ["place", call] =>
    match firstFailure (Params.ColoquinteParameters.checkItems s.p) with
    | none => (s, ["place " ++ call ++ " accepted"])
    | some m => (s, ["place " ++ call ++ " rejected throw:runtime_error " ++ m])
  | ["placeeffort", call, e] => (s, ["placeeffort " ++ call ++ " " ++ ctorOutcome "ColoquinteParameters" (BusyIO.int! e)])
  | "set" :: rest =>
    match parseSetter rest with
    | some sc => (s, [setterLine sc.name ⟨false, []⟩ (runSetter Api.setters sc ⟨false, []⟩)])
    | none => (s, ["bad-set"])
  | "xset" :: name :: nc :: nn :: rest =>
    let sc : SetterCall := ⟨name, ⟨BusyIO.int! nc, BusyIO.int! nn, parseXArgs rest.length rest⟩⟩
    (s, [xLine name ⟨false, []⟩ (runSetter (ApiExpansion.validated ++ ApiExpansion.constValidated) sc ⟨false, []⟩)])
  | ["newcircuit", n] =>
    let r := runSetter ApiExpansion.constructors ⟨"Circuit", ⟨0, 0, [⟨0, [], BusyIO.int! n⟩]⟩⟩ ⟨false, []⟩
    (s, ["newcircuit " ++ (match r.out with
      | .thrown => "throw:length_error"   -- the leading throwIf of the constructor is std::vector::resize's refusal
      | o => showOutcome o)])
  | [] => (s, [])
  | ws => (s, ["bad-op " ++ " ".intercalate ws])

def main : IO Unit := Driver.run step {}
