import ColoVerif.Model.Sched
import Driver.Common
/-
Driver for C08 (the protocol model of GlobalPlacer::runLB, facts from Gen/Async.lean).

  case <k>     -> case <k>
  summary      -> summary schedules=<n> independent=<b> conflicts=<n> hb-matches-scheduler=<b>
                  (exhaustive walk over every linearisation of the protocol)
  order XY|YX  -> order <o> consistent|inconsistent same-result|different-result
                  (the linearisation in which task X (resp. Y) runs completely before the other
                  starts, as forced by the harness through hook H1)
-/
open ColoVerif.Sched ColoVerif.Gen.Async Driver

def conflictCount (F : Facts) : Nat :=
  ((allSteps F).flatMap fun s => (allSteps F).filter fun t =>
    s != t && !hb F s t && !hb F t s && conflict (access F s) (access F t)).length

def hbMatches (F : Facts) : Bool :=
  (allSteps F).all fun s => (allSteps F).all fun t =>
    s == t || (hb F s t == (completeRuns F).all fun c => beforeIn c.tr s t)

/-- both launches, then `a` completely, then `b`, then the rest of the launching thread -/
def orderSched (F : Facts) (a b : Task) : List Tid :=
  let n := (mainProg F).length
  let k := n - ((mainProg F).reverse.findIdx fun s => s == .launch .X || s == .launch .Y)
  List.replicate k Tid.main ++ [.task a, .task a, .task b, .task b] ++ List.replicate (n - k) Tid.main

def orderLine (F : Facts) (name : String) (a b : Task) : String :=
  match runSched F symF (orderSched F a b) (symInit F) with
  | some c =>
    s!"order {name} " ++ (if terminated F c.p then "consistent " else "inconsistent ") ++
      (if c.st == canonSymState F then "same-result" else "different-result")
  | none => s!"order {name} inconsistent different-result"

def step (u : Unit) (ws : List String) : Unit × List String :=
  match ws with
  | ["case", k] => (u, ["case " ++ k])
  | [] => (u, [])
  | ["summary"] =>
    let runs := completeRuns facts
    (u, [s!"summary schedules={runs.length} independent={runs.all fun c => c.st == canonSymState facts} " ++
         s!"conflicts={conflictCount facts} hb-matches-scheduler={hbMatches facts}"])
  | ["order", "XY"] => (u, [orderLine facts "XY" .X .Y])
  | ["order", "YX"] => (u, [orderLine facts "YX" .Y .X])
  | _ => (u, ["bad-op " ++ " ".intercalate ws])

def main : IO Unit := Driver.run step ()
