import ColoVerif.Model.Ispd
import Driver.Common
import Driver.CircuitIO
/-
Driver for C20 (harness/h_C20.cpp).

  case <k>                          -> case <k>
  circuit … end                     (the circuit, `vc::dumpCircuit` format)
  export                            -> the records of `Ispd.write c`, then `indomain 0|1`
  readback                          -> `Ispd.read (Ispd.write c)`: circuit dump + `hpwl v`, or `throw:<class>`
  files … endfiles                  (records of hand-made files, same syntax as printed by `export`)
  read                              -> `Ispd.read files`, printed as above

Records:  hdr <numNodes> <numTerminals> <numNets> <numPins> <numRows>   (`none` when the line is absent)
          node <name> <w> <h> <terminal>      pl <name> <x> <y> <orient> <fixedMarker>
          netdeg <degree> <name>              pin <cell> <num/den> <num/den>
          row <coordinate> <height> <sitewidth> <origin> <numsites> <siteorient>
-/
open ColoVerif ColoVerif.Ispd Driver

structure St where
  c : Circuit := ⟨[], [], []⟩
  f : Files := ⟨none, none, [], [], none, none, [], none, []⟩

def showRat (q : Rat) : String := s!"{q.num}/{q.den}"

def parseRat (s : String) : Rat :=
  match s.splitOn "/" with
  | [a, b] => mkRat (int! a) (int! b).toNat
  | _ => 0

def optInt (s : String) : Option Int := if s = "none" then none else some (int! s)
def showOpt : Option Int → String
  | none => "none"
  | some v => toString v

def b01 (b : Bool) : String := if b then "1" else "0"

def showFiles (f : Files) : List String :=
  [s!"hdr {showOpt f.numNodes} {showOpt f.numTerminals} {showOpt f.numNets} {showOpt f.numPins} {showOpt f.numRows}"] ++
  f.nodes.map (fun n => s!"node {n.name} {n.w} {n.h} {b01 n.terminal}") ++
  f.pl.map (fun p => s!"pl {p.name} {p.x} {p.y} {p.orient} {b01 p.fixedMarker}") ++
  (f.nets.map (fun n => s!"netdeg {n.degree} {n.name}" :: n.pins.map (fun p => s!"pin {p.cell} {showRat p.dx} {showRat p.dy}"))).flatten ++
  f.rows.map (fun r => s!"row {r.coordinate} {r.height} {r.sitewidth} {r.origin} {r.numsites} {r.siteorient}")

def showCircuit (c : Circuit) : List String :=
  [s!"circuit {c.cells.length}"] ++
  c.cells.map (fun cl => s!"cell {cl.w} {cl.h} {cl.x} {cl.y} {cl.orient.code} {b01 cl.fixed} {b01 cl.obstruction} {cl.pol.code}") ++
  c.rows.map (fun r => s!"row {r.rect.minX} {r.rect.maxX} {r.rect.minY} {r.rect.maxY} {r.orient.code}") ++
  c.nets.map (fun n => s!"net {n.wMant} {n.wExp} {n.pins.length}" ++ String.join (n.pins.map fun p => s!" {p.cell} {p.xo} {p.yo}")) ++
  ["end"]

def showRead : Except Err Circuit → List String
  | .error e => ["throw:" ++ e.name]
  | .ok c => showCircuit c ++ [s!"hpwl {c.hpwl}"]

def addToLastNet (nets : List NetRec) (p : PinRec) : List NetRec :=
  match nets.reverse with
  | [] => []
  | n :: rest => (({ n with pins := n.pins ++ [p] }) :: rest).reverse

def step (s : St) (ws : List String) : St × List String :=
  match ws with
  | ["case", k] => (s, ["case " ++ k])
  | ["export"] => (s, showFiles (write s.c) ++ ["indomain " ++ b01 (inDomain s.c)])
  | ["readback"] => (s, showRead (read (write s.c)))
  | ["files"] => ({ s with f := ⟨none, none, [], [], none, none, [], none, []⟩ }, [])
  | ["hdr", a, b, c, d, e] =>
    ({ s with f := { s.f with numNodes := optInt a, numTerminals := optInt b, numNets := optInt c, numPins := optInt d, numRows := optInt e } }, [])
  | ["node", n, w, h, t] => ({ s with f := { s.f with nodes := s.f.nodes ++ [⟨n, int! w, int! h, t != "0"⟩] } }, [])
  | ["pl", n, x, y, o, m] => ({ s with f := { s.f with pl := s.f.pl ++ [⟨n, int! x, int! y, o, m != "0"⟩] } }, [])
  | ["netdeg", d, n] => ({ s with f := { s.f with nets := s.f.nets ++ [⟨int! d, n, []⟩] } }, [])
  | ["pin", c, dx, dy] => ({ s with f := { s.f with nets := addToLastNet s.f.nets ⟨c, parseRat dx, parseRat dy⟩ } }, [])
  | ["row", a, b, c, d, e, o] => ({ s with f := { s.f with rows := s.f.rows ++ [⟨int! a, int! b, int! c, int! d, int! e, o⟩] } }, [])
  | ["endfiles"] => (s, [])
  | ["read"] => (s, showRead (read s.f))
  | ["end"] => (s, [])
  | [] => (s, [])
  | _ =>
    match circuitLine s.c ws with
    | some c' => ({ s with c := c' }, [])
    | none => (s, ["bad-op " ++ " ".intercalate ws])

def main : IO Unit := Driver.run step {}
