import ColoVerif.Model.Ispd
import ColoVerif.Model.IspdText
import Driver.Common
import Driver.CircuitIO
/-
Driver for C20 (harness/h_C20.cpp).

  case <k>                          -> case <k>
  circuit … end                     (the circuit, `vc::dumpCircuit` format)
  export                            -> the records of `Ispd.write c`, then `indomain 0|1`
  readback                          -> `Ispd.read (Ispd.write c)`: circuit dump + `hpwl v`, or `throw:<class>`
  files … endfiles                  (records of hand-made files, same syntax as printed by `export`)
  read                              -> `Ispd.read files`, printed as above

Text level (Model/IspdText.lean); `<e…>` is a line/path escaped as `\\s` (space) `\\t` (tab) `\\\\` `\\u<dec>;` and `\\e`
for the empty line:
  exporttext <eprefix>              -> `aux|nodes|pl|nets|scl <eline>` for every line of the five files that
                                       `Circuit::exportIspd(prefix)` writes
  readbackfs <eprefix>              -> `Text.readIspd (exportFS prefix c) exists (prefix.aux)`, printed as `readback`;
                                       the result becomes the "Python circuit" of the placement ops below
  readfs exists|missing|dir <eprefix> <efilename> <eentry>*   -> `Text.readIspd (exportFS prefix c) kind filename`
  fsreset / file <epath> / l <eline>   (a file system: start a file, append a line to the last file)
  readispd exists|missing|dir <efilename> <eentry>*   -> `Text.readIspd fs kind filename`, printed as `readback`
  writeplacement                    -> `sol <eline>` for every line of `write_placement` on the Python circuit
  loadback                          -> `load_placement(write_placement(c))` into the Python circuit with positions
                                       zeroed and orientations N, printed as `readback`
  loadplacement <epath>             -> `load_placement` of that file of the file system into the Python circuit

Records:  hdr <numNodes> <numTerminals> <numNets> <numPins> <numRows>   (`none` when the line is absent)
          node <name> <w> <h> <terminal>      pl <name> <x> <y> <orient> <fixedMarker>
          netdeg <degree> <name>              pin <cell> <num/den> <num/den>
          row <coordinate> <height> <sitewidth> <origin> <numsites> <siteorient>
-/
open ColoVerif ColoVerif.Ispd Driver

structure St where
  c : Circuit := ⟨[], [], []⟩
  f : Files := ⟨none, none, [], [], none, none, [], none, []⟩
  fs : List (Text.Line × List Text.Line) := []
  py : Except Err Circuit := .error .runtime

partial def unesc : List Char → List Char
  | '\\' :: 's' :: r => ' ' :: unesc r
  | '\\' :: 't' :: r => '\t' :: unesc r
  | '\\' :: '\\' :: r => '\\' :: unesc r
  | '\\' :: 'e' :: r => unesc r
  | '\\' :: 'u' :: r =>
    Char.ofNat ((String.ofList (r.takeWhile (· != ';'))).toNat?.getD 63) :: unesc ((r.dropWhile (· != ';')).drop 1)
  | c :: r => c :: unesc r
  | [] => []

def un (s : String) : Text.Line := unesc s.toList

def esc (l : Text.Line) : String :=
  if l.isEmpty then "\\e"
  else String.ofList (l.flatMap fun c =>
    if c = ' ' then ['\\', 's'] else if c = '\t' then ['\\', 't'] else if c = '\\' then ['\\', '\\']
    else if c.toNat < 33 || c.toNat > 126 then ("\\u" ++ toString c.toNat ++ ";").toList else [c])

def tagged (tag : String) (ls : List Text.Line) : List String := ls.map (fun l => tag ++ " " ++ esc l)

def fsOf (files : List (Text.Line × List Text.Line)) : Text.FS := fun p => (files.find? (·.1 = p)).map (·.2)

def appendLine : List (Text.Line × List Text.Line) → Text.Line → List (Text.Line × List Text.Line)
  | [], _ => []
  | [f], l => [(f.1, f.2 ++ [l])]
  | f :: g :: r, l => f :: appendLine (g :: r) l

def pyNames (c : Circuit) : List Text.Line := (List.range c.cells.length).map Text.cellTok

def showRat (q : Rat) : String := s!"{q.num}/{q.den}"

def parseRat (s : String) : Rat :=
  match s.splitOn "/" with
  | [a, b] => mkRat (int! a) (int! b).toNat
  | _ => 0

def optInt (s : String) : Option Int := if s = "none" then none else some (int! s)
def showOpt : Option Int → String
  | none => "none"
  | some v => toString v

def b01 (b : Bool) : String := if b then "1" else "0"

def showFiles (f : Files) : List String :=
  [s!"hdr {showOpt f.numNodes} {showOpt f.numTerminals} {showOpt f.numNets} {showOpt f.numPins} {showOpt f.numRows}"] ++
  f.nodes.map (fun n => s!"node {n.name} {n.w} {n.h} {b01 n.terminal}") ++
  f.pl.map (fun p => s!"pl {p.name} {p.x} {p.y} {p.orient} {b01 p.fixedMarker}") ++
  (f.nets.map (fun n => s!"netdeg {n.degree} {n.name}" :: n.pins.map (fun p => s!"pin {p.cell} {showRat p.dx} {showRat p.dy}"))).flatten ++
  f.rows.map (fun r => s!"row {r.coordinate} {r.height} {r.sitewidth} {r.origin} {r.numsites} {r.siteorient}")

def showCircuit (c : Circuit) : List String :=
  [s!"circuit {c.cells.length}"] ++
  c.cells.map (fun cl => s!"cell {cl.w} {cl.h} {cl.x} {cl.y} {cl.orient.code} {b01 cl.fixed} {b01 cl.obstruction} {cl.pol.code}") ++
  c.rows.map (fun r => s!"row {r.rect.minX} {r.rect.maxX} {r.rect.minY} {r.rect.maxY} {r.orient.code}") ++
  c.nets.map (fun n => s!"net {n.wMant} {n.wExp} {n.pins.length}" ++ String.join (n.pins.map fun p => s!" {p.cell} {p.xo} {p.yo}")) ++
  ["end"]

def showRead : Except Err Circuit → List String
  | .error e => ["throw:" ++ e.name]
  | .ok c => showCircuit c ++ [s!"py {c.cells.length} {c.nets.length} {c.rows.length} {totalPins c.nets} {c.rowHeight.getD 0} {c.hpwl}",
                               s!"hpwl {c.hpwl}"]

def addToLastNet (nets : List NetRec) (p : PinRec) : List NetRec :=
  match nets.reverse with
  | [] => []
  | n :: rest => (({ n with pins := n.pins ++ [p] }) :: rest).reverse

def step (s : St) (ws : List String) : St × List String :=
  match ws with
  | ["case", k] => (s, ["case " ++ k])
  | ["export"] => (s, showFiles (write s.c) ++ ["indomain " ++ b01 (inDomain s.c)])
  | ["readback"] => (s, showRead (read (write s.c)))
  | ["files"] => ({ s with f := ⟨none, none, [], [], none, none, [], none, []⟩ }, [])
  | ["hdr", a, b, c, d, e] =>
    ({ s with f := { s.f with numNodes := optInt a, numTerminals := optInt b, numNets := optInt c, numPins := optInt d, numRows := optInt e } }, [])
  | ["node", n, w, h, t] => ({ s with f := { s.f with nodes := s.f.nodes ++ [⟨n, int! w, int! h, t != "0"⟩] } }, [])
  | ["pl", n, x, y, o, m] => ({ s with f := { s.f with pl := s.f.pl ++ [⟨n, int! x, int! y, o, m != "0"⟩] } }, [])
  | ["netdeg", d, n] => ({ s with f := { s.f with nets := s.f.nets ++ [⟨int! d, n, []⟩] } }, [])
  | ["pin", c, dx, dy] => ({ s with f := { s.f with nets := addToLastNet s.f.nets ⟨c, parseRat dx, parseRat dy⟩ } }, [])
  | ["row", a, b, c, d, e, o] => ({ s with f := { s.f with rows := s.f.rows ++ [⟨int! a, int! b, int! c, int! d, int! e, o⟩] } }, [])
  | ["endfiles"] => (s, [])
  | ["exporttext", pre] =>
    (s, tagged "aux" (Text.auxText (un pre)) ++ tagged "nodes" (Text.nodesText s.c) ++ tagged "pl" (Text.plText s.c) ++
        tagged "nets" (Text.netsText s.c) ++ tagged "scl" (Text.sclText s.c))
  | ["readbackfs", pre] =>
    let r := Text.readIspd (Text.exportFS (un pre) s.c) .exists_ (un pre ++ ".aux".toList)
    ({ s with py := r }, showRead r)
  | "readfs" :: kind :: pre :: fname :: entries =>
    let k : Text.PathKind := if kind = "dir" then .dir (entries.map un) else if kind = "missing" then .missing else .exists_
    let r := Text.readIspd (Text.exportFS (un pre) s.c) k (un fname)
    ({ s with py := r }, showRead r)
  | ["fsreset"] => ({ s with fs := [] }, [])
  | ["file", p] => ({ s with fs := s.fs ++ [(un p, [])] }, [])
  | ["l", l] => ({ s with fs := appendLine s.fs (un l) }, [])
  | "readispd" :: kind :: fname :: entries =>
    let k : Text.PathKind := if kind = "dir" then .dir (entries.map un) else if kind = "missing" then .missing else .exists_
    let r := Text.readIspd (fsOf s.fs) k (un fname)
    ({ s with py := r }, showRead r)
  | ["writeplacement"] =>
    match s.py with
    | .ok c' => (s, tagged "sol" (Text.writePlacementText (pyNames c') c'))
    | .error _ => (s, [])
  | ["loadback"] =>
    match s.py with
    | .ok c' =>
      let blank : Circuit := { c' with cells := c'.cells.map fun cl => { cl with x := 0, y := 0, orient := .N } }
      (s, showRead (Text.loadPlacement ((pyNames c').map String.ofList) (Text.writePlacementText (pyNames c') c') blank))
    | .error _ => (s, [])
  | ["loadplacement", p] =>
    match s.py, fsOf s.fs (un p) with
    | .ok c', some lines => (s, showRead (Text.loadPlacement ((pyNames c').map String.ofList) lines c'))
    | _, _ => (s, [])
  | ["read"] => (s, showRead (read s.f))
  | ["end"] => (s, [])
  | [] => (s, [])
  | _ =>
    match circuitLine s.c ws with
    | some c' => ({ s with c := c' }, [])
    | none => (s, ["bad-op " ++ " ".intercalate ws])

def main : IO Unit := Driver.run step {}
