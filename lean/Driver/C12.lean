import ColoVerif.Model.RowLeg
import Driver.Common
/-
Driver for C12: replays the harness' operations on the RowLegalizer model.

  case <k>        -> case <k>
  new <b> <e>     -> (nothing)
  cost <w> <t>    -> cost <v>
  push <w> <t>    -> push <v>
  place           -> place x0 x1 …
  clear           -> (nothing)
-/
open ColoVerif.RowLeg Driver

def step (s : State) : List String → State × List String
  | ["case", k] => (s, ["case " ++ k])
  | ["new", b, e] => (State.new (int! b) (int! e), [])
  | ["cost", w, t] =>
    let (c, s') := getCost s (int! w) (int! t)
    (s', ["cost " ++ toString c])
  | ["push", w, t] =>
    let (c, s') := push s (int! w) (int! t)
    (s', ["push " ++ toString c])
  | ["place"] => (s, [("place " ++ showInts (placement s)).trimAscii.toString])
  | ["clear"] => (s.clear, [])
  | [] => (s, [])
  | ws => (s, ["bad-op " ++ " ".intercalate ws])

def main : IO Unit := Driver.run step (State.new 0 0)
