import ColoVerif.Model.Transp1d
import Driver.Common
/-
Driver for C14: replays the harness' operations on the Transportation1d model.

  case <k>                          -> case <k>
  pb <n> <m> u.. v.. s.. d..        -> (nothing; sets the current problem)
  balance                           -> balance d0 d1 ..      (and updates the problem)
  solve                             -> solve i j a i j a ..  | solve throw:runtime_error | solve err:<e>
  assign                            -> assign k0 k1 ..       | ...
  cert                              -> cert ok   when the model's plan passes `certOk` with the
                                       potentials computed here (Bellman-Ford on the residual
                                       difference constraints; untrusted search, trusted checker)
-/
open ColoVerif.Transp1d Driver

def showErr : Err → String
  | .indexOutOfRange => "err:indexOutOfRange"
  | .invalid => "throw:runtime_error"
  | .divByZero => "err:divByZero"
  | .outOfFuel => "err:outOfFuel"

def showNats (l : List Nat) : String := " ".intercalate (l.map toString)

def showPlan (p : Plan) : String :=
  " ".intercalate (p.map fun e => s!"{e.1} {e.2.1} {e.2.2}")

def line (tag : String) (body : String) : String := (tag ++ " " ++ body).trimAscii.toString

/-- one relaxation `dist[a] ≤ dist[b] + w` -/
def relax (dist : Array Int) (b a : Nat) (w : Int) : Array Int :=
  let nb := dist[b]! + w
  if nb < dist[a]! then dist.set! a nb else dist

/-- potentials for `plan` (nodes: sources `0..n-1`, sinks `n..n+m-1`, `t = n+m`). -/
def potentials (pb : Problem) (plan : Plan) : List Int × List Int :=
  let n := pb.u.length
  let m := pb.v.length
  let t := n + m
  let round (dist : Array Int) : Array Int := Id.run do
    let mut dist := dist
    for i in [0:n] do
      for j in [0:m] do
        dist := relax dist (n + j) i (cst pb i j)
    for e in plan do
      dist := relax dist e.1 (n + e.2.1) (- cst pb e.1 e.2.1)
    for j in [0:m] do
      dist := relax dist (n + j) t 0
      if colSum plan j < pb.d.getD j 0 then
        dist := relax dist t (n + j) 0
    return dist
  let dist := Id.run do
    let mut dist : Array Int := Array.replicate (t + 1) 0
    for _ in [0:t + 2] do
      dist := round dist
    return dist
  let base := dist[t]!
  ((List.range n).map fun i => dist[i]! - base, (List.range m).map fun j => dist[n + j]! - base)

def step (pb : Problem) : List String → Problem × List String
  | ["case", k] => (pb, ["case " ++ k])
  | "pb" :: n :: m :: rest =>
    let n := n.toNat!
    let m := m.toNat!
    let xs := ints rest
    (⟨xs.take n, (xs.drop n).take m, (xs.drop (n + m)).take n, (xs.drop (n + m + n)).take m⟩, [])
  | ["balance"] =>
    match balanceDemand pb with
    | .ok pb' => (pb', [line "balance" (showInts pb'.d)])
    | .error e => (pb, ["balance " ++ showErr e])
  | ["solve"] =>
    match solve pb with
    | .ok p => (pb, [line "solve" (showPlan p)])
    | .error e => (pb, ["solve " ++ showErr e])
  | ["assign"] =>
    match assign pb with
    | .ok a => (pb, [line "assign" (showNats a)])
    | .error e => (pb, ["assign " ++ showErr e])
  | ["cert"] =>
    match solve pb with
    | .ok p =>
      let (al, be) := potentials pb p
      (pb, [if certOk pb p al be then "cert ok" else "cert FAIL"])
    | .error e => (pb, ["cert " ++ showErr e])
  | [] => (pb, [])
  | ws => (pb, ["bad-op " ++ " ".intercalate ws])

def main : IO Unit := Driver.run step default
