import ColoVerif.Model.Transp1d
import ColoVerif.Model.Transp1dLocal
import ColoVerif.Model.Transp1dChecks
import Driver.Common
/-
Driver for C14: replays the harness' operations on the Transportation1d model.

  case <k>                          -> case <k>
  pb <n> <m> u.. v.. s.. d..        -> (nothing; sets the current problem)
  balance                           -> balance d0 d1 ..      (and updates the problem)
  solve                             -> solve i j a i j a ..  | solve throw:runtime_error | solve err:<e>
  assign                            -> assign k0 k1 ..       | ...
  cert                              -> cert ok   when the model's plan passes `certOk` with the
                                       potentials computed here (Bellman-Ford on the residual
                                       difference constraints; untrusted search, trusted checker)
  loc                               -> loc ok    when the positions returned by `run` on the sorted
                                       instance pass `ivCertOk` with the sink prices computed here
                                       (closed formula: min of the left- and right-anchored chain
                                       prices; untrusted computation, trusted checker)
  full                              -> full i j a ..  | full throw:runtime_error <site> | full err:<e>
                                       (`solveFull`: `solve()` WITH its self-checks; <site> names the
                                       message of the exception, `Model/Transp1dChecks.lean`)
  rpb <nu> <nv> <ns> <nd> u.. v.. s.. d..  -> (nothing; sets a problem whose four vectors may have
                                       different sizes)
  chk                               -> chk ok | chk throw:runtime_error <site>    `Transportation1d::check()`
  schk                              -> schk ok | …   `Transportation1dSolver(u,v,s,d).check()` (no sorter)
  val <k> i j a ..                  -> val ok | …    `Transportation1d::checkSolutionValid(sol)`
  opt <k> i j a ..                  -> opt ok | …    `Transportation1dSolver(u,v,s,d).checkSolutionOptimal(sol)`
-/
open ColoVerif.Transp1d Driver

def showErr : Err → String
  | .indexOutOfRange => "err:indexOutOfRange"
  | .invalid => "throw:runtime_error"
  | .divByZero => "err:divByZero"
  | .outOfFuel => "err:outOfFuel"

def showSite : Site → String
  | .srcPosSize => "srcPosSize"
  | .snkPosSize => "snkPosSize"
  | .supSize => "supSize"
  | .demSize => "demSize"
  | .supNeg => "supNeg"
  | .demNeg => "demNeg"
  | .supGtDem => "supGtDem"
  | .totSupSize => "totSupSize"
  | .totDemSize => "totDemSize"
  | .tooManyPos => "tooManyPos"
  | .srcUnsorted => "srcUnsorted"
  | .snkUnsorted => "snkUnsorted"
  | .supZero => "supZero"
  | .demZero => "demZero"
  | .allocNonPos => "allocNonPos"
  | .supNotMet => "supNotMet"
  | .demExceeded => "demExceeded"
  | .improvingRight => "improvingRight"
  | .improvingLeft => "improvingLeft"

def showCkErr : CkErr → String
  | .thrown s => "throw:runtime_error " ++ showSite s
  | .model e => showErr e
  | .sentinel => "err:sentinel"

def showCk (tag : String) : K Unit → String
  | .ok _ => tag ++ " ok"
  | .error e => tag ++ " " ++ showCkErr e

/-- `<k> i j a i j a ..` -/
def parsePlan : List String → Plan
  | i :: j :: a :: rest => (i.toNat!, j.toNat!, int! a) :: parsePlan rest
  | _ => []

def showNats (l : List Nat) : String := " ".intercalate (l.map toString)

def showPlan (p : Plan) : String :=
  " ".intercalate (p.map fun e => s!"{e.1} {e.2.1} {e.2.2}")

def line (tag : String) (body : String) : String := (tag ++ " " ++ body).trimAscii.toString

/-- one relaxation `dist[a] ≤ dist[b] + w` -/
def relax (dist : Array Int) (b a : Nat) (w : Int) : Array Int :=
  let nb := dist[b]! + w
  if nb < dist[a]! then dist.set! a nb else dist

/-- potentials for `plan` (nodes: sources `0..n-1`, sinks `n..n+m-1`, `t = n+m`). -/
def potentials (pb : Problem) (plan : Plan) : List Int × List Int :=
  let n := pb.u.length
  let m := pb.v.length
  let t := n + m
  let round (dist : Array Int) : Array Int := Id.run do
    let mut dist := dist
    for i in [0:n] do
      for j in [0:m] do
        dist := relax dist (n + j) i (cst pb i j)
    for e in plan do
      dist := relax dist e.1 (n + e.2.1) (- cst pb e.1 e.2.1)
    for j in [0:m] do
      dist := relax dist (n + j) t 0
      if colSum plan j < pb.d.getD j 0 then
        dist := relax dist t (n + j) 0
    return dist
  let dist := Id.run do
    let mut dist : Array Int := Array.replicate (t + 1) 0
    for _ in [0:t + 2] do
      dist := round dist
    return dist
  let base := dist[t]!
  ((List.range n).map fun i => dist[i]! - base, (List.range m).map fun j => dist[n + j]! - base)

/-! ### sink prices for `ivCertOk` (untrusted) -/

def bigInf : Int := 1000000000000000000000000000000

def capInf (x : Int) : Int := if bigInf < x then bigInf else x

/-- prices of the sinks of the sorted instance for the positions `p` -/
def localPrices (sv : Solver) (p : List Int) : List Int :=
  let n := sv.u.length
  let m := sv.v.length
  let srcs := List.range n
  let unsat : Array Bool := (List.range m).toArray.map fun j =>
    decide (fillP sv p j n < sv.D.getD (j + 1) 0 - sv.D.getD j 0)
  let first : Array (Option Nat) := (List.range m).toArray.map fun j =>
    srcs.find? fun i => decide (0 < ovP sv p i j)
  let last : Array (Option Nat) := (List.range m).toArray.map fun j =>
    srcs.reverse.find? fun i => decide (0 < ovP sv p i j)
  let hiD (t : Nat) : Int := match first[t + 1]! with
    | some k => cs sv k t - cs sv k (t + 1)
    | none => bigInf
  let loD (t : Nat) : Int := match last[t]! with
    | some k => cs sv k t - cs sv k (t + 1)
    | none => - bigInf
  let U : Array Int := Id.run do
    let mut a : Array Int := Array.replicate m bigInf
    for j in [1:m] do
      let base := if unsat[j - 1]! then 0 else a[j - 1]!
      a := a.set! j (capInf (base + hiD (j - 1)))
    return a
  let V : Array Int := Id.run do
    let mut a : Array Int := Array.replicate m bigInf
    for r in [1:m] do
      let j := m - 1 - r
      let base := if unsat[j + 1]! then 0 else a[j + 1]!
      a := a.set! j (capInf (base - loD j))
    return a
  if unsat.any id then
    (List.range m).map fun j => if unsat[j]! then 0 else min U[j]! V[j]!
  else
    let W : Array Int := Id.run do
      let mut a : Array Int := Array.replicate m 0
      for j in [1:m] do
        a := a.set! j (a[j - 1]! + hiD (j - 1))
      return a
    let mn := W.foldl min 0
    (List.range m).map fun j => W[j]! - mn

/-- `check(); sorter; convert; run` and the local certificate of the positions -/
def locOp (pb : Problem) : String :=
  let r : M Bool := do
    check pb
    let so ← mkSorter pb
    let sv ← convert so pb
    let p ← run sv
    pure (ivCertOk sv p (localPrices sv p))
  match r with
  | .ok true => "loc ok"
  | .ok false => "loc FAIL"
  | .error e => "loc " ++ showErr e

def step (pb : Problem) : List String → Problem × List String
  | ["case", k] => (pb, ["case " ++ k])
  | "pb" :: n :: m :: rest =>
    let n := n.toNat!
    let m := m.toNat!
    let xs := ints rest
    (⟨xs.take n, (xs.drop n).take m, (xs.drop (n + m)).take n, (xs.drop (n + m + n)).take m⟩, [])
  | ["balance"] =>
    match balanceDemand pb with
    | .ok pb' => (pb', [line "balance" (showInts pb'.d)])
    | .error e => (pb, ["balance " ++ showErr e])
  | ["solve"] =>
    match solve pb with
    | .ok p => (pb, [line "solve" (showPlan p)])
    | .error e => (pb, ["solve " ++ showErr e])
  | ["assign"] =>
    match assign pb with
    | .ok a => (pb, [line "assign" (showNats a)])
    | .error e => (pb, ["assign " ++ showErr e])
  | ["cert"] =>
    match solve pb with
    | .ok p =>
      let (al, be) := potentials pb p
      (pb, [if certOk pb p al be then "cert ok" else "cert FAIL"])
    | .error e => (pb, ["cert " ++ showErr e])
  | ["loc"] => (pb, [locOp pb])
  | ["full"] =>
    match solveFull pb with
    | .ok p => (pb, [line "full" (showPlan p)])
    | .error e => (pb, ["full " ++ showCkErr e])
  | "rpb" :: nu :: nv :: ns :: nd :: rest =>
    let nu := nu.toNat!
    let nv := nv.toNat!
    let ns := ns.toNat!
    let nd := nd.toNat!
    let xs := ints rest
    (⟨xs.take nu, (xs.drop nu).take nv, (xs.drop (nu + nv)).take ns, (xs.drop (nu + nv + ns)).take nd⟩, [])
  | ["chk"] => (pb, [showCk "chk" (checkInput pb)])
  | ["schk"] => (pb, [showCk "schk" (solverCheck (mkSolver pb.u pb.v pb.s pb.d) 0)])
  | "val" :: _ :: rest => (pb, [showCk "val" (checkSolutionValid pb (parsePlan rest))])
  | "opt" :: _ :: rest =>
    (pb, [showCk "opt" (checkSolutionOptimal (mkSolver pb.u pb.v pb.s pb.d) (parsePlan rest))])
  | [] => (pb, [])
  | ws => (pb, ["bad-op " ++ " ".intercalate ws])

def main : IO Unit := Driver.run step default
