import ColoVerif.Model.GridSched
import Driver.Common
import Driver.CircuitIO
/-
Driver for C16: replays the harness' operations on the density-grid model.

  case <k>                                  -> case <k>
  regions <binSize> (<minX> <maxX> <minY> <maxY>)*   -> grid dump (limx / limy / cap / total)
  circuit … end  (Driver.circuitLine)       -> (nothing)
  ispd <sfMant> <sfExp> <smMant> <smExp>    -> margins + `rowsdom <RowsDom c>` + grid dump + demands  (fromIspdCircuit)
  subdiv <min> <max> <n>                    -> subdiv l0 l1 …
  hplace <d0> <d1> …                        -> hierarchy dump + allocation dump + view dump
  refineX|refineY|coarsenX|coarsenY         -> allocation dump + view dump
  setbin <x> <y> <c>*                       -> allocation dump
  rebisect <x1> <y1> <x2> <y2> <split> <order>*                 -> allocation dump
  reopt <x y>* | <split> | <order>* | <assign>*                 -> allocation dump
  xtrans | <assign row 0>* | <assign row 1>* …                  -> allocation dump
  ytrans | <assign col 0>* | …                                  -> allocation dump
  snap <lx> <ly> | <bins…> | <cbx…> | <cby…>  -> `snap ok` iff the snapshot satisfies the allocation invariant
                                               for the same demands (then the model continues from it)
  updemand <d0> <d1> …                      -> `updemand ok` (demands replaced) or `updemand throw:runtime_error`
                                               (state untouched) + allocation dump + view dump + demands
                                               (`updateCellDemand(circuit)`; the harness computes the circuit's demands)
  setdemand <d0> <d1> …                     -> `setdemand ok` + allocation dump + view dump + demands
                                               (`updateCellDemand(std::vector<int>)`, no validation)

With the op-log hook H4 the public passes are replayed call by call instead of by snapshot:
  params <nbSteps> <lineSize> <lineOverlap> <diagSize> <diagOverlap> <squareSize> <squareOverlap> <unidim>
                                            -> (nothing; `params BAD` if `check()` would have refused them)
  pass <name> | <doX doY>*                  -> `pass <name> <#calls of the model's schedule> <#decisions read>`;
                                               the schedule (`passCalls`) becomes the queue of expected calls
  pcall <logged call(s)> | <hole sections>  -> `pcall ok` iff the logged call (nested calls after ` ; `) is the
                                               head of the queue, then the skeleton of *the scheduled* call is
                                               applied with the observed holes: touched bins / allocation dump
  endpass                                   -> `endpass <#calls still expected>` + allocation dump
-/
open ColoVerif ColoVerif.Grid Driver

structure St where
  circ : Circuit := ⟨[], [], []⟩
  grid : DGrid := default
  hs : HState := default
  params : LegParams := default
  /-- calls the current pass is still expected to make -/
  sched : List Call := []

def rects : List Int → List Rect
  | a :: b :: c :: d :: rest => ⟨a, b, c, d⟩ :: rects rest
  | _ => []

def pairs : List Int → List (Nat × Nat)
  | a :: b :: rest => (a.toNat, b.toNat) :: pairs rest
  | _ => []

def nats (ws : List String) : List Nat := (ints ws).map Int.toNat

def showNats (l : List Nat) : String := " ".intercalate (l.map toString)

/-- split a word list at the "|" separators -/
def sections (ws : List String) : List (List String) :=
  (ws.foldr (fun w acc =>
    match acc with
    | [] => if w == "|" then [[], []] else [[w]]
    | cur :: rest => if w == "|" then [] :: cur :: rest else (w :: cur) :: rest) [[]])

def line (tag : String) (body : String) : String := if body.isEmpty then tag else tag ++ " " ++ body

def showBin (l : List Nat) : String := if l.isEmpty then "-" else ",".intercalate (l.map toString)

def parseBin (w : String) : List Nat := if w == "-" then [] else (w.splitOn ",").map fun x => (int! x).toNat

def dumpGrid (g : DGrid) : List String :=
  [line "limx" (showInts g.limX), line "limy" (showInts g.limY),
   line "cap" (showInts g.cap.flatten), s!"total {g.totalCapacity}"]

def dumpHier (tag : String) (h : Hier) : List String :=
  (List.range h.nbLevels).map fun l => s!"{tag} {l} {showNats (h.lim l)} | {showNats (h.par l)}"

def dumpAlloc (s : HState) : List String :=
  [s!"st {s.levelX} {s.levelY} {s.nbX} {s.nbY}",
   line "bins" (" ".intercalate ((List.range s.nbX).flatMap fun i => (List.range s.nbY).map fun j => showBin (s.cells i j))),
   line "cbx" (showInts s.cbx), line "cby" (showInts s.cby)]

def dumpView (s : HState) : List String :=
  [line "vcap" (showInts ((List.range s.nbX).flatMap fun i => (List.range s.nbY).map fun j => s.binCapacity i j)),
   line "vuse" (showInts ((List.range s.nbX).flatMap fun i => (List.range s.nbY).map fun j => s.binUsage i j)),
   line "vlx" (showInts ((List.range (s.nbX + 1)).map s.binLimitX)),
   line "vly" (showInts ((List.range (s.nbY + 1)).map s.binLimitY)),
   line "parx" (showNats ((List.range s.nbX).map s.parentX)),
   line "pary" (showNats ((List.range s.nbY).map s.parentY))]

/-- rebuild a `Bins` table of shape nx × ny from the row-major list of bins -/
def unflat (nx ny : Nat) (l : List (List Nat)) : Bins :=
  (List.range nx).map fun i => (List.range ny).map fun j => l.getD (i * ny + j) []

def showPairs (l : List (Nat × Nat)) : String := " ".intercalate (l.map fun p => s!"{p.1} {p.2}")

def renderCall : Call → String
  | .refineX => "refineX" | .refineY => "refineY" | .coarsenX => "coarsenX" | .coarsenY => "coarsenY"
  | .rebisect x1 y1 x2 y2 => s!"rebisect {x1} {y1} {x2} {y2}"
  | .reoptimize cands => line "reoptimize" (showPairs cands)
  | .xTransport => "improveXTransport"
  | .yTransport => "improveYTransport"

/-- the log of one scheduled call, as the harness prints it -/
def renderLogged (c : Call) : String := " ; ".intercalate (c.logged.map renderCall)

def bools : List Int → List (Bool × Bool)
  | a :: b :: rest => (a != 0, b != 0) :: bools rest
  | _ => []

def passOfName : String → Option Pass
  | "improve" => some .improve | "refine" => some .refine | "run" => some .run
  | "runCoarsening" => some .runCoarsening | "runRefinement" => some .runRefinement | _ => none

/-- contents of the touched bins, then `cellBinX/Y` of the cells they hold -/
def dumpTouched (s : HState) (G : List (Nat × Nat)) : List String :=
  let cs := s.gather G
  [line "tb" (" ".intercalate (G.map fun p => showBin (s.cells p.1 p.2))) ++ " | " ++
    showInts (cs.map fun c => s.cbx.getD c (-9)) ++ " | " ++ showInts (cs.map fun c => s.cby.getD c (-9))]

/-- apply a scheduled call with the observed holes and print what it touched -/
def applyCall (hs : HState) (c : Call) (secs : List (List String)) : HState × List String :=
  match c with
  | .refineX | .refineY | .coarsenX | .coarsenY =>
    let hs' := hs.apply (c.toOp {})
    (hs', dumpAlloc hs' ++ dumpView hs')
  | .rebisect x1 y1 x2 y2 =>
    let h : Hole := { split := (nats (secs.getD 0 [])).headD 0, order := nats (secs.getD 1 []) }
    let hs' := hs.apply (c.toOp h)
    (hs', dumpTouched hs' (if x1 = x2 ∧ y1 = y2 then [(x1, y1)] else [(x1, y1), (x2, y2)]))
  | .reoptimize cands =>
    let h : Hole := { split := (nats (secs.getD 0 [])).headD 0, order := nats (secs.getD 1 []), assign := nats (secs.getD 2 []) }
    let hs' := hs.apply (c.toOp h)
    (hs', dumpTouched hs' cands)
  | .xTransport | .yTransport =>
    let hs' := hs.apply (c.toOp { assigns := secs.map nats })
    (hs', dumpAlloc hs')

/-- `HierarchicalDensityPlacement::updateCellDemand(const Circuit &)` on the demand vector `nd` computed from the
circuit: refused (exception, nothing written) when some cell's demand would change to or from zero -/
def updateDemandChecked (hs : HState) (nd : List Int) : HState × Bool :=
  if (List.range hs.nbCells).all (fun c => (hs.demand.getD c 0 == 0) == (nd.getD c 0 == 0)) then
    ({ hs with demand := nd }, true)
  else (hs, false)

def dumpDemands (hs : HState) : List String := [line "demands" (showInts hs.demand)]

def step (s : St) (ws : List String) : St × List String :=
  match circuitLine s.circ ws with
  | some c => ({ s with circ := c }, [])
  | none =>
  match ws with
  | ["case", k] => (s, ["case " ++ k])
  | ["end"] => (s, [])
  | "regions" :: b :: rest =>
    let g := DGrid.ofRegions (int! b) (rects (ints rest))
    ({ s with grid := g }, dumpGrid g)
  | ["subdiv", a, b, n] => (s, [line "subdiv" (showInts (computeSubdivisions (int! a) (int! b) (int! n).toNat))])
  | ["ispd", a, b, c, d] =>
    let h := minCellHeight s.circ
    let g := DGrid.fromIspdCircuit s.circ (int! a) (int! b) (int! c) (int! d)
    ({ s with grid := g },
      [s!"ispd {h} {floatMulTrunc (int! a) (int! b) h} {floatMulTrunc (int! c) (int! d) h}",
       s!"rowsdom {if decide (RowsDom s.circ) then 1 else 0}"] ++ dumpGrid g ++
      [line "demands" (showInts (circuitDemands s.circ))])
  | "hplace" :: ds =>
    let hs := HState.init s.grid (ints ds)
    ({ s with hs := hs }, dumpHier "hx" hs.hx ++ dumpHier "hy" hs.hy ++ dumpAlloc hs ++ dumpView hs)
  | ["refineX"] => let hs := s.hs.refineX; ({ s with hs := hs }, dumpAlloc hs ++ dumpView hs)
  | ["refineY"] => let hs := s.hs.refineY; ({ s with hs := hs }, dumpAlloc hs ++ dumpView hs)
  | ["coarsenX"] => let hs := s.hs.coarsenX; ({ s with hs := hs }, dumpAlloc hs ++ dumpView hs)
  | ["coarsenY"] => let hs := s.hs.coarsenY; ({ s with hs := hs }, dumpAlloc hs ++ dumpView hs)
  | "setbin" :: x :: y :: cs =>
    let hs := s.hs.setBinCells (int! x).toNat (int! y).toNat (nats cs)
    ({ s with hs := hs }, dumpAlloc hs)
  | "rebisect" :: x1 :: y1 :: x2 :: y2 :: k :: order =>
    let hs := s.hs.rebisectSk (int! x1).toNat (int! y1).toNat (int! x2).toNat (int! y2).toNat (nats order) (int! k).toNat
    ({ s with hs := hs }, dumpAlloc hs)
  | "reopt" :: rest =>
    match sections rest with
    | [cands, k, order, assign] =>
      let hs := s.hs.reoptimizeSk (pairs (ints cands)) (nats order) ((nats k).headD 0) (nats assign)
      ({ s with hs := hs }, dumpAlloc hs)
    | _ => (s, ["bad-op reopt"])
  | "xtrans" :: rest =>
    let hs := s.hs.improveXTransportSk ((sections rest).drop 1 |>.map nats)
    ({ s with hs := hs }, dumpAlloc hs)
  | "ytrans" :: rest =>
    let hs := s.hs.improveYTransportSk ((sections rest).drop 1 |>.map nats)
    ({ s with hs := hs }, dumpAlloc hs)
  | "updemand" :: ds =>
    let (hs, ok) := updateDemandChecked s.hs (ints ds)
    ({ s with hs := hs }, [if ok then "updemand ok" else "updemand throw:runtime_error"] ++ dumpAlloc hs ++ dumpView hs ++ dumpDemands hs)
  | "setdemand" :: ds =>
    let hs := { s.hs with demand := ints ds }
    ({ s with hs := hs }, ["setdemand ok"] ++ dumpAlloc hs ++ dumpView hs ++ dumpDemands hs)
  | ["params", n, ls, lo, ds, dO, ss, so, u] =>
    let p : LegParams := ⟨(int! n).toNat, (int! ls).toNat, (int! lo).toNat, (int! ds).toNat, (int! dO).toNat,
      (int! ss).toNat, (int! so).toNat, (int! u) != 0⟩
    ({ s with params := p }, if p.accepted && decide (int! n ≥ 0) then [] else ["params BAD"])
  | "pass" :: name :: rest =>
    match passOfName name with
    | some ps =>
      let choices := bools (ints (rest.drop 1))
      let sched := passCalls s.params s.hs.view choices ps
      let used := match ps with
        | .run | .runCoarsening => Sched.coarsenUsed choices s.hs.view
        | _ => 0
      ({ s with sched := sched }, [s!"pass {name} {sched.length} {used}"])
    | none => (s, ["bad-op pass " ++ name])
  | "pcall" :: rest =>
    match s.sched, sections rest with
    | c :: more, logged :: secs =>
      if renderLogged c == " ".intercalate logged then
        let (hs, out) := applyCall s.hs c secs
        ({ s with hs := hs, sched := more }, "pcall ok" :: out)
      else ({ s with sched := [] }, ["pcall MISMATCH the schedule expects: " ++ renderLogged c])
    | _, _ => (s, ["pcall MISMATCH the schedule expects no further call"])
  | ["endpass"] => ({ s with sched := [] }, s!"endpass {s.sched.length}" :: (dumpAlloc s.hs ++ dumpView s.hs))
  | "snap" :: rest =>
    match sections rest with
    | [[lx, ly], bins, cbx, cby] =>
      let t := { s.hs with levelX := (int! lx).toNat, levelY := (int! ly).toNat }
      let hs := { t with bins := unflat t.nbX t.nbY (bins.map parseBin), cbx := ints cbx, cby := ints cby }
      let ok := decide (bins.length = t.nbX * t.nbY) && hs.allocOkB
      ({ s with hs := hs }, [if ok then "snap ok" else "snap BAD"] ++ dumpView hs)
    | _ => (s, ["bad-op snap"])
  | [] => (s, [])
  | ws => (s, ["bad-op " ++ " ".intercalate ws])

def main : IO Unit := Driver.run step {}
