import ColoVerif.Model.Freespace
import Driver.CircuitIO
/-
Driver for C15: replays the harness' operations on the free-space model.

  case <k>                                         -> case <k>
  fs <minX> <maxX> <minY> <maxY> <orient> (<ox1> <ox2> <oy1> <oy2>)*
                                                   -> fs <n> (<minX> <maxX> <minY> <maxY> <orient>)*
  circuit … end  (block, see CircuitIO)            -> (nothing)
  rows (<ox1> <ox2> <oy1> <oy2>)*                  -> rows <n> (<minX> <maxX> <minY> <maxY> <orient>)*
                                                      = Circuit.computeRows of the last circuit with these extra obstacles
  enum <gx> <gy> <minX> <maxX> <minY> <maxY> <orient>
        -> enum <count> <digest>   all lists of ≤ 2 obstacles whose corners lie on the grid
           {0..gx-1}×{0..gy-1} (inverted and degenerate rectangles included), in the fixed
           order documented in harness/h_C15.cpp; digest = rolling 64-bit hash of all results
-/
open ColoVerif Driver

def rects : List Int → List Rect
  | a :: b :: c :: d :: rest => ⟨a, b, c, d⟩ :: rects rest
  | _ => []

def showRows (tag : String) (l : List Row) : String :=
  tag ++ " " ++ toString l.length ++
    String.join (l.map fun r => s!" {r.rect.minX} {r.rect.maxX} {r.rect.minY} {r.rect.maxY} {r.orient.code}")

def mix (h : UInt64) (v : Int) : UInt64 :=
  h * 6364136223846793005 + (v + 1099511627776).toNat.toUInt64 + 1442695040888963407

def mixRows (h : UInt64) (l : List Row) : UInt64 :=
  l.foldl (fun h r => mix (mix (mix (mix (mix h r.rect.minX) r.rect.maxX) r.rect.minY) r.rect.maxY) r.orient.code)
    (mix h l.length)

/-- all rectangles with corners on the grid, index = ((x1*gx + x2)*gy + y1)*gy + y2 -/
def gridRects (gx gy : Nat) : Array Rect := Id.run do
  let mut a := #[]
  for x1 in [0:gx] do
    for x2 in [0:gx] do
      for y1 in [0:gy] do
        for y2 in [0:gy] do
          a := a.push (⟨x1, x2, y1, y2⟩ : Rect)
  return a

def enumDigest (gx gy : Nat) (row : Row) : Nat × UInt64 := Id.run do
  let rs := gridRects gx gy
  let n := rs.size
  let mut h : UInt64 := 0
  let mut cnt := 0
  h := mixRows h (row.freespace [])
  cnt := cnt + 1
  for i in [0:n] do
    h := mixRows h (row.freespace [rs[i]!])
    cnt := cnt + 1
  for i in [0:n] do
    for j in [i:n] do
      let obs := if (i + j) % 2 == 0 then [rs[i]!, rs[j]!] else [rs[j]!, rs[i]!]
      h := mixRows h (row.freespace obs)
      cnt := cnt + 1
  return (cnt, h)

def step (c : Circuit) (ws : List String) : Circuit × List String :=
  match circuitLine c ws with
  | some c' => (c', [])
  | none =>
    match ws with
    | ["case", k] => (c, ["case " ++ k])
    | ["end"] => (c, [])
    | "fs" :: a :: b :: cc :: d :: o :: rest =>
      let row : Row := ⟨⟨int! a, int! b, int! cc, int! d⟩, Orient.ofCode (int! o).toNat⟩
      (c, [showRows "fs" (row.freespace (rects (ints rest)))])
    | "rows" :: rest => (c, [showRows "rows" (c.computeRows (rects (ints rest)))])
    | ["enum", gx, gy, a, b, cc, d, o] =>
      let row : Row := ⟨⟨int! a, int! b, int! cc, int! d⟩, Orient.ofCode (int! o).toNat⟩
      let (cnt, h) := enumDigest (int! gx).toNat (int! gy).toNat row
      (c, [s!"enum {cnt} {h.toNat}"])
    | [] => (c, [])
    | ws => (c, ["bad-op " ++ " ".intercalate ws])

def main : IO Unit := Driver.run step ⟨[], [], []⟩
