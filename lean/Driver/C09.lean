import ColoVerif.Model.IncrNet
import ColoVerif.Model.HpwlChecked
import ColoVerif.Gen.OrientTables
import Driver.CircuitIO
/-
Driver for C09.

  case <k>                               -> case <k>
  circuit … end                          -> (nothing)          (Driver.circuitLine block)
  orient <cell> <o>                      -> (nothing)          cellOrientation_[cell] = o
  move <cell> <x> <y>                    -> (nothing)          cellX_[cell] = x, cellY_[cell] = y
  hpwl                                   -> hpwl <v>           Circuit::hpwl()
  hpwlc                                  -> hpwlc ok <v> | hpwlc fault   checked twin: would the C++ int / long long arithmetic overflow?
  offs                                   -> offs <xo yo>*      pinXOffset/pinYOffset of every pin, net order (hand-written model)
  goffs                                  -> offs <xo yo>*      same through the *generated* Gen.pinXOffset/pinYOffset
  placed                                 -> placed <w h>*      placedWidth/placedHeight of every cell (generated)
  build <slot> <x|y> all                 -> build <slot> <value> <nbCells> <nbNets> <nbPins>
  build <slot> <x|y> sub <c0> <c1> …     -> idem, xTopology(circuit, cells)
  upd <slot> <cell> <pos>                -> upd <slot> <value>
  check <slot>                           -> check <slot> ok|fail     (IncrNetModel::check() does not throw)
  dprun <seed>                           -> (nothing)          the harness runs the real DetailedPlacer and derives the next lines
  dpbuild                                -> dp <value>         DetailedPlacer(circuit, params): xtopo_, ytopo_; value()
  dpupd <k> (<cell> <x> <y>)*k           -> dp <value>         DetailedPlacer::updateCellPos(cell, (x, y)) for each triple; value()
  dpdump                                 -> dump dx … / dump dy …   the two models of the placer, complete
  dump <slot>                            -> dump <slot> P <cellPos> N <per net: nbNetPins (pinCell netPinOffset)*> C <per cell: nbCellPins (pinNet cellPinOffset)*>
-/
open ColoVerif ColoVerif.IncrNet Driver

structure St where
  circ : Circuit := ⟨[], [], []⟩
  slots : List (String × Model) := []
  placer : PlacerModels := default

def St.slot (s : St) (k : String) : Model := ((s.slots.find? (·.1 == k)).map (·.2)).getD default
def St.setSlot (s : St) (k : String) (m : Model) : St :=
  { s with slots := (k, m) :: s.slots.filter (·.1 != k) }

def modCell (c : Circuit) (i : Nat) (f : Cell → Cell) : Circuit := { c with cells := c.cells.modify i f }

def allPinsOf (c : Circuit) : List Pin := c.nets.flatMap (·.pins)

def showBuild (k : String) (m : Model) : String :=
  s!"build {k} {m.value} {m.nbCells} {m.nbNets} {m.nbPins}"

def dumpModel (k : String) (m : Model) : String :=
  let nets := (List.range m.nbNets).map fun n =>
    s!" {m.nbNetPins n}" ++ String.join ((List.range (m.nbNetPins n)).map fun j => s!" {m.pinCell n j} {m.netPinOffset n j}")
  let cells := (List.range m.nbCells).map fun c =>
    s!" {m.nbCellPins c}" ++ String.join ((List.range (m.nbCellPins c)).map fun i => s!" {m.pinNet c i} {m.cellPinOffset c i}")
  s!"dump {k} P" ++ String.join (m.cellPos.map fun p => s!" {p}") ++ " N" ++ String.join nets ++ " C" ++ String.join cells

def natOf (s : String) : Nat := (int! s).toNat

def triples : List Int → List (Nat × Int × Int)
  | a :: b :: c :: rest => (a.toNat, b, c) :: triples rest
  | _ => []

def step (s : St) (ws : List String) : St × List String :=
  match circuitLine s.circ ws with
  | some c => ({ s with circ := c }, [])
  | none =>
  match ws with
  | ["case", k] => ({ s with slots := [] }, ["case " ++ k])
  | ["end"] => (s, [])
  | ["orient", i, o] => ({ s with circ := modCell s.circ (natOf i) fun cl => { cl with orient := Orient.ofCode (natOf o) } }, [])
  | ["move", i, x, y] => ({ s with circ := modCell s.circ (natOf i) fun cl => { cl with x := int! x, y := int! y } }, [])
  | ["hpwl"] => (s, [s!"hpwl {s.circ.hpwl}"])
  | ["hpwlc"] =>
    (s, [match Checked.hpwlC s.circ with
         | .ok v => s!"hpwlc ok {v}"
         | .error _ => "hpwlc fault"])
  | ["offs"] =>
    (s, ["offs" ++ String.join ((allPinsOf s.circ).map fun p =>
      s!" {Circuit.pinXOffset (s.circ.cell p.cell) p} {Circuit.pinYOffset (s.circ.cell p.cell) p}")])
  | ["goffs"] =>
    (s, ["offs" ++ String.join ((allPinsOf s.circ).map fun p =>
      let cl := s.circ.cell p.cell
      s!" {Gen.pinXOffset cl.orient cl.w cl.h p.xo p.yo} {Gen.pinYOffset cl.orient cl.w cl.h p.xo p.yo}")])
  | ["placed"] =>
    (s, ["placed" ++ String.join (s.circ.cells.map fun cl =>
      s!" {Gen.placedWidth cl.orient cl.w cl.h} {Gen.placedHeight cl.orient cl.w cl.h}")])
  | "build" :: k :: dir :: "all" :: _ =>
    let m := if dir == "x" then xTopologyAll s.circ else yTopologyAll s.circ
    (s.setSlot k m, [showBuild k m])
  | "build" :: k :: dir :: "sub" :: cells =>
    let cs := cells.map natOf
    let m := if dir == "x" then xTopology s.circ cs else yTopology s.circ cs
    (s.setSlot k m, [showBuild k m])
  | ["upd", k, c, p] =>
    let m := (s.slot k).updateCellPos (natOf c) (int! p)
    (s.setSlot k m, [s!"upd {k} {m.value}"])
  | ["dprun", _] => (s, [])
  | ["dpbuild"] =>
    let p := PlacerModels.build s.circ
    ({ s with placer := p }, [s!"dp {p.value}"])
  | "dpupd" :: _ :: rest =>
    let p := s.placer.run (triples (ints rest))
    ({ s with placer := p }, [s!"dp {p.value}"])
  | ["dpdump"] => (s, [dumpModel "dx" s.placer.x, dumpModel "dy" s.placer.y])
  | ["check", k] => (s, [s!"check {k} " ++ (if (s.slot k).consistent then "ok" else "fail")])
  | ["dump", k] => (s, [dumpModel k (s.slot k)])
  | [] => (s, [])
  | ws => (s, ["bad-op " ++ " ".intercalate ws])

def main : IO Unit := Driver.run step {}
