import ColoVerif.Model.Transp
import ColoVerif.Model.TranspCert
import ColoVerif.Model.TranspFloat
import Driver.Common
/-
Driver for C13: replays the harness' operations on the TransportationProblem model.

  case <k>          -> case <k>            (forgets the previous problem)
  caps c0 c1 …      -> (nothing)
  dems d0 d1 …      -> (nothing)
  irow c0 c1 …      -> (nothing)            one row of integer costs (one per sink)
  frow b0 b1 …      -> (nothing)            one row of float costs, each as the bits of (double)cost (decoded
                                            exactly to a rational; inf/NaN patterns make `build` answer bad-float)
  build             -> costs r0 | r1 | …    constructor (`throw:runtime_error` if check() throws); float costs:
                                            `costsFromFloats` (explicit binary64 rounding over Rat), followed by
                                            `fdomain ok|outside` (floatCostsOk, the hypothesis of costsFromFloats_bound)
  inc               -> caps c0 c1 …         increaseCapacity()
  arow a0 a1 …      -> (nothing)            one row for setAllocations
  setalloc          -> setalloc ok | throw:runtime_error
  solve             -> status ok|<error> ; alloc r0 | r1 | … ; cert ok|rejected ; bound ok|violated
                       (`bound`: costBoundOk, the hypothesis 3·|cost| < INT_MAX of the universal theorems)
  assign            -> assign s0 s1 …       toAssignment()
-/
open ColoVerif.Transp Driver

structure DS where
  caps : List Int := []
  dems : List Int := []
  irows : List (List Int) := []
  frows : List (List Nat) := []
  arows : List (List Int) := []
  pb : Problem := default

def showMat (m : Mat) : String := " | ".intercalate (m.map showInts)

def nat! (s : String) : Nat := s.toNat?.getD 0

def step (s : DS) : List String → DS × List String
  | ["case", k] => ({}, ["case " ++ k])
  | "caps" :: ws => ({ s with caps := ints ws }, [])
  | "dems" :: ws => ({ s with dems := ints ws }, [])
  | "irow" :: ws => ({ s with irows := s.irows ++ [ints ws] }, [])
  | "frow" :: ws => ({ s with frows := s.frows ++ [ws.map nat!] }, [])
  | "arow" :: ws => ({ s with arows := s.arows ++ [ints ws] }, [])
  | ["build"] =>
    if s.frows.isEmpty then
      let pb := Problem.make s.caps s.dems s.irows
      if pb.check then ({ s with pb := pb }, ["costs " ++ showMat pb.costs])
      else ({ s with pb := pb }, ["throw:runtime_error"])
    else if !(s.frows.all (fun r => r.all finiteBits64)) then (s, ["bad-float"])
    else
      let fc := s.frows.map (fun r => r.map ratOfBits64)
      let pb := Problem.makeFloat s.caps s.dems fc
      if pb.check then
        ({ s with pb := pb }, ["costs " ++ showMat pb.costs, if floatCostsOk fc then "fdomain ok" else "fdomain outside"])
      else ({ s with pb := pb }, ["throw:runtime_error"])
  | ["inc"] =>
    let pb := s.pb.increaseCapacity
    ({ s with pb := pb }, ["caps " ++ showInts pb.capacities])
  | ["setalloc"] =>
    let pb := { s.pb with allocations := s.arows }
    if pb.check then ({ s with pb := pb, arows := [] }, ["setalloc ok"])
    else ({ s with pb := pb, arows := [] }, ["throw:runtime_error"])
  | ["solve"] =>
    match solve s.pb with
    | .error e => (s, ["status " ++ e])
    | .ok pb =>
      ({ s with pb := pb },
       ["status ok", "alloc " ++ showMat pb.allocations,
        if certifies pb pb.allocations then "cert ok" else "cert rejected",
        if costBoundOk pb then "bound ok" else "bound violated"])
  | ["assign"] => (s, [("assign " ++ " ".intercalate (s.pb.toAssignment.map toString)).trimAscii.toString])
  | [] => (s, [])
  | ws => (s, ["bad-op " ++ " ".intercalate ws])

def main : IO Unit := Driver.run step {}
