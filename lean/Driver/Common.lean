/-
Shared plumbing for the line-protocol drivers (one executable per property).
-/
namespace Driver

def words (line : String) : List String :=
  (line.trimAscii.toString.splitOn " ").filter (· ≠ "")

def int! (s : String) : Int := s.toInt?.getD 0

def ints (ws : List String) : List Int := ws.map int!

def showInts (l : List Int) : String := " ".intercalate (l.map toString)

/-- Feed stdin line by line through `step`, printing what it returns. -/
partial def loop {σ : Type} (h : IO.FS.Stream) (out : IO.FS.Stream) (step : σ → List String → σ × List String) (s : σ) : IO Unit := do
  let line ← h.getLine
  if line.isEmpty then
    out.flush
    return ()
  let (s', outs) := step s (words line)
  for o in outs do
    out.putStrLn o
  loop h out step s'

def run {σ : Type} (step : σ → List String → σ × List String) (init : σ) : IO Unit := do
  let stdin ← IO.getStdin
  let stdout ← IO.getStdout
  loop stdin stdout step init

end Driver
