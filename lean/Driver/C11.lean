import ColoVerif.Driver.LegalizeIO
import ColoVerif.Model.LegalizeKF
/-
Driver for C11: same protocol as C01 (`legalize` then `again` on legal placements), plus

  kf2        -> kf2 a b     (a = `Legalize.kf2Class f32`: the KF-C11-2 class, row-wide variant, on the movable
                             cells of the current circuit with the current parameters, 0|1;
                             b = `Legalize.kf2`: the classifier proper, pairs of one free segment, 0|1)
-/
open ColoVerif ColoVerif.Legalize

def c11Step (s : Driver.LegSt) (ws : List String) : Driver.LegSt × List String :=
  match ws with
  | ["kf2"] => (s, ["kf2 " ++ (if kf2Class f32 s.par (movable s.circ) then "1" else "0") ++
                          (if kf2 s.par s.circ then " 1" else " 0")])
  | _ => Driver.legStep s ws

def main : IO Unit := Driver.run c11Step {}
