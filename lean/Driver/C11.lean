import ColoVerif.Driver.LegalizeIO
/-
Driver for C11: same protocol as C01 (`legalize` then `again` on legal placements).
-/
def main : IO Unit := Driver.run Driver.legStep {}
