import ColoVerif.Driver.DetPlaceIO
/-
Driver for C05: same protocol as C02 (history replay on the `DetPlace` model) plus the `hpwl`
queries (protocol in ColoVerif/Driver/DetPlaceIO.lean).
-/
def main : IO Unit := Driver.run Driver.DetPlaceIO.stepLine {}
