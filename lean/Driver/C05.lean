import ColoVerif.Driver.DetValueIO
/-
Driver for C05: history replay on the whole `DetailedPlacer` model (placement + the two incremental
net models) with `val` / `hp` / `hpwl` queries (protocol in ColoVerif/Driver/DetValueIO.lean, which
extends the C02 protocol of ColoVerif/Driver/DetPlaceIO.lean).
-/
def main : IO Unit := Driver.run Driver.DetValueIO.stepLine {}
