import ColoVerif.Driver.DetPlaceIO
/-
Driver for C02: replays the harness' operations on the `DetPlace` model
(protocol in ColoVerif/Driver/DetPlaceIO.lean).
-/
def main : IO Unit := Driver.run Driver.DetPlaceIO.stepLine {}
