import ColoVerif.Driver.DetPlaceIO
/-
Driver for C02: replays the harness' operations on the `DetPlace` model
(protocol in ColoVerif/Driver/DetPlaceIO.lean).

Same loop as `Driver.run`, with the answers written in blocks of 64 KiB instead of line by line:
the exhaustive stream of the thorough tier has tens of millions of short lines.
-/
partial def loopBuf (h out : IO.FS.Stream) (s : Driver.DetPlaceIO.DS) (buf : String) : IO Unit := do
  let line ← h.getLine
  if line.isEmpty then
    out.putStr buf
    out.flush
    return ()
  let (s', outs) := Driver.DetPlaceIO.stepLine s (Driver.words line)
  let buf := outs.foldl (fun b o => (b ++ o).push '\n') buf
  if buf.utf8ByteSize ≥ 65536 then
    out.putStr buf
    loopBuf h out s' ""
  else
    loopBuf h out s' buf

def main : IO Unit := do
  loopBuf (← IO.getStdin) (← IO.getStdout) {} ""
