import ColoVerif.Model.CoresChecked
import ColoVerif.Model.TetrisChecked
import ColoVerif.Model.IncrNetChecked
import ColoVerif.Model.DetPlaceChecked
import ColoVerif.Model.Transp1d
import ColoVerif.Model.TranspCostsChecked
import ColoVerif.Model.Transp1dChecked
import ColoVerif.Model.GridChecked
import Driver.Common
/-
Driver for C07: replays the harness' operation streams through the CHECKED models.

  variant asserts|ndebug -> (nothing)   which build the stream comes from
  case <k>          -> case <k>
  xcase <k>         -> xcase <k>, then the answers of the case are held back until `endx`:
  endx              -> the held answers, or the single line `fault` if any operation faulted
  new <b> <e>       -> (nothing)
  cost <w> <t>      -> cost <v>          (getCostC)
  push <w> <t>      -> push <v>          (pushC)
  place             -> place x0 x1 …     (placementC)
  apush <w> <t>     -> (nothing)         AbacusLegalizer::placeCell on a one-row legalizer
  aeval <w> <t>     -> aeval <ok> <dist> AbacusLegalizer::evaluatePlacement
  subdiv <a> <b> <n>-> subdiv <size> <sum> <front> <middle> <back>
  tnew              -> (nothing)         start a TetrisLegalizer instance
  trow <minX> <maxX> <minY> <maxY> <orient>          -> (nothing)
  tcell <w> <h> <polarity> <tx> <ty> <orient>        -> (nothing)
  trun              -> tetris <placed x y orient>*   TetrisLegalizer(rows, cells).run()  (Tetris.initC, tetrisRunC)
  inew <nbCells>    -> (nothing)         IncrNetModelBuilder(nbCells)
  inet <k> (<cell> <offset>)*            -> (nothing)   addNet
  ibuild <pos>*     -> ibuild <value>    build(pos)          (Builder.buildC)
  iupd <cell> <pos> -> iupd <value>      updateCellPos       (Model.updateCellPosC)
  dnew / drow <minX> <maxX> <minY> <maxY> <orient> / dcell <w> <x> <y> <orient> <polarity>   -> (nothing)
  dinit             -> dinit ok|throw:runtime_error     DetailedPlacement constructor (unbounded `construct`: the
                       harness only hands over legal placements, whose constructor sums stay inside a row)
  dcanswap a b / dcaninsert c r p       -> <op> 0|1|throw:runtime_error      (canSwapC / canInsertC)
  dposswap a b / dposinsert c r p       -> <op> x1 y1 x2 y2 / <op> x y       (positionsOnSwapC / positionOnInsertC)
  dswap a b / dinsert c r p             -> <op> ok (x row)* | <op> throw:runtime_error   (swapC / insertC)
  t1d <n> <m> u.. v.. s.. d..           -> t1d k0 k1 .. | t1d throw:runtime_error | fault indexOutOfRange
                                           Transportation1d(u, v, s, d).assign()   (Transp1d.assign)
  t1dc <n> <m> u.. v.. s.. d..          -> t1dc k0 k1 .. | t1dc throw:runtime_error
                                           Transportation1d pb(u, v, s, d); pb.balanceDemand(); pb.assign(); with every
                                           `long long` operation typed  (Transp1d.balanceThenAssignC)
  gd <model> <qf> <tx> <ty> <cx> <cy>   -> gd <m> <e>      the float `distance(tx - cx, ty - cy)` = m·2^e (m odd or 0), as
                                           DensityLegalizer::allDistances / reoptimize evaluate it (binCellCostC);
                                           arguments are the bit patterns of the `float`s
  gt <model> <qf> <nb> <nc> caps.. dems.. (bx by)*nb (cx cy)*nc
                                        -> gtcost <fixed-point costs, row-major> / gt k0 k1 .. | gt throw:runtime_error
                                           reoptimize's transportation: float costs, costsFromIntegers, increaseCapacity,
                                           solve, toAssignment  (reoptCostsC, reoptTransportC)
  gi <nb> <nc> caps.. dems.. costs..    -> gi k0 k1 .. | gi throw:runtime_error     the same with the int-cost constructor
                                           (intTransportC)
  gnew / greg <minX> <maxX> <minY> <maxY>   -> (nothing)       regions of a DensityGrid
  gbuild <binSize>                      -> grid <nbX> <nbY> <limX..> <limY..> <binCapacity row-major..> / gtot <totalCapacity()>
                                           DensityGrid(binSize, regions)   (Grid.DGrid.ofRegionsC, totalCapacityC)
  gdem <d>*                             -> hinit <levelX> <levelY> <totalDemand()>   HierarchicalDensityPlacement(grid, demands)
                                           (totalDemandC; the constructor itself is the unbounded `HState.init`: loops only)
  gop rx|ry|cx|cy                       -> gop <levelX> <levelY> <nbBinsX> <nbBinsY> (<binUsage> <binCapacity>)* row-major
                                           refineX / refineY / coarsenX / coarsenY   (refineXC …, usageSumC, binUsageC, groupCapacityC)
  gupd (<w> <h> <fixed>)*               -> gupd <cellDemand>*   updateCellDemand(circuit): the `long long` areas narrowed to `int`
                                           (circuitDemandsC)

Outside an `xcase` a fault is printed in place as `fault <site>` (the in-domain streams
must never show one).
-/
open ColoVerif ColoVerif.RowLeg ColoVerif.Checked ColoVerif.Legalize Driver

structure DS where
  asr : Bool := true
  st : State := State.new 0 0
  inX : Bool := false
  faulted : Bool := false
  held : List String := []
  trows : List Row := []
  tcells : List LCell := []
  ib : IncrNet.Builder := IncrNet.Builder.new 0
  im : IncrNet.Model := default
  drows : List Row := []
  dcells : List (Int × Int × Int × Orient × Polarity) := []
  ds : Option DetPlace.State := none
  gregs : List Rect := []
  ggrid : Grid.DGrid := default
  gst : Grid.HState := default

def emit (d : DS) (st : State) (line : String) : DS × List String :=
  if d.inX then ({ d with st := st, held := line :: d.held }, []) else ({ d with st := st }, [line])

def fault (d : DS) (f : Fault) : DS × List String :=
  if d.inX then ({ d with faulted := true }, []) else (d, ["fault " ++ f.describe])

def pinPairs : List String → List (Nat × Int)
  | c :: o :: rest => ((int! c).toNat, int! o) :: pinPairs rest
  | _ => []

def showDetBool (op : String) : Except DetPlace.Err Bool → String
  | .ok true => op ++ " 1"
  | .ok false => op ++ " 0"
  | .error _ => op ++ " throw:runtime_error"

def showDetState (op : String) (n : Nat) : Except DetPlace.Err DetPlace.State → String
  | .ok s => op ++ " ok" ++ String.join ((DetPlace.State.intsUpTo n).map fun c => " " ++ toString (s.x c) ++ " " ++ toString (s.row c))
  | .error _ => op ++ " throw:runtime_error"

/-- the DetailedPlacement operations of stages P / Q -/
def detOp (d : DS) (op : String) (a : List Int) : DS × List String :=
  if d.faulted then (d, []) else
  match d.ds with
  | none => (d, ["no-state " ++ op])
  | some s =>
    match op, a with
    | "dcanswap", [c1, c2] =>
      match s.canSwapC d.asr c1 c2 with
      | .ok r => emit d d.st (showDetBool op r)
      | .error f => fault d f
    | "dcaninsert", [c, r, p] =>
      match s.canInsertC c r p with
      | .ok r => emit d d.st (showDetBool op r)
      | .error f => fault d f
    | "dposswap", [c1, c2] =>
      match s.positionsOnSwapC d.asr c1 c2 with
      | .ok q => emit d d.st (op ++ " " ++ toString q.1.1 ++ " " ++ toString q.1.2 ++ " " ++ toString q.2.1 ++ " " ++ toString q.2.2)
      | .error f => fault d f
    | "dposinsert", [c, r, p] =>
      match s.positionOnInsertC c r p with
      | .ok q => emit d d.st (op ++ " " ++ toString q.1 ++ " " ++ toString q.2)
      | .error f => fault d f
    | "dswap", [c1, c2] =>
      match s.swapC d.asr c1 c2 with
      | .ok r => emit { d with ds := (r.toOption).orElse (fun _ => d.ds) } d.st (showDetState op s.nCells r)
      | .error f => fault d f
    | "dinsert", [c, r, p] =>
      match s.insertC c r p with
      | .ok r => emit { d with ds := (r.toOption).orElse (fun _ => d.ds) } d.st (showDetState op s.nCells r)
      | .error f => fault d f
    | _, _ => (d, ["bad-op " ++ op])

/-- the `float` with bit pattern `b`, as a rational (finite values only) -/
def ratOfF32Bits (b : Nat) : Rat :=
  let sign : Rat := if b / 2147483648 % 2 = 1 then -1 else 1
  let ex := b / 8388608 % 256
  let man := b % 8388608
  if ex = 0 then sign * (man : Rat) * Legalize.pow2 (-149)
  else sign * ((man + 8388608 : Nat) : Rat) * Legalize.pow2 ((ex : Int) - 150)

/-- canonical text of a dyadic rational: `m e` with `q = m·2^e`, `m` odd (or `0 0`) -/
partial def stripTwos (m : Int) (e : Int) : Int × Int :=
  if m = 0 then (0, 0) else if m % 2 = 0 then stripTwos (m / 2) (e + 1) else (m, e)

def showDyadic (q : Rat) : String :=
  let (m, e) := stripTwos q.num (-(Nat.log2 q.den : Int))
  toString m ++ " " ++ toString e

def showOutcome (op : String) : Transp.Outcome → String
  | .assignment a => op ++ String.join (a.map fun k => " " ++ toString k)
  | .throwRuntimeError => op ++ " throw:runtime_error"

def pairsOf : List Rat → List (Rat × Rat)
  | a :: b :: rest => (a, b) :: pairsOf rest
  | _ => []

def chunks (n : Nat) : Nat → List Int → List (List Int)
  | 0, _ => []
  | k + 1, l => l.take n :: chunks n k (l.drop n)

/-- `binUsage` and `binCapacity` of every bin of the current view, row-major, through the checked twins -/
def gridViewC (asr : Bool) (s : Grid.HState) : Except Fault (List Int) :=
  Grid.mapC (fun (p : Nat × Nat) =>
      andThen (s.binUsageC asr p.1 p.2) fun u =>
      andThen (s.grid.groupCapacityC ((s.hx.lim s.levelX).getD p.1 0) ((s.hx.lim s.levelX).getD (p.1 + 1) 0)
        ((s.hy.lim s.levelY).getD p.2 0) ((s.hy.lim s.levelY).getD (p.2 + 1) 0)) fun c => .ok [u, c])
    ((List.range s.nbX).flatMap fun i => (List.range s.nbY).map fun j => (i, j))
  |>.map List.flatten

def triples : List Int → List (Int × Int × Int)
  | a :: b :: c :: rest => (a, b, c) :: triples rest
  | _ => []

def step (d : DS) : List String → DS × List String
  | ["variant", v] => ({ d with asr := v != "ndebug" }, [])
  | ["case", k] => ({ d with inX := false, faulted := false, held := [] }, ["case " ++ k])
  | ["xcase", k] => ({ d with inX := true, faulted := false, held := [] }, ["xcase " ++ k])
  | ["endx"] =>
    ({ d with inX := false, faulted := false, held := [] }, if d.faulted then ["fault"] else d.held.reverse)
  | ["new", b, e] => ({ d with st := State.new (int! b) (int! e) }, [])
  | ["cost", w, t] =>
    if d.faulted then (d, []) else
    match getCostC d.asr d.st (int! w) (int! t) with
    | .ok (c, s') => emit d s' ("cost " ++ toString c)
    | .error f => fault d f
  | ["push", w, t] =>
    if d.faulted then (d, []) else
    match pushC d.asr d.st (int! w) (int! t) with
    | .ok (c, s') => emit d s' ("push " ++ toString c)
    | .error f => fault d f
  | ["place"] =>
    if d.faulted then (d, []) else
    match placementC d.asr d.st with
    | .ok p => emit d d.st ("place " ++ showInts p).trimAscii.toString
    | .error f => fault d f
  | ["apush", w, t] =>
    if d.faulted then (d, []) else
    match placeCellC d.asr d.st (int! w) (int! t) with
    | .ok s' => ({ d with st := s' }, [])
    | .error f => fault d f
  | ["aeval", w, t] =>
    if d.faulted then (d, []) else
    match evalPlacementC d.asr d.st (int! w) (int! t) with
    | .ok ((ok, dist), s') => emit d s' ("aeval " ++ (if ok then "1 " else "0 ") ++ toString dist)
    | .error f => fault d f
  | ["subdiv", a, b, n] =>
    if d.faulted then (d, []) else
    match subdivisionsC d.asr (int! a) (int! b) (int! n) with
    | .ok r =>
      emit d d.st ("subdiv " ++ toString r.length ++ " " ++ toString r.sum ++ " " ++ toString (r.headD 0) ++ " "
        ++ toString (r.getD (r.length / 2) 0) ++ " " ++ toString (r.getLastD 0))
    | .error f => fault d f
  | ["tnew"] => ({ d with trows := [], tcells := [] }, [])
  | ["trow", a, b, c, e, o] =>
    ({ d with trows := d.trows ++ [⟨⟨int! a, int! b, int! c, int! e⟩, Orient.ofCode (int! o).toNat⟩] }, [])
  | ["tcell", w, h, p, tx, ty, o] =>
    ({ d with tcells := d.tcells ++ [⟨int! w, int! h, Polarity.ofCode (int! p).toNat, int! tx, int! ty,
                                     Orient.ofCode (int! o).toNat⟩] }, [])
  | ["trun"] =>
    if d.faulted then (d, []) else
    match andThen (Tetris.initC d.trows) (fun t => tetrisRunC t d.tcells) with
    | .ok ps =>
      emit d d.st ("tetris" ++ String.join (ps.map fun p =>
        " " ++ (if p.placed then "1" else "0") ++ " " ++ toString p.x ++ " " ++ toString p.y ++ " " ++ toString p.orient.code))
    | .error f => fault d f
  | ["inew", n] => ({ d with ib := IncrNet.Builder.new (int! n).toNat }, [])
  | "inet" :: _ :: rest => ({ d with ib := d.ib.addNet (pinPairs rest) }, [])
  | "ibuild" :: ps =>
    if d.faulted then (d, []) else
    match d.ib.buildC (ps.map fun p => int! p) with
    | .ok m => emit { d with im := m } d.st ("ibuild " ++ toString m.value)
    | .error f => fault d f
  | ["iupd", c, p] =>
    if d.faulted then (d, []) else
    match d.im.updateCellPosC (int! c).toNat (int! p) with
    | .ok m => emit { d with im := m } d.st ("iupd " ++ toString m.value)
    | .error f => fault d f
  | "t1d" :: n :: m :: rest =>
    if d.faulted then (d, []) else
    let xs := rest.map fun x => int! x
    let n := (int! n).toNat
    let m := (int! m).toNat
    match Transp1d.assign ⟨xs.take n, (xs.drop n).take m, (xs.drop (n + m)).take n, (xs.drop (n + m + n)).take m⟩ with
    | .ok a => emit d d.st ("t1d" ++ String.join (a.map fun k => " " ++ toString k))
    | .error .invalid => emit d d.st "t1d throw:runtime_error"
    | .error .indexOutOfRange => fault d (.indexOutOfRange "Transportation1d")
    | .error .divByZero => fault d (.divByZero "Transportation1d")
    | .error .outOfFuel => fault d (.assertFailed "Transportation1d: model fuel exhausted")
  | "t1dc" :: n :: m :: rest =>
    if d.faulted then (d, []) else
    let xs := rest.map fun x => int! x
    let n := (int! n).toNat
    let m := (int! m).toNat
    match Transp1d.balanceThenAssignC ⟨xs.take n, (xs.drop n).take m, (xs.drop (n + m)).take n, (xs.drop (n + m + n)).take m⟩ with
    | .ok (.ok a) => emit d d.st ("t1dc" ++ String.join (a.map fun k => " " ++ toString k))
    | .ok (.error .invalid) => emit d d.st "t1dc throw:runtime_error"
    | .ok (.error .indexOutOfRange) => fault d (.indexOutOfRange "Transportation1d")
    | .ok (.error .divByZero) => fault d (.divByZero "Transportation1d")
    | .ok (.error .outOfFuel) => fault d (.assertFailed "Transportation1d: model fuel exhausted")
    | .error f => fault d f
  | ["gd", m, qf, tx, ty, cx, cy] =>
    if d.faulted then (d, []) else
    let r := fun (w : String) => ratOfF32Bits (int! w).toNat
    match Transp.binCellCostC (Transp.CostModel.ofCode (int! m).toNat) (r qf) (r tx) (r ty) (r cx) (r cy) with
    | .ok v => emit d d.st ("gd " ++ showDyadic v)
    | .error f => fault d f
  | "gt" :: m :: qf :: nb :: nc :: rest =>
    if d.faulted then (d, []) else
    let nb := (int! nb).toNat
    let nc := (int! nc).toNat
    let caps := (rest.take nb).map fun x => int! x
    let dems := ((rest.drop nb).take nc).map fun x => int! x
    let fl := (rest.drop (nb + nc)).map fun w => ratOfF32Bits (int! w).toNat
    let bins := pairsOf (fl.take (2 * nb))
    let cells := pairsOf ((fl.drop (2 * nb)).take (2 * nc))
    match Transp.reoptCostsC (Transp.CostModel.ofCode (int! m).toNat) (ratOfF32Bits (int! qf).toNat) bins cells with
    | .error f => fault d f
    | .ok fc =>
      match Transp.costsFromIntegersC fc with
      | .error f => fault d f
      | .ok costs =>
        match Transp.reoptTransportC d.asr caps dems fc with
        | .error f => fault d f
        | .ok .throwRuntimeError => emit d d.st "gt throw:runtime_error"
        | .ok o =>
          let (d1, l1) := emit d d.st ("gtcost " ++ showInts costs.flatten).trimAscii.toString
          let (d2, l2) := emit d1 d1.st (showOutcome "gt" o)
          (d2, l1 ++ l2)
  | "gi" :: nb :: nc :: rest =>
    if d.faulted then (d, []) else
    let nb := (int! nb).toNat
    let nc := (int! nc).toNat
    let xs := rest.map fun x => int! x
    match Transp.intTransportC d.asr (xs.take nb) ((xs.drop nb).take nc) (chunks nc nb (xs.drop (nb + nc))) with
    | .ok o => emit d d.st (showOutcome "gi" o)
    | .error f => fault d f
  | ["gnew"] => ({ d with gregs := [] }, [])
  | ["greg", a, b, c, e] => ({ d with gregs := d.gregs ++ [⟨int! a, int! b, int! c, int! e⟩] }, [])
  | ["gbuild", bs] =>
    if d.faulted then (d, []) else
    match Grid.DGrid.ofRegionsC d.asr (int! bs) d.gregs with
    | .error f => fault d f
    | .ok g =>
      match g.totalCapacityC with
      | .error f => fault d f
      | .ok t =>
        let (d1, l1) := emit { d with ggrid := g } d.st
          ("grid " ++ toString g.nbX ++ " " ++ toString g.nbY ++ " " ++ showInts (g.limX ++ g.limY ++ g.cap.flatten)).trimAscii.toString
        let (d2, l2) := emit d1 d1.st ("gtot " ++ toString t)
        (d2, l1 ++ l2)
  | "gdem" :: ds =>
    if d.faulted then (d, []) else
    let s := Grid.HState.init d.ggrid (ds.map fun x => int! x)
    match s.totalDemandC with
    | .error f => fault d f
    | .ok t => emit { d with gst := s } d.st ("hinit " ++ toString s.levelX ++ " " ++ toString s.levelY ++ " " ++ toString t)
  | ["gop", o] =>
    if d.faulted then (d, []) else
    let r := match o with
      | "rx" => d.gst.refineXC d.asr
      | "ry" => d.gst.refineYC d.asr
      | "cx" => d.gst.coarsenXC d.asr
      | _ => d.gst.coarsenYC d.asr
    match r with
    | .error f => fault d f
    | .ok s =>
      -- check(): usage += binUsage(i, j) over the view, assert(usage == totalDemand())
      match andThen (s.usageSumC d.asr) fun _ => gridViewC d.asr s with
      | .error f => fault d f
      | .ok v =>
        emit { d with gst := s } d.st ("gop " ++ toString s.levelX ++ " " ++ toString s.levelY ++ " " ++ toString s.nbX ++ " " ++
          toString s.nbY ++ " " ++ showInts v).trimAscii.toString
  | "gupd" :: xs =>
    if d.faulted then (d, []) else
    let cells : List Cell := (triples (xs.map fun x => int! x)).map fun t =>
      { w := t.1, h := t.2.1, x := 0, y := 0, orient := .N, fixed := decide (t.2.2 ≠ (0 : Int)), obstruction := false, pol := .ANY }
    match Grid.circuitDemandsC { cells := cells, nets := [], rows := [] } with
    | .error f => fault d f
    | .ok ds => emit d d.st ("gupd " ++ showInts ds).trimAscii.toString
  | ["dnew"] => ({ d with drows := [], dcells := [], ds := none }, [])
  | ["drow", a, b, c, e, o] =>
    ({ d with drows := d.drows ++ [⟨⟨int! a, int! b, int! c, int! e⟩, Orient.ofCode (int! o).toNat⟩] }, [])
  | ["dcell", w, x, y, o, p] =>
    ({ d with dcells := d.dcells ++ [(int! w, int! x, int! y, Orient.ofCode (int! o).toNat, Polarity.ofCode (int! p).toNat)] }, [])
  | ["dinit"] =>
    if d.faulted then (d, []) else
    match DetPlace.construct d.drows d.dcells.length (DetPlace.ofList 0 (d.dcells.map (·.1)))
        (DetPlace.ofList 0 (d.dcells.map (·.2.1))) (DetPlace.ofList 0 (d.dcells.map (·.2.2.1)))
        (DetPlace.ofList default (d.dcells.map (·.2.2.2.1))) (DetPlace.ofList default (d.dcells.map (·.2.2.2.2)))
        (fun i => i) with
    | .ok s => emit { d with ds := some s } d.st "dinit ok"
    | .error _ => emit { d with ds := none } d.st "dinit throw:runtime_error"
  | [op, a, b] => detOp d op [int! a, int! b]
  | [op, a, b, c] => detOp d op [int! a, int! b, int! c]
  | [] => (d, [])
  | ws => (d, ["bad-op " ++ " ".intercalate ws])

def main : IO Unit := Driver.run step {}
