import ColoVerif.Model.Expand
import ColoVerif.Model.ExpandF
import Driver.CircuitIO
/-
Driver for C18: replays the harness' operations on the expansion model.  Floating-point values travel
as exact dyadic rationals `<mant> <exp2>` (value = mant * 2^exp2, mant odd or 0 — the format of
`vc::exactDouble`).

  case <k>                                   -> case <k>
  circuit … end                              -> (nothing)
  rowarea <m> <e>                            -> rowarea <n>
  todensity <t> <te> <m> <me> <x> <xe>       -> widths w0 w1 …     (expandCellsToDensity on the last circuit)
  byfactor <ret?> <d> <de> <m> <me> (<f> <fe>)*
        -> byfactor [<ret mant> <ret exp>] widths w0 w1 …  |  throw:runtime_error   (ret printed iff <ret?> = 1)
  byfactor_legacy …                          same with the pre-repair accumulation of the expanded area
  cellexp <fp> <fpe> <pf> <pfe> (<minX> <maxX> <minY> <maxY> <c> <ce>)*
        -> cellexp (<mant> <exp>)*  |  throw:runtime_error

The same four operations on the binary64/binary32-exact model `Model/ExpandF.lean` (arbitrary, non-dyadic
arguments; every answer compared exactly with the real code):
  rowareaF …   -> rowareaF <n>            todensityF … -> widthsF w0 w1 …
  byfactorF <d> <de> <m> <me> (<f> <fe>)* -> byfactorF <ret mant> <ret exp> widths w0 w1 … | throw:runtime_error
  cellexpF …   -> cellexpF (<mant> <exp>)* | throw:runtime_error
each answers `out-of-domain` when the guard of the operation (`ExpandF.rowGuard`, `densityGuard`,
`byFactorGuard`, `cellExpansionGuard`) is false.
-/
open ColoVerif ColoVerif.Expand Driver

def dyadic (m e : Int) : Rat :=
  if e ≥ 0 then (m : Rat) * ((2 : Rat) ^ e.toNat) else (m : Rat) / ((2 : Rat) ^ (-e).toNat)

/-- strip factors of two: `n = m * 2^k` with `m` odd (fuel-bounded) -/
def oddPart : Nat → Int → Int → Int × Int
  | 0, n, k => (n, k)
  | fuel + 1, n, k => if n ≠ 0 && n % 2 == 0 then oddPart fuel (n / 2) (k + 1) else (n, k)

def showDyadic (q : Rat) : String :=
  if q.num == 0 then "0 0"
  else
    let (dm, dk) := oddPart 4096 (q.den : Int) 0
    if dm == 1 then
      if dk == 0 then
        let (m, k) := oddPart 4096 q.num 0
        s!"{m} {k}"
      else s!"{q.num} {-dk}"
    else s!"q{q.num}/{q.den}"

def dyadics : List Int → List Rat
  | m :: e :: rest => dyadic m e :: dyadics rest
  | _ => []

def regions : List Int → List (Rect × Rat)
  | a :: b :: c :: d :: m :: e :: rest => (⟨a, b, c, d⟩, dyadic m e) :: regions rest
  | _ => []

def showWidths (c : Circuit) : String := "widths" ++ String.join (c.cells.map fun cl => s!" {cl.w}")

def showByFactor (withRet : Bool) : Option (Circuit × Rat) → String
  | none => "throw:runtime_error"
  | some (c, ret) => "byfactor " ++ (if withRet then showDyadic ret ++ " " else "") ++ showWidths c

def step (c : Circuit) (ws : List String) : Circuit × List String :=
  match circuitLine c ws with
  | some c' => (c', [])
  | none =>
    match ws with
    | ["case", k] => (c, ["case " ++ k])
    | ["end"] => (c, [])
    | ["rowarea", m, e] => (c, [s!"rowarea {rowPlacementArea c (dyadic (int! m) (int! e))}"])
    | ["todensity", t, te, m, me, x, xe] =>
      (c, [showWidths (expandCellsToDensity c (dyadic (int! t) (int! te)) (dyadic (int! m) (int! me))
            (dyadic (int! x) (int! xe)))])
    | "byfactor" :: r :: d :: de :: m :: me :: rest =>
      (c, [showByFactor (r == "1") (expandCellsByFactor c (dyadics (ints rest)) (dyadic (int! d) (int! de))
            (dyadic (int! m) (int! me)))])
    | "byfactor_legacy" :: r :: d :: de :: m :: me :: rest =>
      (c, [showByFactor (r == "1") (LegacyExpand.expandCellsByFactor c (dyadics (ints rest))
            (dyadic (int! d) (int! de)) (dyadic (int! m) (int! me)))])
    | "cellexp" :: fp :: fpe :: pf :: pfe :: rest =>
      match computeCellExpansion c (regions (ints rest)) (dyadic (int! fp) (int! fpe)) (dyadic (int! pf) (int! pfe)) with
      | none => (c, ["throw:runtime_error"])
      | some l => (c, [("cellexp " ++ " ".intercalate (l.map showDyadic)).trimAscii.toString])
    | ["rowareaF", m, e] =>
      if ExpandF.rowGuard c (dyadic (int! m) (int! e)) then
        (c, [s!"rowareaF {ExpandF.rowPlacementArea c (dyadic (int! m) (int! e))}"])
      else (c, ["out-of-domain"])
    | ["todensityF", t, te, m, me, x, xe] =>
      if ExpandF.densityGuard c (dyadic (int! t) (int! te)) (dyadic (int! m) (int! me)) (dyadic (int! x) (int! xe)) then
        (c, [showWidths (ExpandF.expandCellsToDensity c (dyadic (int! t) (int! te)) (dyadic (int! m) (int! me))
              (dyadic (int! x) (int! xe))) ++ " F"])
      else (c, ["out-of-domain"])
    | "byfactorF" :: d :: de :: m :: me :: rest =>
      if ExpandF.byFactorGuard c (dyadics (ints rest)) (dyadic (int! d) (int! de)) (dyadic (int! m) (int! me)) then
        (c, [showByFactor true (ExpandF.expandCellsByFactor c (dyadics (ints rest)) (dyadic (int! d) (int! de))
              (dyadic (int! m) (int! me))) ++ " F"])
      else (c, ["out-of-domain"])
    | "cellexpF" :: fp :: fpe :: pf :: pfe :: rest =>
      if ExpandF.cellExpansionGuard (regions (ints rest)) (dyadic (int! fp) (int! fpe)) (dyadic (int! pf) (int! pfe)) then
        match ExpandF.computeCellExpansion c (regions (ints rest)) (dyadic (int! fp) (int! fpe))
            (dyadic (int! pf) (int! pfe)) with
        | none => (c, ["throw:runtime_error F"])
        | some l => (c, [("cellexpF " ++ " ".intercalate (l.map showDyadic)).trimAscii.toString])
      else (c, ["out-of-domain"])
    | [] => (c, [])
    | ws => (c, ["bad-op " ++ " ".intercalate ws])

def main : IO Unit := Driver.run step ⟨[], [], []⟩
