import ColoVerif.Model.Export
import Driver.CircuitIO
/-
Driver for C03: replays the harness' export operations on the model of the three export
functions (Model/Export.lean).

  case <k>                                   -> case <k>
  circuit … end                              -> (nothing; becomes the current circuit)
  gexp <n> (<xm> <xe> <ym> <ye>)*n           -> gexp sol …          (x = xm·2^xe, exact)
  lexp <m> (<x> <y> <orient> <placed>)*m     -> lexp ok|throw:runtime_error sol …
  dexp <m> (<cellIndex> <x> <y> <orient>)*m  -> dexp sol …
  gcb <n> …   /  dcb <m> …                   -> gcb sol … / dcb sol …   same arguments as gexp / dexp:
                                                `GlobalPlacer::callback` / `DetailedPlacer::callback` with a callback
                                                installed; the result becomes the current circuit
  gfin <wm> <we> <n> (<xLBm> <xLBe> <xUBm> <xUBe> <yLBm> <yLBe> <yUBm> <yUBe>)*n
                                             -> gfin sol …   `GlobalPlacer::exportPlacement(circuit)`: blend, then export
-/
open ColoVerif ColoVerif.Export Driver

def dyadic (m e : Int) : Rat := (m : Rat) * (2 : Rat) ^ e

def quads : List Int → List (Int × Int × Int × Int)
  | a :: b :: c :: d :: rest => (a, b, c, d) :: quads rest
  | _ => []

def octs : List Int → List (Int × Int × Int × Int × Int × Int × Int × Int)
  | a :: b :: c :: d :: e :: f :: g :: h :: rest => (a, b, c, d, e, f, g, h) :: octs rest
  | _ => []

def globalOf (rest : List String) : List Rat × List Rat :=
  ((quads (ints rest)).map (fun (xm, xe, _, _) => dyadic xm xe), (quads (ints rest)).map (fun (_, _, ym, ye) => dyadic ym ye))

def detOf (m : String) (rest : List String) : DetVectors :=
  ⟨(int! m).toNat, (quads (ints rest)).map (·.1), (quads (ints rest)).map (·.2.1), (quads (ints rest)).map (·.2.2.1),
   (quads (ints rest)).map (fun t => Orient.ofCode t.2.2.2.toNat)⟩

def step (c : Circuit) (ws : List String) : Circuit × List String :=
  match ws with
  | "gcb" :: _ :: rest =>
    let r := globalCallback true c (globalOf rest).1 (globalOf rest).2
    (r, ["gcb " ++ showSolution r])
  | "dcb" :: m :: rest =>
    let r := detailedCallback true c (detOf m rest)
    (r, ["dcb " ++ showSolution r])
  | "gfin" :: wm :: we :: _ :: rest =>
    let o := octs (ints rest)
    let G : GlobalVectors := ⟨dyadic (int! wm) (int! we), o.map (fun t => dyadic t.1 t.2.1), o.map (fun t => dyadic t.2.2.1 t.2.2.2.1),
                             o.map (fun t => dyadic t.2.2.2.2.1 t.2.2.2.2.2.1), o.map (fun t => dyadic t.2.2.2.2.2.2.1 t.2.2.2.2.2.2.2)⟩
    (c, ["gfin " ++ showSolution (exportGlobalBlend c G)])
  | ["case", k] => (c, ["case " ++ k])
  | ["end"] => (c, [])
  | [] => (c, [])
  | "gexp" :: _ :: rest =>
    let q := quads (ints rest)
    let r := exportGlobal c (q.map fun (xm, xe, _, _) => dyadic xm xe) (q.map fun (_, _, ym, ye) => dyadic ym ye)
    (c, ["gexp " ++ showSolution r])
  | "lexp" :: m :: rest =>
    let q := quads (ints rest)
    let L : LegVectors := ⟨(int! m).toNat, q.map (·.1), q.map (·.2.1), q.map (fun t => Orient.ofCode t.2.2.1.toNat),
                          q.map (fun t => t.2.2.2 != 0)⟩
    let r := exportLegal c L
    (c, ["lexp " ++ (if r.1 then "throw:runtime_error " else "ok ") ++ showSolution r.2])
  | "dexp" :: m :: rest =>
    let q := quads (ints rest)
    let D : DetVectors := ⟨(int! m).toNat, q.map (·.1), q.map (·.2.1), q.map (·.2.2.1),
                          q.map (fun t => Orient.ofCode t.2.2.2.toNat)⟩
    (c, ["dexp " ++ showSolution (exportDetailed c D)])
  | _ =>
    match circuitLine c ws with
    | some c' => (c', [])
    | none => (c, ["bad-op " ++ " ".intercalate ws])

def main : IO Unit := Driver.run step default
