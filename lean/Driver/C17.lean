import ColoVerif.Model.NetAsm
import ColoVerif.Model.NetTopology
import Driver.Common
import Driver.CircuitIO
/-
Driver for C17: replays the harness' `NetModel` construction on the assembly model and prints
the assembled linear system exactly.  Numbers travel as `<mantissa> <exp2>` (value =
mantissa · 2^exp2, mantissa odd or zero) — the exact value of the C++ float.

  case <k>                                       -> case <k>
  cfg <nbCells> <mode> <epsM> <epsE>             -> (nothing)   mode: star0|b2b|star|clique|lightstar
  pl <n> (<m> <e>)*n                             -> (nothing)   placement the model is built around
  net3 <wM> <wE> <k> (<cell> <oM> <oE>)*k        -> (nothing)   addNet(cells, offsets, weight)
  net5 <wM> <wE> <minM> <minE> <maxM> <maxE> <k> (<cell> <oM> <oE>)*k
                                                 -> (nothing)   addNet(cells, offsets, minPin, maxPin, weight)
  pen <cutM> <cutE> <n> (<tM> <tE> <sM> <sE>)*n  -> (nothing)   addPenalty(pl, target, strength, cutoff)
  asm                                            -> dim / mat / rhs / init lines of the finalized system
  apx <nT> (<row> <col> <vM> <vE>)*nT <nR> (<rM> <rE>)*nR
                                                 -> dim / pat / init lines of the finalized system (exact), then
                                                    `apx ok <nT> <nR>` if the captured single-precision values are
                                                    within the derived rounding bound of the model's exact rationals,
                                                    else `apx bad …` (approximate stream, non-dyadic weights)

Rounding bound of the approximate stream (inputs: placements, offsets, fixed positions, targets are
small multiples of 1/2, so every position, distance, `max`, `min` and offset difference of the
assembly is computed exactly in binary32; only operations involving a weight round).  With
`u = 2^-24` (round to nearest) and `K` = number of rounded operations on the path from the stored
weight to a matrix entry of the variant (`kOf`: initial star `W/nb` 1; star `W/max` 1; B2B
`W/(nb-1)`, `/max` 2; clique `2W`, `/(nb(nb-1))`, `/max` 3; light star `W/(nb-1)`, `/max`, `w1+w2` 3;
penalty `s/max` 1 ≤ K):
  matrix entry   |v_float − v| ≤ ((1+u)^K − 1) · |v|
  rhs entry r    |b_float − b| ≤ ((1+u)^(K+1+n_r) − 1) · D_r · 5C
where `n_r` = number of `rhs_[r] += w·δ` updates (= diagonal triplets of row r before `finalize`),
each term being one more rounded product and the accumulation at most `n_r` rounded additions,
`D_r` = sum of the diagonal entries of row r (= Σ w over those updates, exact model values),
and `|δ| ≤ 5C` with `C` the largest magnitude among placements, offsets, fixed positions and targets
(`δ` is a difference of two of: a stored offset/position (≤ C), 0, `pos − starPos` (≤ 4C)).

Topology stream (`NetModel::xTopology` / `yTopology` of a `Circuit`):

  circuit … end                                  -> (nothing)   block of `vc::dumpCircuit` (Driver.CircuitIO)
  topo x|y                                       -> topo <axis> <nbCells> <nbNets>
                                                    tnet <wM> <wE> <k> (<cell> <oM> <oE>)*k     per stored net
-/
open ColoVerif.NetAsm ColoVerif.NetTopology Driver

structure St where
  nbCells : Nat := 0
  mode : Mode := .star0
  eps : Rat := 1
  pl : List Rat := []
  raws : List RawNet := []     -- newest first
  pen : Option Penalty := none
  circ : ColoVerif.Circuit := ⟨[], [], []⟩

def dy (m e : String) : Rat := ((int! m : Int) : Rat) * (2 : Rat) ^ (int! e)

partial def stripTwos (m : Int) (e : Int) : Int × Int :=
  if m ≠ 0 ∧ m % 2 = 0 then stripTwos (m / 2) (e + 1) else (m, e)

/-- canonical exact rendering of a dyadic rational; anything else is printed as a fraction
(and then differs from what the C++ side can print). -/
def showRat (q : Rat) : String :=
  if q.num = 0 then "0 0"
  else if q.den = 1 then
    let (m, e) := stripTwos q.num 0
    toString m ++ " " ++ toString e
  else if q.den = 2 ^ (Nat.log2 q.den) then
    toString q.num ++ " -" ++ toString (Nat.log2 q.den)
  else toString q.num ++ "/" ++ toString q.den

def parseMode : String → Mode
  | "b2b" => .b2b
  | "star" => .star
  | "clique" => .clique
  | "lightstar" => .lightStar
  | _ => .star0

def parsePins : Nat → List String → List Pin
  | 0, _ => []
  | k + 1, c :: m :: e :: rest => (int! c, dy m e) :: parsePins k rest
  | _, _ => []

def parseDy : List String → List Rat
  | m :: e :: rest => dy m e :: parseDy rest
  | _ => []

def parsePen : List String → List (Rat × Rat)
  | tm :: te :: sm :: se :: rest => (dy tm te, dy sm se) :: parsePen rest
  | _ => []

def showTriplets (ts : List (Nat × Nat × Rat)) : String :=
  " ".intercalate (ts.map fun t => toString t.1 ++ " " ++ toString t.2.1 ++ " " ++ showRat t.2.2)

/-- number of rounded float operations between a stored weight and a matrix entry -/
def kOf : Mode → Nat
  | .star0 => 1
  | .star => 1
  | .b2b => 2
  | .clique => 3
  | .lightStar => 3

/-- `(1 + 2^-24)^k − 1` -/
def gammaU (k : Nat) : Rat := (1 + 1 / (16777216 : Rat)) ^ k - 1

def qabs (q : Rat) : Rat := if q < 0 then -q else q

def maxAbs (l : List Rat) : Rat := l.foldl (fun m v => if m < qabs v then qabs v else m) 0

/-- largest magnitude among placements, offsets, fixed positions and penalty targets -/
def coordBound (s : List Rat) (raws : List RawNet) (pen : Option Penalty) : Rat :=
  let offs := raws.foldl (fun acc r => acc ++ r.pins.map (·.2) ++
    (match r.fixedMinMax with | some (a, b) => [a, b] | none => [])) []
  let tg := match pen with | some p => p.target | none => []
  maxAbs (s ++ offs ++ tg)

def parseTrip : Nat → List String → List (Nat × Nat × Rat) × List String
  | 0, rest => ([], rest)
  | k + 1, r :: c :: m :: e :: rest =>
    let (ts, rest') := parseTrip k rest
    (((int! r).toNat, (int! c).toNat, dy m e) :: ts, rest')
  | _, rest => ([], rest)

/-- first index where the two triplet lists differ beyond the bound, if any -/
def cmpTrip (g : Rat) : Nat → List (Nat × Nat × Rat) → List (Nat × Nat × Rat) → Option String
  | _, [], [] => none
  | i, a :: as, b :: bs =>
    if a.1 ≠ b.1 ∨ a.2.1 ≠ b.2.1 then some ("pattern " ++ toString i)
    else if g * qabs b.2.2 < qabs (a.2.2 - b.2.2) then some ("mat " ++ toString i)
    else cmpTrip g (i + 1) as bs
  | i, _, _ => some ("count " ++ toString i)

def diagStats (mat : List (Nat × Nat × Rat)) (r : Nat) : Nat × Rat :=
  mat.foldl (fun acc t => if t.1 = r ∧ t.2.1 = r then (acc.1 + 1, acc.2 + qabs t.2.2) else acc) (0, 0)

def cmpRhs (k : Nat) (c5 : Rat) (mat : List (Nat × Nat × Rat)) : Nat → List Rat → List Rat → Option String
  | _, [], [] => none
  | r, a :: as, b :: bs =>
    let st := diagStats mat r
    if gammaU (k + 1 + st.1) * st.2 * c5 < qabs (a - b) then some ("rhs " ++ toString r)
    else cmpRhs k c5 mat (r + 1) as bs
  | r, _, _ => some ("rhscount " ++ toString r)

def showPattern (ts : List (Nat × Nat × Rat)) : String :=
  " ".intercalate (ts.map fun t => toString t.1 ++ " " ++ toString t.2.1)

def showNet (n : ColoVerif.NetAsm.Net) : String :=
  "tnet " ++ showRat n.weight ++ " " ++ toString n.pins.length ++
    String.join (n.pins.map fun p => " " ++ toString p.1 ++ " " ++ showRat p.2)

def step (s : St) : List String → St × List String
  | ["case", k] => ({}, ["case " ++ k])
  | ["cfg", n, mode, em, ee] => ({ s with nbCells := (int! n).toNat, mode := parseMode mode, eps := dy em ee }, [])
  | "pl" :: _ :: rest => ({ s with pl := parseDy rest }, [])
  | "net3" :: wm :: we :: k :: rest =>
    ({ s with raws := ⟨dy wm we, parsePins (int! k).toNat rest, none⟩ :: s.raws }, [])
  | "net5" :: wm :: we :: am :: ae :: bm :: be :: k :: rest =>
    ({ s with raws := ⟨dy wm we, parsePins (int! k).toNat rest, some (dy am ae, dy bm be)⟩ :: s.raws }, [])
  | "pen" :: cm :: ce :: _ :: rest =>
    let ts := parsePen rest
    ({ s with pen := some ⟨ts.map (·.1), ts.map (·.2), dy cm ce⟩ }, [])
  | ["asm"] =>
    let sys := finalize (assemble s.mode s.nbCells s.raws.reverse s.pl s.eps s.pen)
    (s, ["dim " ++ toString sys.nbCells ++ " " ++ toString sys.matSize,
         ("mat " ++ toString sys.mat.length ++ " " ++ showTriplets sys.triplets).trimAscii.toString,
         ("rhs " ++ " ".intercalate (sys.rhs.map showRat)).trimAscii.toString,
         ("init " ++ " ".intercalate (sys.initial.map showRat)).trimAscii.toString])
  | "apx" :: nT :: rest =>
    let pre := assemble s.mode s.nbCells s.raws.reverse s.pl s.eps s.pen
    let sys := finalize pre
    let (ts, rest') := parseTrip (int! nT).toNat rest
    let rhs := match rest' with | _ :: r => parseDy r | [] => []
    let k := kOf s.mode
    let c5 := 5 * coordBound s.pl s.raws s.pen
    let verdict :=
      match cmpTrip (gammaU k) 0 ts sys.triplets with
      | some e => "apx bad " ++ e
      | none =>
        match cmpRhs k c5 pre.mat 0 rhs sys.rhs with
        | some e => "apx bad " ++ e
        | none => "apx ok " ++ toString ts.length ++ " " ++ toString rhs.length
    (s, ["dim " ++ toString sys.nbCells ++ " " ++ toString sys.matSize,
         ("pat " ++ toString sys.mat.length ++ " " ++ showPattern sys.triplets).trimAscii.toString,
         ("init " ++ " ".intercalate (sys.initial.map showRat)).trimAscii.toString,
         verdict])
  | ["topo", ax] =>
    let a : Axis := if ax = "y" then .y else .x
    let nets := topology a s.circ
    (s, ("topo " ++ ax ++ " " ++ toString s.circ.cells.length ++ " " ++ toString nets.length) :: nets.map showNet)
  | ["end"] => (s, [])
  | [] => (s, [])
  | ws =>
    match circuitLine s.circ ws with
    | some c => ({ s with circ := c }, [])
    | none => (s, ["bad-op " ++ " ".intercalate ws])

def main : IO Unit := Driver.run step {}
