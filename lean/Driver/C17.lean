import ColoVerif.Model.NetAsm
import ColoVerif.Model.NetTopology
import Driver.Common
import Driver.CircuitIO
/-
Driver for C17: replays the harness' `NetModel` construction on the assembly model and prints
the assembled linear system exactly.  Numbers travel as `<mantissa> <exp2>` (value =
mantissa · 2^exp2, mantissa odd or zero) — the exact value of the C++ float.

  case <k>                                       -> case <k>
  cfg <nbCells> <mode> <epsM> <epsE>             -> (nothing)   mode: star0|b2b|star|clique|lightstar
  pl <n> (<m> <e>)*n                             -> (nothing)   placement the model is built around
  net3 <wM> <wE> <k> (<cell> <oM> <oE>)*k        -> (nothing)   addNet(cells, offsets, weight)
  net5 <wM> <wE> <minM> <minE> <maxM> <maxE> <k> (<cell> <oM> <oE>)*k
                                                 -> (nothing)   addNet(cells, offsets, minPin, maxPin, weight)
  pen <cutM> <cutE> <n> (<tM> <tE> <sM> <sE>)*n  -> (nothing)   addPenalty(pl, target, strength, cutoff)
  asm                                            -> dim / mat / rhs / init lines of the finalized system

Topology stream (`NetModel::xTopology` / `yTopology` of a `Circuit`):

  circuit … end                                  -> (nothing)   block of `vc::dumpCircuit` (Driver.CircuitIO)
  topo x|y                                       -> topo <axis> <nbCells> <nbNets>
                                                    tnet <wM> <wE> <k> (<cell> <oM> <oE>)*k     per stored net
-/
open ColoVerif.NetAsm ColoVerif.NetTopology Driver

structure St where
  nbCells : Nat := 0
  mode : Mode := .star0
  eps : Rat := 1
  pl : List Rat := []
  raws : List RawNet := []     -- newest first
  pen : Option Penalty := none
  circ : ColoVerif.Circuit := ⟨[], [], []⟩

def dy (m e : String) : Rat := ((int! m : Int) : Rat) * (2 : Rat) ^ (int! e)

partial def stripTwos (m : Int) (e : Int) : Int × Int :=
  if m ≠ 0 ∧ m % 2 = 0 then stripTwos (m / 2) (e + 1) else (m, e)

/-- canonical exact rendering of a dyadic rational; anything else is printed as a fraction
(and then differs from what the C++ side can print). -/
def showRat (q : Rat) : String :=
  if q.num = 0 then "0 0"
  else if q.den = 1 then
    let (m, e) := stripTwos q.num 0
    toString m ++ " " ++ toString e
  else if q.den = 2 ^ (Nat.log2 q.den) then
    toString q.num ++ " -" ++ toString (Nat.log2 q.den)
  else toString q.num ++ "/" ++ toString q.den

def parseMode : String → Mode
  | "b2b" => .b2b
  | "star" => .star
  | "clique" => .clique
  | "lightstar" => .lightStar
  | _ => .star0

def parsePins : Nat → List String → List Pin
  | 0, _ => []
  | k + 1, c :: m :: e :: rest => (int! c, dy m e) :: parsePins k rest
  | _, _ => []

def parseDy : List String → List Rat
  | m :: e :: rest => dy m e :: parseDy rest
  | _ => []

def parsePen : List String → List (Rat × Rat)
  | tm :: te :: sm :: se :: rest => (dy tm te, dy sm se) :: parsePen rest
  | _ => []

def showTriplets (ts : List (Nat × Nat × Rat)) : String :=
  " ".intercalate (ts.map fun t => toString t.1 ++ " " ++ toString t.2.1 ++ " " ++ showRat t.2.2)

def showNet (n : ColoVerif.NetAsm.Net) : String :=
  "tnet " ++ showRat n.weight ++ " " ++ toString n.pins.length ++
    String.join (n.pins.map fun p => " " ++ toString p.1 ++ " " ++ showRat p.2)

def step (s : St) : List String → St × List String
  | ["case", k] => ({}, ["case " ++ k])
  | ["cfg", n, mode, em, ee] => ({ s with nbCells := (int! n).toNat, mode := parseMode mode, eps := dy em ee }, [])
  | "pl" :: _ :: rest => ({ s with pl := parseDy rest }, [])
  | "net3" :: wm :: we :: k :: rest =>
    ({ s with raws := ⟨dy wm we, parsePins (int! k).toNat rest, none⟩ :: s.raws }, [])
  | "net5" :: wm :: we :: am :: ae :: bm :: be :: k :: rest =>
    ({ s with raws := ⟨dy wm we, parsePins (int! k).toNat rest, some (dy am ae, dy bm be)⟩ :: s.raws }, [])
  | "pen" :: cm :: ce :: _ :: rest =>
    let ts := parsePen rest
    ({ s with pen := some ⟨ts.map (·.1), ts.map (·.2), dy cm ce⟩ }, [])
  | ["asm"] =>
    let sys := finalize (assemble s.mode s.nbCells s.raws.reverse s.pl s.eps s.pen)
    (s, ["dim " ++ toString sys.nbCells ++ " " ++ toString sys.matSize,
         ("mat " ++ toString sys.mat.length ++ " " ++ showTriplets sys.triplets).trimAscii.toString,
         ("rhs " ++ " ".intercalate (sys.rhs.map showRat)).trimAscii.toString,
         ("init " ++ " ".intercalate (sys.initial.map showRat)).trimAscii.toString])
  | ["topo", ax] =>
    let a : Axis := if ax = "y" then .y else .x
    let nets := topology a s.circ
    (s, ("topo " ++ ax ++ " " ++ toString s.circ.cells.length ++ " " ++ toString nets.length) :: nets.map showNet)
  | ["end"] => (s, [])
  | [] => (s, [])
  | ws =>
    match circuitLine s.circ ws with
    | some c => ({ s with circ := c }, [])
    | none => (s, ["bad-op " ++ " ".intercalate ws])

def main : IO Unit := Driver.run step {}
