import ColoVerif.Driver.LegalizeIO
/-
Driver for C01: replays `Circuit::legalize` on the model (protocol in ColoVerif/Driver/LegalizeIO.lean).
-/
def main : IO Unit := Driver.run Driver.legStep {}
