import ColoVerif.Gen.OrientTables
import ColoVerif.Model.OrientRule
import Driver.Common
/-
Driver for C04: the exhaustive table stream, answered by the definitions *generated* from the
C++ source (so the harness cross-checks the translator on the whole finite domain).

  case <k>      -> case <k>
  opp <o>       -> opp <code>      oppositeRowOrientation
  oir <p> <o>   -> oir <code>      cellOrientationInRow   (`abort` for the unreachable path)
  turn <o>      -> turn <0|1>      isTurn
  flip <o>      -> flip <xf> <yf>  the flip sets of pinXOffset / pinYOffset
  assign <p> <o> <cur> -> assign <code>   LegalizerBase::getOrientation (= DetailedPlacement::place's update)

Besides the `tables` case, the object-history stream of harness/h_C04.cpp sends one case `h<k>_<j>` per observed
Circuit::legalize / Circuit::placeDetailed call on a history object: for every movable cell that sits in a free row
segment afterwards, `assign <polarity> <orientation of that segment in rows() as they are now> <orientation before the
call>`; the real code's line is the orientation the cell has after the call.
-/
open ColoVerif Driver

def b2s (b : Bool) : String := if b then "1" else "0"

def orientOf (s : String) : Orient := Orient.ofCode (int! s).toNat

def step (s : Unit) : List String → Unit × List String
  | ["case", k] => (s, ["case " ++ k])
  | ["opp", o] => (s, [s!"opp {(Gen.oppositeRowOrientation (orientOf o)).code}"])
  | ["oir", p, o] =>
    match Gen.cellOrientationInRow? (Polarity.ofCode (int! p).toNat) (orientOf o) with
    | some r => (s, [s!"oir {r.code}"])
    | none => (s, ["oir abort"])
  | ["turn", o] => (s, ["turn " ++ b2s (Gen.isTurn (orientOf o))])
  | ["flip", o] => (s, ["flip " ++ b2s (Gen.xFlipped (orientOf o)) ++ " " ++ b2s (Gen.yFlipped (orientOf o))])
  | ["assign", p, o, cur] =>
    (s, [s!"assign {(OrientRule.assignedOrientation (Polarity.ofCode (int! p).toNat) (orientOf o) (orientOf cur)).code}"])
  | [] => (s, [])
  | ws => (s, ["bad-op " ++ " ".intercalate ws])

def main : IO Unit := Driver.run step ()
