import ColoVerif.Model.Circuit
import Driver.Common
/-
Text protocol for circuits (written by harness/common/circuit.hpp):

  circuit <nbCells>
  cell <w> <h> <x> <y> <orient> <fixed> <obstruction> <polarity>     (nbCells lines, in index order)
  row <minX> <maxX> <minY> <maxY> <orient>
  net <wMant> <wExp> <npins> (<cell> <xoff> <yoff>)*
  end

and for results:   sol x0 y0 o0 x1 y1 o1 …
-/
namespace Driver
open ColoVerif

def pins : List Int → List Pin
  | c :: x :: y :: rest => ⟨c.toNat, x, y⟩ :: pins rest
  | _ => []

/-- Accumulates circuit lines; returns `none` when the line is not part of a circuit block. -/
def circuitLine (c : Circuit) (ws : List String) : Option Circuit :=
  match ws with
  | "circuit" :: _ => some ⟨[], [], []⟩
  | ["cell", w, h, x, y, o, f, ob, p] =>
    some { c with cells := c.cells ++ [⟨int! w, int! h, int! x, int! y, Orient.ofCode (int! o).toNat,
                                         int! f != 0, int! ob != 0, Polarity.ofCode (int! p).toNat⟩] }
  | ["row", a, b, cc, d, o] =>
    some { c with rows := c.rows ++ [⟨⟨int! a, int! b, int! cc, int! d⟩, Orient.ofCode (int! o).toNat⟩] }
  | "net" :: m :: e :: _ :: rest =>
    some { c with nets := c.nets ++ [⟨int! m, int! e, pins (ints rest)⟩] }
  | _ => none

def showSolution (c : Circuit) : String :=
  "sol" ++ String.join (c.cells.map fun cl => s!" {cl.x} {cl.y} {cl.orient.code}")

end Driver
