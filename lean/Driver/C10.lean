import ColoVerif.Model.BusyIO
import ColoVerif.Gen.Api
import ColoVerif.Gen.ApiSizes
import ColoVerif.Model.NetsValue
import Driver.Common
/-
Driver for C10: replays the traces observed by harness/h_C10.cpp on the IR semantics
(`Model/Busy.lean`) over the translated API (`Gen/Api.lean`).

  case <k>                 -> case <k>            (fresh circuit)
  fresh                    -> (nothing)           a fresh copy of the circuit: flag clear
  begin <placement call>   -> (nothing)           outside any call: start recording the stage trace;
                                                  inside a callback: a nested placement call starts
  cb / cbend / cbthrow     -> (nothing)           one callback invocation, ending normally / by throwing
  set <name> <nc> <nn> …   -> inside a call: recorded; outside: `set <name> <outcome>` at once
  stagethrow / stagereturn -> (nothing)           how the stage ended when no callback threw
  end                      -> of a nested call: recorded; of the outermost call: the lines of the trace
                              (setter lines, `end ok|throw inuse=<0|1>` of each nested call), then
                              `end ok|throw inuse=<0|1>`
  szset <name> <busy> <free> <15 sizes> <args>
                           -> `sz <outcome> <15 sizes>`: the setter on the size semantics (`Model/BusySizes.lean`
                              over `Gen/ApiSizes.lean`); `free` = the length an `anyLen` write produces
  nvnew <n>                -> `nv ok …`           a new `Circuit(n)` on the value semantics of the net arrays (`Model/NetsValue.lean`)
  nvadd <k> <k cells> <nx> <ny>                   `addNet` with k pin cells and offset vectors of nx / ny entries
  nvset <m> <m limits> <k> <k cells> <nx> <ny> <nw>   `setNets`
  nvweights <nw>                                      `setNetWeights` with nw weights
                           -> `nv ok|throw <Wf 0|1> L <netLimits_> P <pinCells_> S <|xoffs|> <|yoffs|> <|weights|> G <nbNets()> <per net: nbPinsNet(n) pinCell(n,0..)>`
-/
open ColoVerif ColoVerif.Busy ColoVerif.BusyIO ColoVerif.BusySizes ColoVerif.Gen Driver

def szLine (name busy free : String) (rest : List String) : String :=
  let n := reported.length + 1
  let args := parseArgs rest.length (rest.drop n)
  let r := runFnS ApiSizes.setters ⟨name, args, BusyIO.int! free⟩ ⟨busy == "1", Sz.ofList ((rest.take n).map BusyIO.int!)⟩
  "sz " ++ showOutcome r.out ++ " " ++ " ".intercalate (r.st.sz.toList.map toString)

def nvLine (ok : Bool) (s : NetsValue.Nets) : String :=
  "nv " ++ (if ok then "ok" else "throw") ++ (if NetsValue.wfB s then " 1" else " 0") ++ " L " ++ showInts s.limits
    ++ " P " ++ showInts s.pins ++ " S " ++ toString s.nx ++ " " ++ toString s.ny ++ " " ++ toString s.nw
    -- the inline getters, net by net: nbPinsNet(n), then pinCell(n, i) for every i
    ++ " G " ++ toString (NetsValue.nbNets s) ++ " " ++ showInts ((List.range (NetsValue.nbNets s).toNat).flatMap (fun n =>
        NetsValue.nbPinsNet s n :: (List.range (NetsValue.nbPinsNet s n).toNat).map (fun i => NetsValue.pinCell s n i)))

/-- `<k> <k items> rest` -/
def takeCounted (ws : List String) : List Int × List String :=
  match ws with
  | [] => ([], [])
  | k :: r => (ints (r.take k.toNat!), r.drop k.toNat!)

def nvOp (ws : List String) : Option NetsValue.Op :=
  match ws with
  | "nvadd" :: r =>
    let (cells, r1) := takeCounted r
    match r1 with
    | [nx, ny] => some (.add cells nx.toNat! ny.toNat!)
    | _ => none
  | "nvset" :: r =>
    let (limits, r1) := takeCounted r
    let (cells, r2) := takeCounted r1
    match r2 with
    | [nx, ny, nw] => some (.set limits cells nx.toNat! ny.toNat! nw.toNat!)
    | _ => none
  | ["nvweights", nw] => some (.weights nw.toNat!)
  | _ => none

structure DS where
  nets : NetsValue.Nets := NetsValue.init 0
  st : St := ⟨false, []⟩
  call : Option String := none
  depth : Nat := 0
  evs : List (List String) := []     -- events of the open outermost call, most recent first

def dropEnd : List (List String) → List (List String)
  | ["end"] :: r => r
  | r => r

/-- The trace of one stage from the recorded events, up to and including its `end`; returns the
rest.  `fuel` ≥ number of events. -/
def parseTr : Nat → List (List String) → Tr × List (List String)
  | 0, r => (.done false, r)
  | _, [] => (.done false, [])
  | fuel + 1, ev :: r =>
    match ev with
    | ["end"] => (.done false, r)
    | ["stagethrow"] => (.done true, dropEnd r)
    | ["stagereturn"] => (.done false, dropEnd r)
    | ["cb"] => parseTr fuel r
    | ["cbend"] => ((Tr.cbEnd false (parseTr fuel r).1), (parseTr fuel r).2)
    | ["cbthrow"] => ((Tr.cbEnd true (parseTr fuel r).1), (parseTr fuel r).2)
    | ["begin", name] =>
      let p1 := parseTr fuel r
      let p2 := parseTr fuel p1.2
      (Tr.nested name p1.1 p2.1, p2.2)
    | "set" :: args =>
      match parseSetter args with
      | some sc => (Tr.setter sc (parseTr fuel r).1, (parseTr fuel r).2)
      | none => (Tr.setter ⟨"<bad-set>", emptyEnv⟩ (parseTr fuel r).1, (parseTr fuel r).2)
    | _ => (Tr.setter ⟨"<bad-op>", emptyEnv⟩ (parseTr fuel r).1, (parseTr fuel r).2)

def step (s : DS) : List String → DS × List String
  | ["case", k] => ({}, ["case " ++ k])
  | [] => (s, [])
  | ws =>
    if s.depth = 0 then
      match ws with
      | ["fresh"] => ({ s with st := ⟨false, []⟩ }, [])
      | ["begin", name] => ({ s with call := some name, depth := 1, evs := [] }, [])
      | "set" :: rest =>
        match parseSetter rest with
        | some sc =>
          let r := runSetter Api.setters sc s.st
          ({ s with st := r.st }, [setterLine sc.name s.st r])
        | none => (s, ["bad-set"])
      | "szset" :: name :: busy :: free :: rest => (s, [szLine name busy free rest])
      | ["nvnew", n] => ({ s with nets := NetsValue.init (Driver.int! n) }, [nvLine true (NetsValue.init (Driver.int! n))])
      | "nvadd" :: _ | "nvset" :: _ | "nvweights" :: _ =>
        match nvOp ws with
        | some o =>
          let s' := NetsValue.step s.nets o
          ({ s with nets := s' }, [nvLine (NetsValue.apply? s.nets o).isSome s'])
        | none => (s, ["bad-nv"])
      | _ => (s, ["bad-op " ++ " ".intercalate ws])
    else
      match ws with
      | ["begin", _] => ({ s with depth := s.depth + 1, evs := ws :: s.evs }, [])
      | ["end"] =>
        if s.depth = 1 then
          match s.call.bind (fun n => ApiIR.lookup Api.placementCalls n) with
          | some f =>
            let evs := s.evs.reverse
            let t := (parseTr (evs.length + 1) evs).1
            let r := execPlacement Api.setters Api.placementCalls f.body t s.st
            ({ s with st := r.st, call := none, depth := 0, evs := [] }, r.log ++ [endLine r])
          | none => ({ s with call := none, depth := 0, evs := [] }, ["end unknown-call"])
        else ({ s with depth := s.depth - 1, evs := ws :: s.evs }, [])
      | _ => ({ s with evs := ws :: s.evs }, [])

def main : IO Unit := Driver.run step {}
