import ColoVerif.Model.BusyIO
import ColoVerif.Gen.Api
import Driver.Common
/-
Driver for C10: replays the traces observed by harness/h_C10.cpp on the IR semantics
(`Model/Busy.lean`) over the translated API (`Gen/Api.lean`).

  case <k>                 -> case <k>            (fresh circuit)
  fresh                    -> (nothing)           a fresh copy of the circuit: flag clear
  begin <placement call>   -> (nothing)           start recording the stage trace
  cb / cbend / cbthrow     -> (nothing)           one callback invocation, ending normally / by throwing
  set <name> <nc> <nn> …   -> inside a callback: recorded; outside: `set <name> <outcome>` at once
  stagethrow / stagereturn -> (nothing)           how the stage ended when no callback threw
  end                      -> the recorded setter lines, then `end ok|throw inuse=<0|1>`
-/
open ColoVerif ColoVerif.Busy ColoVerif.BusyIO ColoVerif.Gen Driver

structure DS where
  st : St := ⟨false, []⟩
  call : Option String := none
  cbs : List Callback := []          -- completed callbacks, in order
  acts : Option (List SetterCall) := none   -- the open callback
  stageThrows : Bool := false

def endLine (r : Res) : String :=
  let o := match r.out with
    | .normal => "ok" | .returned => "ok" | .thrown => "throw" | .aborted => "abort" | .stuck => "stuck"
  "end " ++ o ++ " inuse=" ++ (if r.st.inUse then "1" else "0")

def step (s : DS) : List String → DS × List String
  | ["case", k] => ({}, ["case " ++ k])
  | ["fresh"] => ({ s with st := ⟨false, []⟩ }, [])
  | ["begin", name] => ({ s with call := some name, cbs := [], acts := none, stageThrows := false }, [])
  | ["cb"] => ({ s with acts := some [] }, [])
  | ["cbend"] => ({ s with cbs := s.cbs ++ [⟨s.acts.getD [], false⟩], acts := none }, [])
  | ["cbthrow"] => ({ s with cbs := s.cbs ++ [⟨s.acts.getD [], true⟩], acts := none }, [])
  | ["stagethrow"] => ({ s with stageThrows := true }, [])
  | ["stagereturn"] => (s, [])
  | ["end"] =>
    match s.call.bind (fun n => ApiIR.lookup Api.placementCalls n) with
    | some f =>
      let r := execPlacement Api.setters f.body ⟨s.cbs, s.stageThrows⟩ s.st
      ({ s with st := r.st, call := none, cbs := [], acts := none }, r.log ++ [endLine r])
    | none => (s, ["end unknown-call"])
  | "set" :: rest =>
    match parseSetter rest with
    | some sc =>
      match s.acts with
      | some a => ({ s with acts := some (a ++ [sc]) }, [])
      | none =>
        let r := runSetter Api.setters sc s.st
        ({ s with st := r.st }, [setterLine sc.name s.st r])
    | none => (s, ["bad-set"])
  | [] => (s, [])
  | ws => (s, ["bad-op " ++ " ".intercalate ws])

def main : IO Unit := Driver.run step {}
