import ColoVerif.Model.Spread
import ColoVerif.Model.SpreadF
import ColoVerif.Model.Freespace
import Driver.Common
import Driver.CircuitIO
import ColoVerif.Driver.GlobalLoopIO
/-
Driver for C06.  Floats travel as exact dyadics `mantissa exp2`; rationals are printed `num/den`.

  case <k>                                              -> case <k>
  spreadq <axis> <n> <bx> <by> (d m e)*n limX*(bx+1) limY*(by+1) (k c*k)*(bx*by)
                                                        -> coords q0 q1 …          (exact rationals)
  spreada … same … res (m e)*n                          -> close <n> inside ok | far <i> | outside <i>
  simple  <axis> <n> <bx> <by> limX limY cells          -> coords q0 q1 …
  spreadf … same as spreadq …                           -> coordsf m0 e0 m1 e1 …   (binary32 model `SpreadF`,
                                                           every float as its canonical dyadic: odd mantissa,
                                                           `0 0` for zero — compared EXACTLY with the code)
  blend <bm> <be> <lb> <ub> <size> <ret>                -> within | beyond
  circuit … end  (circuit block)                        -> (nothing)
  grid <sizeFactor m e> <sideMargin m e>                -> grid minX maxX minY maxY | limX… | limY…
                                                           (factors chosen so that the float products are exact)
  gparams / gshape / gdrift / ginit / gstep / gexit / gend   the control loop of GlobalPlacer::run
                                                           (`ColoVerif/Driver/GlobalLoopIO.lean`, model `GlobalLoop.run`)
-/
open ColoVerif ColoVerif.Spread Driver

def pow2 (e : Int) : Rat :=
  if e ≥ 0 then ((2 ^ e.toNat : Nat) : Rat) else 1 / ((2 ^ (-e).toNat : Nat) : Rat)

/-- `mantissa exp2` → value; `none` for the `nan` marker -/
def dyadic? (m e : String) : Option Rat :=
  if m == "nan" then none else some ((int! m : Rat) * pow2 (int! e))

def showRat (q : Rat) : String := s!"{q.num}/{q.den}"

def absR (q : Rat) : Rat := if q < 0 then -q else q

/-- split off the first `k` tokens -/
def takeK (k : Nat) (ws : List String) : List String × List String := (ws.take k, ws.drop k)

def parseCells : Nat → List String → List (List Nat) × List String
  | 0, ws => ([], ws)
  | nb + 1, ws =>
    match ws with
    | [] => ([], [])
    | k :: rest =>
      let kk := (int! k).toNat
      let (cs, rest') := takeK kk rest
      let (more, rest'') := parseCells nb rest'
      ((cs.map fun s => (int! s).toNat) :: more, rest'')

/-- regroup the flat `(i, j)` list into `cells[i][j]` -/
def regroup : Nat → Nat → List (List Nat) → List (List (List Nat))
  | 0, _, _ => []
  | bx + 1, by_, l => l.take by_ :: regroup bx by_ (l.drop by_)

structure SpreadIn where
  axis : Nat
  n : Nat
  demand : List Int
  target : List Rat
  view : View
  rest : List String

def parseDT : Nat → List String → List Int × List Rat × List String
  | 0, ws => ([], [], ws)
  | n + 1, d :: m :: e :: rest =>
    let (ds, ts, r) := parseDT n rest
    (int! d :: ds, (dyadic? m e).getD 0 :: ts, r)
  | _, _ => ([], [], [])

def parseView (bx by_ : Nat) (ws : List String) : View × List String :=
  let (lx, r1) := takeK (bx + 1) ws
  let (ly, r2) := takeK (by_ + 1) r1
  let (cs, r3) := parseCells (bx * by_) r2
  (⟨ints lx, ints ly, regroup bx by_ cs⟩, r3)

def parseSpread (withDT : Bool) : List String → Option SpreadIn
  | axis :: n :: bx :: by_ :: rest =>
    let nn := (int! n).toNat
    let (ds, ts, r1) := if withDT then parseDT nn rest else ([], [], rest)
    let (v, r2) := parseView (int! bx).toNat (int! by_).toNat r1
    some ⟨(int! axis).toNat, nn, ds, ts, v, r2⟩
  | _ => none

/-- canonical `mantissa exp2` of a dyadic rational (odd mantissa; `0 0` for zero), the format of
`vc::exactDouble` -/
def stripTwos : Nat → Int → Int → Int × Int
  | 0, m, e => (m, e)
  | fuel + 1, m, e => if m % 2 == 0 && m != 0 then stripTwos fuel (m / 2) (e + 1) else (m, e)

def showDyadic (q : Rat) : String :=
  if q = 0 then "0 0"
  else if q.den = 1 then
    let (m, e) := stripTwos (q.num.natAbs.log2 + 1) q.num 0
    s!"{m} {e}"
  else if 2 ^ q.den.log2 = q.den then s!"{q.num} -{q.den.log2}"
  else s!"{q.num}/{q.den}"

def modelSpreadF (s : SpreadIn) : List Rat :=
  if s.axis == 0 then ColoVerif.SpreadF.spreadCoordXF s.view s.n s.target s.demand
  else ColoVerif.SpreadF.spreadCoordYF s.view s.n s.target s.demand

def modelSpread (s : SpreadIn) : List Rat :=
  if s.axis == 0 then spreadCoordX s.view s.n s.target s.demand else spreadCoordY s.view s.n s.target s.demand

def parseRes : List String → List (Option Rat)
  | m :: e :: rest => dyadic? m e :: parseRes rest
  | _ => []

/-- first index where float and model differ by more than `2^-18 (|lo|+|hi|+1)`; the bin of a cell
is looked up in the view (cells in no bin: `lo = hi = 0`) -/
def findBin (bins : List Bin) (c : Nat) : Option Bin := bins.find? fun b => b.cells.contains c

def checkApprox (s : SpreadIn) (res : List (Option Rat)) : String :=
  let bins := if s.axis == 0 then s.view.binsX else s.view.binsY
  let model := modelSpread s
  let rec go (i : Nat) (fuel : Nat) : String :=
    match fuel with
    | 0 => s!"close {s.n} inside ok"
    | fuel + 1 =>
      if i ≥ s.n then s!"close {s.n} inside ok" else
      match res.getD i none with
      | none => s!"far {i}"
      | some f =>
        let b := (findBin bins i).getD ⟨0, 0, []⟩
        let tol := (1 / 262144 : Rat) * (absR b.lo + absR b.hi + 1)
        if absR (f - model.getD i 0) > tol then s!"far {i}"
        else if (findBin bins i).isSome && s.demand.getD i 0 > 0 && b.lo < b.hi
                && !(decide ((b.lo : Rat) ≤ f) && decide (f ≤ (b.hi : Rat))) then s!"outside {i}"
        else go (i + 1) fuel
  go 0 (s.n + 1)

/-- the float part of "up to rounding" for the blend: four single-precision roundings -/
def blendSlack (b : Rat) (lb ub size : Int) : Rat :=
  (4 / 16777216 : Rat) * (absR (1 - b) * (absR lb + (1 / 2) * absR size + 1) + absR b * (absR ub + (1 / 2) * absR size + 1))

def checkBlend (b : Rat) (lb ub size ret : Int) : String :=
  if b = 0 then (if ret = lb then "within" else "beyond")
  else if b = 1 then (if ret = ub then "within" else "beyond")
  else if absR ((ret : Rat) - ((1 - b) * lb + b * ub)) ≤ blendBound b + blendSlack b lb ub size then "within"
  else "beyond"

def step (c : Circuit) (ws : List String) : Circuit × List String :=
  match ws with
  | ["case", k] => (c, ["case " ++ k])
  | "spreadq" :: rest =>
    match parseSpread true rest with
    | some s => (c, ["coords " ++ " ".intercalate ((modelSpread s).map showRat)])
    | none => (c, ["bad-op spreadq"])
  | "spreadf" :: rest =>
    match parseSpread true rest with
    | some s => (c, ["coordsf " ++ " ".intercalate ((modelSpreadF s).map showDyadic)])
    | none => (c, ["bad-op spreadf"])
  | "spreada" :: rest =>
    match parseSpread true rest with
    | some s => (c, [checkApprox s (parseRes (s.rest.drop 1))])
    | none => (c, ["bad-op spreada"])
  | "simple" :: rest =>
    match parseSpread false rest with
    | some s => (c, ["coords " ++ " ".intercalate
        ((if s.axis == 0 then simpleCoordX s.view s.n else simpleCoordY s.view s.n).map showRat)])
    | none => (c, ["bad-op simple"])
  | ["blend", bm, be, lb, ub, size, ret] =>
    match dyadic? bm be with
    | some b => (c, [checkBlend b (int! lb) (int! ub) (int! size) (int! ret)])
    | none => (c, ["beyond"])
  | ["grid", sfm, sfe, smm, sme] =>
    let g := gridFromRows (c.computeRows.map (·.rect)) (c.rows.map (·.rect)) (c.cells.map (·.h))
      ((dyadic? sfm sfe).getD 1) ((dyadic? smm sme).getD 0)
    (c, [s!"grid {g.area.minX} {g.area.maxX} {g.area.minY} {g.area.maxY} | {showInts g.limX} | {showInts g.limY}"])
  | ["end"] => (c, [])
  | [] => (c, [])
  | _ =>
    match circuitLine c ws with
    | some c' => (c', [])
    | none => (c, ["bad-op " ++ " ".intercalate ws])

/-- driver state: the current circuit and the log of the global placement loop -/
structure DrvSt where
  circ : Circuit
  gl : Driver.GL.Log

def stepAll (s : DrvSt) (ws : List String) : DrvSt × List String :=
  match Driver.GL.step s.gl ws with
  | some (gl, outs) => ({ s with gl := gl }, outs)
  | none =>
    let (c, outs) := step s.circ ws
    ({ s with circ := c }, outs)

def main : IO Unit := Driver.run stepAll ⟨⟨[], [], []⟩, {}⟩
