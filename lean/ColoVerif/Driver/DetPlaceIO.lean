import ColoVerif.Model.DetPlace
import Driver.Common
import Driver.CircuitIO
/-
Line protocol shared by drv_C02 and drv_C05: replays the harness' operations on the `DetPlace` model.

  case <k>                       -> case <k>
  circuit … end                  -> (nothing; accumulates the circuit)
  init                           -> init ok | init throw:runtime_error
  rows                           -> rows (minX maxX minY maxY orient)*
  state                          -> st (r first last [ cells ])* (c w row pred next x y orient)*
  check                          -> check ok|throw:runtime_error
  inv                            -> inv true|false   (`decide (Inv s)`: the invariant of Properties/C02 on the current state;
                                    the harness asks after `init` and after every primitive / replayed move and expects `true`)
  canSwap a b / canInsert c r p / canPlace c r p x   -> <op> 0|1|throw:runtime_error
  canSwapAll                     -> canSwapAll <one char 0|1|T(hrow) per ordered pair (a, b), a-major>
  canInsertAll                   -> canInsertAll <one char per (cell, row, pred in -1 :: rowCells row), cell-major>
  posSwap a b                    -> posSwap x1 y1 x2 y2
  posInsert c r p                -> posInsert x y
  swap a b / insert c r p / shift (c x)* / reorder …  -> <op> ok|throw:runtime_error|guard   (through `State.step`)
  unplace c / place c r p x      -> raw primitives
  probeX c x / probeOrient c o   -> result of check() on the state with that field changed
  export                         -> sol x0 y0 o0 …   (exportPlacement into the circuit)
  hpwl                           -> hpwl <Circuit.hpwl of the exported circuit>
  hpwl0                          -> hpwl <Circuit.hpwl of the circuit as read> (no state needed)
  mark / reset / drop            -> nothing: push the current state / restore the last marked state (kept) / pop it
                                    (exhaustive enumeration: try every move from one state)
  h_swap / h_insert / h_shift / h_reorder   (hook H3 history) -> nothing when accepted, `rejected …` otherwise
  h_window …                     -> nothing (hook H3b: report of a reordering window, used by C05 only)
-/
namespace Driver.DetPlaceIO
open ColoVerif ColoVerif.DetPlace Driver

structure DS where
  circ : Circuit := ⟨[], [], []⟩
  st : Option State := none
  /-- states saved by `mark` (innermost first) -/
  marks : List State := []

def errName : Err → String
  | .runtime => "throw:runtime_error"
  | .guard => "guard"

def showBoolE : Except Err Bool → String
  | .ok true => "1"
  | .ok false => "0"
  | .error e => errName e

def charBoolE : Except Err Bool → String
  | .ok true => "1"
  | .ok false => "0"
  | .error .runtime => "T"
  | .error .guard => "G"

/-- every `canSwap a b` answer of the state, one character each -/
def canSwapAll (s : State) : String :=
  String.join ((State.intsUpTo s.nCells).map fun a =>
    String.join ((State.intsUpTo s.nCells).map fun b => charBoolE (s.canSwap a b)))

/-- every `canInsert c r pred` answer with `pred` = −1 or a cell of row `r` (in list order) -/
def canInsertAll (s : State) : String :=
  String.join ((State.intsUpTo s.nCells).map fun c =>
    String.join ((State.intsUpTo s.nRows).map fun r =>
      String.join (((-1) :: s.rowCells r).map fun p => charBoolE (s.canInsert c r p))))

def showState (s : State) : String :=
  let rows := (State.intsUpTo s.nRows).map fun r =>
    s!" r {s.rowFirst r} {s.rowLast r} [" ++ String.join ((s.rowCells r).map fun c => s!" {c}") ++ " ]"
  let cells := (State.intsUpTo s.nCells).map fun c =>
    s!" c {s.width c} {s.row c} {s.pred c} {s.next c} {s.x c} {s.y c} {(s.orient c).code}"
  "st" ++ String.join rows ++ String.join cells

def pairs : List Int → List (Int × Int)
  | a :: b :: rest => (a, b) :: pairs rest
  | _ => []

/-- `n c…  m (row pred k (c pos)*)*` -/
def parseRegions : Nat → List Int → List Region
  | 0, _ => []
  | fuel + 1, row :: pred :: k :: rest =>
    ⟨row, pred, pairs (rest.take (2 * k.toNat))⟩ :: parseRegions fuel (rest.drop (2 * k.toNat))
  | _, _ => []

def parseReorder (a : List Int) : Op :=
  match a with
  | n :: rest =>
    let cells := rest.take n.toNat
    match rest.drop n.toNat with
    | m :: regs => .reorder cells (parseRegions m.toNat regs)
    | [] => .reorder cells []
  | [] => .reorder [] []

def checkName (b : Bool) : String := if b then "ok" else "throw:runtime_error"

/-- apply a checked step; `loud` = primitives stream (always answers), otherwise history stream -/
def doStep (d : DS) (s : State) (name : String) (op : Op) (loud : Bool) : DS × List String :=
  match s.step op with
  | .ok t => ({ d with st := some t }, if loud then [name ++ " ok"] else [])
  | .error e => (d, [if loud then name ++ " " ++ errName e else "rejected " ++ name ++ " " ++ errName e])

def stepLine (d : DS) (ws : List String) : DS × List String :=
  match ws with
  | [] => (d, [])
  | ["case", k] => ({}, ["case " ++ k])
  | ["end"] => (d, [])
  | ["hpwl0"] => (d, [s!"hpwl {d.circ.hpwl}"])
  | ["init"] =>
    match fromIspdCircuit d.circ with
    | .ok s => ({ d with st := some s }, ["init ok"])
    | .error e => ({ d with st := none }, ["init " ++ errName e])
  | op :: args =>
    match circuitLine d.circ ws with
    | some c => ({ d with circ := c }, [])
    | none =>
      match d.st with
      | none => (d, ["no-state " ++ op])
      | some s =>
        let a := ints args
        match op, a with
        | "rows", _ => (d, ["rows" ++ String.join (s.rows.map fun r =>
              s!" {r.rect.minX} {r.rect.maxX} {r.rect.minY} {r.rect.maxY} {r.orient.code}")])
        | "state", _ => (d, [showState s])
        | "check", _ => (d, ["check " ++ checkName s.check])
        | "mark", _ => ({ d with marks := s :: d.marks }, [])
        | "reset", _ => (match d.marks with
                         | m :: _ => ({ d with st := some m }, [])
                         | [] => (d, ["bad-op reset without mark"]))
        | "drop", _ => ({ d with marks := d.marks.drop 1 }, [])
        | "inv", _ => (d, [s!"inv {decide (Inv s)}"])
        | "canSwapAll", _ => (d, ["canSwapAll " ++ canSwapAll s])
        | "canInsertAll", _ => (d, ["canInsertAll " ++ canInsertAll s])
        | "canSwap", [c1, c2] => (d, ["canSwap " ++ showBoolE (s.canSwap c1 c2)])
        | "canInsert", [c, r, p] => (d, ["canInsert " ++ showBoolE (s.canInsert c r p)])
        | "canPlace", [c, r, p, x] => (d, ["canPlace " ++ showBoolE (s.canPlace c r p x)])
        | "posSwap", [c1, c2] =>
          let q := s.positionsOnSwap c1 c2
          (d, [s!"posSwap {q.1.1} {q.1.2} {q.2.1} {q.2.2}"])
        | "posInsert", [c, r, p] =>
          let q := s.positionOnInsert c r p
          (d, [s!"posInsert {q.1} {q.2}"])
        | "swap", [c1, c2] => doStep d s "swap" (.swap c1 c2) true
        | "insert", [c, r, p] => doStep d s "insert" (.insert c r p) true
        | "shift", _ => doStep d s "shift" (.shift (pairs a)) true
        | "reorder", _ => doStep d s "reorder" (parseReorder a) true
        | "h_swap", [c1, c2] => doStep d s "swap" (.swap c1 c2) false
        | "h_insert", [c, r, p] => doStep d s "insert" (.insert c r p) false
        | "h_shift", _ => doStep d s "shift" (.shift (pairs a)) false
        | "h_reorder", _ => doStep d s "reorder" (parseReorder a) false
        | "h_window", _ => (d, [])   -- hook H3b: report of a reordering window (no move)
        | "unplace", [c] => ({ d with st := some (s.unplace c) }, ["unplace ok"])
        | "place", [c, r, p, x] =>
          match s.place c r p x with
          | .ok t => ({ d with st := some t }, ["place ok"])
          | .error e => (d, ["place " ++ errName e])
        | "probeX", [c, x] => (d, ["probeX " ++ checkName ({ s with x := upd s.x c x }).check])
        | "probeOrient", [c, o] =>
          (d, ["probeOrient " ++ checkName ({ s with orient := upd s.orient c (Orient.ofCode o.toNat) }).check])
        | "export", _ => (d, [showSolution (exportPlacement s d.circ)])
        | "hpwl", _ => (d, [s!"hpwl {(exportPlacement s d.circ).hpwl}"])
        | _, _ => (d, ["bad-op " ++ " ".intercalate ws])


end Driver.DetPlaceIO
