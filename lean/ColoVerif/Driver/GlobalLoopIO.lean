import ColoVerif.Model.GlobalLoop
import Driver.Common
/-
Line protocol for the control loop of `GlobalPlacer::run` (part of `drv_C06`).  Floats travel as
exact dyadics `mantissa exp2`; `inf 0`, `-inf 0`, `nan 0` for the non-finite ones.

  gparams nbInit maxSteps nbInner (m e)*10        -> (nothing)   gapTol distTol pud backoff pen0 penF cut0 cutF apx0 apxF
  gshape <seq> <ret|throw>                        -> shape <seq'> <returned|threw> iterations=<n>
        hook-free: the callback kinds in order (L/U/P).  The driver reads off the decisions the loop
        must have taken (stop / penalty update / failing solve), runs `GlobalLoop.run` on an oracle
        that takes exactly these decisions and prints what the model then does.
  gdrift k…                                       -> drift k:<0|1> …     (`driftOutOfBox` of the model)
  ginit avgLen lb pen cut apx pud distTol         -> (nothing)   hook H5 "init"
  gstep step lb ub dist gap pen cut apx pud why   -> (nothing)   hook H5 "step"
  gexit step why lb pen cut apx pud               -> (nothing)   hook H5 "exit"
  gend <seq> <ret|throw|other>                    -> loop <seq'> <exit> iterations=<n> updates=<k> step=<step_> <init> <vars> <pud> <gap> <bound>
        replays the logged ub / lb / dist through `GlobalLoop.run Rounding.ieee` and compares everything
        the model computes with what the code logged, bit for bit; `<bound>` compares the logged floats
        with the closed forms over `Rat`: |x_k - X_k| <= X_k ((1 + eps)^(k+1) - 1), eps = 2^-24 + 2^-53 + 2^-77
        (one `float(double(a*b))` per update and one for the initial value; valid while every value is a
        normal float, otherwise `bound-skipped`).
  gmulfd a b | gdivd a b | ggap lb ub             -> r <mantissa exp2 | inf 0 | -inf 0>
        the rounding model `Rounding.ieee` itself against the FPU: `float(double(a) * b)` for a float `a`
        and a double `b`; `a / b` in doubles; `(ub - lb) / ub` in floats
-/
namespace Driver.GL
open ColoVerif.GlobalLoop Driver

inductive FV | fin (q : Rat) | pinf | ninf | nan

def parseFV (m e : String) : FV :=
  if m == "inf" then .pinf else if m == "-inf" then .ninf else if m == "nan" then .nan
  else .fin ((int! m : Rat) * pow2 (int! e))

def FV.get : FV → Rat
  | .fin q => q
  | _ => 0

def FV.isFin : FV → Bool
  | .fin _ => true
  | _ => false

def two128 : Rat := 340282366920938463463374607431768211456

/-- a float computed by the model (`≥ 2^128` stands for `inf`) equals the logged one -/
def sameF (model : Rat) : FV → Bool
  | .fin q => model == q
  | .pinf => two128 ≤ model
  | _ => false

structure StepRec where
  step : Int
  lb : FV
  ub : FV
  dist : FV
  gap : FV
  pen : FV
  cut : FV
  apx : FV
  pud : FV
  why : Int

structure Log where
  params : Option Params := none
  init : Option (List FV) := none          -- avgLen lb pen cut apx pud distTol
  steps : Array StepRec := #[]
  exit : Option (Int × Int × List FV) := none   -- step_, reason, [lb pen cut apx pud]

def fvs : List String → List FV
  | m :: e :: rest => parseFV m e :: fvs rest
  | _ => []

def parseParams : List String → Option Params
  | a :: b :: c :: rest =>
    match (fvs rest).map FV.get with
    | [gt, dt, pud, bo, p0, pf, c0, cf, a0, af] =>
      some ⟨(int! a).toNat, (int! b).toNat, (int! c).toNat, gt, dt, pud, bo, p0, pf, c0, cf, a0, af⟩
    | _ => none
  | _ => none

def evChar : Ev → Char
  | .lb => 'L'
  | .ub => 'U'
  | .pu => 'P'

def showEvents (l : List Ev) : String := String.ofList (l.map evChar)

def showExit : Exit → String
  | .stop .noWirelength => "stop:nowirelength"
  | .stop .gap => "stop:gap"
  | .stop .distance => "stop:distance"
  | .stepLimit => "steplimit"
  | .exception => "exception"

/-! ### hook-free: the decisions read off the callback sequence -/

/-- one record per `U`: was it followed by `P`, and by how many `L` -/
def parseIters : Nat → List Char → List (Bool × Nat) → Option (List (Bool × Nat))
  | _, [], acc => some acc.reverse
  | 0, _, _ => none
  | fuel + 1, 'U' :: rest, acc =>
    let pu := rest.head? == some 'P'
    let rest1 := if pu then rest.drop 1 else rest
    let ls := rest1.takeWhile (· == 'L')
    parseIters fuel (rest1.drop ls.length) ((pu, ls.length) :: acc)
  | _, _, _ => none

/-- parameters under which the decisions are free: no gap test, no distance test, penalty update iff `dist < 1` -/
def shapeParams (p : Params) : Params :=
  { p with gapTolerance := 0, distanceTolerance := 0, penaltyUpdateDistance := 1, penaltyUpdateBackoff := 1 }

def shapeOracle (nInitL : Nat) (recs : Array (Bool × Nat)) (threw : Bool) : Oracle :=
  let stopAt (j : Nat) : Bool :=
    match recs[j]? with
    | some (false, 0) => !(threw && j + 1 == recs.size)
    | _ => false
  { avgLen := 1
    initOk := fun i => decide (i < nInitL)
    lb0 := 0
    ub := fun j => if stopAt j then 0 else 1
    dist := fun j => match recs[j]? with
      | some (true, _) => 0
      | _ => 2
    lbOk := fun j i => match recs[j]? with
      | some (_, n) => decide (i < n)
      | none => true
    lb := fun _ => 0 }

def shapeLine (p : Params) (seq : String) (how : String) : String :=
  let cs := seq.toList
  let initL := cs.takeWhile (· == 'L')
  match parseIters cs.length (cs.drop initL.length) [] with
  | none => "shape unparsable"
  | some recs =>
    let res := ColoVerif.GlobalLoop.run Rounding.exact (shapeParams p) (shapeOracle initL.length recs.toArray (how == "throw"))
    let cls := match res.exit with
      | .exception => "threw"
      | _ => "returned"
    s!"shape {showEvents res.events} {cls} iterations={res.iterations}"

/-! ### replay of the H5 log -/

def eps : Rat := 1 / 16777216 + 1 / 9007199254740992 + 1 / 151115727451828646838272

def absR (q : Rat) : Rat := if q < 0 then -q else q

def normalF (v : FV) : Bool :=
  match v with
  | .fin q => decide (pow2 (-126) ≤ absR q)
  | _ => false

/-- index of the first position where `f` fails -/
def firstBad {α : Type} (l : List α) (f : Nat → α → Bool) : Option Nat :=
  let rec go : Nat → List α → Option Nat
    | _, [] => none
    | i, x :: xs => if f i x then go (i + 1) xs else some i
  go 0 l

def verdict (name : String) (r : Option Nat) : String :=
  match r with
  | none => name ++ "-equal"
  | some i => s!"{name}-differ@{i}"

def trailingL (seq : String) : Nat := (seq.toList.reverse.takeWhile (· == 'L')).length

def replay (lg : Log) (seq how : String) : String :=
  match lg.params with
  | none => "loop no-params"
  | some p =>
  if how == "other" then "loop other-exception" else
  let threw := how == "throw"
  match lg.init with
  | none =>
    -- the exception came from runInitialLB: the sequence is the successful solves
    let o : Oracle := ⟨1, fun i => decide (i < seq.length), 0, fun _ => 1, fun _ => 1, fun _ _ => true, fun _ => 0⟩
    let res := ColoVerif.GlobalLoop.run Rounding.ieee p o
    s!"loop {showEvents res.events} {showExit res.exit} iterations={res.iterations} updates={res.updates} step=- init-none"
  | some ini =>
  let n := lg.steps.size
  let inputs : List FV := [ini.getD 0 .nan, ini.getD 1 .nan] ++
    (lg.steps.toList.flatMap fun s => [s.lb, s.ub, s.dist]) ++ (match lg.exit with | some (_, _, l) => [l.getD 0 .nan] | none => [])
  if !(inputs.all FV.isFin) then "loop nonfinite-input" else
  let lbAfter (j : Nat) : Rat :=
    match lg.steps[j + 1]? with
    | some s => s.lb.get
    | none => match lg.exit with
      | some (_, _, l) => (l.getD 0 .nan).get
      | none => 0
  let nOk := trailingL seq
  let o : Oracle :=
    { avgLen := (ini.getD 0 .nan).get
      initOk := fun _ => true
      lb0 := (ini.getD 1 .nan).get
      ub := fun j => match lg.steps[j]? with | some s => s.ub.get | none => 0
      dist := fun j => match lg.steps[j]? with | some s => s.dist.get | none => 0
      lbOk := fun j i => !(threw && j + 1 == n && i == nOk)
      lb := lbAfter }
  let res := ColoVerif.GlobalLoop.run Rounding.ieee p o
  -- the step_ value at which the loop was left
  let stepAt : String := match res.exit with
    | .exception => "-"
    | .stepLimit => toString (p.nbInitialSteps + 1 + res.iterations)
    | .stop _ => toString (p.nbInitialSteps + res.iterations)
  -- initial values
  let v0 := initVars Rounding.ieee p o
  let initOk := sameF v0.penalty (ini.getD 2 .nan) && sameF v0.cutoff (ini.getD 3 .nan) && sameF v0.approx (ini.getD 4 .nan)
    && sameF (initPUD Rounding.ieee p o) (ini.getD 5 .nan) && sameF (distTol Rounding.ieee p o) (ini.getD 6 .nan)
  -- logged loop variables at every iteration start (and at exit)
  let logged : List (FV × FV × FV × FV) := lg.steps.toList.map (fun s => (s.pen, s.cut, s.apx, s.pud)) ++
    (match lg.exit with | some (_, _, l) => [(l.getD 1 .nan, l.getD 2 .nan, l.getD 3 .nan, l.getD 4 .nan)] | none => [])
  -- the model's values at the same points: `trail[k]` after `k` updates (`k = updates` at exit)
  let atExit {α : Type} (l : List α) : List α := match lg.exit with | some _ => (l.drop res.updates).take 1 | none => []
  let mTrail := res.trail.take n ++ atExit res.trail
  let mPuds := res.puds.take n ++ atExit res.puds
  let varsBad := if logged.length != mTrail.length then some 0 else
    firstBad (logged.zip mTrail) fun _ (l, v) => sameF v.penalty l.1 && sameF v.cutoff l.2.1 && sameF v.approx l.2.2.1
  let pudBad := if logged.length != mPuds.length then some 0 else
    firstBad (logged.zip mPuds) fun _ (l, v) => sameF v l.2.2.2
  -- the float gap, where it is a number
  let gapBad := firstBad (lg.steps.toList.zip res.trail) fun j (s, _) =>
    match s.gap with
    | .fin g =>
      if s.ub.get = 0 then true else
      let lbj := if j = 0 then o.lb0 else lbAfter (j - 1)
      Rounding.ieee.f (Rounding.ieee.f (s.ub.get - lbj) / s.ub.get) == g
    | _ => true
  -- closed forms over Rat against the logged floats
  let allNormal := logged.all fun l => normalF l.1 && normalF l.2.1 && normalF l.2.2.1
  let within (x : FV) (X : Rat) (k : Nat) : Bool := absR (x.get - X) ≤ absR X * ((1 + eps) ^ (k + 1) - 1)
  let boundBad := firstBad logged fun k l =>
    let k' := if k < n then k else res.updates
    within l.1 (penaltyAfter p k') k' && within l.2.1 (cutoffAfter p o.avgLen k') k' && within l.2.2.1 (approxAfter p o.avgLen k') k'
  let bound := if !allNormal then "bound-skipped" else match boundBad with
    | none => "bound-ok"
    | some k => s!"bound-exceeded@{k}"
  s!"loop {showEvents res.events} {showExit res.exit} iterations={res.iterations} updates={res.updates} step={stepAt} " ++
    (if initOk then "init-equal" else "init-differ") ++ " " ++ verdict "vars" varsBad ++ " " ++ verdict "pud" pudBad ++ " " ++
    verdict "gap" gapBad ++ " " ++ bound

def driftLine (p : Params) (ks : List String) : String :=
  "drift" ++ String.join (ks.map fun k => s!" {k}:{if driftOutOfBox p (int! k).toNat then 1 else 0}")

/-! ### the rounding model against the FPU -/

def stripTwos : Nat → Int → Int → Int × Int
  | 0, m, e => (m, e)
  | fuel + 1, m, e => if m % 2 = 0 && m != 0 then stripTwos fuel (m / 2) (e + 1) else (m, e)

/-- a dyadic rational as `mantissa exp2` with an odd mantissa (the format of `vc::exactDouble`) -/
def showDyadic (q : Rat) : String :=
  if q = 0 then "0 0" else
  let k := q.den.log2
  if q.den != 2 ^ k then s!"notdyadic {q.num}/{q.den}" else
  let (m, e) := stripTwos 2200 q.num (-(k : Int))
  s!"{m} {e}"

/-- `limit`: `2^128` for a float, `2^1024` for a double -/
def showRounded (limit : Rat) (q : Rat) : String :=
  if limit ≤ q then "inf 0" else if q ≤ -limit then "-inf 0" else showDyadic q

def two1024 : Rat := ((2 ^ 1024 : Nat) : Rat)

def roundOps (ws : List String) : Option String :=
  match ws with
  | [op, am, ae, bm, be] =>
    let a := (parseFV am ae).get
    let b := (parseFV bm be).get
    if op == "gmulfd" then some ("r " ++ showRounded two128 (mulFD Rounding.ieee a b))
    else if op == "gdivd" then some ("r " ++ showRounded two1024 (Rounding.ieee.d (a / b)))
    else if op == "ggap" then some ("r " ++ showRounded two128 (Rounding.ieee.f (Rounding.ieee.f (b - a) / b)))
    else none
  | _ => none

/-- returns `none` when the line is not one of this module's ops -/
def step (lg : Log) (ws : List String) : Option (Log × List String) :=
  match ws with
  | "gparams" :: rest => some ({ params := parseParams rest }, [])
  | ["gshape", seq, how] =>
    some (lg, [match lg.params with | some p => shapeLine p seq how | none => "shape no-params"])
  | ["gshape", how] => -- empty sequence
    some (lg, [match lg.params with | some p => shapeLine p "" how | none => "shape no-params"])
  | "gdrift" :: ks => some (lg, [match lg.params with | some p => driftLine p ks | none => "drift no-params"])
  | "ginit" :: rest => some ({ lg with init := some (fvs rest) }, [])
  | "gstep" :: st :: rest =>
    match fvs (rest.take 16), rest.drop 16 with
    | [lb, ub, dist, gap, pen, cut, apx, pud], [why] =>
      some ({ lg with steps := lg.steps.push ⟨int! st, lb, ub, dist, gap, pen, cut, apx, pud, int! why⟩ }, [])
    | _, _ => some (lg, ["bad-op gstep"])
  | "gexit" :: st :: why :: rest => some ({ lg with exit := some (int! st, int! why, fvs rest) }, [])
  | ["gend", seq, how] => some ({ params := lg.params }, [replay lg seq how])
  | ["gend", how] => some ({ params := lg.params }, [replay lg "" how])
  | _ => (roundOps ws).map fun l => (lg, [l])

end Driver.GL
