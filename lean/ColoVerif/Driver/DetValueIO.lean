import ColoVerif.Model.DetIncr
import ColoVerif.Model.DetReorderPass
import ColoVerif.Driver.DetPlaceIO
/-
Line protocol of drv_C05: the protocol of `DetPlaceIO` (C02) where the replayed object is the whole
`DetailedPlacer` model (`Placer`: placement + the two incremental net models of C09):

  init                           -> init ok | init throw:runtime_error      (`Placer.init`)
  h_swap / h_insert / h_shift / h_reorder   (hook H3 history) -> nothing when accepted, `rejected …` otherwise
                                    (`Placer.step`: the placement move, then the `updateCellPos` glue)
  val                            -> val <value()> <Circuit.hpwl of the exported circuit> <1 if no cell's
                                    orientation differs from the one at construction, else 0>
                                    value() is the *incrementally maintained* xtopo_.value() + ytopo_.value()
  hp                             -> hp <Circuit.hpwl of the exported circuit> <orientation flag>
                                    (before a reordering write-back: the real models are mid-enumeration)
  everything else                -> as DetPlaceIO, on the placement component (read-only requests only)

Pass level (the model *generates* the moves instead of replaying logged ones; the harness prints the logged
moves of the same pass on its side, so every move the real loops perform must be the one the modelled
candidate enumeration + scan performs, in the same order):
  pass_swaps nbRows nbNeighbours    -> (`val …` of the object before the move, `mv swap c1 c2`)* `pass_swaps done <n>`
                                       (`Placer.runSwaps`, Model/DetSearch.lean)
  pass_inserts nbRows nbNeighbours  -> (`val …`, `mv insert c r p`)* `pass_inserts done <n>`      (`Placer.runInserts`)
  pass_reorder maxNbRows maxNbCells w -> per window of `Placer.runReordering` (Model/DetReorderPass.lean, DetReorder.lean), in order:
                                       when a better leaf was found: `hp …` (before the write-back), `mv reorder <args of h_reorder>`;
                                       when w = 1 (hook H3b compiled in): `win n c*n m (row pred next minPos maxPos)*m nbLeaves improvement bestVal`
                                       (+ ` FUEL` / ` ASSERT` if a ghost flag of the model is set) and `val …` after the window;
                                       then `pass_reorder done <number of windows if w = 1, of write-backs otherwise>`
  h_window …                        -> nothing (H3b report, used on the harness side)
  pass_shifts nbRows maxNbCells     -> nothing; from now on every `h_shift (c x)*` line must carry exactly the cells of the next window
                                       of `runShifts` as modelled (`shiftRowGroups`, `State.shiftWindows`: row groups of
                                       RowNeighbourhood(rows, nbRows/2), cells sorted by (x, index) when the group starts, overlapping
                                       windows) — `shift-window-mismatch …` otherwise — before it is replayed as before
  pass_shifts_end                   -> `pass_shifts done <number of windows>` | `pass_shifts missing-window …`
-/
namespace Driver.DetValueIO
open ColoVerif ColoVerif.DetPlace Driver Driver.DetPlaceIO

/-- a `runShifts` pass being replayed: the row groups not started yet, the windows of the running group that
have not been seen yet, `maxNbCells`, and the number of windows seen -/
structure ShiftPlan where
  groups : List (List Int)
  queue : List (List Int)
  maxNbCells : Int
  seen : Nat := 0

structure VS where
  base : DS := {}
  pl : Option Placer := none
  shifts : Option ShiftPlan := none

def flag (b : Bool) : String := if b then "1" else "0"

def doStep (v : VS) (p : Placer) (name : String) (op : Op) : VS × List String :=
  match p.step op with
  | .ok q => ({ base := { v.base with st := some q.pl }, pl := some q }, [])
  | .error e => (v, ["rejected " ++ name ++ " " ++ errName e])

def valLine (v : VS) (p : Placer) : String :=
  s!"val {p.value} {(exportPlacement p.pl v.base.circ).hpwl} {flag (p.orientKept v.base.circ)}"

def hpLine (v : VS) (p : Placer) : String :=
  s!"hp {(exportPlacement p.pl v.base.circ).hpwl} {flag (p.orientKept v.base.circ)}"

def intsStr (l : List Int) : String := String.join (l.map fun i => s!" {i}")

/-- the arguments hook H3 logs for a move -/
def opText : Op → String
  | .swap a b => s!"swap {a} {b}"
  | .insert c r q => s!"insert {c} {r} {q}"
  | .shift mv => "shift" ++ String.join (mv.map fun m => s!" {m.1} {m.2}")
  | .reorder cells regions =>
    s!"reorder {cells.length}" ++ intsStr cells ++ s!" {regions.length}" ++
      String.join (regions.map fun g => s!" {g.row} {g.pred} {g.cells.length}" ++
        String.join (g.cells.map fun m => s!" {m.1} {m.2}"))

/-- the moves of a search pass, each preceded by the `val` line of the object it is applied to -/
def movesText (v : VS) : Placer → List Op → List String
  | _, [] => []
  | p, op :: ops =>
    valLine v p :: ("mv " ++ opText op) ::
      (match p.step op with
       | .ok q => movesText v q ops
       | .error e => ["replay-failed " ++ errName e])

def passOut (v : VS) (p : Placer) (name : String) (r : Except Err (Placer × List Op)) : VS × List String :=
  match r with
  | .error e => (v, [name ++ " " ++ errName e])
  | .ok (q, ops) =>
    ({ base := { v.base with st := some q.pl }, pl := some q }, movesText v p ops ++ [s!"{name} done {ops.length}"])

def winText (w : WindowInfo) : String :=
  s!"win {w.cells.length}" ++ intsStr w.cells ++ s!" {w.regions.length}" ++
    String.join (w.regions.map fun g => s!" {g.row} {g.cellPred} {g.cellNext} {g.minPos} {g.maxPos}") ++
    s!" {w.nbLeaves} {flag w.improvement} {w.bestVal}" ++ (if w.fuelOut then " FUEL" else "") ++
    (if w.assertFail then " ASSERT" else "")

/-- the windows of a reordering pass in order; `cur` = the placement before the window (for the `hp` line) -/
def windowsText (v : VS) (withWin : Bool) : Placer → List WindowInfo → List Op → List String
  | _, [], _ => []
  | cur, w :: ws, ops =>
    match w.improvement, ops with
    | true, op :: ops' =>
      match cur.pl.step op with
      | .ok t =>
        let nxt : Placer := { cur with pl := t }
        hpLine v cur :: ("mv " ++ opText op) ::
          ((if withWin then [winText w, s!"val {w.valueAfter} {(exportPlacement t v.base.circ).hpwl} {flag (nxt.orientKept v.base.circ)}"] else []) ++
           windowsText v withWin nxt ws ops')
      | .error e => ["replay-failed " ++ errName e]
    | true, [] => ["window-without-op"]
    | false, _ =>
      (if withWin then [winText w, s!"val {w.valueAfter} {(exportPlacement cur.pl v.base.circ).hpwl} {flag (cur.orientKept v.base.circ)}"] else []) ++
        windowsText v withWin cur ws ops

/-- the next expected window: refill the queue from the next row groups (on the current placement) while it is empty -/
def nextShiftWindow (st : State) : Nat → ShiftPlan → Option (List Int × ShiftPlan)
  | 0, _ => none
  | fuel + 1, pl =>
    match pl.queue with
    | w :: ws => some (w, { pl with queue := ws, seen := pl.seen + 1 })
    | [] =>
      match pl.groups with
      | [] => none
      | g :: gs => nextShiftWindow st fuel { pl with groups := gs, queue := st.shiftWindows g pl.maxNbCells }

def mutating : List String := ["swap", "insert", "shift", "reorder", "unplace", "place"]

def stepLine (v : VS) (ws : List String) : VS × List String :=
  match ws with
  | [] => (v, [])
  | ["case", k] => ({}, ["case " ++ k])
  | ["init"] =>
    match Placer.init v.base.circ with
    | .ok p => ({ base := { v.base with st := some p.pl }, pl := some p }, ["init ok"])
    | .error e => ({ base := { v.base with st := none }, pl := none }, ["init " ++ errName e])
  | op :: args =>
    if op == "pass_shifts" then
      match v.pl, ints args with
      | some p, [a, b] =>
        ({ v with shifts := some { groups := shiftRowGroups p.pl.rows a, queue := [], maxNbCells := b } }, [])
      | _, _ => (v, ["bad-op " ++ " ".intercalate ws])
    else if op == "pass_shifts_end" then
      match v.pl, v.shifts with
      | some p, some plan =>
        -- nothing may be left but groups without cells
        match nextShiftWindow p.pl (plan.groups.length + 1) plan with
        | none => ({ v with shifts := none }, [s!"pass_shifts done {plan.seen}"])
        | some (w, _) => ({ v with shifts := none }, [s!"pass_shifts missing-window{intsStr w} after {plan.seen}"])
      | _, _ => (v, ["pass_shifts no-plan"])
    else if op == "h_shift" && v.shifts.isSome then
      match v.pl, v.shifts with
      | some p, some plan =>
        let mv := pairs (ints args)
        match nextShiftWindow p.pl (plan.groups.length + 1) plan with
        | none => (v, [s!"shift-window-unexpected{intsStr (mv.map (·.1))}"])
        | some (w, plan') =>
          if w == mv.map (·.1) then
            let r := doStep v p "shift" (.shift mv)
            ({ r.1 with shifts := some plan' }, r.2)
          else (v, [s!"shift-window-mismatch expected{intsStr w} got{intsStr (mv.map (·.1))}"])
      | _, _ => (v, ["no-state " ++ op])
    else if op == "h_window" then (v, [])
    else if op == "pass_swaps" || op == "pass_inserts" || op == "pass_reorder" then
      match v.pl with
      | none => (v, ["no-state " ++ op])
      | some p =>
        match op, ints args with
        | "pass_swaps", [a, b] => passOut v p "pass_swaps" (p.runSwaps a b)
        | "pass_inserts", [a, b] => passOut v p "pass_inserts" (p.runInserts a b)
        | "pass_reorder", [a, b, w] =>
          match p.runReordering a b with
          | .error e => (v, ["pass_reorder " ++ errName e])
          | .ok (q, ops, infos) =>
            ({ base := { v.base with st := some q.pl }, pl := some q },
             windowsText v (w == 1) p infos ops ++ [s!"pass_reorder done {if w == 1 then infos.length else ops.length}"])
        | _, _ => (v, ["bad-op " ++ " ".intercalate ws])
    else if op == "val" || op == "hp" || op == "h_swap" || op == "h_insert" || op == "h_shift" || op == "h_reorder" then
      match v.pl with
      | none => (v, ["no-state " ++ op])
      | some p =>
        let a := ints args
        match op, a with
        | "val", _ =>
          (v, [s!"val {p.value} {(exportPlacement p.pl v.base.circ).hpwl} {flag (p.orientKept v.base.circ)}"])
        | "hp", _ => (v, [s!"hp {(exportPlacement p.pl v.base.circ).hpwl} {flag (p.orientKept v.base.circ)}"])
        | "h_swap", [c1, c2] => doStep v p "swap" (.swap c1 c2)
        | "h_insert", [c, r, q] => doStep v p "insert" (.insert c r q)
        | "h_shift", _ => doStep v p "shift" (.shift (pairs a))
        | "h_reorder", _ => doStep v p "reorder" (parseReorder a)
        | _, _ => (v, ["bad-op " ++ " ".intercalate ws])
    else if mutating.contains op then
      (v, ["bad-op " ++ " ".intercalate ws])
    else
      let r := DetPlaceIO.stepLine v.base ws
      ({ v with base := r.1 }, r.2)

end Driver.DetValueIO
