import ColoVerif.Model.DetIncr
import ColoVerif.Driver.DetPlaceIO
/-
Line protocol of drv_C05: the protocol of `DetPlaceIO` (C02) where the replayed object is the whole
`DetailedPlacer` model (`Placer`: placement + the two incremental net models of C09):

  init                           -> init ok | init throw:runtime_error      (`Placer.init`)
  h_swap / h_insert / h_shift / h_reorder   (hook H3 history) -> nothing when accepted, `rejected …` otherwise
                                    (`Placer.step`: the placement move, then the `updateCellPos` glue)
  val                            -> val <value()> <Circuit.hpwl of the exported circuit> <1 if no cell's
                                    orientation differs from the one at construction, else 0>
                                    value() is the *incrementally maintained* xtopo_.value() + ytopo_.value()
  hp                             -> hp <Circuit.hpwl of the exported circuit> <orientation flag>
                                    (before a reordering write-back: the real models are mid-enumeration)
  everything else                -> as DetPlaceIO, on the placement component (read-only requests only)
-/
namespace Driver.DetValueIO
open ColoVerif ColoVerif.DetPlace Driver Driver.DetPlaceIO

structure VS where
  base : DS := {}
  pl : Option Placer := none

def flag (b : Bool) : String := if b then "1" else "0"

def doStep (v : VS) (p : Placer) (name : String) (op : Op) : VS × List String :=
  match p.step op with
  | .ok q => ({ base := { v.base with st := some q.pl }, pl := some q }, [])
  | .error e => (v, ["rejected " ++ name ++ " " ++ errName e])

def mutating : List String := ["swap", "insert", "shift", "reorder", "unplace", "place"]

def stepLine (v : VS) (ws : List String) : VS × List String :=
  match ws with
  | [] => (v, [])
  | ["case", k] => ({}, ["case " ++ k])
  | ["init"] =>
    match Placer.init v.base.circ with
    | .ok p => ({ base := { v.base with st := some p.pl }, pl := some p }, ["init ok"])
    | .error e => ({ base := { v.base with st := none }, pl := none }, ["init " ++ errName e])
  | op :: args =>
    if op == "val" || op == "hp" || op == "h_swap" || op == "h_insert" || op == "h_shift" || op == "h_reorder" then
      match v.pl with
      | none => (v, ["no-state " ++ op])
      | some p =>
        let a := ints args
        match op, a with
        | "val", _ =>
          (v, [s!"val {p.value} {(exportPlacement p.pl v.base.circ).hpwl} {flag (p.orientKept v.base.circ)}"])
        | "hp", _ => (v, [s!"hp {(exportPlacement p.pl v.base.circ).hpwl} {flag (p.orientKept v.base.circ)}"])
        | "h_swap", [c1, c2] => doStep v p "swap" (.swap c1 c2)
        | "h_insert", [c, r, q] => doStep v p "insert" (.insert c r q)
        | "h_shift", _ => doStep v p "shift" (.shift (pairs a))
        | "h_reorder", _ => doStep v p "reorder" (parseReorder a)
        | _, _ => (v, ["bad-op " ++ " ".intercalate ws])
    else if mutating.contains op then
      (v, ["bad-op " ++ " ".intercalate ws])
    else
      let r := DetPlaceIO.stepLine v.base ws
      ({ v with base := r.1 }, r.2)

end Driver.DetValueIO
