import ColoVerif.Model.Legalize
import Driver.Common
import Driver.CircuitIO
/-
Shared line protocol of the C01 and C11 drivers (whole-pipeline legalization).

  case <k>                                   -> case <k>
  circuit … end                              -> (nothing; see Driver.circuitLine)
  params <costModel> <owM> <owE> <ohM> <ohE> <oyM> <oyE>     (doubles as mantissa·2^exp)
  order                                      -> order i0 i1 …   (computeCellOrder on the movable cells, binary32 key)
  legalize                                   -> sol x0 y0 o0 …  |  throw:runtime_error
  again                                      -> the same, applied to the result of the last successful `legalize`/`again`
-/
namespace Driver
open ColoVerif ColoVerif.Legalize

structure LegSt where
  circ : Circuit := ⟨[], [], []⟩
  last : Circuit := ⟨[], [], []⟩
  par : Params := ⟨0, 0, 0, 0⟩

def dyadic (m e : String) : Rat := ((int! m : Int) : Rat) * pow2 (int! e)

def showResult : Except Err Circuit → String
  | .ok c => showSolution c
  | .error _ => "throw:runtime_error"

def legStep (s : LegSt) (ws : List String) : LegSt × List String :=
  match ws with
  | ["case", k] => (s, ["case " ++ k])
  | ["params", cm, a, b, c, d, e, f] => ({ s with par := ⟨(int! cm).toNat, dyadic a b, dyadic c d, dyadic e f⟩ }, [])
  | ["order"] =>
    (s, [("order " ++ " ".intercalate
          ((computeCellOrder f32 s.par.ow s.par.oy s.par.oh (movable s.circ)).map toString)).trimAscii.toString])
  | ["legalize"] =>
    match legalize s.par s.circ with
    | .ok c => ({ s with last := c }, [showSolution c])
    | .error _ => ({ s with last := s.circ }, ["throw:runtime_error"])
  | ["again"] =>
    match legalize s.par s.last with
    | .ok c => ({ s with last := c }, [showSolution c])
    | .error _ => (s, ["throw:runtime_error"])
  | ["end"] => (s, [])
  | [] => (s, [])
  | ws =>
    match circuitLine s.circ ws with
    | some c => ({ s with circ := c }, [])
    | none => (s, ["bad-op " ++ " ".intercalate ws])

end Driver
