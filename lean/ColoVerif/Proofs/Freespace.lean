import ColoVerif.Model.Freespace
/-
Helper lemmas for C15 (core Lean only).

Specification vocabulary:
* `Obstructs row o x` — obstacle `o`, read with min/max put in order on both axes (as boost does),
  touches column `x` of a row with `row`'s y-range: it has positive height, its open y-range meets the
  row's, and `x` lies in its x-range.
* `Cov cuts x` — column `x` lies in one of the half-open intervals `cuts`.

Then: membership/sortedness of the insertion sort, five invariants of `sweep`, the link between the clipped
intervals `cut` and `Obstructs`, and their combination for `freeIntervals`.
-/
namespace ColoVerif
namespace Freespace

/-- obstacle `o` touches column `x` of a row whose y-range is that of `row` -/
def Obstructs (row o : Rect) (x : Int) : Prop :=
  min o.minY o.maxY < max o.minY o.maxY ∧ min o.minY o.maxY < row.maxY ∧ row.minY < max o.minY o.maxY ∧
  min o.minX o.maxX ≤ x ∧ x < max o.minX o.maxX

/-- lower / upper end of the row's x-range as the code reads it -/
def lo (row : Rect) : Int := min row.minX row.maxX
def hi (row : Rect) : Int := max row.minX row.maxX

def Cov (cuts : List (Int × Int)) (x : Int) : Prop := ∃ iv ∈ cuts, iv.1 ≤ x ∧ x < iv.2

def SortedIv (l : List (Int × Int)) : Prop := l.Pairwise (fun p q => p.1 ≤ q.1)

/-! ### insertion sort -/

theorem mem_insertIv (iv j : Int × Int) (l : List (Int × Int)) :
    j ∈ insertIv iv l ↔ j = iv ∨ j ∈ l := by
  induction l with
  | nil => simp [insertIv]
  | cons k ks ih =>
    simp only [insertIv]
    split
    · simp
    · simp only [List.mem_cons, ih]
      constructor
      · rintro (h | h | h) <;> simp [h]
      · rintro (h | h | h) <;> simp [h]

theorem mem_sortIvs (j : Int × Int) (l : List (Int × Int)) : j ∈ sortIvs l ↔ j ∈ l := by
  induction l with
  | nil => simp [sortIvs]
  | cons k ks ih =>
    have : sortIvs (k :: ks) = insertIv k (sortIvs ks) := rfl
    rw [this, mem_insertIv, ih]
    simp

theorem sorted_insertIv (iv : Int × Int) (l : List (Int × Int)) (h : SortedIv l) :
    SortedIv (insertIv iv l) := by
  induction l with
  | nil => simp [insertIv, SortedIv]
  | cons k ks ih =>
    simp only [insertIv]
    unfold SortedIv at *
    rw [List.pairwise_cons] at h
    split
    · rename_i hle
      rw [List.pairwise_cons]
      refine ⟨?_, List.pairwise_cons.mpr h⟩
      intro q hq
      rcases List.mem_cons.mp hq with rfl | hq
      · exact hle
      · exact Int.le_trans hle (h.1 q hq)
    · rename_i hgt
      rw [List.pairwise_cons]
      refine ⟨?_, ih h.2⟩
      intro q hq
      rcases (mem_insertIv iv q ks).mp hq with rfl | hq
      · omega
      · exact h.1 q hq

theorem sorted_sortIvs (l : List (Int × Int)) : SortedIv (sortIvs l) := by
  induction l with
  | nil => simp [sortIvs, SortedIv]
  | cons k ks ih => exact sorted_insertIv k _ ih

theorem cov_sortIvs (l : List (Int × Int)) (x : Int) : Cov (sortIvs l) x ↔ Cov l x := by
  simp only [Cov, mem_sortIvs]

/-! ### the sweep -/

theorem sweep_nil (hi cur : Int) : sweep hi cur [] = if cur < hi then [(cur, hi)] else [] := by
  simp [sweep]

theorem sweep_cons (hi cur a b : Int) (rest : List (Int × Int)) :
    sweep hi cur ((a, b) :: rest) =
      if cur < a then (cur, a) :: sweep hi (max cur b) rest else sweep hi (max cur b) rest := by
  simp [sweep]

/-- every produced interval starts at or after `cur`, is non-empty and ends at or before `hi` -/
theorem sweep_inside (hi : Int) (cuts : List (Int × Int)) :
    ∀ cur, (∀ iv ∈ cuts, iv.1 ≤ hi) → ∀ iv ∈ sweep hi cur cuts, cur ≤ iv.1 ∧ iv.1 < iv.2 ∧ iv.2 ≤ hi := by
  induction cuts with
  | nil =>
    intro cur _ iv hiv
    rw [sweep_nil] at hiv
    split at hiv
    · simp at hiv; subst hiv; simp; omega
    · simp at hiv
  | cons c rest ih =>
    obtain ⟨a, b⟩ := c
    intro cur hb iv hiv
    have ha : a ≤ hi := hb (a, b) (by simp)
    have hrest : ∀ iv ∈ rest, iv.1 ≤ hi := fun iv h => hb iv (by simp [h])
    rw [sweep_cons] at hiv
    split at hiv
    · rcases List.mem_cons.mp hiv with rfl | h
      · simp; omega
      · have := ih (max cur b) hrest iv h
        omega
    · have := ih (max cur b) hrest iv hiv
      omega

/-- the produced intervals are sorted and strictly separated -/
theorem sweep_pairwise (hi : Int) (cuts : List (Int × Int)) :
    ∀ cur, (∀ iv ∈ cuts, iv.1 < iv.2 ∧ iv.1 ≤ hi) →
      (sweep hi cur cuts).Pairwise (fun p q => p.2 < q.1) := by
  induction cuts with
  | nil =>
    intro cur _
    rw [sweep_nil]
    split <;> simp
  | cons c rest ih =>
    obtain ⟨a, b⟩ := c
    intro cur hb
    have hab : a < b := (hb (a, b) (by simp)).1
    have hrest : ∀ iv ∈ rest, iv.1 < iv.2 ∧ iv.1 ≤ hi := fun iv h => hb iv (by simp [h])
    rw [sweep_cons]
    split
    · rw [List.pairwise_cons]
      refine ⟨?_, ih _ hrest⟩
      intro q hq
      have := sweep_inside hi rest (max cur b) (fun iv h => (hrest iv h).2) q hq
      simp only
      omega
    · exact ih _ hrest

/-- no produced interval contains a covered column (needs the cuts sorted by lower end) -/
theorem sweep_misses (hi : Int) (cuts : List (Int × Int)) :
    ∀ cur, SortedIv cuts → (∀ iv ∈ cuts, iv.1 ≤ hi) →
      ∀ iv ∈ sweep hi cur cuts, ∀ x, iv.1 ≤ x → x < iv.2 → ¬ Cov cuts x := by
  induction cuts with
  | nil =>
    intro cur _ _ iv _ x _ _ hc
    simp [Cov] at hc
  | cons c rest ih =>
    obtain ⟨a, b⟩ := c
    intro cur hs hb iv hiv x hx1 hx2 hc
    have hrest : ∀ iv ∈ rest, iv.1 ≤ hi := fun iv h => hb iv (by simp [h])
    unfold SortedIv at hs
    rw [List.pairwise_cons] at hs
    rw [sweep_cons] at hiv
    obtain ⟨j, hj, hj1, hj2⟩ := hc
    have key : iv ∈ sweep hi (max cur b) rest → False := by
      intro h
      have hin := sweep_inside hi rest (max cur b) hrest iv h
      rcases List.mem_cons.mp hj with rfl | hj'
      · simp only at hj1 hj2; omega
      · exact ih (max cur b) hs.2 hrest iv h x hx1 hx2 ⟨j, hj', hj1, hj2⟩
    split at hiv
    · rcases List.mem_cons.mp hiv with rfl | h
      · simp only at hx1 hx2
        rcases List.mem_cons.mp hj with rfl | hj'
        · simp only at hj1; omega
        · have := hs.1 j hj'
          simp only at this
          omega
      · exact key h
    · exact key hiv

/-- every uncovered column from `cur` on lies in a produced interval -/
theorem sweep_complete (hi : Int) (cuts : List (Int × Int)) :
    ∀ cur x, cur ≤ x → x < hi → ¬ Cov cuts x → ∃ iv ∈ sweep hi cur cuts, iv.1 ≤ x ∧ x < iv.2 := by
  induction cuts with
  | nil =>
    intro cur x h1 h2 _
    rw [sweep_nil]
    have : cur < hi := by omega
    simp [this]
    omega
  | cons c rest ih =>
    obtain ⟨a, b⟩ := c
    intro cur x h1 h2 hc
    have hc' : ¬ Cov rest x := fun ⟨j, hj, h⟩ => hc ⟨j, by simp [hj], h⟩
    have hab : ¬ (a ≤ x ∧ x < b) := fun h => hc ⟨(a, b), by simp, h⟩
    rw [sweep_cons]
    by_cases hxa : x < a
    · have : cur < a := by omega
      simp only [this, if_true]
      exact ⟨(cur, a), by simp, by simp; omega⟩
    · have hxb : max cur b ≤ x := by omega
      obtain ⟨iv, hiv, h⟩ := ih (max cur b) x hxb h2 hc'
      split
      · exact ⟨iv, by simp [hiv], h⟩
      · exact ⟨iv, hiv, h⟩

/-- a produced interval cannot be extended: it starts at `cur` or just after a covered column, and it ends
at `hi` or at a covered column -/
theorem sweep_maximal (hi : Int) (cuts : List (Int × Int)) :
    ∀ cur, (∀ iv ∈ cuts, iv.1 < iv.2) → ∀ iv ∈ sweep hi cur cuts,
      (iv.1 = cur ∨ Cov cuts (iv.1 - 1)) ∧ (iv.2 = hi ∨ Cov cuts iv.2) := by
  induction cuts with
  | nil =>
    intro cur _ iv hiv
    rw [sweep_nil] at hiv
    split at hiv
    · simp at hiv; subst hiv; simp
    · simp at hiv
  | cons c rest ih =>
    obtain ⟨a, b⟩ := c
    intro cur hb iv hiv
    have hab : a < b := hb (a, b) (by simp)
    have hrest : ∀ iv ∈ rest, iv.1 < iv.2 := fun iv h => hb iv (by simp [h])
    have lift : ∀ x, Cov rest x → Cov ((a, b) :: rest) x := fun x ⟨j, hj, h⟩ => ⟨j, by simp [hj], h⟩
    have key : iv ∈ sweep hi (max cur b) rest →
        (iv.1 = cur ∨ Cov ((a, b) :: rest) (iv.1 - 1)) ∧ (iv.2 = hi ∨ Cov ((a, b) :: rest) iv.2) := by
      intro h
      obtain ⟨h1, h2⟩ := ih (max cur b) hrest iv h
      refine ⟨?_, h2.imp id (lift _)⟩
      rcases h1 with h1 | h1
      · by_cases hcb : b ≤ cur
        · left; omega
        · right; exact ⟨(a, b), by simp, by simp only; omega⟩
      · exact Or.inr (lift _ h1)
    rw [sweep_cons] at hiv
    split at hiv
    · rcases List.mem_cons.mp hiv with rfl | h
      · exact ⟨Or.inl rfl, Or.inr ⟨(a, b), by simp, by simp only; omega⟩⟩
      · exact key h
    · exact key hiv

/-! ### clipped obstacle intervals vs. `Obstructs` -/

theorem normalize_minX (r : Rect) : r.normalize.minX = min r.minX r.maxX := rfl
theorem normalize_maxX (r : Rect) : r.normalize.maxX = max r.minX r.maxX := rfl
theorem normalize_minY (r : Rect) : r.normalize.minY = min r.minY r.maxY := rfl
theorem normalize_maxY (r : Rect) : r.normalize.maxY = max r.minY r.maxY := rfl

theorem cut_eq_some (row o : Rect) (a b : Int) :
    cut row o = some (a, b) ↔
      (min o.minX o.maxX < max o.minX o.maxX ∧ min o.minY o.maxY < max o.minY o.maxY ∧
       min o.minY o.maxY < row.maxY ∧ row.minY < max o.minY o.maxY ∧
       min o.minX o.maxX < row.maxX ∧ row.minX < max o.minX o.maxX) ∧
      max (min o.minX o.maxX) row.minX = a ∧ min (max o.minX o.maxX) row.maxX = b := by
  unfold cut
  constructor
  · intro h
    by_cases hc : (min o.minX o.maxX < max o.minX o.maxX ∧ min o.minY o.maxY < max o.minY o.maxY ∧
       min o.minY o.maxY < row.maxY ∧ row.minY < max o.minY o.maxY ∧
       min o.minX o.maxX < row.maxX ∧ row.minX < max o.minX o.maxX)
    · rw [if_pos hc] at h
      simp only [Option.some.injEq, Prod.mk.injEq] at h
      exact ⟨hc, h⟩
    · rw [if_neg hc] at h
      simp at h
  · rintro ⟨hc, rfl, rfl⟩
    rw [if_pos hc]

theorem cut_some (row o : Rect) (a b : Int) (hx : row.minX ≠ row.maxX) (hy : row.minY < row.maxY)
    (h : cut row.normalize o = some (a, b)) :
    lo row ≤ a ∧ a < b ∧ b ≤ hi row ∧ ∀ x, a ≤ x → x < b → Obstructs row o x := by
  rw [cut_eq_some] at h
  simp only [normalize_minX, normalize_maxX, normalize_minY, normalize_maxY] at h
  obtain ⟨hc, rfl, rfl⟩ := h
  simp only [lo, hi, Obstructs]
  refine ⟨by omega, by omega, by omega, ?_⟩
  intro x h1 h2
  omega

theorem obstructs_cut (row o : Rect) (x : Int) (hy : row.minY < row.maxY)
    (hx1 : lo row ≤ x) (hx2 : x < hi row) (h : Obstructs row o x) :
    ∃ a b, cut row.normalize o = some (a, b) ∧ a ≤ x ∧ x < b := by
  simp only [lo, hi] at hx1 hx2
  simp only [Obstructs] at h
  refine ⟨_, _, (cut_eq_some _ _ _ _).mpr ⟨?_, rfl, rfl⟩, ?_, ?_⟩ <;>
    simp only [normalize_minX, normalize_maxX, normalize_minY, normalize_maxY] <;> omega

theorem cov_cuts_obstructs (row : Rect) (obs : List Rect) (x : Int) (hx : row.minX ≠ row.maxX)
    (hy : row.minY < row.maxY)
    (h : Cov (obs.filterMap (cut row.normalize)) x) : ∃ o ∈ obs, Obstructs row o x := by
  obtain ⟨⟨a, b⟩, hiv, h1, h2⟩ := h
  obtain ⟨o, ho, hcut⟩ := List.mem_filterMap.mp hiv
  exact ⟨o, ho, (cut_some row o a b hx hy hcut).2.2.2 x h1 h2⟩

theorem obstructs_cov_cuts (row : Rect) (obs : List Rect) (x : Int) (hy : row.minY < row.maxY)
    (hx1 : lo row ≤ x) (hx2 : x < hi row) (o : Rect) (ho : o ∈ obs) (h : Obstructs row o x) :
    Cov (obs.filterMap (cut row.normalize)) x := by
  obtain ⟨a, b, hcut, h1, h2⟩ := obstructs_cut row o x hy hx1 hx2 h
  exact ⟨(a, b), List.mem_filterMap.mpr ⟨o, ho, hcut⟩, h1, h2⟩

theorem cuts_bounds (row : Rect) (obs : List Rect) (hx : row.minX ≠ row.maxX) (hy : row.minY < row.maxY) :
    ∀ iv ∈ sortIvs (obs.filterMap (cut row.normalize)), lo row ≤ iv.1 ∧ iv.1 < iv.2 ∧ iv.2 ≤ hi row := by
  intro iv hiv
  rw [mem_sortIvs] at hiv
  obtain ⟨o, _, hcut⟩ := List.mem_filterMap.mp hiv
  obtain ⟨h1, h2, h3, _⟩ := cut_some row o iv.1 iv.2 hx hy hcut
  exact ⟨h1, h2, h3⟩

/-! ### `freeIntervals` -/

theorem freeIntervals_eq (row : Rect) (obs : List Rect) :
    freeIntervals row obs =
      if row.minX ≠ row.maxX ∧ row.minY < row.maxY then
        sweep (hi row) (lo row) (sortIvs (obs.filterMap (cut row.normalize)))
      else [] := by
  simp only [freeIntervals, hi, lo]

theorem freeIntervals_inside (row : Rect) (obs : List Rect) (iv : Int × Int)
    (h : iv ∈ freeIntervals row obs) :
    row.minY < row.maxY ∧ lo row ≤ iv.1 ∧ iv.1 < iv.2 ∧ iv.2 ≤ hi row := by
  rw [freeIntervals_eq] at h
  split at h
  · rename_i hc
    have hb := cuts_bounds row obs hc.1 hc.2
    have := sweep_inside (hi row) _ (lo row) (fun iv h => by have := hb iv h; omega) iv h
    exact ⟨hc.2, this⟩
  · simp at h

theorem freeIntervals_pairwise (row : Rect) (obs : List Rect) :
    (freeIntervals row obs).Pairwise (fun p q => p.2 < q.1) := by
  rw [freeIntervals_eq]
  split
  · rename_i hc
    have hb := cuts_bounds row obs hc.1 hc.2
    exact sweep_pairwise (hi row) _ (lo row) (fun iv h => by have := hb iv h; omega)
  · simp

theorem freeIntervals_misses (row : Rect) (obs : List Rect) (iv : Int × Int)
    (h : iv ∈ freeIntervals row obs) (x : Int) (hx1 : iv.1 ≤ x) (hx2 : x < iv.2) (o : Rect) (ho : o ∈ obs) :
    ¬ Obstructs row o x := by
  have hin := freeIntervals_inside row obs iv h
  rw [freeIntervals_eq] at h
  split at h
  · rename_i hc
    intro hob
    have hb := cuts_bounds row obs hc.1 hc.2
    have hcov : Cov (sortIvs (obs.filterMap (cut row.normalize))) x := by
      rw [cov_sortIvs]
      exact obstructs_cov_cuts row obs x hc.2 (by omega) (by omega) o ho hob
    exact sweep_misses (hi row) _ (lo row) (sorted_sortIvs _) (fun iv h => by have := hb iv h; omega)
      iv h x hx1 hx2 hcov
  · simp at h

theorem freeIntervals_complete (row : Rect) (obs : List Rect) (x : Int) (hy : row.minY < row.maxY)
    (hx1 : lo row ≤ x) (hx2 : x < hi row) (hfree : ∀ o ∈ obs, ¬ Obstructs row o x) :
    ∃ iv ∈ freeIntervals row obs, iv.1 ≤ x ∧ x < iv.2 := by
  rw [freeIntervals_eq]
  have hne : row.minX ≠ row.maxX := by simp only [lo, hi] at hx1 hx2; omega
  simp only [hne, hy, ne_eq, not_false_eq_true, and_self, if_true]
  apply sweep_complete (hi row) _ (lo row) x hx1 hx2
  rw [cov_sortIvs]
  intro hc
  obtain ⟨o, ho, hob⟩ := cov_cuts_obstructs row obs x hne hy hc
  exact hfree o ho hob

theorem freeIntervals_maximal (row : Rect) (obs : List Rect) (iv : Int × Int)
    (h : iv ∈ freeIntervals row obs) :
    (iv.1 = lo row ∨ ∃ o ∈ obs, Obstructs row o (iv.1 - 1)) ∧
    (iv.2 = hi row ∨ ∃ o ∈ obs, Obstructs row o iv.2) := by
  rw [freeIntervals_eq] at h
  split at h
  · rename_i hc
    have hb := cuts_bounds row obs hc.1 hc.2
    obtain ⟨h1, h2⟩ := sweep_maximal (hi row) _ (lo row) (fun iv h => (hb iv h).2.1) iv h
    refine ⟨h1.imp id ?_, h2.imp id ?_⟩
    · intro hcov
      rw [cov_sortIvs] at hcov
      exact cov_cuts_obstructs row obs _ hc.1 hc.2 hcov
    · intro hcov
      rw [cov_sortIvs] at hcov
      exact cov_cuts_obstructs row obs _ hc.1 hc.2 hcov
  · simp at h

end Freespace

/-! ### `Row.freespace` and `Circuit.computeRows` -/

theorem Row.mem_freespace (r : Row) (obs : List Rect) (s : Row) :
    s ∈ r.freespace obs ↔
      ∃ iv ∈ Freespace.freeIntervals r.rect obs, s = ⟨⟨iv.1, iv.2, r.rect.minY, r.rect.maxY⟩, r.orient⟩ := by
  simp only [Row.freespace, List.mem_map]
  constructor
  · rintro ⟨iv, h, rfl⟩; exact ⟨iv, h, rfl⟩
  · rintro ⟨iv, h, rfl⟩; exact ⟨iv, h, rfl⟩

/-- a cell that `computeRows` does not look at: movable, or flagged as a non-obstruction -/
def Cell.ignored (cl : Cell) : Prop := (cl.fixed && cl.obstruction) = false

/-- `l'` is obtained from `l` by inserting, deleting and changing ignored cells in any way -/
inductive SameUpToIgnored : List Cell → List Cell → Prop
  | nil : SameUpToIgnored [] []
  | keep (c : Cell) {l l' : List Cell} : SameUpToIgnored l l' → SameUpToIgnored (c :: l) (c :: l')
  | dropLeft {c : Cell} {l l' : List Cell} : c.ignored → SameUpToIgnored l l' → SameUpToIgnored (c :: l) l'
  | dropRight {c : Cell} {l l' : List Cell} : c.ignored → SameUpToIgnored l l' → SameUpToIgnored l (c :: l')

theorem SameUpToIgnored.filter_eq {l l' : List Cell} (h : SameUpToIgnored l l') :
    l.filter (fun cl => cl.fixed && cl.obstruction) = l'.filter (fun cl => cl.fixed && cl.obstruction) := by
  induction h with
  | nil => rfl
  | keep c _ ih => simp only [List.filter_cons]; split <;> simp [ih]
  | dropLeft hc _ ih => simp only [List.filter_cons, Cell.ignored] at *; simp [hc, ih]
  | dropRight hc _ ih => simp only [List.filter_cons, Cell.ignored] at *; simp [hc, ih]

/-- pointwise changes: equal length and, at every index, the same cell or two ignored cells -/
theorem SameUpToIgnored.of_pointwise : ∀ (l l' : List Cell), l.length = l'.length →
    (∀ i, i < l.length → l.getD i default = l'.getD i default ∨
      ((l.getD i default).ignored ∧ (l'.getD i default).ignored)) → SameUpToIgnored l l'
  | [], [], _, _ => .nil
  | [], _ :: _, h, _ => by simp at h
  | _ :: _, [], h, _ => by simp at h
  | c :: l, c' :: l', hlen, h => by
    have ih := SameUpToIgnored.of_pointwise l l' (by simpa using hlen) (fun i hi => by
      have := h (i + 1) (by simp; omega)
      simpa using this)
    have h0 := h 0 (by simp)
    simp only [List.getD_cons_zero] at h0
    rcases h0 with rfl | ⟨h1, h2⟩
    · exact .keep c ih
    · exact .dropLeft h1 (.dropRight h2 ih)

theorem Circuit.obstacles_congr (c c' : Circuit) (h : SameUpToIgnored c.cells c'.cells) :
    c.obstacles = c'.obstacles := by
  simp only [Circuit.obstacles, h.filter_eq]

end ColoVerif
