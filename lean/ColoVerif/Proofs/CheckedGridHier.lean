import ColoVerif.Proofs.CheckedGrid
import ColoVerif.Proofs.GridAlloc
/-
C07: the integer bookkeeping of `HierarchicalDensityPlacement` (demands, usage, refine / coarsen index
arithmetic) evaluates without fault in the states characterised by C16's invariant `Grid.Inv`
(`AllocInv` + well-formed hierarchies) and returns what the unbounded model returns.
-/
namespace ColoVerif.Grid
open ColoVerif.Checked

/-! ### demands and usage -/

/-- demands as `fromIspdCircuit` produces them on the C07 domain: areas in `[0, 2^31)` -/
def DemandOk (demand : List Int) : Prop :=
  demand.length ≤ 1048576 ∧ ∀ d ∈ demand, 0 ≤ d ∧ d ≤ 2147483647

instance (demand : List Int) : Decidable (DemandOk demand) := by unfold DemandOk; exact inferInstance

theorem DemandOk.getD {demand : List Int} (h : DemandOk demand) (c : Nat) :
    0 ≤ demand.getD c 0 ∧ demand.getD c 0 ≤ 2147483647 := by
  by_cases hk : c < demand.length
  · apply h.2
    rw [List.getD_eq_getElem?_getD, List.getElem?_eq_getElem hk]
    exact List.getElem_mem hk
  · have : demand.getD c 0 = 0 := by
      rw [List.getD_eq_getElem?_getD, List.getElem?_eq_none (by omega)]; rfl
    omega

theorem totalDemandC_ok (s : HState) (h : DemandOk s.demand) : s.totalDemandC = .ok s.demand.sum := by
  unfold HState.totalDemandC
  have hs := sum_le_mul 2147483647 s.demand (fun v hv => (h.2 v hv).2)
  have h0 := sum_nonneg_int s.demand (fun v hv => (h.2 v hv).1)
  have hl : (s.demand.length : Int) ≤ 1048576 := by have := h.1; omega
  have := sumC_ok "totalDemand: ret += demand" s.demand 0 (fun v hv => (h.2 v hv).1) (by omega) (by omega)
  rw [this]; simp

theorem cellDemandC_ok (asr : Bool) (demand : List Int) (c : Nat) (hc : c < demand.length) :
    cellDemandC asr demand c = .ok (demand.getD c 0) := by
  unfold cellDemandC
  rw [assertC_true asr _ (decide_eq_true hc), andThen_ok]
  exact indexC_nat _ demand c hc

theorem binUsageC_ok (asr : Bool) (s : HState) (x y : Nat) (hx : x < s.bins.length)
    (hy : y < (s.bins.getD x []).length) (hc : ∀ c ∈ s.cells x y, c < s.nbCells)
    (hlen : (s.cells x y).length ≤ 1048576) (hd : DemandOk s.demand) :
    s.binUsageC asr x y = .ok (s.binUsage x y) := by
  unfold HState.binUsageC HState.binUsage binCellsC
  rw [if_pos ⟨hx, hy⟩, andThen_ok]
  rw [mapC_ok (fun c => cellDemandC asr s.demand c) s.cellDemand (cellsAt s.bins x y)
    (fun c h => cellDemandC_ok asr s.demand c (hc c h)), andThen_ok]
  have hnn : ∀ v ∈ (cellsAt s.bins x y).map s.cellDemand, 0 ≤ v := by
    intro v hv; obtain ⟨c, _, rfl⟩ := List.mem_map.mp hv; exact (hd.getD c).1
  have hle : ∀ v ∈ (cellsAt s.bins x y).map s.cellDemand, v ≤ 2147483647 := by
    intro v hv; obtain ⟨c, _, rfl⟩ := List.mem_map.mp hv; exact (hd.getD c).2
  have hs := sum_le_mul 2147483647 _ hle
  rw [List.length_map] at hs
  have hl : ((cellsAt s.bins x y).length : Int) ≤ 1048576 := by
    have : (s.cells x y).length = (cellsAt s.bins x y).length := rfl
    omega
  have h0 := sum_nonneg_int _ hnn
  have := sumC_ok "binUsage: usage += cellDemand(c)" _ 0 hnn (by omega) (by omega)
  rw [this]
  simp [HState.cells]

/-- a movable cell whose area fits an `int`, or a fixed cell -/
def CellAreaOk (cl : Cell) : Prop :=
  cl.fixed = true ∨ (fitsInt64 (cl.w * cl.h) ∧ fitsInt32 (cl.w * cl.h))

instance (cl : Cell) : Decidable (CellAreaOk cl) := by unfold CellAreaOk; exact inferInstance

theorem circuitDemandsC_ok (c : Circuit) (h : ∀ cl ∈ c.cells, CellAreaOk cl) :
    circuitDemandsC c = .ok (circuitDemands c) := by
  unfold circuitDemandsC circuitDemands
  apply mapC_ok
  intro cl hcl
  unfold cellDemandOfC
  rcases h cl hcl with hf | ⟨h64, h32⟩
  · simp [hf]
  · by_cases hf : cl.fixed = true
    · simp [hf]
    · simp only [hf, Bool.false_eq_true, if_false]
      have e1 : mulI64 "Circuit::area: (long long)cellWidth_ * (long long)cellHeight_" cl.w cl.h = .ok (cl.w * cl.h) :=
        chk64_ok h64
      rw [e1, andThen_ok]
      exact chk32_ok h32

/-! ### refine / coarsen -/

theorem mem_flat {s : HState} {c : Nat} (h : c ∈ s.flat) : ∃ i j, c ∈ s.cells i j := by
  unfold HState.flat at h
  obtain ⟨i, _, hi⟩ := List.mem_flatMap.mp h
  obtain ⟨j, _, hj⟩ := List.mem_flatMap.mp hi
  exact ⟨i, j, hj⟩

theorem updateCellToBinC_ok (s : HState) (h : AllocInv s) : s.updateCellToBinC = .ok () := by
  unfold HState.updateCellToBinC
  apply forAllC_ok
  intro c hc
  have := ((h.covers c).mpr (mem_flat hc)).1
  simp [this]

theorem levelC_ok (site : String) (h : Hier) (n lvl : Nat) (hok : HierOk h n) (hl : lvl < h.nbLevels) :
    HState.levelC site h (lvl : Int) = .ok lvl := by
  unfold HState.levelC
  have h1 : lvl < h.limits.length := hl
  have h2 : lvl < h.parents.length := by rw [hok.len]; exact hl
  rw [if_pos ⟨by omega, by simpa using h1, by simpa using h2⟩]
  simp

theorem andThen_congr_ok {α β : Type} {x : Except Fault α} {a : α} (f : α → Except Fault β) (hx : x = .ok a) :
    andThen x f = f a := by rw [hx]; rfl

theorem natSub_cast (n : Nat) (h : 1 ≤ n) : (n : Int) - 1 = ((n - 1 : Nat) : Int) := by omega

theorem refineXC_ok (asr : Bool) (s : HState) (nX nY : Nat) (h : Inv nX nY s) (hl : 1 ≤ s.levelX)
    (hn : s.hx.nbLevels ≤ 2147483647) : s.refineXC asr = .ok s.refineX := by
  have hlv := h.alloc.lvlX
  have hok := h.hxOk
  unfold HState.refineXC
  rw [assertC_true asr _ (decide_eq_true hl), andThen_ok]
  have e1 : subI32 "refineX: levelX_--" (s.levelX : Int) 1 = .ok (((s.levelX - 1 : Nat) : Int)) := by
    unfold subI32; rw [natSub_cast _ hl]; exact chk32_ok' (by omega) (by omega)
  rw [e1, andThen_ok, levelC_ok _ s.hx nX (s.levelX - 1) hok (by omega), andThen_ok]
  refine Eq.trans (andThen_congr_ok _ (forAllC_ok _ _ ?_)) ?_
  · intro i hi
    have hi' := List.mem_range.mp hi
    apply forAllC_ok
    intro j hj
    have hj' := List.mem_range.mp hj
    have hlen : s.hx.nbBins (s.levelX - 1) = (s.hx.par (s.levelX - 1)).length := hok.nbBins_eq _ (by omega)
    have hpk : ParOk (s.hx.par (s.levelX - 1)) (s.hx.nbBins (s.levelX - 1 + 1)) := hok.parOk _ (by omega)
    have hp := hpk.lt i (by omega)
    have e : s.levelX - 1 + 1 = s.levelX := by omega
    rw [e] at hp
    unfold HState.parC HState.binIdxC
    rw [if_pos (by omega), andThen_ok,
      if_pos ⟨by rw [h.alloc.shapeX]; exact hp, by show j < (List.getD s.bins _ []).length; rw [h.alloc.shapeY _ hp]; exact hj'⟩]
  · rw [updateCellToBinC_ok _ (allocInv_refineX s nX hok h.alloc), andThen_ok]

theorem refineYC_ok (asr : Bool) (s : HState) (nX nY : Nat) (h : Inv nX nY s) (hl : 1 ≤ s.levelY)
    (hn : s.hy.nbLevels ≤ 2147483647) : s.refineYC asr = .ok s.refineY := by
  have hlv := h.alloc.lvlY
  have hok := h.hyOk
  unfold HState.refineYC
  rw [assertC_true asr _ (decide_eq_true hl), andThen_ok]
  have e1 : subI32 "refineY: levelY_--" (s.levelY : Int) 1 = .ok (((s.levelY - 1 : Nat) : Int)) := by
    unfold subI32; rw [natSub_cast _ hl]; exact chk32_ok' (by omega) (by omega)
  rw [e1, andThen_ok, levelC_ok _ s.hy nY (s.levelY - 1) hok (by omega), andThen_ok]
  refine Eq.trans (andThen_congr_ok _ (forAllC_ok _ _ ?_)) ?_
  · intro i hi
    have hi' := List.mem_range.mp hi
    apply forAllC_ok
    intro j hj
    have hj' := List.mem_range.mp hj
    have hlen : s.hy.nbBins (s.levelY - 1) = (s.hy.par (s.levelY - 1)).length := hok.nbBins_eq _ (by omega)
    have hpk : ParOk (s.hy.par (s.levelY - 1)) (s.hy.nbBins (s.levelY - 1 + 1)) := hok.parOk _ (by omega)
    have hp := hpk.lt j (by omega)
    have e : s.levelY - 1 + 1 = s.levelY := by omega
    rw [e] at hp
    unfold HState.parC HState.binIdxC
    rw [if_pos (by omega), andThen_ok,
      if_pos ⟨by rw [h.alloc.shapeX]; exact hi', by show _ < (List.getD s.bins i []).length; rw [h.alloc.shapeY _ hi']; exact hp⟩]
  · rw [updateCellToBinC_ok _ (allocInv_refineY s nY hok h.alloc), andThen_ok]

theorem coarsenXC_ok (asr : Bool) (s : HState) (nX nY : Nat) (h : Inv nX nY s) (hl : s.levelX + 1 < s.hx.nbLevels)
    (hn : s.hx.nbLevels ≤ 2147483647) : s.coarsenXC asr = .ok s.coarsenX := by
  have hok := h.hxOk
  unfold HState.coarsenXC
  have e1 : addI32 "coarsenX: levelX_ + 1" (s.levelX : Int) 1 = .ok (((s.levelX + 1 : Nat) : Int)) := by
    have : (s.levelX : Int) + 1 = ((s.levelX + 1 : Nat) : Int) := by omega
    unfold addI32; rw [this]; exact chk32_ok' (by omega) (by omega)
  rw [e1, andThen_ok, assertC_true asr _ (decide_eq_true (by omega)), andThen_ok,
    levelC_ok _ s.hx nX (s.levelX + 1) hok hl, andThen_ok, levelC_ok _ s.hx nX s.levelX hok (by omega), andThen_ok]
  refine Eq.trans (andThen_congr_ok _ (forAllC_ok _ _ ?_)) ?_
  · intro i hi
    have hi' := List.mem_range.mp hi
    apply forAllC_ok
    intro j hj
    have hj' := List.mem_range.mp hj
    have hlen : s.nbX = (s.hx.par s.levelX).length := hok.nbBins_eq _ (by omega)
    have hpk : ParOk (s.hx.par s.levelX) (s.hx.nbBins (s.levelX + 1)) := hok.parOk _ hl
    have hp := hpk.lt i (by omega)
    unfold HState.parC HState.binIdxC
    rw [if_pos (by omega), andThen_ok,
      if_pos ⟨by rw [h.alloc.shapeX]; exact hi', by show j < (List.getD s.bins i []).length; rw [h.alloc.shapeY _ hi']; exact hj'⟩, andThen_ok,
      if_pos ⟨hp, hj'⟩]
  · rw [updateCellToBinC_ok _ (allocInv_coarsenX s nX hok h.alloc), andThen_ok]

theorem coarsenYC_ok (asr : Bool) (s : HState) (nX nY : Nat) (h : Inv nX nY s) (hl : s.levelY + 1 < s.hy.nbLevels)
    (hn : s.hy.nbLevels ≤ 2147483647) : s.coarsenYC asr = .ok s.coarsenY := by
  have hok := h.hyOk
  unfold HState.coarsenYC
  have e1 : addI32 "coarsenY: levelY_ + 1" (s.levelY : Int) 1 = .ok (((s.levelY + 1 : Nat) : Int)) := by
    have : (s.levelY : Int) + 1 = ((s.levelY + 1 : Nat) : Int) := by omega
    unfold addI32; rw [this]; exact chk32_ok' (by omega) (by omega)
  rw [e1, andThen_ok, assertC_true asr _ (decide_eq_true (by omega)), andThen_ok,
    levelC_ok _ s.hy nY (s.levelY + 1) hok hl, andThen_ok, levelC_ok _ s.hy nY s.levelY hok (by omega), andThen_ok]
  refine Eq.trans (andThen_congr_ok _ (forAllC_ok _ _ ?_)) ?_
  · intro i hi
    have hi' := List.mem_range.mp hi
    apply forAllC_ok
    intro j hj
    have hj' := List.mem_range.mp hj
    have hlen : s.nbY = (s.hy.par s.levelY).length := hok.nbBins_eq _ (by omega)
    have hpk : ParOk (s.hy.par s.levelY) (s.hy.nbBins (s.levelY + 1)) := hok.parOk _ hl
    have hp := hpk.lt j (by omega)
    unfold HState.parC HState.binIdxC
    rw [if_pos (by omega), andThen_ok,
      if_pos ⟨by rw [h.alloc.shapeX]; exact hi', by show j < (List.getD s.bins i []).length; rw [h.alloc.shapeY _ hi']; exact hj'⟩, andThen_ok,
      if_pos ⟨hi', hp⟩]
  · rw [updateCellToBinC_ok _ (allocInv_coarsenY s nY hok h.alloc), andThen_ok]

/-! ### `check()`: `usage += binUsage(i, j)` and `assert(usage == totalDemand())` -/

theorem sum_flatten_int : ∀ L : List (List Int), L.flatten.sum = (L.map List.sum).sum
  | [] => rfl
  | l :: L => by simp [List.sum_append, sum_flatten_int L]

theorem sum_map_flatMap (f : Nat → List Nat) (g : Nat → Int) : ∀ l : List Nat,
    ((l.flatMap f).map g).sum = (l.map fun i => ((f i).map g).sum).sum
  | [] => rfl
  | a :: l => by simp [List.flatMap_cons, List.sum_append, sum_map_flatMap f g l]

theorem perm_sum_int {l1 l2 : List Int} (h : l1.Perm l2) : l1.sum = l2.sum := by
  induction h with
  | nil => rfl
  | cons x _ ih => simp [ih]
  | swap x y l => simp only [List.sum_cons]; omega
  | trans _ _ ih1 ih2 => omega

theorem sum_filter_zero (p : Nat → Bool) (d : Nat → Int) : ∀ l : List Nat, (∀ c ∈ l, p c = false → d c = 0) →
    ((l.filter p).map d).sum = (l.map d).sum
  | [], _ => rfl
  | a :: l, h => by
    have ih := sum_filter_zero p d l (fun c hc => h c (by simp [hc]))
    by_cases hp : p a = true
    · simp [List.filter_cons, hp, ih]
    · have hp' : p a = false := by simpa using hp
      have := h a (by simp) hp'
      simp [List.filter_cons, hp', ih, this]

/-- under the allocation invariant a bin holds each cell at most once: at most `nbCells` cells -/
theorem AllocInv.cells_length {s : HState} (h : AllocInv s) (i j : Nat) : (s.cells i j).length ≤ s.nbCells := by
  have := List.Nodup.length_le_of_subset (h.nodup i j) (l₂ := List.range s.nbCells)
    (fun c hc => List.mem_range.mpr ((h.covers c).mpr ⟨i, j, hc⟩).1)
  simpa using this

/-- the usage of all bins of the view is the total demand -/
theorem flat_demand_sum (s : HState) (h : AllocInv s) (hd : DemandOk s.demand) :
    (s.flat.map s.cellDemand).sum = s.demand.sum := by
  have hnd : s.flat.Nodup := nodup_flatOf s.nbX s.nbY s.bins h.nodup h.disjoint
  have hnd2 : ((List.range s.nbCells).filter fun c => decide (s.cellDemand c > 0)).Nodup :=
    List.Nodup.filter _ List.nodup_range
  have hperm : s.flat.Perm ((List.range s.nbCells).filter fun c => decide (s.cellDemand c > 0)) := by
    rw [List.perm_ext_iff_of_nodup hnd hnd2]
    intro c
    simp only [List.mem_filter, List.mem_range, decide_eq_true_eq]
    constructor
    · intro hc
      exact (h.covers c).mpr (mem_flat hc)
    · intro hc
      obtain ⟨i, j, hij⟩ := (h.covers c).mp hc
      obtain ⟨hi, hj⟩ := h.in_range hij
      exact (mem_flatOf s.nbX s.nbY s.bins c).mpr ⟨i, j, hi, hj, hij⟩
  rw [perm_sum_int (hperm.map s.cellDemand)]
  rw [sum_filter_zero (fun c => decide (s.cellDemand c > 0)) s.cellDemand (List.range s.nbCells) (by
    intro c _ hp
    have := (hd.getD c).1
    have hp' : ¬ s.cellDemand c > 0 := by simpa using hp
    unfold HState.cellDemand at hp' ⊢
    omega)]
  have := range_map_getD (0 : Int) (fun x => x) s.demand
  simp only [List.map_id'] at this
  unfold HState.cellDemand HState.nbCells
  rw [this]

/-- **`check()`'s usage accumulation**: in a state of C16's invariant with demands of the domain, every
`binUsage(i, j)` and the 64-bit accumulation evaluate without fault and `usage == totalDemand()` holds -/
theorem usageSumC_ok (asr : Bool) (s : HState) (nX nY : Nat) (h : Inv nX nY s) (hd : DemandOk s.demand) :
    s.usageSumC asr = .ok s.demand.sum := by
  have ha := h.alloc
  have hu : ∀ i j, i < s.nbX → j < s.nbY → s.binUsageC asr i j = .ok (s.binUsage i j) := by
    intro i j hi hj
    apply binUsageC_ok asr s i j (by rw [ha.shapeX]; exact hi) (by rw [ha.shapeY i hi]; exact hj)
      (fun c hc => ((ha.covers c).mpr ⟨i, j, hc⟩).1) _ hd
    have := ha.cells_length i j
    have := hd.1
    unfold HState.nbCells at *
    omega
  have htab : mapC (fun i => mapC (fun j => s.binUsageC asr i j) (List.range s.nbY)) (List.range s.nbX) =
      .ok ((List.range s.nbX).map fun i => (List.range s.nbY).map fun j => s.binUsage i j) := by
    apply mapC_ok
    intro i hi
    apply mapC_ok
    intro j hj
    exact hu i j (List.mem_range.mp hi) (List.mem_range.mp hj)
  have hsum : ((List.range s.nbX).map fun i => (List.range s.nbY).map fun j => s.binUsage i j).flatten.sum =
      s.demand.sum := by
    rw [← flat_demand_sum s ha hd, sum_flatten_int, List.map_map]
    unfold HState.flat
    rw [sum_map_flatMap]
    congr 1
    apply List.map_congr_left
    intro i _
    simp only [Function.comp]
    rw [sum_map_flatMap]
    rfl
  have hnn : ∀ v ∈ ((List.range s.nbX).map fun i => (List.range s.nbY).map fun j => s.binUsage i j).flatten, 0 ≤ v := by
    intro v hv
    obtain ⟨row, hrow, hv'⟩ := List.mem_flatten.mp hv
    obtain ⟨i, _, rfl⟩ := List.mem_map.mp hrow
    obtain ⟨j, _, rfl⟩ := List.mem_map.mp hv'
    unfold HState.binUsage
    apply sum_nonneg_int
    intro w hw
    obtain ⟨c, _, rfl⟩ := List.mem_map.mp hw
    exact (hd.getD c).1
  have hb := sum_le_mul 2147483647 s.demand (fun v hv => (hd.2 v hv).2)
  have hl : (s.demand.length : Int) ≤ 1048576 := by have := hd.1; omega
  unfold HState.usageSumC
  rw [htab, andThen_ok, sumC_ok _ _ 0 hnn (by omega) (by rw [hsum]; omega), andThen_ok, totalDemandC_ok s hd, andThen_ok,
    assertC_true asr _ (decide_eq_true (by rw [hsum]; omega)), andThen_ok, hsum]
  simp

end ColoVerif.Grid
