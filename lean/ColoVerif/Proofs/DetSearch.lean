import ColoVerif.Model.DetSearch
import ColoVerif.Proofs.DetOpt
import ColoVerif.Proofs.DetPlaceCan
import ColoVerif.Proofs.DetPlaceLegal
/-
Facts about the candidate enumeration of the local search (Model/DetSearch.lean):

* a candidate chosen by `bestSwapChoice` / `bestInsertChoice` is feasible (`canSwap` / `canInsert`
  returned `true`);
* every pass (`runSwaps`, `runInserts` and all their helpers) that returns `.ok (q, ops)` yields a
  `SearchTrace p ops q`: the ghost list `ops` is a sequence of primitive moves, each one *chosen by the
  acceptance rule* on the placer it is applied to, feasible there, and accepted by `Placer.step`;
  in particular `p.run ops = .ok q`;
* no-error results on placements that satisfy `Inv`, with `nbNeighbours ≥ 0`: the windowed passes
  (`runSwapsOneRow`, `runSwapsTwoRows`, `runInsertsOneRow`, `runInsertsTwoRows`), the one-row sweep
  of `runSwaps` and the whole of `runInserts` never return an error and keep `Inv`.  (The amplified
  two-row swap pass can only be shown not to run out of fuel on synchronised placers; not done here.)
-/
namespace ColoVerif.DetPlace
open State

/-! ### (a) the chosen candidate is feasible -/

theorem bestSwapChoice_canSwap {p : Placer} {c b : Int} {cands : List Int}
    (h : p.bestSwapChoice c cands = some b) : p.pl.canSwap c b = .ok true := by
  unfold Placer.bestSwapChoice at h
  obtain ⟨v, hv, _⟩ := scan_some (best := none) (by intro c hc; cases hc) h b rfl
  unfold Placer.valueOnSwap at hv
  split at hv
  · assumption
  · cases hv

theorem bestInsertChoice_canInsert {p : Placer} {c r b : Int} {cands : List Int}
    (h : p.bestInsertChoice c r cands = some b) : p.pl.canInsert c r b = .ok true := by
  unfold Placer.bestInsertChoice at h
  obtain ⟨v, hv, _⟩ := scan_some (best := none) (by intro c hc; cases hc) h b rfl
  unfold Placer.valueOnInsert at hv
  split at hv
  · assumption
  · cases hv

/-- the chosen candidate strictly improves the value read by `valueOnSwap` -/
theorem bestSwapChoice_improves {p : Placer} {c b : Int} {cands : List Int}
    (h : p.bestSwapChoice c cands = some b) : ∃ v, (p.valueOnSwap c b).1 = some v ∧ v < p.value := by
  unfold Placer.bestSwapChoice at h
  exact scan_some (best := none) (by intro c hc; cases hc) h b rfl

theorem bestInsertChoice_improves {p : Placer} {c r b : Int} {cands : List Int}
    (h : p.bestInsertChoice c r cands = some b) : ∃ v, (p.valueOnInsert c r b).1 = some v ∧ v < p.value := by
  unfold Placer.bestInsertChoice at h
  exact scan_some (best := none) (by intro c hc; cases hc) h b rfl

/-! ### (b) traces -/

/-- a sequence of primitive moves of the local search: every move was chosen by the acceptance rule
among some candidates on the placer it is applied to, is feasible there and is accepted by `step` -/
inductive SearchTrace : Placer → List Op → Placer → Prop
  | nil (p : Placer) : SearchTrace p [] p
  | swap {p p' q : Placer} {ops : List Op} (k b : Int) (cands : List Int) :
      p.bestSwapChoice k cands = some b → p.pl.canSwap k b = .ok true →
      p.step (.swap k b) = .ok p' → SearchTrace p' ops q → SearchTrace p (.swap k b :: ops) q
  | insert {p p' q : Placer} {ops : List Op} (k r b : Int) (cands : List Int) :
      p.bestInsertChoice k r cands = some b → p.pl.canInsert k r b = .ok true →
      p.step (.insert k r b) = .ok p' → SearchTrace p' ops q → SearchTrace p (.insert k r b :: ops) q

theorem SearchTrace.append {p q r : Placer} {ops ops' : List Op}
    (h : SearchTrace p ops q) (h' : SearchTrace q ops' r) : SearchTrace p (ops ++ ops') r := by
  induction h with
  | nil _ => exact h'
  | swap k b cands hc hf hs _ ih => exact .swap k b cands hc hf hs (ih h')
  | insert k r b cands hc hf hs _ ih => exact .insert k r b cands hc hf hs (ih h')

theorem SearchTrace.run {p q : Placer} {ops : List Op} (h : SearchTrace p ops q) : p.run ops = .ok q := by
  induction h with
  | nil _ => rfl
  | swap k b cands _ _ hs _ ih => simp only [Placer.run, hs, ih]
  | insert k r b cands _ _ hs _ ih => simp only [Placer.run, hs, ih]

/-- one chosen swap -/
theorem SearchTrace.one_swap {p q : Placer} {k b : Int} {cands : List Int}
    (hc : p.bestSwapChoice k cands = some b) (hs : p.step (.swap k b) = .ok q) :
    SearchTrace p [.swap k b] q :=
  .swap k b cands hc (bestSwapChoice_canSwap hc) hs (.nil q)

/-- one chosen insertion -/
theorem SearchTrace.one_insert {p q : Placer} {k r b : Int} {cands : List Int}
    (hc : p.bestInsertChoice k r cands = some b) (hs : p.step (.insert k r b) = .ok q) :
    SearchTrace p [.insert k r b] q :=
  .insert k r b cands hc (bestInsertChoice_canInsert hc) hs (.nil q)

/-- only swaps and insertions appear in a trace -/
theorem SearchTrace.ops_kind {p q : Placer} {ops : List Op} (h : SearchTrace p ops q) :
    ∀ op ∈ ops, (∃ k b, op = .swap k b) ∨ (∃ k r b, op = .insert k r b) := by
  induction h with
  | nil _ => intro op hop; cases hop
  | swap k b cands _ _ _ _ ih =>
    intro op hop
    cases hop with
    | head => exact .inl ⟨k, b, rfl⟩
    | tail _ h => exact ih op h
  | insert k r b cands _ _ _ _ ih =>
    intro op hop
    cases hop with
    | head => exact .inr ⟨k, r, b, rfl⟩
    | tail _ h => exact ih op h

/-! ### (c) every pass yields a trace -/

/-- a pass result carries a trace from `p` -/
def Traced (p : Placer) (x : Pass) : Prop := ∀ r, x = .ok r → SearchTrace p r.2 r.1

theorem traced_error (p : Placer) (e : Err) : Traced p (.error e) := by
  intro r h; cases h

theorem traced_nil (p : Placer) : Traced p (.ok (p, [])) := by
  intro r h; cases h; exact .nil p

/-- sequencing: `x; f` -/
theorem andThen_traced {p : Placer} {x : Pass} {f : Placer → Pass}
    (hx : Traced p x) (hf : ∀ q, Traced q (f q)) : Traced p (x.andThen f) := by
  intro r h
  unfold Pass.andThen at h
  split at h
  · cases h
  · rename_i r1
    split at h
    · cases h
    · rename_i r2 e2
      cases h
      exact (hx r1 rfl).append (hf r1.1 r2 e2)

/-- loops: if the body yields traces, the loop yields the concatenated trace -/
theorem loopOps_traced {α : Type} {body : Placer → α → Pass}
    (hb : ∀ q a, Traced q (body q a)) (p : Placer) (as : List α) : Traced p (loopOps body p as) := by
  induction as generalizing p with
  | nil => exact traced_nil p
  | cons a rest ih =>
    intro r h
    unfold loopOps at h
    split at h
    · cases h
    · rename_i r1 e1
      split at h
      · cases h
      · rename_i r2 e2
        cases h
        exact (hb p a r1 e1).append (ih r1.1 r2 e2)

theorem bestSwap_traced (p : Placer) (c : Int) (cands : List Int) : Traced p (p.bestSwap c cands) := by
  intro r h
  unfold Placer.bestSwap at h
  split at h
  · cases h; exact .nil p
  · rename_i b hc
    split at h
    · cases h
    · rename_i q hs
      cases h
      exact .one_swap hc hs

theorem bestInsert_traced (p : Placer) (c row : Int) (cands : List Int) :
    Traced p (p.bestInsert c row cands) := by
  intro r h
  unfold Placer.bestInsert at h
  split at h
  · cases h; exact .nil p
  · rename_i b hc
    split at h
    · cases h
    · rename_i q hs
      cases h
      exact .one_insert hc hs

/-- `bestSwapUpdate`: a successful round is one chosen swap `c ↔ c'` (the new `c`), and `from` only
changes to the old `c` when the old `from` was the chosen candidate -/
theorem bestSwapUpdate_some {p : Placer} {c from_ nb : Int} {r : Placer × Int × Int × Op}
    (h : p.bestSwapUpdate c from_ nb = .ok (some r)) :
    r.2.2.2 = .swap c r.2.1 ∧ r.2.2.1 = (if r.2.1 = from_ then c else from_) ∧
    p.bestSwapChoice c (p.swapUpdateCands from_ nb) = some r.2.1 ∧
    SearchTrace p [r.2.2.2] r.1 := by
  unfold Placer.bestSwapUpdate at h
  split at h
  · cases h
  · rename_i b hc
    split at h
    · cases h
    · rename_i q hs
      cases h
      exact ⟨rfl, rfl, hc, .one_swap hc hs⟩

theorem bestSwapUpdate_none {p : Placer} {c from_ nb : Int}
    (h : p.bestSwapUpdate c from_ nb = .ok none) :
    p.bestSwapChoice c (p.swapUpdateCands from_ nb) = none := by
  unfold Placer.bestSwapUpdate at h
  split at h
  · assumption
  · split at h <;> cases h

/-- the `while (bestSwapUpdate(...));` loop -/
theorem amplifyInner_trace (k : Nat) (p : Placer) (c from_ nb : Int) (r : Placer × Int × Int × List Op)
    (h : Placer.amplifyInner k p c from_ nb = .ok r) : SearchTrace p r.2.2.2 r.1 := by
  induction k generalizing p c from_ r with
  | zero => unfold Placer.amplifyInner at h; cases h
  | succ k ih =>
    unfold Placer.amplifyInner at h
    split at h
    · cases h
    · cases h; exact .nil p
    · rename_i r1 e1
      split at h
      · cases h
      · rename_i r2 e2
        cases h
        exact (bestSwapUpdate_some e1).2.2.2.append (ih _ _ _ _ e2)

/-- when the inner loop stops, no candidate improves any more -/
theorem amplifyInner_stops (k : Nat) (p : Placer) (c from_ nb : Int) (r : Placer × Int × Int × List Op)
    (h : Placer.amplifyInner k p c from_ nb = .ok r) :
    r.1.bestSwapChoice r.2.1 (r.1.swapUpdateCands r.2.2.1 nb) = none := by
  induction k generalizing p c from_ r with
  | zero => unfold Placer.amplifyInner at h; cases h
  | succ k ih =>
    unfold Placer.amplifyInner at h
    split at h
    · cases h
    · rename_i e1
      cases h
      exact bestSwapUpdate_none e1
    · rename_i r1 e1
      split at h
      · cases h
      · rename_i r2 e2
        cases h
        exact ih _ _ _ r2 e2

theorem amplifyOuter_traced (k : Nat) (p : Placer) (c from_ nb : Int) :
    Traced p (Placer.amplifyOuter k p c from_ nb) := by
  induction k generalizing p c from_ with
  | zero => unfold Placer.amplifyOuter; exact traced_error p _
  | succ k ih =>
    intro r h
    unfold Placer.amplifyOuter at h
    split at h
    · cases h; exact .nil p
    · split at h
      · cases h
      · rename_i r1 e1
        split at h
        · cases h
        · rename_i r2 e2
          cases h
          exact (amplifyInner_trace _ _ _ _ _ _ e1).append (ih _ _ _ r2 e2)

theorem runSwapsTwoRowsAmplify_traced (p : Placer) (r1 r2 nb : Int) :
    Traced p (p.runSwapsTwoRowsAmplify r1 r2 nb) := by
  unfold Placer.runSwapsTwoRowsAmplify
  exact amplifyOuter_traced _ _ _ _ _

theorem swapsOneRowBody_traced (cells : List Int) (nb : Int) (p : Placer) (ic : Int × Int) :
    Traced p (Placer.swapsOneRowBody cells nb p ic) := by
  unfold Placer.swapsOneRowBody
  split
  · exact traced_error p _
  · exact bestSwap_traced p _ _

theorem insertsOneRowBody_traced (cells : List Int) (row nb : Int) (p : Placer) (ic : Int × Int) :
    Traced p (Placer.insertsOneRowBody cells row nb p ic) := by
  unfold Placer.insertsOneRowBody
  split
  · exact traced_error p _
  · exact bestInsert_traced p _ _ _

theorem swapsTwoRowsBody_traced (cells2 : List Int) (nb : Int) (p : Placer) (cc : Int × Int) :
    Traced p (Placer.swapsTwoRowsBody cells2 nb p cc) := by
  unfold Placer.swapsTwoRowsBody
  split
  · exact traced_error p _
  · exact bestSwap_traced p _ _

theorem insertsTwoRowsBody_traced (cells2 : List Int) (r2 nb : Int) (p : Placer) (cc : Int × Int) :
    Traced p (Placer.insertsTwoRowsBody cells2 r2 nb p cc) := by
  unfold Placer.insertsTwoRowsBody
  split
  · exact traced_error p _
  · exact bestInsert_traced p _ _ _

theorem runSwapsOneRow_traced (p : Placer) (row nb : Int) : Traced p (p.runSwapsOneRow row nb) := by
  unfold Placer.runSwapsOneRow
  exact loopOps_traced (swapsOneRowBody_traced _ _) _ _

theorem runInsertsOneRow_traced (p : Placer) (row nb : Int) : Traced p (p.runInsertsOneRow row nb) := by
  unfold Placer.runInsertsOneRow
  exact loopOps_traced (insertsOneRowBody_traced _ _ _) _ _

theorem runSwapsTwoRows_traced (p : Placer) (r1 r2 nb : Int) : Traced p (p.runSwapsTwoRows r1 r2 nb) := by
  unfold Placer.runSwapsTwoRows
  exact loopOps_traced (swapsTwoRowsBody_traced _ _) _ _

theorem runInsertsTwoRows_traced (p : Placer) (r1 r2 nb : Int) :
    Traced p (p.runInsertsTwoRows r1 r2 nb) := by
  unfold Placer.runInsertsTwoRows
  exact loopOps_traced (insertsTwoRowsBody_traced _ _ _) _ _

theorem runSwapsTwoRowSweeps_traced (p : Placer) (nbRows nbNeighbours : Int) :
    Traced p (p.runSwapsTwoRowSweeps nbRows nbNeighbours) := by
  unfold Placer.runSwapsTwoRowSweeps
  exact loopOps_traced (fun q ij => runSwapsTwoRowsAmplify_traced q _ _ _) _ _

theorem runSwaps_traced (p : Placer) (nbRows nbNeighbours : Int) :
    Traced p (p.runSwaps nbRows nbNeighbours) := by
  unfold Placer.runSwaps
  exact andThen_traced (loopOps_traced (fun q i => runSwapsOneRow_traced q _ _) _ _)
    (fun q => runSwapsTwoRowSweeps_traced q _ _)

theorem runInserts_traced (p : Placer) (nbRows nbNeighbours : Int) :
    Traced p (p.runInserts nbRows nbNeighbours) := by
  unfold Placer.runInserts
  exact andThen_traced (loopOps_traced (fun q i => runInsertsOneRow_traced q _ _) _ _)
    (fun q => loopOps_traced (fun q' ij => runInsertsTwoRows_traced q' _ _ _) _ _)

/-- `runSwaps` performs a sequence of chosen, feasible, accepted swaps -/
theorem runSwaps_trace {p q : Placer} {a b : Int} {ops : List Op}
    (h : p.runSwaps a b = .ok (q, ops)) : SearchTrace p ops q :=
  runSwaps_traced p a b (q, ops) h

/-- `runInserts` performs a sequence of chosen, feasible, accepted insertions -/
theorem runInserts_trace {p q : Placer} {a b : Int} {ops : List Op}
    (h : p.runInserts a b = .ok (q, ops)) : SearchTrace p ops q :=
  runInserts_traced p a b (q, ops) h

theorem runSwapsOneRow_trace {p q : Placer} {row nb : Int} {ops : List Op}
    (h : p.runSwapsOneRow row nb = .ok (q, ops)) : SearchTrace p ops q :=
  runSwapsOneRow_traced p row nb (q, ops) h

theorem runInsertsOneRow_trace {p q : Placer} {row nb : Int} {ops : List Op}
    (h : p.runInsertsOneRow row nb = .ok (q, ops)) : SearchTrace p ops q :=
  runInsertsOneRow_traced p row nb (q, ops) h

theorem runSwapsTwoRows_trace {p q : Placer} {r1 r2 nb : Int} {ops : List Op}
    (h : p.runSwapsTwoRows r1 r2 nb = .ok (q, ops)) : SearchTrace p ops q :=
  runSwapsTwoRows_traced p r1 r2 nb (q, ops) h

theorem runSwapsTwoRowsAmplify_trace {p q : Placer} {r1 r2 nb : Int} {ops : List Op}
    (h : p.runSwapsTwoRowsAmplify r1 r2 nb = .ok (q, ops)) : SearchTrace p ops q :=
  runSwapsTwoRowsAmplify_traced p r1 r2 nb (q, ops) h

theorem runInsertsTwoRows_trace {p q : Placer} {r1 r2 nb : Int} {ops : List Op}
    (h : p.runInsertsTwoRows r1 r2 nb = .ok (q, ops)) : SearchTrace p ops q :=
  runInsertsTwoRows_traced p r1 r2 nb (q, ops) h

/-- the ghost list replays: the pass's result is the history of its moves -/
theorem runSwaps_run {p q : Placer} {a b : Int} {ops : List Op}
    (h : p.runSwaps a b = .ok (q, ops)) : p.run ops = .ok q := (runSwaps_trace h).run

theorem runInserts_run {p q : Placer} {a b : Int} {ops : List Op}
    (h : p.runInserts a b = .ok (q, ops)) : p.run ops = .ok q := (runInserts_trace h).run

/-! ### (d) the windowed passes never fail on `Inv` placements -/

/-- the candidate kept by the scan is the initial one or one of the candidates -/
theorem scan_mem {cur : Int} {eval : Int → Option Int} {cands : List Int} {best : Option Int} {b : Int}
    (e : scan cur eval cands best = some b) : best = some b ∨ b ∈ cands := by
  induction cands generalizing best with
  | nil => left; simpa [scan] using e
  | cons cand rest ih =>
    unfold scan at e
    split at e
    · split at e
      · rcases ih e with h | h
        · injection h with h; right; rw [h]; exact List.mem_cons_self
        · right; exact List.mem_cons_of_mem _ h
      · rcases ih e with h | h
        · left; exact h
        · right; exact List.mem_cons_of_mem _ h
    · rcases ih e with h | h
      · left; exact h
      · right; exact List.mem_cons_of_mem _ h

theorem bestSwapChoice_mem {p : Placer} {c b : Int} {cands : List Int}
    (h : p.bestSwapChoice c cands = some b) : b ∈ cands := by
  unfold Placer.bestSwapChoice at h
  rcases scan_mem h with h | h
  · cases h
  · exact h

theorem bestInsertChoice_mem {p : Placer} {c r b : Int} {cands : List Int}
    (h : p.bestInsertChoice c r cands = some b) : b ∈ cands := by
  unfold Placer.bestInsertChoice at h
  rcases scan_mem h with h | h
  · cases h
  · exact h

/-- liveness of a cell only depends on the number of cells and on the widths -/
theorem liveCell_congr {s t : State} (hn : t.nCells = s.nCells) (hw : t.width = s.width) (c : Int) :
    t.liveCell c = s.liveCell c := by
  rw [Bool.eq_iff_iff, liveCell_iff, liveCell_iff]
  unfold validCell
  rw [hn, hw]

/-- a feasible swap of two live cells is accepted by the whole-object step; the invariant, the rows and
the liveness of every cell are kept -/
theorem Placer.step_swap_ok {p : Placer} (h : Inv p.pl) {c b : Int} (hc : p.pl.liveCell c = true)
    (hb : p.pl.liveCell b = true) (hcan : p.pl.canSwap c b = .ok true) :
    ∃ q, p.step (.swap c b) = .ok q ∧ Inv q.pl ∧ q.pl.rows = p.pl.rows ∧
      ∀ d, q.pl.liveCell d = p.pl.liveCell d := by
  obtain ⟨t, e⟩ := swap_succeeds h hc hb hcan
  refine ⟨((p.withPl t).updateCell c).updateCell b, ?_, swap_inv h hc hb e, (Lg.swap_keep e).1, ?_⟩
  · simp only [Placer.step, hc, hb, Bool.and_self, if_true, Placer.doSwap, e]
  · exact liveCell_congr (Lg.swap_keep e).2.1 (swap_frame hc hb e).1

/-- a feasible insertion of a live cell at a site the optimiser may name is accepted by the
whole-object step; only the moved cell changes row -/
theorem Placer.step_insert_ok {p : Placer} (h : Inv p.pl) {c r b : Int} (hc : p.pl.liveCell c = true)
    (hs : p.pl.siteOk r b = true) (hcan : p.pl.canInsert c r b = .ok true) :
    ∃ q, p.step (.insert c r b) = .ok q ∧ Inv q.pl ∧ q.pl.rows = p.pl.rows ∧
      (∀ d, q.pl.liveCell d = p.pl.liveCell d) ∧ ∀ d, q.pl.row d = if d = c then r else p.pl.row d := by
  obtain ⟨t, e⟩ := insert_succeeds h hc hs hcan
  refine ⟨(p.withPl t).updateCell c, ?_, insert_inv h hc hs e, (Lg.insert_keep e).1, ?_, Lg.insert_rows e⟩
  · simp only [Placer.step, hc, hs, Bool.and_self, if_true, Placer.doInsert, e]
  · exact liveCell_congr (Lg.insert_keep e).2.1 (insert_frame hc e).1

/-- the invariant of the swap passes: `Inv`, the rows are `R`, the snapshot cells are live -/
def LiveInv (R : List Row) (cells : List Int) (p : Placer) : Prop :=
  Inv p.pl ∧ p.pl.rows = R ∧ ∀ c ∈ cells, p.pl.liveCell c = true

/-- the invariant of the insertion passes: `Inv`, the rows are `R`, the moved cells are live, the
entries of the destination snapshot are `-1` or live cells of the destination row -/
def RowInv (R : List Row) (cells : List Int) (dest : List Int) (row : Int) (p : Placer) : Prop :=
  Inv p.pl ∧ p.pl.rows = R ∧ (∀ c ∈ cells, p.pl.liveCell c = true) ∧
  ∀ b ∈ dest, b = -1 ∨ (p.pl.liveCell b = true ∧ p.pl.row b = row)

theorem bestSwap_ok {R : List Row} {cells : List Int} {p : Placer} (h : LiveInv R cells p) {c : Int}
    {cands : List Int} (hc : c ∈ cells) (hs : ∀ b ∈ cands, b ∈ cells) :
    ∃ r, p.bestSwap c cands = .ok r ∧ LiveInv R cells r.1 := by
  unfold Placer.bestSwap
  split
  · exact ⟨_, rfl, h⟩
  · rename_i b hch
    obtain ⟨q, e, hi, hrows, hl⟩ := Placer.step_swap_ok h.1 (h.2.2 c hc)
      (h.2.2 b (hs b (bestSwapChoice_mem hch))) (bestSwapChoice_canSwap hch)
    rw [e]
    exact ⟨_, rfl, hi, hrows.trans h.2.1, fun d hd => by rw [hl]; exact h.2.2 d hd⟩

theorem bestInsert_ok {R : List Row} {cells dest : List Int} {row : Int} {p : Placer}
    (h : RowInv R cells dest row p) (hR : 0 ≤ row ∧ row < (R.length : Int)) {c : Int} {cands : List Int}
    (hc : c ∈ cells) (hs : ∀ b ∈ cands, b ∈ dest) :
    ∃ r, p.bestInsert c row cands = .ok r ∧ RowInv R cells dest row r.1 := by
  unfold Placer.bestInsert
  split
  · exact ⟨_, rfl, h⟩
  · rename_i b hch
    obtain ⟨hi, hrows, hl, hd⟩ := h
    have hsite : p.pl.siteOk row b = true := by
      rw [siteOk_iff]
      refine ⟨by unfold validRow nRows; rw [hrows]; exact hR, ?_⟩
      rcases hd b (hs b (bestInsertChoice_mem hch)) with h1 | h1
      · exact .inl h1
      · exact .inr ⟨((liveCell_iff _ _).1 h1.1).1, h1.2⟩
    obtain ⟨q, e, hi', hrows', hl', hrow⟩ :=
      Placer.step_insert_ok hi (hl c hc) hsite (bestInsertChoice_canInsert hch)
    rw [e]
    refine ⟨_, rfl, hi', hrows'.trans hrows, fun d hd' => by rw [hl']; exact hl d hd', fun d hd' => ?_⟩
    rcases hd d hd' with h1 | h1
    · exact .inl h1
    · right
      refine ⟨by rw [hl']; exact h1.1, ?_⟩
      rw [hrow]
      split
      · rfl
      · exact h1.2

/-- a loop whose body succeeds and keeps an invariant succeeds and keeps it -/
theorem loopOps_ok {α : Type} {body : Placer → α → Pass} {I : Placer → Prop} {as : List α}
    (hb : ∀ q a, a ∈ as → I q → ∃ r, body q a = .ok r ∧ I r.1) {p : Placer} (hp : I p) :
    ∃ r, loopOps body p as = .ok r ∧ I r.1 := by
  induction as generalizing p with
  | nil => exact ⟨_, rfl, hp⟩
  | cons a rest ih =>
    obtain ⟨r1, e1, h1⟩ := hb p a List.mem_cons_self hp
    obtain ⟨r2, e2, h2⟩ := ih (fun q a' ha' => hb q a' (List.mem_cons_of_mem _ ha')) h1
    refine ⟨(r2.1, r1.2 ++ r2.2), ?_, h2⟩
    unfold loopOps
    simp only [e1, e2]

theorem andThen_ok {x : Pass} {f : Placer → Pass} {I J : Placer → Prop}
    (hx : ∃ r, x = .ok r ∧ I r.1) (hf : ∀ q, I q → ∃ r, f q = .ok r ∧ J r.1) :
    ∃ r, x.andThen f = .ok r ∧ J r.1 := by
  obtain ⟨r1, e1, h1⟩ := hx
  obtain ⟨r2, e2, h2⟩ := hf r1.1 h1
  refine ⟨(r2.1, r1.2 ++ r2.2), ?_, h2⟩
  unfold Pass.andThen
  simp only [e1, e2]

theorem mem_indexed {cells : List Int} {ic : Int × Int} (h : ic ∈ indexed cells) :
    0 ≤ ic.1 ∧ ic.1 < cells.length ∧ ic.2 ∈ cells := by
  unfold indexed at h
  obtain ⟨ci, hci, rfl⟩ := List.mem_map.1 h
  obtain ⟨_, h2, h3⟩ := List.mem_zipIdx (x := ci.1) (i := ci.2) hci
  refine ⟨by simp, by simp at h2 ⊢; omega, ?_⟩
  simp only []
  rw [h3]
  exact List.getElem_mem _

theorem mem_indexed_tail {a : Int} {cells : List Int} {ic : Int × Int}
    (h : ic ∈ (indexed (a :: cells)).drop 1) :
    0 ≤ ic.1 ∧ ic.1 < (a :: cells).length ∧ ic.2 ∈ cells := by
  unfold indexed at h
  rw [List.zipIdx_cons, List.map_cons, List.drop_one, List.tail_cons] at h
  obtain ⟨ci, hci, rfl⟩ := List.mem_map.1 h
  obtain ⟨h1, h2, h3⟩ := List.mem_zipIdx (x := ci.1) (i := ci.2) hci
  refine ⟨by simp, by simp at h2 ⊢; omega, ?_⟩
  simp only []
  rw [h3]
  exact List.getElem_mem _

/-- the window of an index inside the snapshot (or one past its end) is a well-formed slice when
`nbNeighbours ≥ 0` -/
theorem window_ok {cells : List Int} {i nb : Int} (hnb : 0 ≤ nb) (h0 : 0 ≤ i) (h1 : i ≤ cells.length) :
    ∃ cands, window cells i nb = .ok cands ∧ ∀ b ∈ cands, b ∈ cells := by
  unfold window slice
  have : ¬ (max 0 (i - nb) > min (cells.length : Int) (i + nb + 1)) := by omega
  rw [if_neg this]
  exact ⟨_, rfl, fun b hb => List.mem_of_mem_drop (List.mem_of_mem_take hb)⟩

/-- `closest` stays a valid index of `row2Cells` -/
theorem closestGo_lt (s : State) (row2 : List Int) (x : Int) (f k : Nat) (hk : k < row2.length) :
    closestGo s row2 x f k < row2.length := by
  induction f generalizing k with
  | zero => exact hk
  | succ f ih =>
    unfold closestGo
    split
    · exact hk
    · split
      · exact hk
      · exact ih (k + 1) (by omega)

theorem closestAll_lt (s : State) (row2 : List Int) (k : Nat) (row1 : List Int) (hk : k < row2.length) :
    ∀ v ∈ closestAll s row2 k row1, 0 ≤ v ∧ v < (row2.length : Int) := by
  induction row1 generalizing k with
  | nil => intro v hv; cases hv
  | cons c1 rest ih =>
    intro v hv
    unfold closestAll at hv
    have hlt := closestGo_lt s row2 (s.x c1) row2.length k hk
    rcases List.mem_cons.1 hv with h | h
    · subst h
      simp only [Int.ofNat_eq_natCast]
      omega
    · exact ih _ hlt v h

theorem computeClosestIndexInRow_le (s : State) (row1 row2 : List Int) :
    ∀ v ∈ s.computeClosestIndexInRow row1 row2, 0 ≤ v ∧ v ≤ (row2.length : Int) := by
  intro v hv
  unfold computeClosestIndexInRow at hv
  split at hv
  · have := List.eq_of_mem_replicate hv
    subst this
    exact ⟨Int.le_refl _, Int.natCast_nonneg _⟩
  · rename_i hne
    have hpos : 0 < row2.length := List.length_pos_iff.2 hne
    have := closestAll_lt s row2 0 row1 hpos v hv
    omega

/-- the cells of a valid row of a state that satisfies `Inv` are live cells of that row -/
theorem rowCells_live {s : State} (h : Inv s) {r : Int} (hr : s.validRow r) :
    ∀ c ∈ s.rowCells r, s.liveCell c = true ∧ s.row c = r := by
  intro c hc
  obtain ⟨vc, hrow⟩ := ((rowCells_spec h hr).1 c).1 hc
  rw [liveCell_iff]
  have C := h.cell vc
  unfold CellOk at C
  unfold validRow at hr
  exact ⟨⟨vc, (C.2 (by omega)).1⟩, hrow⟩

/-- `-1 :: rowCells(row)`: every entry is `-1` or a live cell of the row -/
theorem rowCells_dest {s : State} (h : Inv s) {r : Int} (hr : s.validRow r) :
    ∀ b ∈ -1 :: s.rowCells r, b = -1 ∨ (s.liveCell b = true ∧ s.row b = r) := by
  intro b hb
  rcases List.mem_cons.1 hb with h1 | h1
  · exact .inl h1
  · exact .inr (rowCells_live h hr b h1)

theorem validRow_bounds {s : State} {r : Int} (hr : s.validRow r) : 0 ≤ r ∧ r < (s.rows.length : Int) := hr

/-- **`runSwapsOneRow` never fails** on a valid row of a placement that satisfies `Inv` when
`nbNeighbours ≥ 0`; it keeps `Inv` and the rows -/
theorem runSwapsOneRow_no_error {p : Placer} (h : Inv p.pl) {row nb : Int} (hr : p.pl.validRow row)
    (hnb : 0 ≤ nb) :
    ∃ q ops, p.runSwapsOneRow row nb = .ok (q, ops) ∧ Inv q.pl ∧ q.pl.rows = p.pl.rows ∧
      SearchTrace p ops q := by
  have hp : LiveInv p.pl.rows (p.pl.rowCells row) p := ⟨h, rfl, fun c hc => (rowCells_live h hr c hc).1⟩
  obtain ⟨r, e, hi⟩ := loopOps_ok (body := Placer.swapsOneRowBody (p.pl.rowCells row) nb)
    (I := LiveInv p.pl.rows (p.pl.rowCells row)) (as := indexed (p.pl.rowCells row))
    (fun q ic hic hq => by
      obtain ⟨h0, h1, h2⟩ := mem_indexed hic
      obtain ⟨cands, ew, hs⟩ := window_ok hnb h0 (Int.le_of_lt h1)
      unfold Placer.swapsOneRowBody
      rw [ew]
      exact bestSwap_ok hq h2 hs) hp
  exact ⟨r.1, r.2, e, hi.1, hi.2.1, runSwapsOneRow_trace e⟩

/-- **`runSwapsTwoRows` never fails** on two valid rows (`nbNeighbours ≥ 0`) -/
theorem runSwapsTwoRows_no_error {p : Placer} (h : Inv p.pl) {r1 r2 nb : Int} (hr1 : p.pl.validRow r1)
    (hr2 : p.pl.validRow r2) (hnb : 0 ≤ nb) :
    ∃ q ops, p.runSwapsTwoRows r1 r2 nb = .ok (q, ops) ∧ Inv q.pl ∧ q.pl.rows = p.pl.rows ∧
      SearchTrace p ops q := by
  have hp : LiveInv p.pl.rows (p.pl.rowCells r1 ++ p.pl.rowCells r2) p :=
    ⟨h, rfl, fun c hc => by
      rcases List.mem_append.1 hc with h1 | h1
      · exact (rowCells_live h hr1 c h1).1
      · exact (rowCells_live h hr2 c h1).1⟩
  obtain ⟨r, e, hi⟩ := loopOps_ok (body := Placer.swapsTwoRowsBody (p.pl.rowCells r2) nb)
    (I := LiveInv p.pl.rows (p.pl.rowCells r1 ++ p.pl.rowCells r2))
    (as := (p.pl.rowCells r1).zip (p.pl.computeClosestIndexInRow (p.pl.rowCells r1) (p.pl.rowCells r2)))
    (fun q cc hcc hq => by
      have hm := List.of_mem_zip (a := cc.1) (b := cc.2) hcc
      obtain ⟨h0, h1⟩ := computeClosestIndexInRow_le _ _ _ _ hm.2
      obtain ⟨cands, ew, hs⟩ := window_ok hnb h0 h1
      unfold Placer.swapsTwoRowsBody
      rw [ew]
      exact bestSwap_ok hq (List.mem_append_left _ hm.1) (fun b hb => List.mem_append_right _ (hs b hb))) hp
  exact ⟨r.1, r.2, e, hi.1, hi.2.1, runSwapsTwoRows_trace e⟩

/-- **`runInsertsOneRow` never fails** on a valid row (`nbNeighbours ≥ 0`) -/
theorem runInsertsOneRow_no_error {p : Placer} (h : Inv p.pl) {row nb : Int} (hr : p.pl.validRow row)
    (hnb : 0 ≤ nb) :
    ∃ q ops, p.runInsertsOneRow row nb = .ok (q, ops) ∧ Inv q.pl ∧ q.pl.rows = p.pl.rows ∧
      SearchTrace p ops q := by
  have hp : RowInv p.pl.rows (p.pl.rowCells row) (-1 :: p.pl.rowCells row) row p :=
    ⟨h, rfl, fun c hc => (rowCells_live h hr c hc).1, rowCells_dest h hr⟩
  obtain ⟨r, e, hi⟩ := loopOps_ok (body := Placer.insertsOneRowBody (-1 :: p.pl.rowCells row) row nb)
    (I := RowInv p.pl.rows (p.pl.rowCells row) (-1 :: p.pl.rowCells row) row)
    (as := (indexed (-1 :: p.pl.rowCells row)).drop 1)
    (fun q ic hic hq => by
      obtain ⟨h0, h1, h2⟩ := mem_indexed_tail hic
      obtain ⟨cands, ew, hs⟩ := window_ok hnb h0 (Int.le_of_lt h1)
      unfold Placer.insertsOneRowBody
      rw [ew]
      exact bestInsert_ok hq (validRow_bounds hr) h2 hs) hp
  exact ⟨r.1, r.2, e, hi.1, hi.2.1, runInsertsOneRow_trace e⟩

/-- **`runInsertsTwoRows` never fails** on two valid rows (`nbNeighbours ≥ 0`) -/
theorem runInsertsTwoRows_no_error {p : Placer} (h : Inv p.pl) {r1 r2 nb : Int} (hr1 : p.pl.validRow r1)
    (hr2 : p.pl.validRow r2) (hnb : 0 ≤ nb) :
    ∃ q ops, p.runInsertsTwoRows r1 r2 nb = .ok (q, ops) ∧ Inv q.pl ∧ q.pl.rows = p.pl.rows ∧
      SearchTrace p ops q := by
  have hp : RowInv p.pl.rows (p.pl.rowCells r1) (-1 :: p.pl.rowCells r2) r2 p :=
    ⟨h, rfl, fun c hc => (rowCells_live h hr1 c hc).1, rowCells_dest h hr2⟩
  obtain ⟨r, e, hi⟩ := loopOps_ok (body := Placer.insertsTwoRowsBody (-1 :: p.pl.rowCells r2) r2 nb)
    (I := RowInv p.pl.rows (p.pl.rowCells r1) (-1 :: p.pl.rowCells r2) r2)
    (as := (p.pl.rowCells r1).zip
      (p.pl.computeClosestIndexInRow (p.pl.rowCells r1) (-1 :: p.pl.rowCells r2)))
    (fun q cc hcc hq => by
      have hm := List.of_mem_zip (a := cc.1) (b := cc.2) hcc
      obtain ⟨h0, h1⟩ := computeClosestIndexInRow_le _ _ _ _ hm.2
      obtain ⟨cands, ew, hs⟩ := window_ok hnb h0 h1
      unfold Placer.insertsTwoRowsBody
      rw [ew]
      exact bestInsert_ok hq (validRow_bounds hr2) hm.1 hs) hp
  exact ⟨r.1, r.2, e, hi.1, hi.2.1, runInsertsTwoRows_trace e⟩

/-- the invariant of the sweeps over rows -/
def SweepInv (R : List Row) (p : Placer) : Prop := Inv p.pl ∧ p.pl.rows = R

theorem validRow_of_rows {s : State} {R : List Row} (hrows : s.rows = R) {r : Int}
    (h : 0 ≤ r ∧ r < (R.length : Int)) : s.validRow r := by
  unfold validRow nRows; rw [hrows]; exact h

/-- the first loop of `runSwaps` (every row internally) never fails -/
theorem runSwaps_oneRowSweep_no_error {p : Placer} (h : Inv p.pl) {nb : Int} (hnb : 0 ≤ nb) :
    ∃ r, loopOps (fun q i => q.runSwapsOneRow i nb) p (intsUpTo p.pl.nRows) = .ok r ∧
      SweepInv p.pl.rows r.1 := by
  refine loopOps_ok (I := SweepInv p.pl.rows) (fun q i hi hq => ?_) ⟨h, rfl⟩
  rw [mem_intsUpTo] at hi
  obtain ⟨q', ops, e, hi', hrows, _⟩ := runSwapsOneRow_no_error hq.1 (validRow_of_rows hq.2 hi) hnb
  exact ⟨(q', ops), e, hi', hrows.trans hq.2⟩

theorem mem_insertDists {nbRows d : Int} (h : d ∈ Placer.insertDists nbRows) : 1 ≤ d := by
  unfold Placer.insertDists at h
  obtain ⟨k, _, rfl⟩ := List.mem_map.1 h
  have := Int.natCast_nonneg k
  simp only [Int.ofNat_eq_natCast]
  omega

theorem mem_insertPairsUp {n : Nat} {nbRows : Int} {ij : Int × Int} (h : ij ∈ Placer.insertPairsUp n nbRows) :
    (0 ≤ ij.1 ∧ ij.1 < (n : Int)) ∧ (0 ≤ ij.2 ∧ ij.2 < (n : Int)) := by
  unfold Placer.insertPairsUp at h
  obtain ⟨d, hd, h⟩ := List.mem_flatMap.1 h
  obtain ⟨i, hi, rfl⟩ := List.mem_map.1 h
  obtain ⟨hi1, hi2⟩ := List.mem_filter.1 hi
  rw [mem_intsUpTo] at hi1
  have := mem_insertDists hd
  have := of_decide_eq_true hi2
  simp only []
  omega

theorem mem_insertPairsDown {n : Nat} {nbRows : Int} {ij : Int × Int}
    (h : ij ∈ Placer.insertPairsDown n nbRows) :
    (0 ≤ ij.1 ∧ ij.1 < (n : Int)) ∧ (0 ≤ ij.2 ∧ ij.2 < (n : Int)) := by
  unfold Placer.insertPairsDown at h
  obtain ⟨d, hd, h⟩ := List.mem_flatMap.1 h
  obtain ⟨i, hi, rfl⟩ := List.mem_map.1 h
  obtain ⟨hi1, hi2⟩ := List.mem_filter.1 hi
  rw [List.mem_reverse, mem_intsUpTo] at hi1
  have := mem_insertDists hd
  have := of_decide_eq_true hi2
  simp only []
  omega

/-- **`runInserts` never fails** on a placement that satisfies `Inv` when `nbNeighbours ≥ 0` (any
`nbRows`); it keeps `Inv`, and its moves form a trace -/
theorem runInserts_no_error {p : Placer} (h : Inv p.pl) (nbRows : Int) {nb : Int} (hnb : 0 ≤ nb) :
    ∃ q ops, p.runInserts nbRows nb = .ok (q, ops) ∧ Inv q.pl ∧ q.pl.rows = p.pl.rows ∧
      SearchTrace p ops q := by
  have h1 : ∃ r, loopOps (fun q i => q.runInsertsOneRow i nb) p (intsUpTo p.pl.nRows) = .ok r ∧
      SweepInv p.pl.rows r.1 := by
    refine loopOps_ok (I := SweepInv p.pl.rows) (fun q i hi hq => ?_) ⟨h, rfl⟩
    rw [mem_intsUpTo] at hi
    obtain ⟨q', ops, e, hi', hrows, _⟩ := runInsertsOneRow_no_error hq.1 (validRow_of_rows hq.2 hi) hnb
    exact ⟨(q', ops), e, hi', hrows.trans hq.2⟩
  obtain ⟨r, e, hi⟩ := andThen_ok (J := SweepInv p.pl.rows)
    (f := fun q => loopOps (fun q' ij => q'.runInsertsTwoRows ij.1 ij.2 nb) q
      (Placer.insertPairsUp q.pl.nRows nbRows ++ Placer.insertPairsDown q.pl.nRows nbRows)) h1 (fun q hq => by
    refine loopOps_ok (I := SweepInv p.pl.rows) (fun q' ij hij hq' => ?_) hq
    have hb : (0 ≤ ij.1 ∧ ij.1 < (p.pl.rows.length : Int)) ∧ (0 ≤ ij.2 ∧ ij.2 < (p.pl.rows.length : Int)) := by
      have hn : q.pl.nRows = p.pl.rows.length := by unfold nRows; rw [hq.2]
      rw [← hn]
      rcases List.mem_append.1 hij with h2 | h2
      · exact mem_insertPairsUp h2
      · exact mem_insertPairsDown h2
    obtain ⟨q'', ops, e, hi', hrows, _⟩ := runInsertsTwoRows_no_error hq'.1
      (validRow_of_rows hq'.2 hb.1) (validRow_of_rows hq'.2 hb.2) hnb
    exact ⟨(q'', ops), e, hi', hrows.trans hq'.2⟩)
  have e' : p.runInserts nbRows nb = .ok (r.1, r.2) := e
  exact ⟨r.1, r.2, e', hi.1, hi.2, runInserts_trace e'⟩

/-! ### non-vacuity -/

/-- two movable cells and a fixed one in one row, one net (the instance of Properties/C05 `exC`) -/
def exSearch1 : Circuit :=
  { cells := [⟨2, 2, 0, 0, .N, false, false, .ANY⟩, ⟨3, 2, 4, 0, .N, false, false, .ANY⟩,
              ⟨1, 1, 12, 0, .N, true, false, .ANY⟩],
    nets := [⟨1, 0, [⟨0, 0, 0⟩, ⟨2, 0, 0⟩]⟩], rows := [⟨⟨0, 10, 0, 2⟩, .N⟩] }

/-- three movable cells in two stacked rows, two nets -/
def exSearch2 : Circuit :=
  { cells := [⟨2, 2, 0, 0, .N, false, false, .ANY⟩, ⟨3, 2, 4, 2, .N, false, false, .ANY⟩,
              ⟨1, 1, 12, 3, .N, true, false, .ANY⟩, ⟨2, 2, 6, 0, .N, false, false, .ANY⟩],
    nets := [⟨1, 0, [⟨0, 0, 0⟩, ⟨2, 0, 0⟩]⟩, ⟨1, 0, [⟨1, 0, 0⟩, ⟨3, 0, 0⟩]⟩],
    rows := [⟨⟨0, 10, 0, 2⟩, .N⟩, ⟨⟨0, 10, 2, 4⟩, .N⟩] }

/-- the pass `f` on `Placer.init c` succeeds, performs exactly `ops` and ends with value `v` -/
def passIs (c : Circuit) (f : Placer → Pass) (ops : List Op) (v : Int) : Bool :=
  match Placer.init c with
  | .error _ => false
  | .ok p =>
    match f p with
    | .error _ => false
    | .ok r => r.2 == ops && r.1.value == v

example : passIs exSearch1 (·.runSwaps 1 1) [.swap 0 1] 9 = true := by decide
example : passIs exSearch1 (·.runInserts 1 1) [.insert 0 0 1] 5 = true := by decide
/-- two rows: the amplified two-row pass swaps across rows -/
example : passIs exSearch2 (·.runSwaps 1 1) [.swap 0 1] 14 = true := by decide
example : passIs exSearch2 (·.runSwapsTwoRows 0 1 2) [.swap 0 1, .swap 3 1] 11 = true := by decide
example : passIs exSearch2 (·.runInserts 1 1) [.insert 0 0 3, .insert 3 1 1] 10 = true := by decide
/-- a negative `nbNeighbours` is refused (ill-formed slice in the C++) -/
example : (match Placer.init exSearch1 with
    | .ok p => (match p.runSwaps 1 (-1) with
      | .error .guard => true
      | _ => false)
    | .error _ => false) = true := by decide

/-- `runSwaps_trace` is not vacuous -/
example : ∃ p q, Placer.init exSearch1 = .ok p ∧ SearchTrace p [.swap 0 1] q ∧ q.value = 9 := by
  have h : passIs exSearch1 (·.runSwaps 1 1) [.swap 0 1] 9 = true := by decide
  unfold passIs at h
  split at h
  · cases h
  · rename_i p e0
    split at h
    · cases h
    · rename_i r e1
      simp only [Bool.and_eq_true, beq_iff_eq] at h
      exact ⟨p, r.1, e0, h.1 ▸ runSwaps_trace (q := r.1) (ops := r.2) e1, h.2⟩

end ColoVerif.DetPlace
