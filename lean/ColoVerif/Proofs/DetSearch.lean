import ColoVerif.Model.DetSearch
import ColoVerif.Proofs.DetOpt
/-
Facts about the candidate enumeration of the local search (Model/DetSearch.lean):

* a candidate chosen by `bestSwapChoice` / `bestInsertChoice` is feasible (`canSwap` / `canInsert`
  returned `true`);
* every pass (`runSwaps`, `runInserts` and all their helpers) that returns `.ok (q, ops)` yields a
  `SearchTrace p ops q`: the ghost list `ops` is a sequence of primitive moves, each one *chosen by the
  acceptance rule* on the placer it is applied to, feasible there, and accepted by `Placer.step`;
  in particular `p.run ops = .ok q`.
-/
namespace ColoVerif.DetPlace
open State

/-! ### (a) the chosen candidate is feasible -/

theorem bestSwapChoice_canSwap {p : Placer} {c b : Int} {cands : List Int}
    (h : p.bestSwapChoice c cands = some b) : p.pl.canSwap c b = .ok true := by
  unfold Placer.bestSwapChoice at h
  obtain ⟨v, hv, _⟩ := scan_some (best := none) (by intro c hc; cases hc) h b rfl
  unfold Placer.valueOnSwap at hv
  split at hv
  · assumption
  · cases hv

theorem bestInsertChoice_canInsert {p : Placer} {c r b : Int} {cands : List Int}
    (h : p.bestInsertChoice c r cands = some b) : p.pl.canInsert c r b = .ok true := by
  unfold Placer.bestInsertChoice at h
  obtain ⟨v, hv, _⟩ := scan_some (best := none) (by intro c hc; cases hc) h b rfl
  unfold Placer.valueOnInsert at hv
  split at hv
  · assumption
  · cases hv

/-- the chosen candidate strictly improves the value read by `valueOnSwap` -/
theorem bestSwapChoice_improves {p : Placer} {c b : Int} {cands : List Int}
    (h : p.bestSwapChoice c cands = some b) : ∃ v, (p.valueOnSwap c b).1 = some v ∧ v < p.value := by
  unfold Placer.bestSwapChoice at h
  exact scan_some (best := none) (by intro c hc; cases hc) h b rfl

theorem bestInsertChoice_improves {p : Placer} {c r b : Int} {cands : List Int}
    (h : p.bestInsertChoice c r cands = some b) : ∃ v, (p.valueOnInsert c r b).1 = some v ∧ v < p.value := by
  unfold Placer.bestInsertChoice at h
  exact scan_some (best := none) (by intro c hc; cases hc) h b rfl

/-! ### (b) traces -/

/-- a sequence of primitive moves of the local search: every move was chosen by the acceptance rule
among some candidates on the placer it is applied to, is feasible there and is accepted by `step` -/
inductive SearchTrace : Placer → List Op → Placer → Prop
  | nil (p : Placer) : SearchTrace p [] p
  | swap {p p' q : Placer} {ops : List Op} (k b : Int) (cands : List Int) :
      p.bestSwapChoice k cands = some b → p.pl.canSwap k b = .ok true →
      p.step (.swap k b) = .ok p' → SearchTrace p' ops q → SearchTrace p (.swap k b :: ops) q
  | insert {p p' q : Placer} {ops : List Op} (k r b : Int) (cands : List Int) :
      p.bestInsertChoice k r cands = some b → p.pl.canInsert k r b = .ok true →
      p.step (.insert k r b) = .ok p' → SearchTrace p' ops q → SearchTrace p (.insert k r b :: ops) q

theorem SearchTrace.append {p q r : Placer} {ops ops' : List Op}
    (h : SearchTrace p ops q) (h' : SearchTrace q ops' r) : SearchTrace p (ops ++ ops') r := by
  induction h with
  | nil _ => exact h'
  | swap k b cands hc hf hs _ ih => exact .swap k b cands hc hf hs (ih h')
  | insert k r b cands hc hf hs _ ih => exact .insert k r b cands hc hf hs (ih h')

theorem SearchTrace.run {p q : Placer} {ops : List Op} (h : SearchTrace p ops q) : p.run ops = .ok q := by
  induction h with
  | nil _ => rfl
  | swap k b cands _ _ hs _ ih => simp only [Placer.run, hs, ih]
  | insert k r b cands _ _ hs _ ih => simp only [Placer.run, hs, ih]

/-- one chosen swap -/
theorem SearchTrace.one_swap {p q : Placer} {k b : Int} {cands : List Int}
    (hc : p.bestSwapChoice k cands = some b) (hs : p.step (.swap k b) = .ok q) :
    SearchTrace p [.swap k b] q :=
  .swap k b cands hc (bestSwapChoice_canSwap hc) hs (.nil q)

/-- one chosen insertion -/
theorem SearchTrace.one_insert {p q : Placer} {k r b : Int} {cands : List Int}
    (hc : p.bestInsertChoice k r cands = some b) (hs : p.step (.insert k r b) = .ok q) :
    SearchTrace p [.insert k r b] q :=
  .insert k r b cands hc (bestInsertChoice_canInsert hc) hs (.nil q)

/-- only swaps and insertions appear in a trace -/
theorem SearchTrace.ops_kind {p q : Placer} {ops : List Op} (h : SearchTrace p ops q) :
    ∀ op ∈ ops, (∃ k b, op = .swap k b) ∨ (∃ k r b, op = .insert k r b) := by
  induction h with
  | nil _ => intro op hop; cases hop
  | swap k b cands _ _ _ _ ih =>
    intro op hop
    cases hop with
    | head => exact .inl ⟨k, b, rfl⟩
    | tail _ h => exact ih op h
  | insert k r b cands _ _ _ _ ih =>
    intro op hop
    cases hop with
    | head => exact .inr ⟨k, r, b, rfl⟩
    | tail _ h => exact ih op h

/-! ### (c) every pass yields a trace -/

/-- a pass result carries a trace from `p` -/
def Traced (p : Placer) (x : Pass) : Prop := ∀ r, x = .ok r → SearchTrace p r.2 r.1

theorem traced_error (p : Placer) (e : Err) : Traced p (.error e) := by
  intro r h; cases h

theorem traced_nil (p : Placer) : Traced p (.ok (p, [])) := by
  intro r h; cases h; exact .nil p

/-- sequencing: `x; f` -/
theorem andThen_traced {p : Placer} {x : Pass} {f : Placer → Pass}
    (hx : Traced p x) (hf : ∀ q, Traced q (f q)) : Traced p (x.andThen f) := by
  intro r h
  unfold Pass.andThen at h
  split at h
  · cases h
  · rename_i r1
    split at h
    · cases h
    · rename_i r2 e2
      cases h
      exact (hx r1 rfl).append (hf r1.1 r2 e2)

/-- loops: if the body yields traces, the loop yields the concatenated trace -/
theorem loopOps_traced {α : Type} {body : Placer → α → Pass}
    (hb : ∀ q a, Traced q (body q a)) (p : Placer) (as : List α) : Traced p (loopOps body p as) := by
  induction as generalizing p with
  | nil => exact traced_nil p
  | cons a rest ih =>
    intro r h
    unfold loopOps at h
    split at h
    · cases h
    · rename_i r1 e1
      split at h
      · cases h
      · rename_i r2 e2
        cases h
        exact (hb p a r1 e1).append (ih r1.1 r2 e2)

theorem bestSwap_traced (p : Placer) (c : Int) (cands : List Int) : Traced p (p.bestSwap c cands) := by
  intro r h
  unfold Placer.bestSwap at h
  split at h
  · cases h; exact .nil p
  · rename_i b hc
    split at h
    · cases h
    · rename_i q hs
      cases h
      exact .one_swap hc hs

theorem bestInsert_traced (p : Placer) (c row : Int) (cands : List Int) :
    Traced p (p.bestInsert c row cands) := by
  intro r h
  unfold Placer.bestInsert at h
  split at h
  · cases h; exact .nil p
  · rename_i b hc
    split at h
    · cases h
    · rename_i q hs
      cases h
      exact .one_insert hc hs

/-- `bestSwapUpdate`: a successful round is one chosen swap `c ↔ c'` (the new `c`), and `from` only
changes to the old `c` when the old `from` was the chosen candidate -/
theorem bestSwapUpdate_some {p : Placer} {c from_ nb : Int} {r : Placer × Int × Int × Op}
    (h : p.bestSwapUpdate c from_ nb = .ok (some r)) :
    r.2.2.2 = .swap c r.2.1 ∧ r.2.2.1 = (if r.2.1 = from_ then c else from_) ∧
    p.bestSwapChoice c (p.swapUpdateCands from_ nb) = some r.2.1 ∧
    SearchTrace p [r.2.2.2] r.1 := by
  unfold Placer.bestSwapUpdate at h
  split at h
  · cases h
  · rename_i b hc
    split at h
    · cases h
    · rename_i q hs
      cases h
      exact ⟨rfl, rfl, hc, .one_swap hc hs⟩

theorem bestSwapUpdate_none {p : Placer} {c from_ nb : Int}
    (h : p.bestSwapUpdate c from_ nb = .ok none) :
    p.bestSwapChoice c (p.swapUpdateCands from_ nb) = none := by
  unfold Placer.bestSwapUpdate at h
  split at h
  · assumption
  · split at h <;> cases h

/-- the `while (bestSwapUpdate(...));` loop -/
theorem amplifyInner_trace (k : Nat) (p : Placer) (c from_ nb : Int) (r : Placer × Int × Int × List Op)
    (h : Placer.amplifyInner k p c from_ nb = .ok r) : SearchTrace p r.2.2.2 r.1 := by
  induction k generalizing p c from_ r with
  | zero => unfold Placer.amplifyInner at h; cases h
  | succ k ih =>
    unfold Placer.amplifyInner at h
    split at h
    · cases h
    · cases h; exact .nil p
    · rename_i r1 e1
      split at h
      · cases h
      · rename_i r2 e2
        cases h
        exact (bestSwapUpdate_some e1).2.2.2.append (ih _ _ _ _ e2)

/-- when the inner loop stops, no candidate improves any more -/
theorem amplifyInner_stops (k : Nat) (p : Placer) (c from_ nb : Int) (r : Placer × Int × Int × List Op)
    (h : Placer.amplifyInner k p c from_ nb = .ok r) :
    r.1.bestSwapChoice r.2.1 (r.1.swapUpdateCands r.2.2.1 nb) = none := by
  induction k generalizing p c from_ r with
  | zero => unfold Placer.amplifyInner at h; cases h
  | succ k ih =>
    unfold Placer.amplifyInner at h
    split at h
    · cases h
    · rename_i e1
      cases h
      exact bestSwapUpdate_none e1
    · rename_i r1 e1
      split at h
      · cases h
      · rename_i r2 e2
        cases h
        exact ih _ _ _ r2 e2

theorem amplifyOuter_traced (k : Nat) (p : Placer) (c from_ nb : Int) :
    Traced p (Placer.amplifyOuter k p c from_ nb) := by
  induction k generalizing p c from_ with
  | zero => unfold Placer.amplifyOuter; exact traced_error p _
  | succ k ih =>
    intro r h
    unfold Placer.amplifyOuter at h
    split at h
    · cases h; exact .nil p
    · split at h
      · cases h
      · rename_i r1 e1
        split at h
        · cases h
        · rename_i r2 e2
          cases h
          exact (amplifyInner_trace _ _ _ _ _ _ e1).append (ih _ _ _ r2 e2)

theorem runSwapsTwoRowsAmplify_traced (p : Placer) (r1 r2 nb : Int) :
    Traced p (p.runSwapsTwoRowsAmplify r1 r2 nb) := by
  unfold Placer.runSwapsTwoRowsAmplify
  exact amplifyOuter_traced _ _ _ _ _

theorem swapsOneRowBody_traced (cells : List Int) (nb : Int) (p : Placer) (ic : Int × Int) :
    Traced p (Placer.swapsOneRowBody cells nb p ic) := by
  unfold Placer.swapsOneRowBody
  split
  · exact traced_error p _
  · exact bestSwap_traced p _ _

theorem insertsOneRowBody_traced (cells : List Int) (row nb : Int) (p : Placer) (ic : Int × Int) :
    Traced p (Placer.insertsOneRowBody cells row nb p ic) := by
  unfold Placer.insertsOneRowBody
  split
  · exact traced_error p _
  · exact bestInsert_traced p _ _ _

theorem swapsTwoRowsBody_traced (cells2 : List Int) (nb : Int) (p : Placer) (cc : Int × Int) :
    Traced p (Placer.swapsTwoRowsBody cells2 nb p cc) := by
  unfold Placer.swapsTwoRowsBody
  split
  · exact traced_error p _
  · exact bestSwap_traced p _ _

theorem insertsTwoRowsBody_traced (cells2 : List Int) (r2 nb : Int) (p : Placer) (cc : Int × Int) :
    Traced p (Placer.insertsTwoRowsBody cells2 r2 nb p cc) := by
  unfold Placer.insertsTwoRowsBody
  split
  · exact traced_error p _
  · exact bestInsert_traced p _ _ _

theorem runSwapsOneRow_traced (p : Placer) (row nb : Int) : Traced p (p.runSwapsOneRow row nb) := by
  unfold Placer.runSwapsOneRow
  exact loopOps_traced (swapsOneRowBody_traced _ _) _ _

theorem runInsertsOneRow_traced (p : Placer) (row nb : Int) : Traced p (p.runInsertsOneRow row nb) := by
  unfold Placer.runInsertsOneRow
  exact loopOps_traced (insertsOneRowBody_traced _ _ _) _ _

theorem runSwapsTwoRows_traced (p : Placer) (r1 r2 nb : Int) : Traced p (p.runSwapsTwoRows r1 r2 nb) := by
  unfold Placer.runSwapsTwoRows
  exact loopOps_traced (swapsTwoRowsBody_traced _ _) _ _

theorem runInsertsTwoRows_traced (p : Placer) (r1 r2 nb : Int) :
    Traced p (p.runInsertsTwoRows r1 r2 nb) := by
  unfold Placer.runInsertsTwoRows
  exact loopOps_traced (insertsTwoRowsBody_traced _ _ _) _ _

theorem runSwapsTwoRowSweeps_traced (p : Placer) (nbRows nbNeighbours : Int) :
    Traced p (p.runSwapsTwoRowSweeps nbRows nbNeighbours) := by
  unfold Placer.runSwapsTwoRowSweeps
  exact loopOps_traced (fun q ij => runSwapsTwoRowsAmplify_traced q _ _ _) _ _

theorem runSwaps_traced (p : Placer) (nbRows nbNeighbours : Int) :
    Traced p (p.runSwaps nbRows nbNeighbours) := by
  unfold Placer.runSwaps
  exact andThen_traced (loopOps_traced (fun q i => runSwapsOneRow_traced q _ _) _ _)
    (fun q => runSwapsTwoRowSweeps_traced q _ _)

theorem runInserts_traced (p : Placer) (nbRows nbNeighbours : Int) :
    Traced p (p.runInserts nbRows nbNeighbours) := by
  unfold Placer.runInserts
  exact andThen_traced (loopOps_traced (fun q i => runInsertsOneRow_traced q _ _) _ _)
    (fun q => loopOps_traced (fun q' ij => runInsertsTwoRows_traced q' _ _ _) _ _)

/-- `runSwaps` performs a sequence of chosen, feasible, accepted swaps -/
theorem runSwaps_trace {p q : Placer} {a b : Int} {ops : List Op}
    (h : p.runSwaps a b = .ok (q, ops)) : SearchTrace p ops q :=
  runSwaps_traced p a b (q, ops) h

/-- `runInserts` performs a sequence of chosen, feasible, accepted insertions -/
theorem runInserts_trace {p q : Placer} {a b : Int} {ops : List Op}
    (h : p.runInserts a b = .ok (q, ops)) : SearchTrace p ops q :=
  runInserts_traced p a b (q, ops) h

theorem runSwapsOneRow_trace {p q : Placer} {row nb : Int} {ops : List Op}
    (h : p.runSwapsOneRow row nb = .ok (q, ops)) : SearchTrace p ops q :=
  runSwapsOneRow_traced p row nb (q, ops) h

theorem runInsertsOneRow_trace {p q : Placer} {row nb : Int} {ops : List Op}
    (h : p.runInsertsOneRow row nb = .ok (q, ops)) : SearchTrace p ops q :=
  runInsertsOneRow_traced p row nb (q, ops) h

theorem runSwapsTwoRows_trace {p q : Placer} {r1 r2 nb : Int} {ops : List Op}
    (h : p.runSwapsTwoRows r1 r2 nb = .ok (q, ops)) : SearchTrace p ops q :=
  runSwapsTwoRows_traced p r1 r2 nb (q, ops) h

theorem runSwapsTwoRowsAmplify_trace {p q : Placer} {r1 r2 nb : Int} {ops : List Op}
    (h : p.runSwapsTwoRowsAmplify r1 r2 nb = .ok (q, ops)) : SearchTrace p ops q :=
  runSwapsTwoRowsAmplify_traced p r1 r2 nb (q, ops) h

theorem runInsertsTwoRows_trace {p q : Placer} {r1 r2 nb : Int} {ops : List Op}
    (h : p.runInsertsTwoRows r1 r2 nb = .ok (q, ops)) : SearchTrace p ops q :=
  runInsertsTwoRows_traced p r1 r2 nb (q, ops) h

/-- the ghost list replays: the pass's result is the history of its moves -/
theorem runSwaps_run {p q : Placer} {a b : Int} {ops : List Op}
    (h : p.runSwaps a b = .ok (q, ops)) : p.run ops = .ok q := (runSwaps_trace h).run

theorem runInserts_run {p q : Placer} {a b : Int} {ops : List Op}
    (h : p.runInserts a b = .ok (q, ops)) : p.run ops = .ok q := (runInserts_trace h).run

end ColoVerif.DetPlace
