import ColoVerif.Model.Checked
/-
Helper lemmas for the checked arithmetic of C07 (core Lean only: `omega` for the linear
parts, `Int.mul_le_mul_*` for the products).
-/
namespace ColoVerif.Checked

theorem chk32_ok {s : String} {v : Int} (h : fitsInt32 v) : chk32 s v = .ok v := by
  simp [chk32, h]

theorem chk64_ok {s : String} {v : Int} (h : fitsInt64 v) : chk64 s v = .ok v := by
  simp [chk64, h]

theorem chk32_ok' {s : String} {v : Int} (h1 : -2147483648 ≤ v) (h2 : v ≤ 2147483647) :
    chk32 s v = .ok v := chk32_ok ⟨h1, h2⟩

theorem chk64_ok' {s : String} {v : Int} (h1 : -9223372036854775808 ≤ v) (h2 : v ≤ 9223372036854775807) :
    chk64 s v = .ok v := chk64_ok ⟨h1, h2⟩

theorem assertC_true (asr : Bool) (s : String) {c : Bool} (h : c = true) : assertC asr s c = .ok () := by
  simp [assertC, h]

theorem assertC_off (s : String) (c : Bool) : assertC false s c = .ok () := by
  simp [assertC]

/-- `|a| ≤ A`, `0 ≤ c ≤ C`  ⟹  `|a·c| ≤ A·C` -/
theorem mul_bound {a c A C : Int} (ha : -A ≤ a) (ha' : a ≤ A) (hc0 : 0 ≤ c) (hc : c ≤ C) :
    -(A * C) ≤ a * c ∧ a * c ≤ A * C := by
  have hA : 0 ≤ A := by omega
  constructor
  · have h1 : (-A) * c ≤ a * c := Int.mul_le_mul_of_nonneg_right ha hc0
    have h2 : A * c ≤ A * C := Int.mul_le_mul_of_nonneg_left hc hA
    have h3 : (-A) * c = -(A * c) := Int.neg_mul A c
    omega
  · have h1 : a * c ≤ A * c := Int.mul_le_mul_of_nonneg_right ha' hc0
    have h2 : A * c ≤ A * C := Int.mul_le_mul_of_nonneg_left hc hA
    omega

/-- `0 ≤ a ≤ A`, `0 ≤ c ≤ C`  ⟹  `0 ≤ a·c ≤ A·C` -/
theorem mul_bound_nonneg {a c A C : Int} (ha0 : 0 ≤ a) (ha : a ≤ A) (hc0 : 0 ≤ c) (hc : c ≤ C) :
    0 ≤ a * c ∧ a * c ≤ A * C := by
  refine ⟨Int.mul_nonneg ha0 hc0, ?_⟩
  have h1 : a * c ≤ A * c := Int.mul_le_mul_of_nonneg_right ha hc0
  have h2 : A * c ≤ A * C := Int.mul_le_mul_of_nonneg_left hc (by omega)
  omega

end ColoVerif.Checked
