import ColoVerif.Model.IncrNet
/-
Invariant of `IncrNetModel` under `updateCellPos` (C09, `incr_inv`).
-/
namespace ColoVerif.IncrNet
open ColoVerif Model

/-! ### list plumbing -/

theorem getD_set_eq' {α} (l : List α) (i : Nat) (a d : α) (h : i < l.length) : (l.set i a).getD i d = a := by
  simp [List.getD, h]

theorem getD_set_ne' {α} (l : List α) (i j : Nat) (a d : α) (h : i ≠ j) : (l.set i a).getD j d = l.getD j d := by
  simp [List.getD, List.getElem?_set_ne h]

theorem sum_range_succ (f : Nat → Int) (N : Nat) :
    ((List.range (N + 1)).map f).sum = ((List.range N).map f).sum + f N := by
  simp [List.range_succ]

/-- changing one summand -/
theorem sum_range_update (f g : Nat → Int) (n : Nat) : ∀ N, n < N → (∀ k, k ≠ n → f k = g k) →
    ((List.range N).map f).sum = ((List.range N).map g).sum + (f n - g n)
  | 0, h, _ => by omega
  | N + 1, h, hfg => by
    rw [sum_range_succ, sum_range_succ]
    by_cases hn : n = N
    · subst hn
      have : (List.range n).map f = (List.range n).map g := by
        apply List.map_congr_left
        intro k hk
        exact hfg k (by have := List.mem_range.mp hk; omega)
      rw [this]; omega
    · have := sum_range_update f g n N (by omega) hfg
      rw [this, hfg N (by omega)]; omega

/-! ### the invariant -/

/-- Every net that is not `stale` has its stored bounds equal to the from-scratch bounds, and the
stored value is the sum of the stored extents. -/
def Partial (m : Model) (stale : Nat → Prop) : Prop :=
  m.netMinMaxPos.length = m.nbNets ∧
  (∀ n, n < m.nbNets → ¬ stale n → m.netMinMaxPos.getD n (0, 0) = m.computeNetMinMaxPos n) ∧
  m.value = m.computeValue

/-- the maintained bounds and value equal their from-scratch recomputation -/
def Inv (m : Model) : Prop := Partial m (fun _ => False)

/-- the cell→net CSR is the exact transpose of the net→cell CSR -/
def WF (m : Model) : Prop :=
  ∀ cell, m.cellNetList cell = (m.allPins.filter (fun p => p.2.1 == cell)).map (·.1)

theorem Partial.mono {m : Model} {s s' : Nat → Prop} (h : Partial m s) (hs : ∀ k, k < m.nbNets → s k → s' k) :
    Partial m s' :=
  ⟨h.1, fun n hn hns => h.2.1 n hn (fun hsn => hns (hs n hn hsn)), h.2.2⟩

theorem recompute_partial (m : Model) (stale : Nat → Prop) (n : Nat) (hn : n < m.nbNets) (h : Partial m stale) :
    Partial (m.recomputeNet n) (fun k => stale k ∧ k ≠ n) := by
  obtain ⟨hlen, hpt, hval⟩ := h
  have hn' : n < m.netMinMaxPos.length := by omega
  refine ⟨?_, ?_, ?_⟩
  · show (m.netMinMaxPos.set n _).length = m.nbNets
    simp [hlen]
  · intro k hk hns
    show (m.netMinMaxPos.set n (m.computeNetMinMaxPos n)).getD k (0, 0) = m.computeNetMinMaxPos k
    by_cases hkn : k = n
    · subst hkn; exact getD_set_eq' _ _ _ _ hn'
    · rw [getD_set_ne' _ _ _ _ _ (Ne.symm hkn)]
      exact hpt k hk (fun hs => hns ⟨hs, hkn⟩)
  · show m.value + _ = ((List.range m.nbNets).map fun net =>
        ((m.netMinMaxPos.set n (m.computeNetMinMaxPos n)).getD net (0, 0)).2
          - ((m.netMinMaxPos.set n (m.computeNetMinMaxPos n)).getD net (0, 0)).1).sum
    rw [sum_range_update _ (fun net => (m.netMinMaxPos.getD net (0, 0)).2 - (m.netMinMaxPos.getD net (0, 0)).1) n
      m.nbNets hn (fun k hk => by rw [getD_set_ne' _ _ _ _ _ (Ne.symm hk)])]
    rw [getD_set_eq' _ _ _ _ hn', hval]
    rfl

theorem foldl_recompute_nbNets : ∀ (ns : List Nat) (m : Model), (ns.foldl recomputeNet m).nbNets = m.nbNets
  | [], _ => rfl
  | n :: ns, m => by rw [List.foldl_cons, foldl_recompute_nbNets ns]; rfl

theorem foldl_recompute_partial : ∀ (ns : List Nat) (m : Model) (stale : Nat → Prop),
    (∀ n ∈ ns, n < m.nbNets) → Partial m stale →
    Partial (ns.foldl recomputeNet m) (fun k => stale k ∧ k ∉ ns)
  | [], m, stale, _, h => by
    refine Partial.mono (s' := fun k => stale k ∧ k ∉ ([] : List Nat)) h ?_
    intro k _ hs
    exact ⟨hs, List.not_mem_nil⟩
  | n :: ns, m, stale, hns, h => by
    rw [List.foldl_cons]
    have h1 := recompute_partial m stale n (hns n (by simp)) h
    have h2 := foldl_recompute_partial ns (m.recomputeNet n) _ (fun k hk => hns k (by simp [hk])) h1
    refine Partial.mono (s' := fun k => stale k ∧ k ∉ n :: ns) h2 ?_
    intro k _ hk
    obtain ⟨⟨hs, hkn⟩, hk⟩ := hk
    refine ⟨hs, ?_⟩
    intro hmem
    rcases List.mem_cons.mp hmem with h | h
    · exact hkn h
    · exact hk h

/-- `recomputeNet` only writes `netMinMaxPos_` and `value_` -/
theorem foldl_recompute_frame : ∀ (ns : List Nat) (m : Model),
    ∃ X Y, ns.foldl recomputeNet m = { m with netMinMaxPos := X, value := Y }
  | [], m => ⟨m.netMinMaxPos, m.value, rfl⟩
  | n :: ns, m => by
    obtain ⟨X, Y, h⟩ := foldl_recompute_frame ns (m.recomputeNet n)
    exact ⟨X, Y, by rw [List.foldl_cons, h]; rfl⟩

theorem update_frame (m : Model) (cell : Nat) (pos : Int) :
    ∃ X Y, m.updateCellPos cell pos = { m with cellPos := m.cellPos.set cell pos, netMinMaxPos := X, value := Y } := by
  obtain ⟨X, Y, h⟩ := foldl_recompute_frame (m.cellNetList cell) (m.setPos cell pos)
  exact ⟨X, Y, by unfold updateCellPos; rw [h]; rfl⟩

theorem mem_allPins (m : Model) (net : Nat) (p : Pin1) (hn : net < m.nbNets) (hp : p ∈ m.netPins net) :
    (net, p.1, p.2) ∈ m.allPins := by
  unfold allPins
  rw [List.mem_flatMap]
  exact ⟨net, List.mem_range.mpr hn, List.mem_map.mpr ⟨p, hp, rfl⟩⟩

theorem allPins_net_lt (m : Model) (q : Nat × Nat × Int) (hq : q ∈ m.allPins) : q.1 < m.nbNets := by
  unfold allPins at hq
  rw [List.mem_flatMap] at hq
  obtain ⟨net, hnet, hq⟩ := hq
  obtain ⟨p, _, rfl⟩ := List.mem_map.mp hq
  exact List.mem_range.mp hnet

/-- moving a cell leaves the bounds of the nets that do not contain it unchanged -/
theorem compute_setPos_of_not_mem (m : Model) (cell : Nat) (pos : Int) (n : Nat)
    (h : ∀ p ∈ m.netPins n, p.1 ≠ cell) :
    (m.setPos cell pos).computeNetMinMaxPos n = m.computeNetMinMaxPos n := by
  have : (m.setPos cell pos).netPinPositions n = m.netPinPositions n := by
    show (m.netPins n).map (fun p => (m.cellPos.set cell pos).getD p.1 0 + p.2) = (m.netPins n).map _
    apply List.map_congr_left
    intro p hp
    rw [getD_set_ne' _ _ _ _ _ (Ne.symm (h p hp))]
  unfold computeNetMinMaxPos
  rw [this]

/-- one `updateCellPos` preserves the invariant -/
theorem update_inv (m : Model) (cell : Nat) (pos : Int) (hwf : WF m) (h : Inv m) :
    Inv (m.updateCellPos cell pos) ∧ WF (m.updateCellPos cell pos) := by
  constructor
  · -- after `cellPos_[cell] = pos` only the nets containing `cell` are stale
    have h0 : Partial (m.setPos cell pos) (fun k => ∃ p ∈ m.netPins k, p.1 = cell) := by
      refine ⟨h.1, ?_, h.2.2⟩
      intro n hn hns
      have hnot : ∀ p ∈ m.netPins n, p.1 ≠ cell := fun p hp hpc => hns ⟨p, hp, hpc⟩
      rw [compute_setPos_of_not_mem m cell pos n hnot]
      exact h.2.1 n hn (fun f => f)
    have hlt : ∀ n ∈ (m.setPos cell pos).cellNetList cell, n < (m.setPos cell pos).nbNets := by
      intro n hn
      have hn' : n ∈ m.cellNetList cell := hn
      rw [hwf cell, List.mem_map] at hn'
      obtain ⟨q, hq, rfl⟩ := hn'
      exact allPins_net_lt m q (List.mem_filter.mp hq).1
    have h1 := foldl_recompute_partial _ _ _ hlt h0
    refine (show Partial (m.updateCellPos cell pos) _ from h1).mono ?_
    intro k hk ⟨⟨p, hp, hpc⟩, hnot⟩
    apply hnot
    have hk' : k < m.nbNets := by
      have := foldl_recompute_nbNets ((m.setPos cell pos).cellNetList cell) (m.setPos cell pos)
      have h2 : (m.updateCellPos cell pos).nbNets = m.nbNets := this
      omega
    show k ∈ m.cellNetList cell
    rw [hwf cell, List.mem_map]
    exact ⟨(k, p.1, p.2), List.mem_filter.mpr ⟨mem_allPins m k p hk' hp, by simp [hpc]⟩, rfl⟩
  · obtain ⟨X, Y, hxy⟩ := update_frame m cell pos
    rw [hxy]
    exact hwf

/-- a sequence of `updateCellPos` calls -/
def run (m : Model) (ops : List (Nat × Int)) : Model := ops.foldl (fun m o => m.updateCellPos o.1 o.2) m

theorem run_inv : ∀ (ops : List (Nat × Int)) (m : Model), WF m → Inv m → Inv (run m ops) ∧ WF (run m ops)
  | [], _, hwf, h => ⟨h, hwf⟩
  | o :: ops, m, hwf, h => by
    have h1 := update_inv m o.1 o.2 hwf h
    exact run_inv ops (m.updateCellPos o.1 o.2) h1.2 h1.1

/-- `Inv` in the form of `IncrNetModel::check()` -/
theorem inv_iff_consistent (m : Model) :
    Inv m ↔ (m.netMinMaxPos = m.computeAllMinMaxPos ∧ m.value = m.computeValue) := by
  constructor
  · intro ⟨hlen, hpt, hval⟩
    refine ⟨?_, hval⟩
    apply List.ext_getElem
    · simp [computeAllMinMaxPos, hlen]
    · intro i h1 h2
      have hi : i < m.nbNets := by omega
      have := hpt i hi (fun f => f)
      simp [List.getD, h1] at this
      simp [computeAllMinMaxPos, this]
  · intro ⟨hmm, hval⟩
    refine ⟨?_, ?_, hval⟩
    · rw [hmm]; simp [computeAllMinMaxPos]
    · intro n hn _
      rw [hmm]
      simp [computeAllMinMaxPos, List.getD, hn]

end ColoVerif.IncrNet
