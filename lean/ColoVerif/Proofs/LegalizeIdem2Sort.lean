import ColoVerif.Model.Legalize
import Mathlib.Tactic.Linarith
import Mathlib.Algebra.Order.Field.Rat
/-
Helper lemmas for C11/C01, part 1: the two insertion sorts of the legalizer (`sortKeys` of
`computeCellOrder`, `sortRows` of the `LegalizerBase` constructor) return sorted permutations.
-/
namespace ColoVerif.Legalize
open ColoVerif

/-! ### generic stable insertion sort -/

def insGen {α : Type} (lt : α → α → Bool) (x : α) : List α → List α
  | [] => [x]
  | y :: ys => if lt y x then y :: insGen lt x ys else x :: y :: ys

def sortGen {α : Type} (lt : α → α → Bool) (l : List α) : List α := l.foldr (insGen lt) []

/-- sorted for a strict order given as a Bool comparator: no later element is smaller -/
def SortedBy {α : Type} (lt : α → α → Bool) (l : List α) : Prop := l.Pairwise fun a b => ¬ lt b a = true

theorem insGen_perm {α : Type} (lt : α → α → Bool) (x : α) : ∀ l : List α, (insGen lt x l).Perm (x :: l)
  | [] => List.Perm.refl _
  | y :: ys => by
    unfold insGen
    split
    · exact ((insGen_perm lt x ys).cons y).trans (List.Perm.swap x y ys)
    · exact List.Perm.refl _

theorem sortGen_perm {α : Type} (lt : α → α → Bool) : ∀ l : List α, (sortGen lt l).Perm l
  | [] => List.Perm.refl _
  | x :: l => by
    show (insGen lt x (sortGen lt l)).Perm (x :: l)
    exact (insGen_perm lt x _).trans ((sortGen_perm lt l).cons x)

theorem insGen_sorted {α : Type} (lt : α → α → Bool)
    (asym : ∀ a b, lt a b = true → ¬ lt b a = true)
    (trans : ∀ a b c, ¬ lt b a = true → ¬ lt c b = true → ¬ lt c a = true) (x : α) :
    ∀ l : List α, SortedBy lt l → SortedBy lt (insGen lt x l)
  | [], _ => by simp [insGen, SortedBy]
  | y :: ys, h => by
    unfold insGen
    have hy := List.pairwise_cons.mp h
    split
    · rename_i hlt
      refine List.pairwise_cons.mpr ⟨?_, insGen_sorted lt asym trans x ys hy.2⟩
      intro z hz
      rcases List.mem_cons.mp ((insGen_perm lt x ys).mem_iff.mp hz) with rfl | hz
      · exact asym _ _ hlt
      · exact hy.1 z hz
    · rename_i hlt
      refine List.pairwise_cons.mpr ⟨?_, h⟩
      intro z hz
      rcases List.mem_cons.mp hz with rfl | hz
      · exact hlt
      · exact trans x y z hlt (hy.1 z hz)

theorem sortGen_sorted {α : Type} (lt : α → α → Bool)
    (asym : ∀ a b, lt a b = true → ¬ lt b a = true)
    (trans : ∀ a b c, ¬ lt b a = true → ¬ lt c b = true → ¬ lt c a = true) :
    ∀ l : List α, SortedBy lt (sortGen lt l)
  | [] => List.Pairwise.nil
  | x :: l => insGen_sorted lt asym trans x _ (sortGen_sorted lt asym trans l)

/-! ### rows -/

theorem insertRow_eq (x : Row) : ∀ l, insertRow x l = insGen rowLt x l
  | [] => rfl
  | y :: ys => by simp only [insertRow, insGen, insertRow_eq x ys]

theorem sortRows_eq : ∀ l, sortRows l = sortGen rowLt l
  | [] => rfl
  | x :: l => by
    show insertRow x (sortRows l) = insGen rowLt x (sortGen rowLt l)
    rw [sortRows_eq l, insertRow_eq]

theorem rowLt_iff (a b : Row) : rowLt a b = true ↔
    a.rect.minY < b.rect.minY ∨ (a.rect.minY = b.rect.minY ∧ a.rect.minX < b.rect.minX) := by
  simp [rowLt]

theorem sortRows_perm (l : List Row) : (sortRows l).Perm l := by
  rw [sortRows_eq]; exact sortGen_perm rowLt l

theorem sortRows_sorted (l : List Row) : SortedBy rowLt (sortRows l) := by
  rw [sortRows_eq]
  apply sortGen_sorted
  · intro a b; simp only [rowLt_iff]; omega
  · intro a b c; simp only [rowLt_iff]; omega

/-- in a sorted row list the `minY` are non-decreasing along the indices -/
theorem sortedRows_minY (S : List Row) (h : SortedBy rowLt S) (i j : Nat) (hij : i ≤ j) (hj : j < S.length) :
    (rowAt S i).rect.minY ≤ (rowAt S j).rect.minY := by
  rcases Nat.lt_or_ge i j with hlt | hge
  · have := (List.pairwise_iff_getElem.mp h) i j (by omega) hj hlt
    simp only [rowLt_iff] at this
    simp only [rowAt, List.getD_eq_getElem?_getD, List.getElem?_eq_getElem hj,
      List.getElem?_eq_getElem (show i < S.length by omega), Option.getD_some]
    omega
  · have : i = j := by omega
    subst this; exact Int.le_refl _

/-! ### ordering keys -/

theorem insertKey_eq (x : Rat × Nat) : ∀ l, insertKey x l = insGen keyLt x l
  | [] => rfl
  | y :: ys => by simp only [insertKey, insGen, insertKey_eq x ys]

theorem sortKeys_eq : ∀ l, sortKeys l = sortGen keyLt l
  | [] => rfl
  | x :: l => by
    show insertKey x (sortKeys l) = insGen keyLt x (sortGen keyLt l)
    rw [sortKeys_eq l, insertKey_eq]

theorem keyLt_iff (a b : Rat × Nat) : keyLt a b = true ↔ a.1 < b.1 ∨ (a.1 = b.1 ∧ a.2 < b.2) := by
  simp [keyLt]

theorem keyLt_asymm (a b : Rat × Nat) : keyLt a b = true → ¬ keyLt b a = true := by
  simp only [keyLt_iff]
  rintro (h | ⟨h1, h2⟩) (h' | ⟨h1', h2'⟩)
  · exact lt_asymm h h'
  · rw [h1'] at h; exact lt_irrefl _ h
  · rw [h1] at h'; exact lt_irrefl _ h'
  · omega

theorem keyLe_trans (a b c : Rat × Nat) : ¬ keyLt b a = true → ¬ keyLt c b = true → ¬ keyLt c a = true := by
  simp only [keyLt_iff, not_or, not_and, not_lt]
  rintro ⟨h1, h2⟩ ⟨h3, h4⟩
  refine ⟨le_trans h1 h3, fun hca => ?_⟩
  have e1 : b.1 = a.1 := le_antisymm (by rw [← hca]; exact h3) h1
  have e2 : c.1 = b.1 := by rw [hca, e1]
  have := h2 e1
  have := h4 e2
  omega

theorem sortKeys_perm (l : List (Rat × Nat)) : (sortKeys l).Perm l := by
  rw [sortKeys_eq]; exact sortGen_perm keyLt l

theorem sortKeys_sorted (l : List (Rat × Nat)) : SortedBy keyLt (sortKeys l) := by
  rw [sortKeys_eq]; exact sortGen_sorted keyLt keyLt_asymm keyLe_trans l

/-! ### `computeCellOrder` -/

theorem keyed_snd (rnd : Rat → Rat) (ww wy wh : Rat) : ∀ (cells : List LCell) (i : Nat),
    (keyed rnd ww wy wh i cells).map (·.2) = List.range' i cells.length
  | [], _ => rfl
  | c :: cs, i => by simp [keyed, keyed_snd rnd ww wy wh cs (i + 1), List.range'_succ]

theorem keyed_mem (rnd : Rat → Rat) (ww wy wh : Rat) : ∀ (cells : List LCell) (i : Nat) (x : Rat × Nat),
    x ∈ keyed rnd ww wy wh i cells → i ≤ x.2 ∧ x.1 = orderKey rnd ww wy wh (cellAt cells (x.2 - i))
  | [], _, x, h => by simp [keyed] at h
  | c :: cs, i, x, h => by
    simp only [keyed, List.mem_cons] at h
    rcases h with rfl | h
    · simp [cellAt]
    · obtain ⟨h1, h2⟩ := keyed_mem rnd ww wy wh cs (i + 1) x h
      refine ⟨by omega, ?_⟩
      rw [h2]
      have : x.2 - i = (x.2 - (i + 1)) + 1 := by omega
      rw [this]
      simp [cellAt]

/-- `computeCellOrder` returns a permutation of the cell indices -/
theorem computeCellOrder_perm (rnd : Rat → Rat) (ww wy wh : Rat) (cells : List LCell) :
    (computeCellOrder rnd ww wy wh cells).Perm (List.range cells.length) := by
  unfold computeCellOrder
  have := (sortKeys_perm (keyed rnd ww wy wh 0 cells)).map (·.2)
  rw [keyed_snd, ← List.range_eq_range'] at this
  exact this

/-- `computeCellOrder` lists the indices in non-decreasing `(key, index)` order -/
theorem computeCellOrder_sorted (rnd : Rat → Rat) (ww wy wh : Rat) (cells : List LCell) :
    (computeCellOrder rnd ww wy wh cells).Pairwise fun i j =>
      ¬ keyLt (orderKey rnd ww wy wh (cellAt cells j), j) (orderKey rnd ww wy wh (cellAt cells i), i) = true := by
  unfold computeCellOrder
  rw [List.pairwise_map]
  have hs := sortKeys_sorted (keyed rnd ww wy wh 0 cells)
  refine List.Pairwise.imp_of_mem ?_ hs
  intro a b ha hb hab
  have ha' := keyed_mem rnd ww wy wh cells 0 a ((sortKeys_perm _).mem_iff.mp ha)
  have hb' := keyed_mem rnd ww wy wh cells 0 b ((sortKeys_perm _).mem_iff.mp hb)
  simp only [Nat.sub_zero] at ha' hb'
  rw [← ha'.2, ← hb'.2]
  exact hab

end ColoVerif.Legalize
