import ColoVerif.Proofs.LegalizeLegalRows
import ColoVerif.Proofs.LegalizeFrame
/-
Helper lemmas for C01 (`legalize_legal`), part 2: the Tetris pass.

Invariant of `TetrisLegalizer` (`Good S r f`, pointwise over `rows`/`rowFreePos_`): the free
position `f` of segment `r` is at or right of `r.minX` and at or right of the right edge of every
strip placed so far (`S`) that meets the segment.  `getPossibleIntervals` only offers positions
`x` such that on every level the strip `[x, x+w)` lies in `[rowFreePos_r, maxX_r]` of one segment
`r` of that level; `instanciateCell` re-establishes the invariant.
-/
namespace ColoVerif.Legalize
open ColoVerif

/-! ### pointwise relation: structural lemmas -/

theorem Pointwise.length_eq {α β : Type} {R : α → β → Prop} {as : List α} {bs : List β}
    (h : Pointwise R as bs) : as.length = bs.length := by
  induction h with
  | nil => rfl
  | cons _ _ ih => simp [ih]

theorem Pointwise.imp_mem {α β : Type} {R T : α → β → Prop} {as : List α} {bs : List β}
    (h : Pointwise R as bs) (himp : ∀ a ∈ as, ∀ b, R a b → T a b) : Pointwise T as bs := by
  induction h with
  | nil => exact Pointwise.nil
  | cons hab _ ih =>
    exact Pointwise.cons (himp _ (by simp) _ hab) (ih (fun a ha b hr => himp a (by simp [ha]) b hr))

theorem Pointwise.drop {α β : Type} {R : α → β → Prop} {as : List α} {bs : List β}
    (h : Pointwise R as bs) : ∀ n, Pointwise R (as.drop n) (bs.drop n) := by
  induction h with
  | nil => intro n; simp; exact Pointwise.nil
  | cons hab ht ih =>
    intro n
    cases n with
    | zero => exact Pointwise.cons hab ht
    | succ n => simpa using ih n

theorem Pointwise.take {α β : Type} {R : α → β → Prop} {as : List α} {bs : List β}
    (h : Pointwise R as bs) : ∀ n, Pointwise R (as.take n) (bs.take n) := by
  induction h with
  | nil => intro n; simp; exact Pointwise.nil
  | cons hab ht ih =>
    intro n
    cases n with
    | zero => simp; exact Pointwise.nil
    | succ n => simpa using Pointwise.cons hab (ih n)

theorem Pointwise.append {α β : Type} {R : α → β → Prop} {as as' : List α} {bs bs' : List β}
    (h : Pointwise R as bs) (h' : Pointwise R as' bs') : Pointwise R (as ++ as') (bs ++ bs') := by
  induction h with
  | nil => exact h'
  | cons hab _ ih => exact Pointwise.cons hab ih

theorem pointwise_map {α β : Type} {R : α → β → Prop} (f : α → β) :
    ∀ as : List α, (∀ a ∈ as, R a (f a)) → Pointwise R as (as.map f)
  | [], _ => Pointwise.nil
  | a :: as, h => Pointwise.cons (h a (by simp)) (pointwise_map f as (fun b hb => h b (by simp [hb])))

/-! ### heights and levels without multiplication -/

/-- `k` row heights -/
def hk (H : Int) : Nat → Int
  | 0 => 0
  | k + 1 => H + hk H k

/-- bottom edges of the `k` row-high strips of a cell placed at `y` -/
def levels (H : Int) : Nat → Int → List Int
  | 0, _ => []
  | k + 1, y => y :: levels H k (y + H)

theorem hk_nonneg (H : Int) (hH : 0 < H) : ∀ k, 0 ≤ hk H k
  | 0 => by simp [hk]
  | k + 1 => by have := hk_nonneg H hH k; simp only [hk]; omega

theorem hk_ge (H : Int) (hH : 0 < H) : ∀ k : Nat, (k : Int) ≤ hk H k
  | 0 => by simp [hk]
  | k + 1 => by have := hk_ge H hH k; simp only [hk]; omega

theorem hk_pos (H : Int) (hH : 0 < H) (k : Nat) (hk1 : 1 ≤ k) : 0 < hk H k := by
  have := hk_ge H hH k; omega

theorem hk_inj (H : Int) (hH : 0 < H) : ∀ (a b : Nat), hk H a = hk H b → a = b
  | 0, 0, _ => rfl
  | 0, b + 1, hb => by have := hk_pos H hH (b + 1) (by omega); simp only [hk] at hb this; omega
  | a + 1, 0, hb => by have := hk_pos H hH (a + 1) (by omega); simp only [hk] at hb this; omega
  | a + 1, b + 1, hb => by
    have e1 : hk H (a + 1) = H + hk H a := rfl
    have e2 : hk H (b + 1) = H + hk H b := rfl
    rw [e1, e2] at hb
    have := hk_inj H hH a b (by omega)
    omega

/-- a rectangle `k ≥ 1` rows high that meets `q` has a row-high strip that meets `q` -/
theorem rect_strip (H : Int) (hH : 0 < H) (x X : Int) (q : Rect) (hq : q.minY < q.maxY) :
    ∀ (k : Nat) (y : Int), (⟨x, X, y, y + hk H (k + 1)⟩ : Rect).intersects q = true →
      ∃ yj ∈ levels H (k + 1) y, (⟨x, X, yj, yj + H⟩ : Rect).intersects q = true
  | 0, y, h => by
    refine ⟨y, by simp [levels], ?_⟩
    simpa [hk] using h
  | k + 1, y, h => by
    rw [intersects_true_iff] at h
    simp only at h
    by_cases hc : q.minY < y + H
    · refine ⟨y, by simp [levels], ?_⟩
      rw [intersects_true_iff]
      simp only
      omega
    · have hrec : (⟨x, X, y + H, (y + H) + hk H (k + 1)⟩ : Rect).intersects q = true := by
        rw [intersects_true_iff]
        simp only
        have e : hk H (k + 1 + 1) = H + hk H (k + 1) := rfl
        rw [e] at h
        omega
      obtain ⟨yj, hyj, hint⟩ := rect_strip H hH x X q hq k (y + H) hrec
      refine ⟨yj, ?_, hint⟩
      have e : levels H (k + 1 + 1) y = y :: levels H (k + 1) (y + H) := rfl
      rw [e]
      simp [hyj]

/-! ### the invariant -/

/-- free position `f` of segment `r` is inside-right of its start and right of every strip of `S`
meeting the segment -/
def Good (S : Rect → Prop) (r : Row) (f : Int) : Prop :=
  r.rect.minX ≤ f ∧ ∀ q, S q → q.intersects r.rect = true → q.maxX ≤ f

theorem Good.mono {S T : Rect → Prop} {r : Row} {f : Int} (h : Good S r f) (hst : ∀ q, T q → S q) : Good T r f :=
  ⟨h.1, fun q hq hi => h.2 q (hst q hq) hi⟩

/-- `r` is visited by the per-level loops started on this list: everything before it (and `r`)
has `minY = y` -/
inductive ReachedIn (y : Int) (r : Row) : List Row → Prop
  | here {rs} : r.rect.minY = y → ReachedIn y r (r :: rs)
  | there {r' rs} : r'.rect.minY = y → ReachedIn y r rs → ReachedIn y r (r' :: rs)

theorem ReachedIn.mem {y : Int} {r : Row} {rs : List Row} (h : ReachedIn y r rs) : r ∈ rs := by
  induction h with
  | here _ => simp
  | there _ _ ih => simp [ih]

theorem ReachedIn.minY {y : Int} {r : Row} {rs : List Row} (h : ReachedIn y r rs) : r.rect.minY = y := by
  induction h with
  | here h => exact h
  | there _ _ ih => exact ih

/-- every interval offered by one level comes from a visited segment and its free position -/
theorem levelIvs_mem {P : Row → Int → Prop} (w y : Int) {rs : List Row} {fs : List Int} (h : Pointwise P rs fs) :
    ∀ iv ∈ levelIvs w y rs fs, ∃ r f, ReachedIn y r rs ∧ P r f ∧ iv = (f, r.rect.maxX - w) ∧ f ≤ r.rect.maxX - w := by
  induction h with
  | nil => intro iv hiv; simp [levelIvs] at hiv
  | @cons r f rs fs hrf _ ih =>
    intro iv hiv
    simp only [levelIvs] at hiv
    by_cases hy : r.rect.minY = y
    · have hy' : ¬ (r.rect.minY ≠ y) := by simp [hy]
      rw [if_neg hy'] at hiv
      by_cases hc : r.rect.maxX - w ≥ f
      · rw [if_pos hc] at hiv
        rcases List.mem_cons.mp hiv with rfl | hiv
        · exact ⟨r, f, ReachedIn.here hy, hrf, rfl, hc⟩
        · obtain ⟨r0, f0, h1, h2, h3, h4⟩ := ih iv hiv
          exact ⟨r0, f0, ReachedIn.there hy h1, h2, h3, h4⟩
      · rw [if_neg hc] at hiv
        obtain ⟨r0, f0, h1, h2, h3, h4⟩ := ih iv hiv
        exact ⟨r0, f0, ReachedIn.there hy h1, h2, h3, h4⟩
    · have hy' : r.rect.minY ≠ y := hy
      rw [if_pos hy'] at hiv
      simp at hiv

/-- the strip of a cell at `x` of width `w` on the level `y` -/
def strip (H x w y : Int) : Rect := ⟨x, x + w, y, y + H⟩

theorem good_extend_miss {S : Rect → Prop} (s : Rect) {rs : List Row} {fs : List Int}
    (h : Pointwise (Good S) rs fs) (hm : ∀ r ∈ rs, s.intersects r.rect = false) :
    Pointwise (Good fun q => S q ∨ q = s) rs fs := by
  refine h.imp_mem ?_
  intro r hr f hg
  refine ⟨hg.1, ?_⟩
  intro q hq hi
  rcases hq with hq | rfl
  · exact hg.2 q hq hi
  · rw [hm r hr] at hi; simp at hi

/-- the entry `markLevel` computes for a segment that the strip misses is the old one -/
theorem mark_entry_miss (H x w y : Int) (hH : 0 < H) (r : Row) (f : Int) (hh : r.rect.maxY = r.rect.minY + H)
    (hy : r.rect.minY = y) (hm : (strip H x w y).intersects r.rect = false) :
    (if x < r.rect.maxX && x + w > r.rect.minX then x + w else f) = f := by
  rw [intersects_false_iff] at hm
  simp only [strip] at hm
  by_cases hc : (x < r.rect.maxX && x + w > r.rect.minX) = true
  · simp only [Bool.and_eq_true, decide_eq_true_eq] at hc
    omega
  · rw [if_neg hc]

theorem markLevel_miss {S : Rect → Prop} (H x w y : Int) (hH : 0 < H) {rs : List Row} {fs : List Int}
    (h : Pointwise (Good S) rs fs) (hh : ∀ r ∈ rs, r.rect.maxY = r.rect.minY + H)
    (hm : ∀ r ∈ rs, (strip H x w y).intersects r.rect = false) :
    Pointwise (Good fun q => S q ∨ q = strip H x w y) rs (markLevel x w y rs fs) := by
  induction h with
  | nil => simp [markLevel]; exact Pointwise.nil
  | @cons r f rs fs hrf ht ih =>
    simp only [markLevel]
    by_cases hy : r.rect.minY = y
    · have hy' : ¬ (r.rect.minY ≠ y) := by simp [hy]
      rw [if_neg hy', mark_entry_miss H x w y hH r f (hh r (by simp)) hy (hm r (by simp))]
      refine Pointwise.cons ?_ (ih (fun r hr => hh r (by simp [hr])) (fun r hr => hm r (by simp [hr])))
      refine ⟨hrf.1, ?_⟩
      intro q hq hi
      rcases hq with hq | rfl
      · exact hrf.2 q hq hi
      · rw [hm r (by simp)] at hi; simp at hi
    · have hy' : r.rect.minY ≠ y := hy
      rw [if_pos hy']
      exact good_extend_miss _ (Pointwise.cons hrf ht) hm

/-- a rectangle inside `b` misses whatever `b` misses -/
theorem miss_of_inside (a b c : Rect) (h1 : b.minX ≤ a.minX) (h2 : a.maxX ≤ b.maxX) (h3 : b.minY ≤ a.minY)
    (h4 : a.maxY ≤ b.maxY) (h : b.intersects c = false) : a.intersects c = false := by
  rw [intersects_false_iff] at *
  omega

theorem markLevel_hit {S : Rect → Prop} (H x w y : Int) (hH : 0 < H) (hw : 0 < w) (r0 : Row)
    (h1 : r0.rect.minX ≤ x) (h2 : x + w ≤ r0.rect.maxX)
    (hS : ∀ q, S q → q.intersects r0.rect = true → q.maxX ≤ x + w) {rs : List Row} (hr : ReachedIn y r0 rs) :
    ∀ {fs : List Int}, Pointwise (Good S) rs fs → (∀ r ∈ rs, r.rect.maxY = r.rect.minY + H) →
      rs.Pairwise (fun a b => a.rect.intersects b.rect = false) →
      Pointwise (Good fun q => S q ∨ q = strip H x w y) rs (markLevel x w y rs fs) := by
  induction hr with
  | @here rs hy =>
    intro fs h hh hp
    cases h with
    | @cons _ f _ fs hrf ht =>
      simp only [markLevel]
      have hy' : ¬ (r0.rect.minY ≠ y) := by simp [hy]
      have hc : (x < r0.rect.maxX && x + w > r0.rect.minX) = true := by
        simp only [Bool.and_eq_true, decide_eq_true_eq]; omega
      rw [if_neg hy', if_pos hc]
      rw [List.pairwise_cons] at hp
      have hh0 := hh r0 (by simp)
      refine Pointwise.cons ?_ (markLevel_miss H x w y hH ht (fun r hr => hh r (by simp [hr])) ?_)
      · refine ⟨by omega, ?_⟩
        intro q hq hi
        rcases hq with hq | rfl
        · exact hS q hq hi
        · simp [strip]
      · intro r hr
        have := hp.1 r hr
        exact miss_of_inside (strip H x w y) r0.rect r.rect (by simp [strip]; omega) (by simp [strip]; omega)
          (by simp [strip]; omega) (by simp [strip]; omega) this
  | @there r' rs hy hr ih =>
    intro fs h hh hp
    cases h with
    | @cons _ f _ fs hrf ht =>
      simp only [markLevel]
      have hy' : ¬ (r'.rect.minY ≠ y) := by simp [hy]
      rw [List.pairwise_cons] at hp
      have hh0 := hh r0 (by simp [hr.mem])
      have hy0 := hr.minY
      have hmiss : (strip H x w y).intersects r'.rect = false := by
        have := hp.1 r0 hr.mem
        rw [intersects_comm] at this
        exact miss_of_inside (strip H x w y) r0.rect r'.rect (by simp [strip]; omega) (by simp [strip]; omega)
          (by simp [strip]; omega) (by simp [strip]; omega) this
      rw [if_neg hy', mark_entry_miss H x w y hH r' f (hh r' (by simp)) hy hmiss]
      refine Pointwise.cons ?_ (ih ht (fun r hr => hh r (by simp [hr])) hp.2)
      refine ⟨hrf.1, ?_⟩
      intro q hq hi
      rcases hq with hq | rfl
      · exact hrf.2 q hq hi
      · rw [hmiss] at hi; simp at hi

/-- one level of `instanciateCell` on the whole state -/
theorem markLevel_level {S : Rect → Prop} (H x w y : Int) (hH : 0 < H) (hw : 0 < w) (rows : List Row)
    (free : List Int) (hok : RowsOK H rows) (h : Pointwise (Good S) rows free) (s : Nat) (r0 : Row)
    (hr : ReachedIn y r0 (rows.drop s)) (h1 : r0.rect.minX ≤ x) (h2 : x + w ≤ r0.rect.maxX)
    (hS : ∀ q, S q → q.intersects r0.rect = true → q.maxX ≤ x + w) :
    Pointwise (Good fun q => S q ∨ q = strip H x w y) rows
      (free.take s ++ markLevel x w y (rows.drop s) (free.drop s)) := by
  have hsplit : rows.take s ++ rows.drop s = rows := List.take_append_drop s rows
  have hp := hok.disj
  rw [← hsplit, List.pairwise_append] at hp
  have hh0 := hok.height r0 (List.mem_of_mem_drop hr.mem)
  have hy0 := hr.minY
  have hpre : Pointwise (Good fun q => S q ∨ q = strip H x w y) (rows.take s) (free.take s) := by
    refine good_extend_miss _ (h.take s) ?_
    intro r hrm
    have := hp.2.2 r hrm r0 hr.mem
    rw [intersects_comm] at this
    exact miss_of_inside (strip H x w y) r0.rect r.rect (by simp [strip]; omega) (by simp [strip]; omega)
      (by simp [strip]; omega) (by simp [strip]; omega) this
  have hsuf := markLevel_hit H x w y hH hw r0 h1 h2 hS hr (h.drop s)
    (fun r hrm => hok.height r (List.mem_of_mem_drop hrm)) hp.2.1
  have := hpre.append hsuf
  rwa [hsplit] at this

/-! ### `getPossibleIntervals` -/

/-- on level `y` the strip `[x, x+w)` fits a visited segment right of everything placed so far -/
def LevelOK (S : Rect → Prop) (rows : List Row) (w x y : Int) : Prop :=
  ∃ r, ReachedIn y r (rows.drop (startRow rows y)) ∧ r.rect.minX ≤ x ∧ x + w ≤ r.rect.maxX ∧
    ∀ q, S q → q.intersects r.rect = true → q.maxX ≤ x

theorem levelIvs_ok {S : Rect → Prop} (rows : List Row) (free : List Int) (h : Pointwise (Good S) rows free)
    (w y : Int) (iv : Int × Int)
    (hiv : iv ∈ levelIvs w y (rows.drop (startRow rows y)) (free.drop (startRow rows y))) :
    iv.1 ≤ iv.2 ∧ ∀ x, iv.1 ≤ x → x ≤ iv.2 → LevelOK S rows w x y := by
  obtain ⟨r, f, hr, hg, rfl, hle⟩ := levelIvs_mem w y (h.drop (startRow rows y)) iv hiv
  refine ⟨hle, ?_⟩
  intro x hx1 hx2
  simp only at hx1 hx2
  refine ⟨r, hr, by have := hg.1; omega, by omega, ?_⟩
  intro q hq hi
  have := hg.2 q hq hi
  omega

theorem mem_crossIvs (a b : List (Int × Int)) (iv : Int × Int) (h : iv ∈ crossIvs a b) :
    ∃ i1 ∈ a, ∃ i2 ∈ b, meetIv i1 i2 = some iv := by
  simp only [crossIvs, List.mem_flatMap, List.mem_filterMap] at h
  obtain ⟨i1, h1, i2, h2, h3⟩ := h
  exact ⟨i1, h1, i2, h2, h3⟩

theorem meetIv_some (i1 i2 iv : Int × Int) (h : meetIv i1 i2 = some iv) (h1 : i1.1 ≤ i1.2) (h2 : i2.1 ≤ i2.2) :
    iv.1 ≤ iv.2 ∧ ∀ x, iv.1 ≤ x → x ≤ iv.2 → (i1.1 ≤ x ∧ x ≤ i1.2) ∧ (i2.1 ≤ x ∧ x ≤ i2.2) := by
  unfold meetIv at h
  split at h
  · rename_i hc
    simp only [Bool.and_eq_true, decide_eq_true_eq] at hc
    injection h with h
    subst h
    simp only
    refine ⟨by omega, ?_⟩
    intro x hx1 hx2
    omega
  · simp at h

theorem possibleIvs_ok {S : Rect → Prop} (rows : List Row) (H : Int) (hH : 0 < H) (free : List Int)
    (h : Pointwise (Good S) rows free) (w : Int) :
    ∀ (fuel k : Nat) (hgt y : Int), 1 ≤ k → k ≤ fuel → hgt = hk H k →
      ∀ iv ∈ possibleIvs rows H free w fuel hgt y,
        iv.1 ≤ iv.2 ∧ ∀ x, iv.1 ≤ x → x ≤ iv.2 → ∀ yj ∈ levels H k y, LevelOK S rows w x yj
  | 0, k, _, _, h1, h2, _ => by omega
  | fuel + 1, k, hgt, y, h1, h2, he => by
    intro iv hiv
    obtain ⟨k', rfl⟩ : ∃ k', k = k' + 1 := ⟨k - 1, by omega⟩
    have e : hk H (k' + 1) = H + hk H k' := rfl
    rw [e] at he
    simp only [possibleIvs] at hiv
    by_cases hk0 : k' = 0
    · subst hk0
      have hle : hgt ≤ H := by simp [hk] at he; omega
      simp only [hle, decide_true, Bool.true_or, if_true] at hiv
      obtain ⟨hle', hx⟩ := levelIvs_ok rows free h w y iv hiv
      refine ⟨hle', ?_⟩
      intro x hx1 hx2 yj hyj
      simp only [levels, List.mem_singleton] at hyj
      subst hyj
      exact hx x hx1 hx2
    · have hpos := hk_pos H hH k' (by omega)
      have hnle : ¬ (hgt ≤ H) := by omega
      simp only [hnle, decide_false, Bool.false_or] at hiv
      split at hiv
      · rename_i hemp
        rw [List.isEmpty_iff] at hemp
        rw [hemp] at hiv
        simp at hiv
      · obtain ⟨i1, hi1, i2, hi2, hm⟩ := mem_crossIvs _ _ iv hiv
        obtain ⟨hl1, hx1⟩ := levelIvs_ok rows free h w y i1 hi1
        obtain ⟨hl2, hx2⟩ := possibleIvs_ok rows H hH free h w fuel k' (hgt - H) (y + H) (by omega) (by omega)
          (by omega) i2 hi2
        obtain ⟨hl, hx⟩ := meetIv_some i1 i2 iv hm hl1 hl2
        refine ⟨hl, ?_⟩
        intro x hxa hxb yj hyj
        obtain ⟨⟨a1, a2⟩, ⟨b1, b2⟩⟩ := hx x hxa hxb
        have el : levels H (k' + 1) y = y :: levels H k' (y + H) := rfl
        rw [el] at hyj
        rcases List.mem_cons.mp hyj with rfl | hyj
        · exact hx1 x a1 a2
        · exact hx2 x b1 b2 yj hyj

theorem levelIvs_nil_rows (w y : Int) (fs : List Int) : levelIvs w y [] fs = [] := by
  simp [levelIvs]

theorem possibleIvs_nil (rowH : Int) (free : List Int) (w : Int) :
    ∀ (fuel : Nat) (hgt y : Int), possibleIvs [] rowH free w fuel hgt y = []
  | 0, _, _ => rfl
  | fuel + 1, hgt, y => by
    simp [possibleIvs, levelIvs_nil_rows]

/-! ### `instanciateCell` -/

theorem instanciate_good (rows : List Row) (H : Int) (hH : 0 < H) (hok : RowsOK H rows) (x w : Int) (hw : 0 < w) :
    ∀ (fuel k : Nat) (y hgt : Int) (free : List Int) (S : Rect → Prop), 1 ≤ k → k ≤ fuel → hgt = hk H k →
      Pointwise (Good S) rows free →
      (∀ yj ∈ levels H k y, ∃ r, ReachedIn yj r (rows.drop (startRow rows yj)) ∧ r.rect.minX ≤ x ∧
          x + w ≤ r.rect.maxX ∧ ∀ q, S q → q.intersects r.rect = true → q.maxX ≤ x + w) →
      Pointwise (Good fun q => S q ∨ ∃ yj ∈ levels H k y, q = strip H x w yj) rows
        (instanciate rows H x w fuel y hgt free)
  | 0, k, _, _, _, _, h1, h2, _, _, _ => by omega
  | fuel + 1, k, y, hgt, free, S, h1, h2, he, hg, hl => by
    obtain ⟨k', rfl⟩ : ∃ k', k = k' + 1 := ⟨k - 1, by omega⟩
    have e : hk H (k' + 1) = H + hk H k' := rfl
    have el : levels H (k' + 1) y = y :: levels H k' (y + H) := rfl
    rw [e] at he
    have hnn := hk_nonneg H hH k'
    obtain ⟨r0, hr0, a1, a2, a3⟩ := hl y (by rw [el]; simp)
    have hmark := markLevel_level H x w y hH hw rows free hok hg (startRow rows y) r0 hr0 a1 a2 a3
    have hc1 : ¬ (hgt ≤ 0) := by omega
    have hc2 : ¬ (w ≤ 0) := by omega
    simp only [instanciate, hc1, hc2, decide_false, Bool.or_self, Bool.false_eq_true, if_false]
    by_cases hk0 : k' = 0
    · subst hk0
      have hle : hgt ≤ H := by simp [hk] at he; omega
      rw [if_pos hle]
      refine hmark.imp_mem ?_
      intro r _ f hgood
      refine hgood.mono ?_
      intro q hq
      rcases hq with hq | ⟨yj, hyj, rfl⟩
      · exact Or.inl hq
      · simp only [levels, List.mem_singleton] at hyj
        subst hyj
        exact Or.inr rfl
    · have hpos := hk_pos H hH k' (by omega)
      have hnle : ¬ (hgt ≤ H) := by omega
      rw [if_neg hnle]
      have ih := instanciate_good rows H hH hok x w hw fuel k' (y + H) (hgt - H) _ _ (by omega) (by omega) (by omega)
        hmark (by
          intro yj hyj
          obtain ⟨r, hr, b1, b2, b3⟩ := hl yj (by rw [el]; simp [hyj])
          refine ⟨r, hr, b1, b2, ?_⟩
          intro q hq hi
          rcases hq with hq | rfl
          · exact b3 q hq hi
          · simp [strip])
      refine ih.imp_mem ?_
      intro r _ f hgood
      refine hgood.mono ?_
      intro q hq
      rcases hq with hq | ⟨yj, hyj, rfl⟩
      · exact Or.inl (Or.inl hq)
      · rw [el] at hyj
        rcases List.mem_cons.mp hyj with rfl | hyj
        · exact Or.inl (Or.inr rfl)
        · exact Or.inr ⟨yj, hyj, rfl⟩

/-! ### `attemptPlacement` and the row search -/

theorem clamp_mem (x b e : Int) (h : b ≤ e) : b ≤ clamp x b e ∧ clamp x b e ≤ e := by
  unfold clamp
  split
  · omega
  · split <;> omega

/-- the value, if any, is the clamp of the target into one of the intervals -/
def FromIvs (tx : Int) (ivs : List (Int × Int)) (o : Option Int) : Prop :=
  ∀ x, o = some x → ∃ iv ∈ ivs, x = clamp tx iv.1 iv.2

theorem fromIvs_none (tx : Int) (ivs : List (Int × Int)) : FromIvs tx ivs none := by
  intro x h; simp at h

theorem closestStep_from (tx : Int) (ivs : List (Int × Int)) (acc : Option Int) (iv : Int × Int)
    (ha : FromIvs tx ivs acc) (hiv : iv ∈ ivs) : FromIvs tx ivs (closestStep tx acc iv) := by
  intro x hx
  unfold closestStep at hx
  cases acc with
  | none =>
    simp only [Option.some.injEq] at hx
    exact ⟨iv, hiv, hx.symm⟩
  | some d =>
    simp only at hx
    split at hx
    · simp only [Option.some.injEq] at hx
      exact ⟨iv, hiv, hx.symm⟩
    · exact ha x hx

theorem closestInSeg_from (tx w : Int) (r : Row) (ivs : List (Int × Int)) (acc : Option Int) (iv : Int × Int)
    (ha : FromIvs tx ivs acc) (hiv : iv ∈ ivs) : FromIvs tx ivs (closestInSeg tx w r acc iv) := by
  unfold closestInSeg
  split
  · exact ha
  · exact closestStep_from tx ivs acc iv ha hiv

theorem foldl_from (tx : Int) (ivs : List (Int × Int)) (g : Option Int → Int × Int → Option Int)
    (hg : ∀ acc iv, FromIvs tx ivs acc → iv ∈ ivs → FromIvs tx ivs (g acc iv)) :
    ∀ (l : List (Int × Int)) (acc : Option Int), (∀ iv ∈ l, iv ∈ ivs) → FromIvs tx ivs acc →
      FromIvs tx ivs (l.foldl g acc)
  | [], acc, _, ha => ha
  | iv :: l, acc, hl, ha => by
    simp only [List.foldl_cons]
    exact foldl_from tx ivs g hg l _ (fun j hj => hl j (by simp [hj])) (hg acc iv ha (hl iv (by simp)))

theorem attemptSegs_from (rows : List Row) (c : LCell) (y : Int) (ivs : List (Int × Int)) :
    ∀ (rs : List Row) (i : Nat) (acc : Option Int), FromIvs c.tx ivs acc →
      FromIvs c.tx ivs (attemptSegs rows c y ivs i rs acc)
  | [], i, acc, ha => by simpa [attemptSegs] using ha
  | r :: rs, i, acc, ha => by
    simp only [attemptSegs]
    split
    · exact ha
    · split
      · exact attemptSegs_from rows c y ivs rs (i + 1) acc ha
      · exact attemptSegs_from rows c y ivs rs (i + 1) _
          (foldl_from c.tx ivs _ (fun acc iv => closestInSeg_from c.tx c.w r ivs acc iv) ivs acc (fun _ h => h) ha)

theorem attempt_from (t : Tetris) (c : LCell) (y x : Int) (h : attempt t c y = some x) :
    ∃ iv ∈ possibleIvs t.rows t.rowH t.free c.w (c.h.toNat + 1) c.h y, x = clamp c.tx iv.1 iv.2 := by
  unfold attempt at h
  split at h
  · exact attemptSegs_from t.rows c y _ _ _ none (fromIvs_none _ _) x h
  · unfold attemptFirstSeg at h
    split at h
    · simp at h
    · exact foldl_from c.tx _ _ (fun acc iv => closestStep_from c.tx _ acc iv) _ none (fun _ h => h)
        (fromIvs_none _ _) x h

theorem scanRows_inv {σ : Type} (I : σ → Prop) (f : Nat → σ → σ × Bool) (hf : ∀ r s, I s → I (f r s).1) :
    ∀ (l : List Nat) (s : σ), I s → I (scanRows f l s)
  | [], s, hs => hs
  | r :: rs, s, hs => by
    simp only [scanRows]
    have := hf r s hs
    split
    · rename_i s' heq; rw [heq] at this; exact this
    · rename_i s' heq; rw [heq] at this; exact scanRows_inv I f hf rs s' this

theorem searchRows_inv {σ : Type} (I : σ → Prop) (f : Nat → σ → σ × Bool) (hf : ∀ r s, I s → I (f r s).1)
    (n init : Nat) (s : σ) (hs : I s) : I (searchRows f n init s) :=
  scanRows_inv I f hf _ _ (scanRows_inv I f hf _ _ hs)

/-- the best candidate, if any, was returned by `attemptPlacement` for its `y` -/
def BestOK (t : Tetris) (c : LCell) (b : Option Best) : Prop :=
  ∀ bb, b = some bb → attempt t c bb.y = some bb.x

theorem tetrisTry_inv (t : Tetris) (c : LCell) (row : Nat) (b : Option Best) (hb : BestOK t c b) :
    BestOK t c (tetrisTry t c row b).1 := by
  unfold tetrisTry
  cases b with
  | some bb =>
    simp only
    split
    · exact hb
    · split
      · exact hb
      · rename_i x hx
        split
        · intro b' hb'
          simp only [Option.some.injEq] at hb'
          subst hb'
          exact hx
        · exact hb
  | none =>
    simp only
    split
    · exact hb
    · rename_i x hx
      intro b' hb'
      simp only [Option.some.injEq] at hb'
      subst hb'
      exact hx

/-! ### `placeCell` and `run` -/

/-- the strips of a placed cell -/
def cellStrips (H : Int) (k : Nat) (c : LCell) (p : Pos) (q : Rect) : Prop :=
  ∃ yj ∈ levels H k p.y, q = strip H p.x c.w yj

theorem tetrisPlace_rows (t : Tetris) (c : LCell) :
    (tetrisPlace t c).1.rows = t.rows ∧ (tetrisPlace t c).1.rowH = t.rowH := by
  unfold tetrisPlace
  split <;> exact ⟨rfl, rfl⟩

theorem tetrisPlace_ok {S : Rect → Prop} (t : Tetris) (H : Int) (hH : 0 < H) (hok : RowsOK H t.rows)
    (hrowH : t.rows ≠ [] → t.rowH = H) (hg : Pointwise (Good S) t.rows t.free)
    (c : LCell) (hw : 0 < c.w) (k : Nat) (hk1 : 1 ≤ k) (hh : c.h = hk H k) :
    ((tetrisPlace t c).2.placed = false ∧ (tetrisPlace t c).1 = t) ∨
    ((tetrisPlace t c).2.placed = true ∧
      (∃ row, (tetrisPlace t c).2.orient = getOrientation t.rows c row) ∧
      Pointwise (Good fun q => S q ∨ cellStrips H k c (tetrisPlace t c).2 q) t.rows (tetrisPlace t c).1.free ∧
      ∀ yj ∈ levels H k (tetrisPlace t c).2.y, ∃ r ∈ t.rows, r.rect.minY = yj ∧
        r.rect.minX ≤ (tetrisPlace t c).2.x ∧ (tetrisPlace t c).2.x + c.w ≤ r.rect.maxX ∧
        ∀ q, S q → q.intersects r.rect = true → q.maxX ≤ (tetrisPlace t c).2.x) := by
  have hinv := searchRows_inv (BestOK t c) (tetrisTry t c) (tetrisTry_inv t c) t.rows.length
    (startRow t.rows c.ty) none (by intro bb h; simp at h)
  unfold tetrisPlace
  cases hs : searchRows (tetrisTry t c) t.rows.length (startRow t.rows c.ty) none with
  | none => left; constructor <;> rfl
  | some b =>
    right
    simp only
    have hat := hinv b hs
    obtain ⟨iv, hiv, hx⟩ := attempt_from t c b.y b.x hat
    have hne : t.rows ≠ [] := by
      intro he
      rw [he, possibleIvs_nil] at hiv
      simp at hiv
    have hrH := hrowH hne
    rw [hrH] at hiv
    have hfuel : k ≤ c.h.toNat + 1 := by
      have := hk_ge H hH k
      omega
    obtain ⟨hle, hlv⟩ := possibleIvs_ok t.rows H hH t.free hg c.w (c.h.toNat + 1) k c.h b.y hk1 hfuel hh iv hiv
    have hcl := clamp_mem c.tx iv.1 iv.2 hle
    rw [← hx] at hcl
    have hlev := hlv b.x hcl.1 hcl.2
    refine ⟨trivial, ⟨_, rfl⟩, ?_, ?_⟩
    · rw [hrH]
      have := instanciate_good t.rows H hH hok b.x c.w hw (c.h.toNat + 1) k b.y c.h t.free S hk1 hfuel hh hg (by
        intro yj hyj
        obtain ⟨r, hr, b1, b2, b3⟩ := hlev yj hyj
        refine ⟨r, hr, b1, b2, ?_⟩
        intro q hq hi
        have := b3 q hq hi
        omega)
      exact this
    · intro yj hyj
      obtain ⟨r, hr, b1, b2, b3⟩ := hlev yj hyj
      exact ⟨r, List.mem_of_mem_drop hr.mem, hr.minY, b1, b2, b3⟩

/-- what `TetrisLegalizer::run` guarantees for every placed cell: each strip inside a segment
on its level, clear of `S` and of the strips of the cells placed before it -/
theorem tetrisRun_ok (H : Int) (hH : 0 < H) :
    ∀ (cells : List LCell) (t : Tetris) (S : Rect → Prop), RowsOK H t.rows → (t.rows ≠ [] → t.rowH = H) →
      Pointwise (Good S) t.rows t.free →
      (∀ c ∈ cells, 0 < c.w ∧ ∃ k : Nat, 1 ≤ k ∧ c.h = hk H k) →
      (tetrisRun t cells).length = cells.length ∧
      ∀ (i : Nat) (c : LCell) (p : Pos) (k : Nat), cells[i]? = some c → (tetrisRun t cells)[i]? = some p →
        p.placed = true → c.h = hk H k → 1 ≤ k →
        (∃ row, p.orient = getOrientation t.rows c row) ∧
        (∀ yj ∈ levels H k p.y, ∃ r ∈ t.rows, r.rect.minY = yj ∧ r.rect.minX ≤ p.x ∧ p.x + c.w ≤ r.rect.maxX) ∧
        (∀ q, S q → ∀ yj ∈ levels H k p.y, q.intersects (strip H p.x c.w yj) = false) ∧
        (∀ (i' : Nat) (c' : LCell) (p' : Pos) (k' : Nat), i' < i → cells[i']? = some c' →
          (tetrisRun t cells)[i']? = some p' → p'.placed = true → c'.h = hk H k' → 1 ≤ k' →
          ∀ yj' ∈ levels H k' p'.y, ∀ yj ∈ levels H k p.y,
            (strip H p'.x c'.w yj').intersects (strip H p.x c.w yj) = false)
  | [], t, S, _, _, _, _ => by
    refine ⟨rfl, ?_⟩
    intro i c p k hc
    simp at hc
  | c0 :: cs, t, S, hok, hrowH, hg, hcs => by
    obtain ⟨hw0, k0, hk0, hh0⟩ := hcs c0 (by simp)
    have hrows := tetrisPlace_rows t c0
    have hstep := tetrisPlace_ok t H hH hok hrowH hg c0 hw0 k0 hk0 hh0
    have hrun : tetrisRun t (c0 :: cs) = (tetrisPlace t c0).2 :: tetrisRun (tetrisPlace t c0).1 cs := by
      simp only [tetrisRun]
    rw [hrun]
    -- the invariant after the first cell, for a suitable set of strips
    have hnext : ∃ S' : Rect → Prop, (∀ q, S q → S' q) ∧
        ((tetrisPlace t c0).2.placed = true → ∀ q, cellStrips H k0 c0 (tetrisPlace t c0).2 q → S' q) ∧
        Pointwise (Good S') t.rows (tetrisPlace t c0).1.free := by
      rcases hstep with ⟨hp, ht⟩ | ⟨hp, _, hg', _⟩
      · refine ⟨S, fun q h => h, ?_, ?_⟩
        · intro h; rw [hp] at h; simp at h
        · rw [ht]; exact hg
      · exact ⟨_, fun q h => Or.inl h, fun _ q h => Or.inr h, hg'⟩
    obtain ⟨S', hSS', hcS', hg'⟩ := hnext
    have ih := tetrisRun_ok H hH cs (tetrisPlace t c0).1 S' (by rw [hrows.1]; exact hok)
      (by rw [hrows.1, hrows.2]; exact hrowH) (by rw [hrows.1]; exact hg')
      (fun c hc => hcs c (by simp [hc]))
    refine ⟨by simp [ih.1], ?_⟩
    intro i c p k hc hp hpl hh hk1
    cases i with
    | zero =>
      simp only [List.getElem?_cons_zero, Option.some.injEq] at hc hp
      subst hc hp
      rcases hstep with ⟨hpf, _⟩ | ⟨_, hor, _, hlv⟩
      · rw [hpf] at hpl; simp at hpl
      · -- k may differ from k0 only nominally: both satisfy c.h = hk H k; use k0's facts via equality of hk
        have hkk : k = k0 := hk_inj H hH k k0 (by rw [← hh, ← hh0])
        subst hkk
        refine ⟨hor, ?_, ?_, ?_⟩
        · intro yj hyj
          obtain ⟨r, hr, a1, a2, a3, _⟩ := hlv yj hyj
          exact ⟨r, hr, a1, a2, a3⟩
        · intro q hq yj hyj
          obtain ⟨r, hr, a1, a2, a3, a4⟩ := hlv yj hyj
          cases hint : q.intersects (strip H (tetrisPlace t c0).2.x c0.w yj) with
          | false => rfl
          | true =>
            exfalso
            have hhr := hok.height r hr
            have hqr : q.intersects r.rect = true := by
              rw [intersects_true_iff] at hint ⊢
              simp only [strip] at hint
              omega
            have := a4 q hq hqr
            rw [intersects_true_iff] at hint
            simp only [strip] at hint
            omega
        · intro i' c' p' k' hi'
          omega
    | succ i =>
      simp only [List.getElem?_cons_succ] at hc hp
      obtain ⟨hor, h1, h2, h3⟩ := ih.2 i c p k hc hp hpl hh hk1
      rw [hrows.1] at h1 hor
      refine ⟨hor, h1, fun q hq => h2 q (hSS' q hq), ?_⟩
      intro i' c' p' k' hi' hc' hp' hpl' hh' hk1' yj' hyj' yj hyj
      cases i' with
      | zero =>
        simp only [List.getElem?_cons_zero, Option.some.injEq] at hc' hp'
        subst hc' hp'
        have hkk : hk H k' = hk H k0 := by rw [← hh', ← hh0]
        -- the strips of the first cell are in S'
        have hin : S' (strip H (tetrisPlace t c0).2.x c0.w yj') := by
          apply hcS' hpl'
          refine ⟨yj', ?_, rfl⟩
          have : k' = k0 := hk_inj H hH k' k0 hkk
          rw [← this]
          exact hyj'
        exact h2 _ hin yj hyj
      | succ i' =>
        simp only [List.getElem?_cons_succ] at hc' hp'
        exact h3 i' c' p' k' (by omega) hc' hp' hpl' hh' hk1' yj' hyj' yj hyj

end ColoVerif.Legalize
