import ColoVerif.Model.Legalize
import Mathlib.Tactic.Linarith
import Mathlib.Algebra.Order.Field.Rat
/-
Helper lemmas for C11: the ordering key of `computeCellOrder` keeps the left-to-right order of
non-overlapping cells of one row when `0 ≤ orderingWidth ≤ 1`.
-/
namespace ColoVerif.Legalize

theorem orderKey_id (ww wy wh : Rat) (c : LCell) :
    orderKey id ww wy wh c = (c.tx : Rat) + ww * (c.w : Rat) + wy * (c.ty : Rat) + wh * (c.h : Rat) := by
  simp [orderKey]

/-- exact key: strictly increasing from a cell to any cell entirely to its right in the same row -/
theorem orderKey_lt_exact (ww wy wh : Rat) (h0 : 0 ≤ ww) (h1 : ww ≤ 1) (c1 c2 : LCell)
    (hy : c1.ty = c2.ty) (hh : c1.h = c2.h) (hw1 : 0 < c1.w) (hw2 : 0 < c2.w) (hx : c1.tx + c1.w ≤ c2.tx) :
    orderKey id ww wy wh c1 < orderKey id ww wy wh c2 := by
  rw [orderKey_id, orderKey_id, hy, hh]
  have e1 : (1 : Rat) ≤ (c1.w : Rat) := by exact_mod_cast hw1
  have e2 : (1 : Rat) ≤ (c2.w : Rat) := by exact_mod_cast hw2
  have e3 : (c1.tx : Rat) + (c1.w : Rat) ≤ (c2.tx : Rat) := by exact_mod_cast hx
  have p1 : 0 ≤ (1 - ww) * ((c1.w : Rat) - 1) := mul_nonneg (by linarith) (by linarith)
  have p2 : 0 ≤ ww * ((c2.w : Rat) - 1) := mul_nonneg h0 (by linarith)
  nlinarith [p1, p2]

/-- any monotone rounding that is exact on the data of the two cells and on 0 and 1: the key of
the left cell never exceeds the key of the right cell -/
theorem orderKey_le_rounded (rnd : Rat → Rat) (hmono : ∀ a b, a ≤ b → rnd a ≤ rnd b)
    (r0 : rnd 0 = 0) (r1 : rnd 1 = 1) (ww wy wh : Rat) (h0 : 0 ≤ ww) (h1 : ww ≤ 1) (c1 c2 : LCell)
    (hy : c1.ty = c2.ty) (hh : c1.h = c2.h) (hw1 : 0 < c1.w) (hw2 : 0 < c2.w) (hx : c1.tx + c1.w ≤ c2.tx)
    (x1 : rnd (c1.tx : Rat) = c1.tx) (x2 : rnd (c2.tx : Rat) = c2.tx)
    (w1 : rnd (c1.w : Rat) = c1.w) (w2 : rnd (c2.w : Rat) = c2.w) :
    orderKey rnd ww wy wh c1 ≤ orderKey rnd ww wy wh c2 := by
  unfold orderKey
  rw [hy, hh, r1, x1, x2, w1, w2, one_mul, one_mul, x1, x2]
  have a0 : 0 ≤ rnd ww := by rw [← r0]; exact hmono _ _ h0
  have a1 : rnd ww ≤ 1 := by rw [← r1]; exact hmono _ _ h1
  have e1 : (0 : Rat) < (c1.w : Rat) := by exact_mod_cast hw1
  have e2 : (0 : Rat) < (c2.w : Rat) := by exact_mod_cast hw2
  have e3 : (c1.tx : Rat) + (c1.w : Rat) ≤ (c2.tx : Rat) := by exact_mod_cast hx
  have b1 : rnd (rnd ww * (c1.w : Rat)) ≤ (c1.w : Rat) := by
    rw [← w1]
    apply hmono
    rw [w1]
    nlinarith
  have b2 : 0 ≤ rnd (rnd ww * (c2.w : Rat)) := by
    rw [← r0]
    apply hmono
    exact mul_nonneg a0 (le_of_lt e2)
  apply hmono
  apply add_le_add_left
  apply hmono
  apply add_le_add_left
  apply hmono
  linarith

end ColoVerif.Legalize
