import ColoVerif.Proofs.LegalizeTrivialCheck
import ColoVerif.Proofs.LegalizeIdem2Circuit
/-
Helper lemmas for C01 (trivial success), part 3: from the Abacus pass to `Legalizer::run` and
`Circuit::legalize`.
-/
namespace ColoVerif.Legalize
open ColoVerif ColoVerif.RowLeg

theorem perm_sum_int : ∀ {l1 l2 : List Int}, l1.Perm l2 → l1.sum = l2.sum := by
  intro l1 l2 h
  induction h with
  | nil => rfl
  | cons x _ ih => simp [ih]
  | swap x y l => simp only [List.sum_cons]; omega
  | trans _ _ ih1 ih2 => rw [ih1, ih2]

theorem importPos_placed : ∀ (sel : List Nat) (ps pos : List Pos), sel.length = ps.length →
    (∀ p ∈ ps, p.placed = true) → ∀ m, m < pos.length → ((posAt pos m).placed = true ∨ m ∈ sel) →
    (posAt (importPos sel ps pos) m).placed = true
  | [], _, pos, _, _, m, _, h => by
    rcases h with h | h
    · simpa [importPos] using h
    · simp at h
  | _ :: _, [], _, hl, _, _, _, _ => by simp at hl
  | c :: cs, p :: ps, pos, hl, hp, m, hm, h => by
    simp only [importPos]
    have hpp := hp p (by simp)
    rw [if_pos hpp]
    apply importPos_placed cs ps _ (by simpa using hl) (fun q hq => hp q (by simp [hq])) m (by simpa using hm)
    rw [posAt_set_lt _ _ _ _ hm]
    by_cases hcm : c = m
    · left; rw [if_pos hcm]; exact hpp
    · rw [if_neg hcm]
      rcases h with h | h
      · left; exact h
      · rcases List.mem_cons.mp h with h | h
        · exact absurd h.symm hcm
        · right; exact h

theorem sum_pos_nil : ∀ (cells : List LCell), (∀ c ∈ cells, 0 < c.w) → (cells.map (·.w)).sum ≤ 0 → cells = []
  | [], _, _ => rfl
  | c :: cs, hw, hs => by
    exfalso
    have h1 := hw c (by simp)
    have h2 : 0 ≤ (cs.map (·.w)).sum := by
      clear hs
      induction cs with
      | nil => simp
      | cons d ds ih =>
        have := hw d (by simp)
        have := ih (fun e he => hw e (by
          rcases List.mem_cons.mp he with rfl | he
          · simp
          · simp [he]))
        simp only [List.map_cons, List.sum_cons]
        omega
    simp only [List.map_cons, List.sum_cons] at hs
    omega

/-- **`Legalizer::run` succeeds** under the trivial-success bound. -/
theorem run_trivial (rnd : Rat → Rat) (p : Params) (R : List Row) (H W : Int) (cells : List LCell)
    (hgood : ∀ r ∈ R, GoodSeg H r)
    (hcell : ∀ c ∈ cells, c.h = H ∧ 0 < c.w ∧ c.w ≤ W ∧ c.pol = Polarity.ANY ∧ c.torient ≠ Orient.INVALID)
    (htotal : (cells.map (·.w)).sum ≤ (R.map fun r => r.rect.width).sum - (R.length : Int) * W) :
    ∃ b2, run rnd p (Base.mk' R cells) = .ok b2 := by
  have hperm1 : (sortRows R).Perm R := sortRows_perm R
  have hord := computeCellOrder_perm rnd p.ow p.oy p.oh cells
  have hlt : ∀ j ∈ computeCellOrder rnd p.ow p.oy p.oh cells, j < cells.length :=
    fun j hj => List.mem_range.mp (hord.mem_iff.mp hj)
  unfold run
  simp only [Base.mk']
  cases hS : sortRows R with
  | nil =>
    have hR : R = [] := by
      have := hperm1.length_eq; rw [hS] at this
      exact List.length_eq_zero_iff.mp this.symm
    have hc : cells = [] := by
      apply sum_pos_nil cells (fun c hc => (hcell c hc).2.1)
      rw [hR] at htotal
      simpa using htotal
    subst hc
    simp [computeCellOrder, keyed, sortKeys, runTetris, runAbacus, rowHeight?, checkAllPlaced]
  | cons r0 rs =>
    have hr0 : r0.rect.height = H := (hgood r0 (hperm1.mem_iff.mp (by rw [hS]; simp))).2.2
    have hh : ∀ j ∈ computeCellOrder rnd p.ow p.oy p.oh cells, (cellAt cells j).h = H :=
      fun j hj => (hcell _ (cellAt_mem cells j (hlt j hj))).1
    have hT : runTetris ⟨r0 :: rs, cells, cells.map initPos⟩ (computeCellOrder rnd p.ow p.oy p.oh cells)
        = .ok ⟨r0 :: rs, cells, cells.map initPos⟩ := by
      unfold runTetris
      simp only [rowHeight?, List.head?_cons, Option.map_some, hr0]
      have : tetrisSel ⟨r0 :: rs, cells, cells.map initPos⟩ H (computeCellOrder rnd p.ow p.oy p.oh cells) = [] := by
        unfold tetrisSel
        rw [List.filter_eq_nil_iff]
        intro j hj
        simp [hh j hj]
      rw [this]
      simp [importPos]
    rw [hT]
    simp only
    have hrem : Base.remainingRows ⟨r0 :: rs, cells, cells.map initPos⟩ = sortRows R := by
      unfold Base.remainingRows
      simp only [placedRects_init]
      rw [← hS]
      exact flatMap_self _ _ (fun r hr => freespace_nil H r (hgood r (hperm1.mem_iff.mp hr)))
    have hsel : abacusSel ⟨r0 :: rs, cells, cells.map initPos⟩ H (computeCellOrder rnd p.ow p.oy p.oh cells)
        = computeCellOrder rnd p.ow p.oy p.oh cells := by
      unfold abacusSel
      rw [List.filter_eq_self]
      intro j hj
      simp [hh j hj, posAt_init_placed cells j (hlt j hj)]
    -- the Abacus pass
    have hperm2 : (sortRows (sortRows R)).Perm R := (sortRows_perm _).trans hperm1
    have hcperm : ((computeCellOrder rnd p.ow p.oy p.oh cells).map (cellAt cells)).Perm cells := by
      have := hord.map (cellAt cells)
      rw [map_cellAt_range] at this
      exact this
    have hok : TrivOK (sortRows (sortRows R)) H W ((computeCellOrder rnd p.ow p.oy p.oh cells).map (cellAt cells)) := by
      refine ⟨fun r hr => (hgood r (hperm2.mem_iff.mp hr)).2.2, fun c hc => hcell c (hcperm.mem_iff.mp hc), ?_⟩
      unfold doneW
      rw [List.take_length, perm_sum_int (hcperm.map (·.w)),
        perm_sum_int (hperm2.map fun r => r.rect.width), hperm2.length_eq]
      exact htotal
    obtain ⟨ps, hrun, hlen, hpl⟩ := abacusRun_trivial (sortRows R) H W _ hok
    have hA : runAbacus ⟨r0 :: rs, cells, cells.map initPos⟩ (computeCellOrder rnd p.ow p.oy p.oh cells)
        = .ok ⟨r0 :: rs, cells, importPos (computeCellOrder rnd p.ow p.oy p.oh cells) ps (cells.map initPos)⟩ := by
      unfold runAbacus
      simp only [rowHeight?, List.head?_cons, Option.map_some, hr0]
      rw [hsel, hrem, hrun]
    rw [hA]
    simp only
    have hall : (importPos (computeCellOrder rnd p.ow p.oy p.oh cells) ps (cells.map initPos)).all (·.placed) = true := by
      rw [List.all_eq_true]
      intro q hq
      obtain ⟨m, hm, hget⟩ := List.getElem_of_mem hq
      have hm' : m < cells.length := by rw [importPos_len] at hm; simpa using hm
      have := importPos_placed (computeCellOrder rnd p.ow p.oy p.oh cells) ps (cells.map initPos)
        (by rw [hlen]; simp) hpl m (by simpa using hm') (Or.inr (hord.mem_iff.mpr (List.mem_range.mpr hm')))
      rw [posAt_eq_getElem _ m hm, hget] at this
      exact this
    simp [checkAllPlaced, hall]

/-- **`Circuit::legalize` never fails when success is trivial** (any rounding of the ordering key). -/
theorem legalizeWith_trivial (rnd : Rat → Rat) (p : Params) (c : Circuit) (hp : p.check = true) (hd : DomC c)
    (hu : ∀ cl ∈ c.cells, cl.fixed = false →
      cl.pol = Polarity.ANY ∧ cl.orient ≠ Orient.INVALID ∧ Circuit.rowHeight c = some cl.placedHeight)
    (W : Int) (hW : ∀ cl ∈ c.cells, cl.fixed = false → cl.placedWidth ≤ W)
    (hsum : ((c.cells.filter fun cl => !cl.fixed).map Cell.placedWidth).sum
      ≤ (c.computeRows.map fun r => r.rect.width).sum - (c.computeRows.length : Int) * W) :
    ∃ c', legalizeWith rnd p c = .ok c' := by
  obtain ⟨⟨H, _, hH, hcl⟩, _, hx, _⟩ := hd
  have hgood := computeRows_good c H hH hx
  have hcell : ∀ lc ∈ movable c, lc.h = H ∧ 0 < lc.w ∧ lc.w ≤ W ∧ lc.pol = Polarity.ANY ∧ lc.torient ≠ Orient.INVALID := by
    intro lc hlc
    unfold movable at hlc
    obtain ⟨cl, hcl', rfl⟩ := List.mem_map.mp hlc
    obtain ⟨hmem, hf⟩ := List.mem_filter.mp hcl'
    have hf' : cl.fixed = false := by simpa using hf
    obtain ⟨u1, u2, u3⟩ := hu cl hmem hf'
    rw [hH] at u3
    exact ⟨(Option.some.inj u3).symm, (hcl cl hmem hf').1, hW cl hmem hf', u1, u2⟩
  have htotal : ((movable c).map (·.w)).sum
      ≤ (c.computeRows.map fun r => r.rect.width).sum - (c.computeRows.length : Int) * W := by
    have : (movable c).map (·.w) = (c.cells.filter fun cl => !cl.fixed).map Cell.placedWidth := by
      unfold movable
      rw [List.map_map]
      rfl
    rw [this]
    exact hsum
  obtain ⟨b2, hb2⟩ := run_trivial rnd p c.computeRows H W (movable c) hgood hcell htotal
  refine ⟨exportPlacement b2 c, ?_⟩
  unfold legalizeWith
  rw [hp]
  simp only [Bool.not_true, Bool.false_eq_true, if_false, fromCircuit]
  rw [hb2]

end ColoVerif.Legalize
