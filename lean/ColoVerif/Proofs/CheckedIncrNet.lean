import ColoVerif.Model.IncrNetChecked
import ColoVerif.Proofs.CheckedArith
import ColoVerif.Proofs.IncrNetTopology
/-
No-fault theorems for the checked `IncrNetModel` (C07): on the domain `Model.DomC`
(positions within ±2^23, pin offsets within ±2^24, no empty net, at most 2^31 nets, stored
bounds within ±2^25 and ordered, value = Σ stored extents) every checked function returns
`.ok` of the unbounded model's result, and the domain is preserved.
-/
namespace ColoVerif.IncrNet
open ColoVerif ColoVerif.Checked Model

/-! ### the sentinel loops are `lmin` / `lmax` -/

theorem foldl_min_comm : ∀ (l : List Int) (x : Int), l.foldl (fun a v => min v a) x = l.foldl min x
  | [], _ => rfl
  | y :: ys, x => by
    simp only [List.foldl_cons]
    rw [Int.min_comm y x]
    exact foldl_min_comm ys _

theorem foldl_max_comm : ∀ (l : List Int) (x : Int), l.foldl (fun a v => max v a) x = l.foldl max x
  | [], _ => rfl
  | y :: ys, x => by
    simp only [List.foldl_cons]
    rw [Int.max_comm y x]
    exact foldl_max_comm ys _

/-- `minPos = INT_MAX; for … minPos = std::min(pinPos, minPos)` on `int`s -/
theorem sentinel_lmin (l : List Int) (h : ∀ x ∈ l, x ≤ 2147483647) :
    l.foldl (fun a v => min v a) intMax = Circuit.lmin intMax l := by
  cases l with
  | nil => rfl
  | cons x xs =>
    have hx := h x (by simp)
    have e : min x intMax = x := by unfold intMax; omega
    simp only [List.foldl_cons, e, Circuit.lmin]
    exact foldl_min_comm xs x

/-- `maxPos = INT_MIN; for … maxPos = std::max(pinPos, maxPos)` on `int`s -/
theorem sentinel_lmax (l : List Int) (h : ∀ x ∈ l, -2147483648 ≤ x) :
    l.foldl (fun a v => max v a) intMin = Circuit.lmax intMin l := by
  cases l with
  | nil => rfl
  | cons x xs =>
    have hx := h x (by simp)
    have e : max x intMin = x := by unfold intMin; omega
    simp only [List.foldl_cons, e, Circuit.lmax]
    exact foldl_max_comm xs x

theorem minMaxLoopC_ok (cp : List Int) : ∀ (ps : List Pin1) (mn mx : Int),
    (∀ p ∈ ps, -2147483648 ≤ cp.getD p.1 0 + p.2 ∧ cp.getD p.1 0 + p.2 ≤ 2147483647) →
    minMaxLoopC cp ps mn mx =
      .ok ((ps.map fun p => cp.getD p.1 0 + p.2).foldl (fun a v => min v a) mn,
           (ps.map fun p => cp.getD p.1 0 + p.2).foldl (fun a v => max v a) mx)
  | [], _, _, _ => rfl
  | p :: ps, mn, mx, h => by
    have hp := h p (by simp)
    have e : addI32 "computeNetMinMaxPos: cellPos_[c] + netPinOffset" (cp.getD p.1 0) p.2 = .ok (cp.getD p.1 0 + p.2) :=
      chk32_ok' hp.1 hp.2
    simp only [minMaxLoopC, e, List.map_cons, List.foldl_cons]
    exact minMaxLoopC_ok cp ps _ _ (fun q hq => h q (by simp [hq]))

/-! ### bounds on the pins of a net -/

theorem netPins_off (m : Model) (net : Nat)
    (hoff : ∀ i, -16777216 ≤ m.netPinOffsets.getD i 0 ∧ m.netPinOffsets.getD i 0 ≤ 16777216) :
    ∀ p ∈ m.netPins net, -16777216 ≤ p.2 ∧ p.2 ≤ 16777216 := by
  intro p hp
  unfold netPins at hp
  obtain ⟨j, _, rfl⟩ := List.mem_map.mp hp
  show -16777216 ≤ m.netPinOffsets.getD (m.netLimits.getD net 0 + j) 0 ∧
    m.netPinOffsets.getD (m.netLimits.getD net 0 + j) 0 ≤ 16777216
  exact hoff _

theorem netPinPositions_bounds (m : Model) (net : Nat)
    (hpos : ∀ i, -8388608 ≤ m.cellPos.getD i 0 ∧ m.cellPos.getD i 0 ≤ 8388608)
    (hoff : ∀ i, -16777216 ≤ m.netPinOffsets.getD i 0 ∧ m.netPinOffsets.getD i 0 ≤ 16777216) :
    ∀ x ∈ m.netPinPositions net, -25165824 ≤ x ∧ x ≤ 25165824 := by
  intro x hx
  unfold netPinPositions at hx
  obtain ⟨p, hp, rfl⟩ := List.mem_map.mp hx
  have h1 := netPins_off m net hoff p hp
  have h2 := hpos p.1
  omega

theorem netPinPositions_length (m : Model) (net : Nat) : (m.netPinPositions net).length = m.nbNetPins net := by
  simp [netPinPositions, netPins]

/-- `computeNetMinMaxPos(net)` never overflows on bounded positions and offsets (an empty net
returns the sentinels, as in the unbounded model) -/
theorem computeNetMinMaxPosC_ok (m : Model) (net : Nat)
    (hpos : ∀ i, -8388608 ≤ m.cellPos.getD i 0 ∧ m.cellPos.getD i 0 ≤ 8388608)
    (hoff : ∀ i, -16777216 ≤ m.netPinOffsets.getD i 0 ∧ m.netPinOffsets.getD i 0 ≤ 16777216) :
    m.computeNetMinMaxPosC net = .ok (m.computeNetMinMaxPos net) := by
  have hb := netPinPositions_bounds m net hpos hoff
  have hb' : ∀ p ∈ m.netPins net, -2147483648 ≤ m.cellPos.getD p.1 0 + p.2 ∧ m.cellPos.getD p.1 0 + p.2 ≤ 2147483647 := by
    intro p hp
    have := hb (m.cellPos.getD p.1 0 + p.2) (by unfold netPinPositions; exact List.mem_map.mpr ⟨p, hp, rfl⟩)
    omega
  unfold computeNetMinMaxPosC
  rw [minMaxLoopC_ok m.cellPos (m.netPins net) intMax intMin hb']
  show Except.ok ((m.netPinPositions net).foldl (fun a v => min v a) intMax,
      (m.netPinPositions net).foldl (fun a v => max v a) intMin) = _
  rw [sentinel_lmin _ (fun x hx => by have := hb x hx; omega),
      sentinel_lmax _ (fun x hx => by have := hb x hx; omega)]
  rfl

/-- the bounds of a non-empty net are ordered and within the pin range -/
theorem computeNetMinMaxPos_bounds (m : Model) (net : Nat)
    (hpos : ∀ i, -8388608 ≤ m.cellPos.getD i 0 ∧ m.cellPos.getD i 0 ≤ 8388608)
    (hoff : ∀ i, -16777216 ≤ m.netPinOffsets.getD i 0 ∧ m.netPinOffsets.getD i 0 ≤ 16777216)
    (hne : 0 < m.nbNetPins net) :
    -25165824 ≤ (m.computeNetMinMaxPos net).1 ∧ (m.computeNetMinMaxPos net).1 ≤ (m.computeNetMinMaxPos net).2 ∧
      (m.computeNetMinMaxPos net).2 ≤ 25165824 := by
  have hb := netPinPositions_bounds m net hpos hoff
  have hl : m.netPinPositions net ≠ [] := by
    intro h
    have := netPinPositions_length m net
    rw [h] at this
    simp at this
    omega
  have h1 := lmin_mem intMax _ hl
  have h2 := lmax_mem intMin _ hl
  have a := hb _ h1.1
  have b := hb _ h2.1
  have c := h1.2 _ h2.1
  show -25165824 ≤ Circuit.lmin intMax (m.netPinPositions net) ∧
    Circuit.lmin intMax (m.netPinPositions net) ≤ Circuit.lmax intMin (m.netPinPositions net) ∧
    Circuit.lmax intMin (m.netPinPositions net) ≤ 25165824
  omega

/-! ### the domain -/

/-- The C07 domain of an `IncrNetModel`: every cell position within ±2^23, every pin offset
within ±2^24, no empty net (`check()` demands it; `addNet` drops nets with fewer than two
pins), at most 2^31 nets, one stored pair per net, each within ±2^25 and ordered, and the
stored value is the sum of the stored extents (`computeValue()`).  Defaults of `getD` are 0,
so the pointwise bounds are statements about the entries. -/
structure Model.DomC (m : Model) : Prop where
  pos : ∀ i, -8388608 ≤ m.cellPos.getD i 0 ∧ m.cellPos.getD i 0 ≤ 8388608
  off : ∀ i, -16777216 ≤ m.netPinOffsets.getD i 0 ∧ m.netPinOffsets.getD i 0 ≤ 16777216
  nonempty : ∀ net, net < m.nbNets → 0 < m.nbNetPins net
  nets : m.nbNets ≤ 2147483648
  len : m.netMinMaxPos.length = m.nbNets
  mm : ∀ net, net < m.nbNets →
    -33554432 ≤ (m.netMinMaxPos.getD net (0, 0)).1 ∧
    (m.netMinMaxPos.getD net (0, 0)).1 ≤ (m.netMinMaxPos.getD net (0, 0)).2 ∧
    (m.netMinMaxPos.getD net (0, 0)).2 ≤ 33554432
  val : m.value = m.computeValue

theorem sum_range_bounds (f : Nat → Int) : ∀ N : Nat, (∀ k, k < N → 0 ≤ f k ∧ f k ≤ 67108864) →
    0 ≤ ((List.range N).map f).sum ∧ ((List.range N).map f).sum ≤ N * 67108864
  | 0, _ => by simp
  | N + 1, h => by
    have ih := sum_range_bounds f N (fun k hk => h k (by omega))
    have hN := h N (by omega)
    rw [sum_range_succ]
    constructor
    · omega
    · omega

/-- `|value| ≤ 2^31 · 2^26 = 2^57` on the domain (in fact `0 ≤ value`) -/
theorem Model.DomC.value_bound {m : Model} (h : m.DomC) : 0 ≤ m.value ∧ m.value ≤ 144115188075855872 := by
  have hs := sum_range_bounds
    (fun net => (m.netMinMaxPos.getD net (0, 0)).2 - (m.netMinMaxPos.getD net (0, 0)).1) m.nbNets
    (fun k hk => by have := h.mm k hk; omega)
  have hv : m.value = ((List.range m.nbNets).map fun net =>
      (m.netMinMaxPos.getD net (0, 0)).2 - (m.netMinMaxPos.getD net (0, 0)).1).sum := h.val
  have hn := h.nets
  omega

/-! ### recomputeNet / updateCellPos -/

theorem recomputeNetC_ok (m : Model) (net : Nat) (hd : m.DomC) (hn : net < m.nbNets) :
    m.recomputeNetC net = .ok (m.recomputeNet net) ∧ (m.recomputeNet net).DomC := by
  have hc := computeNetMinMaxPosC_ok m net hd.pos hd.off
  have hb := computeNetMinMaxPos_bounds m net hd.pos hd.off (hd.nonempty net hn)
  have ho := hd.mm net hn
  have hv := hd.value_bound
  have e1 : subI32 "recomputeNet: oldMinMaxPos.second - oldMinMaxPos.first"
      (m.netMinMaxPos.getD net (0, 0)).2 (m.netMinMaxPos.getD net (0, 0)).1 =
      .ok ((m.netMinMaxPos.getD net (0, 0)).2 - (m.netMinMaxPos.getD net (0, 0)).1) :=
    chk32_ok' (by omega) (by omega)
  have e2 : subI32 "recomputeNet: newMinMaxPos.second - newMinMaxPos.first"
      (m.computeNetMinMaxPos net).2 (m.computeNetMinMaxPos net).1 =
      .ok ((m.computeNetMinMaxPos net).2 - (m.computeNetMinMaxPos net).1) :=
    chk32_ok' (by omega) (by omega)
  have e3 : subI32 "recomputeNet: newValue - oldValue"
      ((m.computeNetMinMaxPos net).2 - (m.computeNetMinMaxPos net).1)
      ((m.netMinMaxPos.getD net (0, 0)).2 - (m.netMinMaxPos.getD net (0, 0)).1) =
      .ok (((m.computeNetMinMaxPos net).2 - (m.computeNetMinMaxPos net).1)
        - ((m.netMinMaxPos.getD net (0, 0)).2 - (m.netMinMaxPos.getD net (0, 0)).1)) :=
    chk32_ok' (by omega) (by omega)
  have e4 : addI64 "recomputeNet: value_ += …" m.value
      (((m.computeNetMinMaxPos net).2 - (m.computeNetMinMaxPos net).1)
        - ((m.netMinMaxPos.getD net (0, 0)).2 - (m.netMinMaxPos.getD net (0, 0)).1)) =
      .ok (m.value + (((m.computeNetMinMaxPos net).2 - (m.computeNetMinMaxPos net).1)
        - ((m.netMinMaxPos.getD net (0, 0)).2 - (m.netMinMaxPos.getD net (0, 0)).1))) :=
    chk64_ok' (by omega) (by omega)
  have hn' : net < m.netMinMaxPos.length := by rw [hd.len]; exact hn
  constructor
  · simp only [recomputeNetC, hc, e1, e2, e3, e4, recomputeNet]
  · refine ⟨hd.pos, hd.off, hd.nonempty, hd.nets, ?_, ?_, ?_⟩
    · show (m.netMinMaxPos.set net (m.computeNetMinMaxPos net)).length = m.nbNets
      rw [List.length_set]; exact hd.len
    · intro k hk
      show -33554432 ≤ ((m.netMinMaxPos.set net (m.computeNetMinMaxPos net)).getD k (0, 0)).1 ∧
        ((m.netMinMaxPos.set net (m.computeNetMinMaxPos net)).getD k (0, 0)).1 ≤
          ((m.netMinMaxPos.set net (m.computeNetMinMaxPos net)).getD k (0, 0)).2 ∧
        ((m.netMinMaxPos.set net (m.computeNetMinMaxPos net)).getD k (0, 0)).2 ≤ 33554432
      by_cases hkn : k = net
      · subst hkn
        rw [getD_set_eq' _ _ _ _ hn']
        omega
      · rw [getD_set_ne' _ _ _ _ _ (Ne.symm hkn)]
        exact hd.mm k hk
    · have hp : Partial m (fun _ => True) := ⟨hd.len, fun _ _ h => absurd trivial h, hd.val⟩
      exact (recompute_partial m _ net hn hp).2.2

theorem recomputeLoopC_ok : ∀ (ns : List Nat) (m : Model), m.DomC → (∀ n ∈ ns, n < m.nbNets) →
    recomputeLoopC ns m = .ok (ns.foldl recomputeNet m) ∧ (ns.foldl recomputeNet m).DomC
  | [], _, hd, _ => ⟨rfl, hd⟩
  | n :: ns, m, hd, h => by
    obtain ⟨e, hd'⟩ := recomputeNetC_ok m n hd (h n (by simp))
    have ih := recomputeLoopC_ok ns (m.recomputeNet n) hd' (fun k hk => h k (by simp [hk]))
    simp only [recomputeLoopC, e, List.foldl_cons]
    exact ih

theorem setPos_DomC (m : Model) (cell : Nat) (pos : Int) (hd : m.DomC)
    (hp : -8388608 ≤ pos ∧ pos ≤ 8388608) : (m.setPos cell pos).DomC := by
  refine ⟨?_, hd.off, hd.nonempty, hd.nets, hd.len, hd.mm, hd.val⟩
  intro i
  show -8388608 ≤ (m.cellPos.set cell pos).getD i 0 ∧ (m.cellPos.set cell pos).getD i 0 ≤ 8388608
  by_cases hci : cell = i
  · subst hci
    by_cases hl : cell < m.cellPos.length
    · rw [getD_set_eq' _ _ _ _ hl]; exact hp
    · rw [List.set_eq_of_length_le (by omega)]; exact hd.pos cell
  · rw [getD_set_ne' _ _ _ _ _ hci]; exact hd.pos i

/-- `updateCellPos(cell, pos)` on the domain: no fault, the unbounded result, and the domain is
preserved.  `hnets` (every net index stored for the cell is a net) is part of `check()`. -/
theorem updateCellPosC_ok (m : Model) (cell : Nat) (pos : Int) (hd : m.DomC)
    (hp : -8388608 ≤ pos ∧ pos ≤ 8388608) (hnets : ∀ n ∈ m.cellNetList cell, n < m.nbNets) :
    m.updateCellPosC cell pos = .ok (m.updateCellPos cell pos) ∧ (m.updateCellPos cell pos).DomC :=
  recomputeLoopC_ok (m.cellNetList cell) (m.setPos cell pos) (setPos_DomC m cell pos hd hp) hnets

/-! ### computeNetMinMaxPos() / computeValue() -/

theorem allMinMaxLoopC_ok (m : Model)
    (hpos : ∀ i, -8388608 ≤ m.cellPos.getD i 0 ∧ m.cellPos.getD i 0 ≤ 8388608)
    (hoff : ∀ i, -16777216 ≤ m.netPinOffsets.getD i 0 ∧ m.netPinOffsets.getD i 0 ≤ 16777216) :
    ∀ ns : List Nat, allMinMaxLoopC m ns = .ok (ns.map m.computeNetMinMaxPos)
  | [] => rfl
  | n :: ns => by
    have e := computeNetMinMaxPosC_ok m n hpos hoff
    have ih := allMinMaxLoopC_ok m hpos hoff ns
    simp only [allMinMaxLoopC, e, ih, List.map_cons]

theorem computeAllMinMaxPosC_ok (m : Model)
    (hpos : ∀ i, -8388608 ≤ m.cellPos.getD i 0 ∧ m.cellPos.getD i 0 ≤ 8388608)
    (hoff : ∀ i, -16777216 ≤ m.netPinOffsets.getD i 0 ∧ m.netPinOffsets.getD i 0 ≤ 16777216) :
    m.computeAllMinMaxPosC = .ok m.computeAllMinMaxPos :=
  allMinMaxLoopC_ok m hpos hoff _

theorem valueLoopC_ok (mm : List (Int × Int)) : ∀ (ns : List Nat) (acc : Int),
    (∀ n ∈ ns, -33554432 ≤ (mm.getD n (0, 0)).1 ∧ (mm.getD n (0, 0)).1 ≤ (mm.getD n (0, 0)).2 ∧
      (mm.getD n (0, 0)).2 ≤ 33554432) →
    0 ≤ acc → acc + ns.length * 67108864 ≤ 9223372036854775807 →
    valueLoopC mm ns acc = .ok (acc + (ns.map fun n => (mm.getD n (0, 0)).2 - (mm.getD n (0, 0)).1).sum)
  | [], acc, _, _, _ => by simp [valueLoopC]
  | n :: ns, acc, h, h0, hb => by
    have hn := h n (by simp)
    simp only [List.length_cons] at hb
    have e1 : subI32 "computeValue: minMaxPos.second - minMaxPos.first" (mm.getD n (0, 0)).2 (mm.getD n (0, 0)).1 =
        .ok ((mm.getD n (0, 0)).2 - (mm.getD n (0, 0)).1) := chk32_ok' (by omega) (by omega)
    have e2 : addI64 "computeValue: ret += …" acc ((mm.getD n (0, 0)).2 - (mm.getD n (0, 0)).1) =
        .ok (acc + ((mm.getD n (0, 0)).2 - (mm.getD n (0, 0)).1)) := chk64_ok' (by omega) (by omega)
    have ih := valueLoopC_ok mm ns (acc + ((mm.getD n (0, 0)).2 - (mm.getD n (0, 0)).1))
      (fun k hk => h k (by simp [hk])) (by omega) (by omega)
    simp only [valueLoopC, e1, e2, ih, List.map_cons, List.sum_cons]
    rw [Int.add_assoc]

/-- `computeValue()` never overflows when the stored pairs are ordered and within ±2^25 and
there are at most 2^31 nets -/
theorem computeValueC_ok (m : Model)
    (hmm : ∀ net, net < m.nbNets →
      -33554432 ≤ (m.netMinMaxPos.getD net (0, 0)).1 ∧
      (m.netMinMaxPos.getD net (0, 0)).1 ≤ (m.netMinMaxPos.getD net (0, 0)).2 ∧
      (m.netMinMaxPos.getD net (0, 0)).2 ≤ 33554432)
    (hn : m.nbNets ≤ 2147483648) : m.computeValueC = .ok m.computeValue := by
  have h := valueLoopC_ok m.netMinMaxPos (List.range m.nbNets) 0
    (fun n hn => hmm n (List.mem_range.mp hn)) (by omega) (by simp only [List.length_range]; omega)
  unfold computeValueC computeValue
  rw [h, Int.zero_add]

/-! ### finalize / build -/

/-- a consistent model (`check()` passes) with bounded inputs is in the domain -/
theorem Model.DomC.of_inv (m : Model)
    (hpos : ∀ i, -8388608 ≤ m.cellPos.getD i 0 ∧ m.cellPos.getD i 0 ≤ 8388608)
    (hoff : ∀ i, -16777216 ≤ m.netPinOffsets.getD i 0 ∧ m.netPinOffsets.getD i 0 ≤ 16777216)
    (hne : ∀ net, net < m.nbNets → 0 < m.nbNetPins net) (hn : m.nbNets ≤ 2147483648)
    (hinv : Inv m) : m.DomC := by
  refine ⟨hpos, hoff, hne, hn, hinv.1, ?_, hinv.2.2⟩
  intro net h
  rw [hinv.2.1 net h (fun f => f)]
  have := computeNetMinMaxPos_bounds m net hpos hoff (hne net h)
  omega

theorem finalize_eq (m : Model) : m.finalize =
    { m.finalizeCsr with
      netMinMaxPos := m.finalizeCsr.computeAllMinMaxPos
      value := Model.computeValue { m.finalizeCsr with netMinMaxPos := m.finalizeCsr.computeAllMinMaxPos } } := rfl

/-- `finalize()` on bounded inputs: no fault, the unbounded result, and the result is in the
domain -/
theorem finalizeC_ok (m : Model)
    (hpos : ∀ i, -8388608 ≤ m.cellPos.getD i 0 ∧ m.cellPos.getD i 0 ≤ 8388608)
    (hoff : ∀ i, -16777216 ≤ m.netPinOffsets.getD i 0 ∧ m.netPinOffsets.getD i 0 ≤ 16777216)
    (hne : ∀ net, net < m.nbNets → 0 < m.nbNetPins net) (hn : m.nbNets ≤ 2147483648) :
    m.finalizeC = .ok m.finalize ∧ m.finalize.DomC := by
  have hd : m.finalize.DomC := Model.DomC.of_inv m.finalize hpos hoff hne hn (finalize_inv m)
  have e1 : m.finalizeCsr.computeAllMinMaxPosC = .ok m.finalizeCsr.computeAllMinMaxPos :=
    computeAllMinMaxPosC_ok m.finalizeCsr hpos hoff
  have e2 : Model.computeValueC { m.finalizeCsr with netMinMaxPos := m.finalizeCsr.computeAllMinMaxPos } =
      .ok (Model.computeValue { m.finalizeCsr with netMinMaxPos := m.finalizeCsr.computeAllMinMaxPos }) :=
    computeValueC_ok _ hd.mm hn
  refine ⟨?_, hd⟩
  simp only [finalizeC, e1, e2]
  rw [finalize_eq]

/-- the model `build(pos)` finalizes -/
def Builder.initModel (b : Builder) (pos : List Int) : Model :=
  { cellPos := pos, netLimits := b.netLimits, netCells := b.netCells, netPinOffsets := b.netPinOffsets
    cellLimits := [], cellNets := [], cellPinOffsets := [], netMinMaxPos := [], value := 0 }

theorem getD_bound_of_mem (l : List Int) (lo hi : Int) (h0 : lo ≤ 0 ∧ 0 ≤ hi) (h : ∀ x ∈ l, lo ≤ x ∧ x ≤ hi)
    (i : Nat) : lo ≤ l.getD i 0 ∧ l.getD i 0 ≤ hi := by
  by_cases hi' : i < l.length
  · have e : l.getD i 0 = l[i] := by simp [List.getD_eq_getElem?_getD, hi']
    rw [e]; exact h _ (List.getElem_mem hi')
  · rw [getD_of_le _ _ _ (by omega)]; exact h0

/-- `IncrNetModelBuilder::build(pos)`: the builder's CSR represents the nets `L` (`BRepr`, which
`addNet` maintains from `Builder.new`, see `foldl_addNet_repr`), none of them empty -/
theorem buildC_ok (b : Builder) (L : List (List Pin1)) (pos : List Int) (hb : BRepr b L)
    (hL : ∀ l ∈ L, l ≠ []) (hn : L.length ≤ 2147483648)
    (hpos : ∀ x ∈ pos, -8388608 ≤ x ∧ x ≤ 8388608)
    (hoff : ∀ x ∈ b.netPinOffsets, -16777216 ≤ x ∧ x ≤ 16777216) :
    b.buildC pos = .ok (b.build pos) ∧ (b.build pos).DomC := by
  have hr : Repr (b.initModel pos) L := ⟨hb.lim, hb.cells, hb.offs⟩
  show (b.initModel pos).finalizeC = .ok (b.initModel pos).finalize ∧ (b.initModel pos).finalize.DomC
  apply finalizeC_ok (b.initModel pos)
    (getD_bound_of_mem pos _ _ (by omega) hpos) (getD_bound_of_mem b.netPinOffsets _ _ (by omega) hoff)
  · intro net hnet
    rw [hr.nbNets] at hnet
    have h1 := hr.netPins net hnet
    have hlen : ((b.initModel pos).netPins net).length = (b.initModel pos).nbNetPins net := by simp [netPins]
    have hmem : L.getD net [] ∈ L := by simp [List.getD_eq_getElem?_getD, hnet]
    have h2 := hL _ hmem
    rw [← hlen, h1]
    exact List.length_pos_iff.mpr h2
  · rw [hr.nbNets]; exact hn

theorem mem_flatO (L : List (List Pin1)) (x : Int) (h : x ∈ flatO L) : ∃ l ∈ L, ∃ p ∈ l, x = p.2 := by
  unfold flatO at h
  rw [List.mem_flatten] at h
  obtain ⟨xs, hxs, hx⟩ := h
  obtain ⟨l, hl, rfl⟩ := List.mem_map.mp hxs
  obtain ⟨p, hp, rfl⟩ := List.mem_map.mp hx
  exact ⟨l, hl, p, hp, rfl⟩

/-- `build(pos)` for a builder produced by `addNet` calls from `IncrNetModelBuilder(K)` -/
theorem buildC_of_addNet_ok (K : Nat) (Ls : List (List Pin1)) (pos : List Int) (hn : Ls.length ≤ 2147483648)
    (hpos : ∀ x ∈ pos, -8388608 ≤ x ∧ x ≤ 8388608)
    (hoff : ∀ l ∈ Ls, ∀ p ∈ l, -16777216 ≤ p.2 ∧ p.2 ≤ 16777216) :
    (Ls.foldl Builder.addNet (Builder.new K)).buildC pos = .ok ((Ls.foldl Builder.addNet (Builder.new K)).build pos) ∧
      ((Ls.foldl Builder.addNet (Builder.new K)).build pos).DomC := by
  have hb0 : BRepr (Builder.new K) [] := ⟨rfl, rfl, rfl⟩
  have hr := foldl_addNet_repr Ls _ _ hb0
  simp only [List.nil_append] at hr
  apply buildC_ok _ (kept Ls) pos hr
  · intro l hl h
    have := (List.mem_filter.mp hl).2
    rw [h] at this
    simp at this
  · exact Nat.le_trans (List.length_filter_le _ _) hn
  · exact hpos
  · intro x hx
    rw [hr.offs] at hx
    obtain ⟨l, hl, p, hp, rfl⟩ := mem_flatO _ _ hx
    exact hoff l (List.mem_filter.mp hl).1 p hp

/-! ### xTopology / yTopology -/

theorem fixedPositionsC_ok (site : String) (off : Cell → Pin → Int) (pos : Cell → Int) (c : Circuit) (cells : List Nat) :
    ∀ (ps : List Pin) (wm we : Int),
    (∀ p ∈ ps, -2147483648 ≤ pos (c.cell p.cell) + off (c.cell p.cell) p ∧
      pos (c.cell p.cell) + off (c.cell p.cell) p ≤ 2147483647) →
    fixedPositionsC site off pos c cells ps = .ok (fixedPositions off pos c cells ⟨wm, we, ps⟩)
  | [], _, _, _ => rfl
  | p :: ps, wm, we, h => by
    have ih := fixedPositionsC_ok site off pos c cells ps wm we (fun q hq => h q (by simp [hq]))
    cases hc : cellIndex cells p.cell with
    | some k =>
      have hfm : fixedPositions off pos c cells ⟨wm, we, p :: ps⟩ = fixedPositions off pos c cells ⟨wm, we, ps⟩ := by
        unfold fixedPositions
        simp only [List.filterMap_cons, hc]
      rw [hfm]
      simp only [fixedPositionsC, hc]
      exact ih
    | none =>
      have hfm : fixedPositions off pos c cells ⟨wm, we, p :: ps⟩ =
          (pos (c.cell p.cell) + off (c.cell p.cell) p) :: fixedPositions off pos c cells ⟨wm, we, ps⟩ := by
        unfold fixedPositions
        simp only [List.filterMap_cons, hc]
      have hp := h p (by simp)
      have e : addI32 site (pos (c.cell p.cell)) (off (c.cell p.cell) p) =
          .ok (pos (c.cell p.cell) + off (c.cell p.cell) p) := chk32_ok' hp.1 hp.2
      rw [hfm]
      simp only [fixedPositionsC, hc, e, ih]

theorem reducedNetC_ok (site : String) (off : Cell → Pin → Int) (pos : Cell → Int) (c : Circuit) (cells : List Nat)
    (n : Net)
    (h : ∀ p ∈ n.pins, -2147483648 ≤ pos (c.cell p.cell) + off (c.cell p.cell) p ∧
      pos (c.cell p.cell) + off (c.cell p.cell) p ≤ 2147483647) :
    reducedNetC site off pos c cells n = .ok (reducedNet off pos c cells n) := by
  have e := fixedPositionsC_ok site off pos c cells n.pins n.wMant n.wExp h
  have hn : (⟨n.wMant, n.wExp, n.pins⟩ : Net) = n := by cases n; rfl
  rw [hn] at e
  simp only [reducedNetC, e, reducedNet]

theorem addNetsC_ok (site : String) (off : Cell → Pin → Int) (pos : Cell → Int) (c : Circuit) (cells : List Nat) :
    ∀ (ns : List Net) (b : Builder),
    (∀ n ∈ ns, ∀ p ∈ n.pins, -2147483648 ≤ pos (c.cell p.cell) + off (c.cell p.cell) p ∧
      pos (c.cell p.cell) + off (c.cell p.cell) p ≤ 2147483647) →
    addNetsC site off pos c cells ns b = .ok (ns.foldl (fun b n => b.addNet (reducedNet off pos c cells n)) b)
  | [], _, _ => rfl
  | n :: ns, b, h => by
    have e := reducedNetC_ok site off pos c cells n (h n (by simp))
    have ih := addNetsC_ok site off pos c cells ns (b.addNet (reducedNet off pos c cells n))
      (fun k hk => h k (by simp [hk]))
    simp only [addNetsC, e, ih, List.foldl_cons]

/-- every pin offset of a reduced net is a circuit pin offset (≤ 2^23) or an absolute position of
a fixed pin (≤ 2^22 + 2^23) -/
theorem reducedNet_off (off : Cell → Pin → Int) (pos : Cell → Int) (c : Circuit) (cells : List Nat) (n : Net)
    (hpos : ∀ i, -4194304 ≤ pos (c.cell i) ∧ pos (c.cell i) ≤ 4194304)
    (hoff : ∀ p ∈ n.pins, -8388608 ≤ off (c.cell p.cell) p ∧ off (c.cell p.cell) p ≤ 8388608) :
    ∀ q ∈ reducedNet off pos c cells n, -16777216 ≤ q.2 ∧ q.2 ≤ 16777216 := by
  intro q hq
  unfold reducedNet at hq
  rcases List.mem_append.mp hq with hq | hq
  · obtain ⟨p, hp, k, _, rfl⟩ := (mem_selectedPins off c cells n q).mp hq
    have := hoff p hp
    show -16777216 ≤ off (c.cell p.cell) p ∧ off (c.cell p.cell) p ≤ 16777216
    omega
  · obtain ⟨hF, hq⟩ := (mem_pseudoPins _ _ q).mp hq
    have hfix : ∀ y ∈ fixedPositions off pos c cells n, -16777216 ≤ y ∧ y ≤ 16777216 := by
      intro y hy
      obtain ⟨p, hp, _, rfl⟩ := (mem_fixedPositions off pos c cells n y).mp hy
      have h1 := hoff p hp
      have h2 := hpos p.cell
      unfold absPos
      omega
    rcases hq with rfl | rfl
    · exact hfix _ (lmin_mem _ _ hF).1
    · exact hfix _ (lmax_mem _ _ hF).1

/-- `xTopology/yTopology(circuit, cells)` on the C07 domain (coordinates within ±2^22, pin
offsets within ±2^23, at most 2^31 nets): no fault, the unbounded result, and the built model
is in `DomC` -/
theorem topologySiteC_ok (site : String) (off : Cell → Pin → Int) (pos : Cell → Int) (c : Circuit) (cells : List Nat)
    (hpos : ∀ i, -4194304 ≤ pos (c.cell i) ∧ pos (c.cell i) ≤ 4194304)
    (hoff : ∀ n ∈ c.nets, ∀ p ∈ n.pins, -8388608 ≤ off (c.cell p.cell) p ∧ off (c.cell p.cell) p ≤ 8388608)
    (hn : c.nets.length ≤ 2147483648) :
    topologySiteC site off pos c cells = .ok (topology off pos c cells) ∧ (topology off pos c cells).DomC := by
  have e1 := addNetsC_ok site off pos c cells c.nets (Builder.new (cells.length + 1))
    (fun n hn p hp => by have h1 := hpos p.cell; have h2 := hoff n hn p hp; omega)
  have e1' : addNetsC site off pos c cells c.nets (Builder.new (cells.length + 1)) =
      .ok ((reducedNets off pos c cells).foldl Builder.addNet (Builder.new (cells.length + 1))) := by
    rw [e1]; unfold reducedNets; rw [List.foldl_map]
  have e2 := buildC_of_addNet_ok (cells.length + 1) (reducedNets off pos c cells) (topoPos pos c cells)
    (by unfold reducedNets; rw [List.length_map]; exact hn)
    (by
      intro x hx
      unfold topoPos at hx
      rcases List.mem_append.mp hx with hx | hx
      · obtain ⟨i, _, rfl⟩ := List.mem_map.mp hx
        have := hpos i
        omega
      · have : x = 0 := by simpa using hx
        omega)
    (by
      intro l hl
      unfold reducedNets at hl
      obtain ⟨n, hn', rfl⟩ := List.mem_map.mp hl
      exact reducedNet_off off pos c cells n hpos (hoff n hn'))
  rw [topology_eq]
  simp only [topologySiteC, e1']
  exact e2

theorem topologyC_ok (off : Cell → Pin → Int) (pos : Cell → Int) (c : Circuit) (cells : List Nat)
    (hpos : ∀ i, -4194304 ≤ pos (c.cell i) ∧ pos (c.cell i) ≤ 4194304)
    (hoff : ∀ n ∈ c.nets, ∀ p ∈ n.pins, -8388608 ≤ off (c.cell p.cell) p ∧ off (c.cell p.cell) p ≤ 8388608)
    (hn : c.nets.length ≤ 2147483648) :
    topologyC off pos c cells = .ok (topology off pos c cells) ∧ (topology off pos c cells).DomC :=
  topologySiteC_ok _ off pos c cells hpos hoff hn

theorem cell_forall (c : Circuit) (P : Cell → Prop) (h0 : P default) (h : ∀ cl ∈ c.cells, P cl) (i : Nat) :
    P (c.cell i) := by
  unfold Circuit.cell
  by_cases hi : i < c.cells.length
  · have e : c.cells.getD i default = c.cells[i] := by simp [List.getD_eq_getElem?_getD, hi]
    rw [e]; exact h _ (List.getElem_mem hi)
  · rw [getD_of_le _ _ _ (by omega)]; exact h0

/-- `IncrNetModel::xTopology(circuit, cells)` for a circuit whose cells have `|x| ≤ 2^22` and whose
pin x-offsets (`Circuit::pinXOffset`) are within ±2^23 -/
theorem xTopologyC_ok (c : Circuit) (cells : List Nat)
    (hx : ∀ cl ∈ c.cells, -4194304 ≤ cl.x ∧ cl.x ≤ 4194304)
    (hoff : ∀ n ∈ c.nets, ∀ p ∈ n.pins, -8388608 ≤ Circuit.pinXOffset (c.cell p.cell) p ∧
      Circuit.pinXOffset (c.cell p.cell) p ≤ 8388608)
    (hn : c.nets.length ≤ 2147483648) :
    xTopologyC c cells = .ok (xTopology c cells) ∧ (xTopology c cells).DomC :=
  topologyC_ok Circuit.pinXOffset (·.x) c cells
    (cell_forall c (fun cl => -4194304 ≤ cl.x ∧ cl.x ≤ 4194304) (by decide) hx) hoff hn

/-- `IncrNetModel::yTopology(circuit, cells)`, same with `y` -/
theorem yTopologyC_ok (c : Circuit) (cells : List Nat)
    (hy : ∀ cl ∈ c.cells, -4194304 ≤ cl.y ∧ cl.y ≤ 4194304)
    (hoff : ∀ n ∈ c.nets, ∀ p ∈ n.pins, -8388608 ≤ Circuit.pinYOffset (c.cell p.cell) p ∧
      Circuit.pinYOffset (c.cell p.cell) p ≤ 8388608)
    (hn : c.nets.length ≤ 2147483648) :
    yTopologyC c cells = .ok (yTopology c cells) ∧ (yTopology c cells).DomC :=
  topologySiteC_ok _ Circuit.pinYOffset (·.y) c cells
    (cell_forall c (fun cl => -4194304 ≤ cl.y ∧ cl.y ≤ 4194304) (by decide) hy) hoff hn

/-! ### a sequence of updates -/

/-- `updateCellPos` calls one after the other, stopping at the first fault -/
def runC : List (Nat × Int) → Model → Except Fault Model
  | [], m => .ok m
  | o :: ops, m =>
    match m.updateCellPosC o.1 o.2 with
    | .error f => .error f
    | .ok m' => runC ops m'

/-- any sequence of in-range `updateCellPos` calls on a well-formed model of the domain is
fault-free and equals the unbounded run (`WF`: the cell CSR is the transpose of the net CSR, which
`finalize` establishes, see `finalize_wf`) -/
theorem runC_ok : ∀ (ops : List (Nat × Int)) (m : Model), m.DomC → WF m →
    (∀ o ∈ ops, -8388608 ≤ o.2 ∧ o.2 ≤ 8388608) →
    runC ops m = .ok (run m ops) ∧ (run m ops).DomC
  | [], _, hd, _, _ => ⟨rfl, hd⟩
  | o :: ops, m, hd, hwf, h => by
    have hnets : ∀ n ∈ m.cellNetList o.1, n < m.nbNets := by
      intro n hn
      rw [hwf o.1, List.mem_map] at hn
      obtain ⟨q, hq, rfl⟩ := hn
      exact allPins_net_lt m q (List.mem_filter.mp hq).1
    obtain ⟨e, hd'⟩ := updateCellPosC_ok m o.1 o.2 hd (h o (by simp)) hnets
    have hwf' : WF (m.updateCellPos o.1 o.2) := by
      obtain ⟨X, Y, hxy⟩ := update_frame m o.1 o.2
      rw [hxy]; exact hwf
    have ih := runC_ok ops (m.updateCellPos o.1 o.2) hd' hwf' (fun k hk => h k (by simp [hk]))
    simp only [runC, e]
    exact ih

/-- the model built by `x/yTopology` on the C07 domain followed by any sequence of in-range
`updateCellPos` calls: no fault anywhere -/
theorem topology_runC_ok (off : Cell → Pin → Int) (pos : Cell → Int) (c : Circuit) (cells : List Nat)
    (hpos : ∀ i, -4194304 ≤ pos (c.cell i) ∧ pos (c.cell i) ≤ 4194304)
    (hoff : ∀ n ∈ c.nets, ∀ p ∈ n.pins, -8388608 ≤ off (c.cell p.cell) p ∧ off (c.cell p.cell) p ≤ 8388608)
    (hn : c.nets.length ≤ 2147483648) (ops : List (Nat × Int))
    (hops : ∀ o ∈ ops, -8388608 ≤ o.2 ∧ o.2 ≤ 8388608) :
    runC ops (topology off pos c cells) = .ok (run (topology off pos c cells) ops) ∧
      (run (topology off pos c cells) ops).DomC :=
  runC_ok ops _ (topologyC_ok off pos c cells hpos hoff hn).2 (topology_good off pos c cells).1 hops

/-! ### beyond the domain the checked model faults; on it, it does not (non-vacuity) -/

/-- one net with the single pin (cell 0, offset 1), cell 0 at `INT_MAX` -/
def overflowWitness : Model :=
  { cellPos := [2147483647], netLimits := [0, 1], netCells := [0], netPinOffsets := [1]
    cellLimits := [0, 1], cellNets := [0], cellPinOffsets := [1], netMinMaxPos := [(1, 1)], value := 0 }

example : overflowWitness.computeNetMinMaxPosC 0 =
    .error (.intOverflow "computeNetMinMaxPos: cellPos_[c] + netPinOffset") := by decide

example : ({ overflowWitness with cellPos := [0] } : Model).updateCellPosC 0 2147483647 =
    .error (.intOverflow "computeNetMinMaxPos: cellPos_[c] + netPinOffset") := by decide

/-- an empty net (`netLimits_ = [0, 0]`): `computeValue()` evaluates `INT_MIN - INT_MAX` in `int` -/
example : (Builder.mk 1 [0, 0] [] []).buildC [0] =
    .error (.intOverflow "computeValue: minMaxPos.second - minMaxPos.first") := by decide

/-- a fixed pin at `x + offset > INT_MAX` -/
example : xTopologyC ⟨[⟨1, 1, 2147483647, 0, .N, true, false, default⟩], [⟨1, 0, [⟨0, 1, 0⟩]⟩], []⟩ [] =
    .error (.intOverflow "xTopology: circuit.x(cell) + offset") := by decide

example : ((Builder.new 2).addNet [(0, 0), (1, 5)]).buildC [10, 20] =
    .ok (((Builder.new 2).addNet [(0, 0), (1, 5)]).build [10, 20]) := by decide

/-- `buildC_of_addNet_ok` / `DomC` are not vacuous -/
example : (([[(0, 0), (1, 5)]].foldl Builder.addNet (Builder.new 2)).build [10, 20]).DomC :=
  (buildC_of_addNet_ok 2 [[(0, 0), (1, 5)]] [10, 20] (by decide) (by decide) (by decide)).2

end ColoVerif.IncrNet
