import ColoVerif.Proofs.Transp1dOptDualB
/-
Dual certificate from the optimality conditions `Kkt` (C14, slack case), main part:
with `be t := max 0 (max_k (al k - cs k t))` the source potentials `al` of part B are dominated,
going right from a source `k`, on the sinks up to the one containing its end, and going left on
the sinks from the one containing its start (Monge inside a run, `Kkt.s2`/`Kkt.s4` across a gap).
Hence `be t = al k - cs k t` wherever source `k` overlaps sink `t` (`opt`), and a sink met by a
gap between the source intervals has price `0` (`sat`).
-/
namespace ColoVerif.Transp1d

/-! ### a run start / a run end is priced by its own sink -/

theorem al_start_le {sv : Solver} {q : List Int} (kkt : Kkt sv q) (k : Nat)
    (hk : k < sv.u.length) (hs : k = 0 ∨ q.getD (k - 1) 0 < q.getD k 0) (h0 : 0 < q.getD k 0)
    (t : Nat) (ht : t ≤ sigL sv (lo sv q k)) : al sv q k - cs sv k t ≤ 0 := by
  have h1 := al_le_u sv q k h0
  rw [aU_start sv q k hs] at h1
  rcases Nat.lt_or_eq_of_le ht with h2 | h2
  · have := kkt.s2 k hk hs h0 t h2
    unfold lo at h1; omega
  · rw [← h2] at h1; omega

theorem al_end_le {sv : Solver} {q : List Int} (kkt : Kkt sv q) (k : Nat)
    (hk : k < sv.u.length) (he : k + 1 = sv.u.length ∨ q.getD k 0 < q.getD (k + 1) 0)
    (h0 : hi sv q k < sv.D.getD sv.v.length 0)
    (t : Nat) (ht : sigR sv (hi sv q k) ≤ t) (htm : t < sv.v.length) :
    al sv q k - cs sv k t ≤ 0 := by
  have h1 := al_le_v sv q k (VFin.of_end hk he h0)
  rw [aV_end sv q k he] at h1
  rcases Nat.lt_or_eq_of_le ht with h2 | h2
  · have := kkt.s4 k hk he h0 t h2 htm
    unfold hi at h1; omega
  · rw [h2] at h1; omega

/-! ### one step of domination -/

theorem step_right {sv : Solver} {q : List Int} (dom : PosDom sv q) (kkt : Kkt sv q) (k : Nat)
    (hk : k + 1 < sv.u.length) (t : Nat) (ht : t ≤ sigL sv (hi sv q k)) :
    al sv q (k + 1) - cs sv (k + 1) t ≤ max 0 (al sv q k - cs sv k t) := by
  have hD := dom.dinc
  have g1 := dom.lo_nonneg k (by omega)
  have g2 := dom.lo_lt_hi k (by omega)
  have g3 := dom.hi_le_lo k hk
  have g4 := dom.lo_lt_hi (k + 1) hk
  have g5 := dom.hi_le (k + 1) hk
  have g6 := dom.nn k (by omega)
  by_cases hq : q.getD k 0 < q.getD (k + 1) 0
  · have := sigL_mono hD (hi sv q k) (lo sv q (k + 1)) (by omega) g3 (by omega)
    have := al_start_le kkt (k + 1) hk (Or.inr hq) (by omega) t (by omega)
    omega
  · have := dom.mono k hk
    have hq' : q.getD k 0 = q.getD (k + 1) 0 := by omega
    have e0 := lo_succ_eq sv q k hq'
    have s1 := dual_sigL_spec hD (hi sv q k) (by omega) (by omega)
    have s2 := dual_sigR_spec hD (hi sv q k) (by omega) (by omega)
    have s3 := sigL_le_sigR hD (hi sv q k) (by omega) (by omega)
    rcases al_cases sv q k (fin_or dom k (by omega)) with ⟨hu, e⟩ | ⟨hv, e⟩
    · have a1 := al_le_u sv q (k + 1) (by omega)
      have a2 := aU_step sv q k hq'
      have := cs_monge sv dom.si k (k + 1) t (sigL sv (hi sv q k)) (by omega) hk ht s1.1
      omega
    · have a1 := al_le_v sv q (k + 1) (hv.succ hk hq')
      have a2 := aV_step sv q k hk hq'
      have := cs_monge sv dom.si k (k + 1) t (sigR sv (hi sv q k)) (by omega) hk (by omega) s2.1
      omega

theorem step_left {sv : Solver} {q : List Int} (dom : PosDom sv q) (kkt : Kkt sv q) (k : Nat)
    (hk : k + 1 < sv.u.length) (t : Nat) (ht : sigR sv (lo sv q (k + 1)) ≤ t)
    (htm : t < sv.v.length) :
    al sv q k - cs sv k t ≤ max 0 (al sv q (k + 1) - cs sv (k + 1) t) := by
  have hD := dom.dinc
  have g1 := dom.lo_nonneg k (by omega)
  have g2 := dom.lo_lt_hi k (by omega)
  have g3 := dom.hi_le_lo k hk
  have g4 := dom.lo_lt_hi (k + 1) hk
  have g5 := dom.hi_le (k + 1) hk
  have g6 := dom.nn k (by omega)
  by_cases hq : q.getD k 0 < q.getD (k + 1) 0
  · have := sigR_mono hD (hi sv q k) (lo sv q (k + 1)) (by omega) g3 (by omega)
    have := al_end_le kkt k (by omega) (Or.inr hq) (by omega) t (by omega) htm
    omega
  · have := dom.mono k hk
    have hq' : q.getD k 0 = q.getD (k + 1) 0 := by omega
    have e0 := lo_succ_eq sv q k hq'
    rw [e0] at ht
    have s3 := sigL_le_sigR hD (hi sv q k) (by omega) (by omega)
    rcases al_cases sv q (k + 1) (fin_or dom (k + 1) hk) with ⟨hu, e⟩ | ⟨hv, e⟩
    · have a1 := al_le_u sv q k (by omega)
      have a2 := aU_step sv q k hq'
      have := cs_monge sv dom.si k (k + 1) (sigL sv (hi sv q k)) t (by omega) hk (by omega) htm
      omega
    · have a1 := al_le_v sv q k (hv.pred hq')
      have a2 := aV_step sv q k hk hq'
      have := cs_monge sv dom.si k (k + 1) (sigR sv (hi sv q k)) t (by omega) hk ht htm
      omega

/-! ### chains -/

theorem chain_right {sv : Solver} {q : List Int} (dom : PosDom sv q) (kkt : Kkt sv q) (k : Nat)
    (t : Nat) (ht : t ≤ sigL sv (hi sv q k)) :
    ∀ k', k + 1 ≤ k' → k' < sv.u.length →
      al sv q k' - cs sv k' t ≤ max 0 (al sv q k - cs sv k t) := by
  intro k' hkk
  induction k', hkk using Nat.le_induction with
  | base => intro h; exact step_right dom kkt k h t ht
  | succ k' hkk ih =>
    intro h
    have i1 := ih (by omega)
    have hD := dom.dinc
    have g1 := dom.lo_nonneg k (by omega)
    have g2 := dom.lo_lt_hi k (by omega)
    have g3 := dom.hi_mono k k' (by omega) (by omega)
    have g4 := dom.hi_le k' (by omega)
    have := sigL_mono hD (hi sv q k) (hi sv q k') (by omega) g3 g4
    have := step_right dom kkt k' h t (by omega)
    omega

theorem chain_left {sv : Solver} {q : List Int} (dom : PosDom sv q) (kkt : Kkt sv q) (k' : Nat)
    (t : Nat) (htm : t < sv.v.length) :
    ∀ k, k' + 1 ≤ k → k < sv.u.length → sigR sv (lo sv q k) ≤ t →
      al sv q k' - cs sv k' t ≤ max 0 (al sv q k - cs sv k t) := by
  intro k hkk
  induction k, hkk using Nat.le_induction with
  | base => intro h ht; exact step_left dom kkt k' h t ht htm
  | succ k hkk ih =>
    intro h ht
    have hD := dom.dinc
    have g1 := dom.lo_nonneg k (by omega)
    have g2 := dom.lo_mono k (k + 1) (by omega) h
    have g3 := dom.lo_lt_hi (k + 1) h
    have g4 := dom.hi_le (k + 1) h
    have := sigR_mono hD (lo sv q k) (lo sv q (k + 1)) g1 g2 (by omega)
    have i1 := ih (by omega) (by omega)
    have := step_left dom kkt k h t ht htm
    omega

/-! ### an overlapped sink is affordable -/

theorem al_ge_of_ov {sv : Solver} {q : List Int} (dom : PosDom sv q) (kkt : Kkt sv q) (k t : Nat)
    (hk : k < sv.u.length) (ht : t < sv.v.length) (ho : 0 < ov sv q k t) :
    cs sv k t ≤ al sv q k ∧ sigR sv (lo sv q k) ≤ t ∧ t ≤ sigL sv (hi sv q k) := by
  have hD := dom.dinc
  obtain ⟨o1, o2, -, -⟩ := (ov_pos_iff sv q k t).mp ho
  have g1 := dom.lo_nonneg k hk
  have g2 := dom.lo_lt_hi k hk
  have g3 := dom.hi_le k hk
  have r1 := sigR_le hD (lo sv q k) g1 (by omega) t o1
  have r2 := le_sigL hD (hi sv q k) (by omega) g3 t (by omega) o2
  refine ⟨?_, r1, r2⟩
  rcases al_cases sv q k (fin_or dom k hk) with ⟨hu, e⟩ | ⟨hv, e⟩
  · have g4 := dom.lo_pos k hk (Or.inr hu)
    have l1 := sigL_lt hD (lo sv q k) g4 (by omega) (t + 1) (by omega)
    have s1 := dual_sigL_spec hD (hi sv q k) (by omega) g3
    have := cs_quasi sv dom.si k (sigL sv (lo sv q k)) t (sigL sv (hi sv q k)) (by omega) r2 s1.1
    have := aU_ge_lo dom kkt k hk hu
    have := aU_ge_hi dom kkt k hk hu
    omega
  · have g4 := hv.hi_lt dom
    have l1 := le_sigR hD (hi sv q k) (by omega) g4 t (by omega) (by omega)
    have s1 := dual_sigR_spec hD (hi sv q k) (by omega) g4
    have := cs_quasi sv dom.si k (sigR sv (lo sv q k)) t (sigR sv (hi sv q k)) r1 l1 s1.1
    have := aV_ge_lo dom kkt k hv
    have := aV_ge_hi dom kkt k hk hv
    omega

/-! ### sources right / left of a gap cannot afford the sinks on the other side -/

theorem right_zero {sv : Solver} {q : List Int} (dom : PosDom sv q) (kkt : Kkt sv q) (k : Nat)
    (hk : k < sv.u.length) (hs : k = 0 ∨ q.getD (k - 1) 0 < q.getD k 0) (h0 : 0 < q.getD k 0)
    (t : Nat) (ht : t ≤ sigL sv (lo sv q k)) (k' : Nat) (hkk : k ≤ k') (hk' : k' < sv.u.length) :
    al sv q k' - cs sv k' t ≤ 0 := by
  have b := al_start_le kkt k hk hs h0 t ht
  rcases Nat.lt_or_eq_of_le hkk with h | h
  · have hD := dom.dinc
    have g1 := dom.lo_pos k hk (Or.inr h0)
    have g2 := dom.lo_lt_hi k hk
    have g3 := dom.hi_le k hk
    have := sigL_mono hD (lo sv q k) (hi sv q k) g1 (by omega) g3
    have := chain_right dom kkt k t (by omega) k' (by omega) hk'
    omega
  · subst h; exact b

theorem left_zero {sv : Solver} {q : List Int} (dom : PosDom sv q) (kkt : Kkt sv q) (k : Nat)
    (hk : k < sv.u.length) (he : k + 1 = sv.u.length ∨ q.getD k 0 < q.getD (k + 1) 0)
    (h0 : hi sv q k < sv.D.getD sv.v.length 0)
    (t : Nat) (ht : sigR sv (hi sv q k) ≤ t) (htm : t < sv.v.length) (k' : Nat) (hkk : k' ≤ k) :
    al sv q k' - cs sv k' t ≤ 0 := by
  have b := al_end_le kkt k hk he h0 t ht htm
  rcases Nat.lt_or_eq_of_le hkk with h | h
  · have hD := dom.dinc
    have g1 := dom.lo_nonneg k hk
    have g2 := dom.lo_lt_hi k hk
    have := sigR_mono hD (lo sv q k) (hi sv q k) g1 (by omega) h0
    have := chain_left dom kkt k' t htm k (by omega) hk (by omega)
    omega
  · subst h; exact b

/-! ### the sink prices -/

/-- `max 0 (max_{k < n} f k)` -/
def mx (f : Nat → Int) : Nat → Int
  | 0 => 0
  | n + 1 => max (mx f n) (f n)

theorem mx_nonneg (f : Nat → Int) (n : Nat) : 0 ≤ mx f n := by
  induction n with
  | zero => exact Int.le_refl _
  | succ n ih => simp only [mx]; omega

theorem le_mx (f : Nat → Int) (n k : Nat) (hk : k < n) : f k ≤ mx f n := by
  induction n with
  | zero => omega
  | succ n ih =>
    simp only [mx]
    rcases Nat.lt_or_eq_of_le (Nat.le_of_lt_succ hk) with h | h
    · have := ih h; omega
    · subst h; omega

theorem mx_le (f : Nat → Int) (n : Nat) (x : Int) (hx : 0 ≤ x) (h : ∀ k, k < n → f k ≤ x) :
    mx f n ≤ x := by
  induction n with
  | zero => exact hx
  | succ n ih =>
    simp only [mx]
    have := ih (fun k hk => h k (by omega))
    have := h n (by omega)
    omega

/-- the sink prices -/
noncomputable def beOf (sv : Solver) (q : List Int) (t : Nat) : Int :=
  mx (fun k => al sv q k - cs sv k t) sv.u.length

/-! ### a sink not met by any gap is full -/

theorem fill_full {sv : Solver} {q : List Int} (dom : PosDom sv q) (j : Nat)
    (hj : j < sv.v.length) (N : Nat) (hN : N + 1 = sv.u.length)
    (G0 : lo sv q 0 ≤ sv.D.getD j 0)
    (Gk : ∀ k, k + 1 < sv.u.length → hi sv q k = lo sv q (k + 1) ∨
      lo sv q (k + 1) ≤ sv.D.getD j 0 ∨ sv.D.getD (j + 1) 0 ≤ hi sv q k)
    (Gn : sv.D.getD (j + 1) 0 ≤ hi sv q N) :
    fillP sv q j (N + 1) = sv.D.getD (j + 1) 0 - sv.D.getD j 0 := by
  have hD := dom.dinc
  have dj := hD.step j hj
  have key : ∀ K, K + 1 ≤ sv.u.length →
      fillP sv q j (K + 1) = min (max (hi sv q K) (sv.D.getD j 0)) (sv.D.getD (j + 1) 0)
        - sv.D.getD j 0 := by
    intro K
    induction K with
    | zero =>
      intro h
      have := dom.lo_lt_hi 0 (by omega)
      simp only [fillP, ovP, loP_eq, hiP_eq]
      omega
    | succ K ih =>
      intro h
      have i1 := ih (by omega)
      have := dom.lo_lt_hi (K + 1) (by omega)
      have := dom.hi_le_lo K (by omega)
      have := Gk K (by omega)
      rw [fillP, i1]
      simp only [ovP, loP_eq, hiP_eq]
      omega
  rw [key N (by omega)]
  omega

/-! ### the certificate -/

theorem kkt_glob (sv : Solver) (q : List Int) (dom : PosDom sv q) (kkt : Kkt sv q) :
    ∃ be : Nat → Int, GlobCert sv q be := by
  have hD := dom.dinc
  refine ⟨beOf sv q, ⟨fun j _ => mx_nonneg _ _, ?_, ?_⟩⟩
  · -- sat
    intro j hj hpos
    have d0 : 0 ≤ sv.D.getD j 0 := by
      have := hD.mono 0 j (by omega) (by omega); rw [hD.zero] at this; exact this
    have d1 := hD.mono (j + 1) sv.v.length (by omega) (Nat.le_refl _)
    have dj := hD.step j hj
    -- if every source is too expensive the price is zero
    have zero : (∀ k, k < sv.u.length → al sv q k - cs sv k j ≤ 0) → False := by
      intro h
      have := mx_le (fun k => al sv q k - cs sv k j) sv.u.length 0 (Int.le_refl _) h
      unfold beOf at hpos; omega
    have hn : 0 < sv.u.length := by
      apply Nat.pos_of_ne_zero
      intro e
      exact zero (fun k hk => by omega)
    obtain ⟨N, hN⟩ : ∃ N, N + 1 = sv.u.length := ⟨sv.u.length - 1, by omega⟩
    have G0 : lo sv q 0 ≤ sv.D.getD j 0 := by
      apply Int.not_lt.mp
      intro h
      have l0 : lo sv q 0 = q.getD 0 0 := by unfold lo; rw [dom.S_zero]; omega
      have g2 := dom.lo_lt_hi 0 hn
      have g3 := dom.hi_le 0 hn
      have := le_sigL hD (lo sv q 0) (by omega) (by omega) j (by omega) h
      exact zero (fun k hk =>
        right_zero dom kkt 0 hn (Or.inl rfl) (by omega) j this k (by omega) hk)
    have Gk : ∀ k, k + 1 < sv.u.length → hi sv q k = lo sv q (k + 1) ∨
        lo sv q (k + 1) ≤ sv.D.getD j 0 ∨ sv.D.getD (j + 1) 0 ≤ hi sv q k := by
      intro k hk
      apply Classical.byContradiction
      intro hc
      have g1 := dom.lo_nonneg k (by omega)
      have g2 := dom.lo_lt_hi k (by omega)
      have g3 := dom.hi_le_lo k hk
      have g4 := dom.lo_lt_hi (k + 1) hk
      have g5 := dom.hi_le (k + 1) hk
      have g6 := dom.nn k (by omega)
      have hq : q.getD k 0 < q.getD (k + 1) 0 := by
        have : hi sv q k < lo sv q (k + 1) := by omega
        unfold lo hi at this; omega
      have r := le_sigL hD (lo sv q (k + 1)) (by omega) (by omega) j (by omega) (by omega)
      have l := sigR_le hD (hi sv q k) (by omega) (by omega) j (by omega)
      apply zero
      intro k' hk'
      by_cases hkk : k' ≤ k
      · exact left_zero dom kkt k (by omega) (Or.inr hq) (by omega) j l hj k' hkk
      · exact right_zero dom kkt (k + 1) hk (Or.inr hq) (by omega) j r k' (by omega) hk'
    have Gn : sv.D.getD (j + 1) 0 ≤ hi sv q N := by
      apply Int.not_lt.mp
      intro h
      have g1 := dom.lo_nonneg N (by omega)
      have g2 := dom.lo_lt_hi N (by omega)
      have l := sigR_le hD (hi sv q N) (by omega) (by omega) j h
      exact zero (fun k hk =>
        left_zero dom kkt N (by omega) (Or.inl hN) (by omega) j l hj k (by omega))
    have := fill_full dom j hj N hN G0 Gk Gn
    rw [hN] at this
    exact this
  · -- opt
    intro i j j' hi_ hj hj' ho
    obtain ⟨c1, c2, c3⟩ := al_ge_of_ov dom kkt i j hi_ hj ho
    have up : beOf sv q j ≤ al sv q i - cs sv i j := by
      apply mx_le _ _ _ (by omega)
      intro k hk
      show al sv q k - cs sv k j ≤ al sv q i - cs sv i j
      rcases Nat.lt_trichotomy k i with h | h | h
      · have := chain_left dom kkt k j hj i (by omega) hi_ c2
        omega
      · subst h; exact Int.le_refl _
      · have := chain_right dom kkt i j c3 k (by omega) hk
        omega
    have lo1 : al sv q i - cs sv i j ≤ beOf sv q j :=
      le_mx (fun k => al sv q k - cs sv k j) sv.u.length i hi_
    have lo2 : al sv q i - cs sv i j' ≤ beOf sv q j' :=
      le_mx (fun k => al sv q k - cs sv k j') sv.u.length i hi_
    omega

/-- non-vacuity: one source of size 1 at the left wall, one sink of size 2 -/
theorem kkt_example : PosDom (mkSolver [0] [0] [1] [2]) [0] ∧ Kkt (mkSolver [0] [0] [1] [2]) [0] := by
  refine ⟨⟨⟨⟨rfl, rfl, rfl, rfl⟩, by decide, by decide, by decide, by decide, rfl, rfl⟩,
    by decide, by decide, rfl, ?_, ?_, ?_, by decide⟩, ⟨?_, ?_, ?_, ?_⟩⟩
  · intro i hi; simp [mkSolver] at hi
  · intro i hi
    have : i = 0 := by simp [mkSolver] at hi; omega
    subst this; decide
  · intro i hi
    have : i = 0 := by simp [mkSolver] at hi; omega
    subst this; decide
  · intro a k h1 h2 _ _ h5
    have hk : k = 0 := by simp [mkSolver] at h2; omega
    have ha : a = 0 := by omega
    subst hk ha; revert h5; decide
  · intro a h2 _ h5
    have ha : a = 0 := by simp [mkSolver] at h2; omega
    subst ha; revert h5; decide
  · intro k b h1 h2 _ _ _
    have hb : b = 0 := by simp [mkSolver] at h2; omega
    have hk : k = 0 := by omega
    subst hk hb; decide
  · intro b h2 _ _ t h3 h4
    have hb : b = 0 := by simp [mkSolver] at h2; omega
    subst hb
    have : sigR (mkSolver [0] [0] [1] [2]) ((mkSolver [0] [0] [1] [2]).S.getD (0 + 1) 0
        + ([0] : List Int).getD 0 0) = 0 := by decide
    rw [this] at h3
    simp [mkSolver] at h4; omega

end ColoVerif.Transp1d
