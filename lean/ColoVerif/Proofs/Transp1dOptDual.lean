import ColoVerif.Proofs.Transp1dOptKkt
import ColoVerif.Proofs.Transp1dMerge
import ColoVerif.Proofs.Transp1dAssign
import Mathlib.Tactic.Linarith
namespace ColoVerif.Transp1d
end ColoVerif.Transp1d
