import ColoVerif.Proofs.DetReorderPassHist
import ColoVerif.Proofs.DetReorderWriteback
/-
`RowReordering` never fails on the model: on an `Inv` placement, a window of distinct valid placed cells
is registered without exception (`addCells_ok`), and the write-back of the kept leaf goes through
(`writeback_succeeds`: the kept leaf is well-formed — `Book.bestwf` — because the enumeration only recurses
under the `allocatedWidth <= width && isRowAllowed` test and packs positions from `minPos`).  Hence
`runReorderingOnCells`, `runReorderingOnRows` and `runReordering` return normally, on the coordinate
vectors and on the whole object.
-/
namespace ColoVerif.DetPlace
open State

/-- the pass on the coordinate vectors returns normally -/
theorem reorderWindow_total (V : Value) (s : State) (h : Inv s) (w : List Int) (hn : w.Nodup)
    (hw : ∀ c ∈ w, s.validCell c ∧ s.row c ≠ -1) : ∃ t, s.reorderWindow V w = .ok t := by
  obtain ⟨rr0, e0⟩ := addCells_ok s h w (s.x, s.y) hn hw
  obtain ⟨hnd, hsub⟩ := addCells_registered s h w _ rr0 hn hw e0
  obtain ⟨hf, _⟩ := addCells_fresh s w _ rr0 e0
  have hst : rr0.store = (s.x, s.y) := (addCells_two s w (s.x, s.y) () rr0 e0).2
  obtain ⟨_, _, r3, r4, hb, _⟩ := run_spec V s rr0 hf hnd (fun c hc => (hw c (hsub c hc)).1.1) hst
  unfold State.reorderWindow
  rw [e0]
  simp only []
  split
  · rename_i himp
    have hwf := hb.bestwf himp
    rw [r4, r3] at hwf
    have := writeback_succeeds s h w (s.x, s.y) rr0 hn hw e0 (sortDesc rr0.cells) (sortDesc_perm rr0.cells) _ _ hwf
    unfold RowReord.bestRegions
    rw [r3, r4]
    exact this
  · exact ⟨s, rfl⟩

/-! ### from the placement to the whole object -/

theorem placeChain_lift : ∀ (l : List (Int × Int)) (p : Placer) (t : State) (r pr : Int),
    p.pl.placeChain r pr l = .ok t → ∃ q, p.placeChain r pr l = .ok q ∧ q.pl = t
  | [], p, t, r, pr, e => by
    simp only [State.placeChain] at e
    injection e with e; subst e
    exact ⟨p, rfl, rfl⟩
  | (k, v) :: rest, p, t, r, pr, e => by
    unfold State.placeChain at e
    unfold Placer.placeChain
    split at e
    · rename_i hg
      rw [if_pos hg]
      split at e
      · cases e
      · rename_i u eu
        rw [eu]
        exact placeChain_lift rest ((p.withPl u).updateCell k) t r k e
    · cases e

theorem placeRegions_lift : ∀ (gs : List Region) (p : Placer) (t : State),
    p.pl.placeRegions gs = .ok t → ∃ q, p.placeRegions gs = .ok q ∧ q.pl = t
  | [], p, t, e => by
    simp only [State.placeRegions] at e
    injection e with e; subst e
    exact ⟨p, rfl, rfl⟩
  | g :: gs, p, t, e => by
    unfold State.placeRegions at e
    unfold Placer.placeRegions
    split at e
    · cases e
    · rename_i u eu
      obtain ⟨q1, e1, h1⟩ := placeChain_lift g.cells p u g.row g.pred eu
      rw [e1]
      simp only []
      exact placeRegions_lift gs q1 t (by rw [h1]; exact e)

theorem reorderWriteback_lift (p : Placer) (cells : List Int) (regions : List Region) (t : State)
    (e : p.pl.reorderWriteback cells regions = .ok t) : ∃ q, p.reorderWriteback cells regions = .ok q := by
  unfold State.reorderWriteback at e
  unfold Placer.reorderWriteback
  split at e
  · cases e
  · rename_i u eu
    rw [eu]
    simp only []
    split at e
    · cases e
    · rename_i v ev
      obtain ⟨q1, e1, h1⟩ := placeRegions_lift regions (p.withPl u) v ev
      rw [e1]
      simp only []
      split at e
      · rename_i hall
        rw [h1, if_pos hall]
        exact ⟨q1, rfl⟩
      · cases e

/-- `runReorderingOnCells` on the whole object returns normally -/
theorem placer_reorderWindow_total {c : Circuit} (p : Placer) (hs : Sync c p) (h : Inv p.pl) (w : List Int) (hn : w.Nodup)
    (hw : ∀ k ∈ w, p.pl.validCell k ∧ p.pl.row k ≠ -1) : ∃ r, p.reorderWindow w = .ok r := by
  obtain ⟨rrm0, em⟩ := addCells_ok p.pl h w (p.xt, p.yt) hn hw
  obtain ⟨ep, hstm⟩ := addCells_two p.pl w (p.xt, p.yt) (p.pl.x, p.pl.y) rrm0 em
  obtain ⟨hndm, hsubm⟩ := addCells_registered p.pl h w _ rrm0 hn hw em
  obtain ⟨hfm, _⟩ := addCells_fresh p.pl w _ rrm0 em
  generalize hrrp : rrm0.mapStore (fun _ => (p.pl.x, p.pl.y)) = rrp0 at ep
  have hcore0 : rrp0.core = rrm0.core := by rw [← hrrp]; rfl
  have hstp : rrp0.store = (p.pl.x, p.pl.y) := by rw [← hrrp]; rfl
  have hcells0 : rrp0.cells = rrm0.cells := (core_fields hcore0).2.1
  have hregs0 : rrp0.regions = rrm0.regions := (core_fields hcore0).1
  have hvalid : ∀ k ∈ rrm0.cells, p.pl.validCell k := fun k hk => (hw k (hsubm k hk)).1
  have hsim0 : Sim (SyncR c) (fun k => 0 ≤ k ∧ k < (c.cells.length : Int)) rrp0 rrm0 :=
    ⟨hcore0, by rw [hstp, hstm]; exact ⟨hs.x, hs.y⟩,
     fun l hl d hd => by
      obtain ⟨n, hn'⟩ := List.getElem?_of_mem hl
      have hl0 : l = [] := hfm.empty n l (by rw [← (core_fields hcore0).2.2.1]; exact hn')
      rw [hl0] at hd; simp at hd,
     fun k hk => hs.valid (hvalid k (hcells0 ▸ hk))⟩
  have hsim := run_sim (storeSim c) p.pl hsim0
  obtain ⟨g1, g2, g3, g4, g5, g6, g7, g8, g10, g11, g12⟩ := core_fields hsim.core
  obtain ⟨hf, _⟩ := addCells_fresh p.pl w _ rrp0 ep
  obtain ⟨_, _, r3, r4, hb, _⟩ := run_spec (circuitValue c) p.pl rrp0 hf (hcells0 ▸ hndm)
    (fun k hk => (hs.valid (hvalid k (hcells0 ▸ hk))).1) hstp
  unfold Placer.reorderWindow
  rw [em]
  simp only []
  -- the write-back
  have hwb : ∃ q, p.writeback (rrm0.run modelStore p.pl) = .ok q := by
    unfold Placer.writeback
    by_cases himp : (rrm0.run modelStore p.pl).improvement = true
    · rw [if_pos himp]
      have himp' : (rrp0.run (pureStore (circuitValue c)) p.pl).improvement = true := by rw [g8]; exact himp
      have hwf := hb.bestwf himp'
      rw [r4, r3] at hwf
      obtain ⟨t, et⟩ := writeback_succeeds p.pl h w (p.pl.x, p.pl.y) rrp0 hn hw ep (sortDesc rrp0.cells)
        (sortDesc_perm rrp0.cells) _ _ hwf
      have hbr : (rrm0.run modelStore p.pl).bestRegions =
          leafRegions rrp0.regions (rrp0.run (pureStore (circuitValue c)) p.pl).bestOrder
            (rrp0.run (pureStore (circuitValue c)) p.pl).bestPositions := by
        unfold RowReord.bestRegions; rw [← g1, ← g6, ← g7, r4]
      have hcl : (rrm0.run modelStore p.pl).cells = sortDesc rrp0.cells := by rw [← g2, r3]
      rw [hbr, hcl]
      exact reorderWriteback_lift _ _ _ t et
    · rw [if_neg himp]; exact ⟨_, rfl⟩
  obtain ⟨q, eq⟩ := hwb
  rw [eq]
  exact ⟨_, rfl⟩

/-! ### the loops -/

theorem windowsLoop_total (J : Placer → Prop) : ∀ (ws : List (List Int)) (p : Placer), J p →
    (∀ w ∈ ws, ∀ p', J p' → ∃ r, p'.reorderWindow w = .ok r) →
    (∀ w ∈ ws, ∀ p' q ops info, J p' → p'.reorderWindow w = .ok (q, ops, info) → J q) →
    ∃ r, p.reorderWindowsLoop ws = .ok r ∧ J r.1
  | [], p, hj, _, _ => ⟨(p, [], []), rfl, hj⟩
  | w :: ws, p, hj, hok, hst => by
    obtain ⟨⟨q, ops, info⟩, e⟩ := hok w (List.mem_cons_self ..) p hj
    have hjq := hst w (List.mem_cons_self ..) p q ops info hj e
    obtain ⟨r', e', hj'⟩ := windowsLoop_total J ws q hjq (fun w' hw' => hok w' (List.mem_cons_of_mem _ hw'))
      (fun w' hw' => hst w' (List.mem_cons_of_mem _ hw'))
    refine ⟨(r'.1, ops ++ r'.2.1, info :: r'.2.2), ?_, hj'⟩
    unfold Placer.reorderWindowsLoop
    rw [e]
    simp only []
    rw [e']

theorem reorderingOnRows_total {c : Circuit} {p : Placer} {rows : List Int} (m : Int) (hs : Sync c p) (hi : Inv p.pl)
    (ha : Lg.AllPlaced p.pl) (hn : rows.Nodup) (hr : ∀ x ∈ rows, p.pl.validRow x) :
    ∃ r, p.runReorderingOnRows rows m = .ok r := by
  unfold Placer.runReorderingOnRows
  have hok := reorderWindows_ok p.pl hi rows hn hr m
  let J : Placer → Prop := fun p' => Sync c p' ∧ Inv p'.pl ∧ p'.pl.rows = p.pl.rows ∧ p'.pl.nCells = p.pl.nCells ∧
    p'.pl.width = p.pl.width ∧ Lg.AllPlaced p'.pl
  have hwin : ∀ w ∈ reorderWindows (p.pl.rowCellsSorted rows) m, ∀ p', J p' →
      w.Nodup ∧ ∀ k ∈ w, p'.pl.validCell k ∧ p'.pl.row k ≠ -1 := by
    intro w hw p' hj
    obtain ⟨_, _, _, hn', hw', ha'⟩ := hj
    refine ⟨(hok w hw).1, ?_⟩
    intro k hk
    obtain ⟨v1, v2, _⟩ := (hok w hw).2 k hk
    have v1' : p'.pl.validCell k := by unfold validCell at v1 ⊢; rw [hn']; exact v1
    exact ⟨v1', ha' k v1' (by rw [hw']; have := hi.placed_width v1 v2; omega)⟩
  obtain ⟨r, e, _⟩ := windowsLoop_total J (reorderWindows (p.pl.rowCellsSorted rows) m) p ⟨hs, hi, rfl, rfl, rfl, ha⟩
    (fun w hw p' hj => placer_reorderWindow_total p' hj.1 hj.2.1 w (hwin w hw p' hj).1 (hwin w hw p' hj).2)
    (by
      intro w hw p' q ops info hj e'
      obtain ⟨hs', hi', hr', hn', hw', ha'⟩ := hj
      have hwok := windowOk_of_inv hi' (hwin w hw p' ⟨hs', hi', hr', hn', hw', ha'⟩).1 (hwin w hw p' ⟨hs', hi', hr', hn', hw', ha'⟩).2
      obtain ⟨k1, k2, k3, k4, k5, k6⟩ := window_keeps hs' hi' ha' hwok e'
      exact ⟨k1, k2, k3.trans hr', k4.trans hn', k5.trans hw', k6⟩)
  exact ⟨r, e⟩

theorem reorderRowsLoop_total {c : Circuit} (nbh : RowNbh) (m : Int) (R : List Row)
    (hnb : ∀ r : Int, 0 ≤ r ∧ r < R.length → (r :: nbh.rowsAbove r).Nodup ∧ ∀ j ∈ nbh.rowsAbove r, 0 ≤ j ∧ j < (R.length : Int)) :
    ∀ (rs : List Int) (p : Placer), Sync c p → Inv p.pl → Lg.AllPlaced p.pl → p.pl.rows = R →
      (∀ r ∈ rs, 0 ≤ r ∧ r < (R.length : Int)) → ∃ x, Placer.reorderRowsLoop nbh m p rs = .ok x
  | [], p, _, _, _, _, _ => ⟨(p, [], []), rfl⟩
  | r :: rs, p, hs, hi, ha, hR, hrs => by
    have hr := hrs r (List.mem_cons_self ..)
    obtain ⟨n1, n2⟩ := hnb r hr
    have hvalid : ∀ x ∈ r :: nbh.rowsAbove r, p.pl.validRow x := by
      intro x hx
      unfold validRow nRows; rw [hR]
      rcases List.mem_cons.1 hx with rfl | hx
      · exact hr
      · exact n2 x hx
    obtain ⟨y, ey⟩ := reorderingOnRows_total m hs hi ha n1 hvalid
    obtain ⟨g1, _, g3, g4, g5⟩ := reorderingOnRows_reaches hs hi ha n1 hvalid ey
    obtain ⟨z, ez⟩ := reorderRowsLoop_total nbh m R hnb rs y.1 g1.1 g3 g5 (g4.trans hR)
      (fun r' hr' => hrs r' (List.mem_cons_of_mem _ hr'))
    refine ⟨(z.1, y.2.1 ++ z.2.1, y.2.2 ++ z.2.2), ?_⟩
    unfold Placer.reorderRowsLoop
    rw [ey]
    simp only []
    rw [ez]

/-- **`runReordering` never fails** on an object in sync whose placement satisfies `Inv` with every optimised
cell placed — whatever `maxNbRows`, `maxNbCells`. -/
theorem runReordering_total {c : Circuit} (p : Placer) (a b : Int) (hs : Sync c p) (hi : Inv p.pl)
    (ha : Lg.AllPlaced p.pl) : ∃ r, p.runReordering a b = .ok r := by
  unfold Placer.runReordering
  split
  · exact ⟨_, rfl⟩
  · exact reorderRowsLoop_total (c := c) (RowNbh.ofRows p.pl.rows (a - 1)) b p.pl.rows
      (fun r hr => rowsAbove_ok p.pl.rows (a - 1) r hr) (State.intsUpTo p.pl.nRows) p hs hi ha rfl
      (by
        intro r hr
        unfold State.intsUpTo at hr
        obtain ⟨n, hn, rfl⟩ := List.mem_map.1 hr
        have := List.mem_range.1 hn
        unfold nRows at this
        exact ⟨Int.natCast_nonneg n, by show (n : Int) < _; omega⟩)

end ColoVerif.DetPlace
