import ColoVerif.Proofs.CheckedTransp1d
import ColoVerif.Proofs.F64
import ColoVerif.Model.Transp1dScale
/-
The positions `improveX/YTransport` feed to `Transportation1d` are within `2^56`: `factor ≤ 2^27`
(`1e8 / width ≤ 1e8 < 2^27` for `width ≥ 1`, both roundings monotone and exact on powers of two) and
`|target| ≤ 2^29`, so `|factor · target| ≤ 2^56`, which binary32 rounding and `std::round` preserve.
Hence the scaled instance lies in `T1dDom` (`2^56 ≤ 2^60 - 1`) and `assignC_eq` applies.
-/
namespace ColoVerif.Transp1d
open ColoVerif.F64

theorem f32'_mono {x y : Rat} (h : x ≤ y) : f32' x ≤ f32' y := fround_mono (by norm_num) h

theorem f32'_pow2 {k : Int} (hk : -149 ≤ k) : f32' ((2 : Rat) ^ k) = (2 : Rat) ^ k :=
  fround_pow2 (by norm_num) hk

theorem scaleFactor_bounds (width : Int) (hw : 1 ≤ width) :
    0 ≤ scaleFactor width ∧ scaleFactor width ≤ 134217728 := by
  have hwq : (1 : Rat) ≤ (width : Rat) := by exact_mod_cast hw
  have hpos : (0 : Rat) ≤ (100000000 : Rat) / (width : Rat) :=
    div_nonneg (by norm_num) (by linarith)
  have hle : (100000000 : Rat) / (width : Rat) ≤ (2 : Rat) ^ (27 : Int) := by
    rw [div_le_iff₀ (by linarith)]
    norm_num
    linarith
  unfold scaleFactor
  refine ⟨fround_nonneg (f64_nonneg hpos), ?_⟩
  have h1 := f64_mono hle
  rw [f64_pow2 (by norm_num)] at h1
  have h2 := f32'_mono h1
  rw [f32'_pow2 (by norm_num)] at h2
  have e : (2 : Rat) ^ (27 : Int) = 134217728 := by norm_num
  rw [e] at h2
  exact h2

/-- **Scaled positions are within `2^56`** for `width ≥ 1` and float coordinates within `2^29`. -/
theorem scalePos_bounds (width : Int) (hw : 1 ≤ width) (x : Rat) (hx : -536870912 ≤ x ∧ x ≤ 536870912) :
    -72057594037927936 ≤ scalePos (scaleFactor width) x ∧
      scalePos (scaleFactor width) x ≤ 72057594037927936 := by
  obtain ⟨f0, f1⟩ := scaleFactor_bounds width hw
  generalize scaleFactor width = f at *
  have e56 : (2 : Rat) ^ (56 : Int) = 72057594037927936 := by norm_num
  have hup : f * x ≤ (2 : Rat) ^ (56 : Int) := by
    rw [e56]
    by_cases hx0 : 0 ≤ x
    · nlinarith [hx.2]
    · nlinarith [hx.1]
  have hlo : -((2 : Rat) ^ (56 : Int)) ≤ f * x := by
    rw [e56]
    by_cases hx0 : 0 ≤ x
    · nlinarith [hx.2]
    · nlinarith [hx.1]
  have h1 := f32'_mono hup
  rw [f32'_pow2 (by norm_num), e56] at h1
  have h2 := f32'_mono hlo
  have e2 : f32' (-((2 : Rat) ^ (56 : Int))) = -((2 : Rat) ^ (56 : Int)) := by
    unfold f32'
    rw [fround_neg]
    exact congrArg Neg.neg (f32'_pow2 (by norm_num))
  rw [e2, e56] at h2
  unfold scalePos
  constructor
  · have := le_roundAway (q := f32' (f * x)) (n := -72057594037927936) (by push_cast; linarith)
    exact this
  · have := roundAway_le (q := f32' (f * x)) (n := 72057594037927936) (by push_cast; linarith)
    exact this

/-- **The instance `improveX/YTransport` build lies in `T1dDom`**: `width ≥ 1`, float targets and
bin centres within `2^29` (the C07 domain gives bin centres within `2^22` and, after
`checkFinitePlacement`, targets within `2^29`), one `int` demand per cell, at least one bin, fewer
than `2^31 - 1` cells and bins, non-negative demands and capacities with totals at most `2^61 - 1`
(e.g. at most `2^30` cells of `int` demand). -/
theorem scaledProblem_dom (width : Int) (hw : 1 ≤ width) (targets centres : List Rat)
    (demands caps : List Int)
    (ht : ∀ x ∈ targets, -536870912 ≤ x ∧ x ≤ 536870912)
    (hc : ∀ x ∈ centres, -536870912 ≤ x ∧ x ≤ 536870912)
    (hl1 : demands.length = targets.length) (hl2 : caps.length = centres.length)
    (hm : 0 < centres.length) (hn1 : targets.length < 2147483647) (hn2 : centres.length < 2147483647)
    (hs : ∀ x ∈ demands, 0 ≤ x) (hd : ∀ x ∈ caps, 0 ≤ x)
    (hss : demands.sum ≤ 2305843009213693951) (hds : caps.sum ≤ 2305843009213693951) :
    T1dDom (scaledProblem width targets centres demands caps) := by
  refine ⟨by simpa [scaledProblem] using hl1, by simpa [scaledProblem] using hl2,
    by simpa [scaledProblem] using hm, by simpa [scaledProblem] using hn1,
    by simpa [scaledProblem] using hn2, ?_, ?_, hs, hd, hss, hds⟩
  · intro y hy
    simp only [scaledProblem, List.mem_map] at hy
    obtain ⟨x, hx, rfl⟩ := hy
    have := scalePos_bounds width hw x (ht x hx)
    omega
  · intro y hy
    simp only [scaledProblem, List.mem_map] at hy
    obtain ⟨x, hx, rfl⟩ := hy
    have := scalePos_bounds width hw x (hc x hx)
    omega

/-- the scaled call never overflows and equals the unbounded model -/
theorem scaled_assignC_eq (width : Int) (hw : 1 ≤ width) (targets centres : List Rat)
    (demands caps : List Int)
    (ht : ∀ x ∈ targets, -536870912 ≤ x ∧ x ≤ 536870912)
    (hc : ∀ x ∈ centres, -536870912 ≤ x ∧ x ≤ 536870912)
    (hl1 : demands.length = targets.length) (hl2 : caps.length = centres.length)
    (hm : 0 < centres.length) (hn1 : targets.length < 2147483647) (hn2 : centres.length < 2147483647)
    (hs : ∀ x ∈ demands, 0 ≤ x) (hd : ∀ x ∈ caps, 0 ≤ x)
    (hss : demands.sum ≤ 2305843009213693951) (hds : caps.sum ≤ 2305843009213693951) :
    balanceThenAssignC (scaledProblem width targets centres demands caps)
      = .ok (balanceThenAssign (scaledProblem width targets centres demands caps)) :=
  assignC_eq _ (scaledProblem_dom width hw targets centres demands caps ht hc hl1 hl2 hm hn1 hn2 hs hd hss hds)

/-- `n` supplies of type `int`: the total is below `n · 2^31` -/
theorem sum_le_of_int (l : List Int) (h : ∀ x ∈ l, x ≤ 2147483647) : l.sum ≤ l.length * 2147483647 := by
  induction l with
  | nil => simp
  | cons x xs ih =>
    have h1 := h x (List.mem_cons_self ..)
    have h2 := ih (fun y hy => h y (List.mem_cons_of_mem _ hy))
    simp only [List.sum_cons, List.length_cons]
    push_cast
    omega

end ColoVerif.Transp1d
