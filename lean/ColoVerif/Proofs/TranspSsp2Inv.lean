/-
C13: the global invariant of the successive-shortest-path solver (`Good`): shapes, flow conservation,
non-negativity, lazy-queue invariant of the full sinks, dual potentials with non-negative reduced costs
(`Pot`), and — while some sink still has free capacity — the shortest-path tree (`TreeOK`):
`sendingCost_` is such a potential, tree edges are tight, `sinkParent_` is acyclic with roots = free sinks.
-/
import ColoVerif.Proofs.TranspSsp2Walk
import ColoVerif.Proofs.TranspSsp2Tree

namespace ColoVerif.Transp

/-- bound on the labels: `3·Wmax = 2·intMax − 2` -/
def Wmax : Int := 1431655764

/-- `3·|cost| < intMax`: no sum `sendingCost_ + cost` formed by the solver can reach the sentinel
`INT_MAX` (the fixed-point scaling `costsFromIntegers` yields `|cost| ≤ INT_MAX/(4·nbSinks)`) -/
def CostBound (p : Problem) : Prop :=
  ∀ i j, i < p.nbSinks → j < p.nbSources → 3 * p.cost i j < intMax ∧ -intMax < 3 * p.cost i j

/-- dual potentials `d` on the sinks: non-negative, zero on sinks with free capacity, and every source
sits only in sinks that are cheapest for it w.r.t. `cost + d` (complementary slackness) -/
structure Pot (p : Problem) (alloc : Mat) (remCapa : List Int) (d : Nat → Int) : Prop where
  nn : ∀ i, i < p.nbSinks → 0 ≤ d i
  free : ∀ i, i < p.nbSinks → remCapa.getD i 0 > 0 → d i = 0
  red : ∀ i j k, i < p.nbSinks → j < p.nbSources → k < p.nbSinks → 0 < get2 alloc i j →
    p.cost i j + d i ≤ p.cost k j + d k

structure Shape (p : Problem) (alloc : Mat) (qs : Queues) (remCapa : List Int) : Prop where
  rows : ∀ i, i < p.nbSinks → (alloc.getD i []).length = p.nbSources
  qsize : qs.size = p.nbSinks
  rlen : remCapa.length = p.nbSinks

/-- the shortest-path tree part of the invariant -/
structure TreeOK (p : Problem) (alloc : Mat) (qs : Queues) (remCapa : List Int) (sendCost : List Int)
    (parent : List (Option Nat)) : Prop where
  pot : Pot p alloc remCapa (fun i => sendCost.getD i 0)
  le : ∀ i, i < p.nbSinks → sendCost.getD i 0 ≤ Wmax
  root : ∀ i, i < p.nbSinks → parent.getD i none = none → remCapa.getD i 0 > 0
  edge : ∀ i k, i < p.nbSinks → parent.getD i none = some k →
    remCapa.getD i 0 = 0 ∧ k < p.nbSinks ∧ k ≠ i ∧
    sendCost.getD i 0 = (hget (qget qs i k) 0).cost + sendCost.getD k 0
  depth : ∀ i, i < p.nbSinks → ∃ k, k < p.nbSinks ∧ depthIs parent k i

/-- everything about allocations / queues / remaining capacities (no tree) -/
structure Mid (p : Problem) (alloc : Mat) (qs : Queues) (remCapa : List Int) : Prop where
  shape : Shape p alloc qs remCapa
  nn : ∀ i j, 0 ≤ get2 alloc i j
  qrow : ∀ i, i < p.nbSinks → remCapa.getD i 0 = 0 → QRow p alloc qs i
  rnn : ∀ i, 0 ≤ remCapa.getD i 0
  row : ∀ i, rowSum alloc p.nbSources i + remCapa.getD i 0 = p.capacity i

structure Good (p : Problem) (s : St) (sent : Nat → Int) : Prop where
  mid : Mid p s.alloc s.queues s.remCapa
  col : ∀ j, colSum s.alloc p.nbSinks j = sent j
  pot : ∃ d, Pot p s.alloc s.remCapa d
  tree : (∃ f, f < p.nbSinks ∧ s.remCapa.getD f 0 > 0) →
    TreeOK p s.alloc s.queues s.remCapa s.sendCost s.parent

lemma Good.inv {p : Problem} {s : St} {sent : Nat → Int} (h : Good p s sent) : Inv p s sent :=
  ⟨h.col, h.mid.row, h.mid.rnn⟩

/-! ### `bestSink` -/

lemma bestSinkFrom_inv (p : Problem) (sc : List Int) (src : Nat) : ∀ (k i ret : Nat) (bc : Int),
    ((bc = intMax ∧ ∀ i', i' < i → intMax ≤ sc.getD i' 0 + p.cost i' src) ∨
      (ret < i ∧ bc = sc.getD ret 0 + p.cost ret src ∧ ∀ i', i' < i → bc ≤ sc.getD i' 0 + p.cost i' src)) →
    ((∀ i', i' < i + k → intMax ≤ sc.getD i' 0 + p.cost i' src) ∨
      (bestSinkFrom p sc src k i ret bc < i + k ∧
        ∀ i', i' < i + k → sc.getD (bestSinkFrom p sc src k i ret bc) 0 + p.cost (bestSinkFrom p sc src k i ret bc) src
          ≤ sc.getD i' 0 + p.cost i' src)) := by
  intro k
  induction k with
  | zero =>
    intro i ret bc h
    rcases h with ⟨_, h⟩ | ⟨h1, h2, h3⟩
    · left; simpa using h
    · right; simp only [bestSinkFrom, Nat.add_zero]; exact ⟨h1, fun i' hi' => h2 ▸ h3 i' hi'⟩
  | succ k ih =>
    intro i ret bc h
    unfold bestSinkFrom
    have e : i + (k + 1) = i + 1 + k := by omega
    rw [e]
    split
    · rename_i hlt
      apply ih (i + 1) i _
      right
      refine ⟨by omega, rfl, fun i' hi' => ?_⟩
      rcases Nat.lt_succ_iff_lt_or_eq.mp hi' with hl | he
      · rcases h with ⟨h1, h2⟩ | ⟨_, _, h3⟩
        · have := h2 i' hl; omega
        · have := h3 i' hl; omega
      · rw [he]
    · rename_i hge
      apply ih (i + 1) ret bc
      rcases h with ⟨h1, h2⟩ | ⟨h1, h2, h3⟩
      · left
        refine ⟨h1, fun i' hi' => ?_⟩
        rcases Nat.lt_succ_iff_lt_or_eq.mp hi' with hl | he
        · exact h2 i' hl
        · rw [he]; omega
      · right
        refine ⟨by omega, h2, fun i' hi' => ?_⟩
        rcases Nat.lt_succ_iff_lt_or_eq.mp hi' with hl | he
        · exact h3 i' hl
        · rw [he]; omega

/-- `bestSink(src)` is a valid sink minimising `sendingCost_ + cost`, when no such sum reaches `INT_MAX` -/
lemma bestSink_spec (p : Problem) (sc : List Int) (src : Nat) (hn : 0 < p.nbSinks)
    (hlt : ∀ i, i < p.nbSinks → sc.getD i 0 + p.cost i src < intMax) :
    bestSink p sc src < p.nbSinks ∧
    ∀ k, k < p.nbSinks → p.cost (bestSink p sc src) src + sc.getD (bestSink p sc src) 0 ≤ p.cost k src + sc.getD k 0 := by
  have := bestSinkFrom_inv p sc src p.nbSinks 0 0 intMax (Or.inl ⟨rfl, fun i' hi' => by omega⟩)
  rw [Nat.zero_add] at this
  rcases this with h | ⟨h1, h2⟩
  · have := h 0 hn; have := hlt 0 hn; omega
  · exact ⟨h1, fun k hk => by have := h2 k hk; unfold bestSink; omega⟩

/-! ### arithmetic of the bounds -/

lemma Wmax_lt : Wmax < intMax := by unfold Wmax intMax; omega
lemma Wmax_nn : 0 ≤ Wmax := by unfold Wmax; omega

lemma CostBound.diff {p : Problem} (h : CostBound p) (i k j : Nat) (hi : i < p.nbSinks) (hk : k < p.nbSinks)
    (hj : j < p.nbSources) : p.cost k j - p.cost i j ≤ Wmax := by
  have h1 := h i j hi hj
  have h2 := h k j hk hj
  unfold Wmax; unfold intMax at h1 h2; omega

lemma CostBound.sum {p : Problem} (h : CostBound p) (i j : Nat) (hi : i < p.nbSinks) (hj : j < p.nbSources)
    (x : Int) (hx : x ≤ Wmax) : x + p.cost i j < intMax := by
  have h1 := h i j hi hj
  unfold Wmax at hx; unfold intMax at h1 ⊢; omega

end ColoVerif.Transp
