import ColoVerif.Proofs.GridGroup
import ColoVerif.Proofs.Freespace
/-
C16 — the regions `DensityGrid::fromIspdCircuit` hands to the grid constructor, for a circuit whose
rows are in the C01 domain shape: valid rectangles, pairwise disjoint, inside the grid limits.
Hence `capacity_conserved` / `grid_tiles_and_conserves` apply without side conditions, and the
capacity of a bin is the number of unit squares of the bin covered by a (clipped) free segment.
-/
namespace ColoVerif.Grid
open ColoVerif ColoVerif.Freespace

/-! ### vocabulary -/

/-- two rectangles with disjoint interiors (`Rectangle::intersects` is false), spelled out -/
def Disj (a b : Rect) : Prop :=
  a.maxX ≤ b.minX ∨ b.maxX ≤ a.minX ∨ a.maxY ≤ b.minY ∨ b.maxY ≤ a.minY

theorem disj_iff_intersects (a b : Rect) : Disj a b ↔ a.intersects b = false := by
  simp only [Disj, Rect.intersects, Bool.and_eq_false_iff, decide_eq_false_iff_not, Int.not_lt]
  omega

/-- the unit square `[x, x+1) × [y, y+1)` lies in `r` -/
def InCell (r : Rect) (x y : Int) : Prop := r.minX ≤ x ∧ x < r.maxX ∧ r.minY ≤ y ∧ y < r.maxY

instance (r : Rect) (x y : Int) : Decidable (InCell r x y) := inferInstanceAs (Decidable (_ ∧ _ ∧ _ ∧ _))

/-- number of unit squares of `b` that lie in some region: the free area inside `b` -/
def coveredArea (regions : List Rect) (b : Rect) : Int :=
  ((List.range (b.maxX - b.minX).toNat).map fun k : Nat =>
    ((List.range (b.maxY - b.minY).toNat).map fun l : Nat =>
      if regions.any (fun r => decide (InCell r (b.minX + k) (b.minY + l))) then (1 : Int) else 0).sum).sum

/-! ### rows -/

theorem rowHeight_pos (c : Circuit) (h : 0 < (Circuit.rowHeight c).getD 0) :
    c.rows ≠ [] ∧ ∀ r ∈ c.rows, r.rect.minY < r.rect.maxY := by
  unfold Circuit.rowHeight at h
  cases hr : c.rows with
  | nil => rw [hr] at h; simp at h
  | cons r rs =>
    rw [hr] at h
    simp only at h
    split at h
    · rename_i hall
      simp only [Option.getD_some] at h
      refine ⟨by simp, ?_⟩
      intro r' hr'
      rcases List.mem_cons.mp hr' with e | e
      · subst e; simp only [Rect.height] at h; omega
      · have := List.all_eq_true.mp hall r' e
        simp only [beq_iff_eq, Rect.height] at this
        simp only [Rect.height] at h
        omega
    · simp at h

theorem foldl_min_le (xs : List Int) : ∀ x, xs.foldl min x ≤ x := by
  induction xs with
  | nil => intro x; exact Int.le_refl _
  | cons y ys ih => intro x; simp only [List.foldl_cons]; have := ih (min x y); omega

theorem le_foldl_max (xs : List Int) : ∀ x, x ≤ xs.foldl max x := by
  induction xs with
  | nil => intro x; exact Int.le_refl _
  | cons y ys ih => intro x; simp only [List.foldl_cons]; have := ih (max x y); omega

theorem placementArea_valid (c : Circuit) (hne : c.rows ≠ [])
    (hx : ∀ r ∈ c.rows, r.rect.minX < r.rect.maxX) (hy : ∀ r ∈ c.rows, r.rect.minY < r.rect.maxY) :
    RectValid c.placementArea := by
  unfold Circuit.placementArea
  cases hr : c.rows with
  | nil => exact absurd hr hne
  | cons r rs =>
    have h1 := hx r (by rw [hr]; simp)
    have h2 := hy r (by rw [hr]; simp)
    simp only [RectValid, List.map_cons, Circuit.lmin, Circuit.lmax]
    have a1 := foldl_min_le (rs.map (·.rect.minX)) r.rect.minX
    have a2 := le_foldl_max (rs.map (·.rect.maxX)) r.rect.maxX
    have a3 := foldl_min_le (rs.map (·.rect.minY)) r.rect.minY
    have a4 := le_foldl_max (rs.map (·.rect.maxY)) r.rect.maxY
    omega

/-! ### free segments of `computeRows` -/

/-- a free segment lies in its row, has a non-empty x-range and the row's y-range -/
theorem computeRows_inside (c : Circuit) (hx : ∀ r ∈ c.rows, r.rect.minX < r.rect.maxX) (s : Row)
    (hs : s ∈ c.computeRows) :
    ∃ r ∈ c.rows, r.rect.minX ≤ s.rect.minX ∧ s.rect.minX < s.rect.maxX ∧ s.rect.maxX ≤ r.rect.maxX ∧
      s.rect.minY = r.rect.minY ∧ s.rect.maxY = r.rect.maxY ∧ r.rect.minY < r.rect.maxY := by
  simp only [Circuit.computeRows, List.mem_flatMap] at hs
  obtain ⟨r, hr, hsr⟩ := hs
  obtain ⟨iv, hiv, rfl⟩ := (Row.mem_freespace r _ s).mp hsr
  obtain ⟨h0, h1, h2, h3⟩ := freeIntervals_inside r.rect _ iv hiv
  have := hx r hr
  simp only [lo, hi] at h1 h3
  exact ⟨r, hr, by simp only; omega, h2, by simp only; omega, rfl, rfl, h0⟩

/-- the free segments are pairwise disjoint: strictly separated inside a row, and rows do not meet -/
theorem computeRows_disjoint (c : Circuit)
    (hp : c.rows.Pairwise (fun r s => r.rect.intersects s.rect = false))
    (hx : ∀ r ∈ c.rows, r.rect.minX < r.rect.maxX) :
    c.computeRows.Pairwise (fun a b => Disj a.rect b.rect) := by
  unfold Circuit.computeRows
  rw [List.pairwise_flatMap]
  refine ⟨?_, ?_⟩
  · intro r _
    simp only [Row.freespace]
    rw [List.pairwise_map]
    refine (freeIntervals_pairwise r.rect _).imp ?_
    intro p q hpq
    simp only [Disj]
    omega
  · have hp' : c.rows.Pairwise (fun r s => r ∈ c.rows ∧ s ∈ c.rows ∧ r.rect.intersects s.rect = false) := by
      rw [List.pairwise_iff_forall_sublist] at hp ⊢
      intro a b hab
      exact ⟨hab.subset (by simp), hab.subset (by simp), hp hab⟩
    refine hp'.imp ?_
    intro r1 r2 ⟨hr1, hr2, hint⟩ a ha b hb
    obtain ⟨iv1, hiv1, rfl⟩ := (Row.mem_freespace r1 _ a).mp ha
    obtain ⟨iv2, hiv2, rfl⟩ := (Row.mem_freespace r2 _ b).mp hb
    obtain ⟨_, a1, a2, a3⟩ := freeIntervals_inside r1.rect _ iv1 hiv1
    obtain ⟨_, b1, b2, b3⟩ := freeIntervals_inside r2.rect _ iv2 hiv2
    have x1 := hx r1 hr1
    have x2 := hx r2 hr2
    have hd := (disj_iff_intersects r1.rect r2.rect).mpr hint
    simp only [lo, hi] at a1 a3 b1 b3
    simp only [Disj] at hd ⊢
    omega

/-! ### clipping by the margin -/

theorem mem_clippedRows (rows : List Row) (m : Int) (q : Rect) :
    q ∈ clippedRows rows m ↔ ∃ s ∈ rows, 2 * m < s.rect.width ∧
      q = ⟨s.rect.minX + m, s.rect.maxX - m, s.rect.minY, s.rect.maxY⟩ := by
  simp only [clippedRows, List.mem_filterMap]
  constructor
  · rintro ⟨s, hs, h⟩
    split at h
    · simp at h
    · rename_i hw
      exact ⟨s, hs, by omega, by simpa using h.symm⟩
  · rintro ⟨s, hs, hw, rfl⟩
    exact ⟨s, hs, by rw [if_neg (by omega)]⟩

theorem clippedRows_disjoint (rows : List Row) (m : Int) (hm : 0 ≤ m)
    (hp : rows.Pairwise (fun a b => Disj a.rect b.rect)) : (clippedRows rows m).Pairwise Disj := by
  unfold clippedRows
  refine List.Pairwise.filterMap _ ?_ hp
  intro a a' hd b hb b' hb'
  split at hb
  · simp at hb
  · split at hb'
    · simp at hb'
    · simp only [Option.some.injEq] at hb hb'
      subst hb; subst hb'
      simp only [Disj] at hd ⊢
      omega

/-! ### the regions of `fromIspdCircuit` -/

/-- For rows in the C01 domain shape and a non-negative margin the regions of `fromIspdCircuit` (clipped free
segments, with the two fallbacks of the code) are a non-empty list of valid, pairwise disjoint rectangles. -/
theorem ispdRegions_ok (c : Circuit) (m : Int) (hd : RowsDom c) (hm : 0 ≤ m) :
    ispdRegions c m ≠ [] ∧ (∀ r ∈ ispdRegions c m, RectValid r) ∧ (ispdRegions c m).Pairwise Disj := by
  obtain ⟨hh, hp, hx⟩ := hd
  obtain ⟨hne, hy⟩ := rowHeight_pos c hh
  have hdis := computeRows_disjoint c hp hx
  unfold ispdRegions
  by_cases h1 : (clippedRows c.computeRows m).isEmpty = true
  · rw [if_pos h1]
    by_cases h2 : c.computeRows.isEmpty = true
    · rw [if_pos h2]
      have h3 : c.rows.isEmpty = false := by
        cases hr : c.rows with
        | nil => exact absurd hr hne
        | cons _ _ => rfl
      rw [h3]
      simp only [Bool.false_eq_true, if_false]
      refine ⟨by simp, ?_, by simp⟩
      intro r hr
      rw [List.mem_singleton] at hr
      subst hr
      exact placementArea_valid c hne hx hy
    · rw [if_neg h2]
      refine ⟨?_, ?_, ?_⟩
      · intro e
        apply h2
        cases hc : c.computeRows with
        | nil => rfl
        | cons _ _ => rw [hc] at e; simp at e
      · intro r hr
        obtain ⟨s, hs, rfl⟩ := List.mem_map.mp hr
        obtain ⟨r0, _, a1, a2, a3, a4, a5, a6⟩ := computeRows_inside c hx s hs
        simp only [RectValid]
        omega
      · rw [List.pairwise_map]
        exact hdis
  · rw [if_neg h1]
    refine ⟨?_, ?_, clippedRows_disjoint _ m hm hdis⟩
    · intro e
      apply h1
      rw [e]
      rfl
    · intro q hq
      obtain ⟨s, hs, hw, rfl⟩ := (mem_clippedRows _ m q).mp hq
      obtain ⟨r0, _, a1, a2, a3, a4, a5, a6⟩ := computeRows_inside c hx s hs
      simp only [RectValid, Rect.width] at hw ⊢
      omega

/-- in the main case (some free segment is wider than twice the margin) the regions are the clipped free segments -/
theorem ispdRegions_main (c : Circuit) (m : Int) (h : clippedRows c.computeRows m ≠ []) :
    ispdRegions c m = clippedRows c.computeRows m := by
  unfold ispdRegions
  rw [if_neg]
  intro e
  apply h
  cases hc : clippedRows c.computeRows m with
  | nil => rfl
  | cons _ _ => rw [hc] at e; simp at e

/-! ### the margin is non-negative for a non-negative `sideMargin` -/

theorem minCellHeight_pos (c : Circuit) : 0 < minCellHeight c := by
  unfold minCellHeight
  have : ∀ (l : List Cell) (m : Int), 0 < m →
      0 < l.foldl (fun m cl => if cl.h > 0 then min cl.h m else m) m := by
    intro l
    induction l with
    | nil => intro m hm; exact hm
    | cons cl rest ih =>
      intro m hm
      simp only [List.foldl_cons]
      apply ih
      split <;> omega
  exact this _ _ (by decide)

theorem floatMulTrunc_nonneg (mant e h : Int) (hm : 0 ≤ mant) (hh : 0 ≤ h) : 0 ≤ floatMulTrunc mant e h := by
  unfold floatMulTrunc
  have hp : ¬ mant * h < 0 := by have := Int.mul_nonneg hm hh; omega
  simp only [hp, if_false]
  have hnum : (0 : Int) ≤ ((round24 (mant * h).natAbs).1 : Int) * 2 ^ (round24 (mant * h).natAbs).2 :=
    Int.mul_nonneg (Int.natCast_nonneg _) (Int.le_of_lt (Int.pow_pos (by decide)))
  split
  · exact Int.mul_nonneg hnum (Int.le_of_lt (Int.pow_pos (by decide)))
  · exact Int.tdiv_nonneg hnum (Int.le_of_lt (Int.pow_pos (by decide)))

/-! ### capacity of a bin of a constructed grid -/

theorem ofRegions_binCapacity (binSize : Int) (regions : List Rect) (i j : Nat)
    (hi : i < (DGrid.ofRegions binSize regions).nbX) (hj : j < (DGrid.ofRegions binSize regions).nbY) :
    (DGrid.ofRegions binSize regions).binCapacity i j =
      binCapOf (DGrid.ofRegions binSize regions).limX (DGrid.ofRegions binSize regions).limY regions i j := by
  simp only [DGrid.ofRegions, DGrid.nbX, DGrid.nbY] at hi hj ⊢
  simp only [DGrid.binCapacity, capacities, List.getD_eq_getElem?_getD, List.getElem?_map, List.getElem?_range hi,
    List.getElem?_range hj, Option.map_some, Option.getD_some]

theorem headD_of_head? (l : List Int) (a : Int) (h : l.head? = some a) : l.headD 0 = a := by
  cases l with
  | nil => simp at h
  | cons x xs => simp at h; simp [h]

theorem getLastD_of_getLast? (l : List Int) (a : Int) (h : l.getLast? = some a) : l.getLastD 0 = a := by
  rw [List.getLastD_eq_getLast?, h]; rfl

/-! ### overlap as a count of unit squares -/

/-- 1-D: the length of `[a, b) ∩ [lo, lo + n)` counts the integers of `[lo, lo + n)` that lie in `[a, b)` -/
theorem ov1_count (a b lo : Int) (n : Nat) :
    ov1 a b lo (lo + n) = ((List.range n).map fun k : Nat => if a ≤ lo + k ∧ lo + k < b then (1 : Int) else 0).sum := by
  induction n with
  | zero => simp only [ov1, List.range_zero, List.map_nil, List.sum_nil]; omega
  | succ n ih =>
    rw [List.range_succ, List.map_append, List.sum_append, ← ih]
    simp only [List.map_cons, List.map_nil, List.sum_cons, List.sum_nil, ov1]
    split <;> omega

theorem overlap_eq_ov1 (r b : Rect) :
    overlap r b = ov1 r.minX r.maxX b.minX b.maxX * ov1 r.minY r.maxY b.minY b.maxY := rfl

theorem ind_mul (p q : Prop) [Decidable p] [Decidable q] :
    (if p then (1 : Int) else 0) * (if q then (1 : Int) else 0) = if p ∧ q then 1 else 0 := by
  by_cases hp : p <;> by_cases hq : q <;> simp [hp, hq]

/-- the area of `r ∩ b` is the number of unit squares of `b` that lie in `r` -/
theorem overlap_count (r b : Rect) (hb : RectValid b) :
    overlap r b =
      ((List.range (b.maxX - b.minX).toNat).map fun k : Nat =>
        ((List.range (b.maxY - b.minY).toNat).map fun l : Nat =>
          if InCell r (b.minX + k) (b.minY + l) then (1 : Int) else 0).sum).sum := by
  obtain ⟨hbx, hby⟩ := hb
  have ex : b.maxX = b.minX + ((b.maxX - b.minX).toNat : Int) := by omega
  have ey : b.maxY = b.minY + ((b.maxY - b.minY).toNat : Int) := by omega
  rw [overlap_eq_ov1]
  conv => lhs; rw [ex, ey]
  rw [ov1_count, ov1_count, ← sum_mul_sum]
  congr 1
  apply List.map_congr_left
  intro k _
  congr 1
  apply List.map_congr_left
  intro l _
  rw [ind_mul]
  simp only [InCell]
  congr 1
  apply propext
  constructor
  · rintro ⟨⟨h1, h2⟩, h3, h4⟩; exact ⟨h1, h2, h3, h4⟩
  · rintro ⟨h1, h2, h3, h4⟩; exact ⟨⟨h1, h2⟩, h3, h4⟩

/-- among pairwise disjoint rectangles at most one contains a given unit square -/
theorem sum_inCell_disjoint (R : List Rect) (hp : R.Pairwise Disj) (x y : Int) :
    (R.map fun r => if InCell r x y then (1 : Int) else 0).sum =
      if R.any (fun r => decide (InCell r x y)) then 1 else 0 := by
  induction R with
  | nil => simp
  | cons r rs ih =>
    obtain ⟨h1, h2⟩ := List.pairwise_cons.mp hp
    rw [List.map_cons, List.sum_cons, ih h2, List.any_cons]
    by_cases hr : InCell r x y
    · have : rs.any (fun r => decide (InCell r x y)) = false := by
        rw [List.any_eq_false]
        intro r' hr' hc
        have hc' : InCell r' x y := by simpa using hc
        have hd := h1 r' hr'
        simp only [Disj] at hd
        simp only [InCell] at hr hc'
        omega
      simp [hr, this]
    · simp [hr]

/-- For valid, pairwise disjoint regions the sum over the regions of area(region ∩ bin) is the number of unit
squares of the bin covered by a region. -/
theorem sum_overlap_eq_covered (R : List Rect) (hp : R.Pairwise Disj) (b : Rect) (hb : RectValid b) :
    (R.map fun r => overlap r b).sum = coveredArea R b := by
  unfold coveredArea
  have : (R.map fun r => overlap r b) = R.map fun r =>
      ((List.range (b.maxX - b.minX).toNat).map fun k : Nat =>
        ((List.range (b.maxY - b.minY).toNat).map fun l : Nat =>
          if InCell r (b.minX + k) (b.minY + l) then (1 : Int) else 0).sum).sum :=
    List.map_congr_left (fun r _ => overlap_count r b hb)
  rw [this, ← sum3_swap (fun r (k l : Nat) => if InCell r (b.minX + k) (b.minY + l) then (1 : Int) else 0)]
  congr 1
  apply List.map_congr_left
  intro k _
  congr 1
  apply List.map_congr_left
  intro l _
  exact sum_inCell_disjoint R hp _ _

/-- the bins of a grid with monotone limits are valid rectangles -/
theorem regionOf_valid (limX limY : List Int) (hX : limX.Pairwise (· ≤ ·)) (hY : limY.Pairwise (· ≤ ·)) (i j : Nat)
    (hi : i + 1 < limX.length) (hj : j + 1 < limY.length) : RectValid (regionOf limX limY i j) :=
  ⟨pairwise_getD_le limX hX i hi, pairwise_getD_le limY hY j hj⟩

end ColoVerif.Grid
