import ColoVerif.Proofs.Transp1dOptLib
/-
When the `while` loop of `push i` ends, the loop invariant yields the recorded facts about source
`i` (`FactsTop`) and the between-pushes invariant for the next source.
-/
namespace ColoVerif.Transp1d

/-! ### the instance: strictly increasing prefix sums -/

theorem exit_getD_pos (l : List Int) (h : ∀ w ∈ l, 0 < w) (i : Nat) (hi : i < l.length) :
    0 < l.getD i 0 := by
  simp only [List.getD_eq_getElem?_getD, List.getElem?_eq_getElem hi, Option.getD_some]
  exact h _ (List.getElem_mem hi)

theorem exit_D_zero {sv : Solver} (sd : SwDom sv) : sv.D.getD 0 0 = 0 := by
  rw [sd.si.eD]; exact prefixFrom_zero 0 _

theorem exit_D_step {sv : Solver} (sd : SwDom sv) (t : Nat) (ht : t < sv.v.length) :
    sv.D.getD t 0 < sv.D.getD (t + 1) 0 := by
  have h := prefixFrom_succ 0 sv.d t (by rw [sd.si.wf.hd]; exact ht)
  rw [← sd.si.eD] at h
  have := exit_getD_pos sv.d sd.dpos t (by rw [sd.si.wf.hd]; exact ht)
  omega

theorem exit_S_zero {sv : Solver} (sd : SwDom sv) : sv.S.getD 0 0 = 0 := by
  rw [sd.si.eS]; exact prefixFrom_zero 0 _

theorem exit_S_step {sv : Solver} (sd : SwDom sv) (k : Nat) (hk : k < sv.u.length) :
    sv.S.getD k 0 < sv.S.getD (k + 1) 0 := by
  have h := prefixFrom_succ 0 sv.s k (by rw [sd.si.wf.hs]; exact hk)
  rw [← sd.si.eS] at h
  have := exit_getD_pos sv.s sd.spos k (by rw [sd.si.wf.hs]; exact hk)
  omega

theorem exit_S_nn {sv : Solver} (sd : SwDom sv) (k : Nat) (hk : k ≤ sv.u.length) :
    0 ≤ sv.S.getD k 0 := by
  have := sd.dom.Smono 0 k (Nat.zero_le _) hk
  rw [exit_S_zero sd] at this
  exact this

/-! ### `sigL` -/

theorem exit_cntLt_mono (D : List Int) (y y' : Int) (h : y ≤ y') (t : Nat) :
    cntLt D y t ≤ cntLt D y' t := by
  induction t with
  | zero => exact Nat.le_refl _
  | succ t ih =>
    simp only [cntLt]
    by_cases h1 : D.getD (t + 1) 0 < y
    · have h2 : D.getD (t + 1) 0 < y' := by omega
      rw [if_pos h1, if_pos h2]; omega
    · rw [if_neg h1]
      split <;> omega

theorem exit_sigL_mono (sv : Solver) (y y' : Int) (h : y ≤ y') : sigL sv y ≤ sigL sv y' :=
  exit_cntLt_mono sv.D y y' h sv.v.length

/-- a point in `(D 0, D b]` lies in a sink before `b` -/
theorem exit_sigL_lt (sv : Solver)
    (Dmono : ∀ a b, a ≤ b → b ≤ sv.v.length → sv.D.getD a 0 ≤ sv.D.getD b 0)
    (y : Int) (b : Nat) (hb : b ≤ sv.v.length) (h0 : sv.D.getD 0 0 < y) (h1 : y ≤ sv.D.getD b 0) :
    sigL sv y < b := by
  have hm := Dmono b sv.v.length hb (Nat.le_refl _)
  have sp := sigL_spec sv Dmono y h0 (by omega)
  by_cases hlt : sigL sv y < b
  · exact hlt
  · have := Dmono b (sigL sv y) (by omega) (by omega)
    omega

/-! ### recorded facts -/

theorem exit_facts_nn (sv : Solver) (l : List Int) (hf : Facts sv l) : ∀ x ∈ l, 0 ≤ x := by
  induction l with
  | nil => intro x hx; cases hx
  | cons p rest ih =>
    intro x hx
    rcases List.mem_cons.mp hx with h | h
    · rw [h]; exact hf.1.nn
    · exact ih hf.2 x h

theorem exit_lamU_nn (sv : Solver) (l : List Int) (hf : Facts sv l) (x : Int) (hx : 0 < x) :
    0 ≤ lamU sv l x := by
  cases l with
  | nil => simp only [lamU]; exact Int.le_refl _
  | cons p rest =>
    by_cases h : x ≤ p
    · exact hf.1.f1 x hx h
    · simp only [lamU, if_neg h]; exact Int.le_refl _

/-! ### the four optimality facts of source `i` at the exit of the loop -/

theorem exit_nov (sv : Solver) (i : Nat) (st : St) (hc : ¬ Overflow sv i st) :
    sv.S.getD (i + 1) 0 + st.lastPosition ≤ sv.D.getD (st.lastOcc + 1) 0 := by
  unfold Overflow at hc
  omega

theorem exit_f1 (sv : Solver) (sd : SwDom sv) (i : Nat) (st : St) (inv : LoopInv sv i st)
    (hc : ¬ Overflow sv i st) (x : Int) (hx : 0 < x) (hxL : x ≤ st.lastPosition) :
    0 ≤ tL sv i x + lamU sv st.pRev x := by
  have nov := exit_nov sv i st hc
  have hD0 := exit_D_zero sd
  have hS0 := exit_S_nn sd i (Nat.le_of_lt inv.ilt)
  have hSs := exit_S_step sd i inv.ilt
  have hiev := inv.iev x hx hxL
  have htJ : sigL sv (sv.S.getD (i + 1) 0 + x) < st.lastOcc + 1 :=
    exit_sigL_lt sv sd.dom.Dmono _ (st.lastOcc + 1) inv.occ (by omega) (by omega)
  unfold tL
  by_cases hot : st.optSink ≤ sigL sv (sv.S.getD (i + 1) 0 + x)
  · have := inv.decU _ hot (by omega) x hx hxL
    omega
  · have hst : sigL sv (sv.S.getD i 0 + x) ≤ sigL sv (sv.S.getD (i + 1) 0 + x) :=
      exit_sigL_mono sv _ _ (by omega)
    have := inv.opt.left i (Nat.le_refl _) inv.ilt _ _ hst (by omega)
    have := exit_lamU_nn sv st.pRev inv.facts x hx
    omega

theorem exit_f2 (sv : Solver) (sd : SwDom sv) (i : Nat) (st : St) (inv : LoopInv sv i st)
    (x : Int) (hx : 0 < x) (hxL : x ≤ st.lastPosition)
    (hh : ∀ y, st.pRev.head? = some y → y < x) (t : Nat)
    (ht : t < sigL sv (sv.S.getD i 0 + x)) :
    cs sv i (sigL sv (sv.S.getD i 0 + x)) ≤ cs sv i t := by
  have hD0 := exit_D_zero sd
  have hS0 := exit_S_nn sd i (Nat.le_of_lt inv.ilt)
  have hlof := inv.lof x hx hxL hh
  have hso : sigL sv (sv.S.getD i 0 + x) < st.optSink :=
    exit_sigL_lt sv sd.dom.Dmono _ st.optSink (Nat.le_of_lt inv.opt.lt) (by omega) hlof
  exact inv.opt.left i (Nat.le_refl _) inv.ilt t _ (Nat.le_of_lt ht) (Nat.le_of_lt hso)

/-- the sink (taken on the right) of the end of source `i` is `J` or `J + 1` -/
theorem exit_sigR_hi (sv : Solver) (sd : SwDom sv) (i : Nat) (st : St) (inv : LoopInv sv i st)
    (hc : ¬ Overflow sv i st)
    (hfit : sv.S.getD (i + 1) 0 + st.lastPosition < sv.D.getD sv.v.length 0) :
    (sigR sv (sv.S.getD (i + 1) 0 + st.lastPosition) = st.lastOcc ∧
      sv.S.getD (i + 1) 0 + st.lastPosition < sv.D.getD (st.lastOcc + 1) 0) ∨
    (sigR sv (sv.S.getD (i + 1) 0 + st.lastPosition) = st.lastOcc + 1 ∧
      st.lastOcc + 1 < sv.v.length ∧
      sv.D.getD (st.lastOcc + 1) 0 ≤ sv.S.getD (i + 1) 0 + st.lastPosition) := by
  have nov := exit_nov sv i st hc
  have hJ := inv.hJ
  by_cases hlt : sv.S.getD (i + 1) 0 + st.lastPosition < sv.D.getD (st.lastOcc + 1) 0
  · left
    exact ⟨sigR_eq sv sd.dom.Dmono _ st.lastOcc inv.occ (by omega) hlt, hlt⟩
  · right
    have hJm : st.lastOcc + 1 < sv.v.length := by
      by_cases h : st.lastOcc + 1 < sv.v.length
      · exact h
      · have e : st.lastOcc + 1 = sv.v.length := by have := inv.occ; omega
        rw [e] at hlt
        omega
    have hstep := exit_D_step sd (st.lastOcc + 1) hJm
    exact ⟨sigR_eq sv sd.dom.Dmono _ (st.lastOcc + 1) hJm (by omega) (by omega), hJm, by omega⟩

theorem exit_f3 (sv : Solver) (sd : SwDom sv) (i : Nat) (st : St) (inv : LoopInv sv i st)
    (hc : ¬ Overflow sv i st)
    (hfit : sv.S.getD (i + 1) 0 + st.lastPosition < sv.D.getD sv.v.length 0) (j : Nat) :
    0 ≤ tR sv i st.lastPosition + lamRj sv st.pRev st.lastPosition j := by
  unfold tR
  rcases exit_sigR_hi sv sd i st inv hc hfit with ⟨e, h⟩ | ⟨e, hJm, h⟩
  · rw [e]; exact inv.rtop h j
  · rw [e]; exact inv.rinv hJm h j

theorem exit_f4 (sv : Solver) (sd : SwDom sv) (i : Nat) (st : St) (inv : LoopInv sv i st)
    (hc : ¬ Overflow sv i st)
    (hfit : sv.S.getD (i + 1) 0 + st.lastPosition < sv.D.getD sv.v.length 0) (t : Nat)
    (ht : sigR sv (sv.S.getD (i + 1) 0 + st.lastPosition) < t) (htm : t < sv.v.length) :
    cs sv i (sigR sv (sv.S.getD (i + 1) 0 + st.lastPosition)) ≤ cs sv i t := by
  have hoJ := inv.oJ
  have hT : st.optSink ≤ sigR sv (sv.S.getD (i + 1) 0 + st.lastPosition) := by
    rcases exit_sigR_hi sv sd i st inv hc hfit with ⟨e, _⟩ | ⟨e, _, _⟩ <;> omega
  exact inv.opt.right _ t hT (Nat.le_of_lt ht) htm

theorem exit_factsTop (sv : Solver) (sd : SwDom sv) (i : Nat) (st : St) (inv : LoopInv sv i st)
    (hc : ¬ Overflow sv i st) : FactsTop sv st.lastPosition st.pRev := by
  have hl := inv.len
  subst hl
  have nov := exit_nov sv _ st hc
  refine ⟨?_, ?_, ?_, ?_, inv.pos, ?_⟩
  · intro x hx hxL
    simp only [lamU, if_pos hxL]
    exact exit_f1 sv sd _ st inv hc x hx hxL
  · intro x hx hxL hh t ht
    exact exit_f2 sv sd _ st inv x hx hxL hh t ht
  · intro hfit j
    cases j with
    | zero => simp only [lamRj]; exact Int.le_refl _
    | succ j =>
      simp only [lamRj, if_pos (Int.le_refl st.lastPosition)]
      exact exit_f3 sv sd _ st inv hc hfit j
  · intro hfit t ht htm
    exact exit_f4 sv sd _ st inv hc hfit t ht htm
  · have := sd.dom.Dmono (st.lastOcc + 1) sv.v.length (by have := inv.occ; omega) (Nat.le_refl _)
    omega

/-! ### the exit of the loop -/

theorem loop_exit (sv : Solver) (sd : SwDom sv) (i : Nat) (st : St) (inv : LoopInv sv i st)
    (hc : ¬ Overflow sv i st) :
    SweepInv sv { st with pRev := st.lastPosition :: st.pRev } := by
  have ft := exit_factsTop sv sd i st inv hc
  have nov := exit_nov sv i st hc
  have hl := inv.len
  subst hl
  refine
    { inv := ⟨inv.occ, inv.opt.lt, inv.pos, ?_⟩
      ei := ⟨inv.ei.sorted, inv.ei.le⟩
      hJ := ?_
      fit := ?_
      head := ?_
      init := ?_
      iev := ?_
      mono := ⟨inv.mono.mono, inv.mono.nn⟩
      optL := ?_
      facts := ⟨ft, inv.facts⟩ }
  · intro x hx
    rcases List.mem_cons.mp hx with h | h
    · rw [h]; exact inv.pos
    · exact exit_facts_nn sv st.pRev inv.facts x h
  · show sv.D.getD st.lastOcc 0 - sv.S.getD (st.lastPosition :: st.pRev).length 0 ≤ st.lastPosition
    rw [List.length_cons]
    exact inv.hJ
  · show st.lastPosition
      ≤ sv.D.getD (st.lastOcc + 1) 0 - sv.S.getD (st.lastPosition :: st.pRev).length 0
    rw [List.length_cons]
    omega
  · intro y hy
    show y = st.lastPosition
    have : (st.lastPosition :: st.pRev).head? = some y := hy
    simp only [List.head?_cons, Option.some.injEq] at this
    exact this.symm
  · intro h
    exact absurd h (List.cons_ne_nil _ _)
  · intro pk rest h x hx hxL
    have h' : st.lastPosition :: st.pRev = pk :: rest := h
    obtain ⟨h1, h2⟩ := List.cons.inj h'
    subst h1 h2
    exact inv.iev x hx hxL
  · intro k hk hku t t' htt ht'
    have hk' : (st.lastPosition :: st.pRev).length ≤ k + 1 := hk
    rw [List.length_cons] at hk'
    exact inv.opt.left k (by omega) hku t t' htt ht'

end ColoVerif.Transp1d
