import ColoVerif.Proofs.Transp1dChecksOpt
/-
The self-checks of `Transportation1d::solve()`, part 3: on every input of the domain the plan
computed on the instance handed to the solver passes `checkSolutionValid` (it is valid: `SolPost`)
and `checkSolutionOptimal` (exact balance: every sink is saturated; slack: the dual certificate
`GlobCert` of the optimality proof restricts to neighbouring sinks), so `solveFull` — `solve()`
with all its self-checks — returns what `solve` returns and never throws.
-/
namespace ColoVerif.Transp1d

/-- the solver's own plan is valid for the instance handed to the solver -/
theorem sorted_plan_valid (sv : Solver) (p : List Int) (plan : Plan) (post : SolPost sv p plan) :
    validPlan sv.toProblem plan = true := by
  rw [validPlan_iff]
  refine ⟨?_, post.row, post.col⟩
  unfold entriesOk
  rw [List.all_eq_true]
  intro e he
  have := post.ent e he
  simp only [Bool.and_eq_true, decide_eq_true_eq]
  exact ⟨⟨this.1, this.2.1⟩, this.2.2⟩

/-- the global dual certificate restricts to neighbouring sinks -/
theorem globCert_nbCert (sv : Solver) (hdl : sv.d.length = sv.v.length)
    (eD : sv.D = prefixFrom 0 sv.d) (p : List Int) (plan : Plan) (post : SolPost sv p plan)
    (be : Nat → Int) (gc : GlobCert sv p be) : NbCert sv plan be := by
  have hov : ∀ e ∈ plan, 0 < ov sv p e.1 e.2.1 := by
    intro e he
    have hent := post.ent e he
    have hpos := cellSum_pos plan (fun e he => (post.ent e he).2.2) e he
    rw [post.cell e.1 e.2.1 hent.1 hent.2.1] at hpos
    exact hpos
  refine ⟨gc.nn, ?_, ?_, ?_⟩
  · intro j hj hlt
    by_cases hb : 0 < be j
    · have h1 := gc.sat j hj hb
      have h2 : sv.D.getD (j + 1) 0 = sv.D.getD j 0 + sv.d.getD j 0 := by
        rw [eD]; exact prefixFrom_succ 0 _ j (by omega)
      rw [colSum_eq_fillP sv p plan post j hj] at hlt
      omega
    · omega
  · intro e he hj
    have hent := post.ent e he
    have := gc.opt e.1 e.2.1 (e.2.1 + 1) hent.1 hent.2.1 hj (hov e he)
    omega
  · intro e he hj
    have hent := post.ent e he
    have := gc.opt e.1 e.2.1 (e.2.1 - 1) hent.1 hent.2.1 (by omega) (hov e he)
    omega

/-- the two solution checks accept the plan computed on the instance handed to the solver -/
theorem solve_own_checks (pb : Problem) (hv : checkOk pb = true) :
    ∃ p sol, run (sortedSolver pb) = .ok p ∧ computeSolution (sortedSolver pb) p = .ok sol ∧
      checkSolutionValid (sortedSolver pb).toProblem sol = .ok () ∧
      checkSolutionOptimal (sortedSolver pb) sol = .ok () ∧
      solve pb = .ok (sol.map (ren (fun i => (ord pb.u pb.s).getD i 0)
        (fun j => (ord pb.v pb.d).getD j 0))) := by
  obtain ⟨hs, hd, hsn, hdn, hle⟩ := (checkOk_iff pb).mp hv
  obtain ⟨p, plan, erun, hp, ecs, post, es⟩ := solve_eq pb hv
  have wf := sortedSolver_wf pb
  have hvalid := sorted_plan_valid (sortedSolver pb) p plan post
  have h2 : (sortedSolver pb).s.sum = pb.s.sum := sum_ord pb.u pb.s hs hsn
  have h3 : (sortedSolver pb).d.sum = pb.d.sum := sum_ord pb.v pb.d hd hdn
  refine ⟨p, plan, erun, ecs, checkSolutionValid_ok _ wf.hs wf.hd plan hvalid, ?_, es⟩
  apply checkSolutionOptimal_ok _ wf.hd plan (fun e he => ⟨(post.ent e he).1, (post.ent e he).2.1⟩)
    (fun j hj => sortedSolver_dpos pb _ (getD_mem_of_lt _ j (by rw [wf.hd]; exact hj)))
  by_cases hbal : pb.s.sum = pb.d.sum
  · left
    exact balanced_saturated (sortedSolver pb).toProblem wf.hs wf.hd
      (by show (sortedSolver pb).s.sum = (sortedSolver pb).d.sum; omega) plan hvalid
  · right
    obtain ⟨be, gc⟩ := run_glob pb hv (by omega) p erun
    exact ⟨be, globCert_nbCert _ wf.hd rfl p plan post be gc⟩

/-- `solve()` with all its self-checks returns what `solve` returns: no check ever throws on an
input of the domain -/
theorem solveFull_ok (pb : Problem) (hv : checkOk pb = true) :
    ∃ plan, solveFull pb = .ok plan ∧ solve pb = .ok plan := by
  obtain ⟨hs, hd, hsn, hdn, hle⟩ := (checkOk_iff pb).mp hv
  obtain ⟨p, sol, erun, ecs, e1, e2, es⟩ := solve_own_checks pb hv
  obtain ⟨_, _, erun', _, ecs', post, _⟩ := solve_eq pb hv
  rw [erun] at erun'
  cases erun'
  rw [ecs] at ecs'
  cases ecs'
  have hsrcLen : (ord pb.u pb.s).length = (sortedSolver pb).u.length := by simp [sortedSolver, mkSolver]
  have hsnkLen : (ord pb.v pb.d).length = (sortedSolver pb).v.length := by simp [sortedSolver, mkSolver]
  have hback := convertSolutionBack_ok ⟨ord pb.u pb.s, ord pb.v pb.d⟩ sol
    (fun x hx => by have := post.ent x hx; simp only [hsrcLen, hsnkLen]; omega)
  refine ⟨_, ?_, es⟩
  unfold solveFull
  simp only [(checkInput_ok_iff pb).mpr hv, mkSorter_ok pb hs hd, convert_ok pb hs hd,
    sortedSolver_check pb hv, erun, ecs, e1, e2, hback, liftK, bind, Except.bind]

/-- outside the domain `solveFull` throws from `check()` -/
theorem solveFull_rejects (pb : Problem) (h : checkOk pb ≠ true) :
    ∃ s, solveFull pb = .error (.thrown s) := by
  obtain ⟨s, e⟩ := checkInput_rejects pb h
  refine ⟨s, ?_⟩
  unfold solveFull
  simp only [e, bind, Except.bind]

/-- `solveFull` only adds throws to `solve`: whenever it returns, `solve` returns the same plan -/
theorem solveFull_refines (pb : Problem) (plan : Plan) (h : solveFull pb = .ok plan) :
    solve pb = .ok plan := by
  by_cases hv : checkOk pb = true
  · obtain ⟨plan', e1, e2⟩ := solveFull_ok pb hv
    rw [e1] at h
    cases h
    exact e2
  · obtain ⟨s, e⟩ := solveFull_rejects pb hv
    rw [e] at h
    cases h

/-! ### `solver.check()` rejects unsorted positions and zero capacities -/

/-- the tests of `Transportation1dSolver::check()` after the base check, on a well-formed solver -/
theorem solverCheck_tail (sv : Solver) (wf : sv.WF) (h0 : checkInput sv.toProblem = .ok ()) :
    solverCheck sv 0 =
      if hasDescent sv.u then .error (.thrown .srcUnsorted)
      else if hasDescent sv.v then .error (.thrown .snkUnsorted)
      else if hasZero sv.s then .error (.thrown .supZero)
      else if hasZero sv.d then .error (.thrown .demZero)
      else .ok () := by
  unfold solverCheck
  simp only [h0, bind, Except.bind, Solver.nbSources, Solver.nbSinks, wf.hS, wf.hD, ne_eq,
    not_true_eq_false, if_false, Nat.not_lt_zero, throwAt]
  rfl

theorem solverCheck_srcUnsorted (sv : Solver) (wf : sv.WF) (h0 : checkInput sv.toProblem = .ok ())
    (i : Nat) (hi : i + 1 < sv.u.length) (h : sv.u.getD (i + 1) 0 < sv.u.getD i 0) :
    solverCheck sv 0 = .error (.thrown .srcUnsorted) := by
  rw [solverCheck_tail sv wf h0, if_pos (hasDescent_true _ i hi h)]

theorem solverCheck_snkUnsorted (sv : Solver) (wf : sv.WF) (h0 : checkInput sv.toProblem = .ok ())
    (hus : List.Pairwise (fun a b => a ≤ b) sv.u)
    (j : Nat) (hj : j + 1 < sv.v.length) (h : sv.v.getD (j + 1) 0 < sv.v.getD j 0) :
    solverCheck sv 0 = .error (.thrown .snkUnsorted) := by
  rw [solverCheck_tail sv wf h0, if_neg (by rw [hasDescent_false _ hus]; simp),
    if_pos (hasDescent_true _ j hj h)]

theorem solverCheck_supZero (sv : Solver) (wf : sv.WF) (h0 : checkInput sv.toProblem = .ok ())
    (hus : List.Pairwise (fun a b => a ≤ b) sv.u) (hvs : List.Pairwise (fun a b => a ≤ b) sv.v)
    (h : (0 : Int) ∈ sv.s) : solverCheck sv 0 = .error (.thrown .supZero) := by
  rw [solverCheck_tail sv wf h0, if_neg (by rw [hasDescent_false _ hus]; simp),
    if_neg (by rw [hasDescent_false _ hvs]; simp), if_pos (hasZero_true _ h)]

theorem solverCheck_demZero (sv : Solver) (wf : sv.WF) (h0 : checkInput sv.toProblem = .ok ())
    (hus : List.Pairwise (fun a b => a ≤ b) sv.u) (hvs : List.Pairwise (fun a b => a ≤ b) sv.v)
    (hsp : ∀ x ∈ sv.s, 0 < x) (h : (0 : Int) ∈ sv.d) :
    solverCheck sv 0 = .error (.thrown .demZero) := by
  rw [solverCheck_tail sv wf h0, if_neg (by rw [hasDescent_false _ hus]; simp),
    if_neg (by rw [hasDescent_false _ hvs]; simp), if_neg (by rw [hasZero_false _ hsp]; simp),
    if_pos (hasZero_true _ h)]

/-- `mkSolver` builds a well-formed solver from vectors of consistent sizes -/
theorem mkSolver_wf (u v s d : List Int) (hs : s.length = u.length) (hd : d.length = v.length) :
    (mkSolver u v s d).WF :=
  ⟨hs, hd, by simp [mkSolver, prefixFrom_length, hs], by simp [mkSolver, prefixFrom_length, hd]⟩

end ColoVerif.Transp1d
