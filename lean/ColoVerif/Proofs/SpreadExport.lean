import ColoVerif.Model.Spread
import Mathlib.Tactic.Linarith
import Mathlib.Tactic.Ring
import Mathlib.Data.Rat.Floor
/-
C06 helper lemmas: `std::round`, `blendPlacement`, `exportPlacement`.
-/
namespace ColoVerif.Spread

theorem floor_le' (q : Rat) : (Rat.floor q : Rat) ≤ q := by
  have : Rat.floor q = ⌊q⌋ := rfl
  rw [this]; exact Int.floor_le q

theorem lt_floor_add_one' (q : Rat) : q < (Rat.floor q : Rat) + 1 := by
  have : Rat.floor q = ⌊q⌋ := rfl
  rw [this]; exact Int.lt_floor_add_one q

/-- `std::round` moves a value by at most one half -/
theorem round_err (q : Rat) :
    q - 1 / 2 ≤ (roundHalfAway q : Rat) ∧ (roundHalfAway q : Rat) ≤ q + 1 / 2 := by
  unfold roundHalfAway
  split
  · have a := floor_le' (q + 1 / 2)
    have b := lt_floor_add_one' (q + 1 / 2)
    constructor <;> linarith
  · have a := floor_le' (-q + 1 / 2)
    have b := lt_floor_add_one' (-q + 1 / 2)
    push_cast
    constructor <;> linarith

theorem blend_getD (v1 v2 : List Rat) (b : Rat) (i : Nat) (h1 : i < v1.length) (h2 : i < v2.length) :
    (blendPlacement v1 v2 b).getD i 0 = (1 - b) * v1.getD i 0 + b * v2.getD i 0 := by
  unfold blendPlacement
  split
  · rename_i hb; subst hb; ring
  · split
    · rename_i hb; subst hb; ring
    · simp [List.getD_eq_getElem?_getD, List.getElem?_zipWith, List.getElem?_eq_getElem h1,
        List.getElem?_eq_getElem h2]

theorem blend_length (v1 v2 : List Rat) (b : Rat) (h : v1.length = v2.length) :
    (blendPlacement v1 v2 b).length = v1.length := by
  unfold blendPlacement
  split
  · rfl
  · split
    · exact h.symm
    · simp [h]

theorem exportAxis_getD (f : List Bool) (o : List Int) (p : List Rat) (s : List Int) (i : Nat)
    (hf : i < f.length) (ho : i < o.length) (hp : i < p.length) (hs : i < s.length) :
    (exportAxis f o p s).getD i 0 =
      if f.getD i true then o.getD i 0 else exportCoord (p.getD i 0) (s.getD i 0) := by
  induction f generalizing o p s i with
  | nil => simp at hf
  | cons f0 fs ih =>
    cases o with
    | nil => simp at ho
    | cons o0 os =>
      cases p with
      | nil => simp at hp
      | cons p0 ps =>
        cases s with
        | nil => simp at hs
        | cons s0 ss =>
          cases i with
          | zero => simp [exportAxis]
          | succ i =>
            have := ih os ps ss i (by simpa using hf) (by simpa using ho) (by simpa using hp) (by simpa using hs)
            simpa [exportAxis] using this

end ColoVerif.Spread
