import ColoVerif.Model.Legalize
import ColoVerif.Proofs.Freespace
/-
Helper lemmas for C01 (`legalize_legal`), part 1: the rows the legalizers work on.

`RowsOK H rows`: every row is `H` high with a non-empty x-range and an unturned orientation, and
the rows are pairwise disjoint.  It is preserved by the stable sort of the legalizer constructors
and by `remainingRows` (free space of every row minus any obstacle list); every remaining segment
is a sub-row of a row and misses every obstacle that has an interior.
-/
namespace ColoVerif.Legalize
open ColoVerif

/-! ### rectangles -/

theorem intersects_false_iff (a o : Rect) :
    a.intersects o = false ↔ ¬ (a.minX < o.maxX ∧ o.minX < a.maxX ∧ a.minY < o.maxY ∧ o.minY < a.maxY) := by
  simp only [Rect.intersects]
  constructor
  · intro h hc
    simp [hc.1, hc.2.1, hc.2.2.1, hc.2.2.2] at h
  · intro h
    apply Bool.eq_false_iff.mpr
    intro hc
    simp only [Bool.and_eq_true, decide_eq_true_eq] at hc
    exact h ⟨hc.1.1.1, hc.1.1.2, hc.1.2, hc.2⟩

theorem intersects_true_iff (a o : Rect) :
    a.intersects o = true ↔ (a.minX < o.maxX ∧ o.minX < a.maxX ∧ a.minY < o.maxY ∧ o.minY < a.maxY) := by
  simp only [Rect.intersects, Bool.and_eq_true, decide_eq_true_eq]
  constructor
  · rintro ⟨⟨⟨h1, h2⟩, h3⟩, h4⟩; exact ⟨h1, h2, h3, h4⟩
  · rintro ⟨h1, h2, h3, h4⟩; exact ⟨⟨⟨h1, h2⟩, h3⟩, h4⟩

theorem intersects_comm (a o : Rect) : a.intersects o = o.intersects a := by
  cases h : o.intersects a
  · rw [intersects_false_iff] at *; omega
  · rw [intersects_true_iff] at *; omega

/-- `s` is a piece of row `r`: same y-range and orientation, x-range inside -/
def SubRow (s r : Row) : Prop :=
  r.rect.minX ≤ s.rect.minX ∧ s.rect.maxX ≤ r.rect.maxX ∧ s.rect.minY = r.rect.minY ∧
    s.rect.maxY = r.rect.maxY ∧ s.orient = r.orient

theorem SubRow.refl (r : Row) : SubRow r r := ⟨Int.le_refl _, Int.le_refl _, rfl, rfl, rfl⟩

theorem SubRow.trans {a b c : Row} (h1 : SubRow a b) (h2 : SubRow b c) : SubRow a c := by
  obtain ⟨a1, a2, a3, a4, a5⟩ := h1
  obtain ⟨b1, b2, b3, b4, b5⟩ := h2
  exact ⟨by omega, by omega, by omega, by omega, a5.trans b5⟩

/-! ### the predicate -/

structure RowsOK (H : Int) (rows : List Row) : Prop where
  height : ∀ r ∈ rows, r.rect.maxY = r.rect.minY + H
  wide : ∀ r ∈ rows, r.rect.minX < r.rect.maxX
  unturned : ∀ r ∈ rows, r.orient.isTurn = false
  disj : rows.Pairwise fun a b => a.rect.intersects b.rect = false

theorem RowsOK.nil (H : Int) : RowsOK H [] :=
  ⟨by simp, by simp, by simp, List.Pairwise.nil⟩

/-- rows at different indices are disjoint -/
theorem RowsOK.disj_idx {H : Int} {rows : List Row} (h : RowsOK H rows) (i j : Nat) (a b : Row)
    (ha : rows[i]? = some a) (hb : rows[j]? = some b) (hne : i ≠ j) : a.rect.intersects b.rect = false := by
  have hp := List.pairwise_iff_getElem.mp h.disj
  obtain ⟨hi, rfl⟩ := List.getElem?_eq_some_iff.mp ha
  obtain ⟨hj, rfl⟩ := List.getElem?_eq_some_iff.mp hb
  rcases Nat.lt_or_gt_of_ne hne with hlt | hgt
  · exact hp i j hi hj hlt
  · rw [intersects_comm]; exact hp j i hj hi hgt

/-- a row meets itself (positive height) -/
theorem RowsOK.self_meets {H : Int} {rows : List Row} (h : RowsOK H rows) (hH : 0 < H) (r : Row) (hr : r ∈ rows) :
    r.rect.intersects r.rect = true := by
  rw [intersects_true_iff]
  have := h.height r hr
  have := h.wide r hr
  omega

/-! ### the stable sort of the constructors -/

theorem mem_insertRow (x y : Row) : ∀ l : List Row, y ∈ insertRow x l ↔ y = x ∨ y ∈ l
  | [] => by simp [insertRow]
  | z :: zs => by
    simp only [insertRow]
    split
    · simp only [List.mem_cons, mem_insertRow x y zs]
      constructor
      · rintro (h | h | h) <;> simp [h]
      · rintro (h | h | h) <;> simp [h]
    · simp

theorem mem_sortRows (y : Row) : ∀ l : List Row, y ∈ sortRows l ↔ y ∈ l
  | [] => by simp [sortRows]
  | x :: xs => by
    have : sortRows (x :: xs) = insertRow x (sortRows xs) := rfl
    rw [this, mem_insertRow, mem_sortRows y xs]
    simp

theorem pairwise_insertRow (R : Row → Row → Prop) (hs : ∀ a b, R a b → R b a) (x : Row) :
    ∀ l : List Row, l.Pairwise R → (∀ y ∈ l, R x y) → (insertRow x l).Pairwise R
  | [], _, _ => by simp [insertRow]
  | z :: zs, hp, hx => by
    simp only [insertRow]
    rw [List.pairwise_cons] at hp
    split
    · rw [List.pairwise_cons]
      refine ⟨?_, pairwise_insertRow R hs x zs hp.2 (fun y hy => hx y (by simp [hy]))⟩
      intro y hy
      rcases (mem_insertRow x y zs).mp hy with rfl | hy
      · exact hs _ _ (hx z (by simp))
      · exact hp.1 y hy
    · rw [List.pairwise_cons]
      exact ⟨hx, List.pairwise_cons.mpr hp⟩

theorem pairwise_sortRows (R : Row → Row → Prop) (hs : ∀ a b, R a b → R b a) :
    ∀ l : List Row, l.Pairwise R → (sortRows l).Pairwise R
  | [], _ => by simp [sortRows]
  | x :: xs, hp => by
    have : sortRows (x :: xs) = insertRow x (sortRows xs) := rfl
    rw [this]
    rw [List.pairwise_cons] at hp
    exact pairwise_insertRow R hs x _ (pairwise_sortRows R hs xs hp.2)
      (fun y hy => hp.1 y ((mem_sortRows y xs).mp hy))

theorem RowsOK.sort {H : Int} {rows : List Row} (h : RowsOK H rows) : RowsOK H (sortRows rows) :=
  ⟨fun r hr => h.height r ((mem_sortRows r rows).mp hr),
   fun r hr => h.wide r ((mem_sortRows r rows).mp hr),
   fun r hr => h.unturned r ((mem_sortRows r rows).mp hr),
   pairwise_sortRows _ (fun a b hab => by rw [intersects_comm]; exact hab) rows h.disj⟩

theorem length_insertRow (x : Row) : ∀ l : List Row, (insertRow x l).length = l.length + 1
  | [] => rfl
  | z :: zs => by
    simp only [insertRow]
    split
    · simp [length_insertRow x zs]
    · simp

theorem length_sortRows : ∀ l : List Row, (sortRows l).length = l.length
  | [] => rfl
  | x :: xs => by
    have : sortRows (x :: xs) = insertRow x (sortRows xs) := rfl
    rw [this, length_insertRow, length_sortRows xs]
    simp

/-! ### free space of the rows minus obstacles (`remainingRows`, `computeRows`) -/

/-- what every segment of `r.freespace obs` satisfies, for a row with `minX < maxX` -/
theorem freespace_seg (r : Row) (obs : List Rect) (hw : r.rect.minX < r.rect.maxX) (s : Row)
    (hs : s ∈ r.freespace obs) :
    SubRow s r ∧ s.rect.minX < s.rect.maxX ∧
    ∀ o ∈ obs, o.minX < o.maxX → o.minY < o.maxY → s.rect.intersects o = false := by
  obtain ⟨iv, hiv, rfl⟩ := (Row.mem_freespace r obs s).mp hs
  obtain ⟨h0, h1, h2, h3⟩ := Freespace.freeIntervals_inside r.rect obs iv hiv
  simp only [Freespace.lo, Freespace.hi] at h1 h3
  refine ⟨⟨by simp only; omega, by simp only; omega, rfl, rfl, rfl⟩, h2, ?_⟩
  intro o ho hox hoy
  rw [intersects_false_iff]
  intro hint
  simp only at hint
  apply Freespace.freeIntervals_misses r.rect obs iv hiv (max iv.1 o.minX) (by omega) (by omega) o ho
  simp only [Freespace.Obstructs]
  omega

theorem RowsOK.freespace {H : Int} {rows : List Row} (h : RowsOK H rows) (obs : List Rect) :
    RowsOK H (rows.flatMap fun r => r.freespace obs) := by
  have sub : ∀ s ∈ rows.flatMap (fun r => r.freespace obs), ∃ r ∈ rows, SubRow s r ∧ s.rect.minX < s.rect.maxX := by
    intro s hs
    obtain ⟨r, hr, hsr⟩ := List.mem_flatMap.mp hs
    obtain ⟨h1, h2, _⟩ := freespace_seg r obs (h.wide r hr) s hsr
    exact ⟨r, hr, h1, h2⟩
  refine ⟨?_, ?_, ?_, ?_⟩
  · intro s hs
    obtain ⟨r, hr, hsub, _⟩ := sub s hs
    have := h.height r hr
    obtain ⟨_, _, e1, e2, _⟩ := hsub
    omega
  · intro s hs
    obtain ⟨r, hr, _, hw⟩ := sub s hs
    exact hw
  · intro s hs
    obtain ⟨r, hr, hsub, _⟩ := sub s hs
    rw [hsub.2.2.2.2]
    exact h.unturned r hr
  · rw [List.pairwise_flatMap]
    constructor
    · intro r hr
      have hp : (r.freespace obs).Pairwise (fun a b => a.rect.maxX < b.rect.minX) := by
        simp only [Row.freespace]
        rw [List.pairwise_map]
        exact Freespace.freeIntervals_pairwise r.rect obs
      refine hp.imp ?_
      intro a b hab
      rw [intersects_false_iff]
      omega
    · refine List.Pairwise.imp_of_mem ?_ h.disj
      intro r1 r2 hr1 hr2 hd s1 hs1 s2 hs2
      obtain ⟨⟨a1, a2, a3, a4, _⟩, _, _⟩ := freespace_seg r1 obs (h.wide r1 hr1) s1 hs1
      obtain ⟨⟨b1, b2, b3, b4, _⟩, _, _⟩ := freespace_seg r2 obs (h.wide r2 hr2) s2 hs2
      rw [intersects_false_iff] at hd ⊢
      omega

/-- every segment of the free space is a piece of a row and misses the obstacles -/
theorem flatMap_freespace_seg {H : Int} {rows : List Row} (h : RowsOK H rows) (obs : List Rect) (s : Row)
    (hs : s ∈ rows.flatMap fun r => r.freespace obs) :
    (∃ r ∈ rows, SubRow s r) ∧
    ∀ o ∈ obs, o.minX < o.maxX → o.minY < o.maxY → s.rect.intersects o = false := by
  obtain ⟨r, hr, hsr⟩ := List.mem_flatMap.mp hs
  obtain ⟨h1, _, h3⟩ := freespace_seg r obs (h.wide r hr) s hsr
  exact ⟨⟨r, hr, h1⟩, h3⟩

end ColoVerif.Legalize
