import ColoVerif.Proofs.CheckedDetPlace
import ColoVerif.Proofs.DetPlaceLegal
/-
The C07 domain `DomC` of `DetailedPlacement` along a whole optimiser history.

`DomC` asks for magnitudes of the *cells*; what the C07 statement bounds is the input.  Here the
cell part is derived from the invariant of `check()` (`Inv`): every placed cell lies between the
ends of its row (`row_bounds`), so it is enough that the *rows* lie within ±2^22 and that every
optimised cell is placed — both facts are kept by every move of the optimiser (`run_inv`,
`Lg.run_keep`, `Lg.run_allPlaced`).  Consequently every `canPlace` / `canInsert` / `canSwap` /
`positionOnInsert` / `positionsOnSwap` / `insert` / `swap` call made at any point of a history that
starts from `fromIspdCircuit` is free of `int` overflow, failed `assert` and out-of-range index.
-/
namespace ColoVerif.DetPlace
open ColoVerif.Checked
open State

local notation "M22" => (4194304 : Int)

/-- every row of the placement lies within ±2^22 -/
def RowsC (s : State) : Prop :=
  ∀ r, s.validRow r →
    (-M22 ≤ s.rowMinX r ∧ s.rowMinX r ≤ M22) ∧ (-M22 ≤ s.rowMaxX r ∧ s.rowMaxX r ≤ M22)

theorem RowsC.congr {s t : State} (hr : RowsC s) (e : t.rows = s.rows) : RowsC t := by
  intro r vr
  have vr' : s.validRow r := by unfold validRow nRows at vr ⊢; rw [← e]; exact vr
  have h1 : t.rowMinX r = s.rowMinX r := by unfold rowMinX rowAt; rw [e]
  have h2 : t.rowMaxX r = s.rowMaxX r := by unfold rowMaxX rowAt; rw [e]
  rw [h1, h2]
  exact hr r vr'

/-- **the C07 domain from the invariant**: rows within ±2^22 and every optimised cell placed -/
theorem DomC_of_Inv_rows {s : State} (h : Inv s) (hr : RowsC s) (hap : Lg.AllPlaced s) : s.DomC := by
  refine DomC_of_Inv h ?_ hr (fun c hc => hap c hc.1 hc.2)
  intro c hc
  have hp := hap c hc.1 hc.2
  have hb := row_bounds h hc.1 hp
  have hrow := hr _ (h.placed_row hc.1 hp)
  omega

/-- **the C07 domain holds after every history of optimiser moves** -/
theorem run_DomC {s t : State} (h : Inv s) (hr : RowsC s) (hap : Lg.AllPlaced s) {ops : List Op}
    (e : s.run ops = .ok t) : t.DomC :=
  DomC_of_Inv_rows (run_inv h e) (hr.congr (Lg.run_keep e).1) (Lg.run_allPlaced hap e)

/-- **no fault at any point of a history**: after any sequence of accepted moves, the feasibility
tests, the position computations and the moves themselves, called with optimised cells and a site
named by a valid row and a predecessor that is −1 or an optimised cell, evaluate without `int`
overflow, failed assertion or out-of-range index, and return what the unbounded model returns -/
theorem run_no_fault {s t : State} (h : Inv s) (hr : RowsC s) (hap : Lg.AllPlaced s) {ops : List Op}
    (e : s.run ops = .ok t) (asr : Bool) {c1 c2 r p : Int} (h1 : t.LiveC c1) (h2 : t.LiveC c2)
    (vr : t.validRow r) (hp : t.LinkC p) :
    t.canInsertC c1 r p = .ok (t.canInsert c1 r p) ∧
    t.positionOnInsertC c1 r p = .ok (t.positionOnInsert c1 r p) ∧
    t.insertC c1 r p = .ok (t.insert c1 r p) ∧
    t.canSwapC asr c1 c2 = .ok (t.canSwap c1 c2) ∧
    t.swapC asr c1 c2 = .ok (t.swap c1 c2) ∧
    (t.row c1 ≠ -1 → t.row c2 ≠ -1 → t.positionsOnSwapC asr c1 c2 = .ok (t.positionsOnSwap c1 c2)) := by
  have d := run_DomC h hr hap e
  exact ⟨canInsertC_ok d h1 vr hp, positionOnInsertC_ok d h1 vr hp, insertC_ok d h1 vr hp,
    canSwapC_ok d asr h1 h2, swapC_ok d asr h1 h2, fun r1 r2 => positionsOnSwapC_ok d asr h1 h2 r1 r2⟩

/-- the starting point: the placement built by `fromIspdCircuit` satisfies the hypotheses of
`run_DomC` as soon as its rows lie within ±2^22 -/
theorem fromIspdCircuit_DomC {c : Circuit} {s : State}
    (hd : ∀ cl ∈ c.cells, ¬ cl.fixed → 0 < cl.placedWidth ∧ cl.orient ≠ Orient.INVALID)
    (e : fromIspdCircuit c = .ok s) (hr : RowsC s) : s.DomC := by
  obtain ⟨hi, hap⟩ := fromIspdCircuit_inv hd e
  exact DomC_of_Inv_rows hi hr ((Lg.allPlaced_iff s).1 hap)

end ColoVerif.DetPlace
