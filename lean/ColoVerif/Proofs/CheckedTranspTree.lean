import ColoVerif.Proofs.TranspSsp2Update
import ColoVerif.Proofs.CheckedArith
import ColoVerif.Model.TranspTreeChecked
/-
No-overflow lemmas for the fixed-point cost arithmetic of the successive-shortest-path
transportation solver (C07, DESIGN's `transp_costs_fit`), on top of the C13 analysis of
`updateTree` (`Proofs/TranspSsp2Tree*.lean`: labels stay between the previous potentials and the
edge bound `W`).
-/
namespace ColoVerif.Transp
open ColoVerif.Checked

/-! ### `pickVisit` selects a minimum label -/

lemma pickVisit_min (t : Tree) : ∀ (k i : Nat) (best : Option Nat) (bc : Int) (bv : Nat),
    pickVisit t k i best bc = some bv → (∀ b, best = some b → lab t b = bc) →
    lab t bv ≤ bc ∧ ∀ j, i ≤ j → j < i + k → vis t j = true → lab t bv ≤ lab t j := by
  intro k
  induction k with
  | zero =>
    intro i best bc bv h hb
    simp only [pickVisit] at h
    exact ⟨by rw [hb bv h], fun j h1 h2 => by omega⟩
  | succ k ih =>
    intro i best bc bv h hb
    rw [pickVisit] at h
    by_cases hc : (t.toVisit.getD i false && decide (t.sendCost.getD i 0 < bc)) = true
    · rw [if_pos hc] at h
      simp only [Bool.and_eq_true, decide_eq_true_eq] at hc
      obtain ⟨h1, h2⟩ := ih (i + 1) (some i) (t.sendCost.getD i 0) bv h
        (fun b hb' => by cases hb'; rfl)
      have hli : lab t i = t.sendCost.getD i 0 := rfl
      refine ⟨by omega, ?_⟩
      intro j hj1 hj2 hv
      by_cases e : j = i
      · subst e; omega
      · exact h2 j (by omega) (by omega) hv
    · rw [if_neg hc] at h
      obtain ⟨h1, h2⟩ := ih (i + 1) best bc bv h hb
      refine ⟨h1, ?_⟩
      intro j hj1 hj2 hv
      by_cases e : j = i
      · subst e
        have hv' : t.toVisit.getD j false = true := hv
        have : ¬ t.sendCost.getD j 0 < bc := by
          intro hlt
          apply hc
          rw [hv', decide_eq_true hlt]
          rfl
        have hlj : lab t j = t.sendCost.getD j 0 := rfl
        omega
      · exact h2 j (by omega) (by omega) hv

lemma pickVisit_no_vis (t : Tree) : ∀ (k i : Nat) (best : Option Nat) (bc : Int),
    (∀ j, i ≤ j → j < i + k → vis t j = false) → pickVisit t k i best bc = best := by
  intro k
  induction k with
  | zero => intro i best bc _; rfl
  | succ k ih =>
    intro i best bc h
    rw [pickVisit]
    have hv : t.toVisit.getD i false = false := h i (by omega) (by omega)
    rw [hv]
    simp only [Bool.false_and, Bool.false_eq_true, if_false]
    exact ih (i + 1) best bc (fun j h1 h2 => h j (by omega) (by omega))

/-! ### the relaxation pass -/

lemma liftS_ok {α : Type} (a : α) : liftS (.ok a : Except String α) = .ok a := rfl

lemma relaxC_ok (n : Nat) (qs : Queues) (remCapa : List Int) (w : Nat → Nat → Int) (bv : Nat)
    (hw0 : w bv bv = 0 ∨ remCapa.getD bv 0 > 0)
    (mc : ∀ i, i < n → remCapa.getD i 0 ≤ 0 → movingCostQ qs i bv = .ok (w i bv))
    (L : Int) (hfit : ∀ i, i < n → remCapa.getD i 0 ≤ 0 →
      -2147483648 ≤ w i bv + L ∧ w i bv + L ≤ 2147483647) :
    ∀ (k i : Nat) (t : Tree), i + k = n → TWF n t → lab t bv = L →
      relaxC qs remCapa bv k i t = liftS (relax qs remCapa bv k i t) := by
  intro k
  induction k with
  | zero => intro i t _ _ _; rfl
  | succ k ih =>
    intro i t hik wf hL
    rw [relaxC, relax]
    by_cases hfree : remCapa.getD i 0 > 0
    · rw [if_pos hfree, if_pos hfree]
      exact ih (i + 1) t (by omega) wf hL
    · rw [if_neg hfree, if_neg hfree]
      have hfull : remCapa.getD i 0 ≤ 0 := by omega
      have hL' : t.sendCost.getD bv 0 = L := hL
      rw [mc i (by omega) hfull]
      simp only
      have hf := hfit i (by omega) hfull
      have e1 : addI32 "updateTree: movingCost(i, bestVisit) + sendingCost_[bestVisit]" (w i bv) (t.sendCost.getD bv 0) =
          .ok (w i bv + t.sendCost.getD bv 0) := by
        rw [hL']; exact chk32_ok' hf.1 hf.2
      rw [e1]
      simp only
      by_cases hc : w i bv + t.sendCost.getD bv 0 < t.sendCost.getD i 0
      · rw [if_pos hc, if_pos hc]
        have hne : bv ≠ i := by
          intro e
          subst e
          rcases hw0 with h0 | h0
          · rw [h0] at hc; omega
          · omega
        apply ih (i + 1) _ (by omega)
        · exact ⟨by simp [wf.lc], by simp [wf.lp], by simp [wf.lv]⟩
        · show (t.sendCost.set i (w i bv + t.sendCost.getD bv 0)).getD bv 0 = L
          rw [getD_set_gen]
          rw [if_neg (by intro h; exact hne h.1)]
          exact hL'
      · rw [if_neg hc, if_neg hc]
        exact ih (i + 1) t (by omega) wf hL

/-! ### the loop -/

theorem treeLoopC_ok {n : Nat} {qs : Queues} {remCapa : List Int} {w : Nat → Nat → Int} {d' : Nat → Int} {W : Int}
    (hyp : TreeHyp n qs remCapa w d' W) (h2W : 2 * W ≤ intMax) (f : Nat) (hf : f < n)
    (hfree : remCapa.getD f 0 > 0) :
    ∀ (fuel : Nat) (t : Tree), TInv n remCapa w d' W t → mu t n < (fuel : Int) →
      treeLoopC n qs remCapa fuel t = liftS (treeLoop n qs remCapa fuel t) := by
  have im : intMax = 2147483647 := rfl
  intro fuel
  induction fuel with
  | zero =>
    intro t inv h
    have := mu_nonneg hyp t inv
    simp at h
    omega
  | succ fuel ih =>
    intro t inv h
    rw [treeLoopC, treeLoop]
    cases hp : pickVisit t n 0 none intMax with
    | none => rfl
    | some bv =>
      simp only
      rcases pickVisit_some t n 0 none intMax bv hp with e | ⟨_, hbv, hv, hl⟩
      · exact absurd e (by simp)
      · have hbv' : bv < n := by omega
        obtain ⟨t1, e1, wf1, r⟩ := relax_spec n qs remCapa w bv hbv' (hyp.w0 bv hbv')
          (fun i hi hf => hyp.mc i bv hi hbv' hf) n 0 t (by omega) inv.wf
        -- the label of the selected sink lies in [0, W]
        have hL0 : 0 ≤ lab t bv := by
          have := inv.b bv hbv'
          have := hyp.dnn bv hbv'
          omega
        have hLW : lab t bv ≤ W := by
          by_cases hvf : vis t f = true
          · have hmin := (pickVisit_min t n 0 none intMax bv hp (fun b hb => by cases hb)).2 f (by omega) (by omega) hvf
            have := (inv.a f hf hfree).1
            have := hyp.Wnn
            omega
          · have hvf' : vis t f = false := by
              cases hh : vis t f with
              | true => exact absurd hh hvf
              | false => rfl
            by_cases hbf : remCapa.getD bv 0 > 0
            · have := (inv.a bv hbv' hbf).1
              have := hyp.Wnn
              omega
            · exact inv.e ⟨f, hf, hfree, hvf'⟩ bv hbv' (by omega)
        have hfit : ∀ i, i < n → remCapa.getD i 0 ≤ 0 →
            -2147483648 ≤ w i bv + lab t bv ∧ w i bv + lab t bv ≤ 2147483647 := by
          intro i hi hfull
          have h1 := hyp.dw i bv hi hbv' hfull
          have h2 := hyp.dnn i hi
          have h3 := hyp.dle bv hbv'
          have h4 := hyp.wle i bv hi hbv' hfull
          omega
        have ec := relaxC_ok n qs remCapa w bv (hyp.w0 bv hbv')
          (fun i hi hf => hyp.mc i bv hi hbv' hf) (lab t bv) hfit n 0 t (by omega) inv.wf rfl
        rw [ec, e1]
        simp only [liftS_ok]
        have inv' := round_inv hyp t t1 bv hbv' hl inv wf1 r
        have hmu := round_mu hyp t t1 bv hbv' hv wf1 r
        exact ih (closeT t1 bv) inv' (by push_cast at h; omega)

/-- **`updateTree`: every path sum fits.**  Under the hypotheses the C13 analysis establishes at
every call of `updateTree` (`TreeHyp`: `w` are the queue-top moving costs, bounded by `W`; `d'` are
non-negative potentials making every reduced cost non-negative) and `2·W ≤ INT_MAX`, the checked
`updateTree` — every `movingCost(i, bestVisit) + sendingCost_[bestVisit]` as an `int` addition —
returns exactly what the unbounded model returns. -/
theorem updateTreeC_ok (p : Problem) (qs : Queues) (remCapa : List Int) (w : Nat → Nat → Int) (d' : Nat → Int)
    (W : Int) (h : TreeHyp p.nbSinks qs remCapa w d' W) (h2W : 2 * W ≤ intMax) :
    updateTreeC p qs remCapa = liftS (updateTree p qs remCapa) := by
  by_cases hex : ∃ f, f < p.nbSinks ∧ remCapa.getD f 0 > 0
  · obtain ⟨f, hf, hfree⟩ := hex
    exact treeLoopC_ok h h2W f hf hfree (treeFuel p.nbSinks) (initT remCapa) (init_inv h) (init_mu h)
  · -- no sink has capacity left: nothing is ever selected
    have hnv : ∀ j, 0 ≤ j → j < 0 + p.nbSinks → vis (initT remCapa) j = false := by
      intro j _ hj
      rw [vis_initT remCapa j (by rw [h.len]; omega)]
      have : ¬ remCapa.getD j 0 > 0 := fun hh => hex ⟨j, by omega, hh⟩
      exact decide_eq_false this
    have hp := pickVisit_no_vis (initT remCapa) p.nbSinks 0 none intMax hnv
    show treeLoopC p.nbSinks qs remCapa (p.nbSinks * 2147483648 + 1) (initT remCapa) =
      liftS (treeLoop p.nbSinks qs remCapa (p.nbSinks * 2147483648 + 1) (initT remCapa))
    rw [treeLoopC, treeLoop, hp]
    rfl

/-! ### `bestSink` -/

lemma bestSinkFromC_ok (p : Problem) (sendCost : List Int) (src : Nat) (n : Nat)
    (hfit : ∀ i, i < n → -2147483648 ≤ sendCost.getD i 0 + p.cost i src ∧ sendCost.getD i 0 + p.cost i src ≤ 2147483647) :
    ∀ (k i ret : Nat) (bc : Int), i + k = n →
      bestSinkFromC p sendCost src k i ret bc = .ok (bestSinkFrom p sendCost src k i ret bc) := by
  intro k
  induction k with
  | zero => intro i ret bc _; rfl
  | succ k ih =>
    intro i ret bc hik
    have hf := hfit i (by omega)
    have e1 : addI32 "bestSink: sendingCost_[i] + pb_.cost(i, src)" (sendCost.getD i 0) (p.cost i src) =
        .ok (sendCost.getD i 0 + p.cost i src) := chk32_ok' hf.1 hf.2
    rw [bestSinkFromC, bestSinkFrom, e1]
    simp only
    by_cases hc : sendCost.getD i 0 + p.cost i src < bc
    · rw [if_pos hc, if_pos hc]; exact ih (i + 1) i _ (by omega)
    · rw [if_neg hc, if_neg hc]; exact ih (i + 1) ret bc (by omega)

/-- **`bestSink`: every `sendingCost_[i] + cost(i, src)` fits**, for the labels `updateTree`
delivers (`TreeSpec`) while some sink still has capacity, stored costs in `[0, C]` and
`W + C ≤ INT_MAX`. -/
theorem bestSinkC_ok (p : Problem) (remCapa : List Int) (w : Nat → Nat → Int) (d' : Nat → Int) (W C : Int)
    (t : Tree) (spec : TreeSpec p.nbSinks remCapa w d' W t) (hd : ∀ i, i < p.nbSinks → 0 ≤ d' i) (hW : 0 ≤ W)
    (hfree : ∃ f, f < p.nbSinks ∧ remCapa.getD f 0 > 0) (src : Nat)
    (hc : ∀ i, i < p.nbSinks → 0 ≤ p.cost i src ∧ p.cost i src ≤ C) (hWC : W + C ≤ intMax) :
    bestSinkC p t.sendCost src = .ok (bestSink p t.sendCost src) := by
  have im : intMax = 2147483647 := rfl
  apply bestSinkFromC_ok p t.sendCost src p.nbSinks ?_ p.nbSinks 0 0 intMax (by omega)
  intro i hi
  have hlo := spec.lower i hi
  have hdi := hd i hi
  have hci := hc i hi
  have hup : t.sendCost.getD i 0 ≤ W := by
    by_cases hf : remCapa.getD i 0 > 0
    · have := (spec.free i hi hf).1; omega
    · exact (spec.full hfree i hi (by omega)).1
  omega

/-! ### at the states the solver reaches -/

/-- `TreeHyp` with the edge bound `C` of the actual fixed-point costs (all stored costs in `[0, C]`)
instead of C13's generic `Wmax`: same argument as `treeHyp_of_mid`. -/
lemma treeHyp_of_mid_bound (p : Problem) (alloc : Mat) (qs : Queues) (rem : List Int) (d : Nat → Int)
    (hm : Mid p alloc qs rem) (hp : Pot p alloc rem d) (hdle : ∀ i, i < p.nbSinks → d i ≤ intMax)
    (C : Int) (hC : ∀ i j, i < p.nbSinks → j < p.nbSources → 0 ≤ p.cost i j ∧ p.cost i j ≤ C) (hC0 : 0 ≤ C)
    (hCl : C < intMax) (hcap : ∀ i, i < p.nbSinks → 0 < p.capacity i) :
    TreeHyp p.nbSinks qs rem (wOf qs) d C := by
  have hfull : ∀ i, rem.getD i 0 ≤ 0 → rem.getD i 0 = 0 := fun i h => by have := hm.rnn i; omega
  refine ⟨hm.shape.rlen, fun i k hi hk hf => movingCostQ_wOf hm hcap i k hi hk (hfull i hf),
    fun i k hi hk hf => ?_, hCl, hC0, hp.nn, hdle, hp.free, fun i k hi hk hf => ?_⟩
  · unfold wOf
    by_cases e : i = k
    · rw [if_pos e]; exact hC0
    · rw [if_neg e]
      obtain ⟨h1, h2, _⟩ := hm.top hcap i k hi hk (fun hh => e hh.symm) (hfull i hf)
      rw [h2]
      have a := hC k _ hk h1
      have b := hC i _ hi h1
      omega
  · unfold wOf
    by_cases e : i = k
    · rw [if_pos e, e]; omega
    · rw [if_neg e]
      obtain ⟨h1, h2, h3⟩ := hm.top hcap i k hi hk (fun hh => e hh.symm) (hfull i hf)
      have := hp.red i _ k hi h1 hk h3
      omega

/-- **The path sums of `updateTree` fit in `int` at every state of the run.**  `Mid` / `Pot` are the
invariants the C13 termination proof (`Proofs/TranspSsp2Main.lean`) establishes before each call
of `updateTree` (`update_total` consumes exactly these).  With all stored costs in `[0, C]` and
`2·C ≤ INT_MAX` — `costsFromIntegers` scales to `C ≤ INT_MAX / (4·nbSinks)` — every
`movingCost(i, bestVisit) + sendingCost_[bestVisit]` is a representable `int`, and the checked
`updateTree` returns the unbounded model's tree. -/
theorem updateTreeC_at_mid (p : Problem) (alloc : Mat) (qs : Queues) (rem : List Int) (d : Nat → Int)
    (hm : Mid p alloc qs rem) (hp : Pot p alloc rem d) (hdle : ∀ i, i < p.nbSinks → d i ≤ intMax)
    (C : Int) (hC : ∀ i j, i < p.nbSinks → j < p.nbSources → 0 ≤ p.cost i j ∧ p.cost i j ≤ C)
    (h2C : 2 * C ≤ intMax) (hC0 : 0 ≤ C) (hcap : ∀ i, i < p.nbSinks → 0 < p.capacity i) :
    ∃ t, updateTreeC p qs rem = .ok t ∧ updateTree p qs rem = .ok t ∧
      TreeSpec p.nbSinks rem (wOf qs) d C t := by
  have im : intMax = 2147483647 := rfl
  have hyp := treeHyp_of_mid_bound p alloc qs rem d hm hp hdle C hC hC0 (by omega) hcap
  obtain ⟨t, ht, spec⟩ := updateTree_spec p qs rem (wOf qs) d C hyp
  refine ⟨t, ?_, ht, spec⟩
  rw [updateTreeC_ok p qs rem (wOf qs) d C hyp h2C, ht]
  rfl

/-- `movingCost(src, snk1, snk2)` for stored costs in `[0, C]`, `C ≤ INT_MAX` -/
theorem movingCostC_ok (p : Problem) (src snk1 snk2 : Nat) (C : Int)
    (h1 : 0 ≤ p.cost snk1 src ∧ p.cost snk1 src ≤ C) (h2 : 0 ≤ p.cost snk2 src ∧ p.cost snk2 src ≤ C)
    (hC : C ≤ intMax) : movingCostC p src snk1 snk2 = .ok (p.movingCost src snk1 snk2) := by
  have im : intMax = 2147483647 := rfl
  exact chk32_ok' (by omega) (by omega)

end ColoVerif.Transp
