import ColoVerif.Proofs.RowLegOpt
import ColoVerif.Proofs.LegalizeRowLeg
/-
Helper lemmas for C11/C01, part 2: a lower bound on the cost `RowLegalizer::push/getCost` reports
in any reachable state: at least `width · |x − target|` for a position `x` inside the segment.
-/
namespace ColoVerif.RowLeg

theorem legalRev_mono (b : Int) : ∀ (ws ys : List Int) (hi hi' : Int), hi ≤ hi' →
    LegalRev b hi ws ys → LegalRev b hi' ws ys
  | [], [], _, _, h, hl => by simp only [LegalRev] at *; omega
  | [], _ :: _, _, _, _, hl => by simp [LegalRev] at hl
  | _ :: _, [], _, _, _, hl => by simp [LegalRev] at hl
  | w :: ws, y :: ys, _, _, h, hl => by
    simp only [LegalRev] at *
    exact ⟨by omega, hl.2⟩

/-- In a reachable state, a push that fits costs at least `w·|x − t|` for some `x` with
`b ≤ x`, `x + w ≤ e` (the position the new cell takes).  In particular it is non-negative, and
positive when the target is not a feasible position. -/
theorem push_cost_ge {b e : Int} {h : List (Int × Int)} {C : Int} {s : State} (hr : Reach b e h C s)
    (w t : Int) (hw : 0 < w) (hfit : w ≤ s.remaining) :
    ∃ x, b ≤ x ∧ x + w ≤ e ∧ w * ((x - t).natAbs : Int) ≤ (push s w t).1 := by
  have hr' := Reach.push w t hr hw hfit
  have hi := reach_inv hr
  have hi' := reach_inv hr'
  have hbe : b ≤ e := aligned_b_le_e b e _ _ hi'.aligned (by rw [push_widthsRev]; simp)
  have hL := inv_legalRev hi' hbe
  have hex := reach_cost_exact hr'
  rw [push_widthsRev] at hL
  cases hp : placementRev (push s w t).2 with
  | nil => rw [hp] at hL; simp [LegalRev] at hL
  | cons x ys =>
    rw [hp] at hL hex
    simp only [LegalRev] at hL
    simp only [dispCost] at hex
    have hpos := aligned_pos b e _ _ hi.aligned
    have hsum := aligned_sum_nonneg b e _ _ hi.aligned
    have hlo := legalRev_lo b _ ys x (fun v hv => by have := hpos v hv; omega) hL.2
    have hopt := reach_optimal hr ys (legalRev_mono b _ _ x e (by omega) hL.2)
    rw [reach_cost_exact hr] at hopt
    exact ⟨x, by omega, hL.1, by omega⟩

theorem push_cost_nonneg {b e : Int} {h : List (Int × Int)} {C : Int} {s : State} (hr : Reach b e h C s)
    (w t : Int) (hw : 0 < w) (hfit : w ≤ s.remaining) : 0 ≤ (push s w t).1 := by
  obtain ⟨x, _, _, hx⟩ := push_cost_ge hr w t hw hfit
  have : 0 ≤ w * ((x - t).natAbs : Int) := Int.mul_nonneg (by omega) (by omega)
  omega

/-- positive cost when the whole segment lies left or right of the target span `[t, t + w]` -/
theorem push_cost_pos {b e : Int} {h : List (Int × Int)} {C : Int} {s : State} (hr : Reach b e h C s)
    (w t : Int) (hw : 0 < w) (hfit : w ≤ s.remaining) (hout : e ≤ t ∨ t + w ≤ b) : 0 < (push s w t).1 := by
  obtain ⟨x, h1, h2, hx⟩ := push_cost_ge hr w t hw hfit
  have h3 : 1 ≤ ((x - t).natAbs : Int) := by omega
  have : w * 1 ≤ w * ((x - t).natAbs : Int) := Int.mul_le_mul_of_nonneg_left h3 (by omega)
  omega

end ColoVerif.RowLeg
