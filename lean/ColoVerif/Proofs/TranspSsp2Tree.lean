/-
C13, `updateTree` (part C): termination measure, the loop `treeLoop`, the exit condition,
acyclicity/depth of `sinkParent_`, and the specification `updateTree_spec`.

`updateTree` is a label-correcting shortest-path search ("Dijkstra with re-opening").  Partial
correctness does not use the minimality of the selected sink; termination uses the measure
`#open + Σ labels` which drops by at least one per round and is bounded by `n·2³¹` initially
(this is the `treeFuel` of the model).
-/
import ColoVerif.Proofs.TranspSsp2TreeB

namespace ColoVerif.Transp

/-! ### finite sums -/

def isum (f : Nat → Int) : Nat → Int
  | 0 => 0
  | k + 1 => isum f k + f k

lemma isum_le (f g : Nat → Int) : ∀ n : Nat, (∀ j, j < n → g j ≤ f j) → isum g n ≤ isum f n := by
  intro n
  induction n with
  | zero => intro _; exact Int.le_refl _
  | succ n ih =>
    intro h
    have := ih (fun j hj => h j (by omega))
    have := h n (by omega)
    simp only [isum]
    omega

lemma isum_lt (f g : Nat → Int) : ∀ n : Nat, (∀ j, j < n → g j ≤ f j) →
    ∀ bv, bv < n → g bv + 1 ≤ f bv → isum g n + 1 ≤ isum f n := by
  intro n
  induction n with
  | zero => intro _ bv hbv; omega
  | succ n ih =>
    intro h bv hbv hs
    simp only [isum]
    by_cases e : bv = n
    · subst e
      have := isum_le f g bv (fun j hj => h j (by omega))
      omega
    · have := ih (fun j hj => h j (by omega)) bv (by omega) hs
      have := h n (by omega)
      omega

lemma isum_nonneg (f : Nat → Int) : ∀ n : Nat, (∀ j, j < n → 0 ≤ f j) → 0 ≤ isum f n := by
  intro n
  induction n with
  | zero => intro _; exact Int.le_refl _
  | succ n ih =>
    intro h
    have := ih (fun j hj => h j (by omega))
    have := h n (by omega)
    simp only [isum]
    omega

lemma isum_le_const (f : Nat → Int) : ∀ n : Nat, (∀ j, j < n → f j ≤ 2147483648) →
    isum f n ≤ (n : Int) * 2147483648 := by
  intro n
  induction n with
  | zero => intro _; simp [isum]
  | succ n ih =>
    intro h
    have := ih (fun j hj => h j (by omega))
    have := h n (by omega)
    simp only [isum]
    push_cast
    omega

/-! ### the termination measure -/

def muf (t : Tree) (k : Nat) : Int := (if vis t k = true then 1 else 0) + lab t k

/-- `#open + Σ labels` -/
def mu (t : Tree) (n : Nat) : Int := isum (muf t) n

lemma mu_nonneg {n : Nat} {qs : Queues} {remCapa : List Int} {w : Nat → Nat → Int} {d' : Nat → Int} {W : Int}
    (hyp : TreeHyp n qs remCapa w d' W) (t : Tree) (inv : TInv n remCapa w d' W t) : 0 ≤ mu t n := by
  apply isum_nonneg
  intro j hj
  have := inv.b j hj
  have := hyp.dnn j hj
  unfold muf
  split <;> omega

lemma round_mu {n : Nat} {qs : Queues} {remCapa : List Int} {w : Nat → Nat → Int} {d' : Nat → Int} {W : Int}
    (hyp : TreeHyp n qs remCapa w d' W) (t t' : Tree) (bv : Nat) (hbv : bv < n)
    (hv : vis t bv = true) (wf' : TWF n t')
    (r : RelaxRel remCapa w bv 0 n t t') : mu (closeT t' bv) n + 1 ≤ mu t n := by
  have hw0 := hyp.w0 bv hbv
  obtain ⟨sl, _, _⟩ := r.bv_same hw0
  have vc := vis_closeT n t' wf' bv
  apply isum_lt (muf t) (muf (closeT t' bv)) n ?_ bv hbv ?_
  · intro j hj
    unfold muf
    rw [lab_closeT, vc j hbv]
    by_cases e : j = bv
    · subst e
      rw [sl, hv]
      simp
    · simp only [e, if_false]
      rcases r.step j with ⟨h1, _, h3⟩ | ⟨_, _, _, h4, h5, _, _⟩
      · rw [h1, h3]
      · split <;> split <;> omega
  · unfold muf
    rw [lab_closeT, vc bv hbv, sl, hv]
    simp only [if_true, Bool.false_eq_true, if_false]
    omega

lemma init_mu {n : Nat} {qs : Queues} {remCapa : List Int} {w : Nat → Nat → Int} {d' : Nat → Int} {W : Int}
    (hyp : TreeHyp n qs remCapa w d' W) : mu (initT remCapa) n < ((treeFuel n : Nat) : Int) := by
  have hlen := hyp.len
  have im : intMax = 2147483647 := rfl
  have : mu (initT remCapa) n ≤ (n : Int) * 2147483648 := by
    apply isum_le_const
    intro j hj
    unfold muf
    rw [lab_initT remCapa j (by omega), vis_initT remCapa j (by omega)]
    by_cases hf : remCapa.getD j 0 > 0
    · rw [if_pos hf, decide_eq_true hf]
      simp
    · rw [if_neg hf, decide_eq_false hf]
      simp only [Bool.false_eq_true, if_false]
      omega
  unfold treeFuel
  push_cast
  omega

/-! ### the loop -/

theorem treeLoop_spec {n : Nat} {qs : Queues} {remCapa : List Int} {w : Nat → Nat → Int} {d' : Nat → Int} {W : Int}
    (hyp : TreeHyp n qs remCapa w d' W) :
    ∀ (fuel : Nat) (t : Tree), TInv n remCapa w d' W t → mu t n < (fuel : Int) →
      ∃ t', treeLoop n qs remCapa fuel t = .ok t' ∧ TInv n remCapa w d' W t' ∧
        pickVisit t' n 0 none intMax = none := by
  intro fuel
  induction fuel with
  | zero =>
    intro t inv h
    have := mu_nonneg hyp t inv
    simp at h
    omega
  | succ fuel ih =>
    intro t inv h
    rw [treeLoop]
    cases hp : pickVisit t n 0 none intMax with
    | none => exact ⟨t, rfl, inv, hp⟩
    | some bv =>
      simp only
      rcases pickVisit_some t n 0 none intMax bv hp with e | ⟨_, hbv, hv, hl⟩
      · exact absurd e (by simp)
      · have hbv' : bv < n := by omega
        obtain ⟨t1, e1, wf1, r⟩ := relax_spec n qs remCapa w bv hbv' (hyp.w0 bv hbv')
          (fun i hi hf => hyp.mc i bv hi hbv' hf) n 0 t (by omega) inv.wf
        rw [e1]
        simp only
        have inv' := round_inv hyp t t1 bv hbv' hl inv wf1 r
        have hmu := round_mu hyp t t1 bv hbv' hv wf1 r
        exact ih (closeT t1 bv) inv' (by push_cast at h; omega)

/-! ### acyclicity: the depth of `sinkParent_` -/

lemma nodup_length_le (n : Nat) (l : List Nat) (hnd : l.Nodup) (h : ∀ x, x ∈ l → x < n) : l.length ≤ n := by
  have := hnd.length_le_of_subset (l₂ := List.range n) (fun x hx => List.mem_range.2 (h x hx))
  rw [List.length_range] at this
  exact this

lemma chain_exists (n : Nat) (parent : List (Option Nat)) (T : Nat → Nat)
    (hT : ∀ i k, i < n → parent.getD i none = some k → k < n ∧ T k < T i) :
    ∀ (m i : Nat), i < n → T i < m →
      ∃ (d : Nat) (l : List Nat), l.length = d + 1 ∧ l.Nodup ∧ (∀ x, x ∈ l → x < n ∧ T x ≤ T i) ∧
        depthIs parent d i := by
  intro m
  induction m with
  | zero => intro i _ h; omega
  | succ m ih =>
    intro i hi hm
    cases hP : parent.getD i none with
    | none =>
      refine ⟨0, [i], rfl, by simp, ?_, hP⟩
      intro x hx
      have : x = i := by simpa using hx
      subst this
      exact ⟨hi, Nat.le_refl _⟩
    | some k =>
      obtain ⟨hk, hTk⟩ := hT i k hi hP
      obtain ⟨d, l, h1, h2, h3, h4⟩ := ih k hk (by omega)
      refine ⟨d + 1, i :: l, by simp [h1], ?_, ?_, ⟨k, hP, h4⟩⟩
      · rw [List.nodup_cons]
        refine ⟨?_, h2⟩
        intro hmem
        have := (h3 i hmem).2
        omega
      · intro x hx
        rcases List.mem_cons.1 hx with e | e
        · subst e; exact ⟨hi, Nat.le_refl _⟩
        · have := h3 x e
          exact ⟨this.1, by omega⟩

lemma depth_of_rank (n : Nat) (parent : List (Option Nat)) (T : Nat → Nat)
    (hT : ∀ i k, i < n → parent.getD i none = some k → k < n ∧ T k < T i) :
    ∀ i, i < n → ∃ k, k < n ∧ depthIs parent k i := by
  intro i hi
  obtain ⟨d, l, h1, h2, h3, h4⟩ := chain_exists n parent T hT (T i + 1) i hi (by omega)
  have := nodup_length_le n l h2 (fun x hx => (h3 x hx).1)
  exact ⟨d, by omega, h4⟩

/-! ### the exit condition -/

theorem exit_spec {n : Nat} {qs : Queues} {remCapa : List Int} {w : Nat → Nat → Int} {d' : Nat → Int} {W : Int}
    (hyp : TreeHyp n qs remCapa w d' W) (t : Tree) (inv : TInv n remCapa w d' W t)
    (hp : pickVisit t n 0 none intMax = none) : TreeSpec n remCapa w d' W t := by
  have hW := hyp.Wlt
  have hW0 := hyp.Wnn
  -- every sink is closed
  have closed : ∀ j, j < n → vis t j = false := by
    intro j hj
    have := (pickVisit_none t n 0 none intMax hp).2 j (Nat.zero_le _) (by omega)
    cases hv : vis t j with
    | false => rfl
    | true => exact absurd ⟨hv, inv.c1 j hj hv⟩ this
  -- all edges into a labelled sink are relaxed
  have edge0 : ∀ k, k < n → lab t k < intMax → ∀ i, i < n → remCapa.getD i 0 ≤ 0 →
      lab t i ≤ w i k + lab t k := fun k hk hl => inv.c k hk (closed k hk) hl
  -- with a free sink every label is finite
  have fin : (∃ f, f < n ∧ remCapa.getD f 0 > 0) → ∀ k, k < n → lab t k < intMax := by
    intro ⟨f, hf, hff⟩ k hk
    by_cases hfk : remCapa.getD k 0 > 0
    · have := (inv.a k hk hfk).1
      omega
    · have := inv.e ⟨f, hf, hff, closed f hf⟩ k hk (by omega)
      omega
  refine ⟨inv.wf.lc, inv.wf.lp, inv.a, inv.b, inv.ub, ?_, ?_, ?_⟩
  · intro hfree i k hi hk hfi
    exact edge0 k hk (fin hfree k hk) i hi hfi
  · intro hfree i hi hfi
    obtain ⟨f, hf, hff⟩ := hfree
    have hiW := inv.e ⟨f, hf, hff, closed f hf⟩ i hi hfi
    refine ⟨hiW, ?_⟩
    obtain ⟨k, hk⟩ := inv.p1 i hi hfi (by omega)
    obtain ⟨T, hT⟩ := inv.d
    obtain ⟨g1, g2, _, g4, g5, _⟩ := hT i k hi hk
    have := edge0 k g1 g4 i hi hfi
    have tight : lab t i = w i k + lab t k := by omega
    exact ⟨k, g1, g2, hk, tight⟩
  · obtain ⟨T, hT⟩ := inv.d
    apply depth_of_rank n t.parent T
    intro i k hi hk
    obtain ⟨g1, _, g3, g4, g5, g6⟩ := hT i k hi hk
    have := edge0 k g1 g4 i hi g3
    exact ⟨g1, g6 (by omega)⟩

/-! ### `updateTree` -/

theorem updateTree_spec (p : Problem) (qs : Queues) (remCapa : List Int) (w : Nat → Nat → Int) (d' : Nat → Int) (W : Int)
    (h : TreeHyp p.nbSinks qs remCapa w d' W) :
    ∃ t, updateTree p qs remCapa = .ok t ∧ TreeSpec p.nbSinks remCapa w d' W t := by
  obtain ⟨t, e, inv, hp⟩ := treeLoop_spec h (treeFuel p.nbSinks) (initT remCapa) (init_inv h) (init_mu h)
  exact ⟨t, e, exit_spec h t inv hp⟩

end ColoVerif.Transp
