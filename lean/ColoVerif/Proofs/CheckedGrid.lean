import ColoVerif.Model.GridChecked
import ColoVerif.Proofs.CheckedCores
import ColoVerif.Proofs.GridCap
import ColoVerif.Proofs.SpreadGrid
import ColoVerif.Proofs.GridHier
/-
C07: the integer bookkeeping of `DensityGrid` evaluates without fault on the C07 domain and returns what
the unbounded model `Model/Grid.lean` returns (checked twins: `Model/GridChecked.lean`).
The `HierarchicalDensityPlacement` part is `Proofs/CheckedGridHier.lean`.
-/
namespace ColoVerif.Grid
open ColoVerif.Checked

/-! ### generic loops -/

theorem andThen_ok {α β : Type} (a : α) (f : α → Except Fault β) : andThen (.ok a) f = f a := rfl

theorem mapC_ok {α β : Type} (f : α → Except Fault β) (g : α → β) :
    ∀ l : List α, (∀ a ∈ l, f a = .ok (g a)) → mapC f l = .ok (l.map g)
  | [], _ => rfl
  | a :: as, h => by
    have ha := h a (by simp)
    have ih := mapC_ok f g as (fun b hb => h b (by simp [hb]))
    simp only [mapC, ha, ih, andThen_ok, List.map_cons]

theorem forAllC_ok {α : Type} (f : α → Except Fault Unit) :
    ∀ l : List α, (∀ a ∈ l, f a = .ok ()) → forAllC f l = .ok ()
  | [], _ => rfl
  | a :: as, h => by
    have ha := h a (by simp)
    have ih := forAllC_ok f as (fun b hb => h b (by simp [hb]))
    simp only [forAllC, ha, ih, andThen_ok]

theorem sum_nonneg_int : ∀ l : List Int, (∀ v ∈ l, 0 ≤ v) → 0 ≤ l.sum
  | [], _ => by simp
  | v :: vs, h => by
    have := h v (by simp)
    have := sum_nonneg_int vs (fun x hx => h x (by simp [hx]))
    simp only [List.sum_cons]; omega

theorem sum_le_mul (B : Int) : ∀ l : List Int, (∀ v ∈ l, v ≤ B) → l.sum ≤ B * (l.length : Int)
  | [], _ => by simp
  | v :: vs, h => by
    have h1 := h v (by simp)
    have h2 := sum_le_mul B vs (fun x hx => h x (by simp [hx]))
    simp only [List.sum_cons, List.length_cons, Int.natCast_add, Int.natCast_one, Int.mul_add, Int.mul_one]
    omega

/-- a `long long` accumulation of non-negative terms whose total fits never overflows -/
theorem sumC_ok (site : String) : ∀ (l : List Int) (acc : Int), (∀ v ∈ l, 0 ≤ v) → 0 ≤ acc →
    acc + l.sum ≤ 9223372036854775807 → sumC site l acc = .ok (acc + l.sum)
  | [], acc, _, _, _ => by simp [sumC]
  | v :: vs, acc, h, h0, hb => by
    have hv := h v (by simp)
    have hs : 0 ≤ vs.sum := sum_nonneg_int vs (fun x hx => h x (by simp [hx]))
    simp only [List.sum_cons] at hb
    have e : addI64 site acc v = .ok (acc + v) := chk64_ok' (by omega) (by omega)
    have ih := sumC_ok site vs (acc + v) (fun x hx => h x (by simp [hx])) (by omega) (by omega)
    simp only [sumC, e, andThen_ok, ih, List.sum_cons]
    congr 1; omega

/-! ### rectangles -/

/-- all four coordinates within ±2^22 -/
def In22 (r : Rect) : Prop :=
  -4194304 ≤ r.minX ∧ r.minX ≤ 4194304 ∧ -4194304 ≤ r.maxX ∧ r.maxX ≤ 4194304 ∧
  -4194304 ≤ r.minY ∧ r.minY ≤ 4194304 ∧ -4194304 ≤ r.maxY ∧ r.maxY ≤ 4194304

instance (r : Rect) : Decidable (In22 r) := by unfold In22; exact inferInstance

theorem interAreaC_ok (reg bin : Rect) (h1 : In22 reg) (h2 : In22 bin)
    (v1 : reg.minX ≤ reg.maxX ∧ reg.minY ≤ reg.maxY) (v2 : bin.minX ≤ bin.maxX ∧ bin.minY ≤ bin.maxY) :
    interAreaC reg bin = .ok (interArea reg bin) ∧ 0 ≤ interArea reg bin ∧ interArea reg bin ≤ 70368744177664 := by
  unfold interAreaC interArea
  by_cases hi : reg.intersects bin = true
  · simp only [hi, if_true]
    have hf : reg.minX < bin.maxX ∧ bin.minX < reg.maxX ∧ reg.minY < bin.maxY ∧ bin.minY < reg.maxY := by
      simpa [Rect.intersects, and_assoc] using hi
    obtain ⟨a1, a2, a3, a4, a5, a6, a7, a8⟩ := h1
    obtain ⟨b1, b2, b3, b4, b5, b6, b7, b8⟩ := h2
    unfold areaC Rect.area Rect.width Rect.height Rect.intersection
    simp only []
    have hw : 0 ≤ min reg.maxX bin.maxX - max reg.minX bin.minX ∧
        min reg.maxX bin.maxX - max reg.minX bin.minX ≤ 8388608 := by omega
    have hh : 0 ≤ min reg.maxY bin.maxY - max reg.minY bin.minY ∧
        min reg.maxY bin.maxY - max reg.minY bin.minY ≤ 8388608 := by omega
    have hp := mul_bound_nonneg hw.1 hw.2 hh.1 hh.2
    have e1 : subI32 "Rectangle::width: maxX - minX" (min reg.maxX bin.maxX) (max reg.minX bin.minX) =
        .ok (min reg.maxX bin.maxX - max reg.minX bin.minX) := chk32_ok' (by omega) (by omega)
    have e2 : subI32 "Rectangle::height: maxY - minY" (min reg.maxY bin.maxY) (max reg.minY bin.minY) =
        .ok (min reg.maxY bin.maxY - max reg.minY bin.minY) := chk32_ok' (by omega) (by omega)
    have e3 : mulI64 "Rectangle::area: (long long)width() * (long long)height()"
        (min reg.maxX bin.maxX - max reg.minX bin.minX) (min reg.maxY bin.maxY - max reg.minY bin.minY) =
        .ok ((min reg.maxX bin.maxX - max reg.minX bin.minX) * (min reg.maxY bin.maxY - max reg.minY bin.minY)) :=
      chk64_ok' (by omega) (by omega)
    simp only [e1, e2, e3, andThen_ok]
    exact ⟨trivial, hp.1, by omega⟩
  · simp only [hi]
    simp

/-! ### limits -/

theorem binLimitC_ok (asr : Bool) (lim : List Int) (k : Nat) (hk : k < lim.length) :
    binLimitC asr lim (k : Int) = .ok (lim.getD k 0) := by
  unfold binLimitC
  rw [assertC_true asr _ (decide_eq_true (by omega))]
  simp [andThen, indexC, hk]

theorem indexC_nat (site : String) (lim : List Int) (k : Nat) (hk : k < lim.length) :
    indexC site lim (k : Int) = .ok (lim.getD k 0) := by
  simp [indexC, hk]

theorem idx1C_ok (site : String) (lim : List Int) (k : Nat) (hk : k + 1 < lim.length)
    (hl : lim.length ≤ 2147483647) : idx1C site lim k = .ok (lim.getD (k + 1) 0) := by
  unfold idx1C
  have e : addI32 site (k : Int) 1 = .ok (((k + 1 : Nat) : Int)) := by
    have : (k : Int) + 1 = ((k + 1 : Nat) : Int) := by omega
    unfold addI32; rw [this]; exact chk32_ok' (by omega) (by omega)
  rw [e]
  simp only [andThen_ok]
  exact indexC_nat site lim (k + 1) hk

theorem regionOfC_ok (asr : Bool) (limX limY : List Int) (i j : Nat) (hi : i + 1 < limX.length)
    (hj : j + 1 < limY.length) (hlx : limX.length ≤ 2147483647) (hly : limY.length ≤ 2147483647) :
    regionOfC asr limX limY i j = .ok (regionOf limX limY i j) := by
  unfold regionOfC regionOf
  have ei : addI32 "DensityGrid::region: i + 1" (i : Int) 1 = .ok ((i : Int) + 1) := chk32_ok' (by omega) (by omega)
  have ej : addI32 "DensityGrid::region: j + 1" (j : Int) 1 = .ok ((j : Int) + 1) := chk32_ok' (by omega) (by omega)
  have b1 := binLimitC_ok asr limX i (by omega)
  have b2 := binLimitC_ok asr limX (i + 1) hi
  have b3 := binLimitC_ok asr limY j (by omega)
  have b4 := binLimitC_ok asr limY (j + 1) hj
  simp only [Int.natCast_add, Int.natCast_one] at b2 b4
  simp only [b1, andThen_ok, ei, b2, b3, ej, b4]

/-- every limit within ±2^22 -/
def LimIn22 (lim : List Int) : Prop := ∀ l ∈ lim, -4194304 ≤ l ∧ l ≤ 4194304

theorem LimIn22.getD {lim : List Int} (h : LimIn22 lim) (k : Nat) :
    -4194304 ≤ lim.getD k 0 ∧ lim.getD k 0 ≤ 4194304 := by
  by_cases hk : k < lim.length
  · apply h
    rw [List.getD_eq_getElem?_getD, List.getElem?_eq_getElem hk]
    exact List.getElem_mem hk
  · have : lim.getD k 0 = 0 := by
      rw [List.getD_eq_getElem?_getD, List.getElem?_eq_none (by omega)]; rfl
    omega

theorem regionOf_in22 (limX limY : List Int) (hx : LimIn22 limX) (hy : LimIn22 limY) (i j : Nat) :
    In22 (regionOf limX limY i j) := by
  have a := hx.getD i; have b := hx.getD (i + 1); have c := hy.getD j; have d := hy.getD (j + 1)
  unfold In22 regionOf
  exact ⟨a.1, a.2, b.1, b.2, c.1, c.2, d.1, d.2⟩

/-- a well-formed rectangle within ±2^22 -/
def RectOk (r : Rect) : Prop := In22 r ∧ r.minX ≤ r.maxX ∧ r.minY ≤ r.maxY

instance (r : Rect) : Decidable (RectOk r) := by unfold RectOk; exact inferInstance

theorem binCapOfC_ok (asr : Bool) (limX limY : List Int) (regions : List Rect) (i j : Nat)
    (hi : i + 1 < limX.length) (hj : j + 1 < limY.length)
    (hlx : limX.length ≤ 2147483647) (hly : limY.length ≤ 2147483647)
    (hx : LimIn22 limX) (hy : LimIn22 limY) (px : limX.Pairwise (· ≤ ·)) (py : limY.Pairwise (· ≤ ·))
    (hr : ∀ r ∈ regions, RectOk r) (hn : regions.length ≤ 65536) :
    binCapOfC asr limX limY regions i j = .ok (binCapOf limX limY regions i j) ∧
    0 ≤ binCapOf limX limY regions i j := by
  unfold binCapOfC binCapOf
  rw [regionOfC_ok asr limX limY i j hi hj hlx hly]
  simp only [andThen_ok]
  have hb := regionOf_in22 limX limY hx hy i j
  have hv : (regionOf limX limY i j).minX ≤ (regionOf limX limY i j).maxX ∧
      (regionOf limX limY i j).minY ≤ (regionOf limX limY i j).maxY :=
    ⟨pairwise_getD_le limX px i hi, pairwise_getD_le limY py j hj⟩
  have hia := fun r (h : r ∈ regions) => interAreaC_ok r (regionOf limX limY i j) (hr r h).1 hb (hr r h).2 hv
  rw [mapC_ok (fun reg => interAreaC reg (regionOf limX limY i j)) (fun reg => interArea reg (regionOf limX limY i j))
    regions (fun r h => (hia r h).1)]
  rw [andThen_ok]
  have hnn : ∀ v ∈ regions.map (fun reg => interArea reg (regionOf limX limY i j)), 0 ≤ v := by
    intro v hv; obtain ⟨r, h, rfl⟩ := List.mem_map.mp hv; exact (hia r h).2.1
  have hle : ∀ v ∈ regions.map (fun reg => interArea reg (regionOf limX limY i j)), v ≤ 70368744177664 := by
    intro v hv; obtain ⟨r, h, rfl⟩ := List.mem_map.mp hv; exact (hia r h).2.2
  have hs := sum_le_mul 70368744177664 _ hle
  rw [List.length_map] at hs
  have hs0 := sum_nonneg_int _ hnn
  have := sumC_ok "updateBinCapacity: binCapacity_[i][j] += intersection.area()" _ 0 hnn (by omega) (by omega)
  rw [this]
  exact ⟨by simp, hs0⟩

theorem capacitiesC_ok (asr : Bool) (limX limY : List Int) (regions : List Rect)
    (hlx : limX.length ≤ 2147483647) (hly : limY.length ≤ 2147483647)
    (hx : LimIn22 limX) (hy : LimIn22 limY) (px : limX.Pairwise (· ≤ ·)) (py : limY.Pairwise (· ≤ ·))
    (hr : ∀ r ∈ regions, RectOk r) (hn : regions.length ≤ 65536) :
    capacitiesC asr limX limY regions = .ok (capacities limX limY regions) := by
  unfold capacitiesC capacities
  apply mapC_ok
  intro i hi
  have hi' := List.mem_range.mp hi
  apply mapC_ok
  intro j hj
  have hj' := List.mem_range.mp hj
  exact (binCapOfC_ok asr limX limY regions i j (by omega) (by omega) hlx hly hx hy px py hr hn).1

theorem centerSumsC_ok (lim : List Int) (hl : lim.length ≤ 2147483647) (h : LimIn22 lim) :
    centerSumsC lim = .ok (centerSums lim) := by
  unfold centerSumsC centerSums
  apply mapC_ok
  intro i hi
  have hi' := List.mem_range.mp hi
  have a := h.getD i; have b := h.getD (i + 1)
  rw [indexC_nat _ lim i (by omega), idx1C_ok _ lim i (by omega) hl]
  simp only [andThen_ok]
  exact chk32_ok' (by omega) (by omega)

theorem pairwise_getD_le' (l : List Int) (hl : l.Pairwise (· ≤ ·)) (i : Nat) (hi : i + 1 < l.length) :
    l.getD i 0 ≤ l.getD (i + 1) 0 := pairwise_getD_le l hl i hi

theorem sizeCapC_ok (asr : Bool) (limX limY : List Int) (i j : Nat) (hi : i + 1 < limX.length)
    (hj : j + 1 < limY.length) (hlx : limX.length ≤ 2147483647) (hly : limY.length ≤ 2147483647)
    (hx : LimIn22 limX) (hy : LimIn22 limY) (px : limX.Pairwise (· ≤ ·)) (py : limY.Pairwise (· ≤ ·)) :
    sizeCapC asr limX limY i j = .ok (sizeCap limX limY i j) := by
  have a := hx.getD i; have b := hx.getD (i + 1); have c := hy.getD j; have d := hy.getD (j + 1)
  have mx := pairwise_getD_le' limX px i hi
  have my := pairwise_getD_le' limY py j hj
  unfold sizeCapC sizeCap
  rw [idx1C_ok _ limX i hi hlx, idx1C_ok _ limY j hj hly]
  simp only [andThen_ok, indexC_nat _ limX i (by omega), indexC_nat _ limY j (by omega)]
  have e1 : subI32 "updateBinCapacity: binLimitX_[i + 1] - binLimitX_[i]" (limX.getD (i + 1) 0) (limX.getD i 0) =
      .ok (limX.getD (i + 1) 0 - limX.getD i 0) := chk32_ok' (by omega) (by omega)
  have e2 : subI32 "updateBinCapacity: binLimitY_[j + 1] - binLimitY_[j]" (limY.getD (j + 1) 0) (limY.getD j 0) =
      .ok (limY.getD (j + 1) 0 - limY.getD j 0) := chk32_ok' (by omega) (by omega)
  simp only [e1, e2, andThen_ok]
  rw [assertC_true asr _ (decide_eq_true (by omega)), andThen_ok, assertC_true asr _ (decide_eq_true (by omega)), andThen_ok]
  have hp := mul_bound_nonneg (a := limX.getD (i + 1) 0 - limX.getD i 0) (c := limY.getD (j + 1) 0 - limY.getD j 0)
    (A := 8388608) (C := 8388608) (by omega) (by omega) (by omega) (by omega)
  exact chk64_ok' (by omega) (by omega)

theorem sizeCapsC_ok (asr : Bool) (limX limY : List Int)
    (hlx : limX.length ≤ 2147483647) (hly : limY.length ≤ 2147483647)
    (hx : LimIn22 limX) (hy : LimIn22 limY) (px : limX.Pairwise (· ≤ ·)) (py : limY.Pairwise (· ≤ ·)) :
    ∃ t, sizeCapsC asr limX limY = .ok t := by
  refine ⟨(List.range (limX.length - 1)).map fun i => (List.range (limY.length - 1)).map fun j => sizeCap limX limY i j, ?_⟩
  unfold sizeCapsC
  apply mapC_ok (g := fun i => (List.range (limY.length - 1)).map fun j => sizeCap limX limY i j)
  intro i hi
  have hi' := List.mem_range.mp hi
  apply mapC_ok
  intro j hj
  have hj' := List.mem_range.mp hj
  exact sizeCapC_ok asr limX limY i j (by omega) (by omega) hlx hly hx hy px py

theorem adjLe_of_pairwise : ∀ l : List Int, l.Pairwise (· ≤ ·) → adjLe l = true
  | [], _ => rfl
  | [_], _ => rfl
  | a :: b :: rest, h => by
    have h1 : a ≤ b := (List.pairwise_cons.mp h).1 b (by simp)
    have h2 := adjLe_of_pairwise (b :: rest) (List.pairwise_cons.mp h).2
    simp [adjLe, h1, h2]

/-! ### `computeSubdivisions`: the two unbounded models agree -/

theorem subdivLoop_eq (mn mx : Int) (n : Nat) : ∀ (k i : Nat),
    Checked.subdivLoop mn mx (n : Int) k (i : Int) = (List.range' i k).map (subdivAt mn mx n)
  | 0, _ => rfl
  | k + 1, i => by
    have ih := subdivLoop_eq mn mx n k (i + 1)
    have e : ((i + 1 : Nat) : Int) = (i : Int) + 1 := by omega
    rw [e] at ih
    simp only [Checked.subdivLoop, ih, List.range'_succ, List.map_cons]
    rfl

theorem subdivisions_eq (mn mx : Int) (n : Nat) :
    Checked.subdivisions mn mx (n : Int) = computeSubdivisions mn mx n := by
  unfold Checked.subdivisions computeSubdivisions
  have e : ((n : Int) + 1).toNat = n + 1 := by omega
  rw [e]
  have := subdivLoop_eq mn mx n (n + 1) 0
  simp only [Int.natCast_zero] at this
  rw [this, List.range_eq_range']

theorem nbBinsForC_ok (site : String) (mx mn binSize : Int) (h1 : -4194304 ≤ mn) (h2 : mx ≤ 4194304) (hle : mn ≤ mx)
    (hb : 1 ≤ binSize) :
    nbBinsForC site mx mn binSize = .ok ((nbBinsFor (mx - mn) binSize : Nat) : Int) ∧
    1 ≤ nbBinsFor (mx - mn) binSize ∧ nbBinsFor (mx - mn) binSize ≤ 8388608 := by
  have hw : mx - mn ≤ (mx - mn) * binSize := by
    have := Int.mul_le_mul_of_nonneg_left hb (show 0 ≤ mx - mn by omega)
    simpa using this
  have hq := tdiv_bounds (a := mx - mn) (n := binSize) (e := mx - mn) (by omega) (by omega) hw
  unfold nbBinsForC nbBinsFor
  have e1 : subI32 ("Rectangle::" ++ site ++ ": max - min") mx mn = .ok (mx - mn) := chk32_ok' (by omega) (by omega)
  have e2 : divI32 ("updateBinsToSize: placementArea_." ++ site ++ "() / maxSize") (mx - mn) binSize =
      .ok (Int.tdiv (mx - mn) binSize) := by
    have hne : ¬ binSize = 0 := by omega
    simp only [divI32, hne, if_false]
    exact chk32_ok' (by omega) (by omega)
  simp only [e1, e2, andThen_ok]
  refine ⟨?_, by omega, by omega⟩
  congr 1
  omega

/-! ### the constructor -/

theorem subdiv_limits (mn mx : Int) (n : Nat) (h1 : -4194304 ≤ mn) (h2 : mx ≤ 4194304) (hle : mn ≤ mx)
    (hn1 : 1 ≤ n) (hn2 : n ≤ 8388608) :
    (computeSubdivisions mn mx n).length ≤ 2147483647 ∧ LimIn22 (computeSubdivisions mn mx n) ∧
    (computeSubdivisions mn mx n).Pairwise (· ≤ ·) := by
  obtain ⟨l1, _, _, l4⟩ := subdivisions_partition_lem mn mx n hn1 hle
  refine ⟨by omega, ?_, l4⟩
  intro l hl
  have := Spread.subdiv_bounds mn mx n hle l hl
  omega

theorem ofAreaC_ok (asr : Bool) (binSize : Int) (a : Rect) (regions : List Rect) (ha : RectOk a)
    (hb : 1 ≤ binSize) (hr : ∀ r ∈ regions, RectOk r) (hn : regions.length ≤ 65536) :
    ofAreaC asr binSize a regions =
      .ok ⟨computeSubdivisions a.minX a.maxX (nbBinsFor a.width binSize),
           computeSubdivisions a.minY a.maxY (nbBinsFor a.height binSize),
           capacities (computeSubdivisions a.minX a.maxX (nbBinsFor a.width binSize))
             (computeSubdivisions a.minY a.maxY (nbBinsFor a.height binSize)) regions⟩ := by
  obtain ⟨⟨a1, a2, a3, a4, a5, a6, a7, a8⟩, vx, vy⟩ := ha
  obtain ⟨ex, nx1, nx2⟩ := nbBinsForC_ok "width" a.maxX a.minX binSize a1 a4 vx hb
  obtain ⟨ey, ny1, ny2⟩ := nbBinsForC_ok "height" a.maxY a.minY binSize a5 a8 vy hb
  have sx := subdivisionsC_ok asr (mn := a.minX) (mx := a.maxX) (number := ((nbBinsFor (a.maxX - a.minX) binSize : Nat) : Int))
    a1 a4 vx (by omega) (by omega)
  have sy := subdivisionsC_ok asr (mn := a.minY) (mx := a.maxY) (number := ((nbBinsFor (a.maxY - a.minY) binSize : Nat) : Int))
    a5 a8 vy (by omega) (by omega)
  rw [subdivisions_eq] at sx sy
  obtain ⟨lx1, lx2, lx3⟩ := subdiv_limits a.minX a.maxX (nbBinsFor (a.maxX - a.minX) binSize) a1 a4 vx nx1 nx2
  obtain ⟨ly1, ly2, ly3⟩ := subdiv_limits a.minY a.maxY (nbBinsFor (a.maxY - a.minY) binSize) a5 a8 vy ny1 ny2
  obtain ⟨t, ht⟩ := sizeCapsC_ok asr _ _ lx1 ly1 lx2 ly2 lx3 ly3
  unfold ofAreaC Rect.width Rect.height
  simp only [ex, ey, andThen_ok, sx, sy, centerSumsC_ok _ lx1 lx2, centerSumsC_ok _ ly1 ly2, ht,
    capacitiesC_ok asr _ _ regions lx1 ly1 lx2 ly2 lx3 ly3 hr hn,
    assertC_true asr _ (adjLe_of_pairwise _ lx3), assertC_true asr _ (adjLe_of_pairwise _ ly3)]

theorem foldl_areaStep_ok (rs : List Rect) : ∀ a : Rect, RectOk a → (∀ r ∈ rs, RectOk r) → RectOk (rs.foldl areaStep a) := by
  induction rs with
  | nil => intro a h _; exact h
  | cons s t ih =>
    intro a h hr
    simp only [List.foldl_cons]
    apply ih
    · obtain ⟨⟨a1, a2, a3, a4, a5, a6, a7, a8⟩, vx, vy⟩ := h
      obtain ⟨⟨b1, b2, b3, b4, b5, b6, b7, b8⟩, wx, wy⟩ := hr s (by simp)
      unfold RectOk In22 areaStep
      simp only []
      omega
    · intro r h'; exact hr r (by simp [h'])

theorem placementArea_ok (regions : List Rect) (hr : ∀ r ∈ regions, RectOk r) : RectOk (computePlacementArea regions) := by
  cases regions with
  | nil => unfold computePlacementArea RectOk In22; simp
  | cons r0 t =>
    simp only [computePlacementArea]
    exact foldl_areaStep_ok t r0 (hr r0 (by simp)) (fun r h => hr r (by simp [h]))

/-- **`DensityGrid(binSize, regions)`**: no fault, equal to the unbounded constructor -/
theorem ofRegionsC_ok (asr : Bool) (binSize : Int) (regions : List Rect) (hb : 1 ≤ binSize)
    (hr : ∀ r ∈ regions, RectOk r) (hn : regions.length ≤ 65536) :
    DGrid.ofRegionsC asr binSize regions = .ok (DGrid.ofRegions binSize regions) := by
  unfold DGrid.ofRegionsC DGrid.ofRegions
  exact ofAreaC_ok asr binSize _ regions (placementArea_ok regions hr) hb hr hn

/-! ### `totalCapacity()`, `binCapacity(BinGroup)` -/

theorem accBinsC_ok (site : String) (cap : List (List Int)) (i : Nat) (hi : i < cap.length) :
    ∀ (js : List Nat) (acc : Int),
      (∀ j ∈ js, j < (cap.getD i []).length ∧ 0 ≤ (cap.getD i []).getD j 0) → 0 ≤ acc →
      acc + (js.map fun j => (cap.getD i []).getD j 0).sum ≤ 9223372036854775807 →
      accBinsC site cap i js acc = .ok (acc + (js.map fun j => (cap.getD i []).getD j 0).sum)
  | [], acc, _, _, _ => by simp [accBinsC]
  | j :: js, acc, h, h0, hb => by
    obtain ⟨hj, hv⟩ := h j (by simp)
    have hs : 0 ≤ (js.map fun j => (cap.getD i []).getD j 0).sum :=
      sum_nonneg_int _ (by intro v hv; obtain ⟨k, hk, rfl⟩ := List.mem_map.mp hv; exact (h k (by simp [hk])).2)
    simp only [List.map_cons, List.sum_cons] at hb
    have e0 : index2C site cap i j = .ok ((cap.getD i []).getD j 0) := by
      unfold index2C; rw [if_pos ⟨hi, hj⟩]
    have e : addI64 site acc ((cap.getD i []).getD j 0) = .ok (acc + (cap.getD i []).getD j 0) :=
      chk64_ok' (by omega) (by omega)
    have ih := accBinsC_ok site cap i hi js (acc + (cap.getD i []).getD j 0) (fun k hk => h k (by simp [hk]))
      (by omega) (by omega)
    simp only [accBinsC, e0, e, andThen_ok, ih, List.map_cons, List.sum_cons]
    congr 1; omega

theorem accGridC_ok (site : String) (cap : List (List Int)) (js : List Nat) :
    ∀ (is : List Nat) (acc : Int),
      (∀ i ∈ is, i < cap.length ∧ ∀ j ∈ js, j < (cap.getD i []).length ∧ 0 ≤ (cap.getD i []).getD j 0) → 0 ≤ acc →
      acc + (is.map fun i => (js.map fun j => (cap.getD i []).getD j 0).sum).sum ≤ 9223372036854775807 →
      accGridC site cap js is acc = .ok (acc + (is.map fun i => (js.map fun j => (cap.getD i []).getD j 0).sum).sum)
  | [], acc, _, _, _ => by simp [accGridC]
  | i :: is, acc, h, h0, hb => by
    obtain ⟨hi, hrow⟩ := h i (by simp)
    have hr0 : 0 ≤ (js.map fun j => (cap.getD i []).getD j 0).sum :=
      sum_nonneg_int _ (by intro v hv; obtain ⟨k, hk, rfl⟩ := List.mem_map.mp hv; exact (hrow k hk).2)
    have hs : 0 ≤ (is.map fun i => (js.map fun j => (cap.getD i []).getD j 0).sum).sum :=
      sum_nonneg_int _ (by
        intro v hv; obtain ⟨k, hk, rfl⟩ := List.mem_map.mp hv
        exact sum_nonneg_int _ (by
          intro w hw; obtain ⟨m, hm, rfl⟩ := List.mem_map.mp hw; exact ((h k (by simp [hk])).2 m hm).2))
    simp only [List.map_cons, List.sum_cons] at hb
    have e := accBinsC_ok site cap i hi js acc hrow h0 (by omega)
    have ih := accGridC_ok site cap js is (acc + (js.map fun j => (cap.getD i []).getD j 0).sum)
      (fun k hk => h k (by simp [hk])) (by omega) (by omega)
    simp only [accGridC, e, andThen_ok, ih, List.map_cons, List.sum_cons]
    congr 1; omega

theorem range_map_getD {α β : Type} (d : α) (f : α → β) :
    ∀ l : List α, (List.range l.length).map (fun i => f (l.getD i d)) = l.map f
  | [] => rfl
  | a :: as => by
    have ih := range_map_getD d f as
    simp only [List.length_cons, List.range_succ_eq_map, List.map_cons, List.map_map]
    rw [← ih]
    simp [Function.comp_def]

/-- the capacity table has the shape of the grid -/
def CapShape (g : DGrid) : Prop :=
  g.cap.length = g.nbX ∧ ∀ i, i < g.nbX → (g.cap.getD i []).length = g.nbY

theorem total_as_ranges (g : DGrid) (hs : CapShape g) :
    ((List.range g.nbX).map fun i => ((List.range g.nbY).map fun j => (g.cap.getD i []).getD j 0).sum).sum =
      g.totalCapacity := by
  unfold DGrid.totalCapacity
  have h1 : ((List.range g.nbX).map fun i => ((List.range g.nbY).map fun j => (g.cap.getD i []).getD j 0).sum) =
      (List.range g.cap.length).map fun i => List.sum (g.cap.getD i []) := by
    rw [hs.1]
    apply List.map_congr_left
    intro i hi
    have hi' := List.mem_range.mp hi
    rw [← hs.2 i hi']
    have := range_map_getD (0 : Int) (fun x => x) (g.cap.getD i [])
    simp only [List.map_id'] at this
    rw [this]
  rw [h1, range_map_getD ([] : List Int) List.sum g.cap]

/-- **`totalCapacity()`**: with a table of the grid's shape, non-negative capacities and a total that fits a
`long long`, no index is out of range and no partial sum overflows -/
theorem totalCapacityC_ok (g : DGrid) (hs : CapShape g) (hnn : ∀ i j, i < g.nbX → j < g.nbY → 0 ≤ g.binCapacity i j)
    (ht : g.totalCapacity ≤ 9223372036854775807) : g.totalCapacityC = .ok g.totalCapacity := by
  unfold DGrid.totalCapacityC
  have key := accGridC_ok "totalCapacity: ret += binCapacity_[i][j]" g.cap (List.range g.nbY) (List.range g.nbX) 0
    (by
      intro i hi
      have hi' := List.mem_range.mp hi
      refine ⟨by rw [hs.1]; exact hi', ?_⟩
      intro j hj
      have hj' := List.mem_range.mp hj
      exact ⟨by rw [hs.2 i hi']; exact hj', hnn i j hi' hj'⟩)
    (by omega) (by rw [total_as_ranges g hs]; omega)
  rw [key, total_as_ranges g hs]
  simp

theorem capacities_shape (limX limY : List Int) (regions : List Rect) :
    CapShape ⟨limX, limY, capacities limX limY regions⟩ := by
  unfold CapShape DGrid.nbX DGrid.nbY capacities
  refine ⟨by simp, ?_⟩
  intro i hi
  simp only [] at hi
  simp [List.getD_eq_getElem?_getD, List.getElem?_map, List.getElem?_range hi]

/-! ### the constructed grid: capacities are non-negative and the total is bounded -/

theorem capacities_entry (limX limY : List Int) (regions : List Rect) (i j : Nat) (hi : i < limX.length - 1)
    (hj : j < limY.length - 1) :
    (DGrid.mk limX limY (capacities limX limY regions)).binCapacity i j = binCapOf limX limY regions i j := by
  unfold DGrid.binCapacity capacities
  simp [List.getD_eq_getElem?_getD, List.getElem?_map, List.getElem?_range hi, List.getElem?_range hj]

theorem total_zero : ∀ t : List (List Int), (∀ row ∈ t, ∀ v ∈ row, v = 0) → (t.map List.sum).sum = 0
  | [], _ => rfl
  | row :: rest, h => by
    have aux : ∀ r : List Int, (∀ v ∈ r, v = 0) → r.sum = 0 := by
      intro r; induction r with
      | nil => intro _; rfl
      | cons a as ih => intro hr; simp [hr a (by simp), ih (fun v hv => hr v (by simp [hv]))]
    have h1 : row.sum = 0 := aux row (h row (by simp))
    have h2 := total_zero rest (fun r hr => h r (by simp [hr]))
    simp [h1, h2]

theorem area_bounds (r : Rect) (h : RectOk r) : 0 ≤ r.area ∧ r.area ≤ 70368744177664 := by
  obtain ⟨⟨a1, a2, a3, a4, a5, a6, a7, a8⟩, vx, vy⟩ := h
  unfold Rect.area Rect.width Rect.height
  have := mul_bound_nonneg (a := r.maxX - r.minX) (c := r.maxY - r.minY) (A := 8388608) (C := 8388608)
    (by omega) (by omega) (by omega) (by omega)
  omega

/-- the grid `DensityGrid(binSize, regions)` builds on the domain of `ofRegionsC_ok`: every capacity is
non-negative and the total is at most `2^16 · 2^46 = 2^62` -/
theorem ofRegions_capacity_bounds (binSize : Int) (regions : List Rect) (hb : 1 ≤ binSize)
    (hr : ∀ r ∈ regions, RectOk r) (hn : regions.length ≤ 65536) :
    (∀ i j, i < (DGrid.ofRegions binSize regions).nbX → j < (DGrid.ofRegions binSize regions).nbY →
      0 ≤ (DGrid.ofRegions binSize regions).binCapacity i j) ∧
    0 ≤ (DGrid.ofRegions binSize regions).totalCapacity ∧
    (DGrid.ofRegions binSize regions).totalCapacity ≤ 4611686018427387904 := by
  obtain ⟨⟨a1, a2, a3, a4, a5, a6, a7, a8⟩, vx, vy⟩ := placementArea_ok regions hr
  obtain ⟨_, nx1, nx2⟩ := nbBinsForC_ok "width" _ _ binSize a1 a4 vx hb
  obtain ⟨_, ny1, ny2⟩ := nbBinsForC_ok "height" _ _ binSize a5 a8 vy hb
  obtain ⟨lx1, lx2, lx3⟩ := subdiv_limits _ _ _ a1 a4 vx nx1 nx2
  obtain ⟨ly1, ly2, ly3⟩ := subdiv_limits _ _ _ a5 a8 vy ny1 ny2
  have hnn : ∀ i j, i < (DGrid.ofRegions binSize regions).nbX → j < (DGrid.ofRegions binSize regions).nbY →
      0 ≤ (DGrid.ofRegions binSize regions).binCapacity i j := by
    intro i j hi hj
    have e := capacities_entry (DGrid.ofRegions binSize regions).limX (DGrid.ofRegions binSize regions).limY regions i j hi hj
    have hb' := (binCapOfC_ok true (DGrid.ofRegions binSize regions).limX (DGrid.ofRegions binSize regions).limY regions i j
      (by unfold DGrid.nbX at hi; omega) (by unfold DGrid.nbY at hj; omega) lx1 ly1 lx2 ly2 lx3 ly3 hr hn).2
    have : (DGrid.ofRegions binSize regions).binCapacity i j =
        binCapOf (DGrid.ofRegions binSize regions).limX (DGrid.ofRegions binSize regions).limY regions i j := e
    rw [this]; exact hb'
  refine ⟨hnn, ?_, ?_⟩
  · have hsh : CapShape (DGrid.ofRegions binSize regions) := capacities_shape _ _ regions
    rw [← total_as_ranges _ hsh]
    apply sum_nonneg_int
    intro v hv
    obtain ⟨i, hi, rfl⟩ := List.mem_map.mp hv
    apply sum_nonneg_int
    intro w hw
    obtain ⟨j, hj, rfl⟩ := List.mem_map.mp hw
    exact hnn i j (List.mem_range.mp hi) (List.mem_range.mp hj)
  · by_cases hne : regions = []
    · subst hne
      have : (DGrid.ofRegions binSize []).totalCapacity = 0 := by
        unfold DGrid.totalCapacity
        apply total_zero
        intro row hrow v hv
        unfold DGrid.ofRegions capacities at hrow
        simp only [List.mem_map] at hrow
        obtain ⟨i, _, rfl⟩ := hrow
        simp only [List.mem_map] at hv
        obtain ⟨j, _, rfl⟩ := hv
        simp [binCapOf]
      omega
    · have ht := (ofRegions_ok binSize regions hne (fun r h => ⟨(hr r h).2.1, (hr r h).2.2⟩)).2.2.2.2.2.2.2
      have hs := sum_le_mul 70368744177664 (regions.map Rect.area) (by
        intro v hv; obtain ⟨r, h, rfl⟩ := List.mem_map.mp hv; exact (area_bounds r (hr r h)).2)
      rw [List.length_map] at hs
      have : (DGrid.ofRegions binSize regions).totalCapacity = (regions.map Rect.area).sum := ht
      omega

/-- `totalCapacity()` on the constructed grid, no extra hypothesis -/
theorem ofRegions_totalCapacityC (binSize : Int) (regions : List Rect) (hb : 1 ≤ binSize)
    (hr : ∀ r ∈ regions, RectOk r) (hn : regions.length ≤ 65536) :
    (DGrid.ofRegions binSize regions).totalCapacityC = .ok (DGrid.ofRegions binSize regions).totalCapacity := by
  obtain ⟨h1, _, h3⟩ := ofRegions_capacity_bounds binSize regions hb hr hn
  exact totalCapacityC_ok _ (capacities_shape _ _ regions) h1 (by omega)

/-! ### `binCapacity(BinGroup)` -/

theorem binCapacity_nonneg_all (g : DGrid) (hs : CapShape g)
    (hnn : ∀ i j, i < g.nbX → j < g.nbY → 0 ≤ g.binCapacity i j) (i j : Nat) : 0 ≤ g.binCapacity i j := by
  by_cases hi : i < g.nbX
  · by_cases hj : j < g.nbY
    · exact hnn i j hi hj
    · unfold DGrid.binCapacity
      have : (g.cap.getD i []).getD j 0 = 0 := by
        rw [List.getD_eq_getElem?_getD, List.getElem?_eq_none (by rw [hs.2 i hi]; omega)]; rfl
      omega
  · unfold DGrid.binCapacity
    have : g.cap.getD i [] = [] := by
      rw [List.getD_eq_getElem?_getD, List.getElem?_eq_none (by rw [hs.1]; omega)]; rfl
    rw [this]; simp

theorem groupCapacity_nonneg (g : DGrid) (h : ∀ i j, 0 ≤ g.binCapacity i j) (x0 x1 y0 y1 : Nat) :
    0 ≤ g.groupCapacity x0 x1 y0 y1 := by
  unfold DGrid.groupCapacity
  apply sum_nonneg_int
  intro v hv
  obtain ⟨i, _, rfl⟩ := List.mem_map.mp hv
  apply sum_nonneg_int
  intro w hw
  obtain ⟨j, _, rfl⟩ := List.mem_map.mp hw
  exact h _ _

theorem groupCapacity_full (g : DGrid) (hs : CapShape g) : g.groupCapacity 0 g.nbX 0 g.nbY = g.totalCapacity := by
  rw [← total_as_ranges g hs]
  unfold DGrid.groupCapacity DGrid.binCapacity
  simp

/-- a group of bins holds at most the total capacity -/
theorem groupCapacity_le_total (g : DGrid) (hs : CapShape g) (h : ∀ i j, 0 ≤ g.binCapacity i j)
    (x0 x1 y0 y1 : Nat) (hx : x0 ≤ x1) (hx1 : x1 ≤ g.nbX) (hy : y0 ≤ y1) (hy1 : y1 ≤ g.nbY) :
    g.groupCapacity x0 x1 y0 y1 ≤ g.totalCapacity := by
  rw [← groupCapacity_full g hs]
  have s1 := groupCapacity_split_x g 0 x0 g.nbX 0 g.nbY (by omega) (by omega)
  have s2 := groupCapacity_split_x g x0 x1 g.nbX 0 g.nbY hx hx1
  have s3 := groupCapacity_split_y g x0 x1 0 y0 g.nbY (by omega) (by omega)
  have s4 := groupCapacity_split_y g x0 x1 y0 y1 g.nbY hy hy1
  have n1 := groupCapacity_nonneg g h 0 x0 0 g.nbY
  have n2 := groupCapacity_nonneg g h x1 g.nbX 0 g.nbY
  have n3 := groupCapacity_nonneg g h x0 x1 0 y0
  have n4 := groupCapacity_nonneg g h x0 x1 y1 g.nbY
  omega

/-- **`binCapacity(BinGroup)`**: a group inside the grid is summed without an out-of-range index or an overflow -/
theorem groupCapacityC_ok (g : DGrid) (hs : CapShape g)
    (hnn : ∀ i j, i < g.nbX → j < g.nbY → 0 ≤ g.binCapacity i j) (ht : g.totalCapacity ≤ 9223372036854775807)
    (x0 x1 y0 y1 : Nat) (hx : x0 ≤ x1) (hx1 : x1 ≤ g.nbX) (hy : y0 ≤ y1) (hy1 : y1 ≤ g.nbY) :
    g.groupCapacityC x0 x1 y0 y1 = .ok (g.groupCapacity x0 x1 y0 y1) := by
  have hall := binCapacity_nonneg_all g hs hnn
  have hle := groupCapacity_le_total g hs hall x0 x1 y0 y1 hx hx1 hy hy1
  have hsum : ((List.range' x0 (x1 - x0)).map fun i => ((List.range' y0 (y1 - y0)).map fun j =>
      (g.cap.getD i []).getD j 0).sum).sum = g.groupCapacity x0 x1 y0 y1 := by
    unfold DGrid.groupCapacity DGrid.binCapacity
    simp only [List.range'_eq_map_range, List.map_map, Function.comp_def]
  unfold DGrid.groupCapacityC
  have key := accGridC_ok "binCapacity(BinGroup): ret += binCapacity_[i][j]" g.cap (List.range' y0 (y1 - y0))
    (List.range' x0 (x1 - x0)) 0
    (by
      intro i hi
      have hi' := List.mem_range'_1.mp hi
      have hin : i < g.nbX := by omega
      refine ⟨by rw [hs.1]; exact hin, ?_⟩
      intro j hj
      have hj' := List.mem_range'_1.mp hj
      exact ⟨by rw [hs.2 i hin]; omega, hall i j⟩)
    (by omega) (by rw [hsum]; omega)
  rw [key, hsum]
  simp

end ColoVerif.Grid
