import ColoVerif.Proofs.F64
import ColoVerif.Proofs.CheckedTranspRun
import ColoVerif.Model.TranspCostsChecked
/-
C07 `transp_costs_fit`, the floating-point side: `costsFromIntegers` maps every matrix of finite
non-negative `float` costs to fixed-point costs in `[0, 2^29]` — so the conversion `double → int` is
defined, the costs are non-negative and `3·cost < INT_MAX` (C13's `costBoundOk`) — and
`DensityLegalizer::distance` is non-negative; hence the transportation that `reoptimize` builds is in the
domain of `assignC_eq` (Proofs/CheckedTranspRun.lean).
-/
namespace ColoVerif.Transp
open ColoVerif.Checked ColoVerif.F64

/-! ### `mapC` -/

lemma mapC_ok {α β : Type} (f : α → Except Fault β) (g : α → β) :
    ∀ (l : List α), (∀ a, a ∈ l → f a = .ok (g a)) → mapC f l = .ok (l.map g) := by
  intro l
  induction l with
  | nil => intro _; rfl
  | cons a as ih =>
    intro h
    unfold mapC
    rw [h a (by simp), ih (fun b hb => h b (by simp [hb]))]
    rfl

lemma mapC_mem {α β : Type} (f : α → Except Fault β) :
    ∀ (l : List α) (r : List β), mapC f l = .ok r → ∀ b, b ∈ r → ∃ a, a ∈ l ∧ f a = .ok b := by
  intro l
  induction l with
  | nil =>
    intro r h b hb
    simp only [mapC, Except.ok.injEq] at h
    subst h
    simp at hb
  | cons a as ih =>
    intro r h b hb
    unfold mapC at h
    cases hfa : f a with
    | error e => rw [hfa] at h; simp at h
    | ok v =>
      rw [hfa] at h
      cases hm : mapC f as with
      | error e => rw [hm] at h; simp at h
      | ok vs =>
        rw [hm] at h
        simp only [Except.ok.injEq] at h
        subst h
        rcases List.mem_cons.mp hb with e | e
        · exact ⟨a, by simp, by rw [hfa, e]⟩
        · obtain ⟨a', ha', hfa'⟩ := ih vs hm b e
          exact ⟨a', by simp [ha'], hfa'⟩

/-! ### `maxVal` -/

lemma rmax_ge_left (a b : Rat) : a ≤ rmax a b := by
  unfold rmax; split <;> [exact le_of_lt ‹_›; exact le_refl _]

lemma rmax_ge_right (a b : Rat) : b ≤ rmax a b := by
  unfold rmax; split <;> [exact le_refl _; exact not_lt.mp ‹_›]

lemma rmax_le {a b B : Rat} (ha : a ≤ B) (hb : b ≤ B) : rmax a b ≤ B := by
  unfold rmax; split <;> assumption

lemma foldRow_spec (r : List Rat) : ∀ (m : Rat),
    m ≤ r.foldl (fun m d => rmax d m) m ∧ (∀ d, d ∈ r → d ≤ r.foldl (fun m d => rmax d m) m) ∧
    ∀ B, m ≤ B → (∀ d, d ∈ r → d ≤ B) → r.foldl (fun m d => rmax d m) m ≤ B := by
  induction r with
  | nil => intro m; exact ⟨le_refl _, fun d hd => by simp at hd, fun B h _ => h⟩
  | cons x xs ih =>
    intro m
    simp only [List.foldl_cons]
    obtain ⟨h1, h2, h3⟩ := ih (rmax x m)
    refine ⟨le_trans (rmax_ge_right x m) h1, fun d hd => ?_, fun B hB hd => ?_⟩
    · rcases List.mem_cons.mp hd with e | e
      · rw [e]; exact le_trans (rmax_ge_left x m) h1
      · exact h2 d e
    · exact h3 B (rmax_le (hd x (by simp)) hB) (fun d hd' => hd d (by simp [hd']))

lemma foldMat_spec (fc : List (List Rat)) : ∀ (m : Rat),
    m ≤ fc.foldl (fun m r => r.foldl (fun m d => rmax d m) m) m ∧
    (∀ r, r ∈ fc → ∀ d, d ∈ r → d ≤ fc.foldl (fun m r => r.foldl (fun m d => rmax d m) m) m) ∧
    ∀ B, m ≤ B → (∀ r, r ∈ fc → ∀ d, d ∈ r → d ≤ B) →
      fc.foldl (fun m r => r.foldl (fun m d => rmax d m) m) m ≤ B := by
  induction fc with
  | nil => intro m; exact ⟨le_refl _, fun r hr => by simp at hr, fun B h _ => h⟩
  | cons x xs ih =>
    intro m
    simp only [List.foldl_cons]
    obtain ⟨g1, g2, g3⟩ := foldRow_spec x m
    obtain ⟨h1, h2, h3⟩ := ih (x.foldl (fun m d => rmax d m) m)
    refine ⟨le_trans g1 h1, fun r hr d hd => ?_, fun B hB hd => ?_⟩
    · rcases List.mem_cons.mp hr with e | e
      · rw [e] at hd; exact le_trans (g2 d hd) h1
      · exact h2 r e d hd
    · exact h3 B (g3 B hB (fun d hd' => hd x (by simp) d hd')) (fun r hr d hd' => hd r (by simp [hr]) d hd')

/-! ### the conversion factor -/

/-- `2^29`: bound of the fixed-point costs (`INT_MAX/4` rounded) -/
def Cfix : Int := 536870912

lemma convFactor_bound (M : Rat) (n : Nat) (hM : epsF ≤ M) (hMf : M ≤ fltMax) (hn1 : 1 ≤ n) (hn : n ≤ 2147483648) :
    0 ≤ convFactor M n ∧ M * convFactor M n < 536870912 := by
  have heps : (0 : Rat) < epsF := by unfold epsF; norm_num
  have hM0 : 0 < M := lt_of_lt_of_le heps hM
  have hnR : (1 : Rat) ≤ (n : Rat) := by exact_mod_cast hn1
  have hnR' : (n : Rat) ≤ 2147483648 := by exact_mod_cast hn
  have hn0 : (0 : Rat) < (n : Rat) := by linarith
  -- thresholds
  have hT : (2 : Rat) ^ (-140 : Int) = 1 / 1393796574908163946345982392040522594123776 := by norm_num
  have hsmall : (2 : Rat) ^ (-1022 : Int) ≤ (2 : Rat) ^ (-200 : Int) :=
    zpow_le_zpow_right₀ (by norm_num) (by norm_num)
  have hsmall' : (2 : Rat) ^ (-1020 : Int) ≤ (2 : Rat) ^ (-200 : Int) :=
    zpow_le_zpow_right₀ (by norm_num) (by norm_num)
  have hT200 : (2 : Rat) ^ (-200 : Int) = 1 / 1606938044258990275541962092341162602522202993782792835301376 := by norm_num
  -- a0 = INT_MAX / maxVal
  have ha0 : (2 : Rat) ^ (-140 : Int) ≤ 2147483647 / M := by
    rw [le_div_iff₀ hM0, hT]
    have : (1 : Rat) / 1393796574908163946345982392040522594123776 * M
        ≤ 1 / 1393796574908163946345982392040522594123776 * fltMax :=
      mul_le_mul_of_nonneg_left hMf (by norm_num)
    have h2 : (1 : Rat) / 1393796574908163946345982392040522594123776 * fltMax ≤ 2147483647 := by
      unfold fltMax; norm_num
    linarith
  have h200_140 : (2 : Rat) ^ (-200 : Int) ≤ (2 : Rat) ^ (-140 : Int) :=
    zpow_le_zpow_right₀ (by norm_num) (by norm_num)
  have ha0n : (2 : Rat) ^ (-1022 : Int) ≤ 2147483647 / M := le_trans hsmall (le_trans h200_140 ha0)
  have ha0q : (2 : Rat) ^ (-1020 : Int) ≤ 2147483647 / M := le_trans hsmall' (le_trans h200_140 ha0)
  have hc0le := f64_rel_le ha0n
  have hc0ge : (2 : Rat) ^ (-140 : Int) ≤ f64 (2147483647 / M) := f64_ge_pow2 (by norm_num) ha0
  have hq := f64_quarter ha0q
  -- c2 = f64 (c0 / 4 / n)
  have hc1n : (2 : Rat) ^ (-1022 : Int) ≤ f64 (2147483647 / M) / 4 / (n : Rat) := by
    refine le_trans hsmall ?_
    rw [le_div_iff₀ hn0, hT200]
    rw [hT] at hc0ge
    have : (1 : Rat) / 1606938044258990275541962092341162602522202993782792835301376 * (n : Rat)
        ≤ 1 / 1606938044258990275541962092341162602522202993782792835301376 * 2147483648 :=
      mul_le_mul_of_nonneg_left hnR' (by norm_num)
    have h3 : (1 : Rat) / 1606938044258990275541962092341162602522202993782792835301376 * 2147483648
        ≤ 1 / 1393796574908163946345982392040522594123776 / 4 := by norm_num
    linarith
  have hc2le := f64_rel_le hc1n
  have hc0pos : 0 < f64 (2147483647 / M) := lt_of_lt_of_le (by positivity) hc0ge
  unfold convFactor
  rw [hq]
  constructor
  · apply f64_nonneg
    exact div_nonneg (div_nonneg (le_of_lt hc0pos) (by norm_num)) (le_of_lt hn0)
  · rw [two_zpow_neg53] at hc0le hc2le
    -- M * cf ≤ M * (a0 * E / 4 / n * E) = INT_MAX * E * E / (4 n) ≤ INT_MAX * E * E / 4 < 2^29
    have h1 : f64 (f64 (2147483647 / M) / 4 / (n : Rat))
        ≤ 2147483647 / M * (1 + 1 / 9007199254740992) / 4 / (n : Rat) * (1 + 1 / 9007199254740992) := by
      refine le_trans hc2le ?_
      apply mul_le_mul_of_nonneg_right _ (by norm_num)
      apply div_le_div_of_nonneg_right _ (le_of_lt hn0)
      apply div_le_div_of_nonneg_right hc0le (by norm_num)
    have h2 : M * f64 (f64 (2147483647 / M) / 4 / (n : Rat))
        ≤ M * (2147483647 / M * (1 + 1 / 9007199254740992) / 4 / (n : Rat) * (1 + 1 / 9007199254740992)) :=
      mul_le_mul_of_nonneg_left h1 (le_of_lt hM0)
    have h3 : M * (2147483647 / M * (1 + 1 / 9007199254740992) / 4 / (n : Rat) * (1 + 1 / 9007199254740992))
        = 2147483647 * (1 + 1 / 9007199254740992) * (1 + 1 / 9007199254740992) / 4 / (n : Rat) := by
      have hMM : M * (2147483647 / M) = 2147483647 := by
        rw [mul_div_assoc']; exact mul_div_cancel_left₀ _ (ne_of_gt hM0)
      have e : M * (2147483647 / M * (1 + 1 / 9007199254740992) / 4 / (n : Rat) * (1 + 1 / 9007199254740992))
          = (M * (2147483647 / M)) * (1 + 1 / 9007199254740992) * (1 + 1 / 9007199254740992) / 4 / (n : Rat) := by ring
      rw [e, hMM]
    have h4 : (2147483647 : Rat) * (1 + 1 / 9007199254740992) * (1 + 1 / 9007199254740992) / 4 / (n : Rat)
        ≤ 2147483647 * (1 + 1 / 9007199254740992) * (1 + 1 / 9007199254740992) / 4 := by
      rw [div_le_iff₀ hn0]
      have ha : (0 : Rat) ≤ 2147483647 * (1 + 1 / 9007199254740992) * (1 + 1 / 9007199254740992) / 4 := by norm_num
      nlinarith [mul_nonneg ha (sub_nonneg.mpr hnR)]
    have h5 : (2147483647 : Rat) * (1 + 1 / 9007199254740992) * (1 + 1 / 9007199254740992) / 4 < 536870912 := by
      norm_num
    linarith

/-- one entry: `0 ≤ c ≤ maxVal` goes to `[0, 2^29]` and the conversion to `int` is defined -/
lemma toFixedC_ok (M : Rat) (n : Nat) (hM : epsF ≤ M) (hMf : M ≤ fltMax) (hn1 : 1 ≤ n) (hn : n ≤ 2147483648)
    (c : Rat) (hc0 : 0 ≤ c) (hcM : c ≤ M) :
    toFixedC (convFactor M n) c = .ok (roundAway (f64 (c * convFactor M n))) ∧
    0 ≤ roundAway (f64 (c * convFactor M n)) ∧ roundAway (f64 (c * convFactor M n)) ≤ Cfix := by
  obtain ⟨hcf0, hcfM⟩ := convFactor_bound M n hM hMf hn1 hn
  have h0 : 0 ≤ c * convFactor M n := mul_nonneg hc0 hcf0
  have h1 : c * convFactor M n ≤ M * convFactor M n := mul_le_mul_of_nonneg_right hcM hcf0
  have h2 : f64 (c * convFactor M n) ≤ 536870912 := by
    have := f64_mono (show c * convFactor M n ≤ ((536870912 : Int) : Rat) by push_cast; linarith)
    rwa [f64_exact_int 536870912 (by norm_num)] at this
  have hlo : 0 ≤ roundAway (f64 (c * convFactor M n)) := roundAway_nonneg (f64_nonneg h0)
  have hhi : roundAway (f64 (c * convFactor M n)) ≤ Cfix := by
    unfold Cfix
    apply roundAway_le
    push_cast
    linarith
  refine ⟨?_, hlo, hhi⟩
  unfold toFixedC
  unfold Cfix at hhi
  exact chk32_ok' (by omega) (by omega)

/-- **`costsFromIntegers`: defined, and every fixed-point cost is in `[0, 2^29]`**, for finite
non-negative `float` costs (at least one row, at most `2^31`) -/
theorem costsFromIntegersC_ok (fc : List (List Rat)) (hn1 : 1 ≤ fc.length) (hn : fc.length ≤ 2147483648)
    (hc : ∀ r, r ∈ fc → ∀ c, c ∈ r → 0 ≤ c ∧ c ≤ fltMax) :
    ∃ costs, costsFromIntegersC fc = .ok costs ∧ costs.length = fc.length ∧
      (∀ i, (costs.getD i []).length = (fc.getD i []).length) ∧
      ∀ r, r ∈ costs → ∀ v, v ∈ r → 0 ≤ v ∧ v ≤ Cfix := by
  have heps : epsF ≤ fltMax := by unfold epsF fltMax; norm_num
  obtain ⟨m1, m2, m3⟩ := foldMat_spec fc epsF
  have hM : epsF ≤ maxValOf fc := m1
  have hMf : maxValOf fc ≤ fltMax := m3 fltMax heps (fun r hr c hc' => (hc r hr c hc').2)
  have hrow : ∀ r, r ∈ fc →
      mapC (toFixedC (convFactor (maxValOf fc) fc.length)) r =
        .ok (r.map fun c => roundAway (f64 (c * convFactor (maxValOf fc) fc.length))) := by
    intro r hr
    apply mapC_ok
    intro c hc'
    exact (toFixedC_ok _ _ hM hMf hn1 hn c (hc r hr c hc').1 (m2 r hr c hc')).1
  refine ⟨fc.map (fun r => r.map fun c => roundAway (f64 (c * convFactor (maxValOf fc) fc.length))), ?_, by simp, ?_, ?_⟩
  · unfold costsFromIntegersC
    exact mapC_ok _ _ fc hrow
  · intro i
    by_cases hi : i < fc.length
    · simp [List.getD_eq_getElem?_getD, hi]
    · simp [List.getD_eq_getElem?_getD, Nat.not_lt.mp hi]
  · intro r hr v hv
    obtain ⟨r0, hr0, e⟩ := List.mem_map.mp hr
    subst e
    obtain ⟨c, hc', e⟩ := List.mem_map.mp hv
    subst e
    have := toFixedC_ok _ _ hM hMf hn1 hn c (hc r0 hr0 c hc').1 (m2 r0 hr0 c hc')
    exact ⟨this.2.1, this.2.2⟩

lemma get2_bounds (m : Mat) (P : Int → Prop) (h0 : P 0) (h : ∀ r, r ∈ m → ∀ v, v ∈ r → P v) (i j : Nat) :
    P (get2 m i j) := by
  unfold get2
  by_cases hi : i < m.length
  · by_cases hj : j < (m.getD i []).length
    · have e1 : m.getD i [] = m[i] := by simp [List.getD_eq_getElem?_getD, hi]
      rw [e1] at hj ⊢
      have e2 : (m[i]).getD j 0 = (m[i])[j] := by simp [List.getD_eq_getElem?_getD, hj]
      rw [e2]
      exact h _ (List.getElem_mem hi) _ (List.getElem_mem hj)
    · have : (m.getD i []).getD j 0 = 0 := by
        rw [List.getD_eq_getElem?_getD, List.getElem?_eq_none (Nat.not_lt.mp hj)]; rfl
      rw [this]; exact h0
  · have : m.getD i [] = [] := by simp [List.getD_eq_getElem?_getD, Nat.not_lt.mp hi]
    rw [this]; simpa using h0

/-! ### `distance` is non-negative -/

lemma rabs_nonneg (q : Rat) : 0 ≤ rabs q := by
  unfold rabs; split <;> linarith

lemma rmax_nonneg_left {a b : Rat} (h : 0 ≤ a) : 0 ≤ rmax a b := le_trans h (rmax_ge_left a b)

lemma fin32_nonneg {site : String} {q v : Rat} (h : fin32 site q = .ok v) (hq : 0 ≤ q) : 0 ≤ v := by
  unfold fin32 at h
  split at h
  · simp only [Except.ok.injEq] at h; rw [← h]; exact f32'_nonneg hq
  · simp at h

lemma andThen_ok {α β : Type} {x : Except Fault α} {f : α → Except Fault β} {b : β}
    (h : andThen x f = .ok b) : ∃ a, x = .ok a ∧ f a = .ok b := by
  unfold andThen at h
  cases x with
  | error e => simp at h
  | ok a => exact ⟨a, rfl, h⟩

lemma normC_nonneg (m : CostModel) (x y v : Rat) (h : normC m x y = .ok v) : 0 ≤ v := by
  cases m <;> simp only [normC] at h
  · exact fin32_nonneg h (add_nonneg (rabs_nonneg x) (rabs_nonneg y))
  · obtain ⟨xx, _, h⟩ := andThen_ok h
    obtain ⟨yy, _, h⟩ := andThen_ok h
    obtain ⟨s, _, h⟩ := andThen_ok h
    simp only [Except.ok.injEq] at h
    rw [← h]; exact f32sqrt_nonneg s
  · simp only [Except.ok.injEq] at h
    rw [← h]; exact rmax_nonneg_left (rabs_nonneg x)
  · obtain ⟨z, _, h⟩ := andThen_ok h
    exact fin32_nonneg h (mul_self_nonneg z)
  · obtain ⟨xx, hx, h⟩ := andThen_ok h
    obtain ⟨yy, hy, h⟩ := andThen_ok h
    exact fin32_nonneg h (add_nonneg (fin32_nonneg hx (mul_self_nonneg x)) (fin32_nonneg hy (mul_self_nonneg y)))
  · exact fin32_nonneg h (mul_self_nonneg _)

/-- **`DensityLegalizer::distance` is finite ⇒ it is a non-negative `float` not above `FLT_MAX`** (every cost
model; penalty factor `≥ 0`, as `RoughLegalizationParameters::check` enforces) -/
theorem distanceC_range (m : CostModel) (qf x y v : Rat) (hq : 0 ≤ qf) (h : distanceC m qf x y = .ok v) :
    0 ≤ v ∧ v ≤ fltMax := by
  unfold distanceC at h
  obtain ⟨d, hd, h⟩ := andThen_ok h
  obtain ⟨qd, hqd, h⟩ := andThen_ok h
  obtain ⟨f, hf, h⟩ := andThen_ok h
  have d0 := normC_nonneg m x y d hd
  have qd0 := fin32_nonneg hqd (mul_nonneg hq d0)
  have f0 := fin32_nonneg hf (by linarith)
  refine ⟨fin32_nonneg h (mul_nonneg d0 f0), ?_⟩
  unfold fin32 at h
  split at h
  · rename_i hle
    simp only [Except.ok.injEq] at h
    rw [← h]
    unfold rabs at hle
    split at hle <;> linarith
  · simp at h

theorem binCellCostC_range (m : CostModel) (qf bx bY cx cy v : Rat) (hq : 0 ≤ qf)
    (h : binCellCostC m qf bx bY cx cy = .ok v) : 0 ≤ v ∧ v ≤ fltMax := by
  unfold binCellCostC at h
  obtain ⟨dx, _, h⟩ := andThen_ok h
  obtain ⟨dy, _, h⟩ := andThen_ok h
  exact distanceC_range m qf dx dy v hq h

theorem reoptCostsC_range (m : CostModel) (qf : Rat) (bins cells : List (Rat × Rat)) (fc : List (List Rat))
    (hq : 0 ≤ qf) (h : reoptCostsC m qf bins cells = .ok fc) :
    fc.length = bins.length ∧ ∀ r, r ∈ fc → ∀ c, c ∈ r → 0 ≤ c ∧ c ≤ fltMax := by
  unfold reoptCostsC at h
  constructor
  · clear hq
    revert fc
    induction bins with
    | nil => intro fc h; simp only [mapC, Except.ok.injEq] at h; subst h; rfl
    | cons b bs ih =>
      intro fc h
      unfold mapC at h
      split at h
      · simp at h
      · split at h
        · simp at h
        · rename_i r _ rs hrs
          simp only [Except.ok.injEq] at h
          subst h
          simp [ih rs hrs]
  · intro r hr c hc
    obtain ⟨b, _, hb⟩ := mapC_mem _ bins fc h r hr
    obtain ⟨cell, _, hcell⟩ := mapC_mem _ cells r hb c hc
    exact binCellCostC_range m qf b.1 b.2 cell.1 cell.2 c hq hcell


/-! ### the transportation of `reoptimize` is in the domain -/

lemma check_sizes (p : Problem) (h : p.check = true) : p.costs.length = p.nbSinks := by
  unfold Problem.check at h
  simp only [Bool.and_eq_true] at h
  obtain ⟨⟨⟨⟨⟨_, _⟩, h3⟩, _⟩, _⟩, _⟩ := h
  simpa using h3

lemma check_increaseCapacity (p : Problem) (h : p.check = true) (hn : 0 < p.nbSinks) :
    p.increaseCapacity.check = true := by
  obtain ⟨_, hmono, hns, hdems, hcosts, hallocs, _⟩ := C13.increaseCapacity_covers p hn
  obtain ⟨hcap, _⟩ := check_facts p h
  have hsrc : p.increaseCapacity.nbSources = p.nbSources := by unfold Problem.nbSources; rw [hdems]
  unfold Problem.check at h ⊢
  simp only [Bool.and_eq_true] at h ⊢
  obtain ⟨⟨⟨⟨⟨h1, _⟩, h3⟩, h4⟩, h5⟩, h6⟩ := h
  rw [hdems, hcosts, hallocs, hns, hsrc]
  refine ⟨⟨⟨⟨⟨h1, ?_⟩, h3⟩, h4⟩, h5⟩, h6⟩
  rw [List.all_eq_true]
  intro x hx
  obtain ⟨i, hi, e⟩ := List.getElem_of_mem hx
  have hi' : i < p.nbSinks := by
    have : p.increaseCapacity.nbSinks = p.increaseCapacity.capacities.length := rfl
    omega
  have h1 := hcap i hi'
  have h2 := hmono i
  have e' : p.increaseCapacity.capacity i = x := by
    unfold Problem.capacity
    rw [List.getD_eq_getElem?_getD, List.getElem?_eq_getElem hi, e]; rfl
  simp only [decide_eq_true_eq]
  omega

lemma assignDom_of (caps dems : List Int) (costs : Mat)
    (hchk : (Problem.make caps dems costs).check = true) (hlen : 1 ≤ costs.length)
    (hcost : ∀ r, r ∈ costs → ∀ v, v ∈ r → 0 ≤ v ∧ v ≤ Cfix)
    (hcapQ : caps.sum ≤ Qmax) (hdemQ : dems.sum ≤ Qmax) : AssignDom (Problem.make caps dems costs) := by
  have im : intMax = 2147483647 := rfl
  have hb : ∀ i j, 0 ≤ (Problem.make caps dems costs).cost i j ∧ (Problem.make caps dems costs).cost i j ≤ Cfix := by
    intro i j
    exact get2_bounds costs (fun v => 0 ≤ v ∧ v ≤ Cfix) (by unfold Cfix; omega) hcost i j
  refine ⟨hchk, ?_, fun i j _ _ => ?_, fun i j _ _ => (hb i j).1, hcapQ, hdemQ⟩
  · have := check_sizes _ hchk
    have e : (Problem.make caps dems costs).costs = costs := rfl
    rw [e] at this
    omega
  · have := hb i j
    unfold Cfix at this
    omega

/-- **`reoptimize`'s transportation never faults**: for every matrix of finite non-negative `float` costs
(what `DensityLegalizer::distance` delivers, `reoptCostsC_range`) with at least one and at most `2^31`
rows, and quantities whose totals are at most `2^61`: `costsFromIntegers` is defined, and then either
`check()` throws `std::runtime_error`, or the problem is in the domain (`AssignDom`: in particular
C13's `costBoundOk` holds) and the checked `increaseCapacity(); solve(); toAssignment()` returns the
assignment of the unbounded model. -/
theorem reoptTransportC_no_fault (asr : Bool) (caps dems : List Int) (fc : List (List Rat))
    (hn1 : 1 ≤ fc.length) (hn : fc.length ≤ 2147483648)
    (hc : ∀ r, r ∈ fc → ∀ c, c ∈ r → 0 ≤ c ∧ c ≤ fltMax)
    (hcapQ : caps.sum ≤ Qmax) (hdemQ : dems.sum ≤ Qmax) :
    ∃ costs, costsFromIntegersC fc = .ok costs ∧
      (((Problem.make caps dems costs).check = false ∧ reoptTransportC asr caps dems fc = .ok .throwRuntimeError) ∨
       ((Problem.make caps dems costs).check = true ∧ AssignDom (Problem.make caps dems costs) ∧
         ∃ a, assign (Problem.make caps dems costs) = .ok a ∧
           reoptTransportC asr caps dems fc = .ok (.assignment a))) := by
  obtain ⟨costs, hcosts, hlen, _, hrange⟩ := costsFromIntegersC_ok fc hn1 hn hc
  refine ⟨costs, hcosts, ?_⟩
  unfold reoptTransportC
  rw [hcosts]
  simp only []
  cases hchk : (Problem.make caps dems costs).check with
  | false => left; exact ⟨rfl, by simp⟩
  | true =>
    right
    have hd := assignDom_of caps dems costs hchk (by omega) hrange hcapQ hdemQ
    obtain ⟨a, h1, h2⟩ := assignC_eq asr _ hd
    refine ⟨rfl, hd, a, h1, ?_⟩
    simp only [if_true]
    rw [h2]


/-! ### the `float` costs of `reoptimize` are finite on the C07 domain -/

lemma fin32_ok (site : String) (q B : Rat) (h0 : 0 ≤ q) (hB : q ≤ B) (hfit : 2 * B ≤ fltMax) :
    ∃ v, fin32 site q = .ok v ∧ 0 ≤ v ∧ v ≤ 2 * B := by
  have h1 := f32'_nonneg h0
  have h2 := f32'_le_two_mul h0
  refine ⟨f32' q, ?_, h1, by linarith⟩
  unfold fin32
  rw [if_pos]
  unfold rabs
  split <;> linarith

lemma fin32_ok_abs (site : String) (q B : Rat) (hB : rabs q ≤ B) (hfit : 2 * B ≤ fltMax) :
    ∃ v, fin32 site q = .ok v ∧ rabs v ≤ 2 * B := by
  by_cases hq : 0 ≤ q
  · have hq' : rabs q = q := by unfold rabs; rw [if_neg (not_lt.mpr hq)]
    rw [hq'] at hB
    obtain ⟨v, hv, v0, vB⟩ := fin32_ok site q B hq hB hfit
    refine ⟨v, hv, ?_⟩
    unfold rabs; split <;> linarith
  · have hq' : q < 0 := not_le.mp hq
    have hr : rabs q = -q := by unfold rabs; rw [if_pos hq']
    rw [hr] at hB
    have h1 := f32'_nonneg (show 0 ≤ -q by linarith)
    have h2 := f32'_le_two_mul (show 0 ≤ -q by linarith)
    rw [f32'_neg] at h1 h2
    have hab : rabs (f32' q) ≤ 2 * B := by unfold rabs; split <;> linarith
    refine ⟨f32' q, ?_, hab⟩
    unfold fin32
    rw [if_pos (by linarith)]

/-- the models to which `GlobalPlacer` applies the quadratic penalty (`place_global.cpp`: L1, L2, LInf) -/
def CostModel.linear : CostModel → Bool
  | .L1 | .L2 | .LInf => true
  | _ => false

lemma rabs_le_of {q B : Rat} (h1 : -B ≤ q) (h2 : q ≤ B) : rabs q ≤ B := by
  unfold rabs; split <;> linarith

lemma rmax_le' {a b B : Rat} (ha : a ≤ B) (hb : b ≤ B) : rmax a b ≤ B := rmax_le ha hb

lemma normC_finite (m : CostModel) (x y : Rat)
    (hx : rabs x ≤ 4294967296) (hy : rabs y ≤ 4294967296) :
    ∃ d, normC m x y = .ok d ∧ 0 ≤ d ∧
      d ≤ (if m.linear then 137438953472 else 590295810358705651712) := by
  have hf : fltMax = 340282346638528859811704183484516925440 := rfl
  have ax := rabs_nonneg x
  have ay := rabs_nonneg y
  cases m
  · -- L1
    obtain ⟨v, hv, v0, vB⟩ := fin32_ok "norm L1: std::abs(x) + std::abs(y) is inf" (rabs x + rabs y) 8589934592
      (by linarith) (by linarith) (by rw [hf]; norm_num)
    exact ⟨v, hv, v0, by simp [CostModel.linear]; linarith⟩
  · -- L2: sqrtf of a sum of at most 2^67 is at most 8·2^34
    have hxx : x * x ≤ 4294967296 * 4294967296 := by
      have : x * x = rabs x * rabs x := by unfold rabs; split <;> ring
      rw [this]; exact mul_le_mul hx hx ax (by norm_num)
    have hyy : y * y ≤ 4294967296 * 4294967296 := by
      have : y * y = rabs y * rabs y := by unfold rabs; split <;> ring
      rw [this]; exact mul_le_mul hy hy ay (by norm_num)
    obtain ⟨xx, h1, xx0, xxB⟩ := fin32_ok "norm L2: x * x is inf" (x * x) (4294967296 * 4294967296)
      (mul_self_nonneg x) hxx (by rw [hf]; norm_num)
    obtain ⟨yy, h2, yy0, yyB⟩ := fin32_ok "norm L2: y * y is inf" (y * y) (4294967296 * 4294967296)
      (mul_self_nonneg y) hyy (by rw [hf]; norm_num)
    obtain ⟨v, hv, v0, vB⟩ := fin32_ok "norm L2: x * x + y * y is inf" (xx + yy) (4 * (4294967296 * 4294967296))
      (by linarith) (by linarith) (by rw [hf]; norm_num)
    have hs := f32sqrt_le (q := v) (B := 17179869184) v0 (by norm_num) (by linarith)
    refine ⟨f32sqrt v, ?_, f32sqrt_nonneg v, by simp [CostModel.linear]; linarith⟩
    simp only [normC, andThen, h1, h2, hv]
  · -- LInf
    refine ⟨rmax (rabs x) (rabs y), rfl, rmax_nonneg_left ax, ?_⟩
    simp [CostModel.linear]
    have := rmax_le' (B := 4294967296) hx hy
    linarith
  · -- L1Squared
    obtain ⟨z, hz, z0, zB⟩ := fin32_ok "norm L1Squared: std::abs(x) + std::abs(y) is inf" (rabs x + rabs y) 8589934592
      (by linarith) (by linarith) (by rw [hf]; norm_num)
    have zB' : z ≤ 17179869184 := by linarith
    have hzz : z * z ≤ 17179869184 * 17179869184 := mul_le_mul zB' zB' z0 (by norm_num)
    obtain ⟨v, hv, v0, vB⟩ := fin32_ok "norm L1Squared: z * z is inf" (z * z) (17179869184 * 17179869184)
      (mul_self_nonneg z) hzz (by rw [hf]; norm_num)
    refine ⟨v, ?_, v0, by simp [CostModel.linear]; linarith⟩
    simp only [normC, andThen, hz]
    exact hv
  · -- L2Squared
    have hxx : x * x ≤ 4294967296 * 4294967296 := by
      have : x * x = rabs x * rabs x := by unfold rabs; split <;> ring
      rw [this]; exact mul_le_mul hx hx ax (by norm_num)
    have hyy : y * y ≤ 4294967296 * 4294967296 := by
      have : y * y = rabs y * rabs y := by unfold rabs; split <;> ring
      rw [this]; exact mul_le_mul hy hy ay (by norm_num)
    obtain ⟨xx, h1, xx0, xxB⟩ := fin32_ok "norm L2Squared: x * x is inf" (x * x) (4294967296 * 4294967296)
      (mul_self_nonneg x) hxx (by rw [hf]; norm_num)
    obtain ⟨yy, h2, yy0, yyB⟩ := fin32_ok "norm L2Squared: y * y is inf" (y * y) (4294967296 * 4294967296)
      (mul_self_nonneg y) hyy (by rw [hf]; norm_num)
    obtain ⟨v, hv, v0, vB⟩ := fin32_ok "norm L2Squared: x * x + y * y is inf" (xx + yy) (4 * (4294967296 * 4294967296))
      (by linarith) (by linarith) (by rw [hf]; norm_num)
    refine ⟨v, ?_, v0, by simp [CostModel.linear]; linarith⟩
    simp only [normC, andThen, h1, h2]
    exact hv
  · -- LInfSquared
    have hz := rmax_le' (B := 4294967296) hx hy
    have z0 : 0 ≤ rmax (rabs x) (rabs y) := rmax_nonneg_left ax
    have hzz : rmax (rabs x) (rabs y) * rmax (rabs x) (rabs y) ≤ 4294967296 * 4294967296 :=
      mul_le_mul hz hz z0 (by norm_num)
    obtain ⟨v, hv, v0, vB⟩ := fin32_ok "norm LInfSquared: z * z is inf" _ (4294967296 * 4294967296)
      (mul_self_nonneg _) hzz (by rw [hf]; norm_num)
    exact ⟨v, hv, v0, by simp [CostModel.linear]; linarith⟩

/-- **No `float` of `reoptimize`'s cost evaluation overflows to infinity on the C07 domain**: bin centres and cell targets of magnitude at most `2^30` (the placement area is
within `2^22`, `GlobalPlacer::checkFinitePlacement` keeps the targets below `2^29`), penalty factor in
`[0, 1]` for the L1 / L2 / LInf models and `0` for the squared ones, as `GlobalPlacer` sets it. -/
theorem binCellCostC_finite (m : CostModel) (qf bx bY cx cy : Rat)
    (hq0 : 0 ≤ qf) (hq1 : qf ≤ 1) (hq : m.linear = false → qf = 0)
    (hbx : rabs bx ≤ 1073741824) (hby : rabs bY ≤ 1073741824)
    (hcx : rabs cx ≤ 1073741824) (hcy : rabs cy ≤ 1073741824) :
    ∃ v, binCellCostC m qf bx bY cx cy = .ok v := by
  have hf : fltMax = 340282346638528859811704183484516925440 := rfl
  have hsub : ∀ a b : Rat, rabs a ≤ 1073741824 → rabs b ≤ 1073741824 → rabs (a - b) ≤ 2147483648 := by
    intro a b ha hb
    unfold rabs at *
    split at ha <;> split at hb <;> split <;> linarith
  obtain ⟨dx, hdx, dxB⟩ := fin32_ok_abs "reoptimize: bx - cx is inf" (bx - cx) 2147483648 (hsub bx cx hbx hcx)
    (by rw [hf]; norm_num)
  obtain ⟨dy, hdy, dyB⟩ := fin32_ok_abs "reoptimize: by - cy is inf" (bY - cy) 2147483648 (hsub bY cy hby hcy)
    (by rw [hf]; norm_num)
  obtain ⟨d, hd, d0, dB⟩ := normC_finite m dx dy (by linarith) (by linarith)
  unfold binCellCostC
  simp only [andThen, hdx, hdy]
  unfold distanceC
  simp only [andThen, hd]
  cases hl : m.linear with
  | true =>
    rw [hl] at dB
    simp only [if_true] at dB
    have hqd : qf * d ≤ 137438953472 := by
      have := mul_le_mul hq1 dB d0 (by norm_num : (0 : Rat) ≤ 1)
      linarith
    obtain ⟨qd, h1, qd0, qdB⟩ := fin32_ok "distance: (float)quadraticPenaltyFactor * d is inf" (qf * d) 137438953472
      (mul_nonneg hq0 d0) hqd (by rw [hf]; norm_num)
    obtain ⟨f, h2, f0, fB⟩ := fin32_ok "distance: 1.0f + q * d is inf" (1 + qd) 274877906945
      (by linarith) (by linarith) (by rw [hf]; norm_num)
    have hdf : d * f ≤ 137438953472 * 549755813890 := mul_le_mul dB (by linarith) f0 (by norm_num)
    obtain ⟨v, h3, _, _⟩ := fin32_ok "distance: d * (1.0f + q * d) is inf" (d * f) (137438953472 * 549755813890)
      (mul_nonneg d0 f0) hdf (by rw [hf]; norm_num)
    rw [h1]; simp only []; rw [h2]; simp only []; exact ⟨v, h3⟩
  | false =>
    rw [hl] at dB
    simp only [Bool.false_eq_true, if_false] at dB
    have hqz := hq hl
    subst hqz
    obtain ⟨qd, h1, qd0, qdB⟩ := fin32_ok "distance: (float)quadraticPenaltyFactor * d is inf" (0 * d) 0
      (by linarith) (by linarith) (by rw [hf]; norm_num)
    obtain ⟨f, h2, f0, fB⟩ := fin32_ok "distance: 1.0f + q * d is inf" (1 + qd) 1
      (by linarith) (by linarith) (by rw [hf]; norm_num)
    have hdf : d * f ≤ 590295810358705651712 * 2 := mul_le_mul dB (by linarith) f0 (by norm_num)
    obtain ⟨v, h3, _, _⟩ := fin32_ok "distance: d * (1.0f + q * d) is inf" (d * f) (590295810358705651712 * 2)
      (mul_nonneg d0 f0) hdf (by rw [hf]; norm_num)
    rw [h1]; simp only []; rw [h2]; simp only []; exact ⟨v, h3⟩

lemma mapC_total {α β : Type} (f : α → Except Fault β) :
    ∀ (l : List α), (∀ a, a ∈ l → ∃ b, f a = .ok b) → ∃ r, mapC f l = .ok r := by
  intro l
  induction l with
  | nil => intro _; exact ⟨[], rfl⟩
  | cons a as ih =>
    intro h
    obtain ⟨b, hb⟩ := h a (by simp)
    obtain ⟨r, hr⟩ := ih (fun x hx => h x (by simp [hx]))
    exact ⟨b :: r, by unfold mapC; rw [hb, hr]⟩

theorem reoptCostsC_finite (m : CostModel) (qf : Rat) (bins cells : List (Rat × Rat))
    (hq0 : 0 ≤ qf) (hq1 : qf ≤ 1) (hq : m.linear = false → qf = 0)
    (hb : ∀ b, b ∈ bins → rabs b.1 ≤ 1073741824 ∧ rabs b.2 ≤ 1073741824)
    (hc : ∀ c, c ∈ cells → rabs c.1 ≤ 1073741824 ∧ rabs c.2 ≤ 1073741824) :
    ∃ fc, reoptCostsC m qf bins cells = .ok fc := by
  unfold reoptCostsC
  apply mapC_total
  intro b hb'
  apply mapC_total
  intro c hc'
  exact binCellCostC_finite m qf b.1 b.2 c.1 c.2 hq0 hq1 hq (hb b hb').1 (hb b hb').2 (hc c hc').1 (hc c hc').2

/-! ### the decidable form of the domain -/

lemma assignDomOk_of (p : Problem) (h : AssignDom p) : assignDomOk p = true := by
  have hQ : Qmax = 2305843009213693952 := rfl
  unfold assignDomOk
  simp only [Bool.and_eq_true, decide_eq_true_eq, allTo_iff]
  have h5 := h.capQ
  have h6 := h.demQ
  rw [hQ] at h5 h6
  exact ⟨⟨⟨⟨⟨h.chk, h.sinks⟩, (costBoundOk_iff p).mpr h.cb⟩, fun i hi j hj => h.cnn i j hi hj⟩, h5⟩, h6⟩

lemma assignDom_of_ok (p : Problem) (h : assignDomOk p = true) : AssignDom p := by
  unfold assignDomOk at h
  simp only [Bool.and_eq_true, decide_eq_true_eq, allTo_iff] at h
  obtain ⟨⟨⟨⟨⟨h1, h2⟩, h3⟩, h4⟩, h5⟩, h6⟩ := h
  exact ⟨h1, h2, (costBoundOk_iff p).mp h3, fun i j hi hj => h4 i hi j hj, h5, h6⟩

/-- the problem handed to `solve()` satisfies C13's precondition -/
lemma wellFormed_increaseCapacity (p : Problem) (hd : AssignDom p) : C13.WellFormed p.increaseCapacity := by
  have hr := runDom_increaseCapacity p hd
  exact ⟨check_increaseCapacity p hd.chk hd.sinks, hr.bal, (costBoundOk_iff _).mpr hr.cb⟩

end ColoVerif.Transp
