import ColoVerif.Proofs.NetsValue
import ColoVerif.Proofs.BusySizes
import ColoVerif.Gen.ApiSizes
/-
The hand-written value model of the net arrays (`Model/NetsValue.lean`) against the size skeletons regenerated from
`src/coloquinte.cpp` (`Gen/ApiSizes.lean`): for ALL states and arguments the translated body of `addNet` / `setNets`,
run by the size semantics on the abstraction of the value state, throws exactly when the value model refuses and
leaves exactly the lengths (and `netLimits_.back()`) of the value model's result.  So the validation conditions and
the length effects of the hand model are re-checked against what the source says on every run.
-/
namespace ColoVerif.NetsValue
open ColoVerif.ApiIR ColoVerif.Busy ColoVerif.BusySizes ColoVerif.Gen

/-- the size state of a value state (members outside the nets and the cell count: 0) -/
def absSz (s : Nets) : Sz :=
  ⟨fun k => if k = "cellWidth_" then s.nbCells else if k = "netLimits_" then s.limits.length
            else if k = "netWeights_" then s.nw else if k = "pinCells_" then s.pins.length
            else if k = "pinXOffsets_" then s.nx else if k = "pinYOffsets_" then s.ny else 0,
   back s.limits⟩

/-- what the two models are compared on -/
def netView (z : Sz) : List Int :=
  [z.len "cellWidth_", z.len "netLimits_", z.len "netWeights_", z.len "pinCells_", z.len "pinXOffsets_",
   z.len "pinYOffsets_", z.last]

def addArgs (cells : List Int) (nxo nyo : Nat) : List Arg :=
  [⟨cells.length, cells, 0⟩, ⟨nxo, [], 0⟩, ⟨nyo, [], 0⟩, ⟨0, [], 0⟩]

def setArgs (limits cells : List Int) (nxo nyo nwt : Nat) : List Arg :=
  [⟨limits.length, limits, 0⟩, ⟨cells.length, cells, 0⟩, ⟨nxo, [], 0⟩, ⟨nyo, [], 0⟩, ⟨nwt, [], 0⟩]

theorem any_out_of_range (n : Int) (cells : List Int) :
    cells.any (fun y => decide (y < 0) || decide (n ≤ y)) = !pinsInRange n cells := by
  unfold pinsInRange
  induction cells with
  | nil => rfl
  | cons a r ih =>
    simp only [List.any_cons, List.all_cons, ih, Bool.not_and]
    congr 1
    by_cases h1 : a < 0 <;> by_cases h2 : n ≤ a <;> simp [h1, h2] <;> omega

theorem sortedInts_eq_sortedB (l : List Int) : sortedInts l = sortedB l := by
  induction l with
  | nil => rfl
  | cons a r ih =>
    cases r with
    | nil => rfl
    | cons b r' => simp only [sortedInts, sortedB, ih]


theorem cond_anyElem (env : Env) (x : Int) (i : Nat) (c : Cond) :
    Cond.eval env x (.anyElem i c) = (env.arg i).vals.any (fun y => Cond.eval env y c) := by simp [Cond.eval]

theorem cond_sorted (env : Env) (x : Int) (i : Nat) : Cond.eval env x (.sorted i) = sortedInts (env.arg i).vals := by
  simp [Cond.eval]

theorem pinRange_eval (z : Sz) (args : List Arg) (i : Nat) :
    Cond.eval (envOf z args) 0 (.anyElem i (.or (.lt .elem (.lit 0)) (.le .nbCells .elem)))
      = !pinsInRange (z.len "cellWidth_") (argAt args i).vals := by
  simp only [Cond.eval, Expr.eval, envOf_arg, envOf_nbCells]
  exact any_out_of_range _ _

set_option maxRecDepth 4000 in
theorem addNet_refines (s : Nets) (cells : List Int) (nxo nyo : Nat) :
    ∀ f ∈ ApiSizes.setters, f.name = "addNet" →
      ((execS noCallS (addArgs cells nxo nyo) 0 f.body ⟨false, absSz s⟩).out = .thrown ↔ addNet s cells nxo nyo = none) ∧
      netView (execS noCallS (addArgs cells nxo nyo) 0 f.body ⟨false, absSz s⟩).st.sz
        = netView (absSz (step s (.add cells nxo nyo))) := by
  simp only [ApiSizes.setters, List.forall_mem_cons]
  repeat' apply And.intro
  all_goals first
    | exact fun x hx => absurd hx List.not_mem_nil
    | (intro h; exact absurd h (by decide))
    | skip
  intro _
  have hcw : (absSz s).len "cellWidth_" = s.nbCells := by simp [absSz]
  simp only [execS, pinRange_eval, hcw]
  simp only [Cond.eval, Expr.eval, envOf_arg, envOf_nbCells, addArgs, argAt, List.getD_cons_zero,
    List.getD_cons_succ, step, apply?, addNet]
  by_cases h1 : cells.length = nxo ∧ cells.length = nyo
  · obtain ⟨hx, hy⟩ := h1
    by_cases h2 : pinsInRange s.nbCells cells = true
    · by_cases h3 : cells = []
      · subst h3
        simp at hx hy
        subst hx; subst hy
        simp [pinsInRange]
      · have hl : cells.length ≠ 0 := by simpa using h3
        have hl' : ¬ ((cells.length : Int) = 0) := by omega
        have he : cells.isEmpty = false := by simpa using h3
        subst hx
        simp only [hy.symm, h2, he, hl', decide_true, decide_false, Bool.not_true, Bool.or_self, Bool.false_eq_true,
          if_false, ne_eq, not_true_eq_false, or_self, Option.getD_some, not_false_eq_true]
        refine ⟨by simp, ?_⟩
        simp [netView, applyEff, LExpr.eval, Sz.set, absSz, argAt, back_append_singleton]
    · have h2' : pinsInRange s.nbCells cells = false := by simpa using h2
      subst hx
      simp [hy.symm, h2']
  · have h1' : cells.length ≠ nxo ∨ cells.length ≠ nyo := by omega
    have hb : (!decide ((cells.length : Int) = (nxo : Int)) || !decide ((cells.length : Int) = (nyo : Int))) = true := by
      rcases h1' with h | h
      · have : ¬ ((cells.length : Int) = (nxo : Int)) := by omega
        simp [this]
      · have : ¬ ((cells.length : Int) = (nyo : Int)) := by omega
        simp [this]
    simp [hb, h1']


set_option maxRecDepth 4000 in
theorem setNets_refines (s : Nets) (limits cells : List Int) (nxo nyo nwt : Nat) :
    ∀ f ∈ ApiSizes.setters, f.name = "setNets" →
      ((execS noCallS (setArgs limits cells nxo nyo nwt) 0 f.body ⟨false, absSz s⟩).out = .thrown
          ↔ setNets s limits cells nxo nyo nwt = none) ∧
      netView (execS noCallS (setArgs limits cells nxo nyo nwt) 0 f.body ⟨false, absSz s⟩).st.sz
        = netView (absSz (step s (.set limits cells nxo nyo nwt))) := by
  simp only [ApiSizes.setters, List.forall_mem_cons]
  repeat' apply And.intro
  all_goals first
    | exact fun x hx => absurd hx List.not_mem_nil
    | (intro h; exact absurd h (by decide))
    | skip
  intro _
  have hcw : (absSz s).len "cellWidth_" = s.nbCells := by simp [absSz]
  simp only [execS, pinRange_eval, hcw]
  simp only [Cond.eval, Expr.eval, envOf_arg, setArgs, argAt, List.getD_cons_zero,
    List.getD_cons_succ, step, apply?, setNets, sortedInts_eq_sortedB]
  rcases limits with _ | ⟨a, r⟩
  · simp
  have hfold : List.getLastD (a :: r) 0 = back (a :: r) := rfl
  simp only [hfold]
  generalize back (a :: r) = B
  have hne0 : ¬ ((r.length : Int) + 1 = 0) := by omega
  by_cases ha : a = 0
  rotate_left
  · simp [ha, hne0]
  subst ha
  by_cases hs : sortedB (0 :: r) = true
  rotate_left
  · have hs' : sortedB (0 :: r) = false := by simpa using hs
    simp [hs', hne0]
  by_cases hb : B = (cells.length : Int) ∧ B = (nxo : Int) ∧ B = (nyo : Int)
  rotate_left
  · have hb1 : (¬B = (cells.length : Int) ∨ ¬B = (nxo : Int)) ∨ ¬B = (nyo : Int) := by
      by_cases x1 : B = (cells.length : Int) <;> by_cases x2 : B = (nxo : Int) <;> by_cases x3 : B = (nyo : Int) <;> simp_all
    have hb2 : ¬B = (cells.length : Int) ∨ ¬B = (nxo : Int) ∨ ¬B = (nyo : Int) := by
      rcases hb1 with (h | h) | h
      · exact Or.inl h
      · exact Or.inr (Or.inl h)
      · exact Or.inr (Or.inr h)
    simp [hs, hne0, hb1, hb2]
  obtain ⟨c1, c2, c3⟩ := hb
  subst c1
  have e2 : cells.length = nxo := by omega
  have e3 : cells.length = nyo := by omega
  subst e2
  by_cases h1 : r.length = nwt
  · subst h1
    by_cases hp : pinsInRange s.nbCells cells = true
    · simp [hs, hne0, ← e3, hp, netView, applyEff, LExpr.eval, Sz.set, absSz, argAt]
      exact ⟨by omega, by simp [back, List.getLastD_eq_getLast?]⟩
    · have hp' : pinsInRange s.nbCells cells = false := by simpa using hp
      simp [hs, hne0, ← e3, hp']
  · have h1i : ¬((r.length : Int) + 1 = (nwt : Int) + 1) := by omega
    by_cases h2 : nwt = 0
    · subst h2
      by_cases hp : pinsInRange s.nbCells cells = true
      · simp [hs, hne0, ← e3, h1, h1i, hp, netView, applyEff, LExpr.eval, Sz.set, absSz, argAt]
        exact ⟨by omega, by simp [back, List.getLastD_eq_getLast?]⟩
      · have hp' : pinsInRange s.nbCells cells = false := by simpa using hp
        simp [hs, hne0, ← e3, h1, h1i, hp']
    · simp [hs, hne0, ← e3, h1, h1i, h2]

set_option maxRecDepth 4000 in
theorem setNetWeights_refines (s : Nets) (nwt : Nat) :
    ∀ f ∈ ApiSizes.setters, f.name = "setNetWeights" →
      ((execS noCallS [⟨nwt, [], 0⟩] 0 f.body ⟨false, absSz s⟩).out = .thrown ↔ setNetWeights s nwt = none) ∧
      netView (execS noCallS [⟨nwt, [], 0⟩] 0 f.body ⟨false, absSz s⟩).st.sz
        = netView (absSz (step s (.weights nwt))) := by
  simp only [ApiSizes.setters, List.forall_mem_cons]
  repeat' apply And.intro
  all_goals first
    | exact fun x hx => absurd hx List.not_mem_nil
    | (intro h; exact absurd h (by decide))
    | skip
  intro _
  simp only [execS, Cond.eval, Expr.eval, envOf_arg, envOf_nbNets, argAt, List.getD_cons_zero, step, apply?,
    setNetWeights]
  have hnl : (absSz s).len "netLimits_" = s.limits.length := by simp [absSz]
  simp only [hnl]
  by_cases h : (nwt : Int) = (s.limits.length : Int) - 1
  · simp [h, netView, applyEff, LExpr.eval, Sz.set, absSz, argAt]
  · simp [h]
end ColoVerif.NetsValue
