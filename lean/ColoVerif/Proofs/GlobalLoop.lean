import ColoVerif.Model.LegacyGlobalLoop
import Mathlib.Tactic.Linarith
import Mathlib.Tactic.Ring
/-
Lemmas about the control loop of `GlobalPlacer::run` (`Model/GlobalLoop.lean`): bounds on the
iterations and callbacks, the trail of the loop variables, closed forms under exact arithmetic,
soundness of the numeric box, and the legacy stop test on a circuit without wirelength.
Everything about `loopWith` is proved for an arbitrary stop test, so that it applies to the
current and to the legacy loop.
-/
namespace ColoVerif.GlobalLoop

theorem okPrefix_le (ok : Nat → Bool) (n : Nat) : okPrefix ok n ≤ n := by
  induction n with
  | zero => simp [okPrefix]
  | succ n ih =>
    unfold okPrefix
    split
    · omega
    · split <;> omega

theorem okPrefix_all (ok : Nat → Bool) (n : Nat) (h : ∀ i, i < n → ok i = true) : okPrefix ok n = n := by
  induction n with
  | zero => rfl
  | succ n ih =>
    have e := ih (fun i hi => h i (by omega))
    unfold okPrefix
    rw [e]
    simp [h n (by omega)]

/-! ### callback counts -/

theorem count_puEvs_ub (b : Bool) : (puEvs b).count .ub = 0 := by cases b <;> simp [puEvs]
theorem count_puEvs_lb (b : Bool) : (puEvs b).count .lb = 0 := by cases b <;> simp [puEvs]
theorem count_puEvs_pu (b : Bool) : (puEvs b).count .pu ≤ 1 := by cases b <;> simp [puEvs]

theorem length_eq_counts (l : List Ev) : l.length = l.count .lb + l.count .ub + l.count .pu := by
  induction l with
  | nil => rfl
  | cons e t ih => cases e <;> simp [ih] <;> omega

/-- what `loopWith` guarantees from a state `s` at iteration `j` with `fuel` iterations left -/
structure LoopBounds (p : Params) (fuel j : Nat) (s : St) (r : Result) : Prop where
  iters_le : r.iterations ≤ j + fuel
  upd_le : r.updates ≤ r.iterations
  upd_ge : j ≤ r.updates
  ub : r.events.count .ub ≤ s.events.count .ub + fuel + 1
  lb : r.events.count .lb ≤ s.events.count .lb + fuel * p.nbInner
  pu : r.events.count .pu ≤ s.events.count .pu + fuel
  limit : r.exit = .stepLimit → r.iterations = j + fuel ∧ r.updates = j + fuel

theorem advance_throw (R : Rounding) (p : Params) (o : Oracle) (j : Nat) (s : St)
    (hk : okPrefix (o.lbOk j) p.nbInner < p.nbInner) :
    advance R p o j s = .inr (throwAt s (s.events ++ [.ub] ++ puEvs (decide (o.dist j < s.pud)) ++
      List.replicate (okPrefix (o.lbOk j) p.nbInner) .lb) (j + 1) j) := by
  simp [advance, hk]

theorem advance_cont (R : Rounding) (p : Params) (o : Oracle) (j : Nat) (s : St)
    (hk : ¬ okPrefix (o.lbOk j) p.nbInner < p.nbInner) : advance R p o j s = .inl (nextSt R p o j s) := by
  simp [advance, hk]

theorem nextSt_events (R : Rounding) (p : Params) (o : Oracle) (j : Nat) (s : St) :
    (nextSt R p o j s).events =
      s.events ++ [.ub] ++ puEvs (decide (o.dist j < s.pud)) ++ List.replicate p.nbInner .lb := rfl

theorem loopWith_succ_stop (stop : Rat → Rat → Rat → Option StopReason) (R : Rounding) (p : Params) (o : Oracle)
    (fuel j : Nat) (s : St) (r : StopReason) (h : stop s.lb (o.ub j) (o.dist j) = some r) :
    loopWith stop R p o (fuel + 1) j s = finish s [.ub] (.stop r) (j + 1) j := by
  rw [loopWith, h]

theorem loopWith_succ_throw (stop : Rat → Rat → Rat → Option StopReason) (R : Rounding) (p : Params) (o : Oracle)
    (fuel j : Nat) (s : St) (h : stop s.lb (o.ub j) (o.dist j) = none)
    (hk : okPrefix (o.lbOk j) p.nbInner < p.nbInner) :
    loopWith stop R p o (fuel + 1) j s = throwAt s (s.events ++ [.ub] ++ puEvs (decide (o.dist j < s.pud)) ++
      List.replicate (okPrefix (o.lbOk j) p.nbInner) .lb) (j + 1) j := by
  rw [loopWith, h, advance_throw R p o j s hk]

theorem loopWith_succ_cont (stop : Rat → Rat → Rat → Option StopReason) (R : Rounding) (p : Params) (o : Oracle)
    (fuel j : Nat) (s : St) (h : stop s.lb (o.ub j) (o.dist j) = none)
    (hk : ¬ okPrefix (o.lbOk j) p.nbInner < p.nbInner) :
    loopWith stop R p o (fuel + 1) j s = loopWith stop R p o fuel (j + 1) (nextSt R p o j s) := by
  rw [loopWith, h, advance_cont R p o j s hk]

theorem loopWith_bounds (stop : Rat → Rat → Rat → Option StopReason) (R : Rounding) (p : Params) (o : Oracle)
    (fuel j : Nat) (s : St) : LoopBounds p fuel j s (loopWith stop R p o fuel j s) := by
  induction fuel generalizing j s with
  | zero =>
    simp only [loopWith, finish]
    constructor <;> simp [List.count_append]
  | succ fuel ih =>
    cases hst : stop s.lb (o.ub j) (o.dist j) with
    | some r =>
      rw [loopWith_succ_stop stop R p o fuel j s r hst]
      simp only [finish]
      constructor <;> simp [List.count_append]
    | none =>
      have h1 := count_puEvs_ub (decide (o.dist j < s.pud))
      have h2 := count_puEvs_lb (decide (o.dist j < s.pud))
      have h3 := count_puEvs_pu (decide (o.dist j < s.pud))
      by_cases hk : okPrefix (o.lbOk j) p.nbInner < p.nbInner
      · rw [loopWith_succ_throw stop R p o fuel j s hst hk]
        simp only [throwAt]
        have hmul : p.nbInner ≤ (fuel + 1) * p.nbInner := Nat.le_mul_of_pos_left _ (by omega)
        constructor
        · show j + 1 ≤ j + (fuel + 1); omega
        · show j ≤ j + 1; omega
        · show j ≤ j; omega
        · simp only [List.count_append, List.count_replicate, h1]; simp
        · simp only [List.count_append, List.count_replicate, h2]; simp; omega
        · simp only [List.count_append, List.count_replicate]; simp; omega
        · intro h; cases h
      · rw [loopWith_succ_cont stop R p o fuel j s hst hk]
        obtain ⟨a, b, c, d, e, f, g⟩ := ih (j + 1) (nextSt R p o j s)
        rw [nextSt_events] at d e f
        simp only [List.count_append, List.count_replicate, h1, h2] at d e f
        simp at d e f
        have hmul : (fuel + 1) * p.nbInner = fuel * p.nbInner + p.nbInner := by ring
        refine ⟨by omega, b, by omega, by omega, by omega, by omega, ?_⟩
        intro hx; have := g hx; omega

/-! ### the trail of the loop variables -/

theorem range_map_succ {α : Type} (f : Nat → α) (j : Nat) :
    (List.range (j + 1)).map f = (List.range j).map f ++ [f j] := by
  rw [List.range_succ, List.map_append]; rfl

theorem loopWith_trail (stop : Rat → Rat → Rat → Option StopReason) (R : Rounding) (p : Params) (o : Oracle)
    (fuel j : Nat) (s : St) (ht : s.trail = (List.range j).map (varsAfter R p o)) (hv : s.vars = varsAfter R p o j) :
    (loopWith stop R p o fuel j s).trail =
      (List.range ((loopWith stop R p o fuel j s).updates + 1)).map (varsAfter R p o) := by
  induction fuel generalizing j s with
  | zero => simp only [loopWith, finish]; rw [range_map_succ, ht, hv]
  | succ fuel ih =>
    cases hst : stop s.lb (o.ub j) (o.dist j) with
    | some r =>
      rw [loopWith_succ_stop stop R p o fuel j s r hst]
      simp only [finish]; rw [range_map_succ, ht, hv]
    | none =>
      by_cases hk : okPrefix (o.lbOk j) p.nbInner < p.nbInner
      · rw [loopWith_succ_throw stop R p o fuel j s hst hk]
        simp only [throwAt]; rw [range_map_succ, ht, hv]
      · rw [loopWith_succ_cont stop R p o fuel j s hst hk]
        apply ih
        · show s.trail ++ [s.vars] = _
          rw [range_map_succ, ht, hv]
        · show updateVars R p s.vars = _
          rw [hv]; rfl

/-! ### closed forms under exact arithmetic -/

theorem varsAfter_exact (p : Params) (o : Oracle) (k : Nat) :
    varsAfter Rounding.exact p o k = ⟨penaltyAfter p k, cutoffAfter p o.avgLen k, approxAfter p o.avgLen k⟩ := by
  induction k with
  | zero =>
    simp [varsAfter, initVars, mulFD, Rounding.exact, penaltyAfter, cutoffAfter, approxAfter]
  | succ k ih =>
    rw [varsAfter, ih]
    simp only [updateVars, mulFD, Rounding.exact, penaltyAfter, cutoffAfter, approxAfter, Vars.mk.injEq]
    refine ⟨?_, ?_, ?_⟩ <;> ring

theorem cutoffAfter_scale (p : Params) (a : Rat) (k : Nat) : cutoffAfter p a k = a * cutoffAfter p 1 k := by
  simp only [cutoffAfter]; ring

theorem approxAfter_scale (p : Params) (a : Rat) (k : Nat) : approxAfter p a k = a * approxAfter p 1 k := by
  simp only [approxAfter]; ring

/-- outside the classifier, the closed forms are inside the numeric box -/
theorem inBox_of_not_drift (p : Params) (a : Rat) (ha : 0 < a) (k : Nat) (h : driftOutOfBox p k = false) :
    InBox a ⟨penaltyAfter p k, cutoffAfter p a k, approxAfter p a k⟩ := by
  simp only [driftOutOfBox, Bool.or_eq_false_iff, decide_eq_false_iff_not, not_lt, not_le] at h
  obtain ⟨⟨⟨⟨⟨h1, h2⟩, h3⟩, h4⟩, h5⟩, h6⟩ := h
  rw [cutoffAfter_scale p a k, approxAfter_scale p a k]
  refine ⟨?_, ?_, ?_, h4, ?_, ?_⟩
  · exact mul_le_mul_of_nonneg_left h1 (le_of_lt ha)
  · exact mul_le_mul_of_nonneg_left h2 (le_of_lt ha)
  · exact mul_le_mul_of_nonneg_left h3 (le_of_lt ha)
  · have := mul_lt_mul_of_pos_left h5 ha
    show a * penaltyAfter p k < 18446744073709551616 * (a * cutoffAfter p 1 k)
    linarith
  · have := mul_lt_mul_of_pos_left h6 ha
    show a * cutoffAfter p 1 k < 16777216 * (a * penaltyAfter p k)
    linarith

/-! ### `run` -/

theorem runWith_ok (stop : Rat → Rat → Rat → Option StopReason) (R : Rounding) (p : Params) (o : Oracle)
    (hinit : ∀ i, i ≤ p.nbInitialSteps → o.initOk i = true) :
    runWith stop R p o = loopWith stop R p o (p.maxNbSteps - p.nbInitialSteps) 0 (initSt R p o) := by
  unfold runWith
  rw [okPrefix_all o.initOk (p.nbInitialSteps + 1) (fun i hi => hinit i (by omega))]
  simp

theorem runWith_trail (stop : Rat → Rat → Rat → Option StopReason) (R : Rounding) (p : Params) (o : Oracle)
    (hinit : ∀ i, i ≤ p.nbInitialSteps → o.initOk i = true) :
    (runWith stop R p o).trail = (List.range ((runWith stop R p o).updates + 1)).map (varsAfter R p o) := by
  rw [runWith_ok stop R p o hinit]
  exact loopWith_trail stop R p o _ 0 _ rfl rfl

theorem runWith_bounds (stop : Rat → Rat → Rat → Option StopReason) (R : Rounding) (p : Params) (o : Oracle) :
    (runWith stop R p o).iterations ≤ p.maxNbSteps - p.nbInitialSteps ∧
    (runWith stop R p o).updates ≤ (runWith stop R p o).iterations ∧
    (runWith stop R p o).events.count .ub ≤ (p.maxNbSteps - p.nbInitialSteps) + 1 ∧
    (runWith stop R p o).events.count .lb ≤ (p.nbInitialSteps + 1) + (p.maxNbSteps - p.nbInitialSteps) * p.nbInner ∧
    (runWith stop R p o).events.count .pu ≤ p.maxNbSteps - p.nbInitialSteps := by
  unfold runWith
  split
  · have := okPrefix_le o.initOk (p.nbInitialSteps + 1)
    simp [List.count_replicate]
    omega
  · obtain ⟨a, b, c, d, e, f, g⟩ := loopWith_bounds stop R p o (p.maxNbSteps - p.nbInitialSteps) 0 (initSt R p o)
    have hev : (initSt R p o).events = List.replicate (p.nbInitialSteps + 1) .lb := rfl
    rw [hev] at d e f
    simp only [List.count_replicate] at d e f
    simp at a d e f
    exact ⟨a, b, by omega, by omega, by omega⟩

/-! ### circuits without wirelength -/

theorem loopWith_stop_first (R : Rounding) (p : Params) (o : Oracle) (fuel : Nat) (s : St) (hub : o.ub 0 ≤ 0) :
    loopWith (stopTest R p o) R p o (fuel + 1) 0 s = finish s [.ub] (.stop .noWirelength) 1 0 :=
  loopWith_succ_stop _ R p o fuel 0 s .noWirelength (by simp [stopTest, hub])

/-- the legacy loop on `ub = lb = 0` with the distance test never firing: no stop, ever -/
theorem legacy_loop_all (R : Rounding) (p : Params) (o : Oracle) (hR : R.f 0 = 0)
    (hub : ∀ j, o.ub j = 0) (hlb : ∀ j, o.lb j = 0) (hd : ∀ j, ¬ o.dist j < distTol R p o)
    (hok : ∀ j i, o.lbOk j i = true) (fuel j : Nat) (s : St) (hs : s.lb = 0) :
    (loopWith (legacyStopTest R p o) R p o fuel j s).exit = .stepLimit ∧
    (loopWith (legacyStopTest R p o) R p o fuel j s).updates = j + fuel := by
  induction fuel generalizing j s with
  | zero => simp [loopWith, finish]
  | succ fuel ih =>
    have hstop : legacyStopTest R p o s.lb (o.ub j) (o.dist j) = none := by
      simp [legacyStopTest, gapLt, hub j, hs, hR, hd j]
    have hk : ¬ okPrefix (o.lbOk j) p.nbInner < p.nbInner := by
      rw [okPrefix_all (o.lbOk j) p.nbInner (fun i _ => hok j i)]; omega
    rw [loopWith_succ_cont _ R p o fuel j s hstop hk]
    have := ih (j + 1) (nextSt R p o j s)
      (by show (if p.nbInner = 0 then s.lb else o.lb j) = 0; split <;> simp [hs, hlb j])
    refine ⟨this.1, ?_⟩
    rw [this.2]; omega

end ColoVerif.GlobalLoop
