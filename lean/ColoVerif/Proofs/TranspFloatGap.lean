import ColoVerif.Proofs.TranspFloat
import ColoVerif.Proofs.TranspSsp2Solve
/-
C13, float costs: from optimality in the stored fixed-point costs to near-optimality in the original
real-valued costs.

Every stored cost is within `δ = 1/2 + 2^-24` of `c·factor` (`costsFromFloats_entry`), a feasible plan moves
exactly `D = total demand` units, so for feasible plans `|costOf p z − factor·realCost z| ≤ δ·D`
(`fixed_vs_real`).  Hence a plan that is optimal for the stored costs is within `2·δ·D/factor` of the
real-valued optimum (`float_gap`), and with `factor ≥ INT_MAX/(4 n M)·(1−2^-53)²` within
`2·D·(3/4)·(4 n M/INT_MAX)` (`float_gap_ideal`) — the tolerance the direct oracle of `harness/h_C13.cpp`
applies to the long-double brute-force optimum.
-/
namespace ColoVerif.Transp
open ColoVerif.F64

/-! ### rational sums -/

lemma sumToQ_le {n : Nat} {f g : Nat → Rat} (h : ∀ i, i < n → f i ≤ g i) : sumToQ n f ≤ sumToQ n g := by
  induction n with
  | zero => exact le_refl _
  | succ n ih =>
    simp only [sumToQ]
    have := ih (fun i hi => h i (Nat.lt_succ_of_lt hi))
    have := h n (Nat.lt_succ_self n)
    linarith

lemma sumToQ_add (n : Nat) (f g : Nat → Rat) : sumToQ n (fun i => f i + g i) = sumToQ n f + sumToQ n g := by
  induction n with
  | zero => simp [sumToQ]
  | succ n ih => simp only [sumToQ, ih]; ring

lemma sumToQ_mul_left (n : Nat) (c : Rat) (f : Nat → Rat) : sumToQ n (fun i => c * f i) = c * sumToQ n f := by
  induction n with
  | zero => simp [sumToQ]
  | succ n ih => simp only [sumToQ, ih]; ring

lemma sumToQ_cast (n : Nat) (f : Nat → Int) : ((sumTo n f : Int) : Rat) = sumToQ n (fun i => (f i : Rat)) := by
  induction n with
  | zero => simp [sumTo, sumToQ]
  | succ n ih => simp only [sumTo, sumToQ]; push_cast; rw [ih]

/-- a feasible plan moves exactly the total demand -/
lemma feasible_total (p : Problem) (z : Mat) (hz : Feasible p z) :
    sumTo p.nbSinks (fun i => sumTo p.nbSources (fun j => get2 z i j)) = p.totalDemand := by
  rw [sumTo_comm]
  have : sumTo p.nbSources (fun j => sumTo p.nbSinks (fun i => get2 z i j))
      = sumTo p.nbSources (fun j => p.demand j) :=
    sumTo_congr (fun j hj => hz.demand j hj)
  rw [this]
  unfold Problem.nbSources Problem.demand Problem.totalDemand
  exact sumTo_list p.demands

/-- the rounding unit of the fixed-point costs: `1/2` from `std::round` plus `2^-24` from the binary64 product -/
def fcDelta : Rat := 1 / 2 + 1 / 16777216

/-- **stored cost vs. real cost of a feasible plan**: `|costOf p z − factor·realCost z| ≤ δ·D` -/
lemma fixed_vs_real (caps dems : List Int) (fc : List (List Rat)) (h : FloatCostsOk fc) (hn1 : 1 ≤ fc.length)
    (z : Mat) (hz : Feasible (Problem.makeFloat caps dems fc) z) :
    ((costOf (Problem.makeFloat caps dems fc) z : Int) : Rat)
      ≤ fcFactor (fcMaxVal fc) fc.length * realCostOf fc caps.length dems.length z
        + fcDelta * ((dems.sum : Int) : Rat) ∧
    fcFactor (fcMaxVal fc) fc.length * realCostOf fc caps.length dems.length z
        - fcDelta * ((dems.sum : Int) : Rat)
      ≤ ((costOf (Problem.makeFloat caps dems fc) z : Int) : Rat) := by
  have htot := feasible_total _ z hz
  have hn : (Problem.makeFloat caps dems fc).nbSinks = caps.length := rfl
  have hm : (Problem.makeFloat caps dems fc).nbSources = dems.length := rfl
  have hD : (Problem.makeFloat caps dems fc).totalDemand = dems.sum := rfl
  have hcost : ∀ i j, (Problem.makeFloat caps dems fc).cost i j = get2 (costsFromFloats fc) i j := fun _ _ => rfl
  rw [hn, hm, hD] at htot
  have htotQ : sumToQ caps.length (fun i => sumToQ dems.length (fun j => ((get2 z i j : Int) : Rat)))
      = ((dems.sum : Int) : Rat) := by
    rw [← htot, sumToQ_cast]
    congr 1; funext i; rw [sumToQ_cast]
  have hcast : ((costOf (Problem.makeFloat caps dems fc) z : Int) : Rat)
      = sumToQ caps.length (fun i => sumToQ dems.length (fun j =>
          ((get2 (costsFromFloats fc) i j : Int) : Rat) * ((get2 z i j : Int) : Rat))) := by
    unfold costOf
    rw [hn, hm, sumToQ_cast]
    congr 1; funext i; rw [sumToQ_cast]
    congr 1; funext j; rw [hcost]; push_cast; rfl
  -- the two affine bounds as double sums
  have hsplit : ∀ (s : Rat), sumToQ caps.length (fun i => sumToQ dems.length (fun j =>
        fcFactor (fcMaxVal fc) fc.length * (getQ2 fc i j * ((get2 z i j : Int) : Rat))
          + s * ((get2 z i j : Int) : Rat)))
      = fcFactor (fcMaxVal fc) fc.length * realCostOf fc caps.length dems.length z
        + s * ((dems.sum : Int) : Rat) := by
    intro s
    have e1 : ∀ i, sumToQ dems.length (fun j =>
        fcFactor (fcMaxVal fc) fc.length * (getQ2 fc i j * ((get2 z i j : Int) : Rat))
          + s * ((get2 z i j : Int) : Rat))
        = fcFactor (fcMaxVal fc) fc.length * sumToQ dems.length (fun j => getQ2 fc i j * ((get2 z i j : Int) : Rat))
          + s * sumToQ dems.length (fun j => ((get2 z i j : Int) : Rat)) := by
      intro i
      rw [sumToQ_add, sumToQ_mul_left, sumToQ_mul_left]
    simp only [e1]
    rw [sumToQ_add, sumToQ_mul_left, sumToQ_mul_left, htotQ]
    rfl
  have hz0 : ∀ i j, i < caps.length → j < dems.length → (0 : Rat) ≤ ((get2 z i j : Int) : Rat) := by
    intro i j hi hj
    exact_mod_cast hz.nonneg i j hi hj
  constructor
  · rw [hcast, ← hsplit fcDelta]
    apply sumToQ_le; intro i hi
    apply sumToQ_le; intro j hj
    obtain ⟨_, _, he⟩ := costsFromFloats_entry fc h hn1 i j
    obtain ⟨_, e2⟩ := abs_le.mp he
    have := hz0 i j hi hj
    unfold fcDelta
    nlinarith
  · have e : fcFactor (fcMaxVal fc) fc.length * realCostOf fc caps.length dems.length z
        - fcDelta * ((dems.sum : Int) : Rat)
        = fcFactor (fcMaxVal fc) fc.length * realCostOf fc caps.length dems.length z
        + (-fcDelta) * ((dems.sum : Int) : Rat) := by ring
    rw [hcast, e, ← hsplit (-fcDelta)]
    apply sumToQ_le; intro i hi
    apply sumToQ_le; intro j hj
    obtain ⟨_, _, he⟩ := costsFromFloats_entry fc h hn1 i j
    obtain ⟨e1, _⟩ := abs_le.mp he
    have := hz0 i j hi hj
    unfold fcDelta
    nlinarith

/-- **near-optimality in the real-valued costs**: if `x` is no more expensive than `y` in the stored
fixed-point costs (both feasible) then in the original costs `x` exceeds `y` by at most `2·δ·D/factor` -/
lemma float_gap (caps dems : List Int) (fc : List (List Rat)) (h : FloatCostsOk fc) (hn1 : 1 ≤ fc.length)
    (x y : Mat) (hx : Feasible (Problem.makeFloat caps dems fc) x) (hy : Feasible (Problem.makeFloat caps dems fc) y)
    (hxy : costOf (Problem.makeFloat caps dems fc) x ≤ costOf (Problem.makeFloat caps dems fc) y) :
    realCostOf fc caps.length dems.length x ≤ realCostOf fc caps.length dems.length y
      + 2 * fcDelta * ((dems.sum : Int) : Rat) / fcFactor (fcMaxVal fc) fc.length := by
  obtain ⟨m1, _, m3⟩ := fcMaxVal_spec fc
  have heps : fcEps ≤ fcFltMax := by unfold fcEps fcFltMax; norm_num
  have hMf : fcMaxVal fc ≤ fcFltMax := m3 fcFltMax heps h.finite
  obtain ⟨hcf, _, _⟩ := fcFactor_bounds _ _ m1 hMf hn1 h.rows
  obtain ⟨_, lx⟩ := fixed_vs_real caps dems fc h hn1 x hx
  obtain ⟨uy, _⟩ := fixed_vs_real caps dems fc h hn1 y hy
  have hq : ((costOf (Problem.makeFloat caps dems fc) x : Int) : Rat)
      ≤ ((costOf (Problem.makeFloat caps dems fc) y : Int) : Rat) := by exact_mod_cast hxy
  have e : realCostOf fc caps.length dems.length y
      + 2 * fcDelta * ((dems.sum : Int) : Rat) / fcFactor (fcMaxVal fc) fc.length
      = (fcFactor (fcMaxVal fc) fc.length * realCostOf fc caps.length dems.length y
          + 2 * fcDelta * ((dems.sum : Int) : Rat)) / fcFactor (fcMaxVal fc) fc.length := by
    rw [add_div, mul_div_cancel_left₀ _ (ne_of_gt hcf)]
  rw [e, le_div_iff₀ hcf]
  linarith

/-- the same with the ideal factor `INT_MAX/(4·n·maxVal)`: the gap is at most
`2·D·(3/4)·(4·n·maxVal/INT_MAX)` (for non-negative total demand) -/
lemma float_gap_ideal (caps dems : List Int) (fc : List (List Rat)) (h : FloatCostsOk fc) (hn1 : 1 ≤ fc.length)
    (hD : 0 ≤ dems.sum)
    (x y : Mat) (hx : Feasible (Problem.makeFloat caps dems fc) x) (hy : Feasible (Problem.makeFloat caps dems fc) y)
    (hxy : costOf (Problem.makeFloat caps dems fc) x ≤ costOf (Problem.makeFloat caps dems fc) y) :
    realCostOf fc caps.length dems.length x ≤ realCostOf fc caps.length dems.length y
      + 2 * ((dems.sum : Int) : Rat) * (3 / 4) * (4 * (fc.length : Rat) * fcMaxVal fc / 2147483647) := by
  have hg := float_gap caps dems fc h hn1 x y hx hy hxy
  obtain ⟨m1, _, m3⟩ := fcMaxVal_spec fc
  have heps : fcEps ≤ fcFltMax := by unfold fcEps fcFltMax; norm_num
  have heps0 : (0 : Rat) < fcEps := by unfold fcEps; norm_num
  have hM0 : 0 < fcMaxVal fc := lt_of_lt_of_le heps0 m1
  have hMf : fcMaxVal fc ≤ fcFltMax := m3 fcFltMax heps h.finite
  obtain ⟨hcf, _, hlow⟩ := fcFactor_bounds _ _ m1 hMf hn1 h.rows
  have hnR : (0 : Rat) < (fc.length : Rat) := by exact_mod_cast hn1
  have hDq : (0 : Rat) ≤ ((dems.sum : Int) : Rat) := by exact_mod_cast hD
  -- 2 δ D / cf ≤ 2 D (3/4) / f  because  cf ≥ f (1-u)^2  and  δ ≤ (3/4)(1-u)^2
  have hg0 : 0 ≤ 4 * (fc.length : Rat) * fcMaxVal fc / 2147483647 :=
    div_nonneg (mul_nonneg (mul_nonneg (by norm_num) (le_of_lt hnR)) (le_of_lt hM0)) (by norm_num)
  have hfg : (2147483647 / fcMaxVal fc / 4 / (fc.length : Rat)) * (4 * (fc.length : Rat) * fcMaxVal fc / 2147483647) = 1 := by
    have e : (2147483647 / fcMaxVal fc / 4 / (fc.length : Rat)) * (4 * (fc.length : Rat) * fcMaxVal fc / 2147483647)
        = (fcMaxVal fc / fcMaxVal fc) * ((fc.length : Rat) / (fc.length : Rat)) := by ring
    rw [e, div_self (ne_of_gt hM0), div_self (ne_of_gt hnR)]; norm_num
  have key : fcDelta / fcFactor (fcMaxVal fc) fc.length
      ≤ (3 / 4) * (4 * (fc.length : Rat) * fcMaxVal fc / 2147483647) := by
    rw [div_le_iff₀ hcf]
    have hd : fcDelta ≤ (3 / 4) * ((1 - u53) * (1 - u53)) := by unfold fcDelta u53; norm_num
    have h1 := mul_le_mul_of_nonneg_right hlow hg0
    have e1 : 2147483647 / fcMaxVal fc / 4 / (fc.length : Rat) * (1 - u53) * (1 - u53)
          * (4 * (fc.length : Rat) * fcMaxVal fc / 2147483647)
        = ((2147483647 / fcMaxVal fc / 4 / (fc.length : Rat)) * (4 * (fc.length : Rat) * fcMaxVal fc / 2147483647))
          * ((1 - u53) * (1 - u53)) := by ring
    rw [e1, hfg, one_mul] at h1
    have e2 : (3 / 4 : Rat) * (4 * (fc.length : Rat) * fcMaxVal fc / 2147483647) * fcFactor (fcMaxVal fc) fc.length
        = (3 / 4) * (fcFactor (fcMaxVal fc) fc.length * (4 * (fc.length : Rat) * fcMaxVal fc / 2147483647)) := by ring
    rw [e2]
    linarith
  have h3 : 2 * fcDelta * ((dems.sum : Int) : Rat) / fcFactor (fcMaxVal fc) fc.length
      = 2 * ((dems.sum : Int) : Rat) * (fcDelta / fcFactor (fcMaxVal fc) fc.length) := by ring
  have h4 : 2 * ((dems.sum : Int) : Rat) * (fcDelta / fcFactor (fcMaxVal fc) fc.length)
      ≤ 2 * ((dems.sum : Int) : Rat) * ((3 / 4) * (4 * (fc.length : Rat) * fcMaxVal fc / 2147483647)) :=
    mul_le_mul_of_nonneg_left key (by linarith)
  rw [h3] at hg
  have h5 : 2 * ((dems.sum : Int) : Rat) * ((3 / 4) * (4 * (fc.length : Rat) * fcMaxVal fc / 2147483647))
      = 2 * ((dems.sum : Int) : Rat) * (3 / 4) * (4 * (fc.length : Rat) * fcMaxVal fc / 2147483647) := by ring
  linarith

lemma int_list_sum_nonneg (l : List Int) (h : ∀ d, d ∈ l → 0 ≤ d) : 0 ≤ l.sum := by
  induction l with
  | nil => simp
  | cons a as ih =>
    rw [List.sum_cons]
    have := h a (by simp)
    have := ih (fun d hd => h d (by simp [hd]))
    omega

/-! ### the cost bound -/

/-- on its domain the float constructor stores costs that satisfy the hypothesis of the solver theorems -/
lemma costsFromFloats_costBound (caps dems : List Int) (fc : List (List Rat)) (h : FloatCostsOk fc) :
    CostBound (Problem.makeFloat caps dems fc) := by
  intro i j _ _
  have hcost : (Problem.makeFloat caps dems fc).cost i j = get2 (costsFromFloats fc) i j := rfl
  rw [hcost]
  by_cases hn1 : 1 ≤ fc.length
  · obtain ⟨a, b, _⟩ := costsFromFloats_entry fc h hn1 i j
    unfold intMax
    constructor <;> omega
  · have : fc = [] := List.length_eq_zero_iff.mp (by omega)
    subst this
    have : get2 (costsFromFloats []) i j = 0 := by simp [costsFromFloats, scaleRows, get2]
    rw [this]; unfold intMax; constructor <;> omega

end ColoVerif.Transp
