import ColoVerif.Proofs.GridGroup
import ColoVerif.Model.GridSched
/-
C16 — the schedule model of the public passes (`Model/GridSched.lean`): filling the holes of a schedule
gives an operation list of the allocation model, and the view (hierarchy + levels) the schedule is
computed from evolves independently of the holes.
-/
namespace ColoVerif.Grid

theorem run_append (s : HState) (a b : List Op) : s.run (a ++ b) = (s.run a).run b := by
  simp only [HState.run, List.foldl_append]

theorem redistribute_view (s : HState) (G : List (Nat × Nat)) (c : List (List Nat)) :
    (s.redistribute G c).view = s.view := by
  unfold HState.redistribute
  split
  · obtain ⟨_, h2, h3, _, h5, h6⟩ := redistFold_static (G.zip c) s
    simp only [redistFold] at h2 h3 h5 h6
    simp only [HState.view, h2, h3, h5, h6]
  · rfl

theorem foldl_view {α : Type} (f : HState → α → HState) (hf : ∀ s a, (f s a).view = s.view) (l : List α) :
    ∀ s, (l.foldl f s).view = s.view := by
  induction l with
  | nil => intro s; rfl
  | cons a rest ih => intro s; simp only [List.foldl_cons]; rw [ih (f s a), hf s a]

theorem rebisectSk_view (s : HState) (x1 y1 x2 y2 : Nat) (o : List Nat) (k : Nat) :
    (s.rebisectSk x1 y1 x2 y2 o k).view = s.view := by
  unfold HState.rebisectSk
  split
  · rfl
  · exact redistribute_view s _ _

theorem reoptimizeSk_view (s : HState) (c : List (Nat × Nat)) (o : List Nat) (k : Nat) (a : List Nat) :
    (s.reoptimizeSk c o k a).view = s.view := by
  unfold HState.reoptimizeSk
  split
  · exact rebisectSk_view s _ _ _ _ _ _
  · simp only
    split
    · rfl
    · exact redistribute_view s _ _

/-- a call with any hole filled moves the view as the call alone does -/
theorem apply_toOp_view (s : HState) (c : Call) (h : Hole) : (s.apply (c.toOp h)).view = s.view.apply c := by
  cases c with
  | refineX =>
    show s.refineX.view = s.view.refineX
    unfold HState.refineX View.refineX
    by_cases h0 : s.levelX = 0
    · rw [if_pos h0, if_pos (show s.view.levelX = 0 from h0)]
    · rw [if_neg h0, if_neg (show ¬ s.view.levelX = 0 from h0)]; rfl
  | refineY =>
    show s.refineY.view = s.view.refineY
    unfold HState.refineY View.refineY
    by_cases h0 : s.levelY = 0
    · rw [if_pos h0, if_pos (show s.view.levelY = 0 from h0)]
    · rw [if_neg h0, if_neg (show ¬ s.view.levelY = 0 from h0)]; rfl
  | coarsenX =>
    show s.coarsenX.view = s.view.coarsenX
    unfold HState.coarsenX View.coarsenX
    by_cases h0 : s.levelX + 1 < s.hx.nbLevels
    · rw [if_pos h0, if_pos (show s.view.levelX + 1 < s.view.hx.nbLevels from h0)]; rfl
    · rw [if_neg h0, if_neg (show ¬ s.view.levelX + 1 < s.view.hx.nbLevels from h0)]
  | coarsenY =>
    show s.coarsenY.view = s.view.coarsenY
    unfold HState.coarsenY View.coarsenY
    by_cases h0 : s.levelY + 1 < s.hy.nbLevels
    · rw [if_pos h0, if_pos (show s.view.levelY + 1 < s.view.hy.nbLevels from h0)]; rfl
    · rw [if_neg h0, if_neg (show ¬ s.view.levelY + 1 < s.view.hy.nbLevels from h0)]
  | rebisect x1 y1 x2 y2 => exact rebisectSk_view s _ _ _ _ _ _
  | reoptimize cands => exact reoptimizeSk_view s _ _ _ _
  | xTransport =>
    show (s.improveXTransportSk h.assigns).view = s.view
    unfold HState.improveXTransportSk
    exact foldl_view _ (fun st j => by unfold HState.xTransportRow; exact redistribute_view st _ _) _ s
  | yTransport =>
    show (s.improveYTransportSk h.assigns).view = s.view
    unfold HState.improveYTransportSk
    exact foldl_view _ (fun st j => by unfold HState.yTransportCol; exact redistribute_view st _ _) _ s

/-- running a filled schedule moves the view as the schedule alone does, whatever the holes -/
theorem run_fill_view (cs : List Call) : ∀ (s : HState) (holes : Nat → Hole),
    (s.run (fill cs holes)).view = s.view.run cs := by
  induction cs with
  | nil => intro s holes; rfl
  | cons c rest ih =>
    intro s holes
    simp only [fill, HState.run, List.foldl_cons, View.run]
    have := ih (s.apply (c.toOp (holes 0))) (fun k => holes (k + 1))
    simp only [HState.run, View.run] at this
    rw [this, apply_toOp_view]

/-! ### the scheduled calls name distinct bins of the view -/

open Sched

/-- a logged call names distinct bins of an `nx × ny` view -/
def Call.WF (nx ny : Nat) : Call → Prop
  | .reoptimize cands => cands.Nodup ∧ ∀ b ∈ cands, b.1 < nx ∧ b.2 < ny
  | .rebisect x1 y1 x2 y2 => x1 < nx ∧ y1 < ny ∧ x2 < nx ∧ y2 < ny ∧ ¬ (x1 = x2 ∧ y1 = y2)
  | _ => True

theorem mem_rectBins (nx ny i j w h : Nat) (b : Nat × Nat) :
    b ∈ rectBins nx ny i j w h ↔ i ≤ b.1 ∧ b.1 < i + w ∧ b.1 < nx ∧ j ≤ b.2 ∧ b.2 < j + h ∧ b.2 < ny := by
  obtain ⟨x, y⟩ := b
  simp only [rectBins, List.mem_flatMap, List.mem_filter, List.mem_map, List.mem_range, decide_eq_true_eq,
    Prod.mk.injEq]
  constructor
  · rintro ⟨k, ⟨⟨a, ha, rfl⟩, hk⟩, l, ⟨⟨c, hc, rfl⟩, hl⟩, rfl, rfl⟩
    omega
  · rintro ⟨h1, h2, h3, h4, h5, h6⟩
    exact ⟨x, ⟨⟨x - i, by omega, by omega⟩, h3⟩, y, ⟨⟨y - j, by omega, by omega⟩, h6⟩, rfl, rfl⟩

theorem rectBins_nodup (nx ny i j w h : Nat) : (rectBins nx ny i j w h).Nodup := by
  unfold rectBins
  rw [List.nodup_flatMap]
  refine ⟨?_, ?_⟩
  · intro k _
    refine List.Nodup.map ?_ (List.Nodup.filter _ (List.Nodup.map ?_ List.nodup_range))
    · intro a b hab; simpa using hab
    · intro a b hab; simpa using hab
  · have hn : (((List.range w).map (i + ·)).filter (· < nx)).Nodup :=
      List.Nodup.filter _ (List.Nodup.map (by intro a b hab; simpa using hab) List.nodup_range)
    refine hn.imp ?_
    intro a b hab
    simp only [Function.onFun, List.disjoint_left, List.mem_map]
    rintro p ⟨l, _, rfl⟩ ⟨l', _, e⟩
    exact hab (by simpa using (Prod.mk.inj e).1.symm)

theorem improveRectangle_wf (nx ny i j w h : Nat) : (improveRectangle nx ny i j w h).WF nx ny := by
  refine ⟨rectBins_nodup _ _ _ _ _ _, ?_⟩
  intro b hb
  have := (mem_rectBins _ _ _ _ _ _ b).mp hb
  omega

theorem mem_diagBins (nx ny i j xmy xpy : Nat) (b : Nat × Nat) :
    b ∈ diagBins nx ny i j xmy xpy ↔ ∃ k l, k < xmy ∧ l < xpy ∧ i + k + l < nx ∧ k ≤ j + l ∧ j + l - k < ny ∧
      b = (i + k + l, j + l - k) := by
  simp only [diagBins, List.mem_flatMap, List.mem_filterMap, List.mem_range]
  constructor
  · rintro ⟨k, hk, l, hl, h⟩
    split at h
    · rename_i hc
      simp only [Option.some.injEq] at h
      exact ⟨k, l, hk, hl, hc.1, hc.2.1, hc.2.2, h.symm⟩
    · simp at h
  · rintro ⟨k, l, hk, hl, h1, h2, h3, rfl⟩
    exact ⟨k, hk, l, hl, by rw [if_pos ⟨h1, h2, h3⟩]⟩

theorem diagBins_nodup (nx ny i j xmy xpy : Nat) : (diagBins nx ny i j xmy xpy).Nodup := by
  unfold diagBins
  rw [List.nodup_flatMap]
  refine ⟨?_, ?_⟩
  · intro k _
    refine List.Nodup.filterMap ?_ List.nodup_range
    intro l l' b hb hb'
    split at hb
    · split at hb'
      · simp only [Option.mem_def, Option.some.injEq] at hb hb'
        have := (Prod.mk.inj (hb.trans hb'.symm)).1
        omega
      · simp at hb'
    · simp at hb
  · refine (List.nodup_range (n := xmy)).imp ?_
    intro k k' hkk
    simp only [Function.onFun, List.disjoint_left, List.mem_filterMap, List.mem_range]
    rintro b ⟨l, _, hb⟩ ⟨l', _, hb'⟩
    split at hb
    · split at hb'
      · rename_i c1 c2
        simp only [Option.some.injEq] at hb hb'
        have e := hb.trans hb'.symm
        have e1 := (Prod.mk.inj e).1
        have e2 := (Prod.mk.inj e).2
        omega
      · simp at hb'
    · simp at hb

theorem diag_wf (nx ny i j xmy xpy : Nat) : (Call.reoptimize (diagBins nx ny i j xmy xpy)).WF nx ny := by
  refine ⟨diagBins_nodup _ _ _ _ _ _, ?_⟩
  intro b hb
  obtain ⟨k, l, _, _, h1, _, h3, rfl⟩ := (mem_diagBins _ _ _ _ _ _ b).mp hb
  exact ⟨h1, h3⟩

theorem improveRectangles_wf (nx ny w h sx sy x0 y0 : Nat) :
    ∀ c ∈ improveRectangles nx ny w h sx sy x0 y0, c.WF nx ny := by
  intro c hc
  unfold improveRectangles at hc
  split at hc
  · simp at hc
  · simp only [List.mem_flatMap, List.mem_map] at hc
    obtain ⟨i, _, j, _, rfl⟩ := hc
    exact improveRectangle_wf _ _ _ _ _ _

theorem improveDiagonalRectangles_wf (nx ny a b sx sy x0 y0 : Nat) :
    ∀ c ∈ improveDiagonalRectangles nx ny a b sx sy x0 y0, c.WF nx ny := by
  intro c hc
  unfold improveDiagonalRectangles at hc
  split at hc
  · simp at hc
  · simp only [List.mem_flatMap, List.mem_map] at hc
    obtain ⟨i, _, j, _, rfl⟩ := hc
    exact diag_wf _ _ _ _ _ _

theorem improveStep_wf (p : LegParams) (nx ny : Nat) : ∀ c ∈ improveStep p nx ny, c.WF nx ny := by
  intro c hc
  simp only [improveStep, List.mem_append] at hc
  rcases hc with ((hc | hc) | hc) | hc
  · unfold improveSquare at hc
    split at hc
    · simp at hc
    · simp only [List.mem_append] at hc
      rcases hc with ((hc | hc) | hc) | hc <;> exact improveRectangles_wf _ _ _ _ _ _ _ _ c hc
  · unfold improveXY at hc
    split at hc
    · simp at hc
    · simp only [List.mem_append] at hc
      rcases hc with ((hc | hc) | hc) | hc <;> exact improveRectangles_wf _ _ _ _ _ _ _ _ c hc
  · unfold improveUnidimensionalTransport at hc
    split at hc
    · simp only [List.mem_cons, List.not_mem_nil, or_false] at hc
      rcases hc with rfl | rfl <;> exact True.intro
    · simp at hc
  · unfold improveDiagonals at hc
    split at hc
    · simp at hc
    · simp only [List.mem_append] at hc
      rcases hc with ((hc | hc) | hc) | hc <;> exact improveDiagonalRectangles_wf _ _ _ _ _ _ _ _ c hc

theorem improve_wf (p : LegParams) (v : View) : ∀ c ∈ Sched.improve p v, c.WF v.nbX v.nbY := by
  intro c hc
  simp only [Sched.improve, List.mem_flatten, List.mem_replicate] at hc
  obtain ⟨l, ⟨_, rfl⟩, hcl⟩ := hc
  exact improveStep_wf p _ _ c hcl

theorem improveXNeighbours_wf (v : View) (same : Bool) : ∀ c ∈ improveXNeighbours v same, c.WF v.nbX v.nbY := by
  intro c hc
  simp only [improveXNeighbours, List.mem_flatMap, List.mem_range] at hc
  obtain ⟨i, hi, hc⟩ := hc
  split at hc
  · simp at hc
  · simp only [List.mem_map, List.mem_range] at hc
    obtain ⟨j, hj, rfl⟩ := hc
    simp only [Call.WF]
    omega

theorem improveYNeighbours_wf (v : View) (same : Bool) : ∀ c ∈ improveYNeighbours v same, c.WF v.nbX v.nbY := by
  intro c hc
  simp only [improveYNeighbours, List.mem_flatMap, List.mem_range] at hc
  obtain ⟨j, hj, hc⟩ := hc
  split at hc
  · simp at hc
  · simp only [List.mem_map, List.mem_range] at hc
    obtain ⟨i, hi, rfl⟩ := hc
    simp only [Call.WF]
    omega

theorem improveSquareNeighbours_wf (v : View) (sx sy : Bool) :
    ∀ c ∈ improveSquareNeighbours v sx sy, c.WF v.nbX v.nbY := by
  intro c hc
  simp only [improveSquareNeighbours, List.mem_flatMap, List.mem_range] at hc
  obtain ⟨i, _, hc⟩ := hc
  split at hc
  · simp at hc
  · simp only [List.mem_flatMap, List.mem_range] at hc
    obtain ⟨j, _, hc⟩ := hc
    split at hc
    · simp at hc
    · simp only [List.mem_singleton] at hc
      subst hc
      exact improveRectangle_wf _ _ _ _ _ _

end ColoVerif.Grid
