import ColoVerif.Model.DetOpt
import ColoVerif.Proofs.DetPlaceFrame
namespace ColoVerif.DetPlace
open State

theorem scan_some {cur : Int} {eval : Int → Option Int} {cands : List Int} {best b : Option Int}
    (hb : ∀ c, best = some c → ∃ v, eval c = some v ∧ v < cur)
    (e : scan cur eval cands best = b) : ∀ c, b = some c → ∃ v, eval c = some v ∧ v < cur := by
  induction cands generalizing best with
  | nil => simp [scan] at e; exact e ▸ hb
  | cons cand rest ih =>
    unfold scan at e
    split at e
    · rename_i v hv
      split at e
      · rename_i hlt
        exact ih (by intro c hc; injection hc with hc; exact ⟨v, hc ▸ hv, hlt⟩) e
      · exact ih hb e
    · exact ih hb e

theorem keepBest_spec (init : Int) (leaves : List Leaf) (l0 : Option Leaf) (best : Int)
    (h0 : best ≤ init) (hl0 : ∀ l, l0 = some l → l.value = best ∧ l.value < init) :
    (keepBest best leaves l0).1 ≤ init ∧
    ∀ l, (keepBest best leaves l0).2 = some l → l.value = (keepBest best leaves l0).1 ∧ l.value < init := by
  induction leaves generalizing best l0 with
  | nil => exact ⟨h0, hl0⟩
  | cons leaf rest ih =>
    unfold keepBest
    split
    · rename_i hlt
      exact ih (some leaf) leaf.value (by omega) (by intro l hl; injection hl with hl; subst hl; exact ⟨rfl, by omega⟩)
    · exact ih l0 best h0 hl0

end ColoVerif.DetPlace
