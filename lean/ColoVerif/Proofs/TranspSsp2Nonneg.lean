/-
C13, step 1 of the lift: every entry of the plan returned by `solve` is non-negative.

Key facts: (a) a successful walk along `sinkParent_` visits pairwise distinct sinks (`depthIs` is
functional), so when the second walk of `sendSource` reaches a sink its allocation row and its queues
are still the ones the first walk looked at; (b) after `emplace` the top of a `priority_queue` is the
old top or the new element; (c) the first walk bounds the amount by the allocation of each old top.
No ordering property of the heaps is needed.
-/
import ColoVerif.Proofs.TranspSsp
import ColoVerif.Proofs.TranspSsp2Defs

namespace ColoVerif.Transp

/-! ### arrays, heaps, queues: pointwise facts -/

lemma hget_setIfInBounds (a : Heap) (i k : Nat) (v : CostElt) :
    hget (a.setIfInBounds i v) k = if k = i ∧ i < a.size then v else hget a k := by
  unfold hget
  simp only [Array.getD_eq_getD_getElem?, Array.getElem?_setIfInBounds]
  by_cases e : i = k
  · subst e
    by_cases h : i < a.size
    · simp [h]
    · simp [h]
  · have e' : ¬ k = i := fun hh => e hh.symm
    simp [e, e']

/-- after `std::__push_heap` the front is the old front or the pushed value -/
lemma pushHeapLoop_top (v : CostElt) : ∀ (hole : Nat) (a : Heap) (top : Nat),
    hget (pushHeapLoop a hole top v) 0 = hget a 0 ∨ hget (pushHeapLoop a hole top v) 0 = v := by
  intro hole
  induction hole using Nat.strong_induction_on with
  | _ hole ih =>
    intro a top
    rw [pushHeapLoop]
    split
    · rename_i hc
      have hlt : (hole - 1) / 2 < hole := by omega
      rcases ih _ hlt (a.setIfInBounds hole (hget a ((hole - 1) / 2))) top with h | h
      · left
        rw [h, hget_setIfInBounds]
        have : ¬ (0 = hole ∧ hole < a.size) := by omega
        rw [if_neg this]
      · right; exact h
    · rw [hget_setIfInBounds]
      split
      · right; rfl
      · left; rfl

lemma hget_push_zero (h : Heap) (v : CostElt) : hget (h.push v) 0 = if h.size = 0 then v else hget h 0 := by
  unfold hget
  simp only [Array.getD_eq_getD_getElem?, Array.getElem?_push]
  by_cases e : h.size = 0
  · simp [e]
  · have : ¬ 0 = h.size := fun hh => e hh.symm
    simp [e, this]

lemma heapPush_top (h : Heap) (v : CostElt) :
    (0 < h.size ∧ hget (heapPush h v) 0 = hget h 0) ∨ hget (heapPush h v) 0 = v := by
  unfold heapPush
  rcases pushHeapLoop_top v h.size (h.push v) 0 with e | e
  · rw [hget_push_zero] at e
    by_cases hs : h.size = 0
    · rw [if_pos hs] at e; right; exact e
    · rw [if_neg hs] at e; left; exact ⟨by omega, e⟩
  · right; exact e

lemma qget_row (qs qs' : Queues) (a b : Nat) (h : qs.getD a #[] = qs'.getD a #[]) :
    qget qs a b = qget qs' a b := by
  unfold qget; rw [h]

lemma qset_row_ne (qs : Queues) (a b : Nat) (h : Heap) (a' : Nat) (hne : a' ≠ a) :
    (qset qs a b h).getD a' #[] = qs.getD a' #[] := by
  unfold qset
  simp only [Array.getD_eq_getD_getElem?, Array.getElem?_setIfInBounds]
  have : ¬ a = a' := fun e => hne e.symm
  simp [this]

lemma qget_qset (qs : Queues) (a b : Nat) (h : Heap) (b' : Nat) :
    qget (qset qs a b h) a b' = qget qs a b' ∨ (b' = b ∧ qget (qset qs a b h) a b' = h) := by
  unfold qget qset
  simp only [Array.getD_eq_getD_getElem?, Array.getElem?_setIfInBounds]
  by_cases ha : a < qs.size
  · simp only [ha, if_true, Option.getD_some]
    by_cases e : b = b'
    · subst e
      by_cases hb : b < (qs[a]?.getD #[]).size
      · right; simp [hb]
      · left; simp [hb]
    · left; simp [e]
  · left
    simp [ha]

lemma get2_row (m m' : Mat) (i j : Nat) (h : m.getD i [] = m'.getD i []) : get2 m i j = get2 m' i j := by
  unfold get2; rw [h]

lemma add2_row_ne (a : Mat) (i j : Nat) (d : Int) (i' : Nat) (hne : i' ≠ i) :
    (add2 a i j d).getD i' [] = a.getD i' [] := by
  unfold add2
  rw [getD_updAt]
  rw [if_neg (fun hh => hne hh.1)]

/-! ### `foldlM` in `Except` with an invariant -/

lemma foldlM_except_inv {α β : Type} (P : α → Prop) (f : α → β → Except String α) :
    ∀ (L : List β) (init r : α), P init → (∀ q d q', d ∈ L → P q → f q d = .ok q' → P q') →
      L.foldlM f init = .ok r → P r := by
  intro L
  induction L with
  | nil =>
    intro init r h0 _ h
    simp only [List.foldlM_nil, pure, Except.pure, Except.ok.injEq] at h
    subst h; exact h0
  | cons d L ih =>
    intro init r h0 hstep h
    simp only [List.foldlM_cons, bind, Except.bind] at h
    split at h
    · exact absurd h (by simp)
    · rename_i q' hq
      exact ih q' r (hstep init d q' (by simp) h0 hq) (fun q d q' hd => hstep q d q' (by simp [hd])) h

lemma foldl_inv {α β : Type} (P : α → Prop) (f : α → β → α) :
    ∀ (L : List β) (init : α), P init → (∀ q d, d ∈ L → P q → P (f q d)) → P (L.foldl f init) := by
  intro L
  induction L with
  | nil => intro init h0 _; exact h0
  | cons d L ih =>
    intro init h0 hstep
    simp only [List.foldl_cons]
    exact ih _ (hstep init d (by simp) h0) (fun q d hd => hstep q d (by simp [hd]))

/-! ### effect of the queue updates (only what non-negativity needs) -/

/-- `updateDestQueues` touches only row `sink`; each front is the old front or the pushed source -/
lemma updateDestQueues_fronts (p : Problem) (alloc : Mat) (qs qs1 : Queues) (sink src : Nat)
    (h : updateDestQueues p alloc qs sink src = .ok qs1) :
    (∀ a, a ≠ sink → qs1.getD a #[] = qs.getD a #[]) ∧
    (∀ d, hget (qget qs1 sink d) 0 = hget (qget qs sink d) 0 ∨ (hget (qget qs1 sink d) 0).elt = src) := by
  unfold updateDestQueues at h
  split at h
  · injection h with h; subst h
    exact ⟨fun _ _ => rfl, fun _ => Or.inl rfl⟩
  · refine foldlM_except_inv
      (fun q => (∀ a, a ≠ sink → q.getD a #[] = qs.getD a #[]) ∧
        (∀ d, hget (qget q sink d) 0 = hget (qget qs sink d) 0 ∨ (hget (qget q sink d) 0).elt = src))
      _ _ qs qs1 ⟨fun _ _ => rfl, fun _ => Or.inl rfl⟩ ?_ h
    intro q d q' _ hq hf
    split at hf
    · simp only [pure, Except.pure, Except.ok.injEq] at hf; subst hf; exact hq
    · split at hf
      · exact absurd hf (by simp)
      · simp only [pure, Except.pure, Except.ok.injEq] at hf; subst hf
        refine ⟨fun a ha => by rw [qset_row_ne _ _ _ _ _ ha]; exact hq.1 a ha, fun d' => ?_⟩
        rcases qget_qset q sink d (heapPush (qget q sink d) ⟨p.movingCost src sink d, src⟩) d' with e | ⟨e1, e2⟩
        · rw [e]; exact hq.2 d'
        · subst e1
          rw [e2]
          rcases heapPush_top (qget q sink d') ⟨p.movingCost src sink d', src⟩ with ⟨_, e3⟩ | e3
          · rw [e3]; exact hq.2 d'
          · right; rw [e3]

lemma updateSinkQueues_rows (p : Problem) (alloc : Mat) (qs : Queues) (sink src : Nat) :
    ∀ a, a ≠ sink → (updateSinkQueues p alloc qs sink src).getD a #[] = qs.getD a #[] := by
  unfold updateSinkQueues
  split
  · intro _ _; rfl
  · refine foldl_inv (fun q => ∀ a, a ≠ sink → q.getD a #[] = qs.getD a #[]) _ _ qs (fun _ _ => rfl) ?_
    intro q d _ hq a ha
    split
    · exact hq a ha
    · rw [qset_row_ne _ _ _ _ _ ha]; exact hq a ha

/-! ### one round of the second walk -/

lemma add2?_eq (n m : Nat) (a a' : Mat) (i j : Nat) (d : Int) (h : add2? n m a i j d = some a') :
    a' = add2 a i j d ∧ i < n ∧ j < m ∧ j < (a.getD i []).length := by
  unfold add2? at h
  split at h
  · rename_i hc
    injection h with h
    exact ⟨h.symm, hc⟩
  · exact absurd h (by simp)

lemma add2_row_len (a : Mat) (i j : Nat) (d : Int) (i' : Nat) :
    ((add2 a i j d).getD i' []).length = (a.getD i' []).length := by
  unfold add2
  rw [getD_updAt]
  split
  · rename_i hc
    rw [hc.1]
    unfold addAt
    have : ∀ (l : List Int) (j : Nat) (f : Int → Int), (updAt l j f).length = l.length := by
      intro l
      induction l with
      | nil => intro j f; rfl
      | cons x xs ih =>
        intro j f
        cases j with
        | zero => rfl
        | succ j => simp [updAt, ih]
    exact this _ _ _
  · rfl

/-- what `sendStep` does to the allocations and which source leaves `snk1` -/
lemma sendStep_alloc (p : Problem) (m : Int) (alloc : Mat) (qs : Queues) (snk1 snk2 sentSrc : Nat) (st : Step)
    (h : sendStep p m alloc qs snk1 snk2 sentSrc = .ok st) :
    (∀ i j, get2 st.alloc i j = get2 alloc i j + (if i = snk1 ∧ j = sentSrc then m else 0)
        - (if i = snk1 ∧ j = st.newSrc then m else 0)) ∧
    (∀ a, a ≠ snk1 → st.alloc.getD a [] = alloc.getD a []) ∧
    (∀ a, a ≠ snk1 → st.queues.getD a #[] = qs.getD a #[]) ∧
    (st.newSrc = sentSrc ∨ st.newSrc = (hget (qget qs snk1 snk2) 0).elt) := by
  unfold sendStep at h
  split at h; · exact absurd h (by simp)
  split at h; · exact absurd h (by simp)
  rename_i qs1 hq1
  split at h; · exact absurd h (by simp)
  rename_i newSrc hns
  split at h; · exact absurd h (by simp)
  rename_i a1 h1
  split at h; · exact absurd h (by simp)
  rename_i a2 h2
  split at h; · exact absurd h (by simp)
  injection h with h; subst h
  obtain ⟨e1, _, _, l1⟩ := add2?_eq _ _ _ _ _ _ _ h1
  obtain ⟨e2, _, _, l2⟩ := add2?_eq _ _ _ _ _ _ _ h2
  obtain ⟨r1, f1⟩ := updateDestQueues_fronts p alloc qs qs1 snk1 sentSrc hq1
  refine ⟨fun i j => ?_, fun a ha => ?_, fun a ha => ?_, ?_⟩
  · simp only []
    rw [e2, get2_add2 _ _ _ _ l2, e1, get2_add2 _ _ _ _ l1]
    split <;> split <;> omega
  · simp only []
    rw [e2, add2_row_ne _ _ _ _ _ ha, e1, add2_row_ne _ _ _ _ _ ha]
  · simp only []
    rw [updateSinkQueues_rows _ _ _ _ _ _ ha]; exact r1 a ha
  · simp only []
    unfold sentSourceQ qtop at hns
    split at hns
    · exact absurd hns (by simp [Except.map])
    · simp only [Except.map, Except.ok.injEq] at hns
      subst hns
      rcases f1 snk2 with e | e
      · right; rw [e]
      · left; exact e

/-! ### depth along `sinkParent_` -/

lemma depthIs_unique (parent : List (Option Nat)) : ∀ (k k' x : Nat),
    depthIs parent k x → depthIs parent k' x → k = k' := by
  intro k
  induction k with
  | zero =>
    intro k' x h h'
    cases k' with
    | zero => rfl
    | succ k' =>
      obtain ⟨y, hy, _⟩ := h'
      simp only [depthIs] at h
      rw [h] at hy; exact absurd hy (by simp)
  | succ k ih =>
    intro k' x h h'
    obtain ⟨y, hy, hd⟩ := h
    cases k' with
    | zero =>
      simp only [depthIs] at h'
      rw [h'] at hy; exact absurd hy (by simp)
    | succ k' =>
      obtain ⟨y', hy', hd'⟩ := h'
      rw [hy] at hy'
      injection hy' with hy'
      subst hy'
      rw [ih k' y hd hd']

lemma maxSentLoop_depth (alloc : Mat) (qs : Queues) (parent : List (Option Nat)) :
    ∀ (fuel snk1 : Nat) (q : Int) (r : Int × Nat),
      maxSentLoop alloc qs parent fuel snk1 q = .ok r → ∃ k, k < fuel ∧ depthIs parent k snk1 := by
  intro fuel
  induction fuel with
  | zero => intro snk1 q r h; simp [maxSentLoop] at h
  | succ fuel ih =>
    intro snk1 q r h
    unfold maxSentLoop at h
    split at h
    · rename_i hp
      exact ⟨0, by omega, hp⟩
    · rename_i snk2 hp
      split at h; · exact absurd h (by simp)
      split at h
      · obtain ⟨k, hk, hd⟩ := ih _ _ _ h
        exact ⟨k + 1, by omega, snk2, hp, hd⟩
      · exact absurd h (by simp)

/-! ### the second walk keeps all entries non-negative -/

lemma sendLoop_nonneg (p : Problem) (remCapa : List Int) (parent : List (Option Nat)) (m : Int) (hm : 0 < m)
    (alloc0 : Mat) (qs0 : Queues) :
    ∀ (fuel k snk1 : Nat) (q ms : Int) (root : Nat) (alloc : Mat) (qs : Queues) (sentSrc : Nat) (nu : Bool)
      (w : Walk),
      maxSentLoop alloc0 qs0 parent fuel snk1 q = .ok (ms, root) → m ≤ ms →
      depthIs parent k snk1 →
      (∀ y k', k' ≤ k → depthIs parent k' y →
        alloc.getD y [] = alloc0.getD y [] ∧ qs.getD y #[] = qs0.getD y #[]) →
      (∀ i j, 0 ≤ get2 alloc i j) →
      sendLoop p remCapa parent m fuel alloc qs snk1 sentSrc nu = .ok w →
      ∀ i j, 0 ≤ get2 w.alloc i j := by
  intro fuel
  induction fuel with
  | zero => intro k snk1 q ms root alloc qs sentSrc nu w h; simp [maxSentLoop] at h
  | succ fuel ih =>
    intro k snk1 q ms root alloc qs sentSrc nu w h1 hle hdep hrows hnn h2
    unfold maxSentLoop at h1
    unfold sendLoop at h2
    split at h1
    · rename_i hp
      rw [hp] at h2
      simp only [] at h2
      injection h2 with h2
      subst h2
      exact hnn
    · rename_i snk2 hp
      rw [hp] at h2
      simp only [] at h2
      split at h1; · exact absurd h1 (by simp)
      rename_i src0 hsrc0
      split at h1
      · split at h2; · exact absurd h2 (by simp)
        split at h2; · exact absurd h2 (by simp)
        rename_i st hst
        -- depth bookkeeping
        cases k with
        | zero =>
          simp only [depthIs] at hdep
          rw [hdep] at hp; exact absurd hp (by simp)
        | succ k =>
          obtain ⟨y, hy, hdy⟩ := hdep
          rw [hp] at hy
          injection hy with hy
          subst hy
          obtain ⟨ha, hra, hrq, hns⟩ := sendStep_alloc p m alloc qs snk1 snk2 sentSrc st hst
          obtain ⟨hrow1a, hrow1q⟩ := hrows snk1 (k + 1) (Nat.le_refl _) ⟨snk2, hp, hdy⟩
          have hms := maxSentLoop_le _ _ _ _ _ _ _ _ h1
          have hbound : m ≤ get2 alloc snk1 src0 := by
            rw [get2_row alloc alloc0 snk1 src0 hrow1a]
            have := min_le_right q (get2 alloc0 snk1 src0)
            omega
          have hsrc0' : (hget (qget qs snk1 snk2) 0).elt = src0 := by
            rw [qget_row qs qs0 snk1 snk2 hrow1q]
            unfold sentSourceQ qtop at hsrc0
            split at hsrc0
            · exact absurd hsrc0 (by simp [Except.map])
            · simp only [Except.map, Except.ok.injEq] at hsrc0
              exact hsrc0
          refine ih k snk2 _ ms root st.alloc st.queues st.newSrc _ w h1 hle hdy ?_ ?_ h2
          · intro y k' hk' hdy'
            have hne : y ≠ snk1 := by
              intro e
              subst e
              have := depthIs_unique parent _ _ _ hdy' (show depthIs parent (k + 1) y from ⟨snk2, hp, hdy⟩)
              omega
            obtain ⟨e1, e2⟩ := hrows y k' (by omega) hdy'
            exact ⟨(hra y hne).trans e1, (hrq y hne).trans e2⟩
          · intro i j
            rw [ha i j]
            have h0 := hnn i j
            by_cases e1 : i = snk1 ∧ j = st.newSrc
            · obtain ⟨ei, ej⟩ := e1
              subst ei
              rcases hns with e | e
              · have : (j = sentSrc) := by rw [ej, e]
                simp only [this, and_self, if_true]
                rw [← this]
                have : st.newSrc = j := ej.symm
                simp only [this]
                omega
              · rw [hsrc0'] at e
                have ej' : j = src0 := by rw [ej, e]
                subst ej'
                have : st.newSrc = j := ej.symm
                simp only [this, and_self, if_true]
                split <;> omega
            · rw [if_neg e1]
              split <;> omega
      · exact absurd h1 (by simp)

/-! ### the solver keeps all entries non-negative -/

lemma sendSource3_nonneg (p : Problem) (s : St) (src sink : Nat) (q : Int) (s' : St) (m : Int)
    (hnn : ∀ i j, 0 ≤ get2 s.alloc i j) (h : sendSource3 p s src sink q = .ok (s', m)) :
    ∀ i j, 0 ≤ get2 s'.alloc i j := by
  unfold sendSource3 at h
  split at h; · exact absurd h (by simp)
  rename_i ms root hms
  split at h
  · rename_i hpos
    split at h; · exact absurd h (by simp)
    rename_i w hw
    split at h; · exact absurd h (by simp)
    rename_i alloc hadd
    split at h
    · obtain ⟨ea, _, _⟩ := finishSend_fields _ _ _ _ _ _ _ _ _ _ h
      obtain ⟨k, _, hk⟩ := maxSentLoop_depth _ _ _ _ _ _ _ hms
      have hw' := sendLoop_nonneg p s.remCapa s.parent _ hpos s.alloc s.queues _ k _ _ _ _ _ _ _ _ _ hms
        (min_le_left _ _) hk (fun _ _ _ _ => ⟨rfl, rfl⟩) hnn hw
      obtain ⟨e, _, _, l⟩ := add2?_eq _ _ _ _ _ _ _ hadd
      intro i j
      rw [ea, e, get2_add2 _ _ _ _ l]
      have := hw' i j
      have hp : 0 < min ms (s.remCapa.getD root 0) := hpos
      split <;> omega
    · exact absurd h (by simp)
  · exact absurd h (by simp)

lemma sendSourceLoop_nonneg (p : Problem) (src : Nat) :
    ∀ (fuel : Nat) (s : St) (rem : Int) (s' : St),
      (∀ i j, 0 ≤ get2 s.alloc i j) → sendSourceLoop p src fuel s rem = .ok s' →
      ∀ i j, 0 ≤ get2 s'.alloc i j := by
  intro fuel
  induction fuel with
  | zero =>
    intro s rem s' hnn h
    unfold sendSourceLoop at h
    split at h
    · exact absurd h (by simp)
    · injection h with h; subst h; exact hnn
  | succ fuel ih =>
    intro s rem s' hnn h
    unfold sendSourceLoop at h
    split at h
    · split at h; · exact absurd h (by simp)
      rename_i s1 m h3
      split at h
      · exact ih s1 _ s' (sendSource3_nonneg p s src _ rem s1 m hnn h3) h
      · exact absurd h (by simp)
    · injection h with h; subst h; exact hnn

lemma runSources_nonneg (p : Problem) :
    ∀ (L : List Nat) (s s' : St), (∀ i j, 0 ≤ get2 s.alloc i j) → runSources p L s = .ok s' →
      ∀ i j, 0 ≤ get2 s'.alloc i j := by
  intro L
  induction L with
  | nil => intro s s' hnn h; simp [runSources] at h; subst h; exact hnn
  | cons a L ih =>
    intro s s' hnn h
    unfold runSources at h
    split at h; · exact absurd h (by simp)
    rename_i s1 h1
    exact ih s1 s' (sendSourceLoop_nonneg p a _ s _ s1 hnn h1) h

/-- every entry of the plan returned by `solve` is non-negative -/
lemma solve_nonneg (p q : Problem) (h : solve p = .ok q) : ∀ i j, 0 ≤ get2 q.allocations i j := by
  unfold solve at h
  split at h; · exact absurd h (by simp)
  rename_i s hs
  injection h with h; subst h
  unfold run at hs
  exact runSources_nonneg p _ _ s (fun i j => by simp [initSt, get2_zeroAlloc]) hs

end ColoVerif.Transp
