import ColoVerif.Proofs.Transp1dOptKkt
import ColoVerif.Proofs.Transp1dTerm
/-
Invariants of the slope-events sweep (`Transportation1dSolver::push`) used by the optimality proof
(C14, slack case).  Notation: while source `i` is pushed, `L = lastPosition` is its tentative
position, `J = lastOccupiedSink`, `o = optimalSink`, `pRev = [p (i-1), …, p 0]` the recorded
positions of the earlier sources.  The current position of an earlier source `k` is
`min (p k) … (p (i-1)) L`, so the sources that move together with `i` when `L` decreases to `x`
are the maximal suffix `k..i-1` with `x ≤ p k'` for all `k ≤ k' < i`.
-/
namespace ColoVerif.Transp1d

/-- cumulated slope of the events at positions `≥ x` -/
def evS : List Event → Int → Int
  | [], _ => 0
  | e :: es, x => (if x ≤ e.1 then e.2 else 0) + evS es x

/-- marginal cost of pushing to the left, at position `x`, the sources that sit at `x` when the
last recorded source (head of `pRev`) is pushed to `x`: `Σ tL k x` over the maximal prefix of
`pRev` with `x ≤ p k` (source index of the head of a list = length of its tail) -/
def lamU (sv : Solver) : List Int → Int → Int
  | [], _ => 0
  | pk :: rest, x => if x ≤ pk then tL sv rest.length x + lamU sv rest x else 0

/-- the same to the right, truncated to the first `j` sources of the run -/
def lamRj (sv : Solver) : List Int → Int → Nat → Int
  | [], _, _ => 0
  | _ :: _, _, 0 => 0
  | pk :: rest, x, j + 1 => if x ≤ pk then tR sv rest.length x + lamRj sv rest x j else 0

/-- what is recorded about source `k = rest.length` once `push k` has returned with `p k = pk` -/
structure FactsTop (sv : Solver) (pk : Int) (rest : List Int) : Prop where
  f1 : ∀ x, 0 < x → x ≤ pk → 0 ≤ lamU sv (pk :: rest) x
  f2 : ∀ x, 0 < x → x ≤ pk → (∀ y, rest.head? = some y → y < x) →
    ∀ t, t < sigL sv (sv.S.getD rest.length 0 + x) →
      cs sv rest.length (sigL sv (sv.S.getD rest.length 0 + x)) ≤ cs sv rest.length t
  f3 : sv.S.getD (rest.length + 1) 0 + pk < sv.D.getD sv.v.length 0 →
    ∀ j, 0 ≤ lamRj sv (pk :: rest) pk j
  f4 : sv.S.getD (rest.length + 1) 0 + pk < sv.D.getD sv.v.length 0 →
    ∀ t, sigR sv (sv.S.getD (rest.length + 1) 0 + pk) < t → t < sv.v.length →
      cs sv rest.length (sigR sv (sv.S.getD (rest.length + 1) 0 + pk)) ≤ cs sv rest.length t
  nn : 0 ≤ pk
  fit : sv.S.getD (rest.length + 1) 0 + pk ≤ sv.D.getD sv.v.length 0

def Facts (sv : Solver) : List Int → Prop
  | [] => True
  | pk :: rest => FactsTop sv pk rest ∧ Facts sv rest

/-- the cumulated slope is non-increasing in the position on `(0, L]` and non-negative at `L` -/
structure MonoEv (ev : List Event) (L : Int) : Prop where
  mono : ∀ x x', 0 < x → x ≤ x' → x' ≤ L → evS ev x' ≤ evS ev x
  nn : 0 < L → 0 ≤ evS ev L

/-- `o` minimises `c k ·` for every source `k ≥ i` on its left, and `c i ·` is monotone on both
sides of `o` -/
structure OptOk (sv : Solver) (i o : Nat) : Prop where
  lt : o < sv.v.length
  left : ∀ k, i ≤ k → k < sv.u.length → ∀ t t', t ≤ t' → t' ≤ o → cs sv k t' ≤ cs sv k t
  right : ∀ t t', o ≤ t → t ≤ t' → t' < sv.v.length → cs sv i t ≤ cs sv i t'

/-- invariant of the `while` loop of `push i` (also at its entry and exit); `st.pRev.length = i` -/
structure LoopInv (sv : Solver) (i : Nat) (st : St) : Prop where
  len : st.pRev.length = i
  ilt : i < sv.u.length
  occ : st.lastOcc < sv.v.length
  pos : 0 ≤ st.lastPosition
  ei : EvInv st
  hJ : sv.D.getD st.lastOcc 0 - sv.S.getD (i + 1) 0 ≤ st.lastPosition
  hB : sv.S.getD i 0 + st.lastPosition ≤ sv.D.getD (st.lastOcc + 1) 0
  opt : OptOk sv i st.optSink
  oJ : st.optSink ≤ st.lastOcc
  iev : ∀ x, 0 < x → x ≤ st.lastPosition →
    evS st.events x = cs sv i (sigL sv (sv.S.getD i 0 + x)) - cs sv i st.lastOcc + lamU sv st.pRev x
  mono : MonoEv st.events st.lastPosition
  decU : ∀ t, st.optSink ≤ t → t ≤ st.lastOcc → ∀ x, 0 < x → x ≤ st.lastPosition →
    0 ≤ evS st.events x + cs sv i st.lastOcc - cs sv i t
  rinv : st.lastOcc + 1 < sv.v.length →
    sv.D.getD (st.lastOcc + 1) 0 ≤ sv.S.getD (i + 1) 0 + st.lastPosition →
    ∀ j, 0 ≤ cs sv i (st.lastOcc + 1) - cs sv i (sigR sv (sv.S.getD i 0 + st.lastPosition))
      + lamRj sv st.pRev st.lastPosition j
  rtop : sv.S.getD (i + 1) 0 + st.lastPosition < sv.D.getD (st.lastOcc + 1) 0 →
    ∀ j, 0 ≤ cs sv i st.lastOcc - cs sv i (sigR sv (sv.S.getD i 0 + st.lastPosition))
      + lamRj sv st.pRev st.lastPosition j
  lof : ∀ x, 0 < x → x ≤ st.lastPosition → (∀ y, st.pRev.head? = some y → y < x) →
    sv.S.getD i 0 + x ≤ sv.D.getD st.optSink 0
  facts : Facts sv st.pRev

/-- invariant of the sweep between two `push`es; the next source is `st.pRev.length` -/
structure SweepInv (sv : Solver) (st : St) : Prop where
  inv : Inv sv st
  ei : EvInv st
  hJ : sv.D.getD st.lastOcc 0 - sv.S.getD st.pRev.length 0 ≤ st.lastPosition
  fit : st.lastPosition ≤ sv.D.getD (st.lastOcc + 1) 0 - sv.S.getD st.pRev.length 0
  head : ∀ y, st.pRev.head? = some y → y = st.lastPosition
  init : st.pRev = [] → st.lastPosition = 0 ∧ st.events = [] ∧ st.optSink = 0
  /-- the events encode the marginal cost of pushing the last run to the left (top source
  `k = tail.length` counted up to sink `J`) -/
  iev : ∀ pk rest, st.pRev = pk :: rest → ∀ x, 0 < x → x ≤ st.lastPosition →
    evS st.events x = cs sv rest.length (sigL sv (sv.S.getD rest.length 0 + x))
      - cs sv rest.length st.lastOcc + lamU sv rest x
  mono : MonoEv st.events st.lastPosition
  /-- `optSink` is a left-minimiser of `c k ·` for all sources from the last pushed one on -/
  optL : ∀ k, st.pRev.length ≤ k + 1 → k < sv.u.length → ∀ t t', t ≤ t' → t' ≤ st.optSink →
    cs sv k t' ≤ cs sv k t
  facts : Facts sv st.pRev

/-- the instance handed to the solver: sorted, zero-free, prefix sums, supply ≤ demand -/
structure SwDom (sv : Solver) : Prop where
  dom : sv.Dom
  si : SortedInst sv
  spos : ∀ w ∈ sv.s, 0 < w
  dpos : ∀ w ∈ sv.d, 0 < w

/-- the condition of the `while` loop of `push i` -/
def Overflow (sv : Solver) (i : Nat) (st : St) : Prop :=
  sv.D.getD (st.lastOcc + 1) 0 - sv.S.getD (i + 1) 0 < st.lastPosition

/-- `pushToNewSink` was taken: the tentative position is unchanged, sink `J+1` becomes the last
occupied one, and one event `(L, c i J - c i (J+1))` is added -/
structure StepNS (sv : Solver) (i : Nat) (st st' : St) : Prop where
  room : st.lastOcc + 1 < sv.v.length
  dec : st.lastPosition = 0 ∨
    cs sv i (st.lastOcc + 1) ≤ evS st.events st.lastPosition + cs sv i st.lastOcc
  occ : st'.lastOcc = st.lastOcc + 1
  pos : st'.lastPosition = st.lastPosition
  pRev : st'.pRev = st.pRev
  optS : st'.optSink = st.optSink
  ev : ∀ y, 0 < y → evS st'.events y =
    (if y ≤ st.lastPosition then cs sv i st.lastOcc - cs sv i (st.lastOcc + 1) else 0) + evS st.events y
  ei : EvInv st'

/-- `pushToLastSink` was taken: the run moves left to the next event (or to the position where
source `i` ends with sink `J`), the events at `L` are merged and re-inserted there -/
structure StepTL (sv : Solver) (i : Nat) (st st' : St) : Prop where
  dec : st.lastOcc + 1 = sv.v.length ∨ (st.lastPosition ≠ 0 ∧
    evS st.events st.lastPosition + cs sv i st.lastOcc < cs sv i (st.lastOcc + 1))
  occ : st'.lastOcc = st.lastOcc
  pRev : st'.pRev = st.pRev
  optS : st'.optSink = st.optSink
  lt : st'.lastPosition < st.lastPosition
  ge : max (sv.D.getD (st.lastOcc + 1) 0 - sv.S.getD (i + 1) 0) 0 ≤ st'.lastPosition
  ev : ∀ y, 0 < y → y ≤ st'.lastPosition → evS st'.events y = evS st.events y
  flat : ∀ y, st'.lastPosition < y → y ≤ st.lastPosition → evS st.events y = evS st.events st.lastPosition
  ei : EvInv st'

end ColoVerif.Transp1d
