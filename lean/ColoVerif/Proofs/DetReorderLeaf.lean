import ColoVerif.Proofs.DetReorderPerm
import ColoVerif.Proofs.DetOptHpwlHist
/-
`RowReordering`, part 1: what the two coordinate vectors hold at a leaf of the enumeration is what
`writeback` of that leaf would write (`leaf_store_eq`), under the structural invariants that Part 2
(Proofs/DetReorderInv.lean) shows the enumeration maintains.  Pure store: `pureStore V`.
-/
namespace ColoVerif.DetPlace
open State

abbrev PS := (Int → Int) × (Int → Int)

/-! ### folds of writes -/

theorem foldl_upd_agree {α : Type} (val : α → Int) (key : α → Int) (f : Int → Int) :
    ∀ (ws : List α) (x : Int → Int), (∀ m ∈ ws, f (key m) = val m) →
      ∀ d, (d ∈ ws.map key → ws.foldl (fun g m => upd g (key m) (val m)) x d = f d) ∧
           (d ∉ ws.map key → ws.foldl (fun g m => upd g (key m) (val m)) x d = x d)
  | [], x, _, d => by simp
  | w :: ws, x, h, d => by
    simp only [List.foldl_cons, List.map_cons, List.mem_cons]
    have ih := foldl_upd_agree val key f ws (upd x (key w) (val w)) (fun m hm => h m (List.mem_cons_of_mem _ hm)) d
    constructor
    · intro hd
      by_cases hin : d ∈ ws.map key
      · exact ih.1 hin
      · rw [ih.2 hin]
        rcases hd with hd | hd
        · subst hd; simp [upd, h w (List.mem_cons_self ..)]
        · exact absurd hd hin
    · intro hd
      have h1 : d ≠ key w := fun e => hd (Or.inl e)
      have h2 : d ∉ ws.map key := fun e => hd (Or.inr e)
      rw [ih.2 h2]; simp [upd, h1]

/-- `regionsX` is any function that agrees with every write and with `x` elsewhere -/
theorem regionsX_eq (f : Int → Int) : ∀ (gs : List Region) (x : Int → Int),
    (∀ g ∈ gs, ∀ m ∈ g.cells, f m.1 = m.2) →
    (∀ d, (∀ g ∈ gs, ∀ m ∈ g.cells, m.1 ≠ d) → f d = x d) → ∀ d, regionsX x gs d = f d
  | [], x, _, h2, d => by simp [regionsX, h2 d]
  | g :: gs, x, h1, h2, d => by
    unfold regionsX
    apply regionsX_eq f gs _ (fun g' hg' => h1 g' (List.mem_cons_of_mem _ hg'))
    intro d' hd'
    have key := foldl_upd_agree (fun m : Int × Int => m.2) (fun m => m.1) f g.cells x
      (fun m hm => h1 g (List.mem_cons_self ..) m hm) d'
    by_cases hin : d' ∈ g.cells.map (·.1)
    · exact (key.1 hin).symm
    · rw [key.2 hin]
      apply h2
      intro g' hg' m hm hmd
      rcases List.mem_cons.1 hg' with rfl | hg'
      · exact hin (List.mem_map.2 ⟨m, hm, hmd⟩)
      · exact hd' g' hg' m hm hmd

theorem regionsY_eq (s : State) (f : Int → Int) : ∀ (gs : List Region) (y : Int → Int),
    (∀ g ∈ gs, ∀ m ∈ g.cells, f m.1 = s.rowY g.row) →
    (∀ d, (∀ g ∈ gs, ∀ m ∈ g.cells, m.1 ≠ d) → f d = y d) → ∀ d, regionsY s y gs d = f d
  | [], y, _, h2, d => by simp [regionsY, h2 d]
  | g :: gs, y, h1, h2, d => by
    unfold regionsY
    apply regionsY_eq s f gs _ (fun g' hg' => h1 g' (List.mem_cons_of_mem _ hg'))
    intro d' hd'
    have key := foldl_upd_agree (fun _ : Int × Int => s.rowY g.row) (fun m => m.1) f g.cells y
      (fun m hm => h1 g (List.mem_cons_self ..) m hm) d'
    by_cases hin : d' ∈ g.cells.map (·.1)
    · exact (key.1 hin).symm
    · rw [key.2 hin]
      apply h2
      intro g' hg' m hm hmd
      rcases List.mem_cons.1 hg' with rfl | hg'
      · exact hin (List.mem_map.2 ⟨m, hm, hmd⟩)
      · exact hd' g' hg' m hm hmd

/-! ### `leafRegions` by index -/

theorem leafRegions_mem : ∀ (G : List RRegion) (O P : List (List Int)) (g : Region), g ∈ leafRegions G O P →
    ∃ (i : Nat) (gi : RRegion) (o p : List Int), G[i]? = some gi ∧ O[i]? = some o ∧ P[i]? = some p ∧
      g = ⟨gi.row, gi.cellPred, o.zip p⟩
  | [], _, _, g, h => by simp [leafRegions] at h
  | _ :: _, [], _, g, h => by simp [leafRegions] at h
  | _ :: _, _ :: _, [], g, h => by simp [leafRegions] at h
  | g0 :: G, o0 :: O, p0 :: P, g, h => by
    simp only [leafRegions, List.mem_cons] at h
    rcases h with rfl | h
    · exact ⟨0, g0, o0, p0, rfl, rfl, rfl, rfl⟩
    · obtain ⟨i, gi, o, p, h1, h2, h3, h4⟩ := leafRegions_mem G O P g h
      exact ⟨i + 1, gi, o, p, by simpa using h1, by simpa using h2, by simpa using h3, h4⟩

theorem leafRegions_get : ∀ (G : List RRegion) (O P : List (List Int)) (i : Nat) (gi : RRegion) (o p : List Int),
    G[i]? = some gi → O[i]? = some o → P[i]? = some p → (⟨gi.row, gi.cellPred, o.zip p⟩ : Region) ∈ leafRegions G O P
  | [], _, _, i, _, _, _, h, _, _ => by simp at h
  | _ :: _, [], _, i, _, _, _, _, h, _ => by simp at h
  | _ :: _, _ :: _, [], i, _, _, _, _, _, h => by simp at h
  | g0 :: G, o0 :: O, p0 :: P, 0, gi, o, p, h1, h2, h3 => by
    simp only [List.getElem?_cons_zero, Option.some.injEq] at h1 h2 h3
    subst h1 h2 h3
    simp [leafRegions]
  | g0 :: G, o0 :: O, p0 :: P, i + 1, gi, o, p, h1, h2, h3 => by
    simp only [List.getElem?_cons_succ] at h1 h2 h3
    simp only [leafRegions, List.mem_cons]
    exact Or.inr (leafRegions_get G O P i gi o p h1 h2 h3)

/-! ### packing -/

theorem packPos_length (s : State) : ∀ (l : List Int) (pos : Int), (packPos s pos l).length = l.length
  | [], _ => rfl
  | c :: cs, pos => by simp [packPos, packPos_length s cs]

theorem mem_zip_packPos (s : State) : ∀ (l : List Int) (pos : Int) (d : Int), d ∈ l →
    ∃ v, (d, v) ∈ l.zip (packPos s pos l)
  | [], _, d, h => by simp at h
  | c :: cs, pos, d, h => by
    simp only [packPos, List.zip_cons_cons, List.mem_cons]
    rcases List.mem_cons.1 h with rfl | h
    · exact ⟨pos, Or.inl rfl⟩
    · obtain ⟨v, hv⟩ := mem_zip_packPos s cs (pos + s.width c) d h
      exact ⟨v, Or.inr hv⟩

theorem zip_packPos_fst (s : State) : ∀ (l : List Int) (pos : Int) (m : Int × Int), m ∈ l.zip (packPos s pos l) → m.1 ∈ l
  | [], _, m, h => by simp at h
  | c :: cs, pos, m, h => by
    simp only [packPos, List.zip_cons_cons, List.mem_cons] at h
    rcases h with rfl | h
    · simp
    · exact List.mem_cons_of_mem _ (zip_packPos_fst s cs _ m h)

/-- the set-up loop on the coordinate vectors: y untouched, x untouched outside the range, every cell
of the range at its packed position -/
theorem packStore_spec (V : Value) (s : State) : ∀ (l : List Int) (pos : Int) (st : PS), l.Nodup →
    (packStore (pureStore V) s pos l st).2 = st.2 ∧
    (∀ d, d ∉ l → (packStore (pureStore V) s pos l st).1 d = st.1 d) ∧
    (∀ m ∈ l.zip (packPos s pos l), (packStore (pureStore V) s pos l st).1 m.1 = m.2)
  | [], pos, st, _ => by simp [packStore, packPos]
  | c :: cs, pos, st, hn => by
    have hn' := List.nodup_cons.1 hn
    have ih := packStore_spec V s cs (pos + s.width c) ((pureStore V).setX st c pos) hn'.2
    simp only [packStore, packPos, List.zip_cons_cons]
    refine ⟨ih.1, ?_, ?_⟩
    · intro d hd
      have h1 : d ≠ c := fun e => hd (e ▸ List.mem_cons_self ..)
      have h2 : d ∉ cs := fun e => hd (List.mem_cons_of_mem _ e)
      rw [ih.2.1 d h2]
      simp [pureStore, upd, h1]
    · intro m hm
      rcases List.mem_cons.1 hm with rfl | hm
      · rw [ih.2.1 c hn'.1]
        simp [pureStore, upd]
      · exact ih.2.2 m hm

/-! ### the invariants -/

/-- sizes and the fields the enumeration never writes -/
structure Shape (G : List RRegion) (cs : List Int) (rr : RowReord PS) : Prop where
  regions : rr.regions = G
  cells : rr.cells = cs
  olen : rr.order.length = G.length
  plen : rr.positions.length = G.length

/-- the assignment of cells `cs[k..]` to the regions and what the two vectors hold for them -/
structure Lists (s : State) (G : List RRegion) (cs : List Int) (k : Nat) (rr : RowReord PS) : Prop where
  nodup : ∀ (i : Nat) l, rr.order[i]? = some l → l.Nodup
  sub : ∀ (i : Nat) l, rr.order[i]? = some l → ∀ c ∈ l, c ∈ cs.drop k
  cover : ∀ d ∈ cs.drop k, ∃ (i : Nat) (l : List Int), rr.order[i]? = some l ∧ d ∈ l
  disj : ∀ (i i' : Nat) l l', rr.order[i]? = some l → rr.order[i']? = some l' → ∀ c, c ∈ l → c ∈ l' → i = i'
  yinv : ∀ (i : Nat) l g, rr.order[i]? = some l → G[i]? = some g → ∀ c ∈ l, rr.store.2 c = s.rowY g.row
  frame : ∀ d, d ∉ cs → rr.store.1 d = s.x d ∧ rr.store.2 d = s.y d
  fits : ∀ (i : Nat) l g, rr.order[i]? = some l → G[i]? = some g → l ≠ [] → allocatedWidth s l ≤ g.width
  allowed : ∀ (i : Nat) l g, rr.order[i]? = some l → G[i]? = some g → ∀ c ∈ l, s.isRowAllowed c g.row = true

theorem allocatedWidth_foldl (s : State) : ∀ (l : List Int) (a : Int),
    l.foldl (fun acc c => acc + s.width c) a = a + allocatedWidth s l
  | [], a => by simp [allocatedWidth]
  | c :: cs, a => by
    unfold allocatedWidth
    simp only [List.foldl_cons]
    rw [allocatedWidth_foldl s cs (a + s.width c), allocatedWidth_foldl s cs (0 + s.width c)]
    unfold allocatedWidth
    omega

theorem allocatedWidth_cons (s : State) (c : Int) (l : List Int) : allocatedWidth s (c :: l) = s.width c + allocatedWidth s l := by
  unfold allocatedWidth
  simp only [List.foldl_cons]
  rw [allocatedWidth_foldl]
  unfold allocatedWidth
  omega

theorem allocatedWidth_perm (s : State) {l l' : List Int} (h : l.Perm l') : allocatedWidth s l = allocatedWidth s l' := by
  induction h with
  | nil => rfl
  | cons x _ ih => rw [allocatedWidth_cons, allocatedWidth_cons, ih]
  | swap x y l => simp only [allocatedWidth_cons]; omega
  | trans _ _ ih1 ih2 => exact ih1.trans ih2

/-- what makes a leaf's write-back go through: one order and one position list per region, positions packed
from `minPos`, the cells of a region fit in its width and may sit on its row, every registered cell is in
exactly one region -/
structure LeafWF (s : State) (G : List RRegion) (cs : List Int) (O P : List (List Int)) : Prop where
  olen : O.length = G.length
  plen : P.length = G.length
  packed : ∀ (i : Nat) l g, O[i]? = some l → G[i]? = some g → P[i]? = some (packPos s g.minPos l)
  fits : ∀ (i : Nat) l g, O[i]? = some l → G[i]? = some g → l ≠ [] → allocatedWidth s l ≤ g.width
  allowed : ∀ (i : Nat) l g, O[i]? = some l → G[i]? = some g → ∀ c ∈ l, s.isRowAllowed c g.row = true
  nodup : ∀ (i : Nat) l, O[i]? = some l → l.Nodup
  sub : ∀ (i : Nat) l, O[i]? = some l → ∀ c ∈ l, c ∈ cs
  cover : ∀ d ∈ cs, ∃ (i : Nat) (l : List Int), O[i]? = some l ∧ d ∈ l
  disj : ∀ (i i' : Nat) l l', O[i]? = some l → O[i']? = some l' → ∀ c, c ∈ l → c ∈ l' → i = i'

/-- regions `j..` have been set up: positions packed, x vector told -/
def XInv (s : State) (G : List RRegion) (j : Nat) (rr : RowReord PS) : Prop :=
  ∀ (i : Nat) l g, j ≤ i → rr.order[i]? = some l → G[i]? = some g →
    rr.positions[i]? = some (packPos s g.minPos l) ∧ ∀ m ∈ l.zip (packPos s g.minPos l), rr.store.1 m.1 = m.2

/-- **A leaf is evaluated on what its write-back would produce**: with every region set up, the two
vectors are `regionsX` / `regionsY` of the leaf's regions over the placement's coordinates. -/
theorem leaf_store_eq (V : Value) (s : State) (G : List RRegion) (cs : List Int) (rr : RowReord PS)
    (hs : Shape G cs rr) (hl : Lists s G cs 0 rr) (hx : XInv s G 0 rr) :
    V rr.store.1 rr.store.2 = s.leafValue V (leafRegions rr.regions rr.order rr.positions) := by
  unfold State.leafValue
  -- a key of a leaf region is a cell of the corresponding order list, with its packed position
  have hmem : ∀ g ∈ leafRegions rr.regions rr.order rr.positions, ∀ m ∈ g.cells,
      ∃ (i : Nat) (gi : RRegion) (l : List Int), G[i]? = some gi ∧ rr.order[i]? = some l ∧ g.row = gi.row ∧
        m ∈ l.zip (packPos s gi.minPos l) := by
    intro g hg m hm
    obtain ⟨i, gi, o, p, h1, h2, h3, rfl⟩ := leafRegions_mem _ _ _ g hg
    rw [hs.regions] at h1
    have := (hx i o gi (Nat.zero_le _) h2 h1).1
    rw [h3] at this
    injection this with this
    subst this
    exact ⟨i, gi, o, h1, h2, rfl, hm⟩
  -- a cell that is the key of no leaf region is not registered
  have hout : ∀ d, (∀ g ∈ leafRegions rr.regions rr.order rr.positions, ∀ m ∈ g.cells, m.1 ≠ d) → d ∉ cs := by
    intro d hd hdc
    obtain ⟨i, l, h2, hdl⟩ := hl.cover d (by simpa using hdc)
    have hi : i < G.length := by
      have := (List.getElem?_eq_some_iff.1 h2).1
      rw [hs.olen] at this; exact this
    obtain ⟨gi, h1⟩ : ∃ gi, G[i]? = some gi := ⟨G[i], List.getElem?_eq_getElem hi⟩
    have h3 := (hx i l gi (Nat.zero_le _) h2 h1).1
    obtain ⟨v, hv⟩ := mem_zip_packPos s l gi.minPos d hdl
    have := leafRegions_get rr.regions rr.order rr.positions i gi l _ (by rw [hs.regions]; exact h1) h2 h3
    exact hd _ this (d, v) hv rfl
  have ex : regionsX s.x (leafRegions rr.regions rr.order rr.positions) = rr.store.1 := by
    funext d
    apply regionsX_eq rr.store.1
    · intro g hg m hm
      obtain ⟨i, gi, l, h1, h2, _, hz⟩ := hmem g hg m hm
      exact (hx i l gi (Nat.zero_le _) h2 h1).2 m hz
    · intro d' hd'
      exact (hl.frame d' (hout d' hd')).1
  have ey : regionsY s s.y (leafRegions rr.regions rr.order rr.positions) = rr.store.2 := by
    funext d
    apply regionsY_eq s rr.store.2
    · intro g hg m hm
      obtain ⟨i, gi, l, h1, h2, hrow, hz⟩ := hmem g hg m hm
      rw [hrow]
      exact hl.yinv i l gi h2 h1 m.1 (zip_packPos_fst s l _ m hz)
    · intro d' hd'
      exact (hl.frame d' (hout d' hd')).2
  rw [ex, ey]

theorem leaf_wf (s : State) (G : List RRegion) (cs : List Int) (rr : RowReord PS)
    (hs : Shape G cs rr) (hl : Lists s G cs 0 rr) (hx : XInv s G 0 rr) : LeafWF s G cs rr.order rr.positions :=
  ⟨hs.olen, hs.plen, fun i l g h1 h2 => (hx i l g (Nat.zero_le _) h1 h2).1, hl.fits, hl.allowed, hl.nodup,
   fun i l h c hc => by simpa using hl.sub i l h c hc, fun d hd => hl.cover d (by simpa using hd), hl.disj⟩

end ColoVerif.DetPlace
