import ColoVerif.Proofs.GridAllocOps
import Mathlib.Data.List.Perm.Basic
/-
C16, allocation invariant — `redistribute` (the common skeleton of the rough-legalization steps).
-/
namespace ColoVerif.Grid

/-- the `setBinCells` loop of `redistribute` -/
def redistFold (s : HState) (zs : List ((Nat × Nat) × List Nat)) : HState :=
  zs.foldl (fun st pc => st.setBinCells pc.1.1 pc.1.2 pc.2) s

theorem applyW_append (cb : List Int) (a b : List (Nat × Int)) : applyW (applyW cb a) b = applyW cb (a ++ b) := by
  simp [applyW, List.foldl_append]

theorem redistFold_static (zs : List ((Nat × Nat) × List Nat)) : ∀ s : HState,
    (redistFold s zs).grid = s.grid ∧ (redistFold s zs).hx = s.hx ∧ (redistFold s zs).hy = s.hy ∧
    (redistFold s zs).demand = s.demand ∧ (redistFold s zs).levelX = s.levelX ∧
    (redistFold s zs).levelY = s.levelY := by
  induction zs with
  | nil => intro s; exact ⟨rfl, rfl, rfl, rfl, rfl, rfl⟩
  | cons z rest ih =>
    intro s
    have := ih (s.setBinCells z.1.1 z.1.2 z.2)
    simpa [redistFold, HState.setBinCells] using this

theorem redistFold_bins (zs : List ((Nat × Nat) × List Nat)) : ∀ s : HState,
    (redistFold s zs).bins = zs.foldl (fun b pc => writeBins b pc.1 pc.2) s.bins := by
  induction zs with
  | nil => intro s; rfl
  | cons z rest ih =>
    intro s
    have := ih (s.setBinCells z.1.1 z.1.2 z.2)
    simpa [redistFold, HState.setBinCells, writeBins] using this

theorem redistFold_cbx (zs : List ((Nat × Nat) × List Nat)) : ∀ s : HState,
    (redistFold s zs).cbx = applyW s.cbx (zs.flatMap fun pc => pc.2.map fun c => (c, (pc.1.1 : Int))) := by
  induction zs with
  | nil => intro s; rfl
  | cons z rest ih =>
    intro s
    have := ih (s.setBinCells z.1.1 z.1.2 z.2)
    simp only [redistFold, List.foldl_cons, List.flatMap_cons] at this ⊢
    rw [this, ← applyW_append]
    rfl

theorem redistFold_cby (zs : List ((Nat × Nat) × List Nat)) : ∀ s : HState,
    (redistFold s zs).cby = applyW s.cby (zs.flatMap fun pc => pc.2.map fun c => (c, (pc.1.2 : Int))) := by
  induction zs with
  | nil => intro s; rfl
  | cons z rest ih =>
    intro s
    have := ih (s.setBinCells z.1.1 z.1.2 z.2)
    simp only [redistFold, List.foldl_cons, List.flatMap_cons] at this ⊢
    rw [this, ← applyW_append]
    rfl

theorem foldl_writeBins_shape (zs : List ((Nat × Nat) × List Nat)) : ∀ b : Bins,
    (zs.foldl (fun b pc => writeBins b pc.1 pc.2) b).length = b.length ∧
    ∀ i, ((zs.foldl (fun b pc => writeBins b pc.1 pc.2) b).getD i []).length = (b.getD i []).length := by
  induction zs with
  | nil => intro b; exact ⟨rfl, fun _ => rfl⟩
  | cons z rest ih =>
    intro b
    obtain ⟨h1, h2⟩ := ih (writeBins b z.1 z.2)
    simp only [List.foldl_cons]
    exact ⟨by rw [h1, writeBins_length], fun i => by rw [h2 i, writeBins_col_length]⟩

/-- the new `cellBin` vector after the loop, for either coordinate -/
theorem redist_cb (cb : List Int) (π : Nat × Nat → Nat) (zs : List ((Nat × Nat) × List Nat))
    (hnd : (zs.flatMap Prod.snd).Nodup) (hin : ∀ w ∈ zs, ∀ c ∈ w.2, c < cb.length) :
    let cb' := applyW cb (zs.flatMap fun pc => pc.2.map fun c => (c, ((π pc.1 : Nat) : Int)))
    cb'.length = cb.length ∧
    (∀ w ∈ zs, ∀ c ∈ w.2, cb'.getD c (-1) = ((π w.1 : Nat) : Int)) ∧
    (∀ c, c ∉ zs.flatMap Prod.snd → cb'.getD c (-1) = cb.getD c (-1)) := by
  intro cb'
  have hkeys : ((zs.flatMap fun pc => pc.2.map fun c => (c, ((π pc.1 : Nat) : Int))).map Prod.fst)
      = zs.flatMap Prod.snd := by
    simp [List.map_flatMap, Function.comp_def]
  have hin' : ∀ w ∈ (zs.flatMap fun pc => pc.2.map fun c => (c, ((π pc.1 : Nat) : Int))), w.1 < cb.length := by
    intro w hw
    simp only [List.mem_flatMap, List.mem_map] at hw
    obtain ⟨pc, hpc, c, hc, rfl⟩ := hw
    exact hin pc hpc c hc
  obtain ⟨h1, h2⟩ := applyW_spec cb _ (by rw [hkeys]; exact hnd) hin' (-1)
  refine ⟨applyW_length _ _, ?_, ?_⟩
  · intro w hw c hc
    exact h1 (c, ((π w.1 : Nat) : Int)) (List.mem_flatMap.mpr ⟨w, hw, List.mem_map.mpr ⟨c, hc, rfl⟩⟩)
  · intro c hc
    exact h2 c (by rw [hkeys]; exact hc)

theorem mem_gather (s : HState) (G : List (Nat × Nat)) (c : Nat) :
    c ∈ s.gather G ↔ ∃ p, p ∈ G ∧ c ∈ s.cells p.1 p.2 := by
  simp [HState.gather, List.mem_flatMap]

theorem AllocInv.gather_nodup {s : HState} (h : AllocInv s) (G : List (Nat × Nat)) (hnd : G.Nodup) :
    (s.gather G).Nodup := by
  unfold HState.gather
  rw [List.nodup_flatMap]
  refine ⟨fun p _ => h.nodup _ _, ?_⟩
  refine List.Pairwise.imp ?_ hnd
  intro p q hne
  simp only [Function.onFun]
  intro c hc hc'
  have := h.disjoint _ _ _ _ c hc hc'
  exact hne (Prod.ext this.1 this.2)

theorem allocInv_redistFold (s : HState) (h : AllocInv s) (G : List (Nat × Nat)) (contents : List (List Nat))
    (hnd : G.Nodup) (hin : ∀ p ∈ G, p.1 < s.nbX ∧ p.2 < s.nbY) (hlen : contents.length = G.length)
    (hperm : contents.flatten.Perm (s.gather G)) :
    AllocInv (redistFold s (G.zip contents)) := by
  have hkeys : (G.zip contents).map Prod.fst = G := List.map_fst_zip (by omega)
  have hvals : (G.zip contents).map Prod.snd = contents := List.map_snd_zip (by omega)
  have hflat : (G.zip contents).flatMap Prod.snd = contents.flatten := by
    rw [List.flatMap_def, hvals]
  have hkeyMem : ∀ w ∈ G.zip contents, w.1 ∈ G := fun w hw => by
    rw [← hkeys]; exact List.mem_map.mpr ⟨w, hw, rfl⟩
  have hflatNodup : ((G.zip contents).flatMap Prod.snd).Nodup := by
    rw [hflat]; exact (hperm.nodup_iff).mpr (h.gather_nodup G hnd)
  have hmemFlat : ∀ c, c ∈ contents.flatten ↔ ∃ w, w ∈ G.zip contents ∧ c ∈ w.2 := by
    intro c; rw [← hflat]; simp [List.mem_flatMap]
  -- the table
  obtain ⟨hg, hhx, hhy, hdem, hlx, hly⟩ := redistFold_static (G.zip contents) s
  have hnbX : (redistFold s (G.zip contents)).nbX = s.nbX := by unfold HState.nbX; rw [hhx, hlx]
  have hnbY : (redistFold s (G.zip contents)).nbY = s.nbY := by unfold HState.nbY; rw [hhy, hly]
  have hnbC : (redistFold s (G.zip contents)).nbCells = s.nbCells := by unfold HState.nbCells; rw [hdem]
  have hbins := redistFold_bins (G.zip contents) s
  obtain ⟨hshape1, hshape2⟩ := foldl_writeBins_shape (G.zip contents) s.bins
  have hok : ∀ w ∈ G.zip contents, w.1.1 < s.bins.length ∧ w.1.2 < (s.bins.getD w.1.1 []).length := by
    intro w hw
    have := hin w.1 (hkeyMem w hw)
    rw [h.shapeX, h.shapeY _ this.1]; exact this
  obtain ⟨hB1, hB2⟩ := foldl_writes (σ := Bins) (κ := Nat × Nat) (ν := List Nat) writeBins
    (fun b p => cellsAt b p.1 p.2) (fun b p => p.1 < b.length ∧ p.2 < (b.getD p.1 []).length)
    (fun st k v k' hk => cellsAt_writeBins st k k' v hk.1 hk.2)
    (fun st k v k' hk => by rw [writeBins_length, writeBins_col_length]; exact hk)
    (G.zip contents) s.bins (by rw [hkeys]; exact hnd) hok
  have hC1 : ∀ w ∈ G.zip contents, (redistFold s (G.zip contents)).cells w.1.1 w.1.2 = w.2 := by
    intro w hw; unfold HState.cells; rw [hbins]; exact hB1 w hw
  have hC2 : ∀ p, p ∉ G → (redistFold s (G.zip contents)).cells p.1 p.2 = s.cells p.1 p.2 := by
    intro p hp; unfold HState.cells; rw [hbins]; exact hB2 p (by rw [hkeys]; exact hp)
  have hchar : ∀ i j c, c ∈ (redistFold s (G.zip contents)).cells i j ↔
      (((i, j) ∉ G ∧ c ∈ s.cells i j) ∨ ∃ w, w ∈ G.zip contents ∧ w.1 = (i, j) ∧ c ∈ w.2) := by
    intro i j c
    by_cases hG : (i, j) ∈ G
    · have : (i, j) ∈ (G.zip contents).map Prod.fst := by rw [hkeys]; exact hG
      obtain ⟨w, hw, hw1⟩ := List.mem_map.mp this
      have hc := hC1 w hw
      rw [hw1] at hc
      constructor
      · intro hcm; rw [hc] at hcm; exact Or.inr ⟨w, hw, hw1, hcm⟩
      · rintro (⟨hn, _⟩ | ⟨w', hw', hw1', hcm⟩)
        · exact (hn hG).elim
        · have hc' := hC1 w' hw'
          rw [hw1'] at hc'
          rw [hc']; exact hcm
    · have := hC2 (i, j) hG
      simp only at this
      rw [this]
      constructor
      · intro hcm; exact Or.inl ⟨hG, hcm⟩
      · rintro (⟨_, hcm⟩ | ⟨w, hw, hw1, _⟩)
        · exact hcm
        · exact (hG (hw1 ▸ hkeyMem w hw)).elim
  -- a cell of a new content was in one of the bins of `G`
  have hfrom : ∀ w ∈ G.zip contents, ∀ c ∈ w.2, ∃ p, p ∈ G ∧ c ∈ s.cells p.1 p.2 := by
    intro w hw c hc
    have : c ∈ contents.flatten := (hmemFlat c).mpr ⟨w, hw, hc⟩
    exact (mem_gather s G c).mp ((hperm.mem_iff).mp this)
  have hto : ∀ p ∈ G, ∀ c ∈ s.cells p.1 p.2, ∃ w, w ∈ G.zip contents ∧ c ∈ w.2 := by
    intro p hp c hc
    have : c ∈ s.gather G := (mem_gather s G c).mpr ⟨p, hp, hc⟩
    exact (hmemFlat c).mp ((hperm.mem_iff).mpr this)
  have hactive : ∀ w ∈ G.zip contents, ∀ c ∈ w.2, c < s.nbCells := by
    intro w hw c hc
    obtain ⟨p, _, hcp⟩ := hfrom w hw c hc
    exact ((h.covers c).mpr ⟨_, _, hcp⟩).1
  have hnotkey : ∀ i j c, (i, j) ∉ G → c ∈ s.cells i j → c ∉ (G.zip contents).flatMap Prod.snd := by
    intro i j c hG hc hk
    obtain ⟨w, hw, hcw⟩ := List.mem_flatMap.mp hk
    obtain ⟨p, hp, hcp⟩ := hfrom w hw c hcw
    have := h.disjoint _ _ _ _ c hc hcp
    exact hG (by rw [show (i, j) = p from Prod.ext this.1 this.2]; exact hp)
  obtain ⟨hxl, hxa, hxn⟩ := redist_cb s.cbx (fun p => p.1) (G.zip contents) hflatNodup
    (by rw [h.cbLen.1]; exact hactive)
  obtain ⟨hyl, hya, hyn⟩ := redist_cb s.cby (fun p => p.2) (G.zip contents) hflatNodup
    (by rw [h.cbLen.2]; exact hactive)
  have hcbx := redistFold_cbx (G.zip contents) s
  have hcby := redistFold_cby (G.zip contents) s
  exact {
    shapeX := by rw [hnbX, hbins, hshape1]; exact h.shapeX
    shapeY := by
      intro i hi
      rw [hnbX] at hi
      rw [hnbY, hbins, hshape2 i]; exact h.shapeY i hi
    lvlX := by rw [hhx, hlx]; exact h.lvlX
    lvlY := by rw [hhy, hly]; exact h.lvlY
    nodup := by
      intro i j
      by_cases hG : (i, j) ∈ G
      · have : (i, j) ∈ (G.zip contents).map Prod.fst := by rw [hkeys]; exact hG
        obtain ⟨w, hw, hw1⟩ := List.mem_map.mp this
        have hc := hC1 w hw
        rw [hw1] at hc
        rw [hc]
        exact (List.nodup_flatMap.mp hflatNodup).1 w hw
      · have := hC2 (i, j) hG
        simp only at this
        rw [this]; exact h.nodup i j
    disjoint := by
      intro i j i' j' c hc hc'
      rcases (hchar i j c).mp hc with ⟨hG, ho⟩ | ⟨w, hw, hw1, hcw⟩ <;>
        rcases (hchar i' j' c).mp hc' with ⟨hG', ho'⟩ | ⟨w', hw', hw1', hcw'⟩
      · exact h.disjoint _ _ _ _ c ho ho'
      · exact (hnotkey i j c hG ho (List.mem_flatMap.mpr ⟨w', hw', hcw'⟩)).elim
      · exact (hnotkey i' j' c hG' ho' (List.mem_flatMap.mpr ⟨w, hw, hcw⟩)).elim
      · have := pair_unique_of_nodup _ hflatNodup w w' hw hw' c hcw hcw'
        rw [this, hw1'] at hw1
        exact ⟨(Prod.mk.inj hw1).1.symm, (Prod.mk.inj hw1).2.symm⟩
    covers := by
      intro c
      rw [hnbC, show (redistFold s (G.zip contents)).cellDemand c = s.cellDemand c by
        unfold HState.cellDemand; rw [hdem], h.covers c]
      constructor
      · rintro ⟨i, j, hc⟩
        by_cases hG : (i, j) ∈ G
        · obtain ⟨w, hw, hcw⟩ := hto (i, j) hG c hc
          exact ⟨w.1.1, w.1.2, (hchar _ _ c).mpr (Or.inr ⟨w, hw, rfl, hcw⟩)⟩
        · exact ⟨i, j, (hchar i j c).mpr (Or.inl ⟨hG, hc⟩)⟩
      · rintro ⟨i, j, hc⟩
        rcases (hchar i j c).mp hc with ⟨_, ho⟩ | ⟨w, hw, _, hcw⟩
        · exact ⟨i, j, ho⟩
        · obtain ⟨p, _, hcp⟩ := hfrom w hw c hcw
          exact ⟨_, _, hcp⟩
    cbLen := by
      rw [hnbC, hcbx, hcby]
      exact ⟨by rw [hxl]; exact h.cbLen.1, by rw [hyl]; exact h.cbLen.2⟩
    agree := by
      intro i j c hc
      rw [hcbx, hcby]
      rcases (hchar i j c).mp hc with ⟨hG, ho⟩ | ⟨w, hw, hw1, hcw⟩
      · have hk := hnotkey i j c hG ho
        rw [hxn c hk, hyn c hk]
        exact h.agree i j c ho
      · have e1 := hxa w hw c hcw
        have e2 := hya w hw c hcw
        rw [hw1] at e1 e2
        exact ⟨e1, e2⟩
    none := by
      intro c hc
      rw [hcbx, hcby]
      have hk : c ∉ (G.zip contents).flatMap Prod.snd := by
        intro hk
        obtain ⟨w, hw, hcw⟩ := List.mem_flatMap.mp hk
        exact hc w.1.1 w.1.2 ((hchar _ _ c).mpr (Or.inr ⟨w, hw, rfl, hcw⟩))
      have hold : ∀ i j, c ∉ s.cells i j := by
        intro i j ho
        by_cases hG : (i, j) ∈ G
        · obtain ⟨w, hw, hcw⟩ := hto (i, j) hG c ho
          exact hc w.1.1 w.1.2 ((hchar _ _ c).mpr (Or.inr ⟨w, hw, rfl, hcw⟩))
        · exact hc i j ((hchar i j c).mpr (Or.inl ⟨hG, ho⟩))
      rw [hxn c hk, hyn c hk]
      exact h.none c hold }

/-- `redistribute` preserves the invariant, whatever the bins and the proposed contents. -/
theorem allocInv_redistribute (s : HState) (h : AllocInv s) (G : List (Nat × Nat)) (contents : List (List Nat)) :
    AllocInv (s.redistribute G contents) := by
  unfold HState.redistribute
  by_cases hk : s.redistOk G contents = true
  · simp only [hk, if_true]
    simp only [HState.redistOk, Bool.and_eq_true, decide_eq_true_eq, List.all_eq_true, List.isPerm_iff] at hk
    obtain ⟨⟨⟨h1, h2⟩, h3⟩, h4⟩ := hk
    exact allocInv_redistFold s h G contents h1 h2 h3 h4
  · simp only [hk]; exact h

theorem redistribute_static (s : HState) (G : List (Nat × Nat)) (contents : List (List Nat)) :
    (s.redistribute G contents).hx = s.hx ∧ (s.redistribute G contents).hy = s.hy ∧
    (s.redistribute G contents).demand = s.demand ∧ (s.redistribute G contents).grid = s.grid := by
  unfold HState.redistribute
  split
  · obtain ⟨a, b, c, d, _, _⟩ := redistFold_static (G.zip contents) s
    exact ⟨b, c, d, a⟩
  · exact ⟨rfl, rfl, rfl, rfl⟩

end ColoVerif.Grid
