import ColoVerif.Proofs.LegalizeLegalCircuit
import ColoVerif.Proofs.LegalizeIdem2Sort
/-
Helper lemmas for C04 (`legalize_orient`): the orientation the legalizers leave on a placed cell.

`SegOrient r c p`: status `p` of cell `c` sits on the bottom edge of segment `r`, inside it, with the
orientation `getOrientation` computes for *that* segment, and that orientation is not INVALID.

* Abacus: `writeRows` gives a cell the y and the orientation of the segment `k` whose `rowToCells_`
  lists it; a cell is only ever appended to the list of the `bestRow` of `placeCell`, and `bestRow` is
  only ever set in `tryPlace` after `evaluatePlacement` succeeded, which refuses INVALID
  (`abacusLoop_listed`); `check()` certifies that the cell lies inside segment `k`.
* Tetris (after `fix: c04-tetris-row-orientation`, model flag `tetrisPerSegmentOrientation = true`):
  `attemptPlacement` returns the clamp of the target into an interval lying inside a segment `j` of
  the level whose orientation is not INVALID (`attemptSegs_seg`); the rows are sorted by (minY, minX)
  and pairwise disjoint, so the `while` loop of `placeCell` (`segOf`) stops exactly at `j`
  (`segOf_eq`), whose orientation the cell takes.
* `importLegalization` / `exportPlacement` bookkeeping as for C01; the segments of `remainingRows`
  are pieces of `computeRows` segments with the same orientation.
-/
namespace ColoVerif.Legalize
open ColoVerif

/-! ### the orientation rule -/

/-- `getOrientation` as a function of the row orientation -/
def orientFor (c : LCell) (o : Orient) : Orient :=
  if cellOrientationInRow c.pol o = Orient.UNKNOWN then c.torient else cellOrientationInRow c.pol o

theorem getOrientation_eq (rows : List Row) (c : LCell) (row : Nat) :
    getOrientation rows c row = orientFor c (rowAt rows row).orient := rfl

theorem rowAt_of_getElem? (rows : List Row) (i : Nat) (r : Row) (h : rows[i]? = some r) : rowAt rows i = r := by
  simp [rowAt, List.getD_eq_getElem?_getD, h]

theorem orientFor_turn (c : LCell) (o : Orient) (ho : o.isTurn = false)
    (hpol : c.pol ≠ Polarity.ANY → c.torient.isTurn = false) : (orientFor c o).isTurn = c.torient.isTurn := by
  unfold orientFor
  obtain ⟨w, h, pol, tx, ty, tor⟩ := c
  simp only at hpol ⊢
  cases pol
  · simp [cellOrientationInRow]
  all_goals
    have ht := hpol (by simp)
    cases o <;> simp_all [cellOrientationInRow, Orient.opposite, Orient.isTurn]

/-- cell `c` with status `p` sits on the bottom edge of segment `r`, inside it, with the orientation
the segment prescribes, which is not INVALID -/
def SegOrient (r : Row) (c : LCell) (p : Pos) : Prop :=
  r.rect.minY = p.y ∧ r.rect.minX ≤ p.x ∧ p.x + c.w ≤ r.rect.maxX ∧
    p.orient = orientFor c r.orient ∧ p.orient ≠ Orient.INVALID

theorem SegOrient.of_sub {s r : Row} {c : LCell} {p : Pos} (h : SegOrient s c p) (hs : SubRow s r) : SegOrient r c p := by
  obtain ⟨a1, a2, a3, a4, a5⟩ := h
  obtain ⟨s1, s2, s3, _, s5⟩ := hs
  exact ⟨by omega, by omega, by omega, by rw [← s5]; exact a4, a5⟩

/-! ### Abacus: `bestRow` passed `evaluatePlacement` -/

/-- the best row so far, if any, has a valid orientation for the cell -/
def ABestOK (rows : List Row) (c : LCell) (s : List RowLeg.State × Option ABest) : Prop :=
  ∀ bb, s.2 = some bb → getOrientation rows c bb.row ≠ Orient.INVALID

theorem abacusBetter_cases (b : Option ABest) (row : Nat) (dist : Int) :
    abacusBetter b row dist = b ∨ abacusBetter b row dist = some ⟨row, dist⟩ := by
  unfold abacusBetter
  cases b with
  | none => right; rfl
  | some bb =>
    simp only
    split
    · right; rfl
    · left; rfl

theorem abacusTry_orient (rows : List Row) (c : LCell) (row : Nat) (s : List RowLeg.State × Option ABest)
    (h : ABestOK rows c s) : ABestOK rows c (abacusTry rows c row s).1 := by
  unfold abacusTry
  split
  · exact h
  · split
    · exact h
    · split
      · exact h
      · rename_i hce
        have hor : getOrientation rows c row ≠ Orient.INVALID := by
          simp only [canEval, Bool.not_eq_true, Bool.not_eq_false', Bool.and_eq_true, bne_iff_ne] at hce
          exact hce.2
        intro bb hbb
        simp only at hbb
        rcases abacusBetter_cases s.2 row
          ((RowLeg.getCost (legAt s.1 row) c.w c.tx).1 + c.w * iabs ((rowAt rows row).rect.minY - c.ty)) with e | e
        · rw [e] at hbb; exact h bb hbb
        · rw [e] at hbb
          injection hbb with hbb
          subst hbb
          exact hor

/-- every cell listed in segment `k` has a valid orientation there -/
def Listed (rows : List Row) (cells : List LCell) (rcs : List (List Nat)) : Prop :=
  ∀ k rc, rcs[k]? = some rc → ∀ d ∈ rc, getOrientation rows (cellAt cells d) k ≠ Orient.INVALID

theorem abacusPlace_listed (cells : List LCell) (a : Abacus) (i : Nat) (c : LCell) (hc : cellAt cells i = c)
    (h : Listed a.rows cells a.rowCells) : Listed a.rows cells (abacusPlace a i c).1.rowCells := by
  have hinv := searchRows_inv (ABestOK a.rows c) (abacusTry a.rows c) (abacusTry_orient a.rows c) a.rows.length
    (startRow a.rows c.ty) (a.legs, none) (by intro bb hb; simp at hb)
  unfold abacusPlace
  split
  · exact h
  · rename_i legs b heq
    rw [heq] at hinv
    have hor := hinv b rfl
    simp only
    intro k rc hk d hd
    rw [List.getElem?_set] at hk
    by_cases hkb : b.row = k
    · subst hkb
      rw [if_pos rfl] at hk
      split at hk
      · rename_i hlt
        injection hk with hk
        rw [← hk, List.mem_append] at hd
        rcases hd with hd | hd
        · refine h b.row _ ?_ d hd
          simp [List.getD_eq_getElem?_getD, List.getElem?_eq_getElem hlt]
        · simp only [List.mem_singleton] at hd
          subst hd
          rw [hc]; exact hor
      · simp at hk
    · rw [if_neg hkb] at hk
      exact h k rc hk d hd

theorem abacusLoop_listed (cells : List LCell) : ∀ (cs : List LCell) (a : Abacus) (i : Nat), cs = cells.drop i →
    Listed a.rows cells a.rowCells → Listed a.rows cells (abacusLoop a i cs).1.rowCells
  | [], a, i, _, h => h
  | c :: cs, a, i, hcs, h => by
    simp only [abacusLoop]
    have hci : cellAt cells i = c := by
      apply cellAt_of_getElem?
      have := congrArg (fun l => l[0]?) hcs
      simp only [List.getElem?_cons_zero, List.getElem?_drop, Nat.add_zero] at this
      exact this.symm
    have hcs' : cs = cells.drop (i + 1) := by
      have := congrArg List.tail hcs
      simpa [List.tail_drop] using this
    have := abacusLoop_listed cells cs (abacusPlace a i c).1 (i + 1) hcs'
      (by rw [abacusPlace_rows]; exact abacusPlace_listed cells a i c hci h)
    rw [abacusPlace_rows] at this
    exact this

/-- **Abacus.**  Every cell the Abacus pass marks placed sits in one of its segments with the
orientation of *that* segment, which is not INVALID. -/
theorem abacusRun_orient (rows : List Row) (cells : List LCell)
    (hw : ∀ c ∈ cells, 0 < c.w) (ps : List Pos) (h : abacusRun rows cells = .ok ps) :
    ∀ c, (posAt ps c).placed = true → ∃ r ∈ rows, SegOrient r (cellAt cells c) (posAt ps c) := by
  obtain ⟨hps, hck⟩ := abacusRun_check rows cells ps hw h
  have hlen : (abacusLoop (Abacus.init rows) 0 cells).1.rowCells.length = (sortRows rows).length := by
    rw [abacusLoop_rowCells_length]
    simp [Abacus.init]
  have hlisted : Listed (sortRows rows) cells (abacusLoop (Abacus.init rows) 0 cells).1.rowCells := by
    have := abacusLoop_listed cells cells (Abacus.init rows) 0 (by simp) (by
      intro k rc hk d hd
      simp only [Abacus.init, List.getElem?_map] at hk
      cases hq : (sortRows rows)[k]? with
      | none => rw [hq] at hk; simp at hk
      | some r => rw [hq] at hk; simp at hk; subst hk; simp at hd)
    exact this
  intro c hc
  have hsp := writeRows_spec (sortRows rows) cells (abacusLoop (Abacus.init rows) 0 cells).1.rowCells
    (abacusLoop (Abacus.init rows) 0 cells).1.legs 0 (cells.map initPos) c
  rw [← hps] at hsp
  rcases hsp with hsp | ⟨k, rc, h1, h2, h3, _, h5⟩
  · rw [hsp, posAt_init] at hc; simp at hc
  · have hk : k < (sortRows rows).length := by
      rw [← hlen]
      exact (List.getElem?_eq_some_iff.mp h1).1
    simp only [Nat.zero_add] at h3 h5
    have hr : (sortRows rows)[k]? = some (sortRows rows)[k] := List.getElem?_eq_getElem hk
    have hrow := rowAt_of_getElem? _ _ _ hr
    obtain ⟨hb, _⟩ := hck k _ rc hr h1
    obtain ⟨_, b1, b2⟩ := hb c h2
    have hor := hlisted k rc h1 c h2
    have e5 : (posAt ps c).orient = getOrientation (sortRows rows) (cellAt cells c) k := h5
    refine ⟨(sortRows rows)[k], (mem_sortRows _ rows).mp (List.mem_of_getElem? hr), ?_, b1, b2, ?_, ?_⟩
    · rw [h3, hrow]
    · rw [e5, getOrientation_eq, hrow]
    · rw [e5]; exact hor

/-! ### Tetris: `attemptPlacement` -/

theorem levelIvs_le (w y : Int) : ∀ (rs : List Row) (fs : List Int), ∀ iv ∈ levelIvs w y rs fs, iv.1 ≤ iv.2
  | [], _, iv, h => by simp [levelIvs] at h
  | _ :: _, [], iv, h => by simp [levelIvs] at h
  | r :: rs, f :: fs, iv, h => by
    simp only [levelIvs] at h
    split at h
    · simp at h
    · split at h
      · rcases List.mem_cons.mp h with rfl | h
        · simp only; omega
        · exact levelIvs_le w y rs fs iv h
      · exact levelIvs_le w y rs fs iv h

theorem possibleIvs_le (rows : List Row) (rowH : Int) (free : List Int) (w : Int) :
    ∀ (fuel : Nat) (hgt y : Int), ∀ iv ∈ possibleIvs rows rowH free w fuel hgt y, iv.1 ≤ iv.2
  | 0, _, _, iv, h => by simp [possibleIvs] at h
  | fuel + 1, hgt, y, iv, h => by
    simp only [possibleIvs] at h
    split at h
    · exact levelIvs_le _ _ _ _ iv h
    · obtain ⟨i1, hi1, i2, hi2, hm⟩ := mem_crossIvs _ _ iv h
      exact (meetIv_some i1 i2 iv hm (levelIvs_le _ _ _ _ i1 hi1)
        (possibleIvs_le rows rowH free w fuel _ _ i2 hi2)).1

/-- `x` lies in a segment `j ≥ s0` of level `y` whose orientation is valid for `c`, all segments
from `s0` to `j` being on the level -/
def FoundP (rows : List Row) (c : LCell) (y : Int) (s0 : Nat) (x : Int) : Prop :=
  ∃ j r, rows[j]? = some r ∧ s0 ≤ j ∧
    (∀ j' r', s0 ≤ j' → j' ≤ j → rows[j']? = some r' → r'.rect.minY = y) ∧
    r.rect.minX ≤ x ∧ x + c.w ≤ r.rect.maxX ∧ getOrientation rows c j ≠ Orient.INVALID

theorem closestInSeg_bounds (tx w : Int) (r : Row) (P : Int → Prop)
    (hP : ∀ x, r.rect.minX ≤ x → x + w ≤ r.rect.maxX → P x) (acc : Option Int) (iv : Int × Int)
    (hiv : iv.1 ≤ iv.2) (ha : ∀ x, acc = some x → P x) :
    ∀ x, closestInSeg tx w r acc iv = some x → P x := by
  intro x hx
  unfold closestInSeg at hx
  split at hx
  · exact ha x hx
  · rename_i hc
    simp only [Bool.or_eq_true, decide_eq_true_eq] at hc
    have hcl := clamp_mem tx iv.1 iv.2 hiv
    unfold closestStep at hx
    cases acc with
    | none =>
      simp only [Option.some.injEq] at hx
      subst hx
      exact hP _ (by omega) (by omega)
    | some d =>
      simp only at hx
      split at hx
      · simp only [Option.some.injEq] at hx
        subst hx
        exact hP _ (by omega) (by omega)
      · exact ha x hx

theorem foldl_closestInSeg (tx w : Int) (r : Row) (P : Int → Prop)
    (hP : ∀ x, r.rect.minX ≤ x → x + w ≤ r.rect.maxX → P x) :
    ∀ (l : List (Int × Int)) (acc : Option Int), (∀ iv ∈ l, iv.1 ≤ iv.2) → (∀ x, acc = some x → P x) →
      ∀ x, l.foldl (closestInSeg tx w r) acc = some x → P x
  | [], acc, _, ha => by simpa using ha
  | iv :: l, acc, hl, ha => by
    simp only [List.foldl_cons]
    exact foldl_closestInSeg tx w r P hP l _ (fun j hj => hl j (by simp [hj]))
      (closestInSeg_bounds tx w r P hP acc iv (hl iv (by simp)) ha)

theorem drop_cons_facts {α : Type} (l : List α) (i : Nat) (a : α) (as : List α) (h : a :: as = l.drop i) :
    l[i]? = some a ∧ as = l.drop (i + 1) := by
  constructor
  · have := congrArg (fun l => l[0]?) h
    simp only [List.getElem?_cons_zero, List.getElem?_drop, Nat.add_zero] at this
    exact this.symm
  · have := congrArg List.tail h
    simpa [List.tail_drop] using this

theorem attemptSegs_seg (rows : List Row) (c : LCell) (y : Int) (ivs : List (Int × Int))
    (hivs : ∀ iv ∈ ivs, iv.1 ≤ iv.2) (s0 : Nat) :
    ∀ (rs : List Row) (i : Nat) (acc : Option Int), rs = rows.drop i → s0 ≤ i →
      (∀ j' r', s0 ≤ j' → j' < i → rows[j']? = some r' → r'.rect.minY = y) →
      (∀ x, acc = some x → FoundP rows c y s0 x) →
      ∀ x, attemptSegs rows c y ivs i rs acc = some x → FoundP rows c y s0 x
  | [], i, acc, _, _, _, ha => by simpa [attemptSegs] using ha
  | r :: rs, i, acc, hrs, hi, hall, ha => by
    obtain ⟨hri, hrs'⟩ := drop_cons_facts rows i r rs hrs
    simp only [attemptSegs]
    split
    · exact ha
    · rename_i hy
      have hy' : r.rect.minY = y := Decidable.not_not.mp hy
      have hall' : ∀ j' r', s0 ≤ j' → j' < i + 1 → rows[j']? = some r' → r'.rect.minY = y := by
        intro j' r' h1 h2 h3
        by_cases he : j' = i
        · subst he
          rw [hri] at h3
          injection h3 with h3
          subst h3
          exact hy'
        · exact hall j' r' h1 (by omega) h3
      split
      · exact attemptSegs_seg rows c y ivs hivs s0 rs (i + 1) acc hrs' (by omega) hall' ha
      · rename_i hor
        refine attemptSegs_seg rows c y ivs hivs s0 rs (i + 1) _ hrs' (by omega) hall' ?_
        exact foldl_closestInSeg c.tx c.w r (FoundP rows c y s0)
          (fun x h1 h2 => ⟨i, r, hri, hi, fun j' r' a b => hall' j' r' a (by omega), h1, h2, hor⟩) ivs acc hivs ha

/-! ### Tetris: the `while` loop of `placeCell` finds that segment -/

theorem sorted_idx {rows : List Row} (h : SortedBy rowLt rows) (i j : Nat) (a b : Row)
    (ha : rows[i]? = some a) (hb : rows[j]? = some b) (hij : i < j) : ¬ rowLt b a = true := by
  obtain ⟨hi, rfl⟩ := List.getElem?_eq_some_iff.mp ha
  obtain ⟨hj, rfl⟩ := List.getElem?_eq_some_iff.mp hb
  exact (List.pairwise_iff_getElem.mp h) i j hi hj hij

theorem segOf_eq (H : Int) (hH : 0 < H) (rows : List Row) (hok : RowsOK H rows) (hs : SortedBy rowLt rows)
    (x y w : Int) (hw : 0 < w) (j : Nat) (r : Row) (hj : rows[j]? = some r) (hy : r.rect.minY = y)
    (h1 : r.rect.minX ≤ x) (h2 : x + w ≤ r.rect.maxX) :
    ∀ (n i : Nat), i + n = j → (∀ j' r', i ≤ j' → j' ≤ j → rows[j']? = some r' → r'.rect.minY = y) →
      segOf x y i (rows.drop (i + 1)) = j
  | 0, i, hij, _ => by
    have hij' : i = j := by omega
    subst hij'
    cases hd : rows.drop (i + 1) with
    | nil => simp [segOf]
    | cons r' rest =>
      obtain ⟨hr', _⟩ := drop_cons_facts rows (i + 1) r' rest hd.symm
      simp only [segOf]
      rw [if_neg]
      intro hc
      simp only [Bool.and_eq_true, beq_iff_eq, decide_eq_true_eq] at hc
      have hso := sorted_idx hs i (i + 1) r r' hj hr' (by omega)
      simp only [rowLt_iff] at hso
      have hdj := hok.disj_idx i (i + 1) r r' hj hr' (by omega)
      rw [intersects_false_iff] at hdj
      have e1 := hok.height r (List.mem_of_getElem? hj)
      have e2 := hok.height r' (List.mem_of_getElem? hr')
      have e3 := hok.wide r' (List.mem_of_getElem? hr')
      omega
  | n + 1, i, hij, hall => by
    have hlt : i + 1 < rows.length := by
      have := (List.getElem?_eq_some_iff.mp hj).1
      omega
    have hr' : rows[i + 1]? = some rows[i + 1] := List.getElem?_eq_getElem hlt
    have hd : rows.drop (i + 1) = rows[i + 1] :: rows.drop (i + 1 + 1) := List.drop_eq_getElem_cons hlt
    rw [hd]
    simp only [segOf]
    have hy' := hall (i + 1) _ (by omega) (by omega) hr'
    have hx' : rows[i + 1].rect.minX ≤ x := by
      by_cases he : i + 1 = j
      · have hj' := hj
        rw [← he, hr'] at hj'
        injection hj' with hj'
        rw [hj']; exact h1
      · have := sorted_idx hs (i + 1) j _ r hr' hj (by omega)
        simp only [rowLt_iff] at this
        omega
    rw [if_pos (by simp [hy', hx'])]
    exact segOf_eq H hH rows hok hs x y w hw j r hj hy h1 h2 n (i + 1) (by omega)
      (fun j' r' a b => hall j' r' (by omega) b)

/-- **Tetris, one cell.**  A placed cell sits in a segment of its bottom level with the orientation
of that segment, which is not INVALID. -/
theorem tetrisPlace_orient (t : Tetris) (H : Int) (hH : 0 < H) (hok : RowsOK H t.rows)
    (hs : SortedBy rowLt t.rows) (c : LCell) (hw : 0 < c.w) (hp : (tetrisPlace t c).2.placed = true) :
    ∃ r ∈ t.rows, SegOrient r c (tetrisPlace t c).2 := by
  have hinv := searchRows_inv (BestOK t c) (tetrisTry t c) (tetrisTry_inv t c) t.rows.length
    (startRow t.rows c.ty) none (by intro bb h; simp at h)
  unfold tetrisPlace at hp ⊢
  generalize hsr : searchRows (tetrisTry t c) t.rows.length (startRow t.rows c.ty) none = sr at hp hinv ⊢
  cases sr with
  | none => simp [initPos] at hp
  | some b =>
    simp only
    have hat := hinv b rfl
    have hat' : attemptPerSeg t c b.y = some b.x := by
      unfold attempt at hat
      rw [if_pos (show tetrisPerSegmentOrientation = true from rfl)] at hat
      exact hat
    unfold attemptPerSeg at hat'
    obtain ⟨j, r, hj, hsj, hall, h1, h2, hor⟩ :=
      attemptSegs_seg t.rows c b.y _ (possibleIvs_le t.rows t.rowH t.free c.w _ c.h b.y) (startRow t.rows b.y)
        _ (startRow t.rows b.y) none rfl (Nat.le_refl _) (by intro j' r' h1 h2; omega) (by intro x h; simp at h)
        b.x hat'
    have hyj := hall j r hsj (Nat.le_refl _) hj
    have hseg : orientRow t.rows b.x b.y = j := by
      unfold orientRow
      rw [if_pos (show tetrisPerSegmentOrientation = true from rfl)]
      exact segOf_eq H hH t.rows hok hs b.x b.y c.w hw j r hj hyj h1 h2 (j - startRow t.rows b.y)
        (startRow t.rows b.y) (by omega) hall
    refine ⟨r, List.mem_of_getElem? hj, hyj, h1, h2, ?_, ?_⟩
    · show getOrientation t.rows c (orientRow t.rows b.x b.y) = _
      rw [hseg, getOrientation_eq, rowAt_of_getElem? _ _ _ hj]
    · show getOrientation t.rows c (orientRow t.rows b.x b.y) ≠ _
      rw [hseg]; exact hor

theorem tetrisRun_orient (H : Int) (hH : 0 < H) : ∀ (cells : List LCell) (t : Tetris), RowsOK H t.rows →
    SortedBy rowLt t.rows → (∀ c ∈ cells, 0 < c.w) →
    ∀ (i : Nat) (c : LCell) (p : Pos), cells[i]? = some c → (tetrisRun t cells)[i]? = some p → p.placed = true →
      ∃ r ∈ t.rows, SegOrient r c p
  | [], t, _, _, _, i, c, p, hc, _, _ => by simp at hc
  | c0 :: cs, t, hok, hs, hw, i, c, p, hc, hp, hpl => by
    have hrows := tetrisPlace_rows t c0
    have hrun : tetrisRun t (c0 :: cs) = (tetrisPlace t c0).2 :: tetrisRun (tetrisPlace t c0).1 cs := by
      simp only [tetrisRun]
    rw [hrun] at hp
    cases i with
    | zero =>
      simp only [List.getElem?_cons_zero, Option.some.injEq] at hc hp
      subst hc hp
      exact tetrisPlace_orient t H hH hok hs _ (hw _ (by simp)) hpl
    | succ i =>
      simp only [List.getElem?_cons_succ] at hc hp
      have := tetrisRun_orient H hH cs (tetrisPlace t c0).1 (by rw [hrows.1]; exact hok) (by rw [hrows.1]; exact hs)
        (fun c hc => hw c (by simp [hc])) i c p hc hp hpl
      rw [hrows.1] at this
      exact this

/-! ### `Legalizer::run` -/

theorem runTetris_orient (H : Int) (hH : 0 < H) (R : List Row) (hok : RowsOK H R) (L : List LCell)
    (hL : CellsOK H L) (order : List Nat) (b0 b1 : Base) (hrows : b0.rows = sortRows R) (hcells : b0.cells = L)
    (hpos : b0.pos = L.map initPos) (h : runTetris b0 order = .ok b1) :
    ∀ m, (posAt b1.pos m).placed = true → ∃ r ∈ R, SegOrient r (cellAt L m) (posAt b1.pos m) := by
  unfold runTetris at h
  split at h
  · split at h
    · injection h with h
      subst h
      intro m hm
      rw [hpos, posAt_init] at hm; simp at hm
    · simp at h
  · rename_i rowH hrh
    rw [hrows] at hrh
    have hrowH : rowH = H := rowHeight?_eq hok.sort rowH hrh
    subst hrowH
    injection h with h
    subst h
    simp only
    generalize hsel : tetrisSel b0 rowH order = sel
    have hselm : ∀ m ∈ sel, cellAt L m ∈ L := by
      intro m hm
      rw [← hsel] at hm
      simp only [tetrisSel, List.mem_filter, Bool.and_eq_true, Bool.not_eq_true', decide_eq_false_iff_not] at hm
      have hgt : ¬ ((cellAt L m).h ≤ rowH) := by rw [← hcells]; exact hm.2.2
      exact (cellAt_valid L m (by omega)).2
    have hrem : b0.remainingRows = (sortRows R).flatMap fun r => r.freespace (placedRects L (L.map initPos)) := by
      simp only [Base.remainingRows, hrows, hcells, hpos]
    rw [hrem, hcells, hpos]
    generalize hobs : placedRects L (L.map initPos) = obs
    have hrok : RowsOK rowH ((sortRows R).flatMap fun r => r.freespace obs) := hok.sort.freespace obs
    have htok : RowsOK rowH (Tetris.init ((sortRows R).flatMap fun r => r.freespace obs)).rows := hrok.sort
    have hts : SortedBy rowLt (Tetris.init ((sortRows R).flatMap fun r => r.freespace obs)).rows :=
      sortRows_sorted _
    have hT := tetrisRun_orient rowH hH (sel.map (cellAt L))
      (Tetris.init ((sortRows R).flatMap fun r => r.freespace obs)) htok hts (by
        intro c hc
        obtain ⟨m, hm, rfl⟩ := List.mem_map.mp hc
        exact (hL _ (hselm m hm)).1)
    generalize hps : tetrisRun (Tetris.init ((sortRows R).flatMap fun r => r.freespace obs)) (sel.map (cellAt L)) = psT at hT
    intro m hm
    rcases importPos_spec sel psT (L.map initPos) m with h | ⟨i, p, h1, h2, h3, h4⟩
    · rw [h, posAt_init] at hm; simp at hm
    · obtain ⟨r, hr, hseg⟩ := hT i (cellAt L m) p (by simp [List.getElem?_map, h1]) h2 h3
      obtain ⟨r', hr', hsub⟩ := mem_subrow_of_remaining hok obs r hr
      rw [h4]
      exact ⟨r', hr', hseg.of_sub hsub⟩

theorem runAbacus_orient (H : Int) (hH : 0 < H) (R : List Row) (hok : RowsOK H R) (L : List LCell)
    (hL : CellsOK H L) (order : List Nat) (b1 b2 : Base) (hrows : b1.rows = sortRows R) (hcells : b1.cells = L)
    (h : runAbacus b1 order = .ok b2) :
    ∀ m, posAt b2.pos m = posAt b1.pos m ∨ ∃ r ∈ R, SegOrient r (cellAt L m) (posAt b2.pos m) := by
  unfold runAbacus at h
  split at h
  · split at h
    · injection h with h
      subst h
      exact fun m => Or.inl rfl
    · simp at h
  · rename_i rowH hrh
    rw [hrows] at hrh
    have hrowH : rowH = H := rowHeight?_eq hok.sort rowH hrh
    subst hrowH
    split at h
    · simp at h
    · rename_i psA hA
      injection h with h
      subst h
      simp only
      generalize hsel : abacusSel b1 rowH order = sel at hA ⊢
      have hselm : ∀ m ∈ sel, cellAt L m ∈ L := by
        intro m hm
        rw [← hsel] at hm
        simp only [abacusSel, List.mem_filter, Bool.and_eq_true, Bool.not_eq_true', decide_eq_false_iff_not,
          Decidable.not_not] at hm
        have he : (cellAt L m).h = rowH := by rw [← hcells]; exact hm.2.2
        exact (cellAt_valid L m (by omega)).2
      have hrem : b1.remainingRows = (sortRows R).flatMap fun r => r.freespace (placedRects L b1.pos) := by
        simp only [Base.remainingRows, hrows, hcells]
      rw [hrem, hcells] at hA
      have hwA : ∀ c ∈ sel.map (cellAt L), 0 < c.w := by
        intro c hc
        obtain ⟨m, hm, rfl⟩ := List.mem_map.mp hc
        exact (hL _ (hselm m hm)).1
      have hA1 := abacusRun_orient _ _ hwA psA hA
      intro m
      rcases importPos_spec sel psA b1.pos m with h | ⟨i, p, h1, h2, h3, h4⟩
      · exact Or.inl h
      · right
        have hpi := posAt_of_getElem? _ _ _ h2
        obtain ⟨r, hr, hseg⟩ := hA1 i (by rw [hpi]; exact h3)
        rw [hpi] at hseg
        have hci : cellAt (sel.map (cellAt L)) i = cellAt L m := by
          apply cellAt_of_getElem?
          simp [List.getElem?_map, h1]
        rw [hci] at hseg
        obtain ⟨⟨r', hr', hsub⟩, _⟩ := flatMap_freespace_seg hok.sort (placedRects L b1.pos) r hr
        rw [h4]
        exact ⟨r', (mem_sortRows r' R).mp hr', hseg.of_sub hsub⟩

/-- **`Legalizer::run`.**  If both passes return, every placed cell sits in one of the rows `R` with
the orientation that row prescribes, which is not INVALID. -/
theorem run_orient (H : Int) (hH : 0 < H) (R : List Row) (hok : RowsOK H R) (L : List LCell) (hL : CellsOK H L)
    (order : List Nat) (b1 b2 : Base) (h1 : runTetris (Base.mk' R L) order = .ok b1)
    (h2 : runAbacus b1 order = .ok b2) :
    ∀ m, (posAt b2.pos m).placed = true → ∃ r ∈ R, SegOrient r (cellAt L m) (posAt b2.pos m) := by
  obtain ⟨t1, t2, _, _, _⟩ := runTetris_spec H hH R hok L hL order _ b1 rfl rfl rfl h1
  have hT := runTetris_orient H hH R hok L hL order _ b1 rfl rfl rfl h1
  have hA := runAbacus_orient H hH R hok L hL order b1 b2 t1 t2 h2
  intro m hm
  rcases hA m with h | h
  · rw [h] at hm ⊢
    exact hT m hm
  · exact h

/-! ### `Circuit::legalize` -/

/-- a pointwise statement about `exportPlacement` from a statement about each movable cell and its status -/
theorem exportCells_pointwise (Q : Cell → Cell → Prop) (hQ : ∀ cl, cl.fixed = true → Q cl cl) :
    ∀ (cells : List Cell) (P : List Pos), P.length = (cells.filter fun cl => !cl.fixed).length →
      (∀ (m : Nat) (cl : Cell) (p : Pos), (cells.filter fun cl => !cl.fixed)[m]? = some cl → P[m]? = some p →
        Q cl (updCell cl p)) →
      Pointwise Q cells (exportCells cells P)
  | [], P, _, _ => by simp [exportCells]; exact Pointwise.nil
  | cl :: cls, P, hlen, hq => by
    unfold exportCells
    by_cases hf : cl.fixed = true
    · rw [if_pos hf]
      have hfil : ((cl :: cls).filter fun cl => !cl.fixed) = cls.filter fun cl => !cl.fixed := by
        simp [hf]
      rw [hfil] at hlen hq
      exact Pointwise.cons (hQ cl hf) (exportCells_pointwise Q hQ cls P hlen hq)
    · rw [if_neg hf]
      have hf' : cl.fixed = false := by simpa using hf
      have hfil : ((cl :: cls).filter fun cl => !cl.fixed) = cl :: cls.filter fun cl => !cl.fixed := by
        simp [hf']
      rw [hfil] at hlen hq
      cases P with
      | nil => simp at hlen
      | cons p ps =>
        have h0 : Q cl (updCell cl p) := hq 0 cl p (by simp) (by simp)
        refine Pointwise.cons h0 (exportCells_pointwise Q hQ cls ps (by simpa using hlen) ?_)
        intro m cl' p' h1 h2
        exact hq (m + 1) cl' p' (by simpa using h1) (by simpa using h2)

/-- what the result `b` of a movable cell `a` satisfies: polarity and placed width kept; it sits on
the bottom edge of a segment of `rows`, inside it, with the orientation `getOrientation` prescribes
for that segment (the table's answer, or the cell's own orientation when the table answers the keep
marker UNKNOWN), which is not INVALID -/
def CellOrient (rows : List Row) (a b : Cell) : Prop :=
  (a.fixed = true → b = a) ∧
  (a.fixed = false →
    b.fixed = false ∧ b.pol = a.pol ∧ b.placedWidth = a.placedWidth ∧ 0 < a.placedWidth ∧
    ∃ r ∈ rows, r.rect.minY = b.y ∧ r.rect.minX ≤ b.x ∧ b.x + b.placedWidth ≤ r.rect.maxX ∧
      b.orient = (if cellOrientationInRow a.pol r.orient = Orient.UNKNOWN then a.orient
                  else cellOrientationInRow a.pol r.orient) ∧
      b.orient ≠ Orient.INVALID)

theorem legalizeWith_orient (rnd : Rat → Rat) (p : Params) (c c' : Circuit) (hd : DomL c)
    (h : legalizeWith rnd p c = .ok c') :
    c'.computeRows = c.computeRows ∧ Pointwise (CellOrient c.computeRows) c.cells c'.cells := by
  obtain ⟨_, b1, b2, h1, h2, hall, rfl⟩ := legalizeWith_ok rnd p c c' h
  generalize hH0 : (Circuit.rowHeight c).getD 0 = H0
  have hH : 0 < H0 := by rw [← hH0]; exact hd.1
  have hRc : RowsOK H0 c.computeRows := by rw [← hH0]; exact dom_rowsOK c hd
  have hL : CellsOK H0 (movable c) := by rw [← hH0]; exact dom_cellsOK c hd
  obtain ⟨hlen, _, _⟩ := run_legal H0 hH c.computeRows hRc (movable c) hL _ b1 b2 h1 h2
  have hor := run_orient H0 hH c.computeRows hRc (movable c) hL _ b1 b2 h1 h2
  have hmlen : (movable c).length = (c.cells.filter fun cl => !cl.fixed).length := by
    rw [movable_eq]; simp
  refine ⟨export_computeRows b2 c, ?_⟩
  show Pointwise _ c.cells (exportCells c.cells b2.pos)
  apply exportCells_pointwise
  · intro cl hf
    exact ⟨fun _ => rfl, fun hff => (by rw [hf] at hff; cases hff)⟩
  · rw [hlen, hmlen]
  · intro m cl q hcm hpm
    have hfx : cl.fixed = false := by
      have := (List.mem_filter.mp (List.mem_of_getElem? hcm)).2
      simpa using this
    refine ⟨fun hff => (by rw [hfx] at hff; cases hff), fun _ => ?_⟩
    have hq := posAt_of_getElem? _ _ _ hpm
    have hpl : q.placed = true := by
      rw [List.all_eq_true] at hall
      exact hall q (List.mem_of_getElem? hpm)
    have hcell : cellAt (movable c) m = toLCell cl := by
      apply cellAt_of_getElem?
      rw [movable_eq, List.getElem?_map, hcm]
      rfl
    obtain ⟨r, hr, a1, a2, a3, a4, a5⟩ := hor m (by rw [hq]; exact hpl)
    rw [hcell, hq] at a3 a4
    rw [hq] at a1 a2 a5
    have hmem : cl ∈ c.cells := (List.mem_filter.mp (List.mem_of_getElem? hcm)).1
    obtain ⟨d1, _, _, d4⟩ := hd.2.1 cl hmem hfx
    have hru : r.orient.isTurn = false := hRc.unturned r hr
    have hturn : q.orient.isTurn = cl.orient.isTurn := by
      rw [a4]
      exact orientFor_turn (toLCell cl) r.orient hru d4
    have hupd : updCell cl q = { cl with x := q.x, y := q.y, orient := q.orient } := by
      simp [updCell, hpl]
    rw [hupd]
    have hw : ({ cl with x := q.x, y := q.y, orient := q.orient } : Cell).placedWidth = cl.placedWidth := by
      simp only [Cell.placedWidth, hturn]
    refine ⟨hfx, rfl, hw, d1, r, hr, a1, a2, ?_, a4, a5⟩
    rw [hw]
    exact a3

/-- the segment under a strip of positive width is unique -/
theorem seg_unique (H : Int) (hH : 0 < H) (rows : List Row) (hok : RowsOK H rows) (r r' : Row) (hr : r ∈ rows)
    (hr' : r' ∈ rows) (x w y : Int) (hw : 0 < w)
    (h : r.rect.minY = y ∧ r.rect.minX ≤ x ∧ x + w ≤ r.rect.maxX)
    (h' : r'.rect.minY = y ∧ r'.rect.minX ≤ x ∧ x + w ≤ r'.rect.maxX) : r' = r := by
  obtain ⟨i, hi⟩ := List.mem_iff_getElem?.mp hr
  obtain ⟨j, hj⟩ := List.mem_iff_getElem?.mp hr'
  by_cases hij : i = j
  · subst hij
    rw [hi] at hj
    injection hj with hj
    exact hj.symm
  · have := hok.disj_idx i j r r' hi hj hij
    rw [intersects_false_iff] at this
    have e1 := hok.height r hr
    have e2 := hok.height r' hr'
    omega

theorem pointwise_mem_right {α β : Type} {R : α → β → Prop} {as : List α} {bs : List β} (h : Pointwise R as bs) :
    ∀ b ∈ bs, ∃ a ∈ as, R a b := by
  induction h with
  | nil => intro b hb; simp at hb
  | @cons a b as bs hab _ ih =>
    intro b' hb'
    rcases List.mem_cons.mp hb' with rfl | hb'
    · exact ⟨a, by simp, hab⟩
    · obtain ⟨a', ha', hr⟩ := ih b' hb'
      exact ⟨a', by simp [ha'], hr⟩

theorem Pointwise.imp {α β : Type} {R T : α → β → Prop} {as : List α} {bs : List β}
    (h : Pointwise R as bs) (himp : ∀ a b, R a b → T a b) : Pointwise T as bs := by
  induction h with
  | nil => exact Pointwise.nil
  | cons hab _ ih => exact Pointwise.cons (himp _ _ hab) ih

end ColoVerif.Legalize
