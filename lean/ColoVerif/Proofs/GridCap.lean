import ColoVerif.Proofs.GridDefs
/-
C16: the density grid's limits tile the placement area and the accumulated bin capacities add up to
the total area of the regions (`computeSubdivisions`, `updateBinCapacity`, `DensityGrid(binSize, regions)`).
Core Lean only.
-/
namespace ColoVerif.Grid

/-! ### `computeSubdivisions` -/

theorem subdivAt_zero (mn mx : Int) (n : Nat) : subdivAt mn mx n 0 = mn := by
  simp [subdivAt]

theorem subdivAt_last (mn mx : Int) (n : Nat) (hn : 1 ≤ n) : subdivAt mn mx n n = mx := by
  unfold subdivAt
  have h0 : (n : Int) ≠ 0 := by omega
  rw [Int.mul_tdiv_cancel_left _ h0]
  omega

theorem subdivAt_mono (mn mx : Int) (n : Nat) (hn : 1 ≤ n) (h : mn ≤ mx) (i j : Nat) (hij : i ≤ j) :
    subdivAt mn mx n i ≤ subdivAt mn mx n j := by
  unfold subdivAt
  have hd : (0 : Int) ≤ mx - mn := by omega
  have hi : (0 : Int) ≤ (i : Int) * (mx - mn) := Int.mul_nonneg (by omega) hd
  have hj : (0 : Int) ≤ (j : Int) * (mx - mn) := Int.mul_nonneg (by omega) hd
  rw [Int.tdiv_eq_ediv_of_nonneg hi, Int.tdiv_eq_ediv_of_nonneg hj]
  have hle : (i : Int) * (mx - mn) ≤ (j : Int) * (mx - mn) :=
    Int.mul_le_mul_of_nonneg_right (by omega) hd
  have := Int.ediv_le_ediv (c := (n : Int)) (by omega) hle
  omega

/-- limits are monotone, start at min, end at max -/
theorem subdivisions_partition_lem (mn mx : Int) (n : Nat) (hn : 1 ≤ n) (h : mn ≤ mx) :
    (computeSubdivisions mn mx n).length = n + 1 ∧
    (computeSubdivisions mn mx n).head? = some mn ∧
    (computeSubdivisions mn mx n).getLast? = some mx ∧
    (computeSubdivisions mn mx n).Pairwise (· ≤ ·) := by
  unfold computeSubdivisions
  refine ⟨by simp, ?_, ?_, ?_⟩
  · simp [List.head?_range, subdivAt_zero]
  · simp [List.getLast?_map, List.getLast?_range, subdivAt_last mn mx n hn]
  · rw [List.pairwise_map]
    exact List.Pairwise.imp (fun {a b} hab => subdivAt_mono mn mx n hn h a b (Nat.le_of_lt hab))
      List.pairwise_lt_range

/-! ### list-sum helpers -/

theorem sum_map_zero {α : Type} (l : List α) : (l.map fun _ => (0 : Int)).sum = 0 := by
  induction l with
  | nil => rfl
  | cons x t ih => simp [ih]

theorem sum_map_add {α : Type} (l : List α) (f g : α → Int) :
    (l.map fun i => f i + g i).sum = (l.map f).sum + (l.map g).sum := by
  induction l with
  | nil => rfl
  | cons x t ih => simp only [List.map_cons, List.sum_cons, ih]; omega

theorem sum_map_mul_left {α : Type} (l : List α) (c : Int) (g : α → Int) :
    (l.map fun j => c * g j).sum = c * (l.map g).sum := by
  induction l with
  | nil => simp
  | cons x t ih => simp only [List.map_cons, List.sum_cons, ih, Int.mul_add]

theorem sum_map_mul_right {α : Type} (l : List α) (c : Int) (f : α → Int) :
    (l.map fun i => f i * c).sum = (l.map f).sum * c := by
  induction l with
  | nil => simp
  | cons x t ih => simp only [List.map_cons, List.sum_cons, ih, Int.add_mul]

/-- the 2-D sum of products is the product of the two 1-D sums -/
theorem sum_mul_sum {α β : Type} (l1 : List α) (l2 : List β) (f : α → Int) (g : β → Int) :
    (l1.map fun i => (l2.map fun j => f i * g j).sum).sum = (l1.map f).sum * (l2.map g).sum := by
  have : (fun i => (l2.map fun j => f i * g j).sum) = fun i => f i * (l2.map g).sum := by
    funext i; exact sum_map_mul_left l2 (f i) g
  rw [this, sum_map_mul_right]

/-- move the innermost sum (over the regions) outside -/
theorem sum3_swap {ρ α β : Type} (F : ρ → α → β → Int) (rs : List ρ) (l1 : List α) (l2 : List β) :
    (l1.map fun i => (l2.map fun j => (rs.map fun r => F r i j).sum).sum).sum =
      (rs.map fun r => (l1.map fun i => (l2.map fun j => F r i j).sum).sum).sum := by
  induction rs with
  | nil => simp [sum_map_zero]
  | cons r t ih =>
    simp only [List.map_cons, List.sum_cons, sum_map_add, ih]

/-! ### the 1-D partition sum -/

/-- length of `[a,b] ∩ [lo,hi]` -/
def ov1 (a b lo hi : Int) : Int := max 0 (min b hi - max a lo)

/-- sum of `f` over the consecutive pairs of a list -/
def pairSum (f : Int → Int → Int) : List Int → Int
  | x :: y :: t => f x y + pairSum f (y :: t)
  | _ => 0

theorem range_sum_eq_pairSum (f : Int → Int → Int) (l : List Int) :
    ((List.range (l.length - 1)).map fun i => f (l.getD i 0) (l.getD (i + 1) 0)).sum = pairSum f l := by
  induction l with
  | nil => simp [pairSum]
  | cons x t ih =>
    cases t with
    | nil => simp [pairSum]
    | cons y t =>
      have hlen : (x :: y :: t).length - 1 = ((y :: t).length - 1) + 1 := by simp
      rw [hlen, List.range_succ_eq_map]
      simp only [List.map_cons, List.map_map, List.sum_cons, pairSum]
      rw [← ih]
      simp [Function.comp_def]

theorem pairSum_ov1 (a b : Int) (hab : a ≤ b) (t : List Int) :
    ∀ x, (x :: t).Pairwise (· ≤ ·) →
      pairSum (ov1 a b) (x :: t) = ov1 a b x ((x :: t).getLastD 0) ∧ x ≤ (x :: t).getLastD 0 := by
  induction t with
  | nil => intro x _; simp only [pairSum, List.getLastD_cons, List.getLastD_nil, ov1]; omega
  | cons y t ih =>
    intro x hp
    rw [List.pairwise_cons] at hp
    obtain ⟨hx, hp'⟩ := hp
    have hxy : x ≤ y := hx y (by simp)
    obtain ⟨h1, h2⟩ := ih y hp'
    simp only [pairSum, h1]
    simp only [List.getLastD_cons] at h2 ⊢
    simp only [ov1]
    omega

/-- 1-D partition-sum: the overlaps of `[a,b]` with the consecutive intervals of a monotone limit list
that spans `[a,b]` add up to `b - a` -/
theorem seg_sum (l : List Int) (hl : l.Pairwise (· ≤ ·)) (hne : l ≠ []) (a b : Int) (hab : a ≤ b)
    (h1 : l.headD 0 ≤ a) (h2 : b ≤ l.getLastD 0) :
    ((List.range (l.length - 1)).map fun i =>
      max 0 (min b (l.getD (i + 1) 0) - max a (l.getD i 0))).sum = b - a := by
  have := range_sum_eq_pairSum (ov1 a b) l
  simp only [ov1] at this
  rw [this]
  cases l with
  | nil => exact absurd rfl hne
  | cons x t =>
    obtain ⟨e, _⟩ := pairSum_ov1 a b hab t x hl
    simp only [ov1] at e
    rw [e]
    simp only [List.headD_cons] at h1
    omega

/-! ### per-bin capacity -/

theorem pairwise_getD_le (l : List Int) (hl : l.Pairwise (· ≤ ·)) (i : Nat) (hi : i + 1 < l.length) :
    l.getD i 0 ≤ l.getD (i + 1) 0 := by
  rw [List.pairwise_iff_getElem] at hl
  have := hl i (i + 1) (by omega) hi (by omega)
  simpa [List.getD_eq_getElem?_getD, List.getElem?_eq_getElem, hi, show i < l.length by omega] using this

theorem interArea_eq_overlap (r b : Rect) (hr : RectValid r) (hb : RectValid b) :
    interArea r b = overlap r b := by
  obtain ⟨hr1, hr2⟩ := hr
  obtain ⟨hb1, hb2⟩ := hb
  unfold interArea overlap
  split
  · rename_i h
    simp only [Rect.intersects, Bool.and_eq_true, decide_eq_true_eq] at h
    obtain ⟨⟨⟨h1, h2⟩, h3⟩, h4⟩ := h
    simp only [Rect.intersection, Rect.area, Rect.width, Rect.height]
    have e1 : max 0 (min r.maxX b.maxX - max r.minX b.minX) = min r.maxX b.maxX - max r.minX b.minX := by
      omega
    have e2 : max 0 (min r.maxY b.maxY - max r.minY b.minY) = min r.maxY b.maxY - max r.minY b.minY := by
      omega
    rw [e1, e2]
  · rename_i h
    simp only [Rect.intersects, Bool.and_eq_true, decide_eq_true_eq] at h
    have : max 0 (min r.maxX b.maxX - max r.minX b.minX) = 0 ∨
        max 0 (min r.maxY b.maxY - max r.minY b.minY) = 0 := by omega
    rcases this with e | e <;> simp [e]

/-- per bin: the accumulated capacity is the sum of the geometric overlaps -/
theorem binCap_eq_overlap (limX limY : List Int) (regions : List Rect)
    (hX : limX.Pairwise (· ≤ ·)) (hY : limY.Pairwise (· ≤ ·))
    (hv : ∀ r ∈ regions, RectValid r) (i j : Nat) (hi : i + 1 < limX.length) (hj : j + 1 < limY.length) :
    binCapOf limX limY regions i j = (regions.map fun r => overlap r (regionOf limX limY i j)).sum := by
  unfold binCapOf
  congr 1
  apply List.map_congr_left
  intro r hr
  apply interArea_eq_overlap r _ (hv r hr)
  exact ⟨pairwise_getD_le limX hX i hi, pairwise_getD_le limY hY j hj⟩

/-! ### total capacity -/

theorem region_sum_eq_area (limX limY : List Int) (hX : limX.Pairwise (· ≤ ·)) (hY : limY.Pairwise (· ≤ ·))
    (hxne : limX ≠ []) (hyne : limY ≠ []) (r : Rect) (hv : RectValid r) (hin : InsideLimits limX limY r) :
    ((List.range (limX.length - 1)).map fun i =>
      ((List.range (limY.length - 1)).map fun j => overlap r (regionOf limX limY i j)).sum).sum = r.area := by
  obtain ⟨a1, a2, a3, a4⟩ := hin
  have sx := seg_sum limX hX hxne r.minX r.maxX hv.1 a1 a2
  have sy := seg_sum limY hY hyne r.minY r.maxY hv.2 a3 a4
  simp only [overlap, regionOf]
  rw [sum_mul_sum (List.range (limX.length - 1)) (List.range (limY.length - 1))
    (fun i => max 0 (min r.maxX (limX.getD (i + 1) 0) - max r.minX (limX.getD i 0)))
    (fun j => max 0 (min r.maxY (limY.getD (j + 1) 0) - max r.minY (limY.getD j 0)))]
  rw [sx, sy]
  rfl

/-- total: for valid regions inside the area spanned by the limits, Σ_bins capacity = Σ_regions area -/
theorem capacities_total (limX limY : List Int) (regions : List Rect)
    (hX : limX.Pairwise (· ≤ ·)) (hY : limY.Pairwise (· ≤ ·)) (hxne : limX ≠ []) (hyne : limY ≠ [])
    (hv : ∀ r ∈ regions, RectValid r) (hin : ∀ r ∈ regions, InsideLimits limX limY r) :
    ((capacities limX limY regions).map List.sum).sum = (regions.map Rect.area).sum := by
  have step1 : ((capacities limX limY regions).map List.sum).sum =
      ((List.range (limX.length - 1)).map fun i => ((List.range (limY.length - 1)).map fun j =>
        (regions.map fun r => overlap r (regionOf limX limY i j)).sum).sum).sum := by
    unfold capacities
    rw [List.map_map]
    congr 1
    apply List.map_congr_left
    intro i hi
    simp only [Function.comp_def]
    congr 1
    apply List.map_congr_left
    intro j hj
    rw [List.mem_range] at hi hj
    exact binCap_eq_overlap limX limY regions hX hY hv i j (by omega) (by omega)
  rw [step1, sum3_swap (fun r i j => overlap r (regionOf limX limY i j))]
  congr 1
  apply List.map_congr_left
  intro r hr
  exact region_sum_eq_area limX limY hX hY hxne hyne r (hv r hr) (hin r hr)

/-! ### the constructor -/

theorem foldl_areaStep_bounds (rs : List Rect) :
    ∀ a : Rect,
      ((rs.foldl areaStep a).minX ≤ a.minX ∧ a.maxX ≤ (rs.foldl areaStep a).maxX ∧
        (rs.foldl areaStep a).minY ≤ a.minY ∧ a.maxY ≤ (rs.foldl areaStep a).maxY) ∧
      ∀ r ∈ rs, (rs.foldl areaStep a).minX ≤ r.minX ∧ r.maxX ≤ (rs.foldl areaStep a).maxX ∧
        (rs.foldl areaStep a).minY ≤ r.minY ∧ r.maxY ≤ (rs.foldl areaStep a).maxY := by
  induction rs with
  | nil => intro a; simp
  | cons s t ih =>
    intro a
    obtain ⟨⟨b1, b2, b3, b4⟩, hm⟩ := ih (areaStep a s)
    simp only [List.foldl_cons]
    have p1 : (areaStep a s).minX = min s.minX a.minX := rfl
    have p2 : (areaStep a s).maxX = max s.maxX a.maxX := rfl
    have p3 : (areaStep a s).minY = min s.minY a.minY := rfl
    have p4 : (areaStep a s).maxY = max s.maxY a.maxY := rfl
    refine ⟨⟨by omega, by omega, by omega, by omega⟩, ?_⟩
    intro r hr
    rcases List.mem_cons.1 hr with rfl | hr
    · exact ⟨by omega, by omega, by omega, by omega⟩
    · exact hm r hr

theorem placementArea_bounds (regions : List Rect) (hne : regions ≠ []) (hv : ∀ r ∈ regions, RectValid r) :
    RectValid (computePlacementArea regions) ∧
    ∀ r ∈ regions, (computePlacementArea regions).minX ≤ r.minX ∧ r.maxX ≤ (computePlacementArea regions).maxX ∧
      (computePlacementArea regions).minY ≤ r.minY ∧ r.maxY ≤ (computePlacementArea regions).maxY := by
  cases regions with
  | nil => exact absurd rfl hne
  | cons r0 t =>
    simp only [computePlacementArea]
    obtain ⟨⟨b1, b2, b3, b4⟩, hm⟩ := foldl_areaStep_bounds t r0
    obtain ⟨v1, v2⟩ := hv r0 (by simp)
    refine ⟨⟨by omega, by omega⟩, ?_⟩
    intro r hr
    rcases List.mem_cons.1 hr with rfl | hr
    · exact ⟨b1, b2, b3, b4⟩
    · exact hm r hr

theorem nbBinsFor_pos (e m : Int) : 1 ≤ nbBinsFor e m := by
  unfold nbBinsFor; omega

/-- the constructor: for a non-empty list of valid regions (any binSize), the grid's limits tile the
bounding box of the regions and the total capacity is the total region area -/
theorem ofRegions_ok (binSize : Int) (regions : List Rect) (hne : regions ≠ [])
    (hv : ∀ r ∈ regions, RectValid r) :
    let g := DGrid.ofRegions binSize regions
    let a := computePlacementArea regions
    (∀ r ∈ regions, a.minX ≤ r.minX ∧ r.maxX ≤ a.maxX ∧ a.minY ≤ r.minY ∧ r.maxY ≤ a.maxY) ∧
    g.limX.head? = some a.minX ∧ g.limX.getLast? = some a.maxX ∧ g.limX.Pairwise (· ≤ ·) ∧
    g.limY.head? = some a.minY ∧ g.limY.getLast? = some a.maxY ∧ g.limY.Pairwise (· ≤ ·) ∧
    g.totalCapacity = (regions.map Rect.area).sum := by
  intro g a
  obtain ⟨⟨va1, va2⟩, hb⟩ := placementArea_bounds regions hne hv
  obtain ⟨lx1, lx2, lx3, lx4⟩ :=
    subdivisions_partition_lem a.minX a.maxX (nbBinsFor a.width binSize) (nbBinsFor_pos _ _) va1
  obtain ⟨ly1, ly2, ly3, ly4⟩ :=
    subdivisions_partition_lem a.minY a.maxY (nbBinsFor a.height binSize) (nbBinsFor_pos _ _) va2
  refine ⟨hb, lx2, lx3, lx4, ly2, ly3, ly4, ?_⟩
  show ((capacities g.limX g.limY regions).map List.sum).sum = _
  have hxne : g.limX ≠ [] := by
    intro h; have : g.limX.length = _ := lx1; rw [h] at this; simp at this
  have hyne : g.limY ≠ [] := by
    intro h; have : g.limY.length = _ := ly1; rw [h] at this; simp at this
  apply capacities_total g.limX g.limY regions lx4 ly4 hxne hyne hv
  intro r hr
  obtain ⟨c1, c2, c3, c4⟩ := hb r hr
  have e1 : g.limX.headD 0 = a.minX := by
    rw [List.headD_eq_head?_getD]; show (Option.getD (List.head? g.limX) 0) = _
    rw [show g.limX.head? = some a.minX from lx2]; rfl
  have e2 : g.limX.getLastD 0 = a.maxX := by
    rw [List.getLastD_eq_getLast?, show g.limX.getLast? = some a.maxX from lx3]; rfl
  have e3 : g.limY.headD 0 = a.minY := by
    rw [List.headD_eq_head?_getD, show g.limY.head? = some a.minY from ly2]; rfl
  have e4 : g.limY.getLastD 0 = a.maxY := by
    rw [List.getLastD_eq_getLast?, show g.limY.getLast? = some a.maxY from ly3]; rfl
  unfold InsideLimits
  rw [e1, e2, e3, e4]
  exact ⟨c1, c2, c3, c4⟩

/-! ### non-vacuity -/

/-- concrete instance: two valid regions, a 2×1 grid spanning them; the hypotheses of `capacities_total`
are satisfiable and the conclusion is the expected number -/
example :
    let limX : List Int := [0, 5, 10]
    let limY : List Int := [0, 4]
    let regions : List Rect := [⟨0, 10, 0, 2⟩, ⟨2, 7, 2, 4⟩]
    limX.Pairwise (· ≤ ·) ∧ limY.Pairwise (· ≤ ·) ∧ limX ≠ [] ∧ limY ≠ [] ∧
    (∀ r ∈ regions, RectValid r) ∧ (∀ r ∈ regions, InsideLimits limX limY r) ∧
    capacities limX limY regions = [[16], [14]] ∧ (regions.map Rect.area).sum = 30 := by
  simp only [RectValid, InsideLimits]
  decide

example : (DGrid.ofRegions 4 [⟨0, 10, 0, 2⟩, ⟨2, 7, 2, 4⟩]).totalCapacity = 30 := by
  have := ofRegions_ok 4 [⟨0, 10, 0, 2⟩, ⟨2, 7, 2, 4⟩] (by simp) (by simp only [RectValid]; decide)
  exact this.2.2.2.2.2.2.2

example : DGrid.ofRegions 4 [⟨0, 10, 0, 2⟩, ⟨2, 7, 2, 4⟩] = ⟨[0, 5, 10], [0, 4], [[16], [14]]⟩ := by
  decide

end ColoVerif.Grid
