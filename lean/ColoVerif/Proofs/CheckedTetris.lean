import ColoVerif.Proofs.CheckedArith
import ColoVerif.Model.TetrisChecked
/-
No-fault lemmas for the checked Tetris legalizer (C07): on the domain
(rows within ±2^22, free positions within ±2^22, cell widths in [0, 2^22], heights ≤ 2^22,
targets within ±2^29) every checked function returns `.ok` of the unbounded model's value,
and the invariants are preserved.  Core Lean only.
-/
namespace ColoVerif.Legalize
open ColoVerif.Checked

local notation "M22" => (4194304 : Int)
/-- bound on the targets: what `placeGlobal` can hand over (fix c07-global-out-of-range-placement
bounds the positions by 2^28 before blending) -/
local notation "T29" => (536870912 : Int)

/-! ### domain -/

def RowOkT (r : Row) : Prop :=
  -M22 ≤ r.rect.minX ∧ r.rect.minX ≤ r.rect.maxX ∧ r.rect.maxX ≤ M22 ∧ -M22 ≤ r.rect.minY ∧ r.rect.minY ≤ M22

def RowsOk (rows : List Row) : Prop := ∀ r ∈ rows, RowOkT r
def FreeOk (free : List Int) : Prop := ∀ f ∈ free, -M22 ≤ f ∧ f ≤ M22

/-- a cell of the domain: placed width in [0, 2^22], height ≤ 2^22, target within ±2^29 -/
def CellOkT (c : LCell) : Prop :=
  0 ≤ c.w ∧ c.w ≤ M22 ∧ c.h ≤ M22 ∧ -T29 ≤ c.tx ∧ c.tx ≤ T29 ∧ -T29 ≤ c.ty ∧ c.ty ≤ T29

structure TDom (t : Tetris) : Prop where
  rows : RowsOk t.rows
  free : FreeOk t.free
  rowH1 : 1 ≤ t.rowH
  rowH2 : t.rowH ≤ 2 * M22
  nonempty : t.rows ≠ []

/-- an interval in which a cell of width `w` can be put: `b ≤ e`, inside ±2^22 -/
def IvOk (w : Int) (iv : Int × Int) : Prop := -M22 ≤ iv.1 ∧ iv.1 ≤ iv.2 ∧ iv.2 + w ≤ M22

theorem default_rowOk : RowOkT (default : Row) := by
  unfold RowOkT
  refine ⟨?_, ?_, ?_, ?_, ?_⟩ <;> decide

theorem tc_rowAt_ok {rows : List Row} (h : RowsOk rows) (i : Nat) : RowOkT (rowAt rows i) := by
  unfold rowAt
  by_cases hi : i < rows.length
  · have : rows.getD i default = rows[i] := by simp [List.getD, hi]
    rw [this]; exact h _ (List.getElem_mem hi)
  · have : rows.getD i default = default := by
      simp only [List.getD]
      rw [List.getElem?_eq_none (by omega)]; rfl
    rw [this]; exact default_rowOk

theorem rowsOk_drop {rows : List Row} (h : RowsOk rows) (n : Nat) : RowsOk (rows.drop n) :=
  fun r hr => h r (List.mem_of_mem_drop hr)

theorem freeOk_drop {free : List Int} (h : FreeOk free) (n : Nat) : FreeOk (free.drop n) :=
  fun r hr => h r (List.mem_of_mem_drop hr)

theorem freeOk_take {free : List Int} (h : FreeOk free) (n : Nat) : FreeOk (free.take n) :=
  fun r hr => h r (List.mem_of_mem_take hr)

theorem freeOk_append {a b : List Int} (ha : FreeOk a) (hb : FreeOk b) : FreeOk (a ++ b) := by
  intro f hf
  rcases List.mem_append.mp hf with h | h
  · exact ha f h
  · exact hb f h

theorem tc_iabs_eq (v : Int) : iabs v = (v.natAbs : Int) := by
  unfold iabs; split <;> omega

theorem absI32_ok {s : String} {v : Int} (h1 : -2147483647 ≤ v) (h2 : v ≤ 2147483647) :
    absI32 s v = .ok (iabs v) := by
  rw [tc_iabs_eq]; exact chk32_ok' (by omega) (by omega)

theorem subI32_ok {s : String} {a b : Int} (h1 : -2147483648 ≤ a - b) (h2 : a - b ≤ 2147483647) :
    subI32 s a b = .ok (a - b) := chk32_ok' h1 h2

theorem addI32_ok {s : String} {a b : Int} (h1 : -2147483648 ≤ a + b) (h2 : a + b ≤ 2147483647) :
    addI32 s a b = .ok (a + b) := chk32_ok' h1 h2

@[simp] theorem andThen_ok {α β : Type} (a : α) (f : α → Except Fault β) : andThen (.ok a) f = f a := rfl

/-! ### closestRow -/

theorem closestRowC_ok {rows : List Row} (h : RowsOk rows) {y : Int} (hy1 : -T29 ≤ y) (hy2 : y ≤ T29) :
    closestRowC rows y = .ok (closestRow rows y) := by
  have h1 := tc_rowAt_ok h (lowerBound rows y)
  have h2 := tc_rowAt_ok h (lowerBound rows y - 1)
  obtain ⟨_, _, _, a1, a2⟩ := h1
  obtain ⟨_, _, _, b1, b2⟩ := h2
  have e1 : subI32 "closestRow: rows_[row].minY - y" (rowAt rows (lowerBound rows y)).rect.minY y =
      .ok ((rowAt rows (lowerBound rows y)).rect.minY - y) := subI32_ok (by omega) (by omega)
  have e2 : subI32 "closestRow: y - rows_[row - 1].minY" y (rowAt rows (lowerBound rows y - 1)).rect.minY =
      .ok (y - (rowAt rows (lowerBound rows y - 1)).rect.minY) := subI32_ok (by omega) (by omega)
  unfold closestRowC closestRow
  rw [e1, e2]
  simp only [andThen_ok]
  split
  · rfl
  · split
    · rfl
    · split <;> rfl

/-! ### getPossibleIntervals -/

theorem levelIvsC_ok {w y : Int} (hw0 : 0 ≤ w) (hw : w ≤ M22) :
    ∀ (rows : List Row) (free : List Int), RowsOk rows → FreeOk free →
      levelIvsC w y rows free = .ok (levelIvs w y rows free) ∧ ∀ iv ∈ levelIvs w y rows free, IvOk w iv := by
  intro rows
  induction rows with
  | nil => intro free _ _; cases free <;> simp [levelIvsC, levelIvs]
  | cons r rs ih =>
    intro free hr hf
    cases free with
    | nil => simp [levelIvsC, levelIvs]
    | cons f fs =>
      have hr0 := hr r (by simp)
      have hf0 := hf f (by simp)
      obtain ⟨r1, r12, r2, _, _⟩ := hr0
      have ihh := ih fs (fun x hx => hr x (by simp [hx])) (fun x hx => hf x (by simp [hx]))
      have e1 : subI32 "getPossibleIntervals: rows_[r].maxX - w" r.rect.maxX w = .ok (r.rect.maxX - w) :=
        subI32_ok (by omega) (by omega)
      unfold levelIvsC levelIvs
      by_cases hy : r.rect.minY ≠ y
      · simp [hy]
      · simp only [hy, if_false, e1, andThen_ok, ihh.1]
        by_cases hge : r.rect.maxX - w ≥ f
        · simp only [hge, if_true, true_and]
          intro iv hiv
          rcases List.mem_cons.mp hiv with h | h
          · subst h; unfold IvOk; simp only; omega
          · exact ihh.2 iv h
        · simp only [hge, if_false, true_and]
          exact ihh.2

theorem meetIv_ok {w : Int} {i1 i2 iv : Int × Int} (h1 : IvOk w i1) (h2 : IvOk w i2) (h : meetIv i1 i2 = some iv) :
    IvOk w iv := by
  unfold meetIv at h
  split at h
  · rename_i hc
    simp only [Bool.and_eq_true, decide_eq_true_eq] at hc
    cases h
    unfold IvOk at *
    simp only
    omega
  · cases h

theorem crossIvs_ok {w : Int} {a b : List (Int × Int)} (ha : ∀ iv ∈ a, IvOk w iv) (hb : ∀ iv ∈ b, IvOk w iv) :
    ∀ iv ∈ crossIvs a b, IvOk w iv := by
  intro iv hiv
  unfold crossIvs at hiv
  rcases List.mem_flatMap.mp hiv with ⟨i1, hi1, hm⟩
  rcases List.mem_filterMap.mp hm with ⟨i2, hi2, hmeet⟩
  exact meetIv_ok (ha i1 hi1) (hb i2 hi2) hmeet

theorem tc_startRow_eq (rows : List Row) (y : Int) : startRow rows y = (closestRow rows y).toNat := rfl

theorem possibleIvsC_ok {rows : List Row} {rowH : Int} {free : List Int} {w : Int} (hr : RowsOk rows)
    (hf : FreeOk free) (hH1 : 1 ≤ rowH) (hH2 : rowH ≤ 2 * M22) (hw0 : 0 ≤ w) (hw : w ≤ M22) :
    ∀ (fuel : Nat) (h y : Int), -M22 ≤ y → y ≤ 2 * M22 → y + h ≤ 2 * M22 → h ≤ M22 →
      possibleIvsC rows rowH free w fuel h y = .ok (possibleIvs rows rowH free w fuel h y) ∧
      ∀ iv ∈ possibleIvs rows rowH free w fuel h y, IvOk w iv := by
  intro fuel
  induction fuel with
  | zero => intro h y _ _ _ _; simp [possibleIvsC, possibleIvs]
  | succ fuel ih =>
    intro h y hy1 hy2 hyh hh
    have ec := closestRowC_ok hr (y := y) (by omega) (by omega)
    have el := levelIvsC_ok (y := y) hw0 hw (rows.drop (closestRow rows y).toNat) (free.drop (closestRow rows y).toNat)
      (rowsOk_drop hr _) (freeOk_drop hf _)
    unfold possibleIvsC possibleIvs
    simp only [ec, andThen_ok, el.1, tc_startRow_eq]
    by_cases hc : (h ≤ rowH || (levelIvs w y (rows.drop (closestRow rows y).toNat) (free.drop (closestRow rows y).toNat)).isEmpty) = true
    · simp only [hc, if_true, true_and]
      exact el.2
    · simp only [hc]
      simp only [Bool.or_eq_true, decide_eq_true_eq, not_or] at hc
      have e1 : subI32 "getPossibleIntervals: h - rowHeight()" h rowH = .ok (h - rowH) := subI32_ok (by omega) (by omega)
      have e2 : addI32 "getPossibleIntervals: y + rowHeight()" y rowH = .ok (y + rowH) := addI32_ok (by omega) (by omega)
      have ihh := ih (h - rowH) (y + rowH) (by omega) (by omega) (by omega) (by omega)
      simp only [e1, e2, andThen_ok, ihh.1, Bool.false_eq_true, if_false, true_and]
      exact crossIvs_ok el.2 ihh.2

/-! ### attemptPlacement -/

/-- a found position: the cell `[d, d + w]` lies within ±2^22 -/
def AccOk (w : Int) (acc : Option Int) : Prop := ∀ d, acc = some d → -M22 ≤ d ∧ d + w ≤ M22

theorem tc_clamp_mem {x b e : Int} (h : b ≤ e) : b ≤ clamp x b e ∧ clamp x b e ≤ e := by
  unfold clamp; split
  · omega
  · split <;> omega

theorem closestStepC_ok {x w : Int} {acc : Option Int} {iv : Int × Int} (hx1 : -T29 ≤ x) (hx2 : x ≤ T29)
    (hw0 : 0 ≤ w) (hiv : IvOk w iv) (hacc : AccOk w acc) :
    closestStepC x acc iv = .ok (closestStep x acc iv) ∧ AccOk w (closestStep x acc iv) := by
  obtain ⟨i1, i2, i3⟩ := hiv
  have hc := tc_clamp_mem (x := x) i2
  cases acc with
  | none =>
    refine ⟨rfl, ?_⟩
    intro d hd
    simp only [closestStep, Option.some.injEq] at hd
    omega
  | some d =>
    have hd := hacc d rfl
    have e1 : subI32 "attemptPlacement: pos - x" (clamp x iv.1 iv.2) x = .ok (clamp x iv.1 iv.2 - x) :=
      subI32_ok (by omega) (by omega)
    have e2 : absI32 "attemptPlacement: std::abs(pos - x)" (clamp x iv.1 iv.2 - x) = .ok (iabs (clamp x iv.1 iv.2 - x)) :=
      absI32_ok (by omega) (by omega)
    have e3 : subI32 "attemptPlacement: dest - x" d x = .ok (d - x) := subI32_ok (by omega) (by omega)
    have e4 : absI32 "attemptPlacement: std::abs(dest - x)" (d - x) = .ok (iabs (d - x)) := absI32_ok (by omega) (by omega)
    constructor
    · simp only [closestStepC, e1, e2, e3, e4, andThen_ok, closestStep]
    · intro d' hd'
      simp only [closestStep] at hd'
      split at hd'
      · simp only [Option.some.injEq] at hd'; omega
      · simp only [Option.some.injEq] at hd'; omega

theorem closestInSegC_ok {x w : Int} {r : Row} {acc : Option Int} {iv : Int × Int} (hx1 : -T29 ≤ x) (hx2 : x ≤ T29)
    (hw0 : 0 ≤ w) (hw : w ≤ M22) (hiv : IvOk w iv) (hacc : AccOk w acc) :
    closestInSegC x w r acc iv = .ok (closestInSeg x w r acc iv) ∧ AccOk w (closestInSeg x w r acc iv) := by
  have hs := closestStepC_ok hx1 hx2 hw0 hiv hacc
  obtain ⟨i1, i2, i3⟩ := hiv
  have e1 : addI32 "attemptPlacement: e + width" iv.2 w = .ok (iv.2 + w) := addI32_ok (by omega) (by omega)
  unfold closestInSegC closestInSeg
  by_cases h1 : iv.1 < r.rect.minX
  · simp only [h1, if_true, decide_true, Bool.true_or]
    exact ⟨trivial, hacc⟩
  · by_cases h2 : iv.2 + w > r.rect.maxX
    · simp only [h1, if_false, e1, andThen_ok, h2, if_true, decide_true, decide_false, Bool.or_true]
      exact ⟨trivial, hacc⟩
    · simp only [h1, if_false, e1, andThen_ok, h2, decide_false, Bool.or_self, Bool.false_eq_true]
      exact hs

theorem foldlC_ok {α β : Type} (P : β → Prop) (Q : α → Prop) (f : β → α → β) (fC : β → α → Except Fault β)
    (hf : ∀ b a, P b → Q a → fC b a = .ok (f b a) ∧ P (f b a)) :
    ∀ (l : List α) (b : β), P b → (∀ a ∈ l, Q a) → foldlC fC l b = .ok (l.foldl f b) ∧ P (l.foldl f b) := by
  intro l
  induction l with
  | nil => intro b hb _; exact ⟨rfl, hb⟩
  | cons a as ih =>
    intro b hb hq
    have h1 := hf b a hb (hq a (by simp))
    have h2 := ih (f b a) h1.2 (fun x hx => hq x (by simp [hx]))
    simp only [foldlC, h1.1, andThen_ok, List.foldl_cons]
    exact h2

theorem attemptSegsC_ok {rows : List Row} {c : LCell} {y : Int} {ivs : List (Int × Int)}
    {ivsC : Except Fault (List (Int × Int))} (hivs : ivsC = .ok ivs) (hok : ∀ iv ∈ ivs, IvOk c.w iv)
    (hx1 : -T29 ≤ c.tx) (hx2 : c.tx ≤ T29) (hw0 : 0 ≤ c.w) (hw : c.w ≤ M22) :
    ∀ (l : List Row) (i : Nat) (acc : Option Int), AccOk c.w acc →
      attemptSegsC rows c y ivsC i l acc = .ok (attemptSegs rows c y ivs i l acc) ∧
      AccOk c.w (attemptSegs rows c y ivs i l acc) := by
  subst hivs
  intro l
  induction l with
  | nil => intro i acc ha; exact ⟨rfl, ha⟩
  | cons r rs ih =>
    intro i acc ha
    rw [attemptSegsC, attemptSegs]
    by_cases h1 : r.rect.minY ≠ y
    · rw [if_pos h1, if_pos h1]; exact ⟨rfl, ha⟩
    · rw [if_neg h1, if_neg h1]
      by_cases h2 : getOrientation rows c i = Orient.INVALID
      · rw [if_pos h2, if_pos h2]
        exact ih (i + 1) acc ha
      · have hfold := foldlC_ok (AccOk c.w) (IvOk c.w) (closestInSeg c.tx c.w r) (closestInSegC c.tx c.w r)
          (fun b a hb hq => closestInSegC_ok hx1 hx2 hw0 hw hq hb) ivs acc ha hok
        rw [if_neg h2, if_neg h2]
        simp only [andThen_ok, hfold.1]
        exact ih (i + 1) _ hfold.2

theorem accOk_none (w : Int) : AccOk w none := by intro d hd; cases hd

theorem tc_attempt_eq (t : Tetris) (c : LCell) (y : Int) : attempt t c y = attemptPerSeg t c y := by
  simp [attempt, tetrisPerSegmentOrientation]

theorem attemptC_ok {t : Tetris} (hd : TDom t) {c : LCell} (hc : CellOkT c) {y : Int} (hy1 : -M22 ≤ y) (hy2 : y ≤ M22) :
    attemptC t c y = .ok (attempt t c y) ∧ AccOk c.w (attempt t c y) := by
  obtain ⟨c1, c2, c3, c4, c5, c6, c7⟩ := hc
  have ec := closestRowC_ok hd.rows (y := y) (by omega) (by omega)
  have ep := possibleIvsC_ok hd.rows hd.free hd.rowH1 hd.rowH2 c1 c2 (c.h.toNat + 1) c.h y hy1 (by omega) (by omega) c3
  have hs := attemptSegsC_ok (rows := t.rows) (c := c) (y := y) ep.1 ep.2 c4 c5 c1 c2
    (t.rows.drop (closestRow t.rows y).toNat) (closestRow t.rows y).toNat none (accOk_none _)
  rw [tc_attempt_eq]
  unfold attemptC attemptPerSeg
  simp only [ec, andThen_ok, tc_startRow_eq]
  exact hs

/-! ### placeCell -/

theorem distC_ok {c : LCell} (hc : CellOkT c) {x y : Int} (hx1 : -M22 ≤ x) (hx2 : x ≤ M22) (hy1 : -M22 ≤ y) (hy2 : y ≤ M22) :
    distC c x y = .ok (iabs (c.tx - x) + iabs (c.ty - y)) := by
  obtain ⟨c1, c2, c3, c4, c5, c6, c7⟩ := hc
  have e1 : subI32 "placeCell: targetX - x" c.tx x = .ok (c.tx - x) := subI32_ok (by omega) (by omega)
  have e2 : absI32 "placeCell: std::abs(targetX - x)" (c.tx - x) = .ok (iabs (c.tx - x)) := absI32_ok (by omega) (by omega)
  have e3 : subI32 "placeCell: targetY - y" c.ty y = .ok (c.ty - y) := subI32_ok (by omega) (by omega)
  have e4 : absI32 "placeCell: std::abs(targetY - y)" (c.ty - y) = .ok (iabs (c.ty - y)) := absI32_ok (by omega) (by omega)
  have e5 : addI32 "placeCell: std::abs(…) + std::abs(…)" (iabs (c.tx - x)) (iabs (c.ty - y)) =
      .ok (iabs (c.tx - x) + iabs (c.ty - y)) := by
    rw [tc_iabs_eq, tc_iabs_eq]; exact addI32_ok (by omega) (by omega)
  simp only [distC, e1, e2, e3, e4, e5, andThen_ok]

/-- the best candidate so far lies within ±2^22 -/
def BestOk (w : Int) (b : Option Best) : Prop :=
  ∀ bb, b = some bb → -M22 ≤ bb.x ∧ bb.x + w ≤ M22 ∧ -M22 ≤ bb.y ∧ bb.y ≤ M22

theorem tetrisTryC_ok {t : Tetris} (hd : TDom t) {c : LCell} (hc : CellOkT c) (row : Nat) {b : Option Best}
    (hb : BestOk c.w b) :
    tetrisTryC t c row b = .ok (tetrisTry t c row b) ∧ BestOk c.w (tetrisTry t c row b).1 := by
  have hr := tc_rowAt_ok hd.rows row
  obtain ⟨_, _, _, y1, y2⟩ := hr
  have ha := attemptC_ok hd hc y1 y2
  have hc' := hc
  obtain ⟨c1, c2, c3, c4, c5, c6, c7⟩ := hc
  -- the part after the early-exit test
  have key : attemptDistC t c (rowAt t.rows row).rect.minY b =
      .ok (match attempt t c (rowAt t.rows row).rect.minY with
        | none => (b, false)
        | some x =>
          match b with
          | some bb =>
            if iabs (c.tx - x) + iabs (c.ty - (rowAt t.rows row).rect.minY) < bb.dist then
              (some ⟨x, (rowAt t.rows row).rect.minY, iabs (c.tx - x) + iabs (c.ty - (rowAt t.rows row).rect.minY)⟩, false)
            else (b, false)
          | none => (some ⟨x, (rowAt t.rows row).rect.minY,
                           iabs (c.tx - x) + iabs (c.ty - (rowAt t.rows row).rect.minY)⟩, false)) := by
    unfold attemptDistC
    rw [ha.1]
    simp only [andThen_ok]
    cases hat : attempt t c (rowAt t.rows row).rect.minY with
    | none => rfl
    | some x =>
      have hx := ha.2 x hat
      have ed := distC_ok hc' (x := x) (y := (rowAt t.rows row).rect.minY) hx.1 (by omega) y1 y2
      simp only [ed, andThen_ok]
      cases b <;> rfl
  cases b with
  | none =>
    unfold tetrisTryC tetrisTry
    simp only [key]
    cases hat : attempt t c (rowAt t.rows row).rect.minY with
    | none => exact ⟨rfl, hb⟩
    | some x =>
      refine ⟨rfl, ?_⟩
      have hx := ha.2 x hat
      intro bb hbb
      simp only [Option.some.injEq] at hbb
      subst hbb
      simp only
      omega
  | some bb =>
    have e1 : subI32 "placeCell: targetY - y (early exit)" c.ty (rowAt t.rows row).rect.minY =
        .ok (c.ty - (rowAt t.rows row).rect.minY) := subI32_ok (by omega) (by omega)
    have e2 : absI32 "placeCell: std::abs(targetY - y) (early exit)" (c.ty - (rowAt t.rows row).rect.minY) =
        .ok (iabs (c.ty - (rowAt t.rows row).rect.minY)) := absI32_ok (by omega) (by omega)
    unfold tetrisTryC tetrisTry
    simp only [e1, e2, andThen_ok]
    by_cases hstop : iabs (c.ty - (rowAt t.rows row).rect.minY) ≥ bb.dist
    · rw [if_pos hstop, if_pos hstop]; exact ⟨rfl, hb⟩
    · rw [if_neg hstop, if_neg hstop, key]
      cases hat : attempt t c (rowAt t.rows row).rect.minY with
      | none => exact ⟨rfl, hb⟩
      | some x =>
        have hx := ha.2 x hat
        simp only
        refine ⟨trivial, ?_⟩
        split
        · intro b' hb'
          simp only [Option.some.injEq] at hb'
          subst hb'
          simp only
          omega
        · exact hb

theorem scanRowsC_ok {σ : Type} (P : σ → Prop) (f : Nat → σ → σ × Bool) (fC : Nat → σ → Except Fault (σ × Bool))
    (hf : ∀ r s, P s → fC r s = .ok (f r s) ∧ P (f r s).1) :
    ∀ (l : List Nat) (s : σ), P s → scanRowsC fC l s = .ok (scanRows f l s) ∧ P (scanRows f l s) := by
  intro l
  induction l with
  | nil => intro s hs; exact ⟨rfl, hs⟩
  | cons r rs ih =>
    intro s hs
    have h1 := hf r s hs
    unfold scanRowsC scanRows
    rw [h1.1]
    simp only [andThen_ok]
    rcases hfr : f r s with ⟨s', bo⟩
    rw [hfr] at h1
    cases bo with
    | true => simp only [if_true]; exact ⟨trivial, h1.2⟩
    | false => simp only [Bool.false_eq_true, if_false]; exact ih s' h1.2

theorem searchRowsC_ok {σ : Type} (P : σ → Prop) (f : Nat → σ → σ × Bool) (fC : Nat → σ → Except Fault (σ × Bool))
    (hf : ∀ r s, P s → fC r s = .ok (f r s) ∧ P (f r s).1) (n init : Nat) (s : σ) (hs : P s) :
    searchRowsC fC n init s = .ok (searchRows f n init s) ∧ P (searchRows f n init s) := by
  have h1 := scanRowsC_ok P f fC hf (upRows n init) s hs
  have h2 := scanRowsC_ok P f fC hf (downRows init) _ h1.2
  unfold searchRowsC searchRows
  simp only [h1.1, andThen_ok]
  exact h2

/-! ### instanciateCell -/

theorem markLevelC_ok {x w y : Int} (hx1 : -M22 ≤ x) (hw0 : 0 ≤ w) (hx2 : x + w ≤ M22) :
    ∀ (rows : List Row) (free : List Int), FreeOk free →
      markLevelC x w y rows free = .ok (markLevel x w y rows free) ∧ FreeOk (markLevel x w y rows free) := by
  have e1 : addI32 "instanciateCell: x + w" x w = .ok (x + w) := addI32_ok (by omega) (by omega)
  intro rows
  induction rows with
  | nil => intro free hf; cases free <;> exact ⟨rfl, hf⟩
  | cons r rs ih =>
    intro free hf
    cases free with
    | nil => exact ⟨rfl, hf⟩
    | cons f fs =>
      have hf0 := hf f (by simp)
      have ihh := ih fs (fun a ha => hf a (by simp [ha]))
      rw [markLevelC, markLevel]
      by_cases hy : r.rect.minY ≠ y
      · rw [if_pos hy, if_pos hy]; exact ⟨rfl, hf⟩
      · rw [if_neg hy, if_neg hy]
        by_cases hlt : x < r.rect.maxX
        · rw [if_pos hlt]
          simp only [e1, andThen_ok, ihh.1]
          by_cases hgt : x + w > r.rect.minX
          · have hb : (decide (x < r.rect.maxX) && decide (x + w > r.rect.minX)) = true := by simp [hlt, hgt]
            rw [if_pos hgt, if_pos hb]
            refine ⟨rfl, ?_⟩
            intro a ha
            rcases List.mem_cons.mp ha with h | h
            · omega
            · exact ihh.2 a h
          · have hb : ¬ (decide (x < r.rect.maxX) && decide (x + w > r.rect.minX)) = true := by simp [hlt, hgt]
            rw [if_neg hgt, if_neg hb]
            refine ⟨rfl, ?_⟩
            intro a ha
            rcases List.mem_cons.mp ha with h | h
            · omega
            · exact ihh.2 a h
        · have hb : ¬ (decide (x < r.rect.maxX) && decide (x + w > r.rect.minX)) = true := by simp [hlt]
          rw [if_neg hlt, if_neg hb]
          simp only [ihh.1, andThen_ok]
          refine ⟨trivial, ?_⟩
          intro a ha
          rcases List.mem_cons.mp ha with h | h
          · omega
          · exact ihh.2 a h

theorem instanciateC_ok {rows : List Row} {rowH x w : Int} (hr : RowsOk rows) (hH1 : 1 ≤ rowH) (hH2 : rowH ≤ 2 * M22)
    (hx1 : -M22 ≤ x) (hw0 : 0 ≤ w) (hx2 : x + w ≤ M22) :
    ∀ (fuel : Nat) (y h : Int) (free : List Int), FreeOk free → -M22 ≤ y → y ≤ 2 * M22 → y + h ≤ 2 * M22 → h ≤ M22 →
      instanciateC rows rowH x w fuel y h free = .ok (instanciate rows rowH x w fuel y h free) ∧
      FreeOk (instanciate rows rowH x w fuel y h free) := by
  intro fuel
  induction fuel with
  | zero => intro y h free hf _ _ _ _; exact ⟨rfl, hf⟩
  | succ fuel ih =>
    intro y h free hf hy1 hy2 hyh hh
    unfold instanciateC instanciate
    by_cases h0 : (h ≤ 0 || w ≤ 0) = true
    · simp only [h0, if_true]; exact ⟨trivial, hf⟩
    · have ec := closestRowC_ok hr (y := y) (by omega) (by omega)
      have em := markLevelC_ok (y := y) hx1 hw0 hx2 (rows.drop (closestRow rows y).toNat) (free.drop (closestRow rows y).toNat)
        (freeOk_drop hf _)
      have hnew : FreeOk (free.take (closestRow rows y).toNat ++
          markLevel x w y (rows.drop (closestRow rows y).toNat) (free.drop (closestRow rows y).toNat)) :=
        freeOk_append (freeOk_take hf _) em.2
      simp only [h0, Bool.false_eq_true, if_false, ec, andThen_ok, em.1, tc_startRow_eq]
      simp only [Bool.or_eq_true, decide_eq_true_eq, not_or] at h0
      by_cases hle : h ≤ rowH
      · simp only [hle, if_true]; exact ⟨trivial, hnew⟩
      · have e1 : addI32 "instanciateCell: y + rowHeight()" y rowH = .ok (y + rowH) := addI32_ok (by omega) (by omega)
        have e2 : subI32 "instanciateCell: h - rowHeight()" h rowH = .ok (h - rowH) := subI32_ok (by omega) (by omega)
        simp only [hle, if_false, e1, e2, andThen_ok]
        exact ih (y + rowH) (h - rowH) _ hnew (by omega) (by omega) (by omega) (by omega)

/-! ### placeCell, run -/

theorem bestOk_none (w : Int) : BestOk w none := by intro b hb; cases hb

theorem tc_orientRow_eq (rows : List Row) (x y : Int) :
    orientRow rows x y = segOf x y (closestRow rows y).toNat (rows.drop ((closestRow rows y).toNat + 1)) := by
  simp [orientRow, tetrisPerSegmentOrientation, startRow]

theorem tetrisPlaceC_ok {t : Tetris} (hd : TDom t) {c : LCell} (hc : CellOkT c) :
    tetrisPlaceC t c = .ok (tetrisPlace t c) ∧ TDom (tetrisPlace t c).1 := by
  have hc' := hc
  obtain ⟨c1, c2, c3, c4, c5, c6, c7⟩ := hc
  have hne : t.rows.isEmpty = false := by
    cases hrows : t.rows with
    | nil => exact absurd hrows hd.nonempty
    | cons _ _ => rfl
  have ec := closestRowC_ok hd.rows (y := c.ty) c6 c7
  have hs := searchRowsC_ok (BestOk c.w) (tetrisTry t c) (tetrisTryC t c)
    (fun r s hs => tetrisTryC_ok hd hc' r hs) t.rows.length (closestRow t.rows c.ty).toNat none (bestOk_none _)
  unfold tetrisPlaceC tetrisPlace
  simp only [hne, Bool.false_eq_true, if_false, ec, andThen_ok, hs.1, tc_startRow_eq]
  cases hres : searchRows (tetrisTry t c) t.rows.length (closestRow t.rows c.ty).toNat none with
  | none => exact ⟨rfl, hd⟩
  | some b =>
    have hb := hs.2 b hres
    obtain ⟨b1, b2, b3, b4⟩ := hb
    have ecb := closestRowC_ok hd.rows (y := b.y) (by omega) (by omega)
    have ei := instanciateC_ok (rows := t.rows) (rowH := t.rowH) (x := b.x) (w := c.w) hd.rows hd.rowH1 hd.rowH2 b1 c1 b2
      (c.h.toNat + 1) b.y c.h t.free hd.free b3 (by omega) (by omega) c3
    simp only [ecb, andThen_ok, ei.1, tc_orientRow_eq]
    exact ⟨trivial, ⟨hd.rows, ei.2, hd.rowH1, hd.rowH2, hd.nonempty⟩⟩

theorem tetrisRunC_ok : ∀ (cells : List LCell) (t : Tetris), TDom t → (∀ c ∈ cells, CellOkT c) →
    tetrisRunC t cells = .ok (tetrisRun t cells) := by
  intro cells
  induction cells with
  | nil => intro t _ _; rfl
  | cons c cs ih =>
    intro t hd hc
    have h1 := tetrisPlaceC_ok hd (hc c (by simp))
    have h2 := ih (tetrisPlace t c).1 h1.2 (fun x hx => hc x (by simp [hx]))
    unfold tetrisRunC tetrisRun
    simp only [h1.1, andThen_ok, h2]

/-! ### constructor -/

theorem tc_mem_insertRow {x y : Row} : ∀ {l : List Row}, y ∈ insertRow x l → y = x ∨ y ∈ l := by
  intro l
  induction l with
  | nil => intro h; simp [insertRow] at h; exact Or.inl h
  | cons z zs ih =>
    intro h
    unfold insertRow at h
    split at h
    · rcases List.mem_cons.mp h with h1 | h1
      · exact Or.inr (by simp [h1])
      · rcases ih h1 with h2 | h2
        · exact Or.inl h2
        · exact Or.inr (by simp [h2])
    · rcases List.mem_cons.mp h with h1 | h1
      · exact Or.inl h1
      · exact Or.inr h1

theorem tc_mem_sortRows {y : Row} : ∀ {l : List Row}, y ∈ sortRows l → y ∈ l := by
  intro l
  induction l with
  | nil => intro h; simp [sortRows] at h
  | cons x xs ih =>
    intro h
    have h' : y ∈ insertRow x (sortRows xs) := by simpa [sortRows] using h
    rcases tc_mem_insertRow h' with h1 | h1
    · simp [h1]
    · simp [ih h1]

theorem tc_insertRow_ne_nil (x : Row) (l : List Row) : insertRow x l ≠ [] := by
  cases l with
  | nil => simp [insertRow]
  | cons z zs => unfold insertRow; split <;> simp

theorem tc_sortRows_ne_nil {l : List Row} (h : l ≠ []) : sortRows l ≠ [] := by
  cases l with
  | nil => exact absurd rfl h
  | cons x xs =>
    have : sortRows (x :: xs) = insertRow x (sortRows xs) := by simp [sortRows]
    rw [this]; exact tc_insertRow_ne_nil _ _

/-- a row of the domain, with its top: all four coordinates within ±2^22, positive height -/
def RowOkFull (r : Row) : Prop := RowOkT r ∧ 1 ≤ r.rect.maxY - r.rect.minY ∧ r.rect.maxY ≤ M22

theorem initC_ok {rows : List Row} (hne : rows ≠ []) (hr : ∀ r ∈ rows, RowOkFull r) :
    Tetris.initC rows = .ok (Tetris.init rows) ∧ TDom (Tetris.init rows) := by
  have hs : ∀ r ∈ sortRows rows, RowOkFull r := fun r h => hr r (tc_mem_sortRows h)
  have hsne := tc_sortRows_ne_nil hne
  cases hsr : sortRows rows with
  | nil => exact absurd hsr hsne
  | cons r0 rest =>
    have h0 := hs r0 (by rw [hsr]; simp)
    obtain ⟨⟨_, _, _, y1, y2⟩, hh, hm⟩ := h0
    have e1 : subI32 "Row::height: maxY - minY" r0.rect.maxY r0.rect.minY = .ok (r0.rect.maxY - r0.rect.minY) :=
      subI32_ok (by omega) (by omega)
    constructor
    · simp only [Tetris.initC, Tetris.init, hsr, List.head?_cons, e1, andThen_ok, Option.map_some, Option.getD_some,
        Rect.height]
    · refine ⟨?_, ?_, ?_, ?_, ?_⟩
      · intro r h
        have : r ∈ sortRows rows := by simpa [Tetris.init] using h
        exact (hs r this).1
      · intro f h
        have : f ∈ (sortRows rows).map (·.rect.minX) := by simpa [Tetris.init] using h
        rcases List.mem_map.mp this with ⟨r, hrm, rfl⟩
        obtain ⟨⟨a, b, c, _, _⟩, _, _⟩ := hs r hrm
        exact ⟨a, by omega⟩
      · simp only [Tetris.init, hsr, List.head?_cons, Option.map_some, Option.getD_some, Rect.height]; omega
      · simp only [Tetris.init, hsr, List.head?_cons, Option.map_some, Option.getD_some, Rect.height]; omega
      · simp only [Tetris.init]; exact hsne

end ColoVerif.Legalize
